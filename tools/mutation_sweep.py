#!/usr/bin/env python3
"""Automatic single-site mutation sweep of /repo against the pinned test suite and the quick tier of the checks.

  tools/mutation_sweep.py --n 300 --seed 1 --out /tmp/mutsweep.jsonl [--files consensus/merkle.go,...] [--kinds guard,binop]

For every sampled mutation (tools/mutgen: relational boundary, equality flip, && / ||, + / -, literal +1, guard
removal, condition negation, statement deletion) it
  1. writes the mutated file into a scratch worktree of /repo (never /repo itself),
  2. builds; a mutant that does not build is dropped,
  3. runs the pinned suite (go test ./...): a mutant the suite kills is of no interest,
  4. runs the quick tier of the checks mapped to the file (VERIF_REPO=<worktree>) until one reports a VIOLATION.
A surviving mutant (suite passes, every mapped check stays green) is either equivalent / outside every property, or a
gap in the checks; survivors are triaged by hand (DESIGN.md 11.7). One JSON line per mutant is appended to --out.
"""
import argparse, json, os, random, subprocess, sys, tempfile, time

ROOT = os.path.dirname(os.path.dirname(os.path.abspath(__file__)))

FILES = {
    "consensus/validation.go": ["C10", "C02", "C03", "C04", "C07", "C08", "C01", "C09", "C13"],
    "consensus/application.go": ["C01", "C06", "C07", "C13", "C05", "C10", "C09"],
    "consensus/merkle.go": ["C05", "C04", "C06", "C07", "C18", "C11"],
    "consensus/state.go": ["C01", "C12", "C13", "C08", "C03", "C07", "C11"],
    "types/policy.go": ["C14", "C20", "C08", "C03"],
    "types/currency.go": ["C15", "C20", "C11"],
    "types/multiproof.go": ["C18", "C11", "C10"],
    "types/encoding.go": ["C11", "C12", "C10", "C18"],
    "types/types.go": ["C12", "C20", "C09", "C11", "C03"],
    "types/hash.go": ["C14", "C12", "C11", "C03"],
    "rhp/v2/merkle.go": ["C16", "C07"],
    "rhp/v4/merkle.go": ["C16"],
    "rhp/v4/rhp.go": ["C17", "C19", "C20"],
    "rhp/v4/validation.go": ["C17", "C19"],
    "rhp/v4/transport.go": ["C19"],
    "rhp/v4/encoding.go": ["C19", "C11", "C10"],
    "rhp/v2/transport.go": ["C19"],
    "rhp/v3/transport.go": ["C19"],
    "rhp/v2/contracts.go": ["C17"],
    "rhp/v3/contracts.go": ["C17"],
    "gateway/outline.go": ["C18", "C19"],
    "gateway/encoding.go": ["C11", "C19", "C18", "C10"],
    "gateway/transport.go": ["C19"],
    "blake2b/blake2b.go": ["C16"],
}
KIND_WEIGHT = {"guard": 3.0, "binop": 2.0, "delstmt": 1.5, "negate": 0.7, "lit": 0.5}


def goenv():
    env = dict(os.environ)
    env["GOPROXY"] = "off"
    env.pop("GOFLAGS", None)
    env.pop("GOSUMDB", None)
    env.pop("GOTOOLCHAIN", None)
    return env


def main():
    ap = argparse.ArgumentParser()
    ap.add_argument("--n", type=int, default=100)
    ap.add_argument("--seed", type=int, default=1)
    ap.add_argument("--out", required=True)
    ap.add_argument("--files", default="")
    ap.add_argument("--kinds", default="")
    ap.add_argument("--repo", default=os.environ.get("VP_RUN_REPO", "/repo"))
    a = ap.parse_args()
    tmp = tempfile.mkdtemp(prefix="vmutsweep-")
    mutgen = os.path.join(tmp, "mutgen")
    e = dict(os.environ, GOFLAGS="-mod=mod", GOPROXY="off", GOTOOLCHAIN="local")
    subprocess.run(["go", "build", "-o", mutgen, "."], cwd=os.path.join(ROOT, "tools", "mutgen"), env=e, check=True)
    files = [f for f in (a.files.split(",") if a.files else FILES) if f]
    kinds = set(a.kinds.split(",")) if a.kinds else None
    sites = []
    for f in files:
        out = subprocess.run([mutgen, "-file", os.path.join(a.repo, f), "-list"], stdout=subprocess.PIPE, text=True, check=True).stdout
        for line in out.splitlines():
            i, ln, kind, desc = line.split("\t", 3)
            if kinds and kind not in kinds:
                continue
            sites.append((f, int(i), int(ln), kind, desc))
    rng = random.Random(a.seed)
    weights = [KIND_WEIGHT.get(s[3], 1.0) / (1 + 0.002 * sum(1 for t in sites if t[0] == s[0])) for s in sites]
    picked, seen = [], set()
    while len(picked) < min(a.n, len(sites)):
        s = rng.choices(sites, weights)[0]
        if (s[0], s[1]) not in seen:
            seen.add((s[0], s[1]))
            picked.append(s)
    wt = os.path.join(tmp, "wt")
    subprocess.run(["git", "-C", a.repo, "worktree", "add", "--detach", "-q", wt, "HEAD"], check=True)
    try:
        for k, (f, i, ln, kind, desc) in enumerate(picked):
            rec = {"file": f, "id": i, "line": ln, "kind": kind, "desc": desc, "result": "error"}
            t0 = time.time()
            subprocess.run([mutgen, "-file", os.path.join(a.repo, f), "-id", str(i), "-out", os.path.join(wt, f)], check=True)
            try:
                try:
                    p = subprocess.run(["go", "build", "./..."], cwd=wt, env=goenv(), stdout=subprocess.PIPE, stderr=subprocess.STDOUT, text=True, timeout=300)
                except subprocess.TimeoutExpired:
                    rec["result"] = "nobuild"
                    continue
                if p.returncode != 0:
                    rec["result"] = "nobuild"
                    continue
                try:
                    p = subprocess.run(["go", "test", "-vet=off", "-count=1", "-timeout", "300s", "./..."], cwd=wt, env=goenv(), stdout=subprocess.PIPE, stderr=subprocess.STDOUT, text=True, timeout=400)
                    suite_ok = p.returncode == 0
                except subprocess.TimeoutExpired:
                    suite_ok = False
                if not suite_ok:
                    rec["result"] = "killed-by-suite"
                    continue
                rec["result"] = "SURVIVED"
                rec["checks"] = {}
                for c in FILES.get(f, []):
                    env = dict(os.environ, VERIF_REPO=wt)
                    try:
                        p = subprocess.run([os.path.join(ROOT, "run"), c, "quick"], cwd=ROOT, env=env, stdout=subprocess.PIPE, stderr=subprocess.STDOUT, text=True, errors="replace", timeout=1500)
                        rc = p.returncode
                    except subprocess.TimeoutExpired:
                        rc = 2
                    rec["checks"][c] = rc
                    if rc == 1:
                        rec["result"] = "killed-by-" + c
                        msg = [l for l in p.stdout.splitlines() if "] " in l and "[C" in l]
                        rec["how"] = msg[0][-300:] if msg else ""
                        break
            finally:
                rec["secs"] = round(time.time() - t0, 1)
                subprocess.run(["git", "-C", wt, "checkout", "--", f])
                with open(a.out, "a") as fh:
                    fh.write(json.dumps(rec) + "\n")
                print(k, rec["result"], f, ln, kind, desc, rec["secs"], flush=True)
    finally:
        subprocess.run(["git", "-C", a.repo, "worktree", "remove", "--force", wt])
        subprocess.run(["git", "-C", a.repo, "worktree", "prune"])
        subprocess.run(["rm", "-rf", tmp, os.path.join(tempfile.gettempdir(), "verif-scratch-replays"), os.path.join(tempfile.gettempdir(), "verif-scratch-evidence")])


if __name__ == "__main__":
    main()
