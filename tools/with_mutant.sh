#!/bin/bash
# usage: with_mutant.sh <patch-file|-e 'sed-expr' file> -- <command...>
# Creates a scratch worktree of /repo under /tmp, applies the change, runs the command with
# VERIF_REPO pointing at it, then removes the worktree. Never touches /repo's working tree.
set -u
W=$(mktemp -d /tmp/vmut-XXXXXX)
rmdir "$W"
git -C /repo worktree add --detach -q "$W" HEAD || exit 3
cleanup(){ git -C /repo worktree remove --force "$W" >/dev/null 2>&1; rm -rf "$W"; git -C /repo worktree prune; }
trap cleanup EXIT
if [ "$1" = "-e" ]; then
  sed -i -E "$2" "$W/$3" || exit 3
  shift 3
else
  git -C "$W" apply "$1" || exit 3
  shift
fi
[ "$1" = "--" ] && shift
( cd "$W" && git diff --stat | tail -1 )
if [ -z "$(git -C "$W" diff)" ]; then echo "mutant is a no-op"; exit 3; fi
VERIF_REPO="$W" "$@"
