#!/usr/bin/env python3
"""Runs /repo's test suite (no build tags) and compares the set of passing tests with /root/.vp/BASELINE.json stable_pass."""
import json, subprocess, sys, os
env = dict(os.environ, GOPROXY="off")
env.pop("GOFLAGS", None)
p = subprocess.run(["go", "test", "-json", "-vet=off", "-count=1", "-timeout", "25m", "./..."], cwd="/repo", env=env, stdout=subprocess.PIPE, stderr=subprocess.STDOUT, text=True)
passed, failed = set(), set()
for line in p.stdout.splitlines():
    try:
        e = json.loads(line)
    except Exception:
        continue
    if e.get("Test") and e.get("Action") in ("pass", "fail"):
        (passed if e["Action"] == "pass" else failed).add(e["Package"] + "::" + e["Test"])
base = set(json.load(open("/root/.vp/BASELINE.json"))["stable_pass"])
missing = sorted(base - passed)
print("baseline stable_pass:", len(base), "passing now:", len(passed & base), "failed:", len(failed))
for m in missing[:20]:
    print("  NOT PASSING:", m)
sys.exit(1 if missing or failed else 0)
