#!/usr/bin/env python3
"""Regenerates /verif/MANIFEST.json from tools/claims.json (per-property texts) and the property list."""
import json, os
ROOT = os.path.dirname(os.path.dirname(os.path.abspath(__file__)))
props = [json.loads(l) for l in open(os.path.join(ROOT, "properties.jsonl"))]
claims = json.load(open(os.path.join(ROOT, "tools", "claims.json")))
m = {
 "version": 1,
 "setup_cmd": "./run setup",
 "hooks": {"guard": "verif",
           "enable": "checks build the harness with `go test -tags verif` against `replace go.sia.tech/core => /repo` (current working tree); no hook code exists in /repo, so the tag changes nothing there",
           "baseline_off_cmd": "cd /repo && GOPROXY=off go test -vet=off -count=1 -timeout 25m ./...",
           "source_commits": [], "add_only": True},
 "engines": [{"name": "harness", "path": "harness", "serves_properties": sorted(claims["checks"].keys()),
              "kind_free_text": "Go module: rapid v1.3.0 property tests, bounded exhaustive enumerators and native fuzz targets against independent reference models (harness/ref), a chain simulator with ledger model and client store (harness/sim), reflective value generator (harness/gen); Python driver ./run shards each check over 16 processes, aggregates measured evidence, maps failures to replay files"}],
 "checks": [], "notes": claims.get("notes", ""), "not_applicable": []}
for p in props:
    i = p["id"]
    c = claims["checks"].get(i)
    if c:
        m["checks"].append({"property_id": i, "quick_cmd": "./run %s quick" % i, "thorough_cmd": "./run %s thorough" % i,
                            "evidence_file": "evidence/%s.json" % i, "replay_cmd_template": "./run replay %s {path}" % i, "engine": "harness",
                            "level_claimed": {"category": "exploration", "text": c["text"], "design_ref": "DESIGN.md §5 " + i},
                            "level_note": c["note"], "technique": c["technique"]})
    else:
        m["not_applicable"].append({"property_id": i, "reason": claims.get("pending_reason", "not claimed yet: the generated-input check for this property is still being built (the technique applies; see DESIGN.md §5)")})
json.dump(m, open(os.path.join(ROOT, "MANIFEST.json"), "w"), indent=1)
print("claimed:", [c["property_id"] for c in m["checks"]])
