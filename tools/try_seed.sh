#!/bin/bash
# usage: try_seed.sh <seed-dir-with-patch.diff,zz_seed_demo_test.go,DEMO_PATH.txt> [check ids...]
# Confirms a seeded change in a fresh scratch worktree (applies on /repo HEAD, builds, pinned suite passes, demo fails with / passes
# without) and then runs the named checks' quick tier against it. Removes the worktree afterwards.
set -u
S=$(realpath "$1"); shift
W=$(mktemp -d /tmp/vseed-XXXXXX); rmdir "$W"
git -C /repo worktree add --detach -q "$W" HEAD || exit 3
cleanup(){ git -C /repo worktree remove --force "$W" >/dev/null 2>&1; rm -rf "$W"; git -C /repo worktree prune; }
trap cleanup EXIT
if [ -n "${SKIP_CONFIRM:-}" ]; then
  git -C "$W" apply "$S/patch.diff" || { echo "PATCH DOES NOT APPLY"; exit 3; }
else
DEMO=$(cat "$S/DEMO_PATH.txt" | tr -d '\n ')
cp "$S/zz_seed_demo_test.go" "$W/$DEMO"
PKG=./$(dirname "$DEMO")
echo "== demo WITHOUT the change (must pass)"
( cd "$W" && GOPROXY=off go test -vet=off -count=1 -run 'Seed|seed|Demo' "$PKG" 2>&1 | tail -3 )
git -C "$W" apply "$S/patch.diff" || { echo "PATCH DOES NOT APPLY"; exit 3; }
echo "== build + pinned suite WITH the change (must pass; demo excluded)"
rm "$W/$DEMO"
( cd "$W" && GOPROXY=off go build ./... && GOPROXY=off go test -vet=off -count=1 ./... 2>&1 | grep -v "no test files" | grep -v "^ok" | head -10; echo "suite-exit-ok-lines: $(cd "$W" && GOPROXY=off go test -vet=off -count=1 ./... 2>&1 | grep -c '^ok')" )
cp "$S/zz_seed_demo_test.go" "$W/$DEMO"
echo "== demo WITH the change (must fail)"
( cd "$W" && GOPROXY=off go test -vet=off -count=1 -run 'Seed|seed|Demo' "$PKG" 2>&1 | tail -4 )
rm "$W/$DEMO"
fi
for c in "$@"; do
  echo "== check $c against the change"
  ( cd /verif && VERIF_REPO="$W" ./run "$c" quick 2>&1 | grep -E "^VIOLATION|^OK prop|INCONCLUSIVE|^KNOWN|\[C[0-9]+/" | cut -c1-420 | awk '/^VIOLATION/{v++; if(v>3)next} /stats.go/{k++; if(k>2)next} {print}' | head -8 )
done
