#!/bin/bash
# usage: intake_round.sh <round> [Cxx ...]   : intake (confirm + run the property's own check) for the listed properties
# (default: all 20) of a seeding round whose agents wrote /tmp/seed<round>-<Cxx>/SEED_OUT; summary in /tmp/sweep/round<round>.txt
R=$1; shift
PROPS=${@:-C01 C02 C03 C04 C05 C06 C07 C08 C09 C10 C11 C12 C13 C14 C15 C16 C17 C18 C19 C20}
mkdir -p /tmp/sweep
for P in $PROPS; do
  [ -f /tmp/seed$R-$P/SEED_OUT/patch.diff ] || { echo "$P no-deliverable" >> /tmp/sweep/round$R.txt; continue; }
  L=/tmp/sweep/intake$R-$P.log
  /verif/tools/intake_seed.sh $P $R $P > $L 2>&1
  demo_without=$(grep -A1 "demo WITHOUT" $L | tail -1 | cut -c1-40)
  suite=$(grep "suite-exit-ok-lines" $L | tr -d ' ')
  demo_with=$(grep -A6 "demo WITH the change" $L | grep -c "^FAIL")
  viol=$(grep -c "^VIOLATION" $L)
  ok=$(grep -c "^OK property" $L)
  inc=$(grep -c "INCONCLUSIVE" $L)
  echo "$P without=[$demo_without] $suite demo_fail_lines=$demo_with check: violations=$viol ok=$ok inconclusive=$inc" >> /tmp/sweep/round$R.txt
done
echo done >> /tmp/sweep/round$R.txt
