#!/bin/bash
# usage: intake_seed.sh <Cxx> <round> [check ids...] : copy /tmp/seed<round>-<Cxx>/SEED_OUT to seeded/<Cxx>-agent<round>, confirm, run checks
set -u
P=$1; R=$2; shift 2
D=/verif/seeded/$P-agent$R
mkdir -p "$D"
for f in patch.diff zz_seed_demo_test.go DEMO_PATH.txt README.md; do cp "/tmp/seed$R-$P/SEED_OUT/$f" "$D/" || exit 3; done
/verif/tools/try_seed.sh "$D" "$@"
