// mutgen enumerates and applies single-site mutations to a Go source file (AST-level, deterministic order).
//
//	mutgen -file f.go -list            one line per mutation site: id <tab> line <tab> kind <tab> description
//	mutgen -file f.go -id N -out g.go  writes the file with mutation N applied
//
// Operators (all inside function bodies): relational boundary (< <= > >=), equality flip, && / ||, + / -,
// integer literal +1, guard removal (the condition of an `if` whose body leaves the block becomes false),
// condition negation, and deletion of plain assignment / call statements.
package main

import (
	"flag"
	"fmt"
	"go/ast"
	"go/parser"
	"go/printer"
	"go/token"
	"os"
	"strconv"
)

type site struct {
	line  int
	kind  string
	desc  string
	apply func()
}

func leaves(b *ast.BlockStmt) bool {
	if b == nil || len(b.List) == 0 {
		return false
	}
	switch s := b.List[len(b.List)-1].(type) {
	case *ast.ReturnStmt:
		return true
	case *ast.BranchStmt:
		return s.Tok == token.CONTINUE || s.Tok == token.BREAK
	case *ast.ExprStmt:
		if c, ok := s.X.(*ast.CallExpr); ok {
			if id, ok := c.Fun.(*ast.Ident); ok && id.Name == "panic" {
				return true
			}
		}
	}
	return false
}

func main() {
	file := flag.String("file", "", "")
	list := flag.Bool("list", false, "")
	id := flag.Int("id", -1, "")
	out := flag.String("out", "", "")
	flag.Parse()
	fset := token.NewFileSet()
	f, err := parser.ParseFile(fset, *file, nil, parser.ParseComments)
	if err != nil {
		fmt.Fprintln(os.Stderr, err)
		os.Exit(2)
	}
	var sites []site
	add := func(pos token.Pos, kind, desc string, apply func()) {
		sites = append(sites, site{fset.Position(pos).Line, kind, desc, apply})
	}
	swap := map[token.Token][]token.Token{
		token.LSS: {token.LEQ}, token.LEQ: {token.LSS}, token.GTR: {token.GEQ}, token.GEQ: {token.GTR},
		token.EQL: {token.NEQ}, token.NEQ: {token.EQL}, token.LAND: {token.LOR}, token.LOR: {token.LAND},
		token.ADD: {token.SUB}, token.SUB: {token.ADD},
	}
	for _, d := range f.Decls {
		fd, ok := d.(*ast.FuncDecl)
		if !ok || fd.Body == nil {
			continue
		}
		fname := fd.Name.Name
		ast.Inspect(fd.Body, func(n ast.Node) bool {
			switch x := n.(type) {
			case *ast.BinaryExpr:
				for _, to := range swap[x.Op] {
					x, from, to := x, x.Op, to
					if from == token.ADD {
						if bl, ok := x.X.(*ast.BasicLit); ok && bl.Kind == token.STRING {
							continue
						}
						if bl, ok := x.Y.(*ast.BasicLit); ok && bl.Kind == token.STRING {
							continue
						}
					}
					add(x.OpPos, "binop", fmt.Sprintf("%s: %s -> %s", fname, from, to), func() { x.Op = to })
				}
			case *ast.BasicLit:
				if x.Kind == token.INT {
					if v, err := strconv.ParseUint(x.Value, 0, 64); err == nil && v < 1<<32 {
						x, v := x, v
						add(x.Pos(), "lit", fmt.Sprintf("%s: %s -> %d", fname, x.Value, v+1), func() { x.Value = strconv.FormatUint(v+1, 10) })
					}
				}
			case *ast.IfStmt:
				if leaves(x.Body) && x.Else == nil {
					add(x.Cond.Pos(), "guard", fmt.Sprintf("%s: guard removed", fname), func() {
						if x.Init != nil {
							// keep the init statement's side effects and declarations in use
							x.Cond = &ast.BinaryExpr{X: x.Cond, Op: token.LAND, Y: ast.NewIdent("false")}
						} else {
							x.Cond = &ast.BinaryExpr{X: &ast.ParenExpr{X: x.Cond}, Op: token.LAND, Y: ast.NewIdent("false")}
						}
					})
				} else {
					add(x.Cond.Pos(), "negate", fmt.Sprintf("%s: condition negated", fname), func() {
						x.Cond = &ast.UnaryExpr{Op: token.NOT, X: &ast.ParenExpr{X: x.Cond}}
					})
				}
			case *ast.BlockStmt:
				for i, s := range x.List {
					i, x := i, x
					switch st := s.(type) {
					case *ast.AssignStmt:
						if st.Tok != token.DEFINE {
							add(st.Pos(), "delstmt", fmt.Sprintf("%s: assignment deleted", fname), func() { x.List[i] = &ast.EmptyStmt{} })
						}
					case *ast.ExprStmt:
						if c, ok := st.X.(*ast.CallExpr); ok {
							if idn, ok := c.Fun.(*ast.Ident); ok && idn.Name == "panic" {
								continue
							}
							add(st.Pos(), "delstmt", fmt.Sprintf("%s: call statement deleted", fname), func() { x.List[i] = &ast.EmptyStmt{} })
						}
					case *ast.IncDecStmt:
						add(st.Pos(), "delstmt", fmt.Sprintf("%s: inc/dec deleted", fname), func() { x.List[i] = &ast.EmptyStmt{} })
					}
				}
			}
			return true
		})
	}
	if *list {
		for i, s := range sites {
			fmt.Printf("%d\t%d\t%s\t%s\n", i, s.line, s.kind, s.desc)
		}
		return
	}
	if *id < 0 || *id >= len(sites) {
		fmt.Fprintln(os.Stderr, "bad id")
		os.Exit(2)
	}
	sites[*id].apply()
	o, err := os.Create(*out)
	if err != nil {
		fmt.Fprintln(os.Stderr, err)
		os.Exit(2)
	}
	defer o.Close()
	if err := printer.Fprint(o, fset, f); err != nil {
		fmt.Fprintln(os.Stderr, err)
		os.Exit(2)
	}
}
