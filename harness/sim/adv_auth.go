package sim

import (
	"bytes"
	"sort"

	"go.sia.tech/core/consensus"
	"go.sia.tech/core/types"
	"pgregory.net/rapid"
)

// otherAddr returns an address different from a.
func otherAddr(a types.Address) types.Address {
	b := MakeLock(LockSpec{Kind: 0, K1: 5}).Address()
	if b == a {
		b = MakeLock(LockSpec{Kind: 0, K1: 4}).Address()
	}
	return b
}

func otherKey(k types.PublicKey) types.PublicKey {
	if k == Pub(0) {
		return Pub(1)
	}
	return Pub(0)
}

type v1Tamper struct {
	name string
	f    func(t *types.Transaction) bool
}

type v2Tamper struct {
	name string
	f    func(t *types.V2Transaction) bool
}

func inc(c types.Currency) types.Currency { return c.Add(types.NewCurrency64(1)) }
func dec(c types.Currency) (types.Currency, bool) {
	if c.Cmp(types.NewCurrency64(2)) < 0 {
		return c, false
	}
	return c.Sub(types.NewCurrency64(1)), true
}

// content tampers that keep every balance intact, so that only an authorization check can notice
var v1ContentTampers = []v1Tamper{
	{"siacoin-output-address", func(t *types.Transaction) bool {
		if len(t.SiacoinOutputs) == 0 {
			return false
		}
		t.SiacoinOutputs[0].Address = otherAddr(t.SiacoinOutputs[0].Address)
		return true
	}},
	{"move-1H-between-outputs", func(t *types.Transaction) bool {
		if len(t.SiacoinOutputs) < 2 {
			return false
		}
		v, ok := dec(t.SiacoinOutputs[0].Value)
		if !ok {
			return false
		}
		t.SiacoinOutputs[0].Value, t.SiacoinOutputs[1].Value = v, inc(t.SiacoinOutputs[1].Value)
		return true
	}},
	{"fee-up-output-down", func(t *types.Transaction) bool {
		if len(t.SiacoinOutputs) == 0 || len(t.MinerFees) == 0 {
			return false
		}
		v, ok := dec(t.SiacoinOutputs[0].Value)
		if !ok {
			return false
		}
		t.SiacoinOutputs[0].Value, t.MinerFees[0] = v, inc(t.MinerFees[0])
		return true
	}},
	{"arbitrary-data", func(t *types.Transaction) bool {
		if len(t.ArbitraryData) == 0 || bytes.HasPrefix(t.ArbitraryData[0], types.SpecifierFoundation[:]) {
			return false
		}
		t.ArbitraryData[0] = append(append([]byte(nil), t.ArbitraryData[0]...), 0x42)
		return true
	}},
	{"arbitrary-data-recut", func(t *types.Transaction) bool {
		// the same bytes in the same number of entries, cut at another place: one byte moves across an entry boundary
		for i := 0; i+1 < len(t.ArbitraryData); i++ {
			a, b := t.ArbitraryData[i], t.ArbitraryData[i+1]
			if bytes.HasPrefix(a, types.SpecifierFoundation[:]) || bytes.HasPrefix(b, types.SpecifierFoundation[:]) {
				continue
			}
			switch {
			case len(a) > 0:
				t.ArbitraryData[i] = append([]byte(nil), a[:len(a)-1]...)
				t.ArbitraryData[i+1] = append([]byte{a[len(a)-1]}, b...)
				return true
			case len(b) > 0:
				t.ArbitraryData[i] = []byte{b[0]}
				t.ArbitraryData[i+1] = append([]byte(nil), b[1:]...)
				return true
			}
		}
		return false
	}},
	{"add-arbitrary-data", func(t *types.Transaction) bool {
		if len(t.StorageProofs) > 0 || len(t.Signatures) == 0 {
			return false
		}
		t.ArbitraryData = append(t.ArbitraryData, []byte("injected"))
		return true
	}},
	{"siafund-claim-address", func(t *types.Transaction) bool {
		if len(t.SiafundInputs) == 0 {
			return false
		}
		t.SiafundInputs[0].ClaimAddress = otherAddr(t.SiafundInputs[0].ClaimAddress)
		return true
	}},
	{"siafund-output-address", func(t *types.Transaction) bool {
		if len(t.SiafundOutputs) == 0 {
			return false
		}
		t.SiafundOutputs[0].Address = otherAddr(t.SiafundOutputs[0].Address)
		return true
	}},
	{"contract-merkle-root", func(t *types.Transaction) bool {
		if len(t.FileContracts) == 0 {
			return false
		}
		t.FileContracts[0].FileMerkleRoot[0] ^= 1
		return true
	}},
	{"contract-window-end", func(t *types.Transaction) bool {
		if len(t.FileContracts) == 0 {
			return false
		}
		t.FileContracts[0].WindowEnd++
		return true
	}},
	{"contract-unlock-hash", func(t *types.Transaction) bool {
		if len(t.FileContracts) == 0 {
			return false
		}
		t.FileContracts[0].UnlockHash = otherAddr(t.FileContracts[0].UnlockHash)
		return true
	}},
	{"contract-valid-output-address", func(t *types.Transaction) bool {
		if len(t.FileContracts) == 0 || len(t.FileContracts[0].ValidProofOutputs) == 0 {
			return false
		}
		t.FileContracts[0].ValidProofOutputs[0].Address = otherAddr(t.FileContracts[0].ValidProofOutputs[0].Address)
		return true
	}},
	{"contract-missed-split", func(t *types.Transaction) bool {
		if len(t.FileContracts) == 0 || len(t.FileContracts[0].MissedProofOutputs) < 2 {
			return false
		}
		o := t.FileContracts[0].MissedProofOutputs
		v, ok := dec(o[0].Value)
		if !ok {
			return false
		}
		o[0].Value, o[1].Value = v, inc(o[1].Value)
		return true
	}},
	{"revision-number", func(t *types.Transaction) bool {
		if len(t.FileContractRevisions) == 0 || t.FileContractRevisions[0].RevisionNumber >= types.MaxRevisionNumber-1 {
			return false
		}
		t.FileContractRevisions[0].RevisionNumber++
		return true
	}},
	{"revision-valid-split", func(t *types.Transaction) bool {
		if len(t.FileContractRevisions) == 0 || len(t.FileContractRevisions[0].ValidProofOutputs) < 2 {
			return false
		}
		o := t.FileContractRevisions[0].ValidProofOutputs
		v, ok := dec(o[0].Value)
		if !ok {
			return false
		}
		o[0].Value, o[1].Value = v, inc(o[1].Value)
		return true
	}},
	{"revision-merkle-root", func(t *types.Transaction) bool {
		if len(t.FileContractRevisions) == 0 {
			return false
		}
		t.FileContractRevisions[0].FileMerkleRoot[3] ^= 0x80
		return true
	}},
	{"revision-output-address", func(t *types.Transaction) bool {
		if len(t.FileContractRevisions) == 0 || len(t.FileContractRevisions[0].MissedProofOutputs) == 0 {
			return false
		}
		o := t.FileContractRevisions[0].MissedProofOutputs
		o[0].Address = otherAddr(o[0].Address)
		return true
	}},
}

var v2ContentTampers = []v2Tamper{
	{"siacoin-output-address", func(t *types.V2Transaction) bool {
		if len(t.SiacoinOutputs) == 0 {
			return false
		}
		t.SiacoinOutputs[0].Address = otherAddr(t.SiacoinOutputs[0].Address)
		return true
	}},
	{"move-1H-between-outputs", func(t *types.V2Transaction) bool {
		if len(t.SiacoinOutputs) < 2 {
			return false
		}
		v, ok := dec(t.SiacoinOutputs[0].Value)
		if !ok {
			return false
		}
		t.SiacoinOutputs[0].Value, t.SiacoinOutputs[1].Value = v, inc(t.SiacoinOutputs[1].Value)
		return true
	}},
	{"fee-up-output-down", func(t *types.V2Transaction) bool {
		if len(t.SiacoinOutputs) == 0 {
			return false
		}
		v, ok := dec(t.SiacoinOutputs[0].Value)
		if !ok {
			return false
		}
		t.SiacoinOutputs[0].Value, t.MinerFee = v, inc(t.MinerFee)
		return true
	}},
	{"arbitrary-data", func(t *types.V2Transaction) bool {
		if len(t.SiacoinInputs)+len(t.SiafundInputs) == 0 {
			return false
		}
		t.ArbitraryData = append(append([]byte(nil), t.ArbitraryData...), 0x42)
		return true
	}},
	{"siafund-claim-address", func(t *types.V2Transaction) bool {
		if len(t.SiafundInputs) == 0 {
			return false
		}
		t.SiafundInputs[0].ClaimAddress = otherAddr(t.SiafundInputs[0].ClaimAddress)
		return true
	}},
	{"siafund-output-address", func(t *types.V2Transaction) bool {
		if len(t.SiafundOutputs) == 0 {
			return false
		}
		t.SiafundOutputs[0].Address = otherAddr(t.SiafundOutputs[0].Address)
		return true
	}},
	{"attestation-value", func(t *types.V2Transaction) bool {
		if len(t.Attestations) == 0 {
			return false
		}
		t.Attestations[0].Value = append(append([]byte(nil), t.Attestations[0].Value...), 1)
		return true
	}},
	{"attestation-key", func(t *types.V2Transaction) bool {
		if len(t.Attestations) == 0 {
			return false
		}
		t.Attestations[0].Key += "x"
		return true
	}},
	{"attestation-pubkey", func(t *types.V2Transaction) bool {
		if len(t.Attestations) == 0 {
			return false
		}
		t.Attestations[0].PublicKey = otherKey(t.Attestations[0].PublicKey)
		return true
	}},
	{"new-foundation-address", func(t *types.V2Transaction) bool {
		if t.NewFoundationAddress == nil {
			return false
		}
		a := otherAddr(*t.NewFoundationAddress)
		t.NewFoundationAddress = &a
		return true
	}},
}

// contract-content tampers (v2): used with the three re-signing variants
type v2ContractTamper struct {
	name string
	f    func(fc *types.V2FileContract) bool
}

var v2ContractTampers = []v2ContractTamper{
	{"merkle-root", func(fc *types.V2FileContract) bool { fc.FileMerkleRoot[0] ^= 1; return true }},
	{"filesize", func(fc *types.V2FileContract) bool {
		if fc.Filesize == 0 {
			return false
		}
		fc.Filesize--
		return true
	}},
	{"capacity", func(fc *types.V2FileContract) bool { fc.Capacity++; return true }},
	{"expiration-height", func(fc *types.V2FileContract) bool { fc.ExpirationHeight++; return true }},
	{"renter-address", func(fc *types.V2FileContract) bool {
		fc.RenterOutput.Address = otherAddr(fc.RenterOutput.Address)
		return true
	}},
	{"host-address", func(fc *types.V2FileContract) bool {
		fc.HostOutput.Address = otherAddr(fc.HostOutput.Address)
		return true
	}},
	{"renter-to-host-1H", func(fc *types.V2FileContract) bool {
		v, ok := dec(fc.RenterOutput.Value)
		if !ok {
			return false
		}
		fc.RenterOutput.Value, fc.HostOutput.Value = v, inc(fc.HostOutput.Value)
		return true
	}},
	{"missed-host-value-down", func(fc *types.V2FileContract) bool {
		v, ok := dec(fc.MissedHostValue)
		if !ok {
			return false
		}
		fc.MissedHostValue = v
		return true
	}},
	{"revision-number", func(fc *types.V2FileContract) bool {
		if fc.RevisionNumber >= types.MaxRevisionNumber-1 {
			return false
		}
		fc.RevisionNumber++
		return true
	}},
}

// signOptsFor returns the honest signing options for a v2 transaction of the honest block
// (revisions are signed by the keys of the contract as it stands in the store).
func (a *Adv) signV2(t *types.V2Transaction, o SignOpts) { SignV2(a.CS, t, o) }

// emitPair re-seals tampered and control blocks and records them.
func (a *Adv) emitPair(tampered, control types.Block, label string, fix func(*consensus.V1BlockSupplement)) bool {
	if Reseal(a.CS, &tampered) != nil || Reseal(a.CS, &control) != nil {
		return false
	}
	bs := a.G.C.Store.Supplement(tampered, a.Child, a.G.C.Net.HardforkV2.RequireHeight)
	cbs := a.G.C.Store.Supplement(control, a.Child, a.G.C.Net.HardforkV2.RequireHeight)
	if fix != nil {
		fix(&bs)
		fix(&cbs)
	}
	a.G.ProbeWithControl(tampered, bs, control, cbs, label, "reject", nil)
	return true
}

// usesUnknownAlgo reports whether any revealed unlock conditions of the v1 transaction contain a
// key of an unrecognised algorithm (its signatures are accepted whatever they contain).
func v1UsesUnknownAlgo(t types.Transaction) bool {
	chk := func(uc types.UnlockConditions) bool {
		for _, k := range uc.PublicKeys {
			if k.Algorithm != types.SpecifierEd25519 {
				return true
			}
		}
		return false
	}
	for _, in := range t.SiacoinInputs {
		if chk(in.UnlockConditions) {
			return true
		}
	}
	for _, in := range t.SiafundInputs {
		if chk(in.UnlockConditions) {
			return true
		}
	}
	for _, r := range t.FileContractRevisions {
		if chk(r.UnlockConditions) {
			return true
		}
	}
	return false
}

func policyUsesUnknownAlgo(p types.SpendPolicy) bool {
	if uc, ok := p.Type.(types.PolicyTypeUnlockConditions); ok {
		for _, k := range uc.PublicKeys {
			if k.Algorithm != types.SpecifierEd25519 {
				return true
			}
		}
	}
	return false
}

// AuthProbes records C03 tampers of the honest block: per transaction a drawn selection of
// content tampers (with honestly re-signed control), witness tampers and key/policy substitutions.
func (a *Adv) AuthProbes(perTxn int) int {
	t := a.G.T
	n := 0
	// ---------------- v1
	for ti := range a.Honest.Transactions {
		orig := a.Honest.Transactions[ti]
		if len(orig.Signatures) == 0 {
			continue // nothing is authorized in this transaction (e.g. a bare storage proof)
		}
		partial := !orig.Signatures[0].CoveredFields.WholeTransaction
		for k := 0; k < perTxn; k++ {
			tp := v1ContentTampers[rapid.IntRange(0, len(v1ContentTampers)-1).Draw(t, "v1tamper")]
			if partial && tp.name == "add-arbitrary-data" {
				continue // partial coverage lists explicit indices: an appended element is not covered (by design)
			}
			blk := CloneBlock(a.Honest)
			if !tp.f(&blk.Transactions[ti]) {
				continue
			}
			ctl := CloneBlock(blk)
			SignV1(a.CS, &ctl.Transactions[ti], partial)
			if a.emitPair(blk, ctl, "v1/content/"+tp.name, nil) {
				n++
			}
		}
		// witness tampers (no control needed: the content is the honest one)
		wt := rapid.IntRange(0, 7).Draw(t, "v1witness")
		for _, sg := range orig.Signatures {
			if sg.CoveredFields.WholeTransaction && len(sg.CoveredFields.Signatures) > 0 && rapid.Bool().Draw(t, "v1witnessCovered") {
				wt = 8 // a signature covers other signatures: prefer the tamper that only applies here
			}
		}
		if wt != 7 && rapid.IntRange(0, 3).Draw(t, "v1witnessMultisig") == 0 {
			for i := range orig.Signatures {
				for j := i + 1; j < len(orig.Signatures); j++ {
					if orig.Signatures[i].ParentID == orig.Signatures[j].ParentID {
						wt = 7 // a parent that needs several signatures: prefer the tamper that only applies to those
					}
				}
			}
		}
		blk := CloneBlock(a.Honest)
		x := &blk.Transactions[ti]
		label := ""
		switch wt {
		case 0: // flip a bit of an ed25519 signature
			for si := range x.Signatures {
				if len(x.Signatures[si].Signature) == 64 {
					x.Signatures[si].Signature[rapid.IntRange(0, 63).Draw(t, "sigByte")] ^= 1 << uint(rapid.IntRange(0, 7).Draw(t, "sigBit"))
					label = "v1/witness/flip-signature-bit"
					break
				}
			}
		case 1:
			x.Signatures = x.Signatures[:len(x.Signatures)-1]
			label = "v1/witness/drop-signature"
		case 2:
			x.Signatures = append(x.Signatures, x.Signatures[0])
			label = "v1/witness/add-duplicate-signature"
		case 3:
			if !v1UsesUnknownAlgo(orig) && x.Signatures[0].CoveredFields.WholeTransaction {
				// (the timelock is part of the whole-transaction signature hash only)
				x.Signatures[0].Timelock = 1
				label = "v1/witness/change-signature-timelock"
			}
		case 4:
			if !v1UsesUnknownAlgo(orig) && x.Signatures[0].CoveredFields.WholeTransaction {
				x.Signatures[0].CoveredFields = FullCoverage(*x)
				label = "v1/witness/change-covered-fields"
			}
		case 8: // a covered signature is altered in a way that leaves it valid on its own: its timelock goes from 0 to 1
			// (explicit coverage does not include a signature's own timelock; the covering signature does)
			if a.Child >= 1 {
			covered:
				for _, sg := range x.Signatures {
					if !sg.CoveredFields.WholeTransaction {
						continue
					}
					for _, j := range sg.CoveredFields.Signatures {
						if j < uint64(len(x.Signatures)) && !x.Signatures[j].CoveredFields.WholeTransaction && x.Signatures[j].Timelock == 0 {
							x.Signatures[j].Timelock = 1
							label = "v1/witness/covered-signature-timelock-changed"
							break covered
						}
					}
				}
			}
		case 7: // of two signatures for one parent, the second is replaced by a second, valid signature of the first one's key
		twice:
			for i := range x.Signatures {
				for j := i + 1; j < len(x.Signatures); j++ {
					if x.Signatures[i].ParentID != x.Signatures[j].ParentID || len(x.Signatures[i].Signature) != 64 || len(x.Signatures[j].Signature) != 64 {
						continue
					}
					x.Signatures[j].PublicKeyIndex = x.Signatures[i].PublicKeyIndex
					if ResignV1Slot(a.CS, x, j) {
						label = "v1/witness/one-key-signs-twice"
						if x.Signatures[i].PublicKeyIndex >= 64 {
							label += "-key-index>=64"
						}
					}
					break twice
				}
			}
		case 6: // cut an ed25519 signature short (emptied, half, one byte missing): any position, the last one preferred
			if !v1UsesUnknownAlgo(orig) {
				si := len(x.Signatures) - 1
				if rapid.IntRange(0, 2).Draw(t, "cutWhich") == 0 {
					si = rapid.IntRange(0, len(x.Signatures)-1).Draw(t, "cutSig")
				}
				if sig := x.Signatures[si].Signature; len(sig) == 64 {
					cut := sig[:rapid.SampledFrom([]int{0, 0, 32, 63}).Draw(t, "cutLen")]
					// a short signature means itself zero-padded to 64 bytes (as in siad): cutting off bytes that are
					// zero anyway (the top byte of S is zero for one signature in sixteen) changes nothing
					if !bytes.Equal(append(append([]byte{}, cut...), make([]byte, 64-len(cut))...), sig) {
						x.Signatures[si].Signature = cut
						label = "v1/witness/truncate-signature"
					}
				}
			}
		case 5: // substitute other unlock conditions, correctly signed by their own key
			sub := types.StandardUnlockConditions(Pub(3))
			done := false
			if len(x.SiacoinInputs) > 0 && x.SiacoinInputs[0].UnlockConditions.UnlockHash() != sub.UnlockHash() {
				x.SiacoinInputs[0].UnlockConditions, done = sub, true
			} else if len(x.SiafundInputs) > 0 && x.SiafundInputs[0].UnlockConditions.UnlockHash() != sub.UnlockHash() {
				if e, ok := a.G.C.Store.SF[x.SiafundInputs[0].ParentID]; !ok || e.SiafundOutput.Address != a.G.C.Net.HardforkDevAddr.OldAddress {
					x.SiafundInputs[0].UnlockConditions, done = sub, true
				}
			} else if len(x.FileContractRevisions) > 0 && x.FileContractRevisions[0].UnlockConditions.UnlockHash() != sub.UnlockHash() {
				x.FileContractRevisions[0].UnlockConditions, done = sub, true
			}
			if done {
				SignV1(a.CS, x, partial)
				label = "v1/substitute/other-unlock-conditions"
			}
		}
		if label != "" && a.emit(blk, label, "reject", nil, nil) {
			n++
		}
		// a revision that names other unlock conditions AND proposes their hash as the contract's new unlock hash, signed
		// by those conditions' key: the conditions revealed must be the ones the contract commits to now, whatever the
		// revision would like them to become
		if len(orig.FileContractRevisions) > 0 {
			blk := CloneBlock(a.Honest)
			x := &blk.Transactions[ti]
			sub := types.StandardUnlockConditions(Pub(3))
			if sub.UnlockHash() == x.FileContractRevisions[0].UnlockConditions.UnlockHash() {
				sub = types.StandardUnlockConditions(Pub(4))
			}
			x.FileContractRevisions[0].UnlockConditions = sub
			x.FileContractRevisions[0].FileContract.UnlockHash = sub.UnlockHash()
			SignV1(a.CS, x, partial)
			if a.emit(blk, "v1/substitute/revision-conditions-matching-the-proposed-unlock-hash", "reject", nil, nil) {
				n++
			}
		}
	}
	// ---------------- v2
	for ti := range a.Honest.V2Transactions() {
		orig := a.Honest.V2.Transactions[ti]
		// "hasInputs" means: at least one input carries a signature that is checked against a recognised
		// key. Policies that need no signature (anyone-can-spend, bare hash locks, height/time locks) do not
		// bind the transaction content by design, so no content-binding claim exists for them.
		hasInputs := false
		for _, in := range orig.SiacoinInputs {
			hasInputs = hasInputs || (len(in.SatisfiedPolicy.Signatures) > 0 && !policyUsesUnknownAlgo(in.SatisfiedPolicy.Policy))
		}
		for _, in := range orig.SiafundInputs {
			hasInputs = hasInputs || (len(in.SatisfiedPolicy.Signatures) > 0 && !policyUsesUnknownAlgo(in.SatisfiedPolicy.Policy))
		}
		for k := 0; k < perTxn; k++ {
			if !hasInputs {
				break // without inputs nothing but contract/attestation signatures authorizes the content
			}
			tp := v2ContentTampers[rapid.IntRange(0, len(v2ContentTampers)-1).Draw(t, "v2tamper")]
			blk := CloneBlock(a.Honest)
			if !tp.f(&blk.V2.Transactions[ti]) {
				continue
			}
			ctl := CloneBlock(blk)
			a.signV2(&ctl.V2.Transactions[ti], SignOpts{})
			if a.emitPair(blk, ctl, "v2/content/"+tp.name, nil) {
				n++
			}
		}
		// attestations without inputs: the attestation signature alone must bind key/value/pubkey
		if len(orig.Attestations) > 0 {
			for _, nm := range []string{"attestation-value", "attestation-key", "attestation-pubkey"} {
				for _, tp := range v2ContentTampers {
					if tp.name != nm {
						continue
					}
					blk := CloneBlock(a.Honest)
					tp.f(&blk.V2.Transactions[ti])
					// inputs (if any) re-signed honestly, attestation signature left stale
					a.signV2(&blk.V2.Transactions[ti], SignOpts{SkipContracts: true})
					ctl := CloneBlock(blk)
					a.signV2(&ctl.V2.Transactions[ti], SignOpts{})
					if a.emitPair(blk, ctl, "v2/attestation-only/"+nm, nil) {
						n++
					}
				}
			}
		}
		// contract contents: formation, revision, renewal — three re-signing variants
		type target struct {
			kind string
			get  func(x *types.V2Transaction) *types.V2FileContract
		}
		var targets []target
		if len(orig.FileContracts) > 0 {
			targets = append(targets, target{"formation", func(x *types.V2Transaction) *types.V2FileContract { return &x.FileContracts[0] }})
		}
		if len(orig.FileContractRevisions) > 0 {
			targets = append(targets, target{"revision", func(x *types.V2Transaction) *types.V2FileContract { return &x.FileContractRevisions[0].Revision }})
		}
		for i := range orig.FileContractResolutions {
			if _, ok := orig.FileContractResolutions[i].Resolution.(*types.V2FileContractRenewal); ok {
				idx := i
				targets = append(targets, target{"renewal-new-contract", func(x *types.V2Transaction) *types.V2FileContract {
					r := *x.FileContractResolutions[idx].Resolution.(*types.V2FileContractRenewal)
					x.FileContractResolutions[idx].Resolution = &r
					return &r.NewContract
				}})
				break
			}
		}
		for _, tg := range targets {
			for k := 0; k < perTxn; k++ {
				tp := v2ContractTampers[rapid.IntRange(0, len(v2ContractTampers)-1).Draw(t, "v2ctamper")]
				mk := func(o *SignOpts) (types.Block, bool) {
					blk := CloneBlock(a.Honest)
					x := &blk.V2.Transactions[ti]
					if !tp.f(tg.get(x)) {
						return blk, false
					}
					if o != nil {
						a.signV2(x, *o)
					}
					return blk, true
				}
				ctl, ok := mk(&SignOpts{})
				if !ok {
					continue
				}
				if blk, ok := mk(nil); ok && a.emitPair(blk, ctl, "v2/"+tg.kind+"/"+tp.name+"/no-resign", nil) {
					n++
				}
				if hasInputs {
					// only the contract signatures are renewed: the input signatures must notice
					if blk, ok := mk(&SignOpts{SkipInputs: true}); ok && a.emitPair(blk, ctl, "v2/"+tg.kind+"/"+tp.name+"/resign-contract-only", nil) {
						n++
					}
				}
				// only the inputs are re-signed: the contract / renewal signatures must notice
				if blk, ok := mk(&SignOpts{SkipContracts: true}); ok && a.emitPair(blk, ctl, "v2/"+tg.kind+"/"+tp.name+"/resign-inputs-only", nil) {
					n++
				}
			}
		}
		// renewal terms other than the new contract
		for i := range orig.FileContractResolutions {
			ren, ok := orig.FileContractResolutions[i].Resolution.(*types.V2FileContractRenewal)
			if !ok {
				continue
			}
			mk := func(o *SignOpts) (types.Block, bool) {
				blk := CloneBlock(a.Honest)
				x := &blk.V2.Transactions[ti]
				r := *ren
				v, ok := dec(r.FinalRenterOutput.Value)
				if !ok {
					return blk, false
				}
				r.FinalRenterOutput.Value, r.FinalHostOutput.Value = v, inc(r.FinalHostOutput.Value)
				x.FileContractResolutions[i].Resolution = &r
				if o != nil {
					a.signV2(x, *o)
				}
				return blk, true
			}
			if ctl, ok := mk(&SignOpts{}); ok {
				if blk, ok := mk(nil); ok && a.emitPair(blk, ctl, "v2/renewal/final-output-split/no-resign", nil) {
					n++
				}
				if blk, ok := mk(&SignOpts{SkipContracts: true}); ok && a.emitPair(blk, ctl, "v2/renewal/final-output-split/resign-inputs-only", nil) {
					n++
				}
			}
			break
		}
		// revision signed by the proposed keys instead of the current ones
		if len(orig.FileContractRevisions) > 0 {
			blk := CloneBlock(a.Honest)
			x := &blk.V2.Transactions[ti]
			r := &x.FileContractRevisions[0]
			newKey := otherKey(r.Parent.V2FileContract.RenterPublicKey)
			r.Revision.RenterPublicKey = newKey
			ctl := CloneBlock(blk)
			a.signV2(&ctl.V2.Transactions[ti], SignOpts{})
			a.signV2(x, SignOpts{CurrentContract: map[types.FileContractID]types.V2FileContract{r.Parent.ID: r.Revision}})
			if a.emitPair(blk, ctl, "v2/revision/signed-by-proposed-keys", nil) {
				n++
			}
		}
		// witnesses
		if hasInputs {
			blk := CloneBlock(a.Honest)
			x := &blk.V2.Transactions[ti]
			var sp *types.SatisfiedPolicy
			if len(x.SiacoinInputs) > 0 {
				sp = &x.SiacoinInputs[rapid.IntRange(0, len(x.SiacoinInputs)-1).Draw(t, "witnessInput")].SatisfiedPolicy
			} else {
				sp = &x.SiafundInputs[0].SatisfiedPolicy
			}
			label := ""
			wcase := rapid.IntRange(0, 6).Draw(t, "v2witness")
			if ucp, ok := sp.Policy.Type.(types.PolicyTypeUnlockConditions); ok && ucp.SignaturesRequired >= 2 && len(sp.Signatures) >= 2 && rapid.Bool().Draw(t, "v2witnessMultisig") {
				wcase = 7 // a legacy multi-signature address: prefer the tamper that only applies here
			}
			switch wcase {
			case 7: // of the signatures of a legacy m-of-n input, the second is replaced by a copy of the first (all inputs of
				// a v2 transaction sign one hash, so one key holder can produce this alone); the listed keys must be distinct,
				// otherwise the holder of a key listed twice legitimately counts twice
				ucp := sp.Policy.Type.(types.PolicyTypeUnlockConditions)
				distinct := !policyUsesUnknownAlgo(sp.Policy)
				for i := range ucp.PublicKeys {
					for j := i + 1; j < len(ucp.PublicKeys); j++ {
						distinct = distinct && !bytes.Equal(ucp.PublicKeys[i].Key, ucp.PublicKeys[j].Key)
					}
				}
				if distinct && sp.Signatures[0] != sp.Signatures[1] {
					sp.Signatures[1] = sp.Signatures[0]
					label = "v2/witness/one-key-signs-twice"
				}
			case 0:
				if len(sp.Signatures) > 0 && !policyUsesUnknownAlgo(sp.Policy) {
					sp.Signatures[rapid.IntRange(0, len(sp.Signatures)-1).Draw(t, "sigIdx")][rapid.IntRange(0, 63).Draw(t, "sigByte")] ^= 1 << uint(rapid.IntRange(0, 7).Draw(t, "sigBit"))
					label = "v2/witness/flip-signature-bit"
				}
			case 1:
				if len(sp.Signatures) > 0 {
					sp.Signatures = sp.Signatures[:len(sp.Signatures)-1]
					label = "v2/witness/drop-signature"
				}
			case 2:
				sp.Signatures = append(sp.Signatures, Priv(0).SignHash(a.CS.InputSigHash(*x)))
				label = "v2/witness/add-signature"
			case 3:
				if len(sp.Preimages) > 0 {
					sp.Preimages[0][rapid.IntRange(0, 31).Draw(t, "preByte")] ^= 1
					label = "v2/witness/corrupt-preimage"
				}
			case 4:
				if len(sp.Preimages) > 0 {
					sp.Preimages = sp.Preimages[:len(sp.Preimages)-1]
					label = "v2/witness/drop-preimage"
				}
			case 5:
				sp.Preimages = append(sp.Preimages, [32]byte{1})
				label = "v2/witness/add-preimage"
			case 6: // another policy of our own, correctly satisfied: the address commitment must refuse it
				sub := types.PolicyPublicKey(Pub(2))
				if len(x.SiacoinInputs) > 0 && sub.Address() != x.SiacoinInputs[0].Parent.SiacoinOutput.Address {
					x.SiacoinInputs[0].SatisfiedPolicy = types.SatisfiedPolicy{Policy: sub}
					a.signV2(x, SignOpts{})
					label = "v2/substitute/other-policy"
				}
			}
			if label != "" && a.emit(blk, label, "reject", nil, nil) {
				n++
			}
		}
		// the claimed parent re-addressed to a policy of our own, correctly satisfied: for a parent in the
		// accumulator the membership proof, for a parent created earlier in this block the comparison with
		// the created output must refuse it (below the ephemeral-output fix height nothing is compared)
		for ii := range orig.SiacoinInputs {
			eph := orig.SiacoinInputs[ii].Parent.StateElement.LeafIndex == types.UnassignedLeafIndex
			if eph && a.Child < a.G.C.Net.HardforkV2.EphemeralOutputHeight {
				continue
			}
			if !eph && rapid.IntRange(0, 3).Draw(t, "readdressStored") != 0 {
				continue
			}
			sub := types.PolicyPublicKey(Pub(2))
			if sub.Address() == orig.SiacoinInputs[ii].Parent.SiacoinOutput.Address {
				sub = types.PolicyPublicKey(Pub(3))
			}
			blk := CloneBlock(a.Honest)
			x := &blk.V2.Transactions[ti]
			x.SiacoinInputs[ii].Parent.SiacoinOutput.Address = sub.Address()
			x.SiacoinInputs[ii].SatisfiedPolicy = types.SatisfiedPolicy{Policy: sub}
			a.signV2(x, SignOpts{})
			label := "v2/substitute/readdressed-parent"
			if eph {
				label = "v2/substitute/readdressed-ephemeral-parent"
			}
			if a.emit(blk, label, "reject", nil, nil) {
				n++
			}
			break
		}
		// Foundation address change not authorized by the current management address
		if hasInputs && orig.NewFoundationAddress == nil && len(orig.SiacoinInputs) > 0 {
			authorized := false
			for _, in := range orig.SiacoinInputs {
				authorized = authorized || in.Parent.SiacoinOutput.Address == a.CS.FoundationManagementAddress
			}
			if !authorized {
				blk := CloneBlock(a.Honest)
				x := &blk.V2.Transactions[ti]
				na := MakeLock(LockSpec{Kind: 0, K1: 1}).Address()
				x.NewFoundationAddress = &na
				a.signV2(x, SignOpts{})
				if a.emit(blk, "v2/foundation/unauthorized-address-change", "reject", nil, nil) {
					n++
				}
				// an update is an update whatever it names: re-announcing the address the subsidy already goes to (which
				// also replaces the management address), or the current management address, needs the same authorization
				for _, v := range []struct {
					name string
					addr types.Address
				}{{"names-current-subsidy-address", a.CS.FoundationSubsidyAddress}, {"names-current-management-address", a.CS.FoundationManagementAddress}} {
					blk := CloneBlock(a.Honest)
					x := &blk.V2.Transactions[ti]
					addr := v.addr
					x.NewFoundationAddress = &addr
					a.signV2(x, SignOpts{})
					if a.emit(blk, "v2/foundation/unauthorized-address-change-"+v.name, "reject", nil, nil) {
						n++
					}
				}
			}
		}
	}
	// v1 Foundation update without an input controlled by the current keys
	if a.v1Allowed() && a.Child >= a.G.C.Net.HardforkFoundation.Height {
		for ti := range a.Honest.Transactions {
			orig := a.Honest.Transactions[ti]
			if len(orig.SiacoinInputs) == 0 || len(orig.StorageProofs) > 0 {
				continue
			}
			authorized := false
			for _, in := range orig.SiacoinInputs {
				uh := in.UnlockConditions.UnlockHash()
				authorized = authorized || uh == a.CS.FoundationSubsidyAddress || uh == a.CS.FoundationManagementAddress
			}
			if authorized {
				continue
			}
			blk := CloneBlock(a.Honest)
			x := &blk.Transactions[ti]
			var buf bytes.Buffer
			e := types.NewEncoder(&buf)
			types.SpecifierFoundation.EncodeTo(e)
			types.FoundationAddressUpdate{NewPrimary: MakeLock(LockSpec{Kind: 0, K1: 1}).Address(), NewFailsafe: MakeLock(LockSpec{Kind: 0, K1: 2}).Address()}.EncodeTo(e)
			e.Flush()
			x.ArbitraryData = append(x.ArbitraryData, buf.Bytes())
			SignV1(a.CS, x, false)
			if a.emit(blk, "v1/foundation/unauthorized-address-change", "reject", nil, nil) {
				n++
			}
			break
		}
	}
	// Two outputs of one key spent by one v1 transaction under identical partial covered fields: both signatures are
	// the same 64 bytes. Emptying (or cutting) the second one must invalidate the block: every signature stands for
	// itself, whatever an earlier signature of the transaction left behind. Control: the untouched transaction.
	if a.v1Allowed() {
		used := map[types.SiacoinOutputID]bool{}
		for _, t := range a.Honest.Transactions {
			for _, in := range t.SiacoinInputs {
				used[in.ParentID] = true
			}
		}
		for _, t := range a.Honest.V2Transactions() {
			for _, in := range t.SiacoinInputs {
				used[in.Parent.ID] = true
			}
		}
		byAddr := map[types.Address][]types.SiacoinElement{}
		for _, e := range a.G.C.Store.SortedSC() {
			if !used[e.ID] && e.MaturityHeight <= a.Child && !e.SiacoinOutput.Value.IsZero() {
				byAddr[e.SiacoinOutput.Address] = append(byAddr[e.SiacoinOutput.Address], e)
			}
		}
		var addrs []types.Address
		for ad, es := range byAddr {
			if l, ok := a.G.W.Locks[ad]; ok && len(es) >= 2 && l.UC != nil && len(l.UC.PublicKeys) == 1 && l.UC.SignaturesRequired == 1 &&
				l.UC.PublicKeys[0].Algorithm == types.SpecifierEd25519 && l.Spendable(false, a.Child, MedianTimestamp(a.CS)) {
				addrs = append(addrs, ad)
			}
		}
		sort.Slice(addrs, func(i, j int) bool { return bytes.Compare(addrs[i][:], addrs[j][:]) < 0 })
		if len(addrs) > 0 {
			es, lock := byAddr[addrs[0]], a.G.W.Locks[addrs[0]]
			txn := types.Transaction{
				SiacoinInputs:  []types.SiacoinInput{{ParentID: es[0].ID, UnlockConditions: *lock.UC}, {ParentID: es[1].ID, UnlockConditions: *lock.UC}},
				SiacoinOutputs: []types.SiacoinOutput{{Value: es[0].SiacoinOutput.Value.Add(es[1].SiacoinOutput.Value), Address: MakeLock(LockSpec{Kind: 0, K1: 1}).Address()}},
			}
			SignV1(a.CS, &txn, true)
			if len(txn.Signatures) == 2 && len(txn.Signatures[1].Signature) == 64 {
				bad := CloneV1(txn)
				cut := bad.Signatures[1].Signature[:rapid.SampledFrom([]int{0, 0, 31, 63}).Draw(t, "sameKeyCut")]
				if !bytes.Equal(append(append([]byte{}, cut...), make([]byte, 64-len(cut))...), bad.Signatures[1].Signature) {
					bad.Signatures[1].Signature = cut
					tb, cb := CloneBlock(a.Honest), CloneBlock(a.Honest)
					tb.Transactions = append(tb.Transactions, bad)
					cb.Transactions = append(cb.Transactions, txn)
					if a.emitPair(tb, cb, "v1/witness/second-signature-cut-same-key-same-sighash", nil) {
						n++
					}
				}
			}
		}
	}
	// Witnesses taken from an earlier transaction of the block: a fresh transaction that spends another stored output
	// of the same address and carries, byte for byte, the satisfied policy of an honest input (signatures over the
	// honest transaction's hash). Whatever was concluded about those witnesses for the earlier transaction, they do
	// not sign this one. Control: the fresh transaction honestly signed.
	if a.v2Allowed() {
		used := map[types.SiacoinOutputID]bool{}
		for _, t := range a.Honest.Transactions {
			for _, in := range t.SiacoinInputs {
				used[in.ParentID] = true
			}
		}
		for _, t := range a.Honest.V2Transactions() {
			for _, in := range t.SiacoinInputs {
				used[in.Parent.ID] = true
			}
		}
		stored := a.G.C.Store.SortedSC()
	replay:
		for _, at := range a.Honest.V2Transactions() {
			for ii, in := range at.SiacoinInputs {
				sp := in.SatisfiedPolicy
				if len(sp.Signatures) == 0 || policyUsesUnknownAlgo(sp.Policy) {
					continue
				}
				addr := in.Parent.SiacoinOutput.Address
				lock, known := a.G.W.Locks[addr]
				if !known {
					continue
				}
				for _, e := range stored {
					if used[e.ID] || e.SiacoinOutput.Address != addr || e.MaturityHeight > a.Child {
						continue
					}
					fresh, ok := a.payV2(e, lock)
					if !ok {
						continue
					}
					bad := CloneV2(fresh)
					bad.SiacoinInputs[0].SatisfiedPolicy = CloneV2(at).SiacoinInputs[ii].SatisfiedPolicy
					tb, ok1 := a.withV2(CloneBlock(a.Honest), bad)
					cb, ok2 := a.withV2(CloneBlock(a.Honest), fresh)
					if ok1 && ok2 && a.emitPair(tb, cb, "v2/witness/taken-from-an-earlier-transaction-of-the-block", nil) {
						n++
					}
					break replay
				}
			}
		}
	}
	// An input nobody can satisfy next to an input somebody should have signed: a stored output at the burn address
	// (no keys, 2^64-1 signatures required; anybody may reveal those conditions) is spent together with a stored output of
	// an ordinary address for which one required signature is withheld. Signatures are owed per input; what one input
	// can never supply does not settle what another one lacks.
	if a.v1Allowed() {
		used := map[types.SiacoinOutputID]bool{}
		for _, t := range a.Honest.Transactions {
			for _, in := range t.SiacoinInputs {
				used[in.ParentID] = true
			}
		}
		for _, t := range a.Honest.V2Transactions() {
			for _, in := range t.SiacoinInputs {
				used[in.Parent.ID] = true
			}
		}
		var decoy, victim *types.SiacoinElement
		var victimLock Lock
		median := MedianTimestamp(a.CS)
		for _, e := range a.G.C.Store.SortedSC() {
			e := e
			l, ok := a.G.W.Locks[e.SiacoinOutput.Address]
			if !ok || used[e.ID] || e.MaturityHeight > a.Child || e.SiacoinOutput.Value.IsZero() || e.SiacoinOutput.Value.Hi>>62 != 0 {
				continue
			}
			switch {
			case l.Kind == "v1-unsatisfiable" && decoy == nil:
				decoy = &e
			case (l.Kind == "v1-std" || l.Kind == "v1-2of3") && victim == nil && l.Spendable(false, a.Child, median):
				victim, victimLock = &e, l
			}
		}
		if decoy != nil && victim != nil {
			burn := a.G.W.Locks[decoy.SiacoinOutput.Address]
			txn := types.Transaction{
				SiacoinInputs:  []types.SiacoinInput{{ParentID: victim.ID, UnlockConditions: *victimLock.UC}},
				SiacoinOutputs: []types.SiacoinOutput{{Value: victim.SiacoinOutput.Value.Add(decoy.SiacoinOutput.Value), Address: types.Address{0xD0}}},
			}
			SignV1(a.CS, &txn, false) // the victim's signatures over ...
			txn.SiacoinInputs = append(txn.SiacoinInputs, types.SiacoinInput{ParentID: decoy.ID, UnlockConditions: *burn.UC})
			for i := range txn.Signatures { // ... the final transaction,
				ResignV1Slot(a.CS, &txn, i)
			}
			if len(txn.Signatures) > 0 {
				txn.Signatures = txn.Signatures[:len(txn.Signatures)-1] // less one
				for i := range txn.Signatures {
					ResignV1Slot(a.CS, &txn, i)
				}
				blk := CloneBlock(a.Honest)
				blk.Transactions = append(blk.Transactions, txn)
				if a.emit(blk, "v1/witness/signature-withheld-next-to-an-unsatisfiable-input/"+victimLock.Kind, "reject", nil, nil) {
					n++
				}
			}
		}
	}
	// v1 Foundation update appended to a transaction whose Foundation-controlled input is only partially
	// signed: the partial signatures stay valid (they do not cover the added arbitrary data), so nothing but
	// the whole-transaction-signature requirement of the Foundation rule stands between a relayer and the
	// subsidy addresses. Control: the same transaction signed whole-transaction by the same keys (accepted).
	if a.v1Allowed() && a.Child >= a.G.C.Net.HardforkFoundation.Height {
		used := map[types.SiacoinOutputID]bool{}
		for _, t := range a.Honest.Transactions {
			for _, in := range t.SiacoinInputs {
				used[in.ParentID] = true
			}
		}
		for _, t := range a.Honest.V2Transactions() {
			for _, in := range t.SiacoinInputs {
				used[in.Parent.ID] = true
			}
		}
		var ids []types.SiacoinOutputID
		for id, e := range a.G.C.Store.SC {
			if ad := e.SiacoinOutput.Address; (ad == a.CS.FoundationSubsidyAddress || ad == a.CS.FoundationManagementAddress) && !used[id] && e.MaturityHeight <= a.Child {
				ids = append(ids, id)
			}
		}
		sort.Slice(ids, func(i, j int) bool { return bytes.Compare(ids[i][:], ids[j][:]) < 0 })
		for _, id := range ids {
			e := a.G.C.Store.SC[id]
			lock, known := a.G.W.Locks[e.SiacoinOutput.Address]
			if !known || lock.UC == nil || len(lock.UC.PublicKeys) == 0 || lock.UC.SignaturesRequired == 0 {
				continue
			}
			txn, ok := a.payV1(id, e.SiacoinOutput.Value, lock)
			if !ok || v1UsesUnknownAlgo(txn) {
				continue
			}
			SignV1(a.CS, &txn, true) // partial coverage of everything present now
			var buf bytes.Buffer
			enc := types.NewEncoder(&buf)
			types.SpecifierFoundation.EncodeTo(enc)
			types.FoundationAddressUpdate{NewPrimary: MakeLock(LockSpec{Kind: 0, K1: 1}).Address(), NewFailsafe: MakeLock(LockSpec{Kind: 0, K1: 2}).Address()}.EncodeTo(enc)
			enc.Flush()
			txn.ArbitraryData = append(txn.ArbitraryData, buf.Bytes()) // added by a relayer, signatures untouched
			ctl := CloneV1(txn)
			ctl.Signatures = nil
			SignV1(a.CS, &ctl, false)
			// the v1 part of a block precedes its v2 part, so the extra transaction goes at the end of the v1 list
			tb, cb := CloneBlock(a.Honest), CloneBlock(a.Honest)
			tb.Transactions = append(tb.Transactions, txn)
			cb.Transactions = append(cb.Transactions, ctl)
			if a.emitPair(tb, cb, "v1/foundation/update-appended-under-partial-signatures", nil) {
				n++
			}
			break
		}
	}
	return n
}
