package sim

import (
	"fmt"
	"math/big"

	"go.sia.tech/core/consensus"
	"go.sia.tech/core/types"
	"verif/harness/ref"
)

// SoundApply is the "accepted => sound" oracle (DESIGN §4.6). It is used for blocks whose
// rejection cannot be presumed: if ValidateBlock accepts b on the tip of ch, the block is
// applied to a scratch copy of the client store and must satisfy model-free invariants
// computed from the update alone:
//   - every spent / revised / resolved element was live in the store, none is consumed twice,
//     nothing already present is created again (Store.Apply);
//   - the contents the update reports for a consumed element equal the store's copy;
//   - value conservation over the block: (outputs + contract value + unclaimed pool + forfeited)
//     grows by exactly the scheduled subsidy; siafund total unchanged;
//   - apply followed by revert restores the store.
//
// legacyEphemeral exempts the value checks (v2 ephemeral parents below the fix height).
func SoundApply(ch *Chain, b types.Block, bs consensus.V1BlockSupplement, legacyEphemeral bool) (accepted bool, err error) {
	tip := ch.Tip()
	if verr := consensus.ValidateBlock(tip, b, bs); verr != nil {
		return false, nil
	}
	before := ch.Store.Clone()
	next, au := consensus.ApplyBlock(tip, b, bs, ch.TargetTimestamp(tip.Index.Height+1))
	after := before.Clone()

	// consumed elements must carry the store's contents
	for _, d := range au.SiacoinElementDiffs() {
		if d.Spent && !d.Created {
			e, ok := before.SC[d.SiacoinElement.ID]
			if !ok {
				return true, fmt.Errorf("accepted block spends siacoin element %v that is not live", d.SiacoinElement.ID)
			}
			if !legacyEphemeral && (e.SiacoinOutput != d.SiacoinElement.SiacoinOutput || e.MaturityHeight != d.SiacoinElement.MaturityHeight || e.StateElement.LeafIndex != d.SiacoinElement.StateElement.LeafIndex) {
				return true, fmt.Errorf("accepted block spends siacoin element %v with contents %+v (maturity %d, leaf %d); the live element is %+v (maturity %d, leaf %d)", e.ID,
					d.SiacoinElement.SiacoinOutput, d.SiacoinElement.MaturityHeight, d.SiacoinElement.StateElement.LeafIndex, e.SiacoinOutput, e.MaturityHeight, e.StateElement.LeafIndex)
			}
		}
	}
	for _, d := range au.SiafundElementDiffs() {
		if d.Spent && !d.Created {
			e, ok := before.SF[d.SiafundElement.ID]
			if !ok {
				return true, fmt.Errorf("accepted block spends siafund element %v that is not live", d.SiafundElement.ID)
			}
			if e.SiafundOutput != d.SiafundElement.SiafundOutput || e.ClaimStart != d.SiafundElement.ClaimStart {
				return true, fmt.Errorf("accepted block spends siafund element %v with altered contents", e.ID)
			}
		}
	}
	for _, d := range au.V2FileContractElementDiffs() {
		if !d.Created {
			e, ok := before.V2FC[d.V2FileContractElement.ID]
			if !ok {
				return true, fmt.Errorf("accepted block revises/resolves v2 contract %v that is not live", d.V2FileContractElement.ID)
			}
			if e.V2FileContract != d.V2FileContractElement.V2FileContract {
				return true, fmt.Errorf("accepted block revises/resolves v2 contract %v with altered contents", e.ID)
			}
		}
	}
	for _, d := range au.FileContractElementDiffs() {
		if !d.Created {
			e, ok := before.FC[d.FileContractElement.ID]
			if !ok {
				return true, fmt.Errorf("accepted block revises/resolves contract %v that is not live", d.FileContractElement.ID)
			}
			if encHex(e.FileContract) != encHex(d.FileContractElement.FileContract) {
				return true, fmt.Errorf("accepted block revises/resolves contract %v with altered contents", e.ID)
			}
		}
	}
	if err := after.Apply(au); err != nil {
		return true, fmt.Errorf("accepted block is inconsistent with the element set: %v", err)
	}
	if !legacyEphemeral {
		// conservation over the block
		delta := new(big.Int).Sub(Locked(after), Locked(before))
		// pool: tax added minus claims paid
		delta.Add(delta, new(big.Int).Sub(ref.Big(next.SiafundTaxRevenue), ref.Big(tip.SiafundTaxRevenue)))
		created := map[types.SiacoinOutputID]types.Currency{}
		for _, d := range au.SiacoinElementDiffs() {
			if d.Created {
				created[d.SiacoinElement.ID] = d.SiacoinElement.SiacoinOutput.Value
			}
		}
		for _, d := range au.SiafundElementDiffs() {
			if d.Spent {
				for _, cid := range []types.SiacoinOutputID{d.SiafundElement.ID.ClaimOutputID(), d.SiafundElement.ID.V2ClaimOutputID()} {
					if v, ok := created[cid]; ok {
						delta.Sub(delta, ref.Big(v))
					}
				}
			}
		}
		// created-and-spent-in-block outputs never reach the store but their value moved on: nothing to add.
		// forfeited by v2 expirations
		for _, d := range au.V2FileContractElementDiffs() {
			if _, ok := d.Resolution.(*types.V2FileContractExpiration); ok {
				fc := d.V2FileContractElement.V2FileContract
				if d.Revision != nil {
					fc = *d.Revision
				}
				delta.Add(delta, new(big.Int).Sub(ref.Big(fc.HostOutput.Value), ref.Big(fc.MissedHostValue)))
			}
		}
		want := ref.BlockReward(ch.Net.InitialCoinbase, ch.Net.MinimumCoinbase, next.Index.Height)
		if sub, ok := ref.FoundationSubsidy(next.Index.Height, ch.Net.HardforkFoundation.Height, ch.Net.BlockInterval, tip.FoundationSubsidyAddress == types.VoidAddress); ok {
			want.Add(want, sub)
		}
		if delta.Cmp(want) != 0 {
			return true, fmt.Errorf("accepted block changes the total supply by %s, scheduled subsidy is %s (difference %s)", delta, want, new(big.Int).Sub(delta, want))
		}
		// summed without wrap-around: outputs of 2^63 siafunds each must not cancel in the oracle's own arithmetic
		sfB, sfA := new(big.Int), new(big.Int)
		for _, e := range before.SF {
			sfB.Add(sfB, new(big.Int).SetUint64(e.SiafundOutput.Value))
		}
		for _, e := range after.SF {
			sfA.Add(sfA, new(big.Int).SetUint64(e.SiafundOutput.Value))
		}
		if sfA.Cmp(sfB) != 0 {
			return true, fmt.Errorf("accepted block changes the number of siafunds from %s to %s", sfB, sfA)
		}
	}
	// no resolution path of a contract pays more than the contract holds: from the ephemeral-output fork height on every
	// v2 contract entering or staying in the set keeps its missed host value within the host's valid output (expiry pays
	// renter output + missed host value out of renter output + host output)
	if next.Index.Height >= ch.Net.HardforkV2.EphemeralOutputHeight {
		for _, d := range au.V2FileContractElementDiffs() {
			if d.Resolution != nil || !(d.Created || d.Revision != nil) {
				continue
			}
			fc := d.V2FileContractElement.V2FileContract
			if d.Revision != nil {
				fc = *d.Revision
			}
			if fc.MissedHostValue.Cmp(fc.HostOutput.Value) > 0 {
				return true, fmt.Errorf("accepted block leaves v2 contract %v with missed host value %v above its host output %v: its expiry would pay out more than the contract holds", d.V2FileContractElement.ID, fc.MissedHostValue, fc.HostOutput.Value)
			}
		}
	}
	// revert must restore the store
	ru := consensus.RevertBlock(tip, b, bs)
	if err := after.Revert(ru, tip.Elements.NumLeaves); err != nil {
		return true, fmt.Errorf("accepted block cannot be reverted: %v", err)
	}
	if string(after.Snapshot(true)) != string(before.Snapshot(true)) {
		return true, fmt.Errorf("apply+revert of the accepted block does not restore the store: %s", SnapshotDiff(before.Snapshot(true), after.Snapshot(true)))
	}
	return true, nil
}
