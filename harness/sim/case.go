package sim

import (
	"encoding/json"
	"fmt"

	"go.sia.tech/core/consensus"
	"go.sia.tech/core/types"
	"pgregory.net/rapid"
)

// Step is one recorded operation of a chain history.
type Step struct {
	Op     string                       `json:"op"` // apply | revert | probe
	Block  *types.Block                 `json:"block,omitempty"`
	Supp   *consensus.V1BlockSupplement `json:"supp,omitempty"`
	Expect *Expect                      `json:"expect,omitempty"`
	// Control (probes only): the same tampered content, honestly re-signed by all parties. If the
	// control is rejected the tamper did not isolate the mechanism under test and nothing is asserted.
	Control     *types.Block                 `json:"control,omitempty"`
	ControlSupp *consensus.V1BlockSupplement `json:"controlSupp,omitempty"`
	Label       string                       `json:"label,omitempty"`
	Want        string                       `json:"want,omitempty"` // probe verdict the property demands: reject | accept | sound
	Info        map[string]string            `json:"info,omitempty"`
}

// ChainCase is a complete, replayable history: network, genesis and steps.
type ChainCase struct {
	Network *consensus.Network `json:"network"`
	Genesis types.Block        `json:"genesis"`
	Steps   []Step             `json:"steps"`
	Note    string             `json:"note,omitempty"`
}

// Normalize passes the case through its JSON form so that what the checker sees during
// generation is exactly what a replay from the saved file sees.
func (c ChainCase) Normalize() (ChainCase, error) {
	b, err := json.Marshal(c)
	if err != nil {
		return c, err
	}
	var out ChainCase
	if err := json.Unmarshal(b, &out); err != nil {
		return c, err
	}
	return out, nil
}

// Hooks are the property-specific observers of a replay.
type Hooks struct {
	Genesis     func(ch *Chain, au consensus.ApplyUpdate) error
	BeforeApply func(ch *Chain, st *Step) error
	AfterApply  func(ch *Chain, st *Step, parent consensus.State, au consensus.ApplyUpdate) error
	AfterRevert func(ch *Chain, st *Step, reverted types.Block, supp consensus.V1BlockSupplement, ru consensus.RevertUpdate) error
	Probe       func(ch *Chain, st *Step) error
}

// Replay runs the history against the library. Honest blocks (op apply) must be accepted.
func Replay(c ChainCase, h Hooks) (*Chain, error) {
	if c.Network == nil {
		return nil, fmt.Errorf("case has no network")
	}
	ch, au, err := NewChain(c.Network, c.Genesis)
	if err != nil {
		return nil, fmt.Errorf("genesis: %w", err)
	}
	if h.Genesis != nil {
		if err := h.Genesis(ch, au); err != nil {
			return ch, fmt.Errorf("genesis: %w", err)
		}
	}
	for i := range c.Steps {
		st := &c.Steps[i]
		switch st.Op {
		case "apply":
			if st.Block == nil || st.Supp == nil {
				return ch, fmt.Errorf("step %d: apply without block", i)
			}
			if h.BeforeApply != nil {
				if err := h.BeforeApply(ch, st); err != nil {
					return ch, fmt.Errorf("step %d (before apply at height %d): %w", i, ch.Height()+1, err)
				}
			}
			parent := ch.Tip()
			au, err := ch.Apply(*st.Block, *st.Supp)
			if err != nil {
				return ch, fmt.Errorf("step %d: %w [labels %v]", i, err, labelsOf(st))
			}
			if h.AfterApply != nil {
				if err := h.AfterApply(ch, st, parent, au); err != nil {
					return ch, fmt.Errorf("step %d (apply height %d, labels %v): %w", i, ch.Height(), labelsOf(st), err)
				}
			}
		case "revert":
			b, bs := ch.Blocks[ch.Height()], ch.Supps[ch.Height()]
			ru, err := ch.Revert()
			if err != nil {
				return ch, fmt.Errorf("step %d (revert to height %d): %w", i, ch.Height(), err)
			}
			if h.AfterRevert != nil {
				if err := h.AfterRevert(ch, st, b, bs, ru); err != nil {
					return ch, fmt.Errorf("step %d (revert to height %d): %w", i, ch.Height(), err)
				}
			}
		case "probe":
			if h.Probe != nil {
				if err := h.Probe(ch, st); err != nil {
					return ch, fmt.Errorf("step %d (probe %q at height %d): %w", i, st.Label, ch.Height()+1, err)
				}
			}
		default:
			return ch, fmt.Errorf("step %d: unknown op %q", i, st.Op)
		}
	}
	return ch, nil
}

func labelsOf(st *Step) []string {
	if st.Expect == nil {
		return nil
	}
	return st.Expect.Labels
}

// GenOpts steer GenChain.
type GenOpts struct {
	Net         NetOpts
	MinBlocks   int
	MaxBlocks   int
	Profile     Profile
	Reorgs      bool
	MaxReorg    int
	Sectors     int                                                              // > 0: contract data mostly whole sectors (World.Sectors)
	LibProver   bool                                                             // honest proofs over sector files come from the library's provers
	NoBig       bool                                                             // no transactions with hundreds of inputs or outputs (World.NoBig)
	StrayProofs bool                                                             // ephemeral v2 parents sometimes carry meaningless Merkle proofs (World.StrayProofs)
	HugeFiles   bool                                                             // contract formation sometimes commits to a virtual file of up to 2^64-1 bytes (World.Huge)
	OnBlock     func(g *Gen, b *Builder)                                         // extra actions before Fill (property-specific scenarios); nil: SameBlockScenarios
	NoScenarios bool                                                             // with OnBlock == nil: do not force same-block combinations
	BeforeApply func(g *Gen, honest types.Block, bs consensus.V1BlockSupplement) // sealed honest block, not yet applied (record probes here)
	AfterBlock  func(g *Gen)                                                     // called after each applied block (e.g. to record probes)
}

// Gen is a chain under generation together with its recording.
type Gen struct {
	T    *rapid.T
	C    *Chain
	W    *World
	Case ChainCase
	Opts GenOpts
	Dead bool // an honest block was rejected while generating; the checker will report it
}

// NewGen draws a network and starts a chain.
func NewGen(t *rapid.T, o GenOpts) *Gen {
	n, genesis := GenNetwork(t, o.Net)
	w := NewWorld()
	w.Sectors, w.LibProver, w.Huge, w.StrayProofs, w.NoBig = o.Sectors, o.LibProver, o.HugeFiles, o.StrayProofs, o.NoBig
	w.RegisterGenesis()
	ch, _, err := NewChain(n, genesis)
	if err != nil {
		panic(fmt.Sprintf("genesis cannot be applied: %v", err))
	}
	return &Gen{T: t, C: ch, W: w, Case: ChainCase{Network: n, Genesis: genesis}, Opts: o}
}

// Block builds, records and applies one honest block. It returns false once generation
// cannot continue (the recorded case then ends with the offending step).
func (g *Gen) Block() bool {
	if g.Dead {
		return false
	}
	b := NewBuilder(g.T, g.C, g.W)
	if g.Opts.OnBlock != nil {
		g.Opts.OnBlock(g, b)
	} else if !g.Opts.NoScenarios {
		SameBlockScenarios(g, b)
	}
	b.Fill(g.Opts.Profile)
	mode := rapid.IntRange(0, 4).Draw(g.T, "tsMode")
	jitter := int64(rapid.IntRange(-5, 100000).Draw(g.T, "tsJitter"))
	if mode > 2 {
		mode = 0
	}
	blk, bs, exp, err := b.Finish(mode, jitter)
	if err != nil {
		panic(fmt.Sprintf("simulator cannot seal block: %v", err))
	}
	if g.Opts.BeforeApply != nil {
		g.Opts.BeforeApply(g, blk, bs)
	}
	return g.ApplyRecorded(blk, bs, exp)
}

// ApplyRecorded records an apply step and applies it.
func (g *Gen) ApplyRecorded(blk types.Block, bs consensus.V1BlockSupplement, exp *Expect) bool {
	g.Case.Steps = append(g.Case.Steps, Step{Op: "apply", Block: &blk, Supp: &bs, Expect: exp})
	if _, err := g.C.Apply(blk, bs); err != nil {
		g.Dead = true
		return false
	}
	if g.Opts.AfterBlock != nil {
		g.Opts.AfterBlock(g)
	}
	return true
}

// Revert records and performs a revert of the tip.
func (g *Gen) Revert() bool {
	if g.Dead || g.C.Height() == 0 {
		return false
	}
	g.Case.Steps = append(g.Case.Steps, Step{Op: "revert"})
	if _, err := g.C.Revert(); err != nil {
		g.Dead = true
		return false
	}
	return true
}

// ProbeWithControl records a probe together with its honestly re-signed control block.
func (g *Gen) ProbeWithControl(blk types.Block, bs consensus.V1BlockSupplement, ctl types.Block, cbs consensus.V1BlockSupplement, label, want string, info map[string]string) {
	g.Case.Steps = append(g.Case.Steps, Step{Op: "probe", Block: &blk, Supp: &bs, Control: &ctl, ControlSupp: &cbs, Label: label, Want: want, Info: info})
}

// Probe records an adversarial (or boundary) block to be judged against the current tip.
func (g *Gen) Probe(blk types.Block, bs consensus.V1BlockSupplement, label, want string, info map[string]string) {
	g.Case.Steps = append(g.Case.Steps, Step{Op: "probe", Block: &blk, Supp: &bs, Label: label, Want: want, Info: info})
}

// GenChain draws a whole history: blocks with a random action mix and, if enabled,
// reorgs (revert k blocks, then re-apply the same blocks or grow a different branch).
func GenChain(t *rapid.T, o GenOpts) *Gen {
	g := NewGen(t, o)
	n := rapid.IntRange(o.MinBlocks, o.MaxBlocks).Draw(t, "nBlocks")
	for i := 0; i < n && !g.Dead; i++ {
		if !g.Block() {
			break
		}
		if o.Reorgs && g.C.Height() >= 2 && rapid.IntRange(0, 7).Draw(t, "reorg") == 0 {
			maxK := o.MaxReorg
			if maxK == 0 {
				maxK = 4
			}
			if uint64(maxK) > g.C.Height() {
				maxK = int(g.C.Height())
			}
			k := rapid.IntRange(1, maxK).Draw(t, "reorgDepth")
			same := rapid.Bool().Draw(t, "reorgSame")
			h := g.C.Height()
			saved := make([]Step, 0, k)
			// the apply steps of the last k blocks, oldest first
			for hh := h - uint64(k) + 1; hh <= h; hh++ {
				blk, bs := g.C.Blocks[hh], g.C.Supps[hh]
				saved = append(saved, Step{Op: "apply", Block: &blk, Supp: &bs, Expect: g.expectAt(hh)})
			}
			for j := 0; j < k; j++ {
				if !g.Revert() {
					break
				}
			}
			if same {
				for _, st := range saved {
					if !g.ApplyRecorded(*st.Block, *st.Supp, st.Expect) {
						break
					}
				}
			}
		}
	}
	return g
}

// expectAt finds the expectation recorded for the block currently at height h.
func (g *Gen) expectAt(h uint64) *Expect {
	id := g.C.Blocks[h].ID()
	for i := len(g.Case.Steps) - 1; i >= 0; i-- {
		st := g.Case.Steps[i]
		if st.Op == "apply" && st.Block.ID() == id {
			return st.Expect
		}
	}
	return nil
}

// SameBlockScenarios occasionally (about 2 blocks in 5) forces the same-block combinations that random action
// mixes rarely produce and that several properties single out: one element touched by two transactions of a block
// (revise+prove, form+revise, form+prove, repeated v1/v2 revisions, revise+renew, chained ephemeral payments).
// It is the default OnBlock of every generated chain.
func SameBlockScenarios(g *Gen, b *Builder) {
	if ver := g.W.SweepNext; ver != 0 {
		g.W.SweepNext = 0
		if ver == 2 {
			b.AfterV1(func() { b.Sweep(2) })
		} else {
			b.Sweep(1)
		}
		return
	}
	if !g.W.NoBig && b.v1Allowed() && rapid.IntRange(0, 49).Draw(g.T, "v1Batch") == 0 {
		b.Fanout(true)
		return
	}
	switch rapid.IntRange(0, 14).Draw(g.T, "scenario") {
	case 0: // revise then prove a v1 contract inside one block (possible when the window opens at this height)
		b.V1ReviseThenProve()
	case 1: // create and revise
		if b.V1Form() {
			b.V1ReviseCreatedInBlock()
		}
	case 2:
		b.V1Pay()
		b.V1Pay() // second payment may spend the first one's outputs
	case 3:
		b.AfterV1(func() {
			b.V2Pay()
			b.V2Pay()
		})
	case 4:
		b.V1FormThenProve()
	case 6: // byte-identical data-only transactions, repeated inside the block and across blocks
		b.DataOnly()
	case 9: // several v2 contracts for the same period, later proven together
		b.AfterV1(func() { b.V2FormBatch() })
	case 7: // a payout batch: one transaction with 17..300 outputs
		if !g.W.NoBig && rapid.IntRange(0, 2).Draw(g.T, "fanout") == 0 {
			if rapid.Bool().Draw(g.T, "fanAfterV1") {
				b.AfterV1(func() { b.Fanout() })
			} else {
				b.Fanout()
			}
		}
	case 8: // a wallet sweep: one transaction spending every spendable output
		if !g.W.NoBig && rapid.IntRange(0, 1).Draw(g.T, "sweep") == 0 {
			if rapid.Bool().Draw(g.T, "sweepAfterV1") {
				b.AfterV1(func() { b.Sweep() })
			} else {
				b.Sweep()
			}
		}
	case 5: // the same contract revised twice (or revised and renewed) inside one block
		if b.V1Revise() {
			b.V1ReviseAgainInBlock()
		}
		b.AfterV1(func() {
			if b.V2Revise() {
				if rapid.Bool().Draw(g.T, "againOrRenew") {
					b.V2ReviseAgainInBlock()
				} else {
					b.V2RenewRevisedInBlock()
				}
			}
		})
	}
}
