package sim

import (
	"reflect"

	"go.sia.tech/core/consensus"
	"go.sia.tech/core/types"
	"pgregory.net/rapid"
)

var (
	typCurrency = reflect.TypeOf(types.Currency{})
	typStateEl  = reflect.TypeOf(types.StateElement{})
	typPolicy   = reflect.TypeOf(types.SpendPolicy{})
	typHashes   = reflect.TypeOf([]types.Hash256(nil))
	typRes      = reflect.TypeOf((*types.V2FileContractResolutionType)(nil)).Elem()
)

// leaf is one mutable place inside a block or supplement.
type leaf struct {
	v    reflect.Value
	path string
}

func collect(v reflect.Value, path string, out *[]leaf) {
	switch {
	case v.Type() == typCurrency, v.Type() == typPolicy, v.Type() == typHashes, v.Type() == typRes:
		if v.CanSet() {
			*out = append(*out, leaf{v, path})
		}
		return
	}
	switch v.Kind() {
	case reflect.Ptr:
		if !v.IsNil() {
			collect(v.Elem(), path, out)
		}
	case reflect.Interface:
		if !v.IsNil() {
			e := v.Elem()
			if e.Kind() == reflect.Ptr {
				collect(e.Elem(), path, out)
			}
		}
	case reflect.Struct:
		for i := 0; i < v.NumField(); i++ {
			f := v.Type().Field(i)
			if f.IsExported() && f.Type.String() != "time.Time" {
				collect(v.Field(i), path+"."+f.Name, out)
			}
		}
	case reflect.Slice:
		if v.CanSet() {
			*out = append(*out, leaf{v, path + "#slice"})
		}
		if v.Type().Elem().Kind() == reflect.Uint8 {
			return
		}
		for i := 0; i < v.Len() && i < 6; i++ {
			collect(v.Index(i), path+"[]", out)
		}
	case reflect.Array:
		if v.Type().Elem().Kind() == reflect.Uint8 && v.CanSet() {
			*out = append(*out, leaf{v, path + "#bytes"})
		}
	case reflect.Uint64, reflect.Uint8:
		if v.CanSet() {
			*out = append(*out, leaf{v, path})
		}
	}
}

var hostileU64 = []uint64{0, 1, 2, 255, 256, 1 << 31, 1<<32 - 1, 1 << 32, 1 << 62, 1 << 63, 1<<63 - 1, ^uint64(0), ^uint64(0) - 1, types.UnassignedLeafIndex, 999}

var hostileCur = []types.Currency{
	{}, {Lo: 1}, {Lo: ^uint64(0)}, {Hi: 1}, {Hi: 1 << 63}, {Lo: ^uint64(0), Hi: ^uint64(0)}, {Lo: ^uint64(0) - 1, Hi: ^uint64(0)}, {Hi: 1 << 62}, {Lo: 0, Hi: ^uint64(0)},
}

func deepPolicy(depth int) types.SpendPolicy {
	p := types.PolicyAbove(0)
	for i := 0; i < depth; i++ {
		p = types.PolicyThreshold(1, []types.SpendPolicy{p})
	}
	return p
}

func widePolicy(n int) types.SpendPolicy {
	of := make([]types.SpendPolicy, n)
	for i := range of {
		of[i] = types.PolicyAbove(0)
	}
	return types.PolicyThreshold(uint8(n), of)
}

// HostileMutate applies 1..3 structure-aware hostile mutations to a block and its supplement and
// returns a description. The result is NOT re-signed or re-sealed (callers decide).
func HostileMutate(t *rapid.T, blk *types.Block, bs *consensus.V1BlockSupplement) string {
	desc := ""
	n := rapid.IntRange(1, 3).Draw(t, "nMut")
	for k := 0; k < n; k++ {
		var ls []leaf
		collect(reflect.ValueOf(blk).Elem(), "block", &ls)
		collect(reflect.ValueOf(bs).Elem(), "supp", &ls)
		if len(ls) == 0 {
			return desc
		}
		l := ls[rapid.IntRange(0, len(ls)-1).Draw(t, "leaf")]
		v := l.v
		what := ""
		switch {
		case v.Type() == typCurrency:
			c := hostileCur[rapid.IntRange(0, len(hostileCur)-1).Draw(t, "cur")]
			v.Set(reflect.ValueOf(c))
			what = "currency=" + c.ExactString()
		case v.Type() == typPolicy:
			switch rapid.IntRange(0, 4).Draw(t, "pol") {
			case 0:
				v.Set(reflect.ValueOf(deepPolicy(rapid.SampledFrom([]int{1, 30, 31, 32}).Draw(t, "depth"))))
				what = "deep-policy"
			case 1:
				v.Set(reflect.ValueOf(widePolicy(rapid.SampledFrom([]int{254, 255, 256, 300, 1025}).Draw(t, "width"))))
				what = "wide-policy"
			case 2:
				v.Set(reflect.ValueOf(types.SpendPolicy{Type: types.PolicyTypeUnlockConditions{SignaturesRequired: ^uint64(0), PublicKeys: []types.UnlockKey{{Algorithm: types.SpecifierEntropy}, {Algorithm: types.SpecifierEd25519, Key: []byte{1}}}}}))
				what = "odd-uc-policy"
			case 3:
				v.Set(reflect.ValueOf(types.PolicyThreshold(200, nil)))
				what = "thresh-200-of-0"
			default:
				v.Set(reflect.ValueOf(types.PolicyThreshold(1, []types.SpendPolicy{{Type: types.PolicyTypeUnlockConditions{}}})))
				what = "uc-inside-thresh"
			}
		case v.Type() == typHashes:
			switch rapid.IntRange(0, 3).Draw(t, "proof") {
			case 0:
				v.Set(reflect.Zero(typHashes))
				what = "proof=nil"
			case 1:
				v.Set(reflect.ValueOf(make([]types.Hash256, rapid.SampledFrom([]int{1, 63, 64, 65, 200}).Draw(t, "plen"))))
				what = "proof=long"
			case 2:
				if v.Len() > 0 {
					v.Set(v.Slice(0, v.Len()-1))
				}
				what = "proof-truncated"
			default:
				v.Set(reflect.Append(v, reflect.ValueOf(types.Hash256{1})))
				what = "proof-extended"
			}
		case v.Type() == typRes:
			switch rapid.IntRange(0, 2).Draw(t, "res") {
			case 0:
				v.Set(reflect.ValueOf(&types.V2FileContractExpiration{}))
				what = "resolution=expiration"
			case 1:
				v.Set(reflect.ValueOf(&types.V2StorageProof{}))
				what = "resolution=empty-proof"
			default:
				v.Set(reflect.ValueOf(&types.V2FileContractRenewal{RenterRollover: types.MaxCurrency, HostRollover: types.NewCurrency64(1)}))
				what = "resolution=renewal-max-rollover"
			}
		case v.Kind() == reflect.Slice:
			switch op := rapid.IntRange(0, 3).Draw(t, "slice"); {
			case op == 0 || v.Len() == 0:
				v.Set(reflect.Zero(v.Type()))
				what = "slice=nil"
			case op == 1:
				v.Set(reflect.Append(v, v.Index(rapid.IntRange(0, v.Len()-1).Draw(t, "dup"))))
				what = "slice-dup-element"
			case op == 2:
				i := rapid.IntRange(0, v.Len()-1).Draw(t, "drop")
				v.Set(reflect.AppendSlice(v.Slice(0, i), v.Slice(i+1, v.Len())))
				what = "slice-drop-element"
			default:
				if v.Len() >= 2 {
					a, b := v.Index(0).Interface(), v.Index(v.Len()-1).Interface()
					v.Index(0).Set(reflect.ValueOf(b))
					v.Index(v.Len() - 1).Set(reflect.ValueOf(a))
				}
				what = "slice-swap-ends"
			}
		case v.Kind() == reflect.Array:
			i := rapid.IntRange(0, v.Len()-1).Draw(t, "byte")
			v.Index(i).SetUint(v.Index(i).Uint() ^ 0x55)
			what = "bytes-flip"
		case v.Kind() == reflect.Uint64:
			u := hostileU64[rapid.IntRange(0, len(hostileU64)-1).Draw(t, "u64")]
			v.SetUint(u)
			what = "u64"
		case v.Kind() == reflect.Uint8:
			v.SetUint(uint64(rapid.Byte().Draw(t, "u8")))
			what = "u8"
		}
		desc += l.path + ":" + what + "; "
	}
	return desc
}

// HostileCoveredFields makes the signatures of a v1 transaction reference indices that do not exist.
func HostileCoveredFields(t *rapid.T, txn *types.Transaction) bool {
	if len(txn.Signatures) == 0 {
		return false
	}
	s := &txn.Signatures[rapid.IntRange(0, len(txn.Signatures)-1).Draw(t, "cfSig")]
	idx := []uint64{hostileU64[rapid.IntRange(0, len(hostileU64)-1).Draw(t, "cfIdx")]}
	switch rapid.IntRange(0, 10).Draw(t, "cfField") {
	case 0:
		s.CoveredFields = types.CoveredFields{SiacoinInputs: idx}
	case 1:
		s.CoveredFields = types.CoveredFields{SiacoinOutputs: idx}
	case 2:
		s.CoveredFields = types.CoveredFields{FileContracts: idx}
	case 3:
		s.CoveredFields = types.CoveredFields{FileContractRevisions: idx}
	case 4:
		s.CoveredFields = types.CoveredFields{StorageProofs: idx}
	case 5:
		s.CoveredFields = types.CoveredFields{SiafundInputs: idx}
	case 6:
		s.CoveredFields = types.CoveredFields{SiafundOutputs: idx}
	case 7:
		s.CoveredFields = types.CoveredFields{MinerFees: idx}
	case 8:
		s.CoveredFields = types.CoveredFields{ArbitraryData: idx}
	case 9:
		s.CoveredFields = types.CoveredFields{Signatures: idx}
	default:
		s.CoveredFields = types.CoveredFields{WholeTransaction: true, Signatures: idx}
	}
	return true
}

// HostileCrossKindID rewires one parent reference of the block to the ID of an element that an EARLIER transaction
// of the same block created — of any kind (siacoin output, siafund output, v1/v2 contract, attestation) — and, for
// v2 inputs, optionally marks the parent as ephemeral. The per-block lookup tables of validation are keyed by ID
// across all element kinds, so a reference of one kind that hits an entry of another kind must be refused cleanly
// (no index panic, no acceptance). With pad, a signed transaction carrying several attestations is put in front of
// the v2 transactions first, so that foreign indices exceed the number of siacoin / siafund / contract entries.
// The result is NOT re-signed or re-sealed.
func HostileCrossKindID(t *rapid.T, cs consensus.State, blk *types.Block, pad bool) string {
	desc := ""
	if pad && blk.V2 != nil {
		var at types.V2Transaction
		n := rapid.IntRange(1, 4).Draw(t, "padAttestations")
		for i := 0; i < n; i++ {
			at.Attestations = append(at.Attestations, types.Attestation{PublicKey: Pub(i), Key: "pad", Value: []byte{byte(i)}})
		}
		SignV2(cs, &at, SignOpts{})
		blk.V2.Transactions = append([]types.V2Transaction{at}, blk.V2.Transactions...)
		desc += "attestation-padding; "
	}
	type created struct {
		id   types.Hash256
		pos  int
		kind string
	}
	type ref struct {
		set  func(types.Hash256)
		eph  func()
		pos  int
		kind string
	}
	var cr []created
	var refs []ref
	pos := 0
	for ti := range blk.Transactions {
		txn := &blk.Transactions[ti]
		for i := range txn.SiacoinInputs {
			in := &txn.SiacoinInputs[i]
			refs = append(refs, ref{func(h types.Hash256) { in.ParentID = types.SiacoinOutputID(h) }, nil, pos, "v1-siacoin-input"})
		}
		for i := range txn.SiafundInputs {
			in := &txn.SiafundInputs[i]
			refs = append(refs, ref{func(h types.Hash256) { in.ParentID = types.SiafundOutputID(h) }, nil, pos, "v1-siafund-input"})
		}
		for i := range txn.FileContractRevisions {
			r := &txn.FileContractRevisions[i]
			refs = append(refs, ref{func(h types.Hash256) { r.ParentID = types.FileContractID(h) }, nil, pos, "v1-revision"})
		}
		for i := range txn.StorageProofs {
			sp := &txn.StorageProofs[i]
			refs = append(refs, ref{func(h types.Hash256) { sp.ParentID = types.FileContractID(h) }, nil, pos, "v1-storage-proof"})
		}
		for i := range txn.SiacoinOutputs {
			cr = append(cr, created{types.Hash256(txn.SiacoinOutputID(i)), pos, "siacoin"})
		}
		for i := range txn.SiafundOutputs {
			cr = append(cr, created{types.Hash256(txn.SiafundOutputID(i)), pos, "siafund"})
		}
		for i := range txn.FileContracts {
			cr = append(cr, created{types.Hash256(txn.FileContractID(i)), pos, "contract"})
		}
		pos++
	}
	if blk.V2 != nil {
		for ti := range blk.V2.Transactions {
			txn := &blk.V2.Transactions[ti]
			for i := range txn.SiacoinInputs {
				in := &txn.SiacoinInputs[i]
				refs = append(refs, ref{func(h types.Hash256) { in.Parent.ID = types.SiacoinOutputID(h) },
					func() { in.Parent.StateElement = types.StateElement{LeafIndex: types.UnassignedLeafIndex} }, pos, "v2-siacoin-input"})
			}
			for i := range txn.SiafundInputs {
				in := &txn.SiafundInputs[i]
				refs = append(refs, ref{func(h types.Hash256) { in.Parent.ID = types.SiafundOutputID(h) },
					func() { in.Parent.StateElement = types.StateElement{LeafIndex: types.UnassignedLeafIndex} }, pos, "v2-siafund-input"})
			}
			for i := range txn.FileContractRevisions {
				r := &txn.FileContractRevisions[i]
				refs = append(refs, ref{func(h types.Hash256) { r.Parent.ID = types.FileContractID(h) },
					func() { r.Parent.StateElement = types.StateElement{LeafIndex: types.UnassignedLeafIndex} }, pos, "v2-revision"})
			}
			for i := range txn.FileContractResolutions {
				r := &txn.FileContractResolutions[i]
				refs = append(refs, ref{func(h types.Hash256) { r.Parent.ID = types.FileContractID(h) },
					func() { r.Parent.StateElement = types.StateElement{LeafIndex: types.UnassignedLeafIndex} }, pos, "v2-resolution"})
			}
			func() {
				defer func() { recover() }() // a hostile (nil) resolution cannot be hashed: no IDs from this transaction
				txid := txn.ID()
				for i := range txn.SiacoinOutputs {
					cr = append(cr, created{types.Hash256(txn.SiacoinOutputID(txid, i)), pos, "siacoin"})
				}
				for i := range txn.SiafundOutputs {
					cr = append(cr, created{types.Hash256(txn.SiafundOutputID(txid, i)), pos, "siafund"})
				}
				for i := range txn.FileContracts {
					cr = append(cr, created{types.Hash256(txn.V2FileContractID(txid, i)), pos, "v2-contract"})
				}
				for i := range txn.Attestations {
					cr = append(cr, created{types.Hash256(txn.AttestationID(txid, i)), pos, "attestation"})
				}
			}()
			pos++
		}
	}
	if len(refs) == 0 || len(cr) == 0 {
		return desc
	}
	for tries := 0; tries < 8; tries++ {
		r := refs[rapid.IntRange(0, len(refs)-1).Draw(t, "xkRef")]
		var earlier []created
		for _, c := range cr {
			if c.pos < r.pos {
				earlier = append(earlier, c)
			}
		}
		if len(earlier) == 0 {
			continue
		}
		// the last entries of a kind carry the highest per-kind indices
		c := earlier[len(earlier)-1-rapid.IntRange(0, len(earlier)-1).Draw(t, "xkCreated")%len(earlier)]
		if rapid.Bool().Draw(t, "xkLast") {
			c = earlier[len(earlier)-1]
		}
		r.set(c.id)
		desc += r.kind + " parent := id of " + c.kind + " created by an earlier transaction"
		if r.eph != nil && rapid.IntRange(0, 2).Draw(t, "xkEphemeral") != 0 {
			r.eph()
			desc += " (as ephemeral parent)"
		}
		return desc + "; "
	}
	return desc
}

// HostileShape changes the shape of what a caller hands to the validation entry points rather than a value inside it:
// the supplement gets fewer or more per-transaction entries than the block has v1 transactions (none at all: what a
// node passes once v1 transactions are no longer allowed), and a v1 transaction is slipped into the block whatever
// the era (with a supplement entry for it, or without). The block is decodable in every case.
func HostileShape(t *rapid.T, blk *types.Block, bs *consensus.V1BlockSupplement) string {
	desc := ""
	if rapid.Bool().Draw(t, "slipV1") {
		txn := types.Transaction{ArbitraryData: [][]byte{{0x5A, byte(rapid.IntRange(0, 255).Draw(t, "slipByte"))}}}
		if rapid.Bool().Draw(t, "slipFee") {
			txn.MinerFees = []types.Currency{types.NewCurrency64(1)}
		}
		at := rapid.IntRange(0, len(blk.Transactions)).Draw(t, "slipAt")
		blk.Transactions = append(blk.Transactions[:at:at], append([]types.Transaction{txn}, blk.Transactions[at:]...)...)
		if rapid.Bool().Draw(t, "slipSupp") && at <= len(bs.Transactions) {
			bs.Transactions = append(bs.Transactions[:at:at], append([]consensus.V1TransactionSupplement{{}}, bs.Transactions[at:]...)...)
			desc += "v1-transaction-slipped-in-with-supplement-entry; "
		} else {
			desc += "v1-transaction-slipped-in; "
		}
	}
	switch rapid.IntRange(0, 4).Draw(t, "suppShape") {
	case 0:
		*bs = consensus.V1BlockSupplement{}
		desc += "supplement=empty; "
	case 1:
		if len(bs.Transactions) > 0 {
			bs.Transactions = bs.Transactions[:len(bs.Transactions)-1]
			desc += "supplement-one-entry-short; "
		}
	case 2:
		bs.Transactions = append(bs.Transactions, consensus.V1TransactionSupplement{})
		desc += "supplement-one-entry-long; "
	case 3:
		bs.ExpiringFileContracts = nil
		desc += "supplement-without-expiring-contracts; "
	}
	return desc
}
