package sim

import (
	"bytes"
	"fmt"
	"reflect"
	"sort"

	"go.sia.tech/core/consensus"
	"go.sia.tech/core/types"
)

// Store is what a node / wallet would keep, built only from the public update API.
// Besides the live elements it keeps spent / resolved elements with their proofs
// maintained (needed to present "a proof that was valid before the first use").
type Store struct {
	SC   map[types.SiacoinOutputID]types.SiacoinElement
	SF   map[types.SiafundOutputID]types.SiafundElement
	FC   map[types.FileContractID]types.FileContractElement
	V2FC map[types.FileContractID]types.V2FileContractElement
	CI   []types.ChainIndexElement // by height

	SpentSC      map[types.SiacoinOutputID]types.SiacoinElement
	SpentSF      map[types.SiafundOutputID]types.SiafundElement
	ResolvedFC   map[types.FileContractID]types.FileContractElement
	ResolvedV2FC map[types.FileContractID]types.V2FileContractElement
}

// NewStore returns an empty store.
func NewStore() *Store {
	return &Store{
		SC: map[types.SiacoinOutputID]types.SiacoinElement{}, SF: map[types.SiafundOutputID]types.SiafundElement{},
		FC: map[types.FileContractID]types.FileContractElement{}, V2FC: map[types.FileContractID]types.V2FileContractElement{},
		SpentSC: map[types.SiacoinOutputID]types.SiacoinElement{}, SpentSF: map[types.SiafundOutputID]types.SiafundElement{},
		ResolvedFC: map[types.FileContractID]types.FileContractElement{}, ResolvedV2FC: map[types.FileContractID]types.V2FileContractElement{},
	}
}

func copyFC(e types.FileContractElement) types.FileContractElement {
	e = e.Copy()
	e.FileContract.ValidProofOutputs = append([]types.SiacoinOutput(nil), e.FileContract.ValidProofOutputs...)
	e.FileContract.MissedProofOutputs = append([]types.SiacoinOutput(nil), e.FileContract.MissedProofOutputs...)
	return e
}

// Clone deep-copies the store.
func (s *Store) Clone() *Store {
	c := NewStore()
	for k, v := range s.SC {
		c.SC[k] = v.Copy()
	}
	for k, v := range s.SF {
		c.SF[k] = v.Copy()
	}
	for k, v := range s.FC {
		c.FC[k] = copyFC(v)
	}
	for k, v := range s.V2FC {
		c.V2FC[k] = v.Copy()
	}
	for _, v := range s.CI {
		c.CI = append(c.CI, v.Copy())
	}
	for k, v := range s.SpentSC {
		c.SpentSC[k] = v.Copy()
	}
	for k, v := range s.SpentSF {
		c.SpentSF[k] = v.Copy()
	}
	for k, v := range s.ResolvedFC {
		c.ResolvedFC[k] = copyFC(v)
	}
	for k, v := range s.ResolvedV2FC {
		c.ResolvedV2FC[k] = v.Copy()
	}
	return c
}

// updater is implemented by ApplyUpdate and RevertUpdate.
type updater interface {
	UpdateElementProof(*types.StateElement)
}

func (s *Store) updateProofs(u updater, limit uint64) {
	for k, v := range s.SC {
		if v.StateElement.LeafIndex < limit {
			u.UpdateElementProof(&v.StateElement)
			s.SC[k] = v
		}
	}
	for k, v := range s.SF {
		if v.StateElement.LeafIndex < limit {
			u.UpdateElementProof(&v.StateElement)
			s.SF[k] = v
		}
	}
	for k, v := range s.FC {
		if v.StateElement.LeafIndex < limit {
			u.UpdateElementProof(&v.StateElement)
			s.FC[k] = v
		}
	}
	for k, v := range s.V2FC {
		if v.StateElement.LeafIndex < limit {
			u.UpdateElementProof(&v.StateElement)
			s.V2FC[k] = v
		}
	}
	for i := range s.CI {
		if s.CI[i].StateElement.LeafIndex < limit {
			u.UpdateElementProof(&s.CI[i].StateElement)
		}
	}
	for k, v := range s.SpentSC {
		if v.StateElement.LeafIndex < limit {
			u.UpdateElementProof(&v.StateElement)
			s.SpentSC[k] = v
		}
	}
	for k, v := range s.SpentSF {
		if v.StateElement.LeafIndex < limit {
			u.UpdateElementProof(&v.StateElement)
			s.SpentSF[k] = v
		}
	}
	for k, v := range s.ResolvedFC {
		if v.StateElement.LeafIndex < limit {
			u.UpdateElementProof(&v.StateElement)
			s.ResolvedFC[k] = v
		}
	}
	for k, v := range s.ResolvedV2FC {
		if v.StateElement.LeafIndex < limit {
			u.UpdateElementProof(&v.StateElement)
			s.ResolvedV2FC[k] = v
		}
	}
}

// Apply incorporates an ApplyUpdate: first every held proof is refreshed, then the
// diffs are applied. It returns an error if a diff does not fit the store (spending an
// element the store does not hold, creating one it already holds, ...).
func (s *Store) Apply(au consensus.ApplyUpdate) error {
	s.updateProofs(au, ^uint64(0))
	for _, d := range au.SiacoinElementDiffs() {
		id := d.SiacoinElement.ID
		switch {
		case d.Created && d.Spent:
			// ephemeral: never enters the live set; remember it as spent
			if _, ok := s.SC[id]; ok {
				return fmt.Errorf("siacoin %v created+spent but already live", id)
			}
			s.SpentSC[id] = d.SiacoinElement.Copy()
		case d.Created:
			if _, ok := s.SC[id]; ok {
				return fmt.Errorf("siacoin %v created twice", id)
			}
			if _, ok := s.SpentSC[id]; ok {
				return fmt.Errorf("siacoin %v re-created after being spent", id)
			}
			s.SC[id] = d.SiacoinElement.Copy()
		case d.Spent:
			if _, ok := s.SC[id]; !ok {
				return fmt.Errorf("siacoin %v spent but not live", id)
			}
			delete(s.SC, id)
			s.SpentSC[id] = d.SiacoinElement.Copy()
		default:
			return fmt.Errorf("siacoin diff %v neither created nor spent", id)
		}
	}
	for _, d := range au.SiafundElementDiffs() {
		id := d.SiafundElement.ID
		switch {
		case d.Created && d.Spent:
			if _, ok := s.SF[id]; ok {
				return fmt.Errorf("siafund %v created+spent but already live", id)
			}
			s.SpentSF[id] = d.SiafundElement.Copy()
		case d.Created:
			if _, ok := s.SF[id]; ok {
				return fmt.Errorf("siafund %v created twice", id)
			}
			if _, ok := s.SpentSF[id]; ok {
				return fmt.Errorf("siafund %v re-created after being spent", id)
			}
			s.SF[id] = d.SiafundElement.Copy()
		case d.Spent:
			if _, ok := s.SF[id]; !ok {
				return fmt.Errorf("siafund %v spent but not live", id)
			}
			delete(s.SF, id)
			s.SpentSF[id] = d.SiafundElement.Copy()
		default:
			return fmt.Errorf("siafund diff %v neither created nor spent", id)
		}
	}
	for _, d := range au.FileContractElementDiffs() {
		id := d.FileContractElement.ID
		e := copyFC(d.FileContractElement)
		// the library's own view of "the revised element" must be the element carrying the revision
		if re, ok := d.RevisionElement(); ok != (d.Revision != nil) {
			return fmt.Errorf("contract %v: RevisionElement reports ok=%v, the diff's revision is present=%v", id, ok, d.Revision != nil)
		} else if ok && (re.ID != id || re.StateElement.LeafIndex != d.FileContractElement.StateElement.LeafIndex || !sameProof(re.StateElement.MerkleProof, d.FileContractElement.StateElement.MerkleProof) || !reflect.DeepEqual(re.FileContract, *d.Revision)) {
			return fmt.Errorf("contract %v: RevisionElement is not the diff's element carrying the revision", id)
		}
		if d.Revision != nil {
			e.FileContract = *d.Revision
			e = copyFC(e)
		}
		_, live := s.FC[id]
		if d.Created {
			if live {
				return fmt.Errorf("contract %v created twice", id)
			}
			if _, ok := s.ResolvedFC[id]; ok {
				return fmt.Errorf("contract %v re-created after resolution", id)
			}
		} else if !live {
			return fmt.Errorf("contract %v revised/resolved but not live", id)
		}
		if d.Resolved {
			delete(s.FC, id)
			s.ResolvedFC[id] = e
		} else {
			s.FC[id] = e
		}
	}
	for _, d := range au.V2FileContractElementDiffs() {
		id := d.V2FileContractElement.ID
		e := d.V2FileContractElement.Copy()
		if re, ok := d.V2RevisionElement(); ok != (d.Revision != nil) {
			return fmt.Errorf("v2 contract %v: V2RevisionElement reports ok=%v, the diff's revision is present=%v", id, ok, d.Revision != nil)
		} else if ok && (re.ID != id || re.StateElement.LeafIndex != d.V2FileContractElement.StateElement.LeafIndex || !sameProof(re.StateElement.MerkleProof, d.V2FileContractElement.StateElement.MerkleProof) || !reflect.DeepEqual(re.V2FileContract, *d.Revision)) {
			return fmt.Errorf("v2 contract %v: V2RevisionElement is not the diff's element carrying the revision", id)
		}
		if d.Revision != nil {
			e.V2FileContract = *d.Revision
		}
		_, live := s.V2FC[id]
		if d.Created {
			if live {
				return fmt.Errorf("v2 contract %v created twice", id)
			}
			if _, ok := s.ResolvedV2FC[id]; ok {
				return fmt.Errorf("v2 contract %v re-created after resolution", id)
			}
		} else if !live {
			return fmt.Errorf("v2 contract %v revised/resolved but not live", id)
		}
		if d.Resolution != nil {
			delete(s.V2FC, id)
			s.ResolvedV2FC[id] = e
		} else {
			s.V2FC[id] = e
		}
	}
	s.CI = append(s.CI, au.ChainIndexElement().Copy())
	return nil
}

// Revert applies the inverse of the diffs reported by a RevertUpdate and refreshes the
// proofs of everything that remains.
func (s *Store) Revert(ru consensus.RevertUpdate, numLeavesBefore uint64) error {
	for _, d := range ru.SiacoinElementDiffs() {
		id := d.SiacoinElement.ID
		switch {
		case d.Created && d.Spent:
			delete(s.SpentSC, id)
		case d.Created:
			if _, ok := s.SC[id]; !ok {
				return fmt.Errorf("revert: created siacoin %v not live", id)
			}
			delete(s.SC, id)
		case d.Spent:
			if _, ok := s.SpentSC[id]; !ok {
				return fmt.Errorf("revert: spent siacoin %v not in spent set", id)
			}
			delete(s.SpentSC, id)
			s.SC[id] = d.SiacoinElement.Copy()
		}
	}
	for _, d := range ru.SiafundElementDiffs() {
		id := d.SiafundElement.ID
		switch {
		case d.Created && d.Spent:
			delete(s.SpentSF, id)
		case d.Created:
			if _, ok := s.SF[id]; !ok {
				return fmt.Errorf("revert: created siafund %v not live", id)
			}
			delete(s.SF, id)
		case d.Spent:
			if _, ok := s.SpentSF[id]; !ok {
				return fmt.Errorf("revert: spent siafund %v not in spent set", id)
			}
			delete(s.SpentSF, id)
			s.SF[id] = d.SiafundElement.Copy()
		}
	}
	for _, d := range ru.FileContractElementDiffs() {
		id := d.FileContractElement.ID
		if d.Created {
			delete(s.FC, id)
			delete(s.ResolvedFC, id)
			continue
		}
		// revised and/or resolved: the element carries the contract as it was before the block
		delete(s.ResolvedFC, id)
		s.FC[id] = copyFC(d.FileContractElement)
	}
	for _, d := range ru.V2FileContractElementDiffs() {
		id := d.V2FileContractElement.ID
		if d.Created {
			delete(s.V2FC, id)
			delete(s.ResolvedV2FC, id)
			continue
		}
		delete(s.ResolvedV2FC, id)
		s.V2FC[id] = d.V2FileContractElement.Copy()
	}
	if len(s.CI) == 0 {
		return fmt.Errorf("revert: no chain index to drop")
	}
	s.CI = s.CI[:len(s.CI)-1]
	s.updateProofs(ru, numLeavesBefore)
	return nil
}

// Snapshot is a canonical, order-independent rendering of the store (ids, contents,
// leaf indices, proofs) used to compare stores for equality.
func (s *Store) Snapshot(withProofs bool) []byte {
	var lines []string
	enc := func(e types.EncoderTo) string {
		var buf bytes.Buffer
		en := types.NewEncoder(&buf)
		e.EncodeTo(en)
		en.Flush()
		return fmt.Sprintf("%x", buf.Bytes())
	}
	strip := func(se types.StateElement) types.StateElement {
		if !withProofs {
			se.MerkleProof = nil
		}
		return se
	}
	for _, v := range s.SC {
		v.StateElement = strip(v.StateElement)
		lines = append(lines, "sc "+enc(v))
	}
	for _, v := range s.SF {
		v.StateElement = strip(v.StateElement)
		lines = append(lines, "sf "+enc(v))
	}
	for _, v := range s.FC {
		v.StateElement = strip(v.StateElement)
		lines = append(lines, "fc "+enc(v))
	}
	for _, v := range s.V2FC {
		v.StateElement = strip(v.StateElement)
		lines = append(lines, "v2fc "+enc(v))
	}
	for _, v := range s.CI {
		v.StateElement = strip(v.StateElement)
		lines = append(lines, "ci "+enc(v))
	}
	for _, v := range s.SpentSC {
		v.StateElement = strip(v.StateElement)
		lines = append(lines, "xsc "+enc(v))
	}
	for _, v := range s.SpentSF {
		v.StateElement = strip(v.StateElement)
		lines = append(lines, "xsf "+enc(v))
	}
	for _, v := range s.ResolvedFC {
		v.StateElement = strip(v.StateElement)
		lines = append(lines, "xfc "+enc(v))
	}
	for _, v := range s.ResolvedV2FC {
		v.StateElement = strip(v.StateElement)
		lines = append(lines, "xv2fc "+enc(v))
	}
	sort.Strings(lines)
	var out bytes.Buffer
	for _, l := range lines {
		out.WriteString(l)
		out.WriteByte('\n')
	}
	return out.Bytes()
}

// Diff returns the first few differing lines of two snapshots (for messages).
func SnapshotDiff(a, b []byte) string {
	as, bs := bytes.Split(a, []byte("\n")), bytes.Split(b, []byte("\n"))
	am := map[string]bool{}
	for _, l := range as {
		am[string(l)] = true
	}
	bm := map[string]bool{}
	for _, l := range bs {
		bm[string(l)] = true
	}
	var out []string
	for _, l := range as {
		if !bm[string(l)] && len(out) < 6 {
			out = append(out, "- "+trunc(string(l)))
		}
	}
	for _, l := range bs {
		if !am[string(l)] && len(out) < 12 {
			out = append(out, "+ "+trunc(string(l)))
		}
	}
	return fmt.Sprint(out)
}

func trunc(s string) string {
	if len(s) > 200 {
		return s[:200] + "…"
	}
	return s
}

// SortedSC returns the live siacoin elements ordered by ID (deterministic iteration).
func (s *Store) SortedSC() []types.SiacoinElement {
	out := make([]types.SiacoinElement, 0, len(s.SC))
	for _, v := range s.SC {
		out = append(out, v)
	}
	sort.Slice(out, func(i, j int) bool { return bytes.Compare(out[i].ID[:], out[j].ID[:]) < 0 })
	return out
}

// SortedSF returns the live siafund elements ordered by ID.
func (s *Store) SortedSF() []types.SiafundElement {
	out := make([]types.SiafundElement, 0, len(s.SF))
	for _, v := range s.SF {
		out = append(out, v)
	}
	sort.Slice(out, func(i, j int) bool { return bytes.Compare(out[i].ID[:], out[j].ID[:]) < 0 })
	return out
}

// SortedFC returns the live v1 contracts ordered by ID.
func (s *Store) SortedFC() []types.FileContractElement {
	out := make([]types.FileContractElement, 0, len(s.FC))
	for _, v := range s.FC {
		out = append(out, v)
	}
	sort.Slice(out, func(i, j int) bool { return bytes.Compare(out[i].ID[:], out[j].ID[:]) < 0 })
	return out
}

// SortedV2FC returns the live v2 contracts ordered by ID.
func (s *Store) SortedV2FC() []types.V2FileContractElement {
	out := make([]types.V2FileContractElement, 0, len(s.V2FC))
	for _, v := range s.V2FC {
		out = append(out, v)
	}
	sort.Slice(out, func(i, j int) bool { return bytes.Compare(out[i].ID[:], out[j].ID[:]) < 0 })
	return out
}

// Supplement builds the v1 block supplement for b on top of this store the way a node
// does: parents by ID (absent ones are expected to be created earlier in the block),
// the window block ID for storage proofs (only if that block exists) and every live
// v1 contract whose window ends at the child height.
func (s *Store) Supplement(b types.Block, childHeight uint64, requireHeight uint64) consensus.V1BlockSupplement {
	var bs consensus.V1BlockSupplement
	if childHeight >= requireHeight {
		return bs
	}
	bs.Transactions = make([]consensus.V1TransactionSupplement, len(b.Transactions))
	for i, txn := range b.Transactions {
		ts := &bs.Transactions[i]
		for _, in := range txn.SiacoinInputs {
			if e, ok := s.SC[in.ParentID]; ok {
				ts.SiacoinInputs = append(ts.SiacoinInputs, e.Copy())
			}
		}
		for _, in := range txn.SiafundInputs {
			if e, ok := s.SF[in.ParentID]; ok {
				ts.SiafundInputs = append(ts.SiafundInputs, e.Copy())
			}
		}
		for _, r := range txn.FileContractRevisions {
			if e, ok := s.FC[r.ParentID]; ok {
				ts.RevisedFileContracts = append(ts.RevisedFileContracts, copyFC(e))
			}
		}
		for _, sp := range txn.StorageProofs {
			if e, ok := s.FC[sp.ParentID]; ok {
				ws := e.FileContract.WindowStart
				if ws >= 1 && ws-1 < uint64(len(s.CI)) {
					ts.StorageProofs = append(ts.StorageProofs, consensus.V1StorageProofSupplement{FileContract: copyFC(e), WindowID: s.CI[ws-1].ChainIndex.ID})
				}
			}
		}
	}
	for _, e := range s.SortedFC() {
		if e.FileContract.WindowEnd == childHeight {
			bs.ExpiringFileContracts = append(bs.ExpiringFileContracts, copyFC(e))
		}
	}
	return bs
}

func sameProof(a, b []types.Hash256) bool {
	if len(a) != len(b) {
		return false
	}
	for i := range a {
		if a[i] != b[i] {
			return false
		}
	}
	return true
}
