// Package sim is the chain simulator shared by the consensus checks: deterministic
// keys and lock catalogue (wallet), random network configurations, a client-side
// element store built only from the public update API, an honest block builder and
// sealer, and adversary operators.  All randomness comes from rapid draws.
package sim

import (
	"crypto/sha256"
	"encoding/binary"
	"fmt"
	"time"

	"go.sia.tech/core/consensus"
	"go.sia.tech/core/types"
)

// NumKeys is the size of the deterministic key pool.
const NumKeys = 6

var (
	privKeys [NumKeys]types.PrivateKey
	pubKeys  [NumKeys]types.PublicKey
	keyIndex = map[types.PublicKey]int{}
)

func init() {
	for i := range privKeys {
		var seed [32]byte
		binary.LittleEndian.PutUint64(seed[:], uint64(i)+0x5eed0001)
		privKeys[i] = types.NewPrivateKeyFromSeed(seed[:])
		pubKeys[i] = privKeys[i].PublicKey()
		keyIndex[pubKeys[i]] = i
	}
}

// Pub returns public key i of the pool.
func Pub(i int) types.PublicKey { return pubKeys[i%NumKeys] }

// Priv returns private key i of the pool.
func Priv(i int) types.PrivateKey { return privKeys[i%NumKeys] }

// PrivFor returns the private key for pk if the pool owns it.
func PrivFor(pk types.PublicKey) (types.PrivateKey, bool) {
	i, ok := keyIndex[pk]
	if !ok {
		return nil, false
	}
	return privKeys[i], true
}

// Preimage returns deterministic preimage i and its SHA-256 hash.
func Preimage(i int) (pre [32]byte, h types.Hash256) {
	binary.LittleEndian.PutUint64(pre[:], uint64(i)+0xabcdef)
	pre[31] = 0x77
	return pre, sha256.Sum256(pre[:])
}

var preimageByHash = func() map[types.Hash256][32]byte {
	m := map[types.Hash256][32]byte{}
	for i := 0; i < 8; i++ {
		p, h := Preimage(i)
		m[h] = p
	}
	return m
}()

// UnknownAlgo is a specifier no validator recognises (soft-fork rule: any signature accepted).
var UnknownAlgo = types.NewSpecifier("verifalgo")

// A Lock describes how an output is locked and what the simulator needs to unlock it.
// Exactly one of UC / Policy is the primary form: UC != nil means a v1-style address
// (spendable by v1 inputs revealing UC, and by v2 inputs through the legacy uc policy).
type Lock struct {
	Kind   string
	UC     *types.UnlockConditions
	Policy types.SpendPolicy // full policy (all branches revealed); for UC locks the uc policy
	// Spendable from this child height on (v1: timelock compares with child height; v2 above(H)
	// compares with the parent height, so MinChild = H+1; uc-in-v2: timelock+1).
	MinChildV1 uint64
	MinChildV2 uint64
	After      time.Time // zero: no time lock; else median timestamp must be strictly after
	V1OK       bool      // can be spent by a v1 input
	V2OK       bool      // can be spent by a v2 input
}

// Address of the lock.
func (l Lock) Address() types.Address {
	if l.UC != nil {
		return l.UC.UnlockHash()
	}
	return l.Policy.Address()
}

// Spendable reports whether an output under this lock can be spent by a transaction of
// the given version in the child of a state with the given height/median time.
func (l Lock) Spendable(v2 bool, childHeight uint64, median time.Time) bool {
	if v2 {
		if !l.V2OK || childHeight < l.MinChildV2 {
			return false
		}
		if !l.After.IsZero() && !median.After(l.After) {
			return false
		}
		return true
	}
	return l.V1OK && childHeight >= l.MinChildV1
}

// LockSpec is the drawn description from which a Lock is built deterministically.
type LockSpec struct {
	Kind   int    // index into lock kinds
	K1, K2 int    // key indexes
	Height uint64 // lock height for timelocked kinds
	Time   int64  // unix seconds for `after`
}

// LockKinds enumerates the catalogue.
var LockKinds = []string{
	"v1-std", "v1-2of3", "v1-1of2-timelock", "v1-unknown-algo", "v1-zero-sig", // v1-style (uc)
	"pk", "thresh-1of2-opaque", "thresh-2of3-nested", "hash", "above-and-pk", "after-and-pk", "anyone", "thresh-hash-or-pk",
	"v1-2of70-high-keys", // v1-style too (appended so that the indices of the kinds above stay what stored cases use)
	"thresh-nested-revealed", // 2 of [inner threshold, key, key nobody holds]: every spend reveals the inner threshold's leaves
	"v1-unsatisfiable",       // no keys, 2^64-1 signatures required: a burn address; nobody can spend it, anybody can reveal it
}

// NumV1Kinds is the number of leading entries of LockKinds that are v1-style.
const NumV1Kinds = 5

// KindIndex returns the index of a named lock kind.
func KindIndex(name string) int {
	for i, k := range LockKinds {
		if k == name {
			return i
		}
	}
	panic("unknown lock kind " + name)
}

// MakeLock builds the lock for a spec.
func MakeLock(s LockSpec) Lock {
	k1, k2 := Pub(s.K1), Pub(s.K2)
	k3 := Pub(s.K1 + s.K2 + 1)
	kind := LockKinds[s.Kind%len(LockKinds)]
	mkUC := func(uc types.UnlockConditions) Lock {
		return Lock{Kind: kind, UC: &uc, Policy: types.SpendPolicy{Type: types.PolicyTypeUnlockConditions(uc)},
			MinChildV1: uc.Timelock, MinChildV2: uc.Timelock + 1, V1OK: true, V2OK: true}
	}
	switch kind {
	case "v1-std":
		return mkUC(types.StandardUnlockConditions(k1))
	case "v1-2of3":
		return mkUC(types.UnlockConditions{PublicKeys: []types.UnlockKey{k1.UnlockKey(), k2.UnlockKey(), k3.UnlockKey()}, SignaturesRequired: 2})
	case "v1-1of2-timelock":
		return mkUC(types.UnlockConditions{Timelock: s.Height, PublicKeys: []types.UnlockKey{k1.UnlockKey(), k2.UnlockKey()}, SignaturesRequired: 1})
	case "v1-unknown-algo":
		return mkUC(types.UnlockConditions{PublicKeys: []types.UnlockKey{{Algorithm: UnknownAlgo, Key: []byte{1, 2, 3}}, k1.UnlockKey()}, SignaturesRequired: 2})
	case "v1-zero-sig":
		// no signature required: nothing but the double-spend rules stands between two uses of such a parent
		return mkUC(types.UnlockConditions{PublicKeys: []types.UnlockKey{k1.UnlockKey()}, SignaturesRequired: 0})
	case "v1-2of70-high-keys":
		// a large multisig: 70 keys, two required, and the two keys the pool can sign with sit beyond position 64
		// (k1 at 65, k2 or k3 at 68); the rest are well-formed keys nobody holds
		keys := make([]types.UnlockKey, 70)
		for i := range keys {
			keys[i] = types.PublicKey(types.HashBytes([]byte{0x70, byte(i), byte(s.K1), byte(s.K2)})).UnlockKey()
		}
		second := k2
		if s.K1 == s.K2 {
			second = k3
		}
		keys[65], keys[68] = k1.UnlockKey(), second.UnlockKey()
		return mkUC(types.UnlockConditions{PublicKeys: keys, SignaturesRequired: 2})
	case "pk":
		return Lock{Kind: kind, Policy: types.PolicyPublicKey(k1), V2OK: true}
	case "thresh-1of2-opaque":
		return Lock{Kind: kind, Policy: types.PolicyThreshold(1, []types.SpendPolicy{types.PolicyPublicKey(k1), types.PolicyPublicKey(k2)}), V2OK: true}
	case "thresh-2of3-nested":
		inner := types.PolicyThreshold(1, []types.SpendPolicy{types.PolicyPublicKey(k2), types.PolicyAbove(1 << 40)})
		return Lock{Kind: kind, Policy: types.PolicyThreshold(2, []types.SpendPolicy{types.PolicyPublicKey(k1), inner, types.PolicyPublicKey(k3)}), V2OK: true}
	case "v1-unsatisfiable":
		uc := types.UnlockConditions{SignaturesRequired: ^uint64(0)}
		return Lock{Kind: kind, UC: &uc, Policy: types.SpendPolicy{Type: types.PolicyTypeUnlockConditions(uc)}}
	case "thresh-nested-revealed":
		// the third key is held by nobody, so a spend needs the inner threshold (a key and a height lock that has long
		// passed, both revealed) and the outer key: a satisfied policy two levels deep with nothing opaque on the way
		inner := types.PolicyThreshold(2, []types.SpendPolicy{types.PolicyPublicKey(k2), types.PolicyAbove(0)})
		nobody := types.PublicKey(types.HashBytes([]byte{0x4E, byte(s.K1), byte(s.K2)}))
		return Lock{Kind: kind, Policy: types.PolicyThreshold(2, []types.SpendPolicy{inner, types.PolicyPublicKey(k1), types.PolicyPublicKey(nobody)}), V2OK: true}
	case "hash":
		_, h := Preimage(s.K1)
		return Lock{Kind: kind, Policy: types.PolicyThreshold(2, []types.SpendPolicy{types.PolicyHash(h), types.PolicyPublicKey(k2)}), V2OK: true}
	case "above-and-pk":
		return Lock{Kind: kind, Policy: types.PolicyThreshold(2, []types.SpendPolicy{types.PolicyAbove(s.Height), types.PolicyPublicKey(k1)}), MinChildV2: s.Height + 1, V2OK: true}
	case "after-and-pk":
		t := time.Unix(s.Time, 0)
		return Lock{Kind: kind, Policy: types.PolicyThreshold(2, []types.SpendPolicy{types.PolicyAfter(t), types.PolicyPublicKey(k1)}), After: t, V2OK: true}
	case "anyone":
		return Lock{Kind: kind, Policy: types.AnyoneCanSpend(), V2OK: true}
	case "thresh-hash-or-pk":
		_, h := Preimage(s.K2)
		return Lock{Kind: kind, Policy: types.PolicyThreshold(1, []types.SpendPolicy{types.PolicyHash(h), types.PolicyPublicKey(k1)}), V2OK: true}
	}
	panic("unreachable")
}

// Satisfy builds the satisfied form of the lock's policy for sigHash: it reveals the
// minimum number of leftmost satisfiable branches of every threshold, replaces the
// rest by their opaque form and collects signatures/preimages in evaluation order.
func Satisfy(p types.SpendPolicy, sigHash types.Hash256, parentHeight uint64, median time.Time) (types.SatisfiedPolicy, bool) {
	var sp types.SatisfiedPolicy
	pol, ok := satisfy(p, sigHash, parentHeight, median, &sp, true)
	sp.Policy = pol
	return sp, ok
}

func canSatisfy(p types.SpendPolicy, h uint64, median time.Time) bool {
	var tmp types.SatisfiedPolicy
	_, ok := satisfy(p, types.Hash256{}, h, median, &tmp, false)
	return ok
}

func satisfy(p types.SpendPolicy, sigHash types.Hash256, h uint64, median time.Time, sp *types.SatisfiedPolicy, sign bool) (types.SpendPolicy, bool) {
	switch pt := p.Type.(type) {
	case types.PolicyTypeAbove:
		return p, h >= uint64(pt)
	case types.PolicyTypeAfter:
		return p, median.After(time.Time(pt))
	case types.PolicyTypePublicKey:
		priv, ok := PrivFor(types.PublicKey(pt))
		if !ok {
			return p, false
		}
		if sign {
			sp.Signatures = append(sp.Signatures, priv.SignHash(sigHash))
		} else {
			sp.Signatures = append(sp.Signatures, types.Signature{})
		}
		return p, true
	case types.PolicyTypeHash:
		pre, ok := preimageByHash[types.Hash256(pt)]
		if !ok {
			return p, false
		}
		sp.Preimages = append(sp.Preimages, pre)
		return p, true
	case types.PolicyTypeOpaque:
		return p, false
	case types.PolicyTypeThreshold:
		of := make([]types.SpendPolicy, len(pt.Of))
		need := int(pt.N)
		for i, c := range pt.Of {
			if need > 0 && canSatisfy(c, h, median) {
				c2, _ := satisfy(c, sigHash, h, median, sp, sign)
				of[i] = c2
				need--
			} else {
				of[i] = types.PolicyOpaque(c)
			}
		}
		return types.PolicyThreshold(pt.N, of), need == 0
	case types.PolicyTypeUnlockConditions:
		uc := types.UnlockConditions(pt)
		if h < uc.Timelock {
			return p, false
		}
		need := uc.SignaturesRequired
		for _, k := range uc.PublicKeys {
			if need == 0 {
				break
			}
			switch k.Algorithm {
			case types.SpecifierEd25519:
				var pk types.PublicKey
				copy(pk[:], k.Key)
				priv, ok := PrivFor(pk)
				if !ok || len(k.Key) != 32 {
					continue
				}
				if sign {
					sp.Signatures = append(sp.Signatures, priv.SignHash(sigHash))
				} else {
					sp.Signatures = append(sp.Signatures, types.Signature{})
				}
				need--
			case types.SpecifierEntropy:
				return p, false
			default:
				sp.Signatures = append(sp.Signatures, types.Signature{})
				need--
			}
		}
		return p, need == 0
	}
	panic(fmt.Sprintf("unhandled policy type %T", p.Type))
}

// SignV2 (re)computes every signature of txn honestly for state cs: input witnesses
// from the policies already present in each SatisfiedPolicy (structure kept, signatures
// and preimages regenerated), contract / revision / renewal signatures with the keys
// named by `curKeys` (the contract as it currently stands) and attestation signatures.
// Signatures the pool cannot produce are left as they are.
func SignV2(cs consensus.State, txn *types.V2Transaction, opts SignOpts) {
	// contracts first: their signatures are part of the full encoding but not of the input sighash
	if !opts.SkipContracts {
		for i := range txn.FileContracts {
			fc := &txn.FileContracts[i]
			signContract(cs, fc, fc.RenterPublicKey, fc.HostPublicKey)
		}
		for i := range txn.FileContractRevisions {
			r := &txn.FileContractRevisions[i]
			rk, hk := r.Parent.V2FileContract.RenterPublicKey, r.Parent.V2FileContract.HostPublicKey
			if cur, ok := opts.CurrentContract[r.Parent.ID]; ok {
				rk, hk = cur.RenterPublicKey, cur.HostPublicKey
			}
			signContract(cs, &r.Revision, rk, hk)
		}
		for i := range txn.FileContractResolutions {
			res := &txn.FileContractResolutions[i]
			if ren, ok := res.Resolution.(*types.V2FileContractRenewal); ok {
				nc := *ren
				signContract(cs, &nc.NewContract, nc.NewContract.RenterPublicKey, nc.NewContract.HostPublicKey)
				h := cs.RenewalSigHash(nc)
				if priv, ok := PrivFor(res.Parent.V2FileContract.RenterPublicKey); ok {
					nc.RenterSignature = priv.SignHash(h)
				}
				if priv, ok := PrivFor(res.Parent.V2FileContract.HostPublicKey); ok {
					nc.HostSignature = priv.SignHash(h)
				}
				res.Resolution = &nc
			}
		}
		for i := range txn.Attestations {
			a := &txn.Attestations[i]
			if priv, ok := PrivFor(a.PublicKey); ok {
				a.Signature = priv.SignHash(cs.AttestationSigHash(*a))
			}
		}
	}
	if opts.SkipInputs {
		return
	}
	sigHash := cs.InputSigHash(*txn)
	median := MedianTimestamp(cs)
	for i := range txn.SiacoinInputs {
		in := &txn.SiacoinInputs[i]
		in.SatisfiedPolicy = resatisfy(in.SatisfiedPolicy, sigHash, cs.Index.Height, median)
	}
	for i := range txn.SiafundInputs {
		in := &txn.SiafundInputs[i]
		in.SatisfiedPolicy = resatisfy(in.SatisfiedPolicy, sigHash, cs.Index.Height, median)
	}
}

// SignOpts tunes SignV2 for adversary operators.
type SignOpts struct {
	SkipContracts   bool
	SkipInputs      bool
	CurrentContract map[types.FileContractID]types.V2FileContract
}

func signContract(cs consensus.State, fc *types.V2FileContract, renter, host types.PublicKey) {
	h := cs.ContractSigHash(*fc)
	if priv, ok := PrivFor(renter); ok {
		fc.RenterSignature = priv.SignHash(h)
	}
	if priv, ok := PrivFor(host); ok {
		fc.HostSignature = priv.SignHash(h)
	}
}

// resatisfy regenerates the witnesses for the (already opacified) policy in sp.
func resatisfy(sp types.SatisfiedPolicy, sigHash types.Hash256, h uint64, median time.Time) types.SatisfiedPolicy {
	var out types.SatisfiedPolicy
	out.Policy = sp.Policy
	walkRevealed(sp.Policy, sigHash, &out, h)
	return out
}

// walkRevealed visits the policy as the verifier does (opaque children skipped) and
// produces one witness per pk / hash leaf and the signatures a uc policy needs.
func walkRevealed(p types.SpendPolicy, sigHash types.Hash256, out *types.SatisfiedPolicy, h uint64) {
	switch pt := p.Type.(type) {
	case types.PolicyTypePublicKey:
		if priv, ok := PrivFor(types.PublicKey(pt)); ok {
			out.Signatures = append(out.Signatures, priv.SignHash(sigHash))
		} else {
			out.Signatures = append(out.Signatures, types.Signature{})
		}
	case types.PolicyTypeHash:
		out.Preimages = append(out.Preimages, preimageByHash[types.Hash256(pt)])
	case types.PolicyTypeThreshold:
		for _, c := range pt.Of {
			if _, opaque := c.Type.(types.PolicyTypeOpaque); !opaque {
				walkRevealed(c, sigHash, out, h)
			}
		}
	case types.PolicyTypeUnlockConditions:
		var tmp types.SatisfiedPolicy
		satisfy(p, sigHash, ^uint64(0)>>1, time.Time{}, &tmp, true)
		out.Signatures = append(out.Signatures, tmp.Signatures...)
	}
}

// MedianTimestamp recomputes the median of the (up to 11) previous timestamps of cs the
// way the consensus text defines it (independent of the library's unexported helper).
func MedianTimestamp(cs consensus.State) time.Time {
	n := int(cs.Index.Height + 1)
	if cs.Index.Height == ^uint64(0) {
		n = 0
	}
	if n > 11 {
		n = 11
	}
	ts := make([]time.Time, n)
	copy(ts, cs.PrevTimestamps[:n])
	for i := 1; i < len(ts); i++ {
		for j := i; j > 0 && ts[j].Before(ts[j-1]); j-- {
			ts[j], ts[j-1] = ts[j-1], ts[j]
		}
	}
	if n == 0 {
		return time.Time{}
	}
	if n%2 == 1 {
		return ts[n/2]
	}
	l, r := ts[n/2-1], ts[n/2]
	return l.Add(r.Sub(l) / 2)
}

// SignV1 (re)creates the Signatures of a v1 transaction honestly for state cs: for every
// siacoin input, siafund input and revision it adds SignaturesRequired signatures by the
// first usable keys of the revealed unlock conditions. partial selects explicit covered
// fields (every index of every populated field) instead of the whole-transaction flag.
func SignV1(cs consensus.State, txn *types.Transaction, partial bool) {
	txn.Signatures = nil
	type parent struct {
		id types.Hash256
		uc types.UnlockConditions
	}
	var parents []parent
	seenParent := map[types.Hash256]bool{}
	add := func(id types.Hash256, uc types.UnlockConditions) {
		// one set of signatures per distinct parent (what the strongest adversary would present)
		if !seenParent[id] {
			seenParent[id] = true
			parents = append(parents, parent{id, uc})
		}
	}
	for _, in := range txn.SiacoinInputs {
		add(types.Hash256(in.ParentID), in.UnlockConditions)
	}
	for _, in := range txn.SiafundInputs {
		add(types.Hash256(in.ParentID), in.UnlockConditions)
	}
	for _, r := range txn.FileContractRevisions {
		add(types.Hash256(r.ParentID), r.UnlockConditions)
	}
	type slot struct {
		sigIndex int
		priv     types.PrivateKey
	}
	var slots []slot
	for _, p := range parents {
		need := p.uc.SignaturesRequired
		for ki, k := range p.uc.PublicKeys {
			if need == 0 {
				break
			}
			sig := types.TransactionSignature{ParentID: p.id, PublicKeyIndex: uint64(ki)}
			switch k.Algorithm {
			case types.SpecifierEd25519:
				var pk types.PublicKey
				copy(pk[:], k.Key)
				priv, ok := PrivFor(pk)
				if !ok {
					continue
				}
				slots = append(slots, slot{len(txn.Signatures), priv})
			case types.SpecifierEntropy:
				continue
			default:
				sig.Signature = []byte{0xAA}
			}
			txn.Signatures = append(txn.Signatures, sig)
			need--
		}
	}
	cf := types.CoveredFields{WholeTransaction: true}
	if partial {
		cf = FullCoverage(*txn)
	}
	for i := range txn.Signatures {
		txn.Signatures[i].CoveredFields = cf
	}
	for _, s := range slots {
		sig := &txn.Signatures[s.sigIndex]
		var h types.Hash256
		if partial {
			h = cs.PartialSigHash(*txn, sig.CoveredFields)
		} else {
			h = cs.WholeSigHash(*txn, sig.ParentID, sig.PublicKeyIndex, sig.Timelock, nil)
		}
		sg := s.priv.SignHash(h)
		sig.Signature = sg[:]
	}
}

// SignV1Covering signs like SignV1 with explicit coverage, except that the first signature is a whole-transaction
// signature that additionally covers the other signatures of the transaction (CoveredFields.Signatures), listed from
// the last one down to the second, so that neither the positions in the list nor the set of covered indices coincide
// with 0..k-1. It needs at least two signatures; otherwise it falls back to SignV1(partial = false) and reports false.
func SignV1Covering(cs consensus.State, txn *types.Transaction) bool {
	SignV1(cs, txn, true)
	n := len(txn.Signatures)
	if n < 2 || len(txn.Signatures[0].Signature) != 64 {
		SignV1(cs, txn, false)
		return false
	}
	first := &txn.Signatures[0]
	first.CoveredFields = types.CoveredFields{WholeTransaction: true}
	for i := n - 1; i >= 1; i-- {
		first.CoveredFields.Signatures = append(first.CoveredFields.Signatures, uint64(i))
	}
	if !ResignV1Slot(cs, txn, 0) {
		SignV1(cs, txn, false)
		return false
	}
	return true
}

// ResignV1Slot recomputes signature si of txn with the key its PublicKeyIndex names in the parent's unlock conditions
// (as revealed by the input or revision that has this parent); false if the pool does not hold that key.
func ResignV1Slot(cs consensus.State, txn *types.Transaction, si int) bool {
	sig := &txn.Signatures[si]
	var uc *types.UnlockConditions
	for i := range txn.SiacoinInputs {
		if types.Hash256(txn.SiacoinInputs[i].ParentID) == sig.ParentID {
			uc = &txn.SiacoinInputs[i].UnlockConditions
		}
	}
	for i := range txn.SiafundInputs {
		if types.Hash256(txn.SiafundInputs[i].ParentID) == sig.ParentID {
			uc = &txn.SiafundInputs[i].UnlockConditions
		}
	}
	for i := range txn.FileContractRevisions {
		if types.Hash256(txn.FileContractRevisions[i].ParentID) == sig.ParentID {
			uc = &txn.FileContractRevisions[i].UnlockConditions
		}
	}
	if uc == nil || sig.PublicKeyIndex >= uint64(len(uc.PublicKeys)) || uc.PublicKeys[sig.PublicKeyIndex].Algorithm != types.SpecifierEd25519 {
		return false
	}
	var pk types.PublicKey
	copy(pk[:], uc.PublicKeys[sig.PublicKeyIndex].Key)
	priv, ok := PrivFor(pk)
	if !ok {
		return false
	}
	var h types.Hash256
	if sig.CoveredFields.WholeTransaction {
		h = cs.WholeSigHash(*txn, sig.ParentID, sig.PublicKeyIndex, sig.Timelock, sig.CoveredFields.Signatures)
	} else {
		h = cs.PartialSigHash(*txn, sig.CoveredFields)
	}
	sg := priv.SignHash(h)
	sig.Signature = sg[:]
	return true
}

// FullCoverage lists every index of every populated field except signatures.
func FullCoverage(txn types.Transaction) types.CoveredFields {
	seq := func(n int) []uint64 {
		if n == 0 {
			return nil
		}
		s := make([]uint64, n)
		for i := range s {
			s[i] = uint64(i)
		}
		return s
	}
	return types.CoveredFields{
		SiacoinInputs: seq(len(txn.SiacoinInputs)), SiacoinOutputs: seq(len(txn.SiacoinOutputs)),
		FileContracts: seq(len(txn.FileContracts)), FileContractRevisions: seq(len(txn.FileContractRevisions)),
		StorageProofs: seq(len(txn.StorageProofs)), SiafundInputs: seq(len(txn.SiafundInputs)),
		SiafundOutputs: seq(len(txn.SiafundOutputs)), MinerFees: seq(len(txn.MinerFees)), ArbitraryData: seq(len(txn.ArbitraryData)),
	}
}
