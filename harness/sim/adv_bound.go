package sim

import (
	"math/big"
	"time"

	"go.sia.tech/core/consensus"
	"go.sia.tech/core/types"
	"pgregory.net/rapid"
	"verif/harness/gen"
	"verif/harness/ref"
)

// PayV1To spends one v1-spendable input entirely to addr (minus nothing: no fee).
func (b *Builder) PayV1To(addr types.Address) (types.SiacoinOutputID, bool) {
	if !b.v1Allowed() {
		return types.SiacoinOutputID{}, false
	}
	picked, total, ok := b.pickInputs("payV1To", false, big.NewInt(1000), 1)
	if !ok {
		return types.SiacoinOutputID{}, false
	}
	var txn types.Transaction
	txn.SiacoinInputs = b.v1Inputs(picked)
	txn.SiacoinOutputs = []types.SiacoinOutput{{Value: cur(total), Address: addr}}
	b.finishV1(txn)
	return b.V1[len(b.V1)-1].SiacoinOutputID(0), true
}

// PayV2To spends one v2-spendable input entirely to addr.
func (b *Builder) PayV2To(addr types.Address) (types.SiacoinOutputID, bool) {
	if !b.v2Allowed() {
		return types.SiacoinOutputID{}, false
	}
	picked, total, ok := b.pickInputs("payV2To", true, big.NewInt(1000), 1)
	if !ok {
		return types.SiacoinOutputID{}, false
	}
	var txn types.V2Transaction
	txn.SiacoinInputs = b.v2Inputs(picked)
	txn.SiacoinOutputs = []types.SiacoinOutput{{Value: cur(total), Address: addr}}
	b.finishV2(txn, SignOpts{})
	last := &b.V2[len(b.V2)-1]
	return last.SiacoinOutputID(last.ID(), 0), true
}

// V1FormAt forms a v1 contract with the given window over a small non-empty file, owned by a standard lock.
func (b *Builder) V1FormAt(ws, we uint64) (types.FileContractID, bool) {
	if !b.v1Allowed() {
		return types.FileContractID{}, false
	}
	payout := ref.SC(10)
	tax := ref.TaxV1(cur(payout), b.Child < b.C.Net.HardforkTax.Height)
	valid := new(big.Int).Sub(payout, tax)
	picked, total, ok := b.pickInputs("formAt", false, payout, 2)
	if !ok {
		return types.FileContractID{}, false
	}
	data := make([]byte, 200)
	// an empty file needs no leaf to be proven once the storage-proof hardfork is active: where every height the
	// rule probes lies in that era, one contract in three commits to no data (its proof must obey the window all the same)
	if hf := b.C.Net.HardforkStorageProof.Height; ws >= 2 && hf <= ws-2 && b.C.Net.HardforkTax.Height <= ws-2 && rapid.IntRange(0, 2).Draw(b.T, "formAtEmpty") == 0 {
		data = nil
		b.label("v1-contract-over-empty-file")
	}
	for i := range data {
		data[i] = byte(i*3 + int(ws))
	}
	root := types.Hash256(ref.FileRoot(data))
	if len(data) == 0 {
		root = types.Hash256{}
	}
	b.W.Files[root] = data
	owner := b.W.Reg(MakeLock(LockSpec{Kind: 0, K1: 2}))
	fc := types.FileContract{Filesize: uint64(len(data)), FileMerkleRoot: root, WindowStart: ws, WindowEnd: we, Payout: cur(payout), UnlockHash: owner.Address(),
		ValidProofOutputs:  []types.SiacoinOutput{{Value: cur(valid), Address: owner.Address()}},
		MissedProofOutputs: []types.SiacoinOutput{{Value: cur(valid), Address: owner.Address()}}}
	var txn types.Transaction
	txn.SiacoinInputs = b.v1Inputs(picked)
	txn.FileContracts = []types.FileContract{fc}
	txn.SiacoinOutputs = b.outputsFor("formAtChange", new(big.Int).Sub(total, payout), true)
	id := txn.FileContractID(0)
	c := b.Exp.contract(id, false)
	c.Formed = true
	b.pool.Add(b.pool, tax)
	b.Exp.TaxAdded = cur(new(big.Int).Add(ref.Big(b.Exp.TaxAdded), tax))
	b.usedFC[id] = true
	b.finishV1(txn)
	return id, true
}

// V2FormAt forms a v2 contract with the given proof / expiration heights over a small file.
func (b *Builder) V2FormAt(ph, eh uint64) (types.FileContractID, bool) {
	if !b.v2Allowed() {
		return types.FileContractID{}, false
	}
	data := make([]byte, 200)
	for i := range data {
		data[i] = byte(i*5 + int(ph))
	}
	root := types.Hash256(ref.FileRoot(data))
	b.W.Files[root] = data
	fc := types.V2FileContract{Capacity: 256, Filesize: uint64(len(data)), FileMerkleRoot: root, ProofHeight: ph, ExpirationHeight: eh,
		RenterOutput:    types.SiacoinOutput{Value: types.Siacoins(5), Address: MakeLock(LockSpec{Kind: 0, K1: 0}).Address()},
		HostOutput:      types.SiacoinOutput{Value: types.Siacoins(5), Address: MakeLock(LockSpec{Kind: 0, K1: 1}).Address()},
		MissedHostValue: types.Siacoins(2), TotalCollateral: types.Siacoins(3), RenterPublicKey: Pub(0), HostPublicKey: Pub(1)}
	tax := ref.TaxV2(fc.RenterOutput.Value, fc.HostOutput.Value)
	need := new(big.Int).Add(ref.SC(10), tax)
	picked, total, ok := b.pickInputs("v2formAt", true, need, 2)
	if !ok {
		return types.FileContractID{}, false
	}
	var txn types.V2Transaction
	txn.SiacoinInputs = b.v2Inputs(picked)
	txn.FileContracts = []types.V2FileContract{fc}
	txn.SiacoinOutputs = b.outputsFor("v2formAtChange", new(big.Int).Sub(total, need), false)
	b.pool.Add(b.pool, tax)
	b.Exp.TaxAdded = cur(new(big.Int).Add(ref.Big(b.Exp.TaxAdded), tax))
	b.finishV2(txn, SignOpts{})
	last := &b.V2[len(b.V2)-1]
	id := last.V2FileContractID(last.ID(), 0)
	b.Exp.contract(id, true).Formed = true
	b.usedFC[id] = true
	return id, true
}

// BoundScenario is one C08 rule instance: Build constructs, on the current tip, a block whose
// only transaction is valid except possibly for the rule; Want tells the verdict the property
// demands for the child of the current tip.
type BoundScenario struct {
	Rule  string
	Build func(a *Adv) (types.Block, consensus.V1BlockSupplement, bool)
	Want  func(a *Adv) bool // true = must be accepted at a.Child
	Any   func(a *Adv) bool // optional; true = no verdict is claimed at a.Child (documented legacy window): recorded only
	From  uint64            // first child height worth probing
	To    uint64            // last child height worth probing
}

func (a *Adv) oneV1(txn types.Transaction) (types.Block, consensus.V1BlockSupplement, bool) {
	return a.manyV1(txn)
}

func (a *Adv) manyV1(txns ...types.Transaction) (types.Block, consensus.V1BlockSupplement, bool) {
	blk := types.Block{Timestamp: NextTimestamp(a.CS, 0, 0), Transactions: txns}
	if a.v2Allowed() {
		blk.V2 = &types.V2BlockData{}
	}
	if err := Seal(a.CS, &blk, types.Address{0xAA}); err != nil {
		return blk, consensus.V1BlockSupplement{}, false
	}
	// the supplement a node would build for this block, also beyond RequireHeight (so that the v1
	// cut-off rule itself is what gets judged there)
	bs := a.G.C.Store.Supplement(blk, a.Child, ^uint64(0))
	return blk, bs, true
}

func (a *Adv) oneV2(txn types.V2Transaction) (types.Block, consensus.V1BlockSupplement, bool) {
	blk := types.Block{Timestamp: NextTimestamp(a.CS, 0, 0), V2: &types.V2BlockData{Transactions: []types.V2Transaction{txn}}}
	if err := Seal(a.CS, &blk, types.Address{0xAA}); err != nil {
		return blk, consensus.V1BlockSupplement{}, false
	}
	return blk, a.G.C.Store.Supplement(blk, a.Child, a.G.C.Net.HardforkV2.RequireHeight), true
}

// forceV2Input reveals the whole policy of the lock (as it will be satisfiable at the bound).
func forceV2Input(el types.SiacoinElement, lock Lock) types.V2SiacoinInput {
	sp, _ := Satisfy(lock.Policy, types.Hash256{}, ^uint64(0)>>1, time.Unix(1<<40, 0))
	return types.V2SiacoinInput{Parent: el.Copy(), SatisfiedPolicy: sp}
}

func (a *Adv) spendV2Forced(id types.SiacoinOutputID, lock Lock) (types.V2Transaction, bool) {
	el, ok := a.G.C.Store.SC[id]
	if !ok {
		return types.V2Transaction{}, false
	}
	txn := types.V2Transaction{SiacoinInputs: []types.V2SiacoinInput{forceV2Input(el, lock)},
		SiacoinOutputs: []types.SiacoinOutput{{Value: el.SiacoinOutput.Value, Address: types.Address{0xBB}}}}
	SignV2(a.CS, &txn, SignOpts{})
	return txn, true
}

func (a *Adv) spendV1Forced(id types.SiacoinOutputID, lock Lock, sigTimelock uint64, partial ...bool) (types.Transaction, bool) {
	el, ok := a.G.C.Store.SC[id]
	if !ok || lock.UC == nil {
		return types.Transaction{}, false
	}
	txn := types.Transaction{SiacoinInputs: []types.SiacoinInput{{ParentID: id, UnlockConditions: *lock.UC}},
		SiacoinOutputs: []types.SiacoinOutput{{Value: el.SiacoinOutput.Value, Address: types.Address{0xBB}}}}
	SignV1(a.CS, &txn, len(partial) > 0 && partial[0])
	if sigTimelock > 0 {
		for i := range txn.Signatures {
			txn.Signatures[i].Timelock = sigTimelock
		}
		for i := range txn.Signatures {
			ResignV1Slot(a.CS, &txn, i)
		}
	}
	return txn, true
}

// SetupBound performs the setup block(s) for a drawn rule on the generator's chain and returns
// the scenario, or ok=false if the rule cannot be set up on this network at this height.
func (g *Gen) SetupBound(rule string) (sc BoundScenario, ok bool) {
	t := g.T
	net := g.C.Net
	ahead := uint64(rapid.IntRange(2, 4).Draw(t, "ahead"))
	b := NewBuilder(t, g.C, g.W)
	child := b.Child
	finish := func() bool {
		blk, bs, exp, err := b.Finish(0, 0)
		if err != nil {
			return false
		}
		return g.ApplyRecorded(blk, bs, exp)
	}
	std := func(k int) Lock { return g.W.Reg(MakeLock(LockSpec{Kind: 0, K1: k})) }
	sc.Rule = rule
	switch rule {
	case "v1-output-maturity", "v2-output-maturity":
		// the miner payout of the setup block matures at child + delay
		lock := std(3)
		blk := types.Block{Timestamp: NextTimestamp(b.CS, 0, 0)}
		if b.v2Allowed() {
			blk.V2 = &types.V2BlockData{}
		}
		if Seal(b.CS, &blk, lock.Address()) != nil {
			return sc, false
		}
		bs := g.C.Store.Supplement(blk, child, net.HardforkV2.RequireHeight)
		exp := &Expect{}
		reward := ref.BlockReward(net.InitialCoinbase, net.MinimumCoinbase, child)
		id := blk.ID().MinerOutputID(0)
		exp.CreatedSC = append(exp.CreatedSC, ExpSC{ID: id, Value: cur(reward), Address: lock.Address(), Maturity: child + net.MaturityDelay, Why: "miner payout"})
		// other effects of an empty block (expiring contracts, subsidy) are not modelled here: skip Compare by leaving exp nil
		if !g.ApplyRecorded(blk, bs, nil) {
			return sc, false
		}
		M := child + net.MaturityDelay
		sc.From, sc.To = M-min64(M, 2), M+1
		v2 := rule == "v2-output-maturity"
		sc.Want = func(a *Adv) bool { return a.Child >= M }
		sc.Build = func(a *Adv) (types.Block, consensus.V1BlockSupplement, bool) {
			if v2 {
				txn, ok := a.spendV2Forced(id, lock)
				if !ok {
					return types.Block{}, consensus.V1BlockSupplement{}, false
				}
				return a.oneV2(txn)
			}
			txn, ok := a.spendV1Forced(id, lock, 0)
			if !ok {
				return types.Block{}, consensus.V1BlockSupplement{}, false
			}
			return a.oneV1(txn)
		}
		return sc, true
	case "v1-unlock-conditions-timelock", "v2-uc-policy-timelock":
		T := child + ahead
		lock := g.W.Reg(MakeLock(LockSpec{Kind: KindIndex("v1-1of2-timelock"), K1: 1, K2: 2, Height: T}))
		var id types.SiacoinOutputID
		var okp bool
		if b.v1Allowed() {
			id, okp = b.PayV1To(lock.Address())
		} else {
			id, okp = b.PayV2To(lock.Address())
		}
		if !okp || !finish() {
			return sc, false
		}
		if rule == "v1-unlock-conditions-timelock" {
			sc.From, sc.To = T-2, T+1
			sc.Want = func(a *Adv) bool { return a.Child >= T }
			sc.Build = func(a *Adv) (types.Block, consensus.V1BlockSupplement, bool) {
				txn, ok := a.spendV1Forced(id, lock, 0)
				if !ok {
					return types.Block{}, consensus.V1BlockSupplement{}, false
				}
				return a.oneV1(txn)
			}
		} else {
			// through the legacy uc policy the height compared is the parent's: first valid child is T+1
			sc.From, sc.To = T-1, T+2
			sc.Want = func(a *Adv) bool { return a.Child >= T+1 }
			sc.Build = func(a *Adv) (types.Block, consensus.V1BlockSupplement, bool) {
				txn, ok := a.spendV2Forced(id, lock)
				if !ok {
					return types.Block{}, consensus.V1BlockSupplement{}, false
				}
				return a.oneV2(txn)
			}
		}
		return sc, true
	case "v1-signature-timelock", "v1-signature-timelock-partial-coverage":
		partial := rule == "v1-signature-timelock-partial-coverage"
		T := child + ahead
		lock := std(1)
		id, okp := b.PayV1To(lock.Address())
		if !okp || !finish() {
			return sc, false
		}
		sc.From, sc.To = T-2, T+1
		sc.Want = func(a *Adv) bool { return a.Child >= T }
		sc.Build = func(a *Adv) (types.Block, consensus.V1BlockSupplement, bool) {
			txn, ok := a.spendV1Forced(id, lock, T, partial)
			if !ok {
				return types.Block{}, consensus.V1BlockSupplement{}, false
			}
			return a.oneV1(txn)
		}
		return sc, true
	case "v1-signature-timelock-unknown-algorithm":
		// Conditions with one key of an algorithm the validator does not know (its signature is taken on trust, the
		// soft-fork rule) and one ed25519 key, both required. The timelock sits on the signature of the unknown key
		// only; a signature's timelock is a property of the transaction, not of the algorithm that made it.
		T := child + ahead
		lock := g.W.Reg(MakeLock(LockSpec{Kind: KindIndex("v1-unknown-algo"), K1: 1}))
		id, okp := b.PayV1To(lock.Address())
		if !okp || !finish() {
			return sc, false
		}
		sc.From, sc.To = T-2, T+1
		sc.Want = func(a *Adv) bool { return a.Child >= T }
		sc.Build = func(a *Adv) (types.Block, consensus.V1BlockSupplement, bool) {
			txn, ok := a.spendV1Forced(id, lock, 0)
			if !ok {
				return types.Block{}, consensus.V1BlockSupplement{}, false
			}
			marked := false
			for i := range txn.Signatures {
				if k := txn.Signatures[i].PublicKeyIndex; k < uint64(len(lock.UC.PublicKeys)) && lock.UC.PublicKeys[k].Algorithm == UnknownAlgo {
					txn.Signatures[i].Timelock = T
					marked = true
				}
			}
			if !marked {
				return types.Block{}, consensus.V1BlockSupplement{}, false
			}
			return a.oneV1(txn)
		}
		return sc, true
	case "v2-above":
		H := child + ahead
		lock := g.W.Reg(MakeLock(LockSpec{Kind: KindIndex("above-and-pk"), K1: 1, Height: H}))
		id, okp := b.PayV2To(lock.Address())
		if !okp || !finish() {
			return sc, false
		}
		sc.From, sc.To = H-1, H+2
		sc.Want = func(a *Adv) bool { return a.Child >= H+1 } // the policy sees the parent height
		sc.Build = func(a *Adv) (types.Block, consensus.V1BlockSupplement, bool) {
			txn, ok := a.spendV2Forced(id, lock)
			if !ok {
				return types.Block{}, consensus.V1BlockSupplement{}, false
			}
			return a.oneV2(txn)
		}
		return sc, true
	case "v2-after":
		// the lock time lies between the timestamps of the next few blocks; the verdict is decided by the
		// harness's own median of the last <= 11 timestamps
		step := int64(net.BlockInterval / time.Second)
		lockTime := time.Unix(b.CS.PrevTimestamps[0].Unix()+step*int64(rapid.IntRange(0, 3).Draw(t, "afterSteps"))+int64(rapid.IntRange(0, 1).Draw(t, "afterOff"))*(step/2), 0)
		lock := g.W.Reg(MakeLock(LockSpec{Kind: KindIndex("after-and-pk"), K1: 1, Time: lockTime.Unix()}))
		id, okp := b.PayV2To(lock.Address())
		if !okp || !finish() {
			return sc, false
		}
		sc.From, sc.To = child+1, child+14
		sc.Want = func(a *Adv) bool { return MedianTimestamp(a.CS).After(lockTime) }
		sc.Build = func(a *Adv) (types.Block, consensus.V1BlockSupplement, bool) {
			txn, ok := a.spendV2Forced(id, lock)
			if !ok {
				return types.Block{}, consensus.V1BlockSupplement{}, false
			}
			return a.oneV2(txn)
		}
		return sc, true
	case "v1-revision-window-start", "v1-revision-window-unchanged", "v1-proof-window", "v1-formation-window-start":
		if rule == "v1-formation-window-start" {
			W := child + ahead
			sc.From, sc.To = W-1, W+2
			sc.Want = func(a *Adv) bool { return a.Child <= W }
			sc.Build = func(a *Adv) (types.Block, consensus.V1BlockSupplement, bool) {
				bb := NewBuilder(t, a.G.C, a.G.W)
				if _, ok := bb.V1FormAt(W, W+3); !ok {
					return types.Block{}, consensus.V1BlockSupplement{}, false
				}
				return a.oneV1(bb.V1[0])
			}
			return sc, true
		}
		W := child + ahead
		X := W + uint64(rapid.IntRange(1, 2).Draw(t, "windowLen"))
		id, okp := b.V1FormAt(W, X)
		if !okp || !finish() {
			return sc, false
		}
		owner := std(2)
		if rule == "v1-revision-window-start" || rule == "v1-revision-window-unchanged" {
			keep := rule == "v1-revision-window-unchanged"
			sc.From, sc.To = W-1, W+2
			sc.Want = func(a *Adv) bool { return a.Child <= W }
			sc.Build = func(a *Adv) (types.Block, consensus.V1BlockSupplement, bool) {
				e, ok := a.G.C.Store.FC[id]
				if !ok {
					return types.Block{}, consensus.V1BlockSupplement{}, false
				}
				rev := e.FileContract
				rev.RevisionNumber++
				// the new window is kept legal at every probed height so that only the *current* window start decides
				// (or, the ordinary shape of a revision, left exactly as it is: only number, root, size and split change)
				if !keep {
					rev.WindowStart, rev.WindowEnd = W+5, W+8
				} else if n := len(rev.ValidProofOutputs); n >= 2 && !rev.ValidProofOutputs[0].Value.IsZero() {
					rev.ValidProofOutputs = append([]types.SiacoinOutput(nil), rev.ValidProofOutputs...)
					rev.ValidProofOutputs[0].Value = rev.ValidProofOutputs[0].Value.Sub(types.NewCurrency64(1))
					rev.ValidProofOutputs[1].Value = rev.ValidProofOutputs[1].Value.Add(types.NewCurrency64(1))
					rev.FileMerkleRoot[0] ^= 1
				}
				txn := types.Transaction{FileContractRevisions: []types.FileContractRevision{{ParentID: id, UnlockConditions: *owner.UC, FileContract: rev}}}
				SignV1(a.CS, &txn, false)
				return a.oneV1(txn)
			}
			return sc, true
		}
		// proof: accepted for W <= c <= X
		sc.From, sc.To = W-1, X+1
		sc.Want = func(a *Adv) bool { return a.Child >= W && a.Child <= X }
		sc.Build = func(a *Adv) (types.Block, consensus.V1BlockSupplement, bool) {
			e, ok := a.G.C.Store.FC[id]
			var wid types.BlockID
			if W-1 < uint64(len(a.G.C.Store.CI)) {
				wid = a.G.C.Store.CI[W-1].ChainIndex.ID
			}
			if !ok {
				// after the window the contract has expired: present the proof for the resolved contract (a node has no supplement for it)
				r, ok2 := a.G.C.Store.ResolvedFC[id]
				if !ok2 {
					return types.Block{}, consensus.V1BlockSupplement{}, false
				}
				e = r
			}
			bb := NewBuilder(t, a.G.C, a.G.W)
			txn, okp := bb.V1ProofFor(e, wid)
			if !okp {
				return types.Block{}, consensus.V1BlockSupplement{}, false
			}
			return a.oneV1(txn)
		}
		return sc, true
	case "v1-proof-after-window-revised-in-block":
		// One block revises the window of a stored contract and then proves it. What counts is the contract as it
		// stands when the proof is judged: the revision is legal while the stored window has not opened and the new
		// window does not start in the past, the proof only once the block before the new window start exists.
		W := child + ahead
		X := W + 2
		id, okp := b.V1FormAt(W, X)
		if !okp || !finish() {
			return sc, false
		}
		owner := std(2)
		N := W + uint64(rapid.SampledFrom([]int{-1, 0, 1, 4}).Draw(t, "newWindowStart")+1) - 1
		if N < 1 {
			return sc, false
		}
		sc.From, sc.To = min64(N, W)-1, W+1
		sc.Want = func(a *Adv) bool { return a.Child <= W && N == a.Child }
		sc.Build = func(a *Adv) (types.Block, consensus.V1BlockSupplement, bool) {
			e, ok := a.G.C.Store.FC[id]
			if !ok {
				return types.Block{}, consensus.V1BlockSupplement{}, false
			}
			rev := e.FileContract
			rev.RevisionNumber++
			rev.WindowStart, rev.WindowEnd = N, N+3
			rtxn := types.Transaction{FileContractRevisions: []types.FileContractRevision{{ParentID: id, UnlockConditions: *owner.UC, FileContract: rev}}}
			SignV1(a.CS, &rtxn, false)
			// the challenge comes from the block before the new window start; if that block does not exist yet the
			// best on offer is the tip
			wid := a.CS.Index.ID
			if N-1 < uint64(len(a.G.C.Store.CI)) {
				wid = a.G.C.Store.CI[N-1].ChainIndex.ID
			}
			revised := e.Copy()
			revised.FileContract = rev
			bb := NewBuilder(t, a.G.C, a.G.W)
			ptxn, okp := bb.V1ProofFor(revised, wid)
			if !okp {
				return types.Block{}, consensus.V1BlockSupplement{}, false
			}
			return a.manyV1(rtxn, ptxn)
		}
		return sc, true
	case "v2-revision-proof-height", "v2-proof-height", "v2-expiration-height":
		P := child + ahead
		E := P + uint64(rapid.IntRange(1, 3).Draw(t, "expLen"))
		id, okp := b.V2FormAt(P, E)
		if !okp || !finish() {
			return sc, false
		}
		switch rule {
		case "v2-revision-proof-height":
			sc.From, sc.To = P-1, P+2
			sc.Want = func(a *Adv) bool { return a.Child <= P }
			sc.Build = func(a *Adv) (types.Block, consensus.V1BlockSupplement, bool) {
				e, ok := a.G.C.Store.V2FC[id]
				if !ok {
					return types.Block{}, consensus.V1BlockSupplement{}, false
				}
				rev := e.V2FileContract
				rev.RevisionNumber++
				rev.ProofHeight, rev.ExpirationHeight = P+6, P+9 // the new heights stay legal at every probed height
				txn := types.V2Transaction{FileContractRevisions: []types.V2FileContractRevision{{Parent: e.Copy(), Revision: rev}}}
				SignV2(a.CS, &txn, SignOpts{})
				return a.oneV2(txn)
			}
		case "v2-proof-height":
			sc.From, sc.To = P-1, P+2
			sc.Want = func(a *Adv) bool { return a.Child >= P+1 }
			sc.Build = func(a *Adv) (types.Block, consensus.V1BlockSupplement, bool) {
				e, ok := a.G.C.Store.V2FC[id]
				if !ok {
					return types.Block{}, consensus.V1BlockSupplement{}, false
				}
				bb := NewBuilder(t, a.G.C, a.G.W)
				res, okp := bb.V2ProofFor(e)
				if !okp {
					// the block at the proof height does not exist yet: the best an adversary can offer is the tip as "proof index"
					data := a.G.W.Files[e.V2FileContract.FileMerkleRoot]
					ci := a.G.C.Store.CI[len(a.G.C.Store.CI)-1].Copy()
					idx := ref.ChallengeIndex(e.V2FileContract.Filesize, ci.ChainIndex.ID, e.ID)
					leaf, path := RefProof(data, e.V2FileContract.FileMerkleRoot, int(idx))
					res = types.V2FileContractResolution{Parent: e.Copy(), Resolution: &types.V2StorageProof{ProofIndex: ci, Leaf: leaf, Proof: toHashes(path)}}
				}
				return a.oneV2(types.V2Transaction{FileContractResolutions: []types.V2FileContractResolution{res}})
			}
		case "v2-expiration-height":
			sc.From, sc.To = E-1, E+2
			sc.Want = func(a *Adv) bool { return a.Child >= E+1 }
			sc.Build = func(a *Adv) (types.Block, consensus.V1BlockSupplement, bool) {
				e, ok := a.G.C.Store.V2FC[id]
				if !ok {
					return types.Block{}, consensus.V1BlockSupplement{}, false
				}
				return a.oneV2(types.V2Transaction{FileContractResolutions: []types.V2FileContractResolution{{Parent: e.Copy(), Resolution: &types.V2FileContractExpiration{}}}})
			}
		}
		return sc, true
	case "v2-formation-proof-height":
		P := child + ahead
		sc.From, sc.To = P-1, P+2
		sc.Want = func(a *Adv) bool { return a.Child <= P }
		sc.Build = func(a *Adv) (types.Block, consensus.V1BlockSupplement, bool) {
			bb := NewBuilder(t, a.G.C, a.G.W)
			if _, ok := bb.V2FormAt(P, P+3); !ok {
				return types.Block{}, consensus.V1BlockSupplement{}, false
			}
			return a.oneV2(bb.V2[0])
		}
		return sc, true
	case "v2-ephemeral-parent-maturity":
		// An immature output created earlier in the block (a siafund claim) and spent by a later transaction of the
		// block as an ephemeral parent that claims maturity height 0. From EphemeralOutputHeight on the claimed parent
		// is compared with the element the block really created, so the spend must be refused exactly from that child
		// height; below it the claimed parent is not compared (documented legacy window): no verdict is asserted there.
		E := net.HardforkV2.EphemeralOutputHeight
		if net.MaturityDelay == 0 || E < child+1 || E > child+6 {
			return sc, false
		}
		sc.From, sc.To = E-min64(E, 2), E+1
		sc.Want = func(a *Adv) bool { return false }
		sc.Any = func(a *Adv) bool { return a.Child < E }
		sc.Build = func(a *Adv) (types.Block, consensus.V1BlockSupplement, bool) {
			none := func() (types.Block, consensus.V1BlockSupplement, bool) {
				return types.Block{}, consensus.V1BlockSupplement{}, false
			}
			if !a.v2Allowed() {
				return none()
			}
			bb := NewBuilder(t, a.G.C, a.G.W)
			bb.AllowEphemeral = false
			if !bb.V2Siafunds() || len(bb.V2) != 1 || len(bb.V2[0].SiafundInputs) != 1 {
				return none()
			}
			tx1 := bb.V2[0]
			cid := tx1.SiafundInputs[0].Parent.ID.V2ClaimOutputID()
			var claim *ExpSC
			for i := range bb.Exp.CreatedSC {
				if bb.Exp.CreatedSC[i].ID == cid {
					claim = &bb.Exp.CreatedSC[i]
				}
			}
			if claim == nil || claim.Value.IsZero() {
				return none()
			}
			lock, known := a.G.W.Locks[claim.Address]
			if !known || !lock.Spendable(true, a.Child, MedianTimestamp(a.CS)) {
				return none()
			}
			forged := types.SiacoinElement{ID: cid, StateElement: types.StateElement{LeafIndex: types.UnassignedLeafIndex},
				SiacoinOutput: types.SiacoinOutput{Value: claim.Value, Address: claim.Address}, MaturityHeight: 0}
			tx2 := types.V2Transaction{SiacoinInputs: []types.V2SiacoinInput{forceV2Input(forged, lock)},
				SiacoinOutputs: []types.SiacoinOutput{{Value: claim.Value, Address: types.Address{0xBB}}}}
			SignV2(a.CS, &tx2, SignOpts{})
			blk := types.Block{Timestamp: NextTimestamp(a.CS, 0, 0), V2: &types.V2BlockData{Transactions: []types.V2Transaction{tx1, tx2}}}
			if err := Seal(a.CS, &blk, types.Address{0xAA}); err != nil {
				return none()
			}
			return blk, a.G.C.Store.Supplement(blk, a.Child, net.HardforkV2.RequireHeight), true
		}
		return sc, true
	case "v1-in-block-claim-maturity":
		// The siacoin claim of a v1 siafund spend is created in the middle of the block with the maturity delay of any
		// delayed output. A later v1 transaction of the same block that spends it is premature by exactly the delay:
		// accepted only on networks without one. (The v1 twin of v2-ephemeral-parent-maturity; v1 parents created in the
		// block are looked up by the validator itself, so there is no claimed maturity to compare.)
		if child >= net.HardforkV2.RequireHeight {
			return sc, false
		}
		sc.From, sc.To = child, child+2
		sc.Want = func(a *Adv) bool { return net.MaturityDelay == 0 }
		sc.Build = func(a *Adv) (types.Block, consensus.V1BlockSupplement, bool) {
			none := func() (types.Block, consensus.V1BlockSupplement, bool) {
				return types.Block{}, consensus.V1BlockSupplement{}, false
			}
			if !a.v1Allowed() {
				return none()
			}
			bb := NewBuilder(t, a.G.C, a.G.W)
			bb.AllowEphemeral = false
			if !bb.V1Siafunds() || len(bb.V1) != 1 || len(bb.V1[0].SiafundInputs) != 1 {
				return none()
			}
			tx1 := bb.V1[0]
			cid := tx1.SiafundInputs[0].ParentID.ClaimOutputID()
			var claim *ExpSC
			for i := range bb.Exp.CreatedSC {
				if bb.Exp.CreatedSC[i].ID == cid {
					claim = &bb.Exp.CreatedSC[i]
				}
			}
			if claim == nil || claim.Value.IsZero() {
				return none()
			}
			lock, known := a.G.W.Locks[claim.Address]
			if !known || lock.UC == nil || !lock.Spendable(false, a.Child, MedianTimestamp(a.CS)) {
				return none()
			}
			tx2 := types.Transaction{SiacoinInputs: []types.SiacoinInput{{ParentID: cid, UnlockConditions: *lock.UC}},
				SiacoinOutputs: []types.SiacoinOutput{{Value: claim.Value, Address: types.Address{0xBB}}}}
			SignV1(a.CS, &tx2, false)
			return a.manyV1(tx1, tx2)
		}
		return sc, true
	case "v1-single-key-timelock", "v1-single-key-timelock-revealed-without-the-lock":
		// One key, one signature, and a timelock: everything about these conditions is "standard" except the lock. The
		// output is paid to their address as the Merkle-tree definition gives it (gen.RefUnlockHash), which is what any
		// other implementation and every block explorer computes. Revealing the conditions themselves spends the output
		// from child height T on; revealing the same key's standard conditions (no lock) never does - they are other
		// conditions with another address.
		if child >= net.HardforkV2.RequireHeight {
			return sc, false
		}
		T := child + ahead
		locked := types.UnlockConditions{Timelock: T, PublicKeys: []types.UnlockKey{Pub(1).UnlockKey()}, SignaturesRequired: 1}
		id, okp := b.PayV1To(gen.RefUnlockHash(locked))
		if !okp || !finish() {
			return sc, false
		}
		reveal := locked
		sc.Want = func(a *Adv) bool { return a.Child >= T }
		if rule != "v1-single-key-timelock" {
			reveal = types.StandardUnlockConditions(Pub(1))
			sc.Want = func(a *Adv) bool { return false }
		}
		sc.From, sc.To = T-2, T+1
		sc.Build = func(a *Adv) (types.Block, consensus.V1BlockSupplement, bool) {
			txn, ok := a.spendV1Forced(id, Lock{UC: &reveal}, 0)
			if !ok || !a.v1Allowed() {
				return types.Block{}, consensus.V1BlockSupplement{}, false
			}
			return a.oneV1(txn)
		}
		return sc, true
	case "v1-devaddr-override-timelock":
		// The developer fund's siafund output sits at the old address and is spent with the unlock conditions of the new
		// one (address override from HardforkDevAddr.Height on). Those conditions are unlock conditions like any others:
		// their timelock holds the spend back until child height T.
		lock, known := g.W.Locks[net.HardforkDevAddr.NewAddress]
		if !known || lock.UC == nil || lock.UC.Timelock == 0 || child >= net.HardforkV2.RequireHeight {
			return sc, false
		}
		T := lock.UC.Timelock
		if child > T {
			return sc, false
		}
		sc.From, sc.To = T-min64(T, 2), T+1
		sc.Want = func(a *Adv) bool { return a.Child >= T && a.Child >= net.HardforkDevAddr.Height }
		sc.Build = func(a *Adv) (types.Block, consensus.V1BlockSupplement, bool) {
			if !a.v1Allowed() {
				return types.Block{}, consensus.V1BlockSupplement{}, false
			}
			for _, e := range a.G.C.Store.SortedSF() {
				if e.SiafundOutput.Address != net.HardforkDevAddr.OldAddress {
					continue
				}
				txn := types.Transaction{
					SiafundInputs:  []types.SiafundInput{{ParentID: e.ID, UnlockConditions: *lock.UC, ClaimAddress: types.Address{0xCC}}},
					SiafundOutputs: []types.SiafundOutput{{Value: e.SiafundOutput.Value, Address: types.Address{0xBB}}},
				}
				SignV1(a.CS, &txn, false)
				return a.oneV1(txn)
			}
			return types.Block{}, consensus.V1BlockSupplement{}, false
		}
		return sc, true
	case "v1-until-require-height":
		R := net.HardforkV2.RequireHeight
		if R < child+1 || R > child+6 {
			return sc, false
		}
		sc.From, sc.To = R-2, R+1
		sc.Want = func(a *Adv) bool { return a.Child < R }
		lock := std(1)
		sc.Build = func(a *Adv) (types.Block, consensus.V1BlockSupplement, bool) {
			for _, e := range a.G.C.Store.SortedSC() {
				if e.SiacoinOutput.Address == lock.Address() && e.MaturityHeight <= a.Child && !e.SiacoinOutput.Value.IsZero() {
					txn, ok := a.spendV1Forced(e.ID, lock, 0)
					if !ok {
						return types.Block{}, consensus.V1BlockSupplement{}, false
					}
					return a.oneV1(txn)
				}
			}
			return types.Block{}, consensus.V1BlockSupplement{}, false
		}
		// make sure such an output exists
		if _, okp := b.PayV1To(lock.Address()); !okp || !finish() {
			return sc, false
		}
		return sc, true
	case "v2-from-allow-height":
		A := net.HardforkV2.AllowHeight
		if A < child+1 || A > child+6 {
			return sc, false
		}
		sc.From, sc.To = A-2, A+1
		sc.Want = func(a *Adv) bool { return a.Child >= A }
		lock := std(1)
		sc.Build = func(a *Adv) (types.Block, consensus.V1BlockSupplement, bool) {
			for _, e := range a.G.C.Store.SortedSC() {
				if e.SiacoinOutput.Address == lock.Address() && e.MaturityHeight <= a.Child && !e.SiacoinOutput.Value.IsZero() {
					txn, ok := a.spendV2Forced(e.ID, lock)
					if !ok {
						return types.Block{}, consensus.V1BlockSupplement{}, false
					}
					// a v2 block below the allow height is sealed like any v2 block; only the transaction rule is judged
					return a.oneV2(txn)
				}
			}
			return types.Block{}, consensus.V1BlockSupplement{}, false
		}
		if _, okp := b.PayV1To(lock.Address()); !okp || !finish() {
			return sc, false
		}
		return sc, true
	}
	return sc, false
}

func min64(a, b uint64) uint64 {
	if a < b {
		return a
	}
	return b
}

// BoundRules lists the rule names understood by SetupBound.
var BoundRules = []string{
	"v1-output-maturity", "v2-output-maturity", "v1-unlock-conditions-timelock", "v2-uc-policy-timelock", "v1-signature-timelock", "v1-signature-timelock-partial-coverage",
	"v2-above", "v2-after", "v1-revision-window-start", "v1-revision-window-unchanged", "v1-proof-window", "v1-formation-window-start", "v1-proof-after-window-revised-in-block",
	"v2-revision-proof-height", "v2-proof-height", "v2-expiration-height", "v2-formation-proof-height",
	"v1-until-require-height", "v2-from-allow-height", "v2-ephemeral-parent-maturity", "v1-in-block-claim-maturity", "v1-devaddr-override-timelock",
	"v1-single-key-timelock", "v1-single-key-timelock-revealed-without-the-lock", "v1-signature-timelock-unknown-algorithm",
}

// EmptyBlock applies an honest block without transactions (used to advance the chain).
func (g *Gen) EmptyBlock(tsMode int) bool {
	b := NewBuilder(g.T, g.C, g.W)
	blk, bs, exp, err := b.Finish(tsMode, 0)
	if err != nil {
		return false
	}
	return g.ApplyRecorded(blk, bs, exp)
}

// EmptyHonest is a placeholder honest block for operators that do not derive from one.
func EmptyHonest() types.Block { return types.Block{} }
