package sim

import (
	"go.sia.tech/core/consensus"
	"go.sia.tech/core/types"
)

// AbortedCalls drives every exported helper that is documented (or bound) to panic on arguments that do not fit
// the transaction — after it has already hashed part of its input — and recovers, once per hasher pool and a few
// times over so that every pooled object of this P is touched. It returns the number of panics recovered.
func AbortedCalls(cs consensus.State, b types.Block) int {
	n := 0
	try := func(f func()) {
		defer func() {
			if recover() != nil {
				n++
			}
		}()
		f()
	}
	v1 := types.Transaction{SiacoinOutputs: []types.SiacoinOutput{{Value: types.NewCurrency64(7), Address: types.Address{1}}}, ArbitraryData: [][]byte{{1, 2, 3}}}
	if len(b.Transactions) > 0 {
		v1 = CloneV1(b.Transactions[0])
	}
	v2 := types.V2Transaction{ArbitraryData: []byte{9}}
	if txns := b.V2Transactions(); len(txns) > 0 {
		v2 = CloneV2(txns[0])
	}
	for rep := 0; rep < 3; rep++ {
		// consensus pool: covered indices one past the end, after fields that are present
		try(func() {
			cs.PartialSigHash(v1, types.CoveredFields{SiacoinOutputs: []uint64{0, uint64(len(v1.SiacoinOutputs))}})
		})
		try(func() {
			cs.PartialSigHash(v1, types.CoveredFields{ArbitraryData: []uint64{uint64(len(v1.ArbitraryData))}, MinerFees: []uint64{uint64(len(v1.MinerFees))}})
		})
		try(func() { cs.WholeSigHash(v1, types.Hash256{1}, 0, 0, []uint64{uint64(len(v1.Signatures))}) })
		// types pool: a resolution of no kind cannot be encoded
		bad := CloneV2(v2)
		bad.FileContractResolutions = append(bad.FileContractResolutions, types.V2FileContractResolution{})
		try(func() { _ = bad.ID() })
		try(func() { _ = bad.FullHash() })
		try(func() { _ = cs.InputSigHash(bad) })
	}
	return n
}
