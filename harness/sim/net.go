package sim

import (
	"sort"
	"time"

	"go.sia.tech/core/consensus"
	"go.sia.tech/core/types"
	"pgregory.net/rapid"
)

// MaxTarget is the all-ones target: every header meets it.
var MaxTarget = func() (t types.BlockID) {
	for i := range t {
		t[i] = 0xFF
	}
	return
}()

// NetOpts steer the network generator.
type NetOpts struct {
	MaxForkHeight int  // fork heights are drawn in [0, MaxForkHeight]
	V2Only        bool // all forks at 0..2 (v2 from the start)
	V1Only        bool // v2 forks far away
	// ProofEraSpread > 0 stretches the two early storage-proof eras: the Tax fork height and
	// everything after it is shifted by a drawn 0..Spread, and again from the StorageProof fork on.
	ProofEraSpread int
	// MixedWindow > 0 widens the span in which v1 and v2 transactions are both legal:
	// RequireHeight is moved to at least AllowHeight + a drawn 1..MixedWindow.
	MixedWindow int
	// EphemeralNear > 0 places EphemeralOutputHeight a drawn 2..EphemeralNear blocks after AllowHeight (instead of
	// anywhere in [0, FinalCutHeight+2]) and makes the maturity delay at least 1, so that the boundary of the
	// ephemeral-parent comparison is crossed by short chains while v2 transactions are already allowed.
	EphemeralNear int
	// DevTimelock forces a siafund allocation at the developer fund's old address and makes the unlock conditions of
	// its new address timelocked (height 3..6); otherwise one network in four gets a timelocked new address (1..6).
	DevTimelock bool
}

// GenNetwork draws a network configuration with chronologically ordered fork heights
// (DESIGN §4.1) and the genesis block that allocates coins and siafunds to pool locks.
func GenNetwork(t *rapid.T, o NetOpts) (*consensus.Network, types.Block) {
	if o.MaxForkHeight == 0 {
		o.MaxForkHeight = 30
	}
	n := &consensus.Network{Name: "verifnet"}
	n.InitialTarget = MaxTarget
	// coinbase schedule: initial - height SC, floored at minimum
	n.MinimumCoinbase = types.Siacoins(uint32(rapid.IntRange(1, 30000).Draw(t, "minCoinbase")))
	n.InitialCoinbase = n.MinimumCoinbase.Add(types.Siacoins(uint32(rapid.IntRange(0, 40).Draw(t, "coinbaseSlope"))))
	n.BlockInterval = rapid.SampledFrom([]time.Duration{10 * time.Minute, time.Hour, 24 * time.Hour, 240 * time.Hour, 720 * time.Hour, 7 * time.Second}).Draw(t, "interval")
	n.MaturityDelay = uint64(rapid.IntRange(0, 5).Draw(t, "maturityDelay"))

	hs := make([]uint64, 10)
	switch {
	case o.V2Only:
		for i := range hs {
			hs[i] = uint64(rapid.IntRange(0, 2).Draw(t, "fork"))
		}
	default:
		for i := range hs {
			hs[i] = uint64(rapid.IntRange(0, o.MaxForkHeight).Draw(t, "fork"))
		}
	}
	sort.Slice(hs, func(i, j int) bool { return hs[i] < hs[j] })
	if o.ProofEraSpread > 0 {
		d1 := uint64(rapid.IntRange(0, o.ProofEraSpread).Draw(t, "eraASpread"))
		d2 := uint64(rapid.IntRange(0, o.ProofEraSpread).Draw(t, "eraBSpread"))
		for i := 1; i < len(hs); i++ {
			hs[i] += d1
			if i >= 2 {
				hs[i] += d2
			}
		}
	}
	n.HardforkDevAddr.Height = hs[0]
	n.HardforkTax.Height = hs[1]
	n.HardforkStorageProof.Height = hs[2]
	n.HardforkOak.Height = hs[3]
	n.HardforkOak.FixHeight = hs[4]
	n.HardforkASIC.Height = hs[5]
	n.HardforkFoundation.Height = hs[6]
	n.HardforkV2.AllowHeight = hs[7]
	n.HardforkV2.RequireHeight = hs[8]
	n.HardforkV2.FinalCutHeight = hs[9]
	if n.HardforkV2.RequireHeight == 0 {
		// the genesis block allocates coins in a v1 transaction, so v1 must be legal at height 0
		n.HardforkV2.RequireHeight = 1
		if n.HardforkV2.FinalCutHeight == 0 {
			n.HardforkV2.FinalCutHeight = 1
		}
	}
	if o.MixedWindow > 0 && !o.V2Only {
		if r := n.HardforkV2.AllowHeight + uint64(rapid.IntRange(1, o.MixedWindow).Draw(t, "mixedWindow")); r > n.HardforkV2.RequireHeight {
			n.HardforkV2.RequireHeight = r
		}
		if n.HardforkV2.FinalCutHeight < n.HardforkV2.RequireHeight {
			n.HardforkV2.FinalCutHeight = n.HardforkV2.RequireHeight
		}
	}
	if o.V1Only {
		n.HardforkV2.AllowHeight, n.HardforkV2.RequireHeight, n.HardforkV2.FinalCutHeight = 1<<30, 1<<30+10, 1<<30+20
	}
	n.HardforkV2.EphemeralOutputHeight = uint64(rapid.IntRange(0, int(n.HardforkV2.FinalCutHeight)+2).Draw(t, "ephemeralHeight"))
	if o.EphemeralNear > 0 {
		n.HardforkV2.EphemeralOutputHeight = n.HardforkV2.AllowHeight + uint64(rapid.IntRange(2, o.EphemeralNear).Draw(t, "ephemeralNear"))
		if n.MaturityDelay == 0 {
			n.MaturityDelay = 1
		}
	}

	genesisTime := time.Unix(int64(rapid.IntRange(1_400_000_000, 1_700_000_000).Draw(t, "genesisTime")), 0)
	n.HardforkOak.GenesisTimestamp = genesisTime
	n.HardforkASIC.OakTime = 10000 * time.Second
	n.HardforkASIC.OakTarget = MaxTarget
	n.HardforkASIC.NonceFactor = uint64(rapid.SampledFrom([]int{1, 2, 7, 1009}).Draw(t, "nonceFactor"))

	// Foundation addresses: locks the pool can satisfy (v1-style so both versions can spend)
	n.HardforkFoundation.PrimaryAddress = MakeLock(LockSpec{Kind: 0, K1: 4}).Address()
	n.HardforkFoundation.FailsafeAddress = MakeLock(LockSpec{Kind: 0, K1: 5}).Address()
	if rapid.IntRange(0, 9).Draw(t, "voidFoundation") == 0 {
		n.HardforkFoundation.PrimaryAddress = types.VoidAddress
	}
	// developer siafund address override pair
	n.HardforkDevAddr.OldAddress = MakeLock(LockSpec{Kind: 0, K1: 2}).Address()
	n.HardforkDevAddr.NewAddress = MakeLock(LockSpec{Kind: 0, K1: 3}).Address()
	if o.DevTimelock {
		n.HardforkDevAddr.NewAddress = MakeLock(LockSpec{Kind: KindIndex("v1-1of2-timelock"), K1: 3, K2: 2, Height: uint64(rapid.IntRange(3, 6).Draw(t, "devTimelock"))}).Address()
	} else if rapid.IntRange(0, 3).Draw(t, "devTimelocked") == 0 {
		n.HardforkDevAddr.NewAddress = MakeLock(LockSpec{Kind: KindIndex("v1-1of2-timelock"), K1: 3, K2: 2, Height: uint64(rapid.IntRange(1, 6).Draw(t, "devTimelock"))}).Address()
	}

	// genesis block: siacoin and siafund allocations in one v1 transaction
	var txn types.Transaction
	nOut := rapid.IntRange(2, 6).Draw(t, "genesisOutputs")
	for i := 0; i < nOut; i++ {
		spec := LockSpec{Kind: rapid.IntRange(0, NumV1Kinds-1).Draw(t, "gk"), K1: rapid.IntRange(0, NumKeys-1).Draw(t, "gk1"), K2: rapid.IntRange(0, NumKeys-1).Draw(t, "gk2"), Height: uint64(rapid.IntRange(0, 6).Draw(t, "gh"))}
		if o.V2Only && rapid.Bool().Draw(t, "gv2") {
			spec.Kind = rapid.IntRange(NumV1Kinds, len(LockKinds)-1).Draw(t, "gk2kind")
			spec.Time = genesisTime.Unix() + int64(rapid.IntRange(0, 5).Draw(t, "gt"))*int64(n.BlockInterval/time.Second)
		}
		val := types.Siacoins(uint32(rapid.IntRange(1000, 2_000_000).Draw(t, "gval")))
		txn.SiacoinOutputs = append(txn.SiacoinOutputs, types.SiacoinOutput{Value: val, Address: MakeLock(spec).Address()})
	}
	// siafunds: 10000 split in 1-3 outputs; one of them possibly at the old dev address
	parts := rapid.IntRange(1, 3).Draw(t, "sfParts")
	left := uint64(10000)
	for i := 0; i < parts; i++ {
		v := left
		if i < parts-1 {
			v = uint64(rapid.IntRange(1, int(left)-(parts-1-i)).Draw(t, "sfv"))
		}
		left -= v
		addr := MakeLock(LockSpec{Kind: rapid.IntRange(0, 1).Draw(t, "sfk"), K1: rapid.IntRange(0, NumKeys-1).Draw(t, "sfk1"), K2: rapid.IntRange(0, NumKeys-1).Draw(t, "sfk2")}).Address()
		if i == 0 && (rapid.IntRange(0, 3).Draw(t, "sfDev") == 0 || o.DevTimelock) {
			addr = n.HardforkDevAddr.OldAddress
		}
		txn.SiafundOutputs = append(txn.SiafundOutputs, types.SiafundOutput{Value: v, Address: addr})
	}
	genesis := types.Block{Timestamp: genesisTime, Transactions: []types.Transaction{txn}}
	return n, genesis
}
