package sim

import (
	"fmt"

	"go.sia.tech/core/consensus"
	"go.sia.tech/core/types"
)

// SingleResolution is a model-free invariant over one applied block (C02: no contract is
// resolved twice, also not by two different mechanisms of one block — a storage proof in a
// transaction and the block-level expiry of the supplement, or two v2 resolutions):
//   - a resolved v1 contract pays exactly one family of outputs: the valid outputs iff the block
//     carries a storage proof for it (the diff must then say Valid), the missed outputs otherwise;
//     no output of the other family may be created;
//   - a resolved v2 contract is the parent of exactly one resolution in the block, is reported
//     with a resolution in the diffs, and its renter and host payout IDs are created exactly once;
//   - a contract that the block does not resolve creates no payout of either family.
func SingleResolution(b types.Block, bs consensus.V1BlockSupplement, au consensus.ApplyUpdate) error {
	created := map[types.SiacoinOutputID]int{}
	for _, d := range au.SiacoinElementDiffs() {
		if d.Created {
			created[d.SiacoinElement.ID]++
		}
	}
	for id, n := range created {
		if n > 1 {
			return fmt.Errorf("siacoin output %v is created %d times by one block", id, n)
		}
	}
	// every output the block's transactions spend is reported spent exactly once, and nothing else is (an output
	// created and spent inside the block must not come out of it as unspent)
	spentIn := map[types.Hash256]int{}
	for _, txn := range b.Transactions {
		for _, in := range txn.SiacoinInputs {
			spentIn[types.Hash256(in.ParentID)]++
		}
		for _, in := range txn.SiafundInputs {
			spentIn[types.Hash256(in.ParentID)]++
		}
	}
	for _, txn := range b.V2Transactions() {
		for _, in := range txn.SiacoinInputs {
			spentIn[types.Hash256(in.Parent.ID)]++
		}
		for _, in := range txn.SiafundInputs {
			spentIn[types.Hash256(in.Parent.ID)]++
		}
	}
	reported := map[types.Hash256]bool{}
	for _, d := range au.SiacoinElementDiffs() {
		id := types.Hash256(d.SiacoinElement.ID)
		if d.Spent {
			if reported[id] {
				return fmt.Errorf("siacoin output %v is reported spent twice by one block", d.SiacoinElement.ID)
			}
			reported[id] = true
		}
		if d.Spent != (spentIn[id] > 0) {
			return fmt.Errorf("siacoin output %v: the block spends it %d time(s) but the update reports spent=%v (created=%v)", d.SiacoinElement.ID, spentIn[id], d.Spent, d.Created)
		}
	}
	for _, d := range au.SiafundElementDiffs() {
		id := types.Hash256(d.SiafundElement.ID)
		if d.Spent {
			if reported[id] {
				return fmt.Errorf("siafund output %v is reported spent twice by one block", d.SiafundElement.ID)
			}
			reported[id] = true
		}
		if d.Spent != (spentIn[id] > 0) {
			return fmt.Errorf("siafund output %v: the block spends it %d time(s) but the update reports spent=%v (created=%v)", d.SiafundElement.ID, spentIn[id], d.Spent, d.Created)
		}
	}
	for id, k := range spentIn {
		if k != 1 {
			return fmt.Errorf("output %v is spent %d times by the transactions of one accepted block", id, k)
		}
		if !reported[id] {
			return fmt.Errorf("output %v is spent by the block but not reported spent in the update", id)
		}
	}
	proven := map[types.FileContractID]int{}
	for _, txn := range b.Transactions {
		for _, sp := range txn.StorageProofs {
			proven[sp.ParentID]++
		}
	}
	seen := map[types.FileContractID]bool{}
	for _, d := range au.FileContractElementDiffs() {
		id := d.FileContractElement.ID
		if seen[id] {
			return fmt.Errorf("v1 contract %v appears twice in the diffs of one block", id)
		}
		seen[id] = true
		fc := d.FileContractElement.FileContract
		if d.Revision != nil {
			fc = *d.Revision
		}
		nValid, nMissed := 0, 0
		for i := range fc.ValidProofOutputs {
			nValid += created[id.ValidOutputID(i)]
		}
		for i := range fc.MissedProofOutputs {
			nMissed += created[id.MissedOutputID(i)]
		}
		switch {
		case !d.Resolved:
			if nValid+nMissed != 0 || proven[id] != 0 {
				return fmt.Errorf("v1 contract %v is not reported resolved but the block pays %d valid / %d missed outputs (storage proofs in block: %d)", id, nValid, nMissed, proven[id])
			}
		case proven[id] > 1:
			return fmt.Errorf("v1 contract %v is proven %d times in one accepted block", id, proven[id])
		case proven[id] == 1:
			if !d.Valid || nValid != len(fc.ValidProofOutputs) || nMissed != 0 {
				return fmt.Errorf("v1 contract %v was proven in the block: expected exactly its %d valid outputs, got valid=%v, %d valid and %d missed outputs (resolved twice?)", id, len(fc.ValidProofOutputs), d.Valid, nValid, nMissed)
			}
		default:
			if d.Valid || nMissed != len(fc.MissedProofOutputs) || nValid != 0 {
				return fmt.Errorf("v1 contract %v expired in the block: expected exactly its %d missed outputs, got valid=%v, %d valid and %d missed outputs", id, len(fc.MissedProofOutputs), d.Valid, nValid, nMissed)
			}
		}
	}
	for id, n := range proven {
		if n > 0 && !seen[id] {
			return fmt.Errorf("storage proof for v1 contract %v accepted but the contract is not in the diffs", id)
		}
	}
	resolutions := map[types.FileContractID]int{}
	for _, txn := range b.V2Transactions() {
		for _, r := range txn.FileContractResolutions {
			resolutions[r.Parent.ID]++
		}
	}
	seen2 := map[types.FileContractID]bool{}
	for _, d := range au.V2FileContractElementDiffs() {
		id := d.V2FileContractElement.ID
		if seen2[id] {
			return fmt.Errorf("v2 contract %v appears twice in the diffs of one block", id)
		}
		seen2[id] = true
		n := created[id.V2RenterOutputID()] + created[id.V2HostOutputID()]
		if d.Resolution == nil {
			if n != 0 || resolutions[id] != 0 {
				return fmt.Errorf("v2 contract %v is not reported resolved but the block pays %d of its payouts (resolutions in block: %d)", id, n, resolutions[id])
			}
			continue
		}
		if resolutions[id] != 1 {
			return fmt.Errorf("v2 contract %v is resolved %d times in one accepted block", id, resolutions[id])
		}
		if n != 2 {
			return fmt.Errorf("v2 contract %v resolved: %d of its 2 payout outputs created", id, n)
		}
	}
	for id, n := range resolutions {
		if n > 0 && !seen2[id] {
			return fmt.Errorf("resolution of v2 contract %v accepted but the contract is not in the diffs", id)
		}
	}
	return nil
}
