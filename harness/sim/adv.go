package sim

import (
	"fmt"
	"math/big"
	"sort"
	"verif/harness/ref"

	"go.sia.tech/core/consensus"
	"go.sia.tech/core/types"
	"pgregory.net/rapid"
)

// cloneBlock deep-copies a block through its JSON-independent structure.
func CloneBlock(b types.Block) types.Block {
	c := b
	c.MinerPayouts = append([]types.SiacoinOutput(nil), b.MinerPayouts...)
	c.Transactions = make([]types.Transaction, len(b.Transactions))
	for i := range b.Transactions {
		c.Transactions[i] = CloneV1(b.Transactions[i])
	}
	if b.V2 != nil {
		v := *b.V2
		v.Transactions = make([]types.V2Transaction, len(b.V2.Transactions))
		for i := range b.V2.Transactions {
			v.Transactions[i] = CloneV2(b.V2.Transactions[i])
		}
		c.V2 = &v
	}
	return c
}

// CloneV1 deep-copies a v1 transaction.
func CloneV1(t types.Transaction) types.Transaction {
	c := t
	c.SiacoinInputs = append([]types.SiacoinInput(nil), t.SiacoinInputs...)
	for i := range c.SiacoinInputs {
		c.SiacoinInputs[i].UnlockConditions = cloneUC(t.SiacoinInputs[i].UnlockConditions)
	}
	c.SiacoinOutputs = append([]types.SiacoinOutput(nil), t.SiacoinOutputs...)
	c.FileContracts = append([]types.FileContract(nil), t.FileContracts...)
	for i := range c.FileContracts {
		c.FileContracts[i].ValidProofOutputs = append([]types.SiacoinOutput(nil), t.FileContracts[i].ValidProofOutputs...)
		c.FileContracts[i].MissedProofOutputs = append([]types.SiacoinOutput(nil), t.FileContracts[i].MissedProofOutputs...)
	}
	c.FileContractRevisions = append([]types.FileContractRevision(nil), t.FileContractRevisions...)
	for i := range c.FileContractRevisions {
		c.FileContractRevisions[i].ValidProofOutputs = append([]types.SiacoinOutput(nil), t.FileContractRevisions[i].ValidProofOutputs...)
		c.FileContractRevisions[i].MissedProofOutputs = append([]types.SiacoinOutput(nil), t.FileContractRevisions[i].MissedProofOutputs...)
	}
	c.StorageProofs = append([]types.StorageProof(nil), t.StorageProofs...)
	for i := range c.StorageProofs {
		c.StorageProofs[i].Proof = append([]types.Hash256(nil), t.StorageProofs[i].Proof...)
	}
	c.SiafundInputs = append([]types.SiafundInput(nil), t.SiafundInputs...)
	c.SiafundOutputs = append([]types.SiafundOutput(nil), t.SiafundOutputs...)
	c.MinerFees = append([]types.Currency(nil), t.MinerFees...)
	c.ArbitraryData = nil
	for _, a := range t.ArbitraryData {
		c.ArbitraryData = append(c.ArbitraryData, append([]byte(nil), a...))
	}
	c.Signatures = append([]types.TransactionSignature(nil), t.Signatures...)
	for i := range c.Signatures {
		c.Signatures[i].Signature = append([]byte(nil), t.Signatures[i].Signature...)
		cf := &c.Signatures[i].CoveredFields
		for _, p := range []*[]uint64{&cf.SiacoinInputs, &cf.SiacoinOutputs, &cf.FileContracts, &cf.FileContractRevisions, &cf.StorageProofs,
			&cf.SiafundInputs, &cf.SiafundOutputs, &cf.MinerFees, &cf.ArbitraryData, &cf.Signatures} {
			*p = append([]uint64(nil), *p...)
		}
	}
	for i := range c.SiafundInputs {
		c.SiafundInputs[i].UnlockConditions = cloneUC(t.SiafundInputs[i].UnlockConditions)
	}
	for i := range c.FileContractRevisions {
		c.FileContractRevisions[i].UnlockConditions = cloneUC(t.FileContractRevisions[i].UnlockConditions)
	}
	return c
}

// CloneV2 deep-copies a v2 transaction without relying on the library's DeepCopy.
func CloneV2(t types.V2Transaction) types.V2Transaction {
	c := t
	cp := func(sp types.SatisfiedPolicy) types.SatisfiedPolicy {
		return types.SatisfiedPolicy{Policy: ClonePolicy(sp.Policy), Signatures: append([]types.Signature(nil), sp.Signatures...), Preimages: append([][32]byte(nil), sp.Preimages...)}
	}
	c.SiacoinInputs = append([]types.V2SiacoinInput(nil), t.SiacoinInputs...)
	for i := range c.SiacoinInputs {
		c.SiacoinInputs[i].Parent = t.SiacoinInputs[i].Parent.Copy()
		c.SiacoinInputs[i].SatisfiedPolicy = cp(t.SiacoinInputs[i].SatisfiedPolicy)
	}
	c.SiacoinOutputs = append([]types.SiacoinOutput(nil), t.SiacoinOutputs...)
	c.SiafundInputs = append([]types.V2SiafundInput(nil), t.SiafundInputs...)
	for i := range c.SiafundInputs {
		c.SiafundInputs[i].Parent = t.SiafundInputs[i].Parent.Copy()
		c.SiafundInputs[i].SatisfiedPolicy = cp(t.SiafundInputs[i].SatisfiedPolicy)
	}
	c.SiafundOutputs = append([]types.SiafundOutput(nil), t.SiafundOutputs...)
	c.FileContracts = append([]types.V2FileContract(nil), t.FileContracts...)
	c.FileContractRevisions = append([]types.V2FileContractRevision(nil), t.FileContractRevisions...)
	for i := range c.FileContractRevisions {
		c.FileContractRevisions[i].Parent = t.FileContractRevisions[i].Parent.Copy()
	}
	c.FileContractResolutions = append([]types.V2FileContractResolution(nil), t.FileContractResolutions...)
	for i := range c.FileContractResolutions {
		c.FileContractResolutions[i].Parent = t.FileContractResolutions[i].Parent.Copy()
		switch r := t.FileContractResolutions[i].Resolution.(type) {
		case *types.V2FileContractRenewal:
			x := *r
			c.FileContractResolutions[i].Resolution = &x
		case *types.V2StorageProof:
			x := *r
			x.ProofIndex = r.ProofIndex.Copy()
			x.Proof = append([]types.Hash256(nil), r.Proof...)
			c.FileContractResolutions[i].Resolution = &x
		case *types.V2FileContractExpiration:
			c.FileContractResolutions[i].Resolution = &types.V2FileContractExpiration{}
		}
	}
	c.Attestations = append([]types.Attestation(nil), t.Attestations...)
	for i := range c.Attestations {
		c.Attestations[i].Value = append([]byte(nil), t.Attestations[i].Value...)
	}
	c.ArbitraryData = append([]byte(nil), t.ArbitraryData...)
	if t.NewFoundationAddress != nil {
		a := *t.NewFoundationAddress
		c.NewFoundationAddress = &a
	}
	return c
}

// Reseal recomputes payout (reward + fees), commitment and nonce of a mutated block.
func Reseal(cs consensus.State, b *types.Block) error {
	addr := types.VoidAddress
	if len(b.MinerPayouts) > 0 {
		addr = b.MinerPayouts[0].Address
	}
	b.MinerPayouts = nil
	return Seal(cs, b, addr)
}

// Adv builds adversarial siblings of an honest block on the tip of the generator's chain.
type Adv struct {
	G      *Gen
	CS     consensus.State
	Child  uint64
	Honest types.Block
}

// NewAdv prepares operators for the child of the current tip.
func (g *Gen) NewAdv(honest types.Block) *Adv {
	cs := g.C.Tip()
	return &Adv{G: g, CS: cs, Child: cs.Index.Height + 1, Honest: honest}
}

func (a *Adv) v1Allowed() bool { return a.Child < a.G.C.Net.HardforkV2.RequireHeight }
func (a *Adv) v2Allowed() bool { return a.Child >= a.G.C.Net.HardforkV2.AllowHeight }

// emit re-seals blk, builds the supplement from the store (patched by fix) and records the probe.
func (a *Adv) emit(blk types.Block, label, want string, info map[string]string, fix func(*consensus.V1BlockSupplement)) bool {
	if err := Reseal(a.CS, &blk); err != nil {
		return false
	}
	bs := a.G.C.Store.Supplement(blk, a.Child, a.G.C.Net.HardforkV2.RequireHeight)
	if fix != nil {
		fix(&bs)
	}
	a.G.Probe(blk, bs, label, want, info)
	return true
}

// payV2 builds a signed v2 transaction that spends el entirely to a fresh pk address.
func (a *Adv) payV2(el types.SiacoinElement, lock Lock) (types.V2Transaction, bool) {
	median := MedianTimestamp(a.CS)
	if !lock.Spendable(true, a.Child, median) || el.SiacoinOutput.Value.IsZero() {
		return types.V2Transaction{}, false
	}
	sp, ok := Satisfy(lock.Policy, types.Hash256{}, a.CS.Index.Height, median)
	if !ok {
		return types.V2Transaction{}, false
	}
	txn := types.V2Transaction{
		SiacoinInputs:  []types.V2SiacoinInput{{Parent: el.Copy(), SatisfiedPolicy: sp}},
		SiacoinOutputs: []types.SiacoinOutput{{Value: el.SiacoinOutput.Value, Address: MakeLock(LockSpec{Kind: NumV1Kinds, K1: 1}).Address()}},
	}
	SignV2(a.CS, &txn, SignOpts{})
	return txn, true
}

// payV1 builds a signed v1 transaction that spends (id, value) entirely.
func (a *Adv) payV1(id types.SiacoinOutputID, value types.Currency, lock Lock) (types.Transaction, bool) {
	if lock.UC == nil || !lock.Spendable(false, a.Child, MedianTimestamp(a.CS)) || value.IsZero() {
		return types.Transaction{}, false
	}
	txn := types.Transaction{
		SiacoinInputs:  []types.SiacoinInput{{ParentID: id, UnlockConditions: *lock.UC}},
		SiacoinOutputs: []types.SiacoinOutput{{Value: value, Address: MakeLock(LockSpec{Kind: 0, K1: 1}).Address()}},
	}
	SignV1(a.CS, &txn, false)
	return txn, true
}

func (a *Adv) withV2(blk types.Block, txn types.V2Transaction) (types.Block, bool) {
	if !a.v2Allowed() {
		return blk, false
	}
	if blk.V2 == nil {
		blk.V2 = &types.V2BlockData{}
	}
	blk.V2.Transactions = append(blk.V2.Transactions, txn)
	return blk, true
}

func (a *Adv) withV1(blk types.Block, txn types.Transaction) (types.Block, bool) {
	if !a.v1Allowed() {
		return blk, false
	}
	blk.Transactions = append(blk.Transactions, txn)
	return blk, true
}

// parentElement finds the element spent by a v1 input: live in the store or created earlier in blk.
func (a *Adv) parentOfV1(blk types.Block, id types.SiacoinOutputID) (types.SiacoinElement, bool) {
	if e, ok := a.G.C.Store.SC[id]; ok {
		return e.Copy(), true
	}
	for _, t := range blk.Transactions {
		for i, o := range t.SiacoinOutputs {
			if t.SiacoinOutputID(i) == id {
				return types.SiacoinElement{ID: id, SiacoinOutput: o, StateElement: types.StateElement{LeafIndex: types.UnassignedLeafIndex}}, true
			}
		}
	}
	return types.SiacoinElement{}, false
}

// dupV1Fresh appends, for one stored output of every kind of v1 unlock conditions, a fresh v1 transaction that names it
// twice and pays out the doubled value (expectation want), optionally with the single spend as a control.
func (a *Adv) dupV1Fresh(want string, controls bool) int {
	n := 0
	world := a.G.W
	// The same with fresh v1 transactions over stored outputs of every kind of unlock conditions, in particular those that
	// take no part in the signature bookkeeping (no signature required) or whose signatures are not checked (unknown
	// algorithm): one parent named twice, the doubled value paid out. Control: the single spend.
	if a.v1Allowed() {
		usedSC, usedSF := map[types.SiacoinOutputID]bool{}, map[types.SiafundOutputID]bool{}
		for _, t := range a.Honest.Transactions {
			for _, in := range t.SiacoinInputs {
				usedSC[in.ParentID] = true
			}
			for _, in := range t.SiafundInputs {
				usedSF[in.ParentID] = true
			}
		}
		for _, t := range a.Honest.V2Transactions() {
			for _, in := range t.SiacoinInputs {
				usedSC[in.Parent.ID] = true
			}
			for _, in := range t.SiafundInputs {
				usedSF[in.Parent.ID] = true
			}
		}
		median := MedianTimestamp(a.CS)
		seenKind := map[string]bool{}
		for _, e := range a.G.C.Store.SortedSC() {
			lock, known := world.Locks[e.SiacoinOutput.Address]
			if !known || lock.UC == nil || usedSC[e.ID] || seenKind[lock.Kind] || e.MaturityHeight > a.Child || e.SiacoinOutput.Value.IsZero() || e.SiacoinOutput.Value.Hi>>62 != 0 || !lock.Spendable(false, a.Child, median) {
				continue
			}
			seenKind[lock.Kind] = true
			mk := func(times int) types.Block {
				txn := types.Transaction{SiacoinOutputs: []types.SiacoinOutput{{Value: e.SiacoinOutput.Value.Mul64(uint64(times)), Address: types.Address{9}}}}
				for k := 0; k < times; k++ {
					txn.SiacoinInputs = append(txn.SiacoinInputs, types.SiacoinInput{ParentID: e.ID, UnlockConditions: *lock.UC})
				}
				SignV1(a.CS, &txn, false)
				blk := CloneBlock(a.Honest)
				blk.Transactions = append(blk.Transactions, txn)
				return blk
			}
			if a.emit(mk(2), "dup-siacoin-input-same-txn/v1-fresh/"+lock.Kind, want, nil, nil) {
				n++
			}
			// and spent by two different fresh transactions of the block
			{
				blk := mk(1)
				second := CloneV1(blk.Transactions[len(blk.Transactions)-1])
				second.SiacoinOutputs[0].Address = types.Address{7}
				SignV1(a.CS, &second, false)
				blk.Transactions = append(blk.Transactions, second)
				if a.emit(blk, "fresh-double-spend/v1+v1/"+lock.Kind, want, nil, nil) {
					n++
				}
			}
			if controls {
				a.emit(mk(1), "fresh-single-spend/v1/"+lock.Kind, "accept", nil, nil)
			}
		}
		seenKind = map[string]bool{}
		for _, e := range a.G.C.Store.SortedSF() {
			lock, known := world.Locks[e.SiafundOutput.Address]
			if !known || lock.UC == nil || usedSF[e.ID] || seenKind[lock.Kind] || e.SiafundOutput.Value == 0 || !lock.Spendable(false, a.Child, median) || e.SiafundOutput.Address == a.G.C.Net.HardforkDevAddr.OldAddress {
				continue
			}
			seenKind[lock.Kind] = true
			mk := func(times int) types.Block {
				txn := types.Transaction{SiafundOutputs: []types.SiafundOutput{{Value: e.SiafundOutput.Value * uint64(times), Address: types.Address{9}}}}
				for k := 0; k < times; k++ {
					txn.SiafundInputs = append(txn.SiafundInputs, types.SiafundInput{ParentID: e.ID, UnlockConditions: *lock.UC, ClaimAddress: types.Address{8}})
				}
				SignV1(a.CS, &txn, false)
				blk := CloneBlock(a.Honest)
				blk.Transactions = append(blk.Transactions, txn)
				return blk
			}
			if a.emit(mk(2), "dup-siafund-input-same-txn/v1-fresh/"+lock.Kind, want, nil, nil) {
				n++
			}
			{
				blk := mk(1)
				second := CloneV1(blk.Transactions[len(blk.Transactions)-1])
				second.SiafundOutputs[0].Address = types.Address{7}
				SignV1(a.CS, &second, false)
				blk.Transactions = append(blk.Transactions, second)
				if a.emit(blk, "fresh-double-spend/v1+v1-siafund/"+lock.Kind, want, nil, nil) {
					n++
				}
			}
			if controls {
				a.emit(mk(1), "fresh-single-spend/v1-siafund/"+lock.Kind, "accept", nil, nil)
			}
		}
	}
	return n
}

// renewalStripped: an honest renewal that needed fresh coins (the rollover does not cover the new contract and its tax)
// with its whole siacoin side removed - no inputs, no outputs, no fee. What is left is a transaction whose only
// participant in the coin balance is the renewal itself, and it does not balance.
func (a *Adv) renewalStripped(want string) int {
	n := 0
	for ti := range a.Honest.V2Transactions() {
		orig := a.Honest.V2.Transactions[ti]
		if len(orig.SiacoinInputs) == 0 || len(orig.FileContracts) > 0 {
			continue
		}
		for ri := range orig.FileContractResolutions {
			ren, ok := orig.FileContractResolutions[ri].Resolution.(*types.V2FileContractRenewal)
			if !ok || len(orig.FileContractResolutions) != 1 {
				continue
			}
			cost := ref.Big(ren.NewContract.RenterOutput.Value)
			cost.Add(cost, ref.Big(ren.NewContract.HostOutput.Value)).Add(cost, ref.TaxV2(ren.NewContract.RenterOutput.Value, ren.NewContract.HostOutput.Value))
			roll := new(big.Int).Add(ref.Big(ren.RenterRollover), ref.Big(ren.HostRollover))
			if roll.Cmp(cost) >= 0 {
				continue // the rollover pays for everything: stripping the coins would strip nothing that matters
			}
			blk := CloneBlock(a.Honest)
			x := &blk.V2.Transactions[ti]
			x.SiacoinInputs, x.SiacoinOutputs, x.MinerFee = nil, nil, types.ZeroCurrency
			x.SiafundInputs, x.SiafundOutputs = nil, nil
			SignV2(a.CS, x, SignOpts{})
			if a.emit(blk, "v2-renewal/underfunded-with-the-siacoin-side-stripped", want, nil, nil) {
				n++
			}
		}
	}
	return n
}

// DoubleSpendProbes records every applicable C02 operator for the honest block.
func (a *Adv) DoubleSpendProbes() int {
	t := a.G.T
	n := 0
	world := a.G.W
	pick := func(name string, k int) int { return rapid.IntRange(0, k-1).Draw(t, name) }

	// ---- (1) duplicate input inside one transaction
	for ti := range a.Honest.Transactions {
		txn := a.Honest.Transactions[ti]
		if len(txn.SiacoinInputs) > 0 {
			blk := CloneBlock(a.Honest)
			x := &blk.Transactions[ti]
			in := x.SiacoinInputs[pick("dupIn", len(x.SiacoinInputs))]
			if p, ok := a.parentOfV1(a.Honest, in.ParentID); ok && !p.SiacoinOutput.Value.IsZero() {
				x.SiacoinInputs = append(x.SiacoinInputs, in)
				x.SiacoinOutputs = append(x.SiacoinOutputs, types.SiacoinOutput{Value: p.SiacoinOutput.Value, Address: types.Address{9}})
				SignV1(a.CS, x, false)
				if a.emit(blk, "dup-siacoin-input-same-txn/v1", "reject", nil, nil) {
					n++
				}
			}
			break
		}
	}
	for ti := range a.Honest.Transactions {
		txn := a.Honest.Transactions[ti]
		if len(txn.SiafundInputs) > 0 {
			blk := CloneBlock(a.Honest)
			x := &blk.Transactions[ti]
			in := x.SiafundInputs[0]
			var val uint64
			if e, ok := a.G.C.Store.SF[in.ParentID]; ok {
				val = e.SiafundOutput.Value
			}
			if val > 0 {
				x.SiafundInputs = append(x.SiafundInputs, in)
				x.SiafundOutputs = append(x.SiafundOutputs, types.SiafundOutput{Value: val, Address: types.Address{9}})
				SignV1(a.CS, x, false)
				if a.emit(blk, "dup-siafund-input-same-txn/v1", "reject", nil, nil) {
					n++
				}
			}
			break
		}
	}
	n += a.dupV1Fresh("reject", true)
	// one parent listed twice by one v2 transaction; once for a parent held by the accumulator and once for a parent
	// created earlier in the block (an ephemeral parent is known to the block only through its MidState, so its
	// in-transaction bookkeeping is a separate code path)
	for _, eph := range []bool{false, true} {
		sfx := ""
		if eph {
			sfx = "-ephemeral-parent"
		}
		isEph := func(se types.StateElement) bool { return se.LeafIndex == types.UnassignedLeafIndex }
	scLoop:
		for ti := range a.Honest.V2Transactions() {
			for ii, in0 := range a.Honest.V2.Transactions[ti].SiacoinInputs {
				if isEph(in0.Parent.StateElement) != eph || in0.Parent.SiacoinOutput.Value.IsZero() {
					continue
				}
				blk := CloneBlock(a.Honest)
				x := &blk.V2.Transactions[ti]
				in := x.SiacoinInputs[ii]
				x.SiacoinInputs = append(x.SiacoinInputs, types.V2SiacoinInput{Parent: in.Parent.Copy(), SatisfiedPolicy: in.SatisfiedPolicy})
				x.SiacoinOutputs = append(x.SiacoinOutputs, types.SiacoinOutput{Value: in.Parent.SiacoinOutput.Value, Address: types.Address{9}})
				SignV2(a.CS, x, SignOpts{})
				if a.emit(blk, "dup-siacoin-input-same-txn/v2"+sfx, "reject", nil, nil) {
					n++
				}
				break scLoop
			}
		}
	sfLoop:
		for ti := range a.Honest.V2Transactions() {
			for ii, in0 := range a.Honest.V2.Transactions[ti].SiafundInputs {
				if isEph(in0.Parent.StateElement) != eph || in0.Parent.SiafundOutput.Value == 0 {
					continue
				}
				blk := CloneBlock(a.Honest)
				x := &blk.V2.Transactions[ti]
				in := x.SiafundInputs[ii]
				x.SiafundInputs = append(x.SiafundInputs, types.V2SiafundInput{Parent: in.Parent.Copy(), ClaimAddress: in.ClaimAddress, SatisfiedPolicy: in.SatisfiedPolicy})
				x.SiafundOutputs = append(x.SiafundOutputs, types.SiafundOutput{Value: in.Parent.SiafundOutput.Value, Address: types.Address{9}})
				SignV2(a.CS, x, SignOpts{})
				if a.emit(blk, "dup-siafund-input-same-txn/v2"+sfx, "reject", nil, nil) {
					n++
				}
				break sfLoop
			}
		}
	}
	// a contract revised by an earlier transaction of the block and resolved (or revised again) by a later one: the later
	// parent relabelled as created-in-block (unassigned leaf index, no proof). If that passed, the resolution would be
	// filed under a new leaf, the contract's real leaf would stay unresolved, and a later block could resolve it again.
	{
		revised := map[types.FileContractID]bool{}
		for ti, txn := range a.Honest.V2Transactions() {
			emitRelabelled := func(kind string, set func(x *types.V2Transaction)) {
				blk := CloneBlock(a.Honest)
				set(&blk.V2.Transactions[ti])
				SignV2(a.CS, &blk.V2.Transactions[ti], SignOpts{})
				if a.emit(blk, "second-use-of-in-block-revised-contract/"+kind+"-parent-relabelled-ephemeral", "reject", nil, nil) {
					n++
				}
			}
			for ri, r := range txn.FileContractRevisions {
				if revised[r.Parent.ID] {
					ri := ri
					emitRelabelled("revision", func(x *types.V2Transaction) {
						x.FileContractRevisions[ri].Parent.StateElement = types.StateElement{LeafIndex: types.UnassignedLeafIndex}
					})
				}
			}
			for ri, r := range txn.FileContractResolutions {
				if revised[r.Parent.ID] {
					ri := ri
					emitRelabelled("resolution", func(x *types.V2Transaction) {
						x.FileContractResolutions[ri].Parent.StateElement = types.StateElement{LeafIndex: types.UnassignedLeafIndex}
					})
				}
			}
			for _, r := range txn.FileContractRevisions {
				revised[r.Parent.ID] = true
			}
		}
	}
	// a whole transaction that spends something, listed a second time verbatim (same transaction ID; for v2 also with its
	// proofs and signatures, which the ID does not cover, left as they are)
	for ti, txn := range a.Honest.Transactions {
		if len(txn.SiacoinInputs)+len(txn.SiafundInputs) == 0 {
			continue
		}
		blk := CloneBlock(a.Honest)
		blk.Transactions = append(blk.Transactions, CloneBlock(a.Honest).Transactions[ti])
		if a.emit(blk, "repeat-transaction-verbatim/v1", "reject", nil, nil) {
			n++
		}
		break
	}
	for ti, txn := range a.Honest.V2Transactions() {
		if len(txn.SiacoinInputs)+len(txn.SiafundInputs) == 0 {
			continue
		}
		blk := CloneBlock(a.Honest)
		blk.V2.Transactions = append(blk.V2.Transactions, CloneBlock(a.Honest).V2.Transactions[ti])
		if a.emit(blk, "repeat-transaction-verbatim/v2", "reject", nil, nil) {
			n++
		}
		break
	}
	// an output created by an honest v2 transaction of this block, spent by an appended transaction as an ephemeral
	// parent: once (control: accepted; for siafunds only below the height from which ephemeral siafund spends are
	// refused) and listed twice by that one transaction (the second listing spends nothing new: rejected everywhere)
	if a.v2Allowed() {
		median := MedianTimestamp(a.CS)
		fixed := a.Child >= a.G.C.Net.HardforkV2.EphemeralOutputHeight
		doneSF, doneSC := false, false
		spentInBlock := map[types.Hash256]bool{} // outputs a later honest transaction of the block already spends
		for _, txn := range a.Honest.Transactions {
			for _, in := range txn.SiacoinInputs {
				spentInBlock[types.Hash256(in.ParentID)] = true
			}
			for _, in := range txn.SiafundInputs {
				spentInBlock[types.Hash256(in.ParentID)] = true
			}
		}
		for _, txn := range a.Honest.V2Transactions() {
			for _, in := range txn.SiacoinInputs {
				spentInBlock[types.Hash256(in.Parent.ID)] = true
			}
			for _, in := range txn.SiafundInputs {
				spentInBlock[types.Hash256(in.Parent.ID)] = true
			}
		}
		for ti := range a.Honest.V2Transactions() {
			orig := a.Honest.V2.Transactions[ti]
			txid := orig.ID()
			for oi, o := range orig.SiafundOutputs {
				lock, known := a.G.W.Locks[o.Address]
				if doneSF || !known || o.Value == 0 || o.Value > 1<<40 || !lock.Spendable(true, a.Child, median) || spentInBlock[types.Hash256(orig.SiafundOutputID(txid, oi))] {
					continue
				}
				sp, ok := Satisfy(lock.Policy, types.Hash256{}, a.CS.Index.Height, median)
				if !ok {
					continue
				}
				parent := orig.EphemeralSiafundOutput(oi)
				parent.ID = orig.SiafundOutputID(txid, oi)
				for _, times := range []int{1, 2} {
					txn := types.V2Transaction{SiafundOutputs: []types.SiafundOutput{{Value: uint64(times) * o.Value, Address: types.Address{0xE2}}}}
					for k := 0; k < times; k++ {
						txn.SiafundInputs = append(txn.SiafundInputs, types.V2SiafundInput{Parent: parent.Copy(), ClaimAddress: types.Address{0xE1}, SatisfiedPolicy: sp})
					}
					SignV2(a.CS, &txn, SignOpts{})
					blk := CloneBlock(a.Honest)
					blk.V2.Transactions = append(blk.V2.Transactions, txn)
					switch {
					case times == 2:
						if a.emit(blk, "dup-siafund-input-same-txn/v2-appended-ephemeral-parent", "reject", nil, nil) {
							n++
						}
					case !fixed:
						a.emit(blk, "fresh-single-spend/v2-appended-ephemeral-siafund-parent", "accept", nil, nil)
					}
				}
				doneSF = true
			}
			for oi, o := range orig.SiacoinOutputs {
				lock, known := a.G.W.Locks[o.Address]
				if doneSC || !known || o.Value.IsZero() || o.Value.Hi>>62 != 0 || !lock.Spendable(true, a.Child, median) || spentInBlock[types.Hash256(orig.SiacoinOutputID(txid, oi))] {
					continue
				}
				sp, ok := Satisfy(lock.Policy, types.Hash256{}, a.CS.Index.Height, median)
				if !ok {
					continue
				}
				parent := orig.EphemeralSiacoinOutput(oi)
				parent.ID = orig.SiacoinOutputID(txid, oi)
				for _, times := range []int{1, 2} {
					total := o.Value
					if times == 2 {
						total = o.Value.Add(o.Value)
					}
					txn := types.V2Transaction{SiacoinOutputs: []types.SiacoinOutput{{Value: total, Address: types.Address{0xE3}}}}
					for k := 0; k < times; k++ {
						txn.SiacoinInputs = append(txn.SiacoinInputs, types.V2SiacoinInput{Parent: parent.Copy(), SatisfiedPolicy: sp})
					}
					SignV2(a.CS, &txn, SignOpts{})
					blk := CloneBlock(a.Honest)
					blk.V2.Transactions = append(blk.V2.Transactions, txn)
					if times == 2 {
						if a.emit(blk, "dup-siacoin-input-same-txn/v2-appended-ephemeral-parent", "reject", nil, nil) {
							n++
						}
					} else {
						a.emit(blk, "fresh-single-spend/v2-appended-ephemeral-siacoin-parent", "accept", nil, nil)
					}
				}
				doneSC = true
			}
		}
	}
	for ti := range a.Honest.V2Transactions() {
		txn := a.Honest.V2.Transactions[ti]
		if len(txn.FileContractRevisions) > 0 {
			blk := CloneBlock(a.Honest)
			x := &blk.V2.Transactions[ti]
			r := x.FileContractRevisions[0]
			r2 := types.V2FileContractRevision{Parent: r.Parent.Copy(), Revision: r.Revision}
			r2.Revision.RevisionNumber++
			x.FileContractRevisions = append(x.FileContractRevisions, r2)
			SignV2(a.CS, x, SignOpts{})
			if a.emit(blk, "dup-revision-same-txn/v2", "reject", nil, nil) {
				n++
			}
			break
		}
	}
	for ti := range a.Honest.V2Transactions() {
		txn := a.Honest.V2.Transactions[ti]
		if len(txn.FileContractResolutions) > 0 {
			if _, isRenewal := txn.FileContractResolutions[0].Resolution.(*types.V2FileContractRenewal); isRenewal {
				continue
			}
			blk := CloneBlock(a.Honest)
			x := &blk.V2.Transactions[ti]
			c := CloneV2(types.V2Transaction{FileContractResolutions: x.FileContractResolutions[:1]})
			x.FileContractResolutions = append(x.FileContractResolutions, c.FileContractResolutions[0])
			SignV2(a.CS, x, SignOpts{})
			if a.emit(blk, "dup-resolution-same-txn/v2", "reject", nil, nil) {
				n++
			}
			break
		}
	}
	for ti := range a.Honest.Transactions {
		txn := a.Honest.Transactions[ti]
		if len(txn.StorageProofs) > 0 {
			// same proof again in a second transaction of the block
			blk := CloneBlock(a.Honest)
			blk.Transactions = append(blk.Transactions, CloneV1(types.Transaction{StorageProofs: txn.StorageProofs[:1]}))
			if a.emit(blk, "second-proof-other-txn/v1", "reject", nil, nil) {
				n++
			}
			// and inside the same transaction
			blk2 := CloneBlock(a.Honest)
			blk2.Transactions[ti].StorageProofs = append(blk2.Transactions[ti].StorageProofs, CloneV1(types.Transaction{StorageProofs: txn.StorageProofs[:1]}).StorageProofs[0])
			if a.emit(blk2, "dup-proof-same-txn/v1", "reject", nil, nil) {
				n++
			}
			break
		}
	}
	for ti := range a.Honest.Transactions {
		txn := a.Honest.Transactions[ti]
		if len(txn.FileContractRevisions) > 0 {
			blk := CloneBlock(a.Honest)
			x := &blk.Transactions[ti]
			r := CloneV1(types.Transaction{FileContractRevisions: x.FileContractRevisions[:1]}).FileContractRevisions[0]
			if r.RevisionNumber < types.MaxRevisionNumber {
				r.RevisionNumber++
				x.FileContractRevisions = append(x.FileContractRevisions, r)
				SignV1(a.CS, x, false)
				if a.emit(blk, "dup-revision-same-txn/v1", "reject", nil, nil) {
					n++
				}
			}
			break
		}
	}

	// ---- (2) second use in another transaction of the same block, every version pairing
	type use struct {
		el    types.SiacoinElement
		first string
		eph   bool
	}
	var uses []use
	for _, txn := range a.Honest.Transactions {
		for _, in := range txn.SiacoinInputs {
			if p, ok := a.parentOfV1(a.Honest, in.ParentID); ok {
				uses = append(uses, use{p, "v1", p.StateElement.LeafIndex == types.UnassignedLeafIndex})
			}
		}
	}
	for _, txn := range a.Honest.V2Transactions() {
		for _, in := range txn.SiacoinInputs {
			uses = append(uses, use{in.Parent.Copy(), "v2", in.Parent.StateElement.LeafIndex == types.UnassignedLeafIndex})
		}
	}
	if len(uses) > 0 {
		u := uses[pick("secondUse", len(uses))]
		lock, known := world.Locks[u.el.SiacoinOutput.Address]
		if known {
			kind := "live"
			if u.eph {
				kind = "created-in-block"
			}
			if txn, ok := a.payV2(u.el, lock); ok {
				if blk, ok := a.withV2(CloneBlock(a.Honest), txn); ok {
					if a.emit(blk, fmt.Sprintf("second-spend-other-txn/%s+v2/%s", u.first, kind), "reject", nil, nil) {
						n++
					}
				}
			}
			if u.first == "v1" || !u.eph { // a v1 transaction cannot see outputs of v2 transactions
				if txn, ok := a.payV1(u.el.ID, u.el.SiacoinOutput.Value, lock); ok {
					if blk, ok := a.withV1(CloneBlock(a.Honest), txn); ok {
						if a.emit(blk, fmt.Sprintf("second-spend-other-txn/%s+v1/%s", u.first, kind), "reject", nil, nil) {
							n++
						}
					}
				}
			}
		}
	}
	// two fresh transactions both spending one live element (both orders of versions)
	live := a.G.C.Store.SortedSC()
	if len(live) > 0 {
		e := live[pick("freshDouble", len(live))]
		lock, known := world.Locks[e.SiacoinOutput.Address]
		if known && e.MaturityHeight <= a.Child {
			t2a, ok2 := a.payV2(e, lock)
			t1a, ok1 := a.payV1(e.ID, e.SiacoinOutput.Value, lock)
			empty := types.Block{Timestamp: a.Honest.Timestamp, MinerPayouts: a.Honest.MinerPayouts}
			if ok2 {
				t2b := CloneV2(t2a)
				t2b.SiacoinOutputs[0].Address = types.Address{7}
				SignV2(a.CS, &t2b, SignOpts{})
				blk, _ := a.withV2(CloneBlock(empty), t2a)
				if blk, ok := a.withV2(blk, t2b); ok {
					if a.emit(blk, "fresh-double-spend/v2+v2", "reject", nil, nil) {
						n++
					}
				}
				// control: a single spend is fine (guards against a vacuous operator)
				if blk, ok := a.withV2(CloneBlock(empty), t2a); ok {
					a.emit(blk, "fresh-single-spend/v2", "accept", nil, nil)
				}
			}
			if ok1 {
				t1b := CloneV1(t1a)
				t1b.SiacoinOutputs[0].Address = types.Address{7}
				SignV1(a.CS, &t1b, false)
				blk, _ := a.withV1(CloneBlock(empty), t1a)
				if blk, ok := a.withV1(blk, t1b); ok {
					if a.emit(blk, "fresh-double-spend/v1+v1", "reject", nil, nil) {
						n++
					}
				}
				if blk, ok := a.withV1(CloneBlock(empty), t1a); ok {
					a.emit(blk, "fresh-single-spend/v1", "accept", nil, nil)
				}
			}
			if ok1 && ok2 {
				blk, okA := a.withV1(CloneBlock(empty), t1a)
				if okA {
					if blk, ok := a.withV2(blk, t2a); ok {
						if a.emit(blk, "fresh-double-spend/v1+v2", "reject", nil, nil) {
							n++
						}
					}
				}
			}
		}
	}

	// ---- (3) cross-block: an element spent in an earlier block is presented again with its maintained proof
	var spent []types.SiacoinElement
	for _, e := range a.G.C.Store.SpentSC {
		if e.StateElement.LeafIndex != types.UnassignedLeafIndex {
			spent = append(spent, e)
		}
	}
	sort.Slice(spent, func(i, j int) bool { return spent[i].StateElement.LeafIndex < spent[j].StateElement.LeafIndex })
	if len(spent) > 0 {
		e := spent[pick("respend", len(spent))]
		if lock, known := world.Locks[e.SiacoinOutput.Address]; known {
			if txn, ok := a.payV2(e, lock); ok {
				if blk, ok := a.withV2(CloneBlock(a.Honest), txn); ok {
					if a.emit(blk, "respend-spent-element/v2-maintained-proof", "reject", nil, nil) {
						n++
					}
				}
			}
			// the spent element presented by a v2 input as a parent created earlier in this block (unassigned leaf index, no
			// proof): nothing in the block created it. Appended to the honest block, and in a block of its own behind one
			// honest transaction that creates siacoin elements without spending any (a siafund transfer with its claim, a
			// contract resolution, a bare storage proof), so that the block's first recorded siacoin element is a created one
			if a.v2Allowed() {
				if txn, ok := a.payV2(e, lock); ok {
					txn.SiacoinInputs[0].Parent.StateElement = types.StateElement{LeafIndex: types.UnassignedLeafIndex}
					SignV2(a.CS, &txn, SignOpts{})
					if blk, ok := a.withV2(CloneBlock(a.Honest), txn); ok {
						if a.emit(blk, "respend-spent-element/v2-as-ephemeral-parent", "reject", nil, nil) {
							n++
						}
					}
					for _, h := range a.Honest.V2Transactions() {
						if len(h.SiacoinInputs) == 0 && (len(h.SiafundInputs) > 0 || len(h.FileContractResolutions) > 0) {
							blk := types.Block{Timestamp: a.Honest.Timestamp, MinerPayouts: []types.SiacoinOutput{{Address: types.Address{0xAA}}},
								V2: &types.V2BlockData{Transactions: []types.V2Transaction{CloneV2(h), txn}}}
							if a.emit(blk, "respend-spent-element/v2-as-ephemeral-parent-after-a-creating-transaction", "reject", nil, nil) {
								n++
							}
							break
						}
					}
					if a.v1Allowed() {
						for ti, h := range a.Honest.Transactions {
							if len(h.SiacoinInputs) == 0 && (len(h.SiafundInputs) > 0 || len(h.StorageProofs) > 0) {
								blk := types.Block{Timestamp: a.Honest.Timestamp, MinerPayouts: []types.SiacoinOutput{{Address: types.Address{0xAA}}},
									Transactions: []types.Transaction{CloneV1(h)}, V2: &types.V2BlockData{Transactions: []types.V2Transaction{txn}}}
								honestSupp := a.G.C.Store.Supplement(a.Honest, a.Child, a.G.C.Net.HardforkV2.RequireHeight)
								if ti < len(honestSupp.Transactions) {
									ts := honestSupp.Transactions[ti]
									if a.emit(blk, "respend-spent-element/v2-as-ephemeral-parent-after-a-creating-transaction", "reject", nil, func(bs *consensus.V1BlockSupplement) {
										bs.Transactions = []consensus.V1TransactionSupplement{ts}
									}) {
										n++
									}
								}
								break
							}
						}
					}
				}
			}
			if txn, ok := a.payV1(e.ID, e.SiacoinOutput.Value, lock); ok {
				if blk, ok := a.withV1(CloneBlock(a.Honest), txn); ok {
					idx := len(blk.Transactions) - 1
					el := e.Copy()
					if a.emit(blk, "respend-spent-element/v1-supplement", "reject", nil, func(bs *consensus.V1BlockSupplement) {
						bs.Transactions[idx].SiacoinInputs = append(bs.Transactions[idx].SiacoinInputs, el)
					}) {
						n++
					}
					// the same spent element relabelled as an in-block ("ephemeral") one: unassigned leaf index, with its
					// maintained proof or none. Nothing in this block created it, so it must be refused all the same.
					for _, variant := range []string{"unassigned-leaf-index", "unassigned-leaf-index-no-proof"} {
						el2 := e.Copy()
						el2.StateElement.LeafIndex = types.UnassignedLeafIndex
						if variant == "unassigned-leaf-index-no-proof" {
							el2.StateElement.MerkleProof = nil
						}
						if a.emit(CloneBlock(blk), "respend-spent-element/v1-supplement-"+variant, "reject", nil, func(bs *consensus.V1BlockSupplement) {
							bs.Transactions[idx].SiacoinInputs = append(bs.Transactions[idx].SiacoinInputs, el2)
						}) {
							n++
						}
					}
				}
			}
		}
	}
	var spentSF []types.SiafundElement
	for _, e := range a.G.C.Store.SpentSF {
		if e.StateElement.LeafIndex != types.UnassignedLeafIndex {
			spentSF = append(spentSF, e)
		}
	}
	sort.Slice(spentSF, func(i, j int) bool { return spentSF[i].StateElement.LeafIndex < spentSF[j].StateElement.LeafIndex })
	if len(spentSF) > 0 && a.v2Allowed() {
		e := spentSF[pick("respendSF", len(spentSF))]
		if lock, known := world.Locks[e.SiafundOutput.Address]; known && lock.Spendable(true, a.Child, MedianTimestamp(a.CS)) {
			sp, _ := Satisfy(lock.Policy, types.Hash256{}, a.CS.Index.Height, MedianTimestamp(a.CS))
			txn := types.V2Transaction{
				SiafundInputs:  []types.V2SiafundInput{{Parent: e.Copy(), ClaimAddress: types.Address{3}, SatisfiedPolicy: sp}},
				SiafundOutputs: []types.SiafundOutput{{Value: e.SiafundOutput.Value, Address: types.Address{4}}},
			}
			SignV2(a.CS, &txn, SignOpts{})
			if blk, ok := a.withV2(CloneBlock(a.Honest), txn); ok {
				if a.emit(blk, "respend-spent-siafund/v2-maintained-proof", "reject", nil, nil) {
					n++
				}
			}
		}
	}

	// ---- (4) contracts: any use after resolution
	var resolved []types.V2FileContractElement
	for _, e := range a.G.C.Store.ResolvedV2FC {
		resolved = append(resolved, e)
	}
	sort.Slice(resolved, func(i, j int) bool { return resolved[i].StateElement.LeafIndex < resolved[j].StateElement.LeafIndex })
	if len(resolved) > 0 && a.v2Allowed() {
		e := resolved[pick("reuseV2FC", len(resolved))]
		fc := e.V2FileContract
		// expire again
		if a.Child > fc.ExpirationHeight {
			txn := types.V2Transaction{FileContractResolutions: []types.V2FileContractResolution{{Parent: e.Copy(), Resolution: &types.V2FileContractExpiration{}}}}
			if blk, ok := a.withV2(CloneBlock(a.Honest), txn); ok {
				if a.emit(blk, "resolve-after-resolve/v2-expire", "reject", nil, nil) {
					n++
				}
			}
		}
		// revise after resolve
		if fc.ProofHeight >= a.Child && fc.RevisionNumber < types.MaxRevisionNumber {
			rev := fc
			rev.RevisionNumber++
			txn := types.V2Transaction{FileContractRevisions: []types.V2FileContractRevision{{Parent: e.Copy(), Revision: rev}}}
			SignV2(a.CS, &txn, SignOpts{})
			if blk, ok := a.withV2(CloneBlock(a.Honest), txn); ok {
				if a.emit(blk, "revise-after-resolve/v2", "reject", nil, nil) {
					n++
				}
			}
		}
		// renew after resolve: final outputs equal the old ones, new contract funded by nothing => rollover 0 and zero-cost impossible;
		// use a renewal whose new contract is paid by an extra input is more involved, so the proof route is used instead
		if a.Child >= fc.ProofHeight+1 && fc.Filesize > 0 {
			bb := NewBuilder(t, a.G.C, world)
			if res, ok := bb.V2ProofFor(e); ok {
				txn := types.V2Transaction{FileContractResolutions: []types.V2FileContractResolution{res}}
				if blk, ok := a.withV2(CloneBlock(a.Honest), txn); ok {
					if a.emit(blk, "resolve-after-resolve/v2-proof", "reject", nil, nil) {
						n++
					}
				}
			}
		}
	}
	// same block: second resolution / revision of a contract the honest block resolves
	for _, txn := range a.Honest.V2Transactions() {
		if len(txn.FileContractResolutions) == 0 {
			continue
		}
		res := txn.FileContractResolutions[0]
		fc := res.Parent.V2FileContract
		if a.Child > fc.ExpirationHeight {
			x := types.V2Transaction{FileContractResolutions: []types.V2FileContractResolution{{Parent: res.Parent.Copy(), Resolution: &types.V2FileContractExpiration{}}}}
			if blk, ok := a.withV2(CloneBlock(a.Honest), x); ok {
				if a.emit(blk, "second-resolution-other-txn/v2", "reject", nil, nil) {
					n++
				}
			}
		}
		if fc.ProofHeight >= a.Child && fc.RevisionNumber < types.MaxRevisionNumber-10 {
			rev := fc
			rev.RevisionNumber += 5
			x := types.V2Transaction{FileContractRevisions: []types.V2FileContractRevision{{Parent: res.Parent.Copy(), Revision: rev}}}
			SignV2(a.CS, &x, SignOpts{})
			if blk, ok := a.withV2(CloneBlock(a.Honest), x); ok {
				if a.emit(blk, "revise-after-resolve-same-block/v2", "reject", nil, nil) {
					n++
				}
			}
		}
		// a second renewal of the same contract, funded entirely by rollover (no inputs needed)
		if !fc.RenterOutput.Value.IsZero() {
			nc := types.V2FileContract{ProofHeight: a.Child + 3, ExpirationHeight: a.Child + 6, HostOutput: types.SiacoinOutput{Value: types.NewCurrency64(1), Address: fc.HostOutput.Address},
				RenterPublicKey: fc.RenterPublicKey, HostPublicKey: fc.HostPublicKey}
			ren := &types.V2FileContractRenewal{
				FinalRenterOutput: types.SiacoinOutput{Value: fc.RenterOutput.Value.Sub(types.NewCurrency64(1)), Address: fc.RenterOutput.Address},
				FinalHostOutput:   fc.HostOutput, RenterRollover: types.NewCurrency64(1), NewContract: nc}
			x := types.V2Transaction{FileContractResolutions: []types.V2FileContractResolution{{Parent: res.Parent.Copy(), Resolution: ren}}}
			SignV2(a.CS, &x, SignOpts{})
			if blk, ok := a.withV2(CloneBlock(a.Honest), x); ok {
				if a.emit(blk, "second-resolution-other-txn/v2-renewal", "reject", nil, nil) {
					n++
				}
			}
		}
		break
	}
	// v1 contracts resolved earlier: prove / revise again with the element re-supplied in the supplement
	var resolvedV1 []types.FileContractElement
	for _, e := range a.G.C.Store.ResolvedFC {
		if e.StateElement.LeafIndex != types.UnassignedLeafIndex {
			resolvedV1 = append(resolvedV1, e)
		}
	}
	sort.Slice(resolvedV1, func(i, j int) bool {
		return resolvedV1[i].StateElement.LeafIndex < resolvedV1[j].StateElement.LeafIndex
	})
	if len(resolvedV1) > 0 && a.v1Allowed() {
		e := resolvedV1[pick("reuseFC", len(resolvedV1))]
		fc := e.FileContract
		if lock, known := world.Locks[fc.UnlockHash]; known && lock.UC != nil && fc.WindowStart >= a.Child && fc.RevisionNumber < types.MaxRevisionNumber {
			rev := fc
			rev.RevisionNumber++
			txn := types.Transaction{FileContractRevisions: []types.FileContractRevision{{ParentID: e.ID, UnlockConditions: *lock.UC, FileContract: rev}}}
			SignV1(a.CS, &txn, false)
			if blk, ok := a.withV1(CloneBlock(a.Honest), txn); ok {
				idx := len(blk.Transactions) - 1
				el := copyFC(e)
				if a.emit(blk, "revise-after-resolve/v1-supplement", "reject", nil, func(bs *consensus.V1BlockSupplement) {
					bs.Transactions[idx].RevisedFileContracts = append(bs.Transactions[idx].RevisedFileContracts, el)
				}) {
					n++
				}
			}
		}
		// ... or listed once more among the contracts that expire in this block: in the honest block as it is, and in a
		// block of the v2 format that carries no v1 transaction at all (the supplement is the same kind of object there)
		{
			el := copyFC(e)
			relist := func(bs *consensus.V1BlockSupplement) {
				bs.ExpiringFileContracts = append(bs.ExpiringFileContracts, el)
			}
			if a.emit(CloneBlock(a.Honest), "expire-after-resolve/v1-supplement", "reject", nil, relist) {
				n++
			}
			bare := types.Block{Timestamp: a.Honest.Timestamp, MinerPayouts: []types.SiacoinOutput{{Address: types.Address{0xAA}}}, V2: &types.V2BlockData{}}
			if a.emit(bare, "expire-after-resolve/v1-supplement/v2-format-block-without-v1-transactions", "reject", nil, relist) {
				n++
			}
		}
		if fc.WindowStart >= 1 && fc.WindowStart <= a.Child && fc.WindowStart-1 < uint64(len(a.G.C.Store.CI)) {
			bb := NewBuilder(t, a.G.C, world)
			wid := a.G.C.Store.CI[fc.WindowStart-1].ChainIndex.ID
			if txn, ok := bb.V1ProofFor(e, wid); ok {
				if blk, ok := a.withV1(CloneBlock(a.Honest), txn); ok {
					idx := len(blk.Transactions) - 1
					el := copyFC(e)
					if a.emit(blk, "prove-after-resolve/v1-supplement", "reject", nil, func(bs *consensus.V1BlockSupplement) {
						bs.Transactions[idx].StorageProofs = append(bs.Transactions[idx].StorageProofs, consensus.V1StorageProofSupplement{FileContract: el, WindowID: wid})
					}) {
						n++
					}
				}
			}
		}
	}
	return n
}

// KindConfusionProbes builds blocks in which a v1 parent ID names an element of ANOTHER kind
// touched earlier in the same block (a siacoin input whose ParentID is the ID of a file contract
// formed by the previous transaction, ...). Rejection is not presumed: the probes carry
// want="sound" and are judged by the accepted=>sound oracle.
func (a *Adv) KindConfusionProbes() int {
	if !a.v1Allowed() || a.Child == 0 {
		return 0
	}
	n := 0
	t := a.G.T
	// pick a live, mature, v1-spendable element I
	var cands []types.SiacoinElement
	for _, e := range a.G.C.Store.SortedSC() {
		l, ok := a.G.W.Locks[e.SiacoinOutput.Address]
		if ok && l.UC != nil && l.Spendable(false, a.Child, MedianTimestamp(a.CS)) && e.MaturityHeight <= a.Child && e.SiacoinOutput.Value.Cmp(types.Siacoins(10)) > 0 {
			cands = append(cands, e)
		}
	}
	if len(cands) == 0 {
		return 0
	}
	I := cands[rapid.IntRange(0, len(cands)-1).Draw(t, "confI")]
	lock := a.G.W.Locks[I.SiacoinOutput.Address]
	bb := NewBuilder(t, a.G.C, a.G.W)
	// T1: spend I, form a small contract, change back to I's own address
	payout := types.Siacoins(1)
	fc := types.FileContract{WindowStart: a.Child + 2, WindowEnd: a.Child + 4, Payout: payout, UnlockHash: lock.Address()}
	tax := a.CS.FileContractTax(fc)
	valid := payout.Sub(tax)
	fc.ValidProofOutputs = []types.SiacoinOutput{{Value: valid, Address: lock.Address()}}
	fc.MissedProofOutputs = []types.SiacoinOutput{{Value: valid, Address: lock.Address()}}
	t1 := types.Transaction{
		SiacoinInputs:  []types.SiacoinInput{{ParentID: I.ID, UnlockConditions: *lock.UC}},
		FileContracts:  []types.FileContract{fc},
		SiacoinOutputs: []types.SiacoinOutput{{Value: I.SiacoinOutput.Value.Sub(payout), Address: lock.Address()}},
	}
	SignV1(a.CS, &t1, false)
	X := t1.FileContractID(0)
	// T2: "spends" the element whose slice index equals the contract's slice index (0): that is I again
	t2 := types.Transaction{
		SiacoinInputs:  []types.SiacoinInput{{ParentID: types.SiacoinOutputID(X), UnlockConditions: *lock.UC}},
		SiacoinOutputs: []types.SiacoinOutput{{Value: I.SiacoinOutput.Value, Address: types.Address{0xEE}}},
	}
	SignV1(a.CS, &t2, false)
	blk := types.Block{Timestamp: a.Honest.Timestamp, MinerPayouts: a.Honest.MinerPayouts, Transactions: []types.Transaction{t1, t2}}
	if a.v2Allowed() {
		blk.V2 = &types.V2BlockData{}
	}
	if a.emit(blk, "kind-confusion/siacoin-parent-id-is-contract-id", "sound", nil, nil) {
		n++
	}
	// T2': a revision whose ParentID is the ID of the siacoin output created by T1 (index 1 of the siacoin diffs);
	// with only one contract in the block the index is out of range unless more contracts exist, so form two.
	t1b := CloneV1(t1)
	t1b.FileContracts = append(t1b.FileContracts, fc)
	t1b.FileContracts[1].RevisionNumber = 1
	t1b.SiacoinOutputs[0].Value = I.SiacoinOutput.Value.Sub(payout).Sub(payout)
	SignV1(a.CS, &t1b, false)
	rev := fc
	rev.RevisionNumber = 5
	t3 := types.Transaction{FileContractRevisions: []types.FileContractRevision{{ParentID: types.FileContractID(t1b.SiacoinOutputID(0)), UnlockConditions: *lock.UC, FileContract: rev}}}
	SignV1(a.CS, &t3, false)
	blk2 := types.Block{Timestamp: a.Honest.Timestamp, MinerPayouts: a.Honest.MinerPayouts, Transactions: []types.Transaction{t1b, t3}}
	if a.v2Allowed() {
		blk2.V2 = &types.V2BlockData{}
	}
	if a.emit(blk2, "kind-confusion/revision-parent-id-is-siacoin-output-id", "sound", nil, nil) {
		n++
	}
	_ = bb
	return n
}

// ClonePolicy deep-copies a spend policy (sub-policy slices, unlock keys and key bytes).
func ClonePolicy(p types.SpendPolicy) types.SpendPolicy {
	switch t := p.Type.(type) {
	case types.PolicyTypeThreshold:
		of := make([]types.SpendPolicy, len(t.Of))
		for i := range t.Of {
			of[i] = ClonePolicy(t.Of[i])
		}
		if t.Of == nil {
			of = nil
		}
		return types.SpendPolicy{Type: types.PolicyTypeThreshold{N: t.N, Of: of}}
	case types.PolicyTypeUnlockConditions:
		uc := types.UnlockConditions(t)
		keys := make([]types.UnlockKey, len(uc.PublicKeys))
		for i, k := range uc.PublicKeys {
			keys[i] = types.UnlockKey{Algorithm: k.Algorithm, Key: append([]byte(nil), k.Key...)}
		}
		if uc.PublicKeys == nil {
			keys = nil
		}
		uc.PublicKeys = keys
		return types.SpendPolicy{Type: types.PolicyTypeUnlockConditions(uc)}
	}
	return p
}

func cloneUC(uc types.UnlockConditions) types.UnlockConditions {
	keys := make([]types.UnlockKey, len(uc.PublicKeys))
	for i, k := range uc.PublicKeys {
		keys[i] = types.UnlockKey{Algorithm: k.Algorithm, Key: append([]byte(nil), k.Key...)}
	}
	if uc.PublicKeys == nil {
		keys = nil
	}
	uc.PublicKeys = keys
	return uc
}

// InflationProbes records, for the transactions of the honest block, siblings whose outputs were padded with pairs of
// values that cancel in wrapping arithmetic (2 x 2^63 siafunds in 64 bits, 2 x 2^127 hastings in 128 bits, a fee and
// an output of 2^127 each), honestly re-signed and re-sealed. Their sums equal the honest sums modulo the word size,
// so only the overflow guards of validation stand between such a block and the creation of value. They are judged by
// the accepted => sound oracle (conservation, siafund count), not by a presumed rejection.
func (a *Adv) InflationProbes() int { return a.inflationProbes("sound") }

// WrapProbes offers the same siblings with the expectation `want` of the caller's probe hook (C10: "total" - no entry
// point may panic on them, and what is accepted must be sound).
func (a *Adv) WrapProbes(want string) int { return a.inflationProbes(want) }

func (a *Adv) inflationProbes(want string) int {
	n := a.dupV1Fresh(want, false)
	n += a.renewalStripped(want)
	half128 := types.Currency{Hi: 1 << 63}
	emit := func(blk types.Block, label string) {
		if a.emit(blk, label, want, nil, nil) {
			n++
		}
	}
	// two siafund outputs created by an honest v2 transaction of this block, spent together by an appended transaction as
	// ephemeral parents whose claimed values are huge and wrap, in 64-bit arithmetic, onto the genuine total (2^63 and
	// 2^63 + total): the in/out balance looks right to wrapping arithmetic, the claim computation overflows
	if a.v2Allowed() {
		median := MedianTimestamp(a.CS)
	wrapSF:
		for ti := range a.Honest.V2Transactions() {
			orig := a.Honest.V2.Transactions[ti]
			if len(orig.SiafundOutputs) < 2 {
				continue
			}
			txid := orig.ID()
			var ins []types.V2SiafundInput
			total := uint64(0)
			for oi := 0; oi < 2; oi++ {
				o := orig.SiafundOutputs[oi]
				lock, known := a.G.W.Locks[o.Address]
				if !known || o.Value == 0 || !lock.Spendable(true, a.Child, median) {
					continue wrapSF
				}
				sp, ok := Satisfy(lock.Policy, types.Hash256{}, a.CS.Index.Height, median)
				if !ok {
					continue wrapSF
				}
				parent := orig.EphemeralSiafundOutput(oi)
				parent.ID = orig.SiafundOutputID(txid, oi)
				total += o.Value
				ins = append(ins, types.V2SiafundInput{Parent: parent, ClaimAddress: types.Address{0xD5}, SatisfiedPolicy: sp})
			}
			ins[0].Parent.SiafundOutput.Value = 1 << 63
			ins[1].Parent.SiafundOutput.Value = 1<<63 + total
			txn := types.V2Transaction{SiafundInputs: ins, SiafundOutputs: []types.SiafundOutput{{Value: total, Address: types.Address{0xD6}}}}
			SignV2(a.CS, &txn, SignOpts{})
			blk := CloneBlock(a.Honest)
			blk.V2.Transactions = append(blk.V2.Transactions, txn)
			emit(blk, "wrap/v2-ephemeral-siafund-parents-2^63+2^63")
			break
		}
		// the same behind a splitting transaction of the probe's own making, when the store holds a spendable siafund
		// element the honest block leaves alone
		spentHere := map[types.SiafundOutputID]bool{}
		for _, t := range a.Honest.Transactions {
			for _, in := range t.SiafundInputs {
				spentHere[in.ParentID] = true
			}
		}
		for _, t := range a.Honest.V2Transactions() {
			for _, in := range t.SiafundInputs {
				spentHere[in.Parent.ID] = true
			}
		}
		pk := MakeLock(LockSpec{Kind: NumV1Kinds, K1: 1})
		psp, okp := Satisfy(pk.Policy, types.Hash256{}, a.CS.Index.Height, median)
		for _, e := range a.G.C.Store.SortedSF() {
			lock, known := a.G.W.Locks[e.SiafundOutput.Address]
			if spentHere[e.ID] || !known || !okp || e.SiafundOutput.Value < 2 || !lock.Spendable(true, a.Child, median) {
				continue
			}
			sp, ok := Satisfy(lock.Policy, types.Hash256{}, a.CS.Index.Height, median)
			if !ok {
				continue
			}
			v := e.SiafundOutput.Value
			t1 := types.V2Transaction{
				SiafundInputs:  []types.V2SiafundInput{{Parent: e.Copy(), ClaimAddress: types.Address{0xD7}, SatisfiedPolicy: sp}},
				SiafundOutputs: []types.SiafundOutput{{Value: v / 2, Address: pk.Address()}, {Value: v - v/2, Address: pk.Address()}},
			}
			SignV2(a.CS, &t1, SignOpts{})
			id1 := t1.ID()
			p0, p1 := t1.EphemeralSiafundOutput(0), t1.EphemeralSiafundOutput(1)
			p0.ID, p1.ID = t1.SiafundOutputID(id1, 0), t1.SiafundOutputID(id1, 1)
			p0.SiafundOutput.Value, p1.SiafundOutput.Value = 1<<63, 1<<63+v
			t2 := types.V2Transaction{
				SiafundInputs: []types.V2SiafundInput{{Parent: p0, ClaimAddress: types.Address{0xD8}, SatisfiedPolicy: psp},
					{Parent: p1, ClaimAddress: types.Address{0xD8}, SatisfiedPolicy: psp}},
				SiafundOutputs: []types.SiafundOutput{{Value: v, Address: types.Address{0xD9}}},
			}
			SignV2(a.CS, &t2, SignOpts{})
			blk := CloneBlock(a.Honest)
			if blk.V2 == nil {
				blk.V2 = &types.V2BlockData{}
			}
			blk.V2.Transactions = append(blk.V2.Transactions, t1, t2)
			emit(blk, "wrap/v2-ephemeral-siafund-parents-2^63+2^63-after-own-split")
			break
		}
	}
	for ti := range a.Honest.Transactions {
		orig := a.Honest.Transactions[ti]
		partial := len(orig.Signatures) > 0 && !orig.Signatures[0].CoveredFields.WholeTransaction
		if len(orig.SiafundInputs) > 0 {
			blk := CloneBlock(a.Honest)
			x := &blk.Transactions[ti]
			x.SiafundOutputs = append(x.SiafundOutputs, types.SiafundOutput{Value: 1 << 63, Address: types.Address{0xC1}}, types.SiafundOutput{Value: 1 << 63, Address: types.Address{0xC2}})
			SignV1(a.CS, x, partial)
			emit(blk, "wrap/v1-siafund-outputs-2x2^63")
		}
		if len(orig.SiacoinInputs) > 0 {
			blk := CloneBlock(a.Honest)
			x := &blk.Transactions[ti]
			x.SiacoinOutputs = append(x.SiacoinOutputs, types.SiacoinOutput{Value: half128, Address: types.Address{0xC3}}, types.SiacoinOutput{Value: half128, Address: types.Address{0xC4}})
			SignV1(a.CS, x, partial)
			emit(blk, "wrap/v1-siacoin-outputs-2x2^127")
			blk = CloneBlock(a.Honest)
			x = &blk.Transactions[ti]
			x.SiacoinOutputs = append(x.SiacoinOutputs, types.SiacoinOutput{Value: half128, Address: types.Address{0xC5}})
			x.MinerFees = append(x.MinerFees, half128)
			SignV1(a.CS, x, partial)
			emit(blk, "wrap/v1-output+fee-2^127")
		}
		break
	}
	// From EphemeralOutputHeight on, a parent created earlier in the block is compared with what the block created
	// (siacoins) or may not be spent at all (siafunds). A later transaction of the block that spends such an output
	// while claiming twice its value is appended to the honest block; below that height the claimed value is not
	// compared (documented legacy window, outside the claim), so the probe is only recorded from that height on.
	if a.v2Allowed() && a.Child >= a.G.C.Net.HardforkV2.EphemeralOutputHeight {
		median := MedianTimestamp(a.CS)
		done := map[string]bool{}
		for ti := range a.Honest.V2Transactions() {
			orig := a.Honest.V2.Transactions[ti]
			txid := orig.ID()
			for oi, o := range orig.SiafundOutputs {
				lock, known := a.G.W.Locks[o.Address]
				if done["sf"] || !known || o.Value == 0 || o.Value > 1<<40 || !lock.Spendable(true, a.Child, median) {
					continue
				}
				sp, ok := Satisfy(lock.Policy, types.Hash256{}, a.CS.Index.Height, median)
				if !ok {
					continue
				}
				parent := orig.EphemeralSiafundOutput(oi)
				parent.ID = orig.SiafundOutputID(txid, oi)
				parent.SiafundOutput.Value = 2 * o.Value
				txn := types.V2Transaction{
					SiafundInputs:  []types.V2SiafundInput{{Parent: parent, ClaimAddress: types.Address{0xD1}, SatisfiedPolicy: sp}},
					SiafundOutputs: []types.SiafundOutput{{Value: 2 * o.Value, Address: types.Address{0xD2}}},
				}
				SignV2(a.CS, &txn, SignOpts{})
				blk := CloneBlock(a.Honest)
				blk.V2.Transactions = append(blk.V2.Transactions, txn)
				emit(blk, "ephemeral/v2-siafund-parent-value-doubled")
				done["sf"] = true
			}
			for oi, o := range orig.SiacoinOutputs {
				lock, known := a.G.W.Locks[o.Address]
				if done["sc"] || !known || o.Value.IsZero() || o.Value.Hi != 0 || !lock.Spendable(true, a.Child, median) {
					continue
				}
				sp, ok := Satisfy(lock.Policy, types.Hash256{}, a.CS.Index.Height, median)
				if !ok {
					continue
				}
				parent := orig.EphemeralSiacoinOutput(oi)
				parent.ID = orig.SiacoinOutputID(txid, oi)
				parent.SiacoinOutput.Value = o.Value.Add(o.Value)
				txn := types.V2Transaction{
					SiacoinInputs:  []types.V2SiacoinInput{{Parent: parent, SatisfiedPolicy: sp}},
					SiacoinOutputs: []types.SiacoinOutput{{Value: parent.SiacoinOutput.Value, Address: types.Address{0xD3}}},
				}
				SignV2(a.CS, &txn, SignOpts{})
				blk := CloneBlock(a.Honest)
				blk.V2.Transactions = append(blk.V2.Transactions, txn)
				emit(blk, "ephemeral/v2-siacoin-parent-value-doubled")
				done["sc"] = true
			}
		}
	}
	// a revision that keeps the contract's total but moves so much from the host's valid output to the renter's that the
	// missed host value exceeds what is left (or empties it): expiry would then pay out more than the contract holds
	for ti := range a.Honest.V2Transactions() {
		orig := a.Honest.V2.Transactions[ti]
		if len(orig.FileContractRevisions) == 0 {
			continue
		}
		rev := orig.FileContractRevisions[0].Revision
		if rev.MissedHostValue.IsZero() || rev.HostOutput.Value.Cmp(rev.MissedHostValue) < 0 {
			continue
		}
		for _, empty := range []bool{false, true} {
			blk := CloneBlock(a.Honest)
			x := &blk.V2.Transactions[ti]
			fc := &x.FileContractRevisions[0].Revision
			delta := fc.HostOutput.Value.Sub(fc.MissedHostValue).Add(types.NewCurrency64(1))
			name := "contract/v2-revision-host-output-below-missed-host-value"
			if empty {
				delta, name = fc.HostOutput.Value, "contract/v2-revision-host-output-emptied-missed-host-value-kept"
			}
			fc.HostOutput.Value = fc.HostOutput.Value.Sub(delta)
			fc.RenterOutput.Value = fc.RenterOutput.Value.Add(delta)
			SignV2(a.CS, x, SignOpts{})
			emit(blk, name)
		}
		break
	}
	for ti := range a.Honest.V2Transactions() {
		orig := a.Honest.V2.Transactions[ti]
		if len(orig.SiafundInputs) > 0 {
			blk := CloneBlock(a.Honest)
			x := &blk.V2.Transactions[ti]
			x.SiafundOutputs = append(x.SiafundOutputs, types.SiafundOutput{Value: 1 << 63, Address: types.Address{0xC6}}, types.SiafundOutput{Value: 1 << 63, Address: types.Address{0xC7}})
			SignV2(a.CS, x, SignOpts{})
			emit(blk, "wrap/v2-siafund-outputs-2x2^63")
			blk = CloneBlock(a.Honest)
			x = &blk.V2.Transactions[ti]
			x.SiafundOutputs = append(x.SiafundOutputs, types.SiafundOutput{Value: ^uint64(0), Address: types.Address{0xC8}}, types.SiafundOutput{Value: 1, Address: types.Address{0xC9}})
			SignV2(a.CS, x, SignOpts{})
			emit(blk, "wrap/v2-siafund-outputs-max+1")
		}
		if len(orig.SiacoinInputs) > 0 {
			blk := CloneBlock(a.Honest)
			x := &blk.V2.Transactions[ti]
			x.SiacoinOutputs = append(x.SiacoinOutputs, types.SiacoinOutput{Value: half128, Address: types.Address{0xCA}}, types.SiacoinOutput{Value: half128, Address: types.Address{0xCB}})
			SignV2(a.CS, x, SignOpts{})
			emit(blk, "wrap/v2-siacoin-outputs-2x2^127")
			if x.MinerFee.Hi < 1<<62 {
				blk = CloneBlock(a.Honest)
				x = &blk.V2.Transactions[ti]
				x.SiacoinOutputs = append(x.SiacoinOutputs, types.SiacoinOutput{Value: half128, Address: types.Address{0xCC}})
				x.MinerFee = x.MinerFee.Add(half128)
				SignV2(a.CS, x, SignOpts{})
				emit(blk, "wrap/v2-output+fee-2^127")
			}
		}
		break
	}
	return n
}
