package sim

import (
	"encoding/binary"

	rhp2 "go.sia.tech/core/rhp/v2"
	"go.sia.tech/core/types"
	"verif/harness/ref"
)

// Sector-sized contract data. Hosts store whole 4 MiB sectors and build storage proofs with the
// library's own provers (rhp2.BuildProof inside the sector, rhp2.BuildSectorRangeProof across the
// sector roots, both re-ordered by rhp2.ConvertProofOrdering). The simulator can form contracts over
// such files and prove them that way, which exercises the consensus verifiers on trees of depth 16-19
// and states the agreement "library prover + consensus verifier" that a host relies on.

// SectorSize is the size of one sector.
const SectorSize = rhp2.SectorSize

// SectorFile returns sectors*4 MiB of deterministic pseudo-random data (xorshift64*).
func SectorFile(seed uint64, sectors int) []byte {
	data := make([]byte, sectors*SectorSize)
	x := seed*0x9E3779B97F4A7C15 + uint64(sectors) + 0x1234567
	for off := 0; off < len(data); off += 8 {
		x ^= x >> 12
		x ^= x << 25
		x ^= x >> 27
		binary.LittleEndian.PutUint64(data[off:], x*0x2545F4914F6CDD1D)
	}
	return data
}

// IsSectorFile reports whether data consists of whole sectors.
func IsSectorFile(data []byte) bool { return len(data) > 0 && len(data)%SectorSize == 0 }

// LibSectorRoots returns the sector roots of a sector file, computed by the library.
func LibSectorRoots(data []byte) []types.Hash256 {
	roots := make([]types.Hash256, len(data)/SectorSize)
	for i := range roots {
		roots[i] = rhp2.SectorRoot((*[SectorSize]byte)(data[i*SectorSize:]))
	}
	return roots
}

// LibFileProof builds the consensus storage proof of leaf idx the way a host does.
func LibFileProof(data []byte, idx uint64) (leaf [64]byte, path []types.Hash256) {
	roots := LibSectorRoots(data)
	si, seg := idx/rhp2.LeavesPerSector, idx%rhp2.LeavesPerSector
	sector := (*[SectorSize]byte)(data[si*SectorSize:])
	path = rhp2.ConvertProofOrdering(rhp2.BuildProof(sector, seg, seg+1, nil), seg)
	path = append(path, rhp2.ConvertProofOrdering(rhp2.BuildSectorRangeProof(roots, si, si+1), si)...)
	copy(leaf[:], sector[seg*rhp2.LeafSize:])
	return leaf, path
}

// trees caches reference trees of big files for the lifetime of the process (keyed by content root).
var trees = map[types.Hash256]*ref.FileTree{}

// RefTree returns the cached reference tree of data.
func RefTree(data []byte, root types.Hash256) *ref.FileTree {
	if t, ok := trees[root]; ok && t.NumLeaves() == int(ref.NumLeaves64(uint64(len(data)))) {
		return t
	}
	t := ref.NewFileTree(data)
	if len(trees) > 24 {
		trees = map[types.Hash256]*ref.FileTree{}
	}
	trees[root] = t
	return t
}

// RefProof is ref.FileProof with the tree cache for big files.
func RefProof(data []byte, root types.Hash256, i int) (leaf [64]byte, path []ref.H) {
	if len(data) < 1<<16 {
		return ref.FileProof(data, i)
	}
	return RefTree(data, root).Proof(i)
}

var sectorFiles = map[[2]uint64]struct {
	data []byte
	root types.Hash256
}{}

// SectorFileCached returns the sector file (seed, k) and its reference root.
func SectorFileCached(seed uint64, k int) ([]byte, types.Hash256) {
	key := [2]uint64{seed, uint64(k)}
	if f, ok := sectorFiles[key]; ok {
		return f.data, f.root
	}
	data := SectorFile(seed, k)
	t := ref.NewFileTree(data)
	root := types.Hash256(t.Root())
	trees[root] = t
	sectorFiles[key] = struct {
		data []byte
		root types.Hash256
	}{data, root}
	return data, root
}
