package sim

import (
	"fmt"
	"time"

	"go.sia.tech/core/consensus"
	"go.sia.tech/core/types"
)

// Chain is a simulated chain with the client store kept in step.
type Chain struct {
	Net    *consensus.Network
	Blocks []types.Block                 // Blocks[h]
	Supps  []consensus.V1BlockSupplement // Supps[h]
	States []consensus.State             // States[h] = state after block h
	Stores []*Store                      // Stores[h] = store after block h (snapshots)
	Store  *Store                        // == Stores[tip] clone being mutated
}

// NewChain applies the genesis block (not validated, as in every node).
func NewChain(n *consensus.Network, genesis types.Block) (*Chain, consensus.ApplyUpdate, error) {
	c := &Chain{Net: n, Store: NewStore()}
	gs := n.GenesisState()
	s, au := consensus.ApplyBlock(gs, genesis, consensus.V1BlockSupplement{Transactions: make([]consensus.V1TransactionSupplement, len(genesis.Transactions))}, time.Time{})
	if err := c.Store.Apply(au); err != nil {
		return nil, au, err
	}
	c.Blocks = []types.Block{genesis}
	c.Supps = []consensus.V1BlockSupplement{{Transactions: make([]consensus.V1TransactionSupplement, len(genesis.Transactions))}}
	c.States = []consensus.State{s}
	c.Stores = []*Store{c.Store.Clone()}
	return c, au, nil
}

// Tip returns the tip state.
func (c *Chain) Tip() consensus.State { return c.States[len(c.States)-1] }

// Height returns the tip height.
func (c *Chain) Height() uint64 { return uint64(len(c.States) - 1) }

// ParentState returns the state a block at height h builds on.
func (c *Chain) ParentState(h uint64) consensus.State {
	if h == 0 {
		return c.Net.GenesisState()
	}
	return c.States[h-1]
}

// TargetTimestamp is the ancestor timestamp a node supplies to ApplyBlock (1000 blocks
// back, or genesis for short chains).
func (c *Chain) TargetTimestamp(childHeight uint64) time.Time {
	if childHeight > 1000 {
		return c.Blocks[childHeight-1000].Timestamp
	}
	return c.Blocks[0].Timestamp
}

// Apply validates and applies b on the tip. The block must be valid.
func (c *Chain) Apply(b types.Block, bs consensus.V1BlockSupplement) (consensus.ApplyUpdate, error) {
	tip := c.Tip()
	if err := consensus.ValidateBlock(tip, b, bs); err != nil {
		return consensus.ApplyUpdate{}, fmt.Errorf("honest block rejected at height %d: %w", tip.Index.Height+1, err)
	}
	return c.ApplyUnchecked(b, bs)
}

// ApplyUnchecked applies without validating.
func (c *Chain) ApplyUnchecked(b types.Block, bs consensus.V1BlockSupplement) (consensus.ApplyUpdate, error) {
	tip := c.Tip()
	s, au := consensus.ApplyBlock(tip, b, bs, c.TargetTimestamp(tip.Index.Height+1))
	if err := c.Store.Apply(au); err != nil {
		return au, fmt.Errorf("store cannot apply update of block %d: %w", s.Index.Height, err)
	}
	c.Blocks = append(c.Blocks, b)
	c.Supps = append(c.Supps, bs)
	c.States = append(c.States, s)
	c.Stores = append(c.Stores, c.Store.Clone())
	return au, nil
}

// Revert pops the tip block.
func (c *Chain) Revert() (consensus.RevertUpdate, error) {
	h := c.Height()
	if h == 0 {
		return consensus.RevertUpdate{}, fmt.Errorf("cannot revert genesis")
	}
	parent := c.States[h-1]
	ru := consensus.RevertBlock(parent, c.Blocks[h], c.Supps[h])
	if err := c.Store.Revert(ru, parent.Elements.NumLeaves); err != nil {
		return ru, err
	}
	c.Blocks = c.Blocks[:h]
	c.Supps = c.Supps[:h]
	c.States = c.States[:h]
	c.Stores = c.Stores[:h]
	return ru, nil
}

// Seal completes an honest block on parent state cs: exactly one miner payout of
// reward + fees (unless payouts were preset), v2 commitment, and a nonce that
// satisfies the nonce factor and the target.
func Seal(cs consensus.State, b *types.Block, minerAddr types.Address) error {
	if b.MinerPayouts == nil {
		sum := cs.BlockReward()
		for _, txn := range b.Transactions {
			for _, f := range txn.MinerFees {
				var of bool
				if sum, of = sum.AddWithOverflow(f); of {
					return fmt.Errorf("fee overflow")
				}
			}
		}
		for _, txn := range b.V2Transactions() {
			var of bool
			if sum, of = sum.AddWithOverflow(txn.MinerFee); of {
				return fmt.Errorf("fee overflow")
			}
		}
		b.MinerPayouts = []types.SiacoinOutput{{Value: sum, Address: minerAddr}}
	}
	b.ParentID = cs.Index.ID
	if b.V2 != nil {
		b.V2.Height = cs.Index.Height + 1
		if len(b.MinerPayouts) > 0 {
			b.V2.Commitment = cs.Commitment(b.MinerPayouts[0].Address, b.Transactions, b.V2Transactions())
		}
	}
	return Mine(cs, b)
}

// Mine searches a nonce. With the simulator's trivial targets this takes a few tries.
func Mine(cs consensus.State, b *types.Block) error {
	factor := cs.NonceFactor()
	target := cs.PoWTarget()
	h := b.Header()
	h.Nonce = 0
	for i := 0; i < 1<<20; i++ {
		if h.ID().CmpWork(target) >= 0 {
			b.Nonce = h.Nonce
			return nil
		}
		h.Nonce += factor
	}
	return fmt.Errorf("no nonce found (target too hard for the simulator)")
}

// NextTimestamp returns a timestamp for the child of cs: mode 0 on schedule (parent +
// interval), 1 the minimum allowed (median of previous timestamps), 2 parent + jitter.
func NextTimestamp(cs consensus.State, mode int, jitter int64) time.Time {
	median := MedianTimestamp(cs)
	parent := cs.PrevTimestamps[0]
	var ts time.Time
	switch mode {
	case 1:
		ts = median
	case 2:
		ts = parent.Add(time.Duration(jitter) * time.Second)
	default:
		ts = parent.Add(cs.Network.BlockInterval)
	}
	if ts.Before(median) {
		ts = median
	}
	// header timestamps are whole seconds; the median of an even count may not be
	if ts.Nanosecond() != 0 {
		ts = ts.Truncate(time.Second).Add(time.Second)
	}
	return ts
}
