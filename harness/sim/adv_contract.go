package sim

import (
	"fmt"
	"go.sia.tech/core/consensus"
	"go.sia.tech/core/types"
	"math/big"
	"pgregory.net/rapid"
	"verif/harness/ref"
)

// fileView gives the storage-proof probes one interface over materialised files and virtual (sparse) files.
type fileView struct {
	n       uint64                                            // number of leaves
	proof   func(i uint64) ([64]byte, []ref.H)                // honest proof of leaf i
	flipped func(i uint64) ([64]byte, []ref.H)                // proof of leaf i of the same file with one byte of that leaf altered
	other   func(t *rapid.T, idx uint64, label string) uint64 // another leaf index
}

func (w *World) view(root types.Hash256, filesize uint64) (*fileView, bool) {
	if sf, ok := w.Sparse[root]; ok && sf.Size == filesize && filesize > 0 {
		n := sf.NumLeaves()
		return &fileView{n: n,
			proof: func(i uint64) ([64]byte, []ref.H) { return sf.Proof(i) },
			flipped: func(i uint64) ([64]byte, []ref.H) {
				c := sf.Leaf(i)
				c[0] ^= 0xFF
				return sf.With(i, c).Proof(i)
			},
			other: func(t *rapid.T, idx uint64, label string) uint64 {
				// the other half of the tree, the neighbour, the ends: positions whose paths differ at different levels
				c := []uint64{(idx + n/2) % n, idx ^ 1, 0, n - 1, (idx + 1) % n, n / 2}
				j := c[rapid.IntRange(0, len(c)-1).Draw(t, label)]
				if j >= n || j == idx {
					j = (idx + n/2 + 1) % n
				}
				return j
			}}, true
	}
	data, known := w.Files[root]
	if !known || uint64(len(data)) != filesize || filesize == 0 {
		return nil, false
	}
	n := ref.NumLeaves64(filesize)
	return &fileView{n: n,
		proof: func(i uint64) ([64]byte, []ref.H) { return RefProof(data, root, int(i)) },
		flipped: func(i uint64) ([64]byte, []ref.H) {
			other := append([]byte(nil), data...)
			other[int(i)*64] ^= 0xFF
			return ref.FileProof(other, int(i))
		},
		other: func(t *rapid.T, idx uint64, label string) uint64 {
			return (idx + 1 + uint64(rapid.IntRange(0, int(n)-2).Draw(t, label))) % n
		}}, true
}

// ContractProbes records C07 probes derived from the honest block: unsound storage proofs
// (another leaf, altered data, altered / truncated / extended path, other file, other contract,
// wrong proof-index height) and rule-breaking revisions (sums, revision number, v2 missed host
// value / collateral / capacity / filesize), each honestly signed so that only the contract
// rule can refuse it.
func (a *Adv) ContractProbes() int {
	t := a.G.T
	n := 0
	one := types.NewCurrency64(1)
	era := NewBuilder(t, a.G.C, a.G.W).V1Era()
	// ---- v1 storage proofs
	for ti := range a.Honest.Transactions {
		orig := a.Honest.Transactions[ti]
		if len(orig.StorageProofs) == 0 {
			continue
		}
		probed := false
		for pi := range orig.StorageProofs {
			pi := pi
			sp := orig.StorageProofs[pi]
			// every proof of a transaction is judged on its own, whatever the proofs listed before it were (a proof of an
			// empty file, which needs no Merkle check, in particular)
			suffix := ""
			if pi > 0 {
				suffix = "/after-other-proofs"
				for _, q := range orig.StorageProofs[:pi] {
					if qe, ok := a.G.C.Store.FC[q.ParentID]; ok && qe.FileContract.Filesize == 0 {
						suffix = "/after-a-proof-of-an-empty-file"
					}
				}
			}
			// the contract being proven: live in the store, or formed / revised earlier in this block (then skip: terms not in the store)
			e, ok := a.G.C.Store.FC[sp.ParentID]
			if !ok {
				continue
			}
			inBlock := false
			for _, tx := range a.Honest.Transactions[:ti] {
				for _, r := range tx.FileContractRevisions {
					inBlock = inBlock || r.ParentID == sp.ParentID
				}
			}
			if inBlock {
				continue
			}
			fc := e.FileContract
			fv, known := a.G.W.view(fc.FileMerkleRoot, fc.Filesize)
			if !known || fc.WindowStart == 0 {
				continue
			}
			windowID := a.G.C.Store.CI[fc.WindowStart-1].ChainIndex.ID
			idx := ref.ChallengeIndex(fc.Filesize, windowID, e.ID)
			nLeaves := ref.NumLeaves64(fc.Filesize)
			mk := func(name string, f func(p *types.StorageProof) bool) {
				blk := CloneBlock(a.Honest)
				p := &blk.Transactions[ti].StorageProofs[pi]
				if !f(p) {
					return
				}
				if p.ParentID == sp.ParentID && refV1ProofRoot(era, p.Leaf, p.Proof, idx, fc.Filesize) == fc.FileMerkleRoot {
					return // by the tree definition the altered proof still proves the challenged leaf: not an unsound proof
				}
				if a.emit(blk, "v1-proof/"+name+"/era-"+era+suffix, "reject", map[string]string{"leaves": sizeClassLeaves(nLeaves)}, nil) {
					n++
					probed = true
				}
			}
			if nLeaves > 1 {
				mk("other-leaf", func(p *types.StorageProof) bool {
					j := fv.other(t, idx, "otherLeaf")
					leaf, path := fv.proof(j)
					if leaf == p.Leaf && samePath(path, p.Proof) {
						return false
					}
					p.Leaf, p.Proof = leaf, toHashes(path)
					return true
				})
			}
			mk("leaf-byte-flipped", func(p *types.StorageProof) bool {
				// flip a byte that carries file data (bytes beyond the end of a partial last leaf are ignored by rule in era C)
				limit := 64
				if idx == nLeaves-1 && fc.Filesize%64 != 0 && era != "A" {
					limit = int(fc.Filesize % 64)
				}
				if era == "B" && idx == nLeaves-1 && fc.Filesize%64 == 0 {
					return false // legacy era-B rule hashes an empty last leaf: leaf bytes are not bound
				}
				p.Leaf[rapid.IntRange(0, limit-1).Draw(t, "leafByte")] ^= 0x01
				return true
			})
			mk("path-hash-flipped", func(p *types.StorageProof) bool {
				if len(p.Proof) == 0 {
					return false
				}
				p.Proof[rapid.IntRange(0, len(p.Proof)-1).Draw(t, "pathIdx")][0] ^= 1
				return true
			})
			mk("path-truncated", func(p *types.StorageProof) bool {
				if len(p.Proof) == 0 {
					return false
				}
				p.Proof = p.Proof[:len(p.Proof)-1]
				return true
			})
			mk("path-extended", func(p *types.StorageProof) bool {
				p.Proof = append(p.Proof, types.Hash256{1})
				return true
			})
			mk("other-file-same-index", func(p *types.StorageProof) bool {
				leaf, path := fv.flipped(idx)
				p.Leaf, p.Proof = leaf, toHashes(path)
				return true
			})
			// the proven contract revised by the very transaction that proves it (only possible in the block in which the
			// window opens): the revision commits to another file and a later window, the proof is for the old one. A proof
			// is judged against the contract's latest accepted revision, so this cannot resolve the contract.
			if lock, known := a.G.W.Locks[fc.UnlockHash]; pi == 0 && known && lock.UC != nil && fc.WindowStart == a.Child && fc.RevisionNumber < types.MaxRevisionNumber-1 && lock.Spendable(false, a.Child, MedianTimestamp(a.CS)) {
				blk := CloneBlock(a.Honest)
				x := &blk.Transactions[ti]
				rev := fc
				rev.ValidProofOutputs = append([]types.SiacoinOutput(nil), fc.ValidProofOutputs...)
				rev.MissedProofOutputs = append([]types.SiacoinOutput(nil), fc.MissedProofOutputs...)
				rev.RevisionNumber++
				rev.FileMerkleRoot, rev.Filesize = types.Hash256{0xAB, 0xCD}, 192
				rev.WindowStart, rev.WindowEnd = a.Child+10, a.Child+20
				x.FileContractRevisions = append(x.FileContractRevisions, types.FileContractRevision{ParentID: e.ID, UnlockConditions: *lock.UC, FileContract: rev})
				SignV1(a.CS, x, false)
				if a.emit(blk, "v1-proof/proven-contract-revised-by-the-same-transaction/era-"+era, "reject", map[string]string{"leaves": sizeClassLeaves(nLeaves)}, nil) {
					n++
					probed = true
				}
			}
			// proof presented for another live contract (its own challenge / root differ)
			for _, o := range a.G.C.Store.SortedFC() {
				if o.ID != e.ID && o.FileContract.WindowStart <= a.Child && o.FileContract.WindowStart >= 1 && o.FileContract.WindowEnd >= a.Child && o.FileContract.FileMerkleRoot != fc.FileMerkleRoot && o.FileContract.Filesize > 0 {
					used := false
					for _, tx := range a.Honest.Transactions {
						for _, p := range tx.StorageProofs {
							used = used || p.ParentID == o.ID
						}
						for _, r := range tx.FileContractRevisions {
							used = used || r.ParentID == o.ID
						}
					}
					if used {
						continue
					}
					oid, ofc := o.ID, o.FileContract
					mk("other-contract", func(p *types.StorageProof) bool {
						// the proof must really be unsound for the other contract: in the two legacy eras only a prefix of the
						// last leaf is bound (one byte of a 1-byte file), so a foreign leaf can coincide with it by chance
						oidx := ref.ChallengeIndex(ofc.Filesize, a.G.C.Store.CI[ofc.WindowStart-1].ChainIndex.ID, oid)
						if refV1ProofRoot(era, p.Leaf, p.Proof, oidx, ofc.Filesize) == ofc.FileMerkleRoot {
							return false
						}
						p.ParentID = oid
						return true
					})
					break
				}
			}
		}
		if probed {
			break
		}
	}
	// ---- a stored v1 contract that was finalised (revision number 2^64-1, the clearing revision signed on renewal) and is
	// then "revised" to any earlier number by a fresh, honestly signed transaction
	if a.v1Allowed() {
		revisedHere := map[types.FileContractID]bool{}
		for _, tx := range a.Honest.Transactions {
			for _, r := range tx.FileContractRevisions {
				revisedHere[r.ParentID] = true
			}
			for _, p := range tx.StorageProofs {
				revisedHere[p.ParentID] = true
			}
		}
		for _, e := range a.G.C.Store.SortedFC() {
			lock, known := a.G.W.Locks[e.FileContract.UnlockHash]
			if e.FileContract.RevisionNumber != types.MaxRevisionNumber || revisedHere[e.ID] || !known || lock.UC == nil || e.FileContract.WindowStart <= a.Child || !lock.Spendable(false, a.Child, MedianTimestamp(a.CS)) {
				continue
			}
			for _, num := range []uint64{0, 1, types.MaxRevisionNumber - 1, types.MaxRevisionNumber} {
				rev := e.FileContract
				rev.ValidProofOutputs = append([]types.SiacoinOutput(nil), rev.ValidProofOutputs...)
				rev.MissedProofOutputs = append([]types.SiacoinOutput(nil), rev.MissedProofOutputs...)
				rev.RevisionNumber = num
				txn := types.Transaction{FileContractRevisions: []types.FileContractRevision{{ParentID: e.ID, UnlockConditions: *lock.UC, FileContract: rev}}}
				SignV1(a.CS, &txn, false)
				blk := CloneBlock(a.Honest)
				blk.Transactions = append(blk.Transactions, txn)
				if a.emit(blk, fmt.Sprintf("v1-revision/finalised-contract-revised-to-number-%d", num), "reject", nil, nil) {
					n++
				}
			}
			break
		}
	}
	// ---- v1 revisions breaking a rule (honestly signed). The revision number is compared with the contract as
	// it stands: the stored contract, one formed earlier in this block, or its latest in-block revision.
	standingV1 := map[types.FileContractID]types.FileContract{}
	probedV1 := 0
	for ti := range a.Honest.Transactions {
		orig := a.Honest.Transactions[ti]
		note := func() {
			for i, fc := range orig.FileContracts {
				standingV1[orig.FileContractID(i)] = fc
			}
			for _, r := range orig.FileContractRevisions {
				standingV1[r.ParentID] = r.FileContract
			}
		}
		if len(orig.FileContractRevisions) == 0 {
			note()
			continue
		}
		r0 := orig.FileContractRevisions[0]
		var parent types.FileContractElement
		cur, inBlock := standingV1[r0.ParentID]
		if inBlock {
			parent.FileContract = cur
		} else if e, ok := a.G.C.Store.FC[r0.ParentID]; ok {
			parent = e
		} else {
			note()
			continue
		}
		note()
		if probedV1 > 0 && !inBlock {
			continue
		}
		probedV1++
		pfx := "v1-revision/"
		if inBlock {
			pfx = "v1-revision-again-in-block/"
		}
		mk := func(name string, f func(r *types.FileContractRevision) bool) {
			blk := CloneBlock(a.Honest)
			x := &blk.Transactions[ti]
			if !f(&x.FileContractRevisions[0]) {
				return
			}
			SignV1(a.CS, x, false)
			if a.emit(blk, pfx+name, "reject", nil, nil) {
				n++
			}
		}
		mk("valid-sum+1", func(r *types.FileContractRevision) bool {
			if len(r.ValidProofOutputs) == 0 {
				return false
			}
			r.ValidProofOutputs[0].Value = r.ValidProofOutputs[0].Value.Add(one)
			return true
		})
		mk("missed-sum-1", func(r *types.FileContractRevision) bool {
			for i := range r.MissedProofOutputs {
				if !r.MissedProofOutputs[i].Value.IsZero() {
					r.MissedProofOutputs[i].Value = r.MissedProofOutputs[i].Value.Sub(one)
					return true
				}
			}
			return false
		})
		mk("revision-number-equal", func(r *types.FileContractRevision) bool {
			r.RevisionNumber = parent.FileContract.RevisionNumber
			return true
		})
		mk("revision-number-lower", func(r *types.FileContractRevision) bool {
			if parent.FileContract.RevisionNumber == 0 {
				return false
			}
			r.RevisionNumber = parent.FileContract.RevisionNumber - 1
			return true
		})
		mk("window-end-before-start", func(r *types.FileContractRevision) bool { r.WindowEnd = r.WindowStart; return true })
	}
	// ---- v2 storage proofs
	for ti := range a.Honest.V2Transactions() {
		orig := a.Honest.V2.Transactions[ti]
		for ri := range orig.FileContractResolutions {
			sp, ok := orig.FileContractResolutions[ri].Resolution.(*types.V2StorageProof)
			if !ok {
				continue
			}
			res := orig.FileContractResolutions[ri]
			fc := res.Parent.V2FileContract
			fv, known := a.G.W.view(fc.FileMerkleRoot, fc.Filesize)
			if !known {
				continue
			}
			idx := ref.ChallengeIndex(fc.Filesize, sp.ProofIndex.ChainIndex.ID, res.Parent.ID)
			nLeaves := ref.NumLeaves64(fc.Filesize)
			mk := func(name string, f func(p *types.V2StorageProof) bool) {
				blk := CloneBlock(a.Honest)
				x := &blk.V2.Transactions[ti]
				p := x.FileContractResolutions[ri].Resolution.(*types.V2StorageProof)
				if !f(p) {
					return
				}
				if p.ProofIndex.ChainIndex == sp.ProofIndex.ChainIndex && refV1ProofRoot("A", p.Leaf, p.Proof, idx, fc.Filesize) == fc.FileMerkleRoot {
					return // still a proof of the challenged leaf by the tree definition (v2 binds the whole 64-byte leaf)
				}
				if a.emit(blk, "v2-proof/"+name, "reject", map[string]string{"leaves": sizeClassLeaves(nLeaves)}, nil) {
					n++
				}
			}
			// the prover keeps the genuine chain index element (ID, position, proof) but swaps the block ID inside it, and with
			// it the challenge, for one that selects a leaf of its choosing, and proves that leaf honestly. Tried on every
			// proof of the transaction: a later proof may refer to the same element as an earlier, genuine one.
			if nLeaves > 1 {
				sfx := ""
				for rj := 0; rj < ri; rj++ {
					if sp0, ok := orig.FileContractResolutions[rj].Resolution.(*types.V2StorageProof); ok && sp0.ProofIndex.ID == sp.ProofIndex.ID {
						sfx = "/after-a-proof-with-the-same-index"
					}
				}
				mk("self-chosen-challenge-block-id"+sfx, func(p *types.V2StorageProof) bool {
					for k := byte(1); k < 64; k++ {
						forged := p.ProofIndex.ChainIndex.ID
						forged[31] ^= k
						if j := ref.ChallengeIndex(fc.Filesize, forged, res.Parent.ID); j != idx {
							p.ProofIndex.ChainIndex.ID = forged
							leaf, path := fv.proof(j)
							p.Leaf, p.Proof = leaf, toHashes(path)
							return true
						}
					}
					return false
				})
			}
			if ri > firstProof(orig) {
				continue // the remaining probes once per transaction
			}
			if nLeaves > 1 {
				mk("other-leaf", func(p *types.V2StorageProof) bool {
					j := fv.other(t, idx, "otherLeaf2")
					leaf, path := fv.proof(j)
					if leaf == p.Leaf && samePath(path, p.Proof) {
						return false
					}
					p.Leaf, p.Proof = leaf, toHashes(path)
					return true
				})
			}
			mk("leaf-byte-flipped", func(p *types.V2StorageProof) bool {
				p.Leaf[rapid.IntRange(0, 63).Draw(t, "leafByte2")] ^= 0x01
				return true
			})
			mk("path-hash-flipped", func(p *types.V2StorageProof) bool {
				if len(p.Proof) == 0 {
					return false
				}
				p.Proof[rapid.IntRange(0, len(p.Proof)-1).Draw(t, "pathIdx2")][31] ^= 0x80
				return true
			})
			mk("path-truncated", func(p *types.V2StorageProof) bool {
				if len(p.Proof) == 0 {
					return false
				}
				p.Proof = p.Proof[:len(p.Proof)-1]
				return true
			})
			mk("path-extended", func(p *types.V2StorageProof) bool { p.Proof = append(p.Proof, types.Hash256{1}); return true })
			mk("other-file-same-index", func(p *types.V2StorageProof) bool {
				leaf, path := fv.flipped(idx)
				p.Leaf, p.Proof = leaf, toHashes(path)
				return true
			})
			// a genuine ancestor of another height as the challenge source
			if len(a.G.C.Store.CI) > 1 {
				mk("proof-index-other-height", func(p *types.V2StorageProof) bool {
					h := (fc.ProofHeight + 1 + uint64(rapid.IntRange(0, len(a.G.C.Store.CI)-2).Draw(t, "otherCI"))) % uint64(len(a.G.C.Store.CI))
					if h == fc.ProofHeight {
						return false
					}
					p.ProofIndex = a.G.C.Store.CI[h].Copy()
					// an honest proof for the challenge that index would give
					j := ref.ChallengeIndex(fc.Filesize, p.ProofIndex.ChainIndex.ID, res.Parent.ID)
					leaf, path := fv.proof(j)
					p.Leaf, p.Proof = leaf, toHashes(path)
					return true
				})
			}
		}
	}
	// ---- v2 revisions breaking a rule (signed by the current keys). The rules compare with the contract as
	// it stands: the parent element, or the latest revision an earlier transaction of this block made.
	standing := map[types.FileContractID]types.V2FileContract{}
	probed := 0
	for ti := range a.Honest.V2Transactions() {
		orig := a.Honest.V2.Transactions[ti]
		if len(orig.FileContractRevisions) == 0 {
			continue
		}
		id := orig.FileContractRevisions[0].Parent.ID
		cur, inBlock := standing[id]
		if !inBlock {
			cur = orig.FileContractRevisions[0].Parent.V2FileContract
		}
		for _, r := range orig.FileContractRevisions {
			standing[r.Parent.ID] = r.Revision
		}
		if probed > 0 && !inBlock {
			continue // one first revision and every repeated revision
		}
		probed++
		opts := SignOpts{}
		pfx := "v2-revision/"
		if inBlock {
			opts.CurrentContract = map[types.FileContractID]types.V2FileContract{id: cur}
			pfx = "v2-revision-again-in-block/"
		}
		mk := func(name string, f func(fc *types.V2FileContract) bool) {
			blk := CloneBlock(a.Honest)
			x := &blk.V2.Transactions[ti]
			if !f(&x.FileContractRevisions[0].Revision) {
				return
			}
			SignV2(a.CS, x, opts)
			if a.emit(blk, pfx+name, "reject", nil, nil) {
				n++
			}
		}
		mk("output-sum+1", func(fc *types.V2FileContract) bool { fc.HostOutput.Value = fc.HostOutput.Value.Add(one); return true })
		mk("output-sum-1", func(fc *types.V2FileContract) bool {
			if fc.RenterOutput.Value.IsZero() {
				return false
			}
			fc.RenterOutput.Value = fc.RenterOutput.Value.Sub(one)
			return true
		})
		mk("revision-number-equal", func(fc *types.V2FileContract) bool { fc.RevisionNumber = cur.RevisionNumber; return true })
		mk("revision-number-lower", func(fc *types.V2FileContract) bool {
			if cur.RevisionNumber == 0 {
				return false
			}
			fc.RevisionNumber = cur.RevisionNumber - 1
			return true
		})
		mk("missed-host-value-raised", func(fc *types.V2FileContract) bool {
			fc.MissedHostValue = cur.MissedHostValue.Add(one)
			return true
		})
		// value moved from the host's valid output to the renter's (sum unchanged) until the host's valid output is
		// below the missed host value: the expiry path would pay more than the contract holds. Refused from
		// EphemeralOutputHeight on (below it the rule does not exist and the revision is legacy-valid).
		if a.Child >= a.G.C.Net.HardforkV2.EphemeralOutputHeight {
			mk("host-output-below-missed-host-value", func(fc *types.V2FileContract) bool {
				if fc.MissedHostValue.IsZero() || fc.HostOutput.Value.Cmp(fc.MissedHostValue) < 0 {
					return false
				}
				delta := fc.HostOutput.Value.Sub(fc.MissedHostValue).Add(one)
				fc.HostOutput.Value = fc.HostOutput.Value.Sub(delta)
				fc.RenterOutput.Value = fc.RenterOutput.Value.Add(delta)
				return true
			})
			mk("missed-host-value-kept-host-output-emptied", func(fc *types.V2FileContract) bool {
				if fc.MissedHostValue.IsZero() || fc.HostOutput.Value.IsZero() {
					return false
				}
				fc.RenterOutput.Value = fc.RenterOutput.Value.Add(fc.HostOutput.Value)
				fc.HostOutput.Value = types.ZeroCurrency
				return true
			})
		}
		mk("total-collateral+1", func(fc *types.V2FileContract) bool { fc.TotalCollateral = fc.TotalCollateral.Add(one); return true })
		mk("total-collateral-1", func(fc *types.V2FileContract) bool {
			if fc.TotalCollateral.IsZero() {
				return false
			}
			fc.TotalCollateral = fc.TotalCollateral.Sub(one)
			return true
		})
		mk("capacity-shrunk", func(fc *types.V2FileContract) bool {
			if cur.Capacity == 0 {
				return false
			}
			fc.Capacity = cur.Capacity - 1
			if fc.Filesize > fc.Capacity {
				fc.Filesize = fc.Capacity
			}
			return true
		})
		mk("filesize-over-capacity", func(fc *types.V2FileContract) bool {
			if fc.Capacity == ^uint64(0) {
				return false // nothing is over the maximal capacity
			}
			fc.Filesize = fc.Capacity + 1
			return true
		})
		mk("expiration-not-after-proof", func(fc *types.V2FileContract) bool { fc.ExpirationHeight = fc.ProofHeight; return true })
	}
	n += a.renewalStripped("reject")
	// ---- v2 renewal breaking the value split
	for ti := range a.Honest.V2Transactions() {
		orig := a.Honest.V2.Transactions[ti]
		for ri := range orig.FileContractResolutions {
			ren, ok := orig.FileContractResolutions[ri].Resolution.(*types.V2FileContractRenewal)
			if !ok {
				continue
			}
			mk := func(name string, f func(r *types.V2FileContractRenewal, x *types.V2Transaction) bool) {
				blk := CloneBlock(a.Honest)
				x := &blk.V2.Transactions[ti]
				r := *ren
				if !f(&r, x) {
					return
				}
				x.FileContractResolutions[ri].Resolution = &r
				SignV2(a.CS, x, SignOpts{})
				if a.emit(blk, "v2-renewal/"+name, "reject", nil, nil) {
					n++
				}
			}
			// final output raised and paid for by nothing
			mk("final-renter-output+1", func(r *types.V2FileContractRenewal, x *types.V2Transaction) bool {
				r.FinalRenterOutput.Value = r.FinalRenterOutput.Value.Add(one)
				return true
			})
			// rollover raised: more value enters the transaction than the old contract holds
			mk("renter-rollover+1-spent-as-fee", func(r *types.V2FileContractRenewal, x *types.V2Transaction) bool {
				r.RenterRollover = r.RenterRollover.Add(one)
				x.MinerFee = x.MinerFee.Add(one)
				return true
			})
			// value moved from a final output into the rollover until the rollover exceeds what the new contract costs by
			// one hasting (the sum stays the old contract's value); the surplus leaves at once as miner fee instead of
			// through a delayed final output
			mk("rollover-one-above-new-contract-cost", func(r *types.V2FileContractRenewal, x *types.V2Transaction) bool {
				cost := ref.Big(r.NewContract.RenterOutput.Value)
				cost.Add(cost, ref.Big(r.NewContract.HostOutput.Value)).Add(cost, ref.TaxV2(r.NewContract.RenterOutput.Value, r.NewContract.HostOutput.Value))
				d := new(big.Int).Add(cost, big.NewInt(1))
				d.Sub(d, ref.Big(r.RenterRollover)).Sub(d, ref.Big(r.HostRollover))
				if d.Sign() <= 0 || d.BitLen() > 120 {
					return false
				}
				dc := cur(d)
				switch {
				case r.FinalRenterOutput.Value.Cmp(dc) >= 0:
					r.FinalRenterOutput.Value = r.FinalRenterOutput.Value.Sub(dc)
					r.RenterRollover = r.RenterRollover.Add(dc)
				case r.FinalHostOutput.Value.Cmp(dc) >= 0:
					r.FinalHostOutput.Value = r.FinalHostOutput.Value.Sub(dc)
					r.HostRollover = r.HostRollover.Add(dc)
				default:
					return false
				}
				x.MinerFee = x.MinerFee.Add(dc)
				return true
			})
			mk("changes-host-key", func(r *types.V2FileContractRenewal, x *types.V2Transaction) bool {
				r.NewContract.HostPublicKey = otherKey(r.NewContract.HostPublicKey)
				return true
			})
			break
		}
	}
	return n
}

func sizeClassLeaves(n uint64) string {
	switch {
	case n <= 1:
		return "1"
	case n&(n-1) == 0:
		return "pow2"
	}
	return "non-pow2"
}

func toHashes(p []ref.H) []types.Hash256 {
	out := make([]types.Hash256, len(p))
	for i := range p {
		out[i] = types.Hash256(p[i])
	}
	return out
}

func samePath(p []ref.H, q []types.Hash256) bool {
	if len(p) != len(q) {
		return false
	}
	for i := range p {
		if types.Hash256(p[i]) != q[i] {
			return false
		}
	}
	return true
}

var _ = consensus.State{}

// refV1ProofRoot is the root a v1 storage proof commits to under the leaf rule of the given era ("A": whole leaf;
// "B": the last leaf cut to filesize%64 bytes, also when that is 0; "C": the last leaf cut only if the file does not
// end on a leaf boundary), by the tree definition: audit path from the leaf towards the root in a tree of
// NumLeaves64(filesize) leaves. A path of the wrong length gives the zero hash.
func refV1ProofRoot(era string, leaf [64]byte, path []types.Hash256, idx, filesize uint64) types.Hash256 {
	n := ref.NumLeaves64(filesize)
	if n == 0 || idx >= n {
		return types.Hash256{}
	}
	bound := leaf[:]
	last := idx == n-1
	switch {
	case era == "B" && last:
		bound = leaf[:filesize%64]
	case era == "C" && last && filesize%64 != 0:
		bound = leaf[:filesize%64]
	}
	var seg [64]byte
	copy(seg[:], bound)
	h := ref.LeafHash(seg[:])
	// walk down the tree definition to learn on which side the sibling sits at every level (root first)
	var sides []bool // true: our subtree is the right child
	lo, size := uint64(0), n
	for size > 1 {
		k := uint64(1)
		for k*2 < size {
			k *= 2
		}
		if idx < lo+k {
			sides = append(sides, false)
			size = k
		} else {
			sides = append(sides, true)
			lo, size = lo+k, size-k
		}
	}
	if len(path) != len(sides) {
		return types.Hash256{}
	}
	for i := range path {
		if sides[len(sides)-1-i] {
			h = ref.NodeHash(ref.H(path[i]), h)
		} else {
			h = ref.NodeHash(h, ref.H(path[i]))
		}
	}
	return types.Hash256(h)
}

// firstProof is the position of the first storage-proof resolution of a transaction (len if none).
func firstProof(txn types.V2Transaction) int {
	for i, r := range txn.FileContractResolutions {
		if _, ok := r.Resolution.(*types.V2StorageProof); ok {
			return i
		}
	}
	return len(txn.FileContractResolutions)
}
