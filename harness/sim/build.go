package sim

import (
	"bytes"
	"crypto/sha256"
	"fmt"
	"math/big"
	"sort"
	"time"

	"go.sia.tech/core/consensus"
	"go.sia.tech/core/types"
	"pgregory.net/rapid"
	"verif/harness/ref"
)

// World is the simulator's private knowledge that outlives blocks and reorgs because it
// is keyed by content: how to unlock an address, and the data behind a Merkle root.
type World struct {
	Locks map[types.Address]Lock
	Files map[types.Hash256][]byte
	// Sectors > 0: contract data is mostly whole 4 MiB sectors (at most this many per file);
	// LibProver: honest proofs over such files are built by the library's own provers
	Sectors   int
	LibProver bool
	// Sparse holds virtual files (zero except for a few marked leaves) of any committed size up to 2^64-1 bytes;
	// Huge: contract formation sometimes commits to such a file
	Sparse map[types.Hash256]*ref.SparseFile
	Huge   bool
	// StrayProofs: ephemeral v2 siacoin parents sometimes carry meaningless Merkle proofs (valid blocks all the same)
	StrayProofs bool
	// NoBig: no payout batches / wallet sweeps (transactions with hundreds of outputs or inputs)
	NoBig bool
	// SweepNext: the previous block carried a payout batch of at least 64 outputs; the next block sweeps them up
	// again (a consolidation transaction with more inputs than "a few dozen", in the same transaction version)
	SweepNext int // 0 no, 1 v1, 2 v2
}

// NewWorld registers the pool's standard locks.
func NewWorld() *World {
	w := &World{Locks: map[types.Address]Lock{}, Files: map[types.Hash256][]byte{}, Sparse: map[types.Hash256]*ref.SparseFile{}}
	for k := 0; k < NumKeys; k++ {
		w.Reg(MakeLock(LockSpec{Kind: 0, K1: k}))
		w.Reg(MakeLock(LockSpec{Kind: NumV1Kinds, K1: k}))
	}
	w.Files[types.Hash256{}] = nil
	return w
}

// Reg registers a lock and returns it.
func (w *World) Reg(l Lock) Lock {
	w.Locks[l.Address()] = l
	return l
}

// RegisterGenesis makes the genesis allocations spendable: every lock spec the network
// generator can have used is re-derived and registered.
func (w *World) RegisterGenesis() {
	for kind := 0; kind < len(LockKinds); kind++ {
		for k1 := 0; k1 < NumKeys; k1++ {
			for k2 := 0; k2 < NumKeys; k2++ {
				if kind == 2 || kind == 8 {
					for h := uint64(0); h <= 6; h++ {
						w.Reg(MakeLock(LockSpec{Kind: kind, K1: k1, K2: k2, Height: h}))
					}
				} else if kind != 9 {
					w.Reg(MakeLock(LockSpec{Kind: kind, K1: k1, K2: k2}))
				}
			}
		}
	}
}

// ephemeral output created earlier in the block under construction
type ephOut struct {
	sc      *types.SiacoinElement
	sf      *types.SiafundElement
	v2      bool // created by a v2 transaction
	created int  // index of creating txn among all txns of the block
}

// Builder assembles one honest block on top of the chain tip.
type Builder struct {
	C      *Chain
	W      *World
	T      *rapid.T
	CS     consensus.State
	Child  uint64
	Median time.Time

	usedSC map[types.SiacoinOutputID]bool
	usedSF map[types.SiafundOutputID]bool
	usedFC map[types.FileContractID]bool
	eph    []ephOut
	pool   *big.Int // running siafund tax revenue inside the block
	fees   *big.Int
	Exp    Expect

	V1 []types.Transaction
	V2 []types.V2Transaction

	// contracts revised earlier in the block under construction: latest terms and the parent element used
	revisedV2 map[types.FileContractID]types.V2FileContract
	parentV2  map[types.FileContractID]types.V2FileContractElement
	revisedV1 map[types.FileContractID]types.FileContract

	// current foundation addresses inside the block
	fSubsidy, fMgmt types.Address
	// ephemeral policy
	AllowEphemeral bool
	alignPH        uint64 // when set, v2 contracts drawn in this block share this proof height
	// v2 scenario actions requested before the v1 part of the block was drawn (see AfterV1)
	deferred []func()
}

// AfterV1 runs f once no further v1 transaction will be added to the block. A block lists its v1
// transactions before its v2 transactions, and the running values the ledger keeps (tax pool,
// Foundation addresses, outputs created in the block) follow action order, so action order has to
// equal block order.
func (b *Builder) AfterV1(f func()) {
	if !b.v1Allowed() {
		f()
		return
	}
	b.deferred = append(b.deferred, f)
}

func (b *Builder) runDeferred() {
	d := b.deferred
	b.deferred = nil
	for _, f := range d {
		f()
	}
}

// NewBuilder starts a block on the tip of c.
func NewBuilder(t *rapid.T, c *Chain, w *World) *Builder {
	cs := c.Tip()
	return &Builder{C: c, W: w, T: t, CS: cs, Child: cs.Index.Height + 1, Median: MedianTimestamp(cs),
		usedSC: map[types.SiacoinOutputID]bool{}, usedSF: map[types.SiafundOutputID]bool{}, usedFC: map[types.FileContractID]bool{},
		pool: ref.Big(cs.SiafundTaxRevenue), fees: new(big.Int),
		revisedV2: map[types.FileContractID]types.V2FileContract{}, parentV2: map[types.FileContractID]types.V2FileContractElement{}, revisedV1: map[types.FileContractID]types.FileContract{},
		fSubsidy: cs.FoundationSubsidyAddress, fMgmt: cs.FoundationManagementAddress, AllowEphemeral: true}
}

func (b *Builder) v1Allowed() bool {
	return b.Child < b.C.Net.HardforkV2.RequireHeight && len(b.V2) == 0 // no v1 action after the first v2 one (AfterV1)
}
func (b *Builder) v2Allowed() bool  { return b.Child >= b.C.Net.HardforkV2.AllowHeight }
func (b *Builder) maturity() uint64 { return b.Child + b.C.Net.MaturityDelay }
func (b *Builder) label(l string)   { b.Exp.Labels = append(b.Exp.Labels, l) }

func (b *Builder) drawLock(name string, preferV1 bool) Lock {
	t := b.T
	var kind int
	if preferV1 && rapid.IntRange(0, 3).Draw(t, name+"v1bias") != 0 {
		kind = rapid.IntRange(0, NumV1Kinds-1).Draw(t, name+"kind")
	} else {
		kind = rapid.IntRange(0, len(LockKinds)-1).Draw(t, name+"kind")
	}
	if preferV1 && rapid.IntRange(0, 11).Draw(t, name+"bigMultisig") == 0 {
		kind = KindIndex("v1-2of70-high-keys")
	}
	spec := LockSpec{Kind: kind, K1: rapid.IntRange(0, NumKeys-1).Draw(t, name+"k1"), K2: rapid.IntRange(0, NumKeys-1).Draw(t, name+"k2")}
	switch LockKinds[kind] {
	case "v1-1of2-timelock", "above-and-pk":
		spec.Height = b.Child + uint64(rapid.IntRange(0, 4).Draw(t, name+"lockHeight"))
		if rapid.IntRange(0, 3).Draw(t, name+"lockPast") == 0 {
			spec.Height = uint64(rapid.IntRange(0, int(b.Child)).Draw(t, name+"lockHeightPast"))
		}
	case "after-and-pk":
		spec.Time = b.CS.PrevTimestamps[0].Unix() + int64(rapid.IntRange(-2, 4).Draw(t, name+"lockTime"))*int64(b.C.Net.BlockInterval/time.Second)
	}
	return b.W.Reg(MakeLock(spec))
}

// split cuts total into n parts, each >= 1 hasting (total must be >= n).
func split(t *rapid.T, name string, total *big.Int, n int) []*big.Int {
	parts := make([]*big.Int, n)
	rest := new(big.Int).Set(total)
	for i := 0; i < n-1; i++ {
		// keep at least 1 for each remaining part
		maxPart := new(big.Int).Sub(rest, big.NewInt(int64(n-1-i)))
		pm := rapid.IntRange(1, 999).Draw(t, name+"pm")
		p := new(big.Int).Mul(maxPart, big.NewInt(int64(pm)))
		p.Quo(p, big.NewInt(1000))
		if p.Sign() <= 0 {
			p = big.NewInt(1)
		}
		parts[i] = p
		rest.Sub(rest, p)
	}
	parts[n-1] = rest
	return parts
}

func cur(b *big.Int) types.Currency {
	c, ok := ref.Cur(b)
	if !ok {
		panic("simulator value out of range")
	}
	return c
}

type scCand struct {
	el   types.SiacoinElement
	lock Lock
	eph  bool
}

// spendableSC lists candidate siacoin parents for a transaction of the given version.
func (b *Builder) spendableSC(v2 bool) []scCand {
	var out []scCand
	for _, e := range b.C.Store.SortedSC() {
		if b.usedSC[e.ID] || e.MaturityHeight > b.Child {
			continue
		}
		l, ok := b.W.Locks[e.SiacoinOutput.Address]
		if !ok || !l.Spendable(v2, b.Child, b.Median) {
			continue
		}
		out = append(out, scCand{el: e.Copy(), lock: l})
	}
	if b.AllowEphemeral {
		for _, ep := range b.eph {
			if ep.sc == nil || b.usedSC[ep.sc.ID] || ep.sc.MaturityHeight > b.Child || (ep.v2 && !v2) {
				continue // (v1 transactions precede all v2 transactions of a block)
			}
			l, ok := b.W.Locks[ep.sc.SiacoinOutput.Address]
			if !ok || !l.Spendable(v2, b.Child, b.Median) {
				continue
			}
			out = append(out, scCand{el: ep.sc.Copy(), lock: l, eph: true})
		}
	}
	return out
}

// pickInputs draws 1..max candidates whose total is at least `need`.
func (b *Builder) pickInputs(name string, v2 bool, need *big.Int, max int) ([]scCand, *big.Int, bool) {
	cands := b.spendableSC(v2)
	if len(cands) == 0 {
		return nil, nil, false
	}
	var picked []scCand
	total := new(big.Int)
	want := rapid.IntRange(1, max).Draw(b.T, name+"nIn")
	for len(cands) > 0 && (len(picked) < want || total.Cmp(need) < 0) && len(picked) < 6 {
		i := rapid.IntRange(0, len(cands)-1).Draw(b.T, name+"in")
		picked = append(picked, cands[i])
		total.Add(total, ref.Big(cands[i].el.SiacoinOutput.Value))
		cands = append(cands[:i], cands[i+1:]...)
	}
	if total.Cmp(need) < 0 || total.Sign() == 0 {
		return nil, nil, false
	}
	for _, p := range picked {
		b.usedSC[p.el.ID] = true
		if p.eph {
			b.label("ephemeral-spend")
		}
	}
	return picked, total, true
}

func (b *Builder) expectSpentSC(id types.SiacoinOutputID) { b.Exp.SpentSC = append(b.Exp.SpentSC, id) }

func (b *Builder) expectSC(id types.SiacoinOutputID, o types.SiacoinOutput, maturity uint64, why string) {
	b.Exp.CreatedSC = append(b.Exp.CreatedSC, ExpSC{ID: id, Value: o.Value, Address: o.Address, Maturity: maturity, Why: why})
}

func (b *Builder) txnIndex() int { return len(b.V1) + len(b.V2) }

// ---------------------------------------------------------------------------------------
// v1 actions

func (b *Builder) v1Inputs(picked []scCand) []types.SiacoinInput {
	var ins []types.SiacoinInput
	for _, p := range picked {
		ins = append(ins, types.SiacoinInput{ParentID: p.el.ID, UnlockConditions: *p.lock.UC})
		b.expectSpentSC(p.el.ID)
	}
	return ins
}

func (b *Builder) finishV1(txn types.Transaction) {
	mode := rapid.IntRange(0, 5).Draw(b.T, "partialSig")
	partial := mode == 0
	if mode == 1 && SignV1Covering(b.CS, &txn) {
		b.label("v1-whole-signature-covering-other-signatures")
	} else {
		SignV1(b.CS, &txn, partial)
		if partial {
			b.label("v1-partial-coverage")
		}
	}
	idx := b.txnIndex()
	for i, o := range txn.SiacoinOutputs {
		id := txn.SiacoinOutputID(i)
		b.expectSC(id, o, 0, "v1 txn output")
		b.eph = append(b.eph, ephOut{sc: &types.SiacoinElement{ID: id, SiacoinOutput: o, StateElement: types.StateElement{LeafIndex: types.UnassignedLeafIndex}}, created: idx})
	}
	for i, o := range txn.SiafundOutputs {
		id := txn.SiafundOutputID(i)
		b.Exp.CreatedSF = append(b.Exp.CreatedSF, ExpSF{ID: id, Value: o.Value, Address: o.Address, ClaimStart: cur(b.pool)})
		b.eph = append(b.eph, ephOut{sf: &types.SiafundElement{ID: id, SiafundOutput: o, ClaimStart: cur(b.pool), StateElement: types.StateElement{LeafIndex: types.UnassignedLeafIndex}}, created: idx})
	}
	for _, f := range txn.MinerFees {
		b.fees.Add(b.fees, ref.Big(f))
	}
	b.V1 = append(b.V1, txn)
}

// outputsFor distributes `amount` over 1..3 outputs (each >= 1 H) under drawn locks.
func (b *Builder) outputsFor(name string, amount *big.Int, preferV1 bool) []types.SiacoinOutput {
	if amount.Sign() == 0 {
		return nil
	}
	n := rapid.IntRange(1, 3).Draw(b.T, name+"nOut")
	if amount.Cmp(big.NewInt(int64(n))) < 0 {
		n = 1
	}
	var outs []types.SiacoinOutput
	for _, p := range split(b.T, name, amount, n) {
		outs = append(outs, types.SiacoinOutput{Value: cur(p), Address: b.drawLock(name+"to", preferV1).Address()})
	}
	return outs
}

func (b *Builder) drawFees(name string, avail *big.Int) ([]types.Currency, *big.Int) {
	n := rapid.IntRange(0, 2).Draw(b.T, name+"nFee")
	var fees []types.Currency
	total := new(big.Int)
	for i := 0; i < n; i++ {
		f := big.NewInt(int64(rapid.IntRange(1, 1_000_000).Draw(b.T, name+"fee")))
		if new(big.Int).Add(total, f).Cmp(avail) >= 0 {
			break
		}
		fees = append(fees, cur(f))
		total.Add(total, f)
	}
	return fees, total
}

// V1Pay builds a plain v1 payment.
func (b *Builder) V1Pay() bool {
	if !b.v1Allowed() {
		return false
	}
	picked, total, ok := b.pickInputs("v1pay", false, big.NewInt(2), 3)
	if !ok {
		return false
	}
	var txn types.Transaction
	txn.SiacoinInputs = b.v1Inputs(picked)
	fees, feeSum := b.drawFees("v1pay", total)
	txn.MinerFees = fees
	txn.SiacoinOutputs = b.outputsFor("v1pay", new(big.Int).Sub(total, feeSum), true)
	if rapid.IntRange(0, 3).Draw(b.T, "v1arb") == 0 {
		txn.ArbitraryData = [][]byte{rapid.SliceOfN(rapid.Byte(), 0, 40).Draw(b.T, "arb")}
		for k := rapid.IntRange(0, 2).Draw(b.T, "arbMore"); k > 0; k-- {
			// several entries: their boundaries are signed content too
			txn.ArbitraryData = append(txn.ArbitraryData, rapid.SliceOfN(rapid.Byte(), 0, 12).Draw(b.T, "arbEntry"))
		}
	}
	b.label("v1-pay")
	b.finishV1(txn)
	return true
}

type sfCand struct {
	el   types.SiafundElement
	lock Lock
	eph  bool
	dev  bool
}

func (b *Builder) spendableSF(v2 bool) []sfCand {
	var out []sfCand
	consider := func(e types.SiafundElement, eph bool) {
		if b.usedSF[e.ID] {
			return
		}
		if !v2 && e.SiafundOutput.Address == b.C.Net.HardforkDevAddr.OldAddress && b.Child >= b.C.Net.HardforkDevAddr.Height {
			if l, ok := b.W.Locks[b.C.Net.HardforkDevAddr.NewAddress]; ok && l.Spendable(false, b.Child, b.Median) {
				out = append(out, sfCand{el: e.Copy(), lock: l, eph: eph, dev: true})
				return
			}
		}
		l, ok := b.W.Locks[e.SiafundOutput.Address]
		if !ok || !l.Spendable(v2, b.Child, b.Median) {
			return
		}
		out = append(out, sfCand{el: e.Copy(), lock: l, eph: eph})
	}
	for _, e := range b.C.Store.SortedSF() {
		consider(e, false)
	}
	if b.AllowEphemeral {
		for _, ep := range b.eph {
			// v2 transactions may spend ephemeral siafund outputs only below the fix height
			if ep.sf != nil && (v2 || !ep.v2) && (!v2 || b.Child < b.C.Net.HardforkV2.EphemeralOutputHeight) {
				consider(*ep.sf, true)
			}
		}
	}
	return out
}

// V1Siafunds moves siafunds in a v1 transaction (and claims the accrued tax).
func (b *Builder) V1Siafunds() bool {
	if !b.v1Allowed() {
		return false
	}
	cands := b.spendableSF(false)
	if len(cands) == 0 {
		return false
	}
	c := cands[rapid.IntRange(0, len(cands)-1).Draw(b.T, "sfIn")]
	b.usedSF[c.el.ID] = true
	claimTo := b.drawLock("sfClaim", true).Address()
	var txn types.Transaction
	txn.SiafundInputs = []types.SiafundInput{{ParentID: c.el.ID, UnlockConditions: *c.lock.UC, ClaimAddress: claimTo}}
	b.Exp.SpentSF = append(b.Exp.SpentSF, c.el.ID)
	v := c.el.SiafundOutput.Value
	if v >= 2 && rapid.Bool().Draw(b.T, "sfSplit") {
		a := uint64(rapid.IntRange(1, int(v)-1).Draw(b.T, "sfA"))
		txn.SiafundOutputs = []types.SiafundOutput{{Value: a, Address: b.drawLock("sfTo1", true).Address()}, {Value: v - a, Address: b.drawLock("sfTo2", true).Address()}}
	} else {
		txn.SiafundOutputs = []types.SiafundOutput{{Value: v, Address: b.drawLock("sfTo", true).Address()}}
	}
	claim := ref.ClaimValue(b.pool, ref.Big(c.el.ClaimStart), v)
	b.expectSC(c.el.ID.ClaimOutputID(), types.SiacoinOutput{Value: cur(claim), Address: claimTo}, b.maturity(), "v1 siafund claim")
	b.label("v1-siafund-claim")
	if c.dev {
		b.label("v1-devaddr-override")
	}
	if c.eph {
		b.label("ephemeral-siafund-spend")
	}
	b.finishV1(txn)
	return true
}

// drawFile draws contract data of an interesting size and registers it by root.
func (b *Builder) drawFile(name string) ([]byte, types.Hash256) {
	t := b.T
	if b.W.Sectors > 0 && rapid.IntRange(0, 3).Draw(t, name+"sectorFile") != 0 {
		// whole sectors, as hosts store them; few distinct files so that the expensive trees are shared
		k := rapid.IntRange(1, b.W.Sectors).Draw(t, name+"sectors")
		seed := uint64(rapid.IntRange(0, 2).Draw(t, name+"sectorSeed"))
		data, root := SectorFileCached(seed, k)
		b.W.Files[root] = data
		return data, root
	}
	var size int
	switch rapid.IntRange(0, 7).Draw(t, name+"sizeClass") {
	case 0:
		size = 0
	case 1:
		size = rapid.IntRange(1, 63).Draw(t, name+"size")
	case 2:
		size = 64 * rapid.IntRange(1, 9).Draw(t, name+"size")
	case 3:
		size = 64*rapid.IntRange(1, 9).Draw(t, name+"size") + rapid.IntRange(1, 63).Draw(t, name+"rem")
	case 4:
		size = 64 << uint(rapid.IntRange(0, 5).Draw(t, name+"pow"))
	case 5:
		size = 64<<uint(rapid.IntRange(1, 5).Draw(t, name+"pow")) + 64*rapid.SampledFrom([]int{-1, 1}).Draw(t, name+"pm")
	default:
		size = rapid.IntRange(0, 700).Draw(t, name+"size")
	}
	seed := rapid.Byte().Draw(t, name+"fill")
	data := make([]byte, size)
	// pseudo-random fill keyed by (seed, size): distinct files share no leaves, so a proof for one
	// file is never by accident a proof for another
	for off := 0; off < size; off += 32 {
		blk := sha256.Sum256([]byte{seed, byte(size), byte(size >> 8), byte(size >> 16), byte(off >> 5), byte(off >> 13)})
		copy(data[off:], blk[:])
	}
	root := types.Hash256(ref.FileRoot(data))
	b.W.Files[root] = data
	return data, root
}

// drawHugeFile commits to a virtual file whose size sits on an edge of the 64-bit size arithmetic: within 64 bytes of
// 2^64 (the leaf count rounds up to 2^58), around 2^63 and 2^32 leaves, and non-power-of-two leaf counts in between.
// A handful of leaves (first, last, and pseudo-random positions) carry data, so that the two halves of every upper
// level of the tree differ and a proof for one position is not by accident a proof for another.
func (b *Builder) drawHugeFile(name string) (uint64, types.Hash256) {
	t := b.T
	var size uint64
	switch rapid.IntRange(0, 5).Draw(t, name+"hugeClass") {
	case 0:
		size = ^uint64(0) - uint64(rapid.IntRange(0, 62).Draw(t, name+"hugeTop")) // numLeaves = 2^58, partial last leaf
	case 1:
		size = ^uint64(0) - 63 - uint64(rapid.IntRange(0, 130).Draw(t, name+"hugeTop2")) // around the last whole leaf
	case 2:
		size = 1<<63 + uint64(rapid.IntRange(0, 200).Draw(t, name+"huge63")) - 100
	case 3:
		size = 64<<32 + uint64(rapid.IntRange(0, 200).Draw(t, name+"huge32")) - 100 // about 2^32 leaves
	case 4:
		size = uint64(rapid.Uint64Range(1<<40, 1<<62).Draw(t, name+"hugeAny"))
	default:
		size = 64 * (uint64(1)<<uint(rapid.IntRange(20, 57).Draw(t, name+"hugePow")) + uint64(rapid.IntRange(0, 2).Draw(t, name+"hugePm")) - 1)
	}
	n := ref.NumLeaves64(size)
	seed := rapid.Byte().Draw(t, name+"hugeSeed")
	marks := map[uint64][64]byte{}
	content := func(i uint64) (c [64]byte) {
		h1 := sha256.Sum256([]byte{seed, 1, byte(i), byte(i >> 8), byte(i >> 16), byte(i >> 24), byte(i >> 32), byte(i >> 40), byte(i >> 48), byte(i >> 56)})
		h2 := sha256.Sum256(h1[:])
		copy(c[:32], h1[:])
		copy(c[32:], h2[:])
		if i == n-1 && size%64 != 0 {
			for j := size % 64; j < 64; j++ {
				c[j] = 0 // bytes past the end of the file are zero
			}
		}
		return c
	}
	for _, i := range []uint64{0, n - 1, n / 2, n/2 - 1, n / 3, n / 5 * 4, n>>7 + 1} {
		if i < n {
			marks[i] = content(i)
		}
	}
	f := ref.NewSparseFile(size, marks)
	root := types.Hash256(f.Root())
	b.W.Sparse[root] = f
	return size, root
}

// V1Form creates a v1 file contract.
func (b *Builder) V1Form() bool {
	if !b.v1Allowed() {
		return false
	}
	t := b.T
	payout := new(big.Int).Mul(big.NewInt(int64(rapid.IntRange(1, 1_000_000).Draw(t, "payoutMant"))), new(big.Int).Exp(big.NewInt(10), big.NewInt(int64(rapid.IntRange(4, 26).Draw(t, "payoutExp"))), nil))
	payout.Add(payout, big.NewInt(int64(rapid.IntRange(0, 20000).Draw(t, "payoutDust"))))
	tax := ref.TaxV1(cur(payout), b.Child < b.C.Net.HardforkTax.Height)
	validSum := new(big.Int).Sub(payout, tax)
	if validSum.Cmp(big.NewInt(4)) < 0 {
		return false
	}
	fees, feeSum := b.drawFees("v1form", big.NewInt(1<<40))
	need := new(big.Int).Add(payout, feeSum)
	picked, total, ok := b.pickInputs("v1form", false, need, 2)
	if !ok {
		return false
	}
	data, root := b.drawFile("v1form")
	filesize := uint64(len(data))
	if b.W.Huge && rapid.IntRange(0, 5).Draw(t, "v1formHuge") == 0 {
		filesize, root = b.drawHugeFile("v1form")
		b.label("huge-file")
	}
	ws := b.Child + uint64(rapid.IntRange(0, 5).Draw(t, "ws"))
	we := ws + uint64(rapid.IntRange(1, 4).Draw(t, "we"))
	owner := b.W.Reg(MakeLock(LockSpec{Kind: rapid.SampledFrom([]int{0, 1, 3, 4}).Draw(t, "fcLockKind"), K1: rapid.IntRange(0, NumKeys-1).Draw(t, "fck1"), K2: rapid.IntRange(0, NumKeys-1).Draw(t, "fck2")}))
	vp := split(t, "valid", validSum, 2)
	mp := split(t, "missed", validSum, rapid.IntRange(2, 3).Draw(t, "nMissed"))
	fc := types.FileContract{
		Filesize: filesize, FileMerkleRoot: root, WindowStart: ws, WindowEnd: we, Payout: cur(payout),
		UnlockHash: owner.Address(), RevisionNumber: uint64(rapid.IntRange(0, 3).Draw(t, "rev0")),
	}
	for i, p := range vp {
		fc.ValidProofOutputs = append(fc.ValidProofOutputs, types.SiacoinOutput{Value: cur(p), Address: MakeLock(LockSpec{Kind: 0, K1: i}).Address()})
	}
	for i, p := range mp {
		addr := MakeLock(LockSpec{Kind: 0, K1: i + 2}).Address()
		if i == 2 {
			addr = types.VoidAddress
		}
		fc.MissedProofOutputs = append(fc.MissedProofOutputs, types.SiacoinOutput{Value: cur(p), Address: addr})
	}
	var txn types.Transaction
	txn.SiacoinInputs = b.v1Inputs(picked)
	txn.FileContracts = []types.FileContract{fc}
	txn.MinerFees = fees
	txn.SiacoinOutputs = b.outputsFor("v1formChange", new(big.Int).Sub(total, need), true)
	id := txn.FileContractID(0)
	c := b.Exp.contract(id, false)
	c.Formed, c.FinalRev = true, fc.RevisionNumber
	b.pool.Add(b.pool, tax)
	b.Exp.TaxAdded = cur(new(big.Int).Add(ref.Big(b.Exp.TaxAdded), tax))
	b.usedFC[id] = true
	b.label("v1-form")
	b.finishV1(txn)
	return true
}

// V1Revise revises a live v1 contract whose window has not opened.
func (b *Builder) V1Revise() bool {
	if !b.v1Allowed() {
		return false
	}
	t := b.T
	var cands []types.FileContractElement
	for _, e := range b.C.Store.SortedFC() {
		l, ok := b.W.Locks[e.FileContract.UnlockHash]
		if b.usedFC[e.ID] || !ok || !l.Spendable(false, b.Child, b.Median) || e.FileContract.WindowStart < b.Child || e.FileContract.RevisionNumber == types.MaxRevisionNumber {
			continue
		}
		cands = append(cands, e)
	}
	if len(cands) == 0 {
		return false
	}
	e := cands[rapid.IntRange(0, len(cands)-1).Draw(t, "fcRev")]
	b.usedFC[e.ID] = true
	fc := e.FileContract
	rev := fc
	rev.RevisionNumber = fc.RevisionNumber + uint64(rapid.IntRange(1, 5).Draw(t, "revInc"))
	if rapid.IntRange(0, 9).Draw(t, "revMax") == 0 {
		rev.RevisionNumber = types.MaxRevisionNumber
	}
	// move value between the first two valid outputs and between missed outputs, sums kept
	rev.ValidProofOutputs = append([]types.SiacoinOutput(nil), fc.ValidProofOutputs...)
	rev.MissedProofOutputs = append([]types.SiacoinOutput(nil), fc.MissedProofOutputs...)
	shift := func(outs []types.SiacoinOutput, name string) {
		if len(outs) < 2 {
			return
		}
		a := ref.Big(outs[0].Value)
		d := new(big.Int).Mul(a, big.NewInt(int64(rapid.IntRange(0, 1000).Draw(t, name))))
		d.Quo(d, big.NewInt(1000))
		outs[0].Value = cur(new(big.Int).Sub(a, d))
		outs[1].Value = cur(new(big.Int).Add(ref.Big(outs[1].Value), d))
	}
	shift(rev.ValidProofOutputs, "shiftValid")
	shift(rev.MissedProofOutputs, "shiftMissed")
	if rapid.Bool().Draw(t, "revData") {
		data, root := b.drawFile("v1rev")
		rev.Filesize, rev.FileMerkleRoot = uint64(len(data)), root
	}
	if rapid.IntRange(0, 3).Draw(t, "revWindow") == 0 {
		rev.WindowStart = b.Child + uint64(rapid.IntRange(0, 4).Draw(t, "revWs"))
		rev.WindowEnd = rev.WindowStart + uint64(rapid.IntRange(1, 4).Draw(t, "revWe"))
	}
	l := b.W.Locks[fc.UnlockHash]
	if rapid.IntRange(0, 4).Draw(t, "revHandOver") == 0 {
		// the parties hand the contract over to other keys: revealed and signed are the current conditions, the
		// revision commits to the new ones
		if nl := b.drawLock("revHandOverTo", true); nl.UC != nil && nl.Address() != fc.UnlockHash {
			rev.UnlockHash = nl.Address()
			b.label("v1-revise-hands-contract-over")
		}
	}
	var txn types.Transaction
	txn.FileContractRevisions = []types.FileContractRevision{{ParentID: e.ID, UnlockConditions: *l.UC, FileContract: rev}}
	c := b.Exp.contract(e.ID, false)
	c.Revised, c.FinalRev = true, rev.RevisionNumber
	b.label("v1-revise")
	b.finishV1(txn)
	b.revisedV1[e.ID] = rev
	return true
}

// V1ProofFor builds the honest storage proof transaction for contract e in the child block.
func (b *Builder) V1ProofFor(e types.FileContractElement, windowID types.BlockID) (types.Transaction, bool) {
	if sf, ok := b.W.Sparse[e.FileContract.FileMerkleRoot]; ok && sf.Size == e.FileContract.Filesize {
		sp := types.StorageProof{ParentID: e.ID}
		leaf, path := sf.Proof(ref.ChallengeIndex(sf.Size, windowID, e.ID))
		sp.Leaf = leaf
		for _, h := range path {
			sp.Proof = append(sp.Proof, types.Hash256(h))
		}
		return types.Transaction{StorageProofs: []types.StorageProof{sp}}, true
	}
	data, ok := b.W.Files[e.FileContract.FileMerkleRoot]
	if !ok || uint64(len(data)) != e.FileContract.Filesize {
		return types.Transaction{}, false
	}
	sp := types.StorageProof{ParentID: e.ID}
	if len(data) > 0 {
		idx := ref.ChallengeIndex(e.FileContract.Filesize, windowID, e.ID)
		if b.W.LibProver && IsSectorFile(data) {
			sp.Leaf, sp.Proof = LibFileProof(data, idx)
		} else {
			leaf, path := RefProof(data, e.FileContract.FileMerkleRoot, int(idx))
			sp.Leaf = leaf
			for _, h := range path {
				sp.Proof = append(sp.Proof, types.Hash256(h))
			}
		}
	}
	return types.Transaction{StorageProofs: []types.StorageProof{sp}}, true
}

// V1Era returns the storage-proof leaf era of the child height: "A", "B" or "C".
func (b *Builder) V1Era() string {
	switch {
	case b.Child < b.C.Net.HardforkTax.Height:
		return "A"
	case b.Child < b.C.Net.HardforkStorageProof.Height:
		return "B"
	}
	return "C"
}

// EraBHonestProofFails reports the documented legacy cases of era B in which the honest
// proof is not accepted (exact-multiple file challenged on its last leaf; empty file).
func EraBHonestProofFails(filesize uint64, idx uint64) bool {
	if filesize == 0 {
		return true
	}
	return filesize%64 == 0 && idx == filesize/64-1
}

// V1Prove submits a storage proof for a live contract whose window is open.
func (b *Builder) V1Prove() bool {
	if !b.v1Allowed() {
		return false
	}
	var cands []types.FileContractElement
	for _, e := range b.C.Store.SortedFC() {
		fc := e.FileContract
		if b.usedFC[e.ID] || fc.WindowStart > b.Child || fc.WindowEnd < b.Child || fc.WindowStart == 0 {
			continue
		}
		cands = append(cands, e)
	}
	if len(cands) == 0 {
		return false
	}
	// one transaction may carry the proofs of several contracts (a host proving all its contracts of the window at once)
	var all types.Transaction
	proofs := 0
	want := 1
	if len(cands) > 1 && rapid.Bool().Draw(b.T, "fcProveSeveral") {
		want = 3
	}
	for proofs < want && len(cands) > 0 {
		ci := rapid.IntRange(0, len(cands)-1).Draw(b.T, "fcProve")
		e := cands[ci]
		cands = append(cands[:ci:ci], cands[ci+1:]...)
		txn, ok := b.v1ProveOne(e)
		if !ok {
			if proofs == 0 && want == 1 {
				return false
			}
			continue
		}
		all.StorageProofs = append(all.StorageProofs, txn.StorageProofs...)
		proofs++
	}
	if proofs == 0 {
		return false
	}
	if proofs > 1 {
		b.label(fmt.Sprintf("v1-%d-proofs-in-one-transaction", proofs))
	}
	b.finishV1(all)
	return true
}

// v1ProveOne prepares the honest storage proof of one provable contract and books its expected payouts.
func (b *Builder) v1ProveOne(e types.FileContractElement) (types.Transaction, bool) {
	windowID := b.C.Store.CI[e.FileContract.WindowStart-1].ChainIndex.ID
	txn, ok := b.V1ProofFor(e, windowID)
	if !ok {
		return types.Transaction{}, false
	}
	if b.V1Era() == "B" {
		idx := ref.ChallengeIndex(e.FileContract.Filesize, windowID, e.ID)
		if EraBHonestProofFails(e.FileContract.Filesize, idx) {
			return types.Transaction{}, false // documented legacy window: no completeness claim
		}
	}
	if b.V1Era() == "A" && e.FileContract.Filesize == 0 {
		return types.Transaction{}, false // no leaf exists to prove; era A has no empty-file rule
	}
	b.usedFC[e.ID] = true
	c := b.Exp.contract(e.ID, false)
	c.Resolved = "proof"
	for i, o := range e.FileContract.ValidProofOutputs {
		b.expectSC(e.ID.ValidOutputID(i), o, b.maturity(), "v1 valid proof output")
	}
	b.label("v1-proof-era-" + b.V1Era())
	if n := ref.NumLeaves64(e.FileContract.Filesize); n&(n-1) != 0 {
		b.label("v1-proof-non-pow2-leaves")
	}
	if b.W.LibProver && IsSectorFile(b.W.Files[e.FileContract.FileMerkleRoot]) {
		b.label(fmt.Sprintf("v1-proof-by-library-prover-over-%d-sectors", e.FileContract.Filesize/SectorSize))
	}
	if _, ok := b.W.Sparse[e.FileContract.FileMerkleRoot]; ok {
		b.label("v1-proof-of-huge-file")
	}
	return txn, true
}

// V1Foundation updates the Foundation addresses via arbitrary data.
func (b *Builder) V1Foundation() bool {
	if !b.v1Allowed() {
		return false
	}
	if b.Child < b.C.Net.HardforkFoundation.Height {
		return false
	}
	// need an input controlled by the current subsidy or management address
	var cand *scCand
	for _, c := range b.spendableSC(false) {
		if a := c.el.SiacoinOutput.Address; (a == b.CS.FoundationSubsidyAddress || a == b.CS.FoundationManagementAddress) && !c.el.SiacoinOutput.Value.IsZero() {
			cc := c
			cand = &cc
			break
		}
	}
	if cand == nil {
		return false
	}
	b.usedSC[cand.el.ID] = true
	np := MakeLock(LockSpec{Kind: 0, K1: rapid.IntRange(0, NumKeys-1).Draw(b.T, "newPrimary")}).Address()
	nf := MakeLock(LockSpec{Kind: 0, K1: rapid.IntRange(0, NumKeys-1).Draw(b.T, "newFailsafe")}).Address()
	var buf bytes.Buffer
	e := types.NewEncoder(&buf)
	types.SpecifierFoundation.EncodeTo(e)
	types.FoundationAddressUpdate{NewPrimary: np, NewFailsafe: nf}.EncodeTo(e)
	e.Flush()
	var txn types.Transaction
	txn.SiacoinInputs = b.v1Inputs([]scCand{*cand})
	txn.SiacoinOutputs = []types.SiacoinOutput{{Value: cand.el.SiacoinOutput.Value, Address: b.drawLock("fndChange", true).Address()}}
	txn.ArbitraryData = [][]byte{buf.Bytes()}
	SignV1(b.CS, &txn, false)
	// applied only if the parent height has reached the fork height
	if b.CS.Index.Height >= b.C.Net.HardforkFoundation.Height && b.CS.Index.Height != ^uint64(0) {
		b.fSubsidy, b.fMgmt = np, nf
	}
	b.label("v1-foundation-update")
	// finishV1 re-signs (whole transaction is required for foundation updates)
	idx := b.txnIndex()
	for i, o := range txn.SiacoinOutputs {
		id := txn.SiacoinOutputID(i)
		b.expectSC(id, o, 0, "v1 txn output")
		b.eph = append(b.eph, ephOut{sc: &types.SiacoinElement{ID: id, SiacoinOutput: o, StateElement: types.StateElement{LeafIndex: types.UnassignedLeafIndex}}, created: idx})
	}
	b.V1 = append(b.V1, txn)
	return true
}

// ---------------------------------------------------------------------------------------
// v2 actions

func (b *Builder) v2Inputs(picked []scCand) []types.V2SiacoinInput {
	var ins []types.V2SiacoinInput
	for _, p := range picked {
		sp, _ := Satisfy(p.lock.Policy, types.Hash256{}, b.CS.Index.Height, b.Median)
		parent := p.el.Copy()
		if b.W.StrayProofs && parent.StateElement.LeafIndex == types.UnassignedLeafIndex && rapid.IntRange(0, 2).Draw(b.T, "strayProof") == 0 {
			// an ephemeral parent has no accumulator position; a proof attached to it is neither validated nor signed,
			// so a (sloppy or hostile) sender may leave anything there and the block stays valid
			for k := rapid.IntRange(1, 3).Draw(b.T, "strayLen"); k > 0; k-- {
				parent.StateElement.MerkleProof = append(parent.StateElement.MerkleProof, types.Hash256{0xEE, byte(k)})
			}
			b.label("ephemeral-parent-with-stray-proof")
		}
		ins = append(ins, types.V2SiacoinInput{Parent: parent, SatisfiedPolicy: sp})
		b.expectSpentSC(p.el.ID)
	}
	return ins
}

func (b *Builder) finishV2(txn types.V2Transaction, opts SignOpts) {
	SignV2(b.CS, &txn, opts)
	txid := txn.ID()
	idx := b.txnIndex()
	for i, o := range txn.SiacoinOutputs {
		id := txn.SiacoinOutputID(txid, i)
		b.expectSC(id, o, 0, "v2 txn output")
		e := txn.EphemeralSiacoinOutput(i)
		b.eph = append(b.eph, ephOut{sc: &e, v2: true, created: idx})
	}
	for i, o := range txn.SiafundOutputs {
		id := txn.SiafundOutputID(txid, i)
		b.Exp.CreatedSF = append(b.Exp.CreatedSF, ExpSF{ID: id, Value: o.Value, Address: o.Address, ClaimStart: cur(b.pool)})
		e := txn.EphemeralSiafundOutput(i)
		e.ClaimStart = cur(b.pool)
		b.eph = append(b.eph, ephOut{sf: &e, v2: true, created: idx})
	}
	b.fees.Add(b.fees, ref.Big(txn.MinerFee))
	b.V2 = append(b.V2, txn)
}

func (b *Builder) drawFeeV2(name string) *big.Int {
	if rapid.IntRange(0, 3).Draw(b.T, name+"zeroFee") == 0 {
		return new(big.Int)
	}
	return big.NewInt(int64(rapid.IntRange(1, 1_000_000).Draw(b.T, name+"fee")))
}

// V2Pay builds a v2 payment.
func (b *Builder) V2Pay() bool {
	if !b.v2Allowed() {
		return false
	}
	fee := b.drawFeeV2("v2pay")
	picked, total, ok := b.pickInputs("v2pay", true, new(big.Int).Add(fee, big.NewInt(1)), 3)
	if !ok {
		return false
	}
	var txn types.V2Transaction
	txn.SiacoinInputs = b.v2Inputs(picked)
	txn.MinerFee = cur(fee)
	txn.SiacoinOutputs = b.outputsFor("v2pay", new(big.Int).Sub(total, fee), false)
	if rapid.IntRange(0, 3).Draw(b.T, "v2arb") == 0 {
		txn.ArbitraryData = rapid.SliceOfN(rapid.Byte(), 1, 40).Draw(b.T, "arb")
	}
	for _, p := range picked {
		b.label("v2-spend-" + p.lock.Kind)
	}
	b.label("v2-pay")
	b.finishV2(txn, SignOpts{})
	return true
}

// V2Siafunds moves siafunds in a v2 transaction.
func (b *Builder) V2Siafunds() bool {
	if !b.v2Allowed() {
		return false
	}
	cands := b.spendableSF(true)
	if len(cands) == 0 {
		return false
	}
	c := cands[rapid.IntRange(0, len(cands)-1).Draw(b.T, "sfIn2")]
	b.usedSF[c.el.ID] = true
	claimTo := b.drawLock("sfClaim2", false).Address()
	sp, _ := Satisfy(c.lock.Policy, types.Hash256{}, b.CS.Index.Height, b.Median)
	var txn types.V2Transaction
	txn.SiafundInputs = []types.V2SiafundInput{{Parent: c.el.Copy(), ClaimAddress: claimTo, SatisfiedPolicy: sp}}
	b.Exp.SpentSF = append(b.Exp.SpentSF, c.el.ID)
	v := c.el.SiafundOutput.Value
	if v >= 2 && rapid.Bool().Draw(b.T, "sfSplit2") {
		a := uint64(rapid.IntRange(1, int(v)-1).Draw(b.T, "sfA2"))
		txn.SiafundOutputs = []types.SiafundOutput{{Value: a, Address: b.drawLock("sf2To1", false).Address()}, {Value: v - a, Address: b.drawLock("sf2To2", false).Address()}}
	} else {
		txn.SiafundOutputs = []types.SiafundOutput{{Value: v, Address: b.drawLock("sf2To", false).Address()}}
	}
	claim := ref.ClaimValue(b.pool, ref.Big(c.el.ClaimStart), v)
	b.expectSC(c.el.ID.V2ClaimOutputID(), types.SiacoinOutput{Value: cur(claim), Address: claimTo}, b.maturity(), "v2 siafund claim")
	b.label("v2-siafund-claim")
	if c.eph {
		b.label("ephemeral-siafund-spend")
	}
	b.finishV2(txn, SignOpts{})
	return true
}

func (b *Builder) drawV2Contract(name string) types.V2FileContract {
	t := b.T
	data, root := b.drawFile(name)
	renter := new(big.Int).Mul(big.NewInt(int64(rapid.IntRange(0, 1_000_000).Draw(t, name+"renter"))), new(big.Int).Exp(big.NewInt(10), big.NewInt(int64(rapid.IntRange(0, 24).Draw(t, name+"rexp"))), nil))
	host := new(big.Int).Mul(big.NewInt(int64(rapid.IntRange(1, 1_000_000).Draw(t, name+"host"))), new(big.Int).Exp(big.NewInt(10), big.NewInt(int64(rapid.IntRange(0, 24).Draw(t, name+"hexp"))), nil))
	collateral := new(big.Int).Mul(host, big.NewInt(int64(rapid.IntRange(0, 1000).Draw(t, name+"coll"))))
	collateral.Quo(collateral, big.NewInt(1000))
	missed := new(big.Int).Mul(host, big.NewInt(int64(rapid.IntRange(0, 1000).Draw(t, name+"missed"))))
	missed.Quo(missed, big.NewInt(1000))
	ph := b.Child + uint64(rapid.IntRange(0, 5).Draw(t, name+"ph"))
	if b.alignPH != 0 {
		ph = b.alignPH // a batch of contracts formed together for the same period
	}
	filesize, capacity := uint64(len(data)), uint64(len(data))+uint64(rapid.IntRange(0, 128).Draw(t, name+"slack"))
	if b.W.Huge && rapid.IntRange(0, 5).Draw(t, name+"Huge") == 0 {
		filesize, root = b.drawHugeFile(name)
		capacity = filesize
		if rapid.Bool().Draw(t, name+"HugeCapMax") {
			capacity = ^uint64(0)
		}
		b.label("huge-file")
	}
	fc := types.V2FileContract{
		Capacity: capacity, Filesize: filesize, FileMerkleRoot: root,
		ProofHeight: ph, ExpirationHeight: ph + 4 - uint64(rapid.IntRange(0, 3).Draw(t, name+"exp")),
		RenterOutput:    types.SiacoinOutput{Value: cur(renter), Address: b.drawLock(name+"renterAddr", false).Address()},
		HostOutput:      types.SiacoinOutput{Value: cur(host), Address: b.drawLock(name+"hostAddr", false).Address()},
		MissedHostValue: cur(missed), TotalCollateral: cur(collateral),
		RenterPublicKey: Pub(rapid.IntRange(0, NumKeys-1).Draw(t, name+"rk")), HostPublicKey: Pub(rapid.IntRange(0, NumKeys-1).Draw(t, name+"hk")),
		RevisionNumber: uint64(rapid.IntRange(0, 2).Draw(t, name+"rev0")),
	}
	return fc
}

// V2Form creates a v2 contract.
func (b *Builder) V2Form() bool {
	if !b.v2Allowed() {
		return false
	}
	fc := b.drawV2Contract("v2form")
	tax := ref.TaxV2(fc.RenterOutput.Value, fc.HostOutput.Value)
	fee := b.drawFeeV2("v2form")
	need := new(big.Int).Add(ref.Big(fc.RenterOutput.Value), ref.Big(fc.HostOutput.Value))
	need.Add(need, tax).Add(need, fee)
	picked, total, ok := b.pickInputs("v2form", true, need, 2)
	if !ok {
		return false
	}
	var txn types.V2Transaction
	txn.SiacoinInputs = b.v2Inputs(picked)
	txn.FileContracts = []types.V2FileContract{fc}
	txn.MinerFee = cur(fee)
	txn.SiacoinOutputs = b.outputsFor("v2formChange", new(big.Int).Sub(total, need), false)
	b.pool.Add(b.pool, tax)
	b.Exp.TaxAdded = cur(new(big.Int).Add(ref.Big(b.Exp.TaxAdded), tax))
	b.label("v2-form")
	b.finishV2(txn, SignOpts{})
	last := &b.V2[len(b.V2)-1]
	id := last.V2FileContractID(last.ID(), 0)
	c := b.Exp.contract(id, true)
	c.Formed, c.FinalRev = true, fc.RevisionNumber
	b.usedFC[id] = true
	return true
}

func (b *Builder) liveV2(filter func(types.V2FileContractElement) bool) []types.V2FileContractElement {
	var out []types.V2FileContractElement
	for _, e := range b.C.Store.SortedV2FC() {
		if !b.usedFC[e.ID] && filter(e) {
			out = append(out, e)
		}
	}
	return out
}

// V2Revise revises a live v2 contract.
func (b *Builder) V2Revise() bool {
	if !b.v2Allowed() {
		return false
	}
	t := b.T
	cands := b.liveV2(func(e types.V2FileContractElement) bool {
		return e.V2FileContract.ProofHeight >= b.Child && e.V2FileContract.RevisionNumber < types.MaxRevisionNumber-10
	})
	if len(cands) == 0 {
		return false
	}
	e := cands[rapid.IntRange(0, len(cands)-1).Draw(t, "v2rev")]
	b.usedFC[e.ID] = true
	cur0 := e.V2FileContract
	rev := cur0
	rev.RevisionNumber += uint64(rapid.IntRange(1, 4).Draw(t, "v2revInc"))
	// renter pays the host
	r := ref.Big(cur0.RenterOutput.Value)
	d := new(big.Int).Mul(r, big.NewInt(int64(rapid.IntRange(0, 1000).Draw(t, "v2revPay"))))
	d.Quo(d, big.NewInt(1000))
	rev.RenterOutput.Value = cur(new(big.Int).Sub(r, d))
	rev.HostOutput.Value = cur(new(big.Int).Add(ref.Big(cur0.HostOutput.Value), d))
	// host risks more collateral: missed value may only go down
	m := ref.Big(cur0.MissedHostValue)
	dm := new(big.Int).Mul(m, big.NewInt(int64(rapid.IntRange(0, 1000).Draw(t, "v2revRisk"))))
	dm.Quo(dm, big.NewInt(1000))
	rev.MissedHostValue = cur(new(big.Int).Sub(m, dm))
	if rapid.IntRange(0, 3).Draw(t, "v2revRefund") == 0 {
		// the host refunds the renter instead: any part of what its valid output holds above the missed value
		room := new(big.Int).Sub(ref.Big(cur0.HostOutput.Value), ref.Big(rev.MissedHostValue))
		if room.Sign() > 0 {
			back := new(big.Int).Mul(room, big.NewInt(int64(rapid.IntRange(1, 1000).Draw(t, "v2revBack"))))
			back.Quo(back, big.NewInt(1000))
			rev.RenterOutput.Value = cur(new(big.Int).Add(r, back))
			rev.HostOutput.Value = cur(new(big.Int).Sub(ref.Big(cur0.HostOutput.Value), back))
			b.label("v2-revise-host-refunds-renter")
		}
	}
	if rapid.Bool().Draw(t, "v2revData") {
		data, root := b.drawFile("v2rev")
		rev.Filesize, rev.FileMerkleRoot = uint64(len(data)), root
		if rev.Capacity < rev.Filesize {
			rev.Capacity = rev.Filesize
		}
	}
	if rapid.IntRange(0, 3).Draw(t, "v2revHeights") == 0 {
		rev.ProofHeight = b.Child + uint64(rapid.IntRange(0, 4).Draw(t, "v2revPh"))
		rev.ExpirationHeight = rev.ProofHeight + uint64(rapid.IntRange(1, 4).Draw(t, "v2revExp"))
	}
	if rapid.IntRange(0, 4).Draw(t, "v2revKeys") == 0 {
		rev.RenterPublicKey = Pub(rapid.IntRange(0, NumKeys-1).Draw(t, "v2revRk"))
		b.label("v2-revise-changes-key")
	}
	var txn types.V2Transaction
	txn.FileContractRevisions = []types.V2FileContractRevision{{Parent: e.Copy(), Revision: rev}}
	c := b.Exp.contract(e.ID, true)
	c.Revised, c.FinalRev = true, rev.RevisionNumber
	b.label("v2-revise")
	b.finishV2(txn, SignOpts{})
	b.revisedV2[e.ID], b.parentV2[e.ID] = rev, e.Copy()
	return true
}

// V2ProofFor builds the honest storage proof resolution for e.
func (b *Builder) V2ProofFor(e types.V2FileContractElement) (types.V2FileContractResolution, bool) {
	fc := e.V2FileContract
	if fc.ProofHeight >= uint64(len(b.C.Store.CI)) {
		return types.V2FileContractResolution{}, false
	}
	if sf, ok := b.W.Sparse[fc.FileMerkleRoot]; ok && sf.Size == fc.Filesize {
		ci := b.C.Store.CI[fc.ProofHeight].Copy()
		sp := &types.V2StorageProof{ProofIndex: ci}
		leaf, path := sf.Proof(ref.ChallengeIndex(sf.Size, ci.ChainIndex.ID, e.ID))
		sp.Leaf = leaf
		for _, h := range path {
			sp.Proof = append(sp.Proof, types.Hash256(h))
		}
		return types.V2FileContractResolution{Parent: e.Copy(), Resolution: sp}, true
	}
	data, ok := b.W.Files[fc.FileMerkleRoot]
	if !ok || uint64(len(data)) != fc.Filesize {
		return types.V2FileContractResolution{}, false
	}
	ci := b.C.Store.CI[fc.ProofHeight].Copy()
	sp := &types.V2StorageProof{ProofIndex: ci}
	if len(data) > 0 {
		idx := ref.ChallengeIndex(fc.Filesize, ci.ChainIndex.ID, e.ID)
		if b.W.LibProver && IsSectorFile(data) {
			sp.Leaf, sp.Proof = LibFileProof(data, idx)
		} else {
			leaf, path := RefProof(data, fc.FileMerkleRoot, int(idx))
			sp.Leaf = leaf
			for _, h := range path {
				sp.Proof = append(sp.Proof, types.Hash256(h))
			}
		}
	}
	return types.V2FileContractResolution{Parent: e.Copy(), Resolution: sp}, true
}

// V2Resolve resolves a live v2 contract by proof, expiration or renewal.
func (b *Builder) V2Resolve() bool {
	if !b.v2Allowed() {
		return false
	}
	t := b.T
	kind := rapid.SampledFrom([]string{"proof", "expire", "renew"}).Draw(t, "v2resKind")
	cands := b.liveV2(func(e types.V2FileContractElement) bool {
		fc := e.V2FileContract
		switch kind {
		case "proof":
			return b.Child >= fc.ProofHeight+1
		case "expire":
			return b.Child > fc.ExpirationHeight
		}
		return true
	})
	if len(cands) == 0 {
		return false
	}
	e := cands[rapid.IntRange(0, len(cands)-1).Draw(t, "v2res")]
	fc := e.V2FileContract
	var txn types.V2Transaction
	switch kind {
	case "proof":
		res, ok := b.V2ProofFor(e)
		if !ok {
			return false
		}
		if fc.Filesize == 0 {
			// an empty file has the zero root by the simulator's convention; the verifier
			// computes a leaf hash instead, so an honest proof cannot exist: skip
			return false
		}
		txn.FileContractResolutions = []types.V2FileContractResolution{res}
		b.expectSC(e.ID.V2RenterOutputID(), fc.RenterOutput, b.maturity(), "v2 proof renter output")
		b.expectSC(e.ID.V2HostOutputID(), fc.HostOutput, b.maturity(), "v2 proof host output")
		if n := ref.NumLeaves64(fc.Filesize); n&(n-1) != 0 {
			b.label("v2-proof-non-pow2-leaves")
		}
		if b.W.LibProver && IsSectorFile(b.W.Files[fc.FileMerkleRoot]) {
			b.label(fmt.Sprintf("v2-proof-by-library-prover-over-%d-sectors", fc.Filesize/SectorSize))
		}
		if _, ok := b.W.Sparse[fc.FileMerkleRoot]; ok {
			b.label("v2-proof-of-huge-file")
		}
		// a host proving several contracts at once: further provable contracts join the same transaction (contracts
		// formed together share their proof height, hence the chain index element their proofs refer to)
		if rapid.Bool().Draw(t, "v2resSeveral") {
			extra := 0
			// those that share this contract's proof height first
			ordered := append([]types.V2FileContractElement(nil), cands...)
			sort.SliceStable(ordered, func(i, j int) bool {
				return ordered[i].V2FileContract.ProofHeight == fc.ProofHeight && ordered[j].V2FileContract.ProofHeight != fc.ProofHeight
			})
			for _, e2 := range ordered {
				if e2.ID == e.ID || b.usedFC[e2.ID] || e2.V2FileContract.Filesize == 0 || extra == 2 {
					continue
				}
				res2, ok := b.V2ProofFor(e2)
				if !ok {
					continue
				}
				txn.FileContractResolutions = append(txn.FileContractResolutions, res2)
				b.expectSC(e2.ID.V2RenterOutputID(), e2.V2FileContract.RenterOutput, b.maturity(), "v2 proof renter output")
				b.expectSC(e2.ID.V2HostOutputID(), e2.V2FileContract.HostOutput, b.maturity(), "v2 proof host output")
				b.usedFC[e2.ID] = true
				b.Exp.contract(e2.ID, true).Resolved = kind
				extra++
				if e2.V2FileContract.ProofHeight == fc.ProofHeight {
					b.label("v2-proofs-sharing-a-proof-index-in-one-transaction")
				}
			}
			if extra > 0 {
				b.label(fmt.Sprintf("v2-%d-proofs-in-one-transaction", extra+1))
			}
		}
	case "expire":
		txn.FileContractResolutions = []types.V2FileContractResolution{{Parent: e.Copy(), Resolution: &types.V2FileContractExpiration{}}}
		b.expectSC(e.ID.V2RenterOutputID(), fc.RenterOutput, b.maturity(), "v2 expiry renter output")
		b.expectSC(e.ID.V2HostOutputID(), types.SiacoinOutput{Value: fc.MissedHostValue, Address: fc.HostOutput.Address}, b.maturity(), "v2 expiry missed host output")
		forfeit := new(big.Int).Sub(ref.Big(fc.HostOutput.Value), ref.Big(fc.MissedHostValue))
		b.Exp.Forfeited = cur(new(big.Int).Add(ref.Big(b.Exp.Forfeited), forfeit))
	case "renew":
		nc := b.drawV2Contract("renew")
		nc.RenterPublicKey, nc.HostPublicKey = fc.RenterPublicKey, fc.HostPublicKey
		tax := ref.TaxV2(nc.RenterOutput.Value, nc.HostOutput.Value)
		newCost := new(big.Int).Add(ref.Big(nc.RenterOutput.Value), ref.Big(nc.HostOutput.Value))
		newCost.Add(newCost, tax)
		// split old value into final outputs and rollovers
		oldR, oldH := ref.Big(fc.RenterOutput.Value), ref.Big(fc.HostOutput.Value)
		frac := func(x *big.Int, name string) *big.Int {
			d := new(big.Int).Mul(x, big.NewInt(int64(rapid.IntRange(0, 1000).Draw(t, name))))
			return d.Quo(d, big.NewInt(1000))
		}
		total := new(big.Int).Add(oldR, oldH)
		rRoll := frac(oldR, "rRoll")
		hRoll := frac(oldH, "hRoll")
		if roll := new(big.Int).Add(rRoll, hRoll); roll.Cmp(newCost) > 0 {
			// rollover may not exceed the new contract's cost
			rRoll = new(big.Int).Set(newCost)
			if rRoll.Cmp(oldR) > 0 {
				rRoll = new(big.Int).Set(oldR)
			}
			hRoll = new(big.Int).Sub(newCost, rRoll)
			if hRoll.Cmp(oldH) > 0 {
				hRoll = new(big.Int).Set(oldH)
			}
		}
		rest := new(big.Int).Sub(total, new(big.Int).Add(rRoll, hRoll))
		// final outputs may be re-split arbitrarily (both parties sign)
		finalR := frac(rest, "finalSplit")
		finalH := new(big.Int).Sub(rest, finalR)
		fee := b.drawFeeV2("renew")
		need := new(big.Int).Add(newCost, fee)
		need.Sub(need, rRoll).Sub(need, hRoll)
		var picked []scCand
		inTotal := new(big.Int)
		if need.Sign() > 0 {
			var ok bool
			picked, inTotal, ok = b.pickInputs("renew", true, need, 2)
			if !ok {
				return false
			}
		} else {
			// rollover covers everything; with need == 0 no input and no change
			need = new(big.Int)
		}
		ren := &types.V2FileContractRenewal{
			FinalRenterOutput: types.SiacoinOutput{Value: cur(finalR), Address: fc.RenterOutput.Address},
			FinalHostOutput:   types.SiacoinOutput{Value: cur(finalH), Address: fc.HostOutput.Address},
			RenterRollover:    cur(rRoll), HostRollover: cur(hRoll), NewContract: nc,
		}
		txn.SiacoinInputs = b.v2Inputs(picked)
		txn.FileContractResolutions = []types.V2FileContractResolution{{Parent: e.Copy(), Resolution: ren}}
		txn.MinerFee = cur(fee)
		txn.SiacoinOutputs = b.outputsFor("renewChange", new(big.Int).Sub(inTotal, need), false)
		b.expectSC(e.ID.V2RenterOutputID(), ren.FinalRenterOutput, b.maturity(), "v2 renewal final renter output")
		b.expectSC(e.ID.V2HostOutputID(), ren.FinalHostOutput, b.maturity(), "v2 renewal final host output")
		nid := e.ID.V2RenewalID()
		ncx := b.Exp.contract(nid, true)
		ncx.Formed, ncx.FinalRev = true, nc.RevisionNumber
		b.usedFC[nid] = true
		b.pool.Add(b.pool, tax)
		b.Exp.TaxAdded = cur(new(big.Int).Add(ref.Big(b.Exp.TaxAdded), tax))
	}
	b.usedFC[e.ID] = true
	b.Exp.contract(e.ID, true).Resolved = kind
	b.label("v2-resolve-" + kind)
	b.finishV2(txn, SignOpts{})
	return true
}

// V2FormBatch forms two or three v2 contracts with one common proof height in this block (a host accepting several
// contracts for the same period); their storage proofs will all refer to the same chain index element.
func (b *Builder) V2FormBatch() bool {
	if !b.v2Allowed() {
		return false
	}
	b.alignPH = b.Child + uint64(rapid.IntRange(1, 3).Draw(b.T, "batchPH"))
	defer func() { b.alignPH = 0 }()
	n := 0
	for i := rapid.IntRange(2, 3).Draw(b.T, "batchN"); i > 0; i-- {
		if b.V2Form() {
			n++
		}
	}
	if n >= 2 {
		b.label("v2-form-batch-sharing-proof-height")
	}
	return n > 0
}

// V2Attest adds attestations.
func (b *Builder) V2Attest() bool {
	if !b.v2Allowed() {
		return false
	}
	t := b.T
	var txn types.V2Transaction
	n := rapid.IntRange(1, 2).Draw(t, "nAtt")
	for i := 0; i < n; i++ {
		txn.Attestations = append(txn.Attestations, types.Attestation{
			PublicKey: Pub(rapid.IntRange(0, NumKeys-1).Draw(t, "attKey")),
			Key:       rapid.StringMatching(`[a-zA-Z]{1,12}`).Draw(t, "attName"),
			Value:     rapid.SliceOfN(rapid.Byte(), 0, 24).Draw(t, "attVal"),
		})
	}
	b.label("v2-attest")
	b.finishV2(txn, SignOpts{})
	return true
}

// DataOnly adds 1-3 transactions that carry nothing but arbitrary data (no inputs, no fee, no signatures): the only
// transactions that may legally occur byte-identically more than once, inside one block and across blocks. The
// payload comes from a tiny alphabet so that repeats are the rule (duplicate transaction hashes in outlines, repeated
// leaves of the block commitment, repeated IDs).
func (b *Builder) DataOnly() bool {
	n := rapid.IntRange(1, 3).Draw(b.T, "nDataOnly")
	payload := func(i int) []byte {
		return []byte{"memo"[rapid.IntRange(0, 1).Draw(b.T, fmt.Sprintf("dataOnly%d", i))]}
	}
	did := false
	if b.v1Allowed() && rapid.Bool().Draw(b.T, "dataOnlyV1") {
		for i := 0; i < n; i++ {
			b.V1 = append(b.V1, types.Transaction{ArbitraryData: [][]byte{payload(i)}})
		}
		b.label("v1-data-only")
		did = true
	}
	if b.Child >= b.C.Net.HardforkV2.AllowHeight {
		b.AfterV1(func() {
			for i := 0; i < n; i++ {
				b.V2 = append(b.V2, types.V2Transaction{ArbitraryData: payload(i)})
			}
			b.label("v2-data-only")
		})
		did = true
	}
	return did
}

// V2Foundation changes the Foundation address in a v2 transaction.
func (b *Builder) V2Foundation() bool {
	if !b.v2Allowed() {
		return false
	}
	var cand *scCand
	for _, c := range b.spendableSC(true) {
		if c.el.SiacoinOutput.Address == b.CS.FoundationManagementAddress && !c.el.SiacoinOutput.Value.IsZero() {
			cc := c
			cand = &cc
			break
		}
	}
	if cand == nil {
		return false
	}
	b.usedSC[cand.el.ID] = true
	na := MakeLock(LockSpec{Kind: 0, K1: rapid.IntRange(0, NumKeys-1).Draw(b.T, "newFoundation")}).Address()
	if rapid.IntRange(0, 5).Draw(b.T, "voidSubsidy") == 0 {
		na = types.VoidAddress
	}
	var txn types.V2Transaction
	txn.SiacoinInputs = b.v2Inputs([]scCand{*cand})
	txn.SiacoinOutputs = []types.SiacoinOutput{{Value: cand.el.SiacoinOutput.Value, Address: b.drawLock("fnd2Change", false).Address()}}
	txn.NewFoundationAddress = &na
	b.fSubsidy = na
	if na != types.VoidAddress {
		b.fMgmt = na
	}
	b.label("v2-foundation-update")
	b.finishV2(txn, SignOpts{})
	return true
}

// ---------------------------------------------------------------------------------------

// Profile weights the action mix.
type Profile struct {
	Contracts int // extra weight on contract actions
	MaxTxns   int
}

// Fill draws a mix of actions legal at this height.
func (b *Builder) Fill(p Profile) {
	if p.MaxTxns == 0 {
		p.MaxTxns = 5
	}
	n := rapid.IntRange(0, p.MaxTxns).Draw(b.T, "nTxns")
	type action struct {
		name string
		f    func() bool
	}
	var acts []action
	if b.v1Allowed() && b.Child > 0 {
		acts = append(acts, action{"v1pay", b.V1Pay}, action{"v1pay", b.V1Pay}, action{"v1sf", b.V1Siafunds}, action{"v1form", b.V1Form}, action{"v1rev", b.V1Revise},
			action{"v1prove", b.V1Prove}, action{"v1prove", b.V1Prove}, action{"v1fnd", b.V1Foundation})
		for i := 0; i < p.Contracts; i++ {
			acts = append(acts, action{"v1form", b.V1Form}, action{"v1rev", b.V1Revise}, action{"v1prove", b.V1Prove})
		}
	}
	var v2acts []action
	if b.v2Allowed() {
		v2acts = append(v2acts, action{"v2pay", b.V2Pay}, action{"v2pay", b.V2Pay}, action{"v2sf", b.V2Siafunds}, action{"v2form", b.V2Form}, action{"v2rev", b.V2Revise},
			action{"v2res", b.V2Resolve}, action{"v2res", b.V2Resolve}, action{"v2att", b.V2Attest}, action{"v2fnd", b.V2Foundation})
		for i := 0; i < p.Contracts; i++ {
			v2acts = append(v2acts, action{"v2form", b.V2Form}, action{"v2rev", b.V2Revise}, action{"v2res", b.V2Resolve})
		}
	}
	// v1 transactions precede v2 transactions in a block, so draw all v1 actions first
	if len(acts) > 0 {
		nv1 := n
		if len(v2acts) > 0 {
			nv1 = rapid.IntRange(0, n).Draw(b.T, "nV1")
		}
		for i := 0; i < nv1; i++ {
			a := acts[rapid.IntRange(0, len(acts)-1).Draw(b.T, "act")]
			a.f()
		}
		n -= nv1
	}
	b.runDeferred()
	if len(v2acts) > 0 {
		for i := 0; i < n; i++ {
			a := v2acts[rapid.IntRange(0, len(v2acts)-1).Draw(b.T, "act2")]
			a.f()
		}
	}
}

// Finish seals the block, completes the expectation (payout, subsidy, expiring v1
// contracts) and returns block, supplement and expectation.
func (b *Builder) Finish(tsMode int, jitter int64) (types.Block, consensus.V1BlockSupplement, *Expect, error) {
	b.runDeferred()
	blk := types.Block{Timestamp: NextTimestamp(b.CS, tsMode, jitter), Transactions: b.V1}
	if b.v2Allowed() && (len(b.V2) > 0 || !b.v1Allowed() || rapid.IntRange(0, 2).Draw(b.T, "emptyV2Data") != 0) {
		blk.V2 = &types.V2BlockData{Transactions: b.V2}
	} else if !b.v2Allowed() && rapid.IntRange(0, 3).Draw(b.T, "earlyV2Format") == 0 {
		// the v2 block format (height and commitment in the header) is accepted at every height; only v2 transactions
		// have to wait for the allow height
		blk.V2 = &types.V2BlockData{}
		b.label("v2-format-block-before-allow-height")
	}
	miner := b.drawLock("miner", b.v1Allowed()).Address()
	// miner payout: reward + fees by the independent schedule. A block in the v1 format may divide it among several
	// payouts (a pool paying its members directly); the v2 format has exactly one.
	reward := ref.BlockReward(b.C.Net.InitialCoinbase, b.C.Net.MinimumCoinbase, b.Child)
	total := new(big.Int).Add(reward, b.fees)
	payouts := []types.SiacoinOutput{{Value: cur(total), Address: miner}}
	if blk.V2 == nil && total.Cmp(big.NewInt(8)) > 0 && rapid.IntRange(0, 2).Draw(b.T, "splitPayout") == 0 {
		k := rapid.IntRange(2, 4).Draw(b.T, "payouts")
		left := new(big.Int).Set(total)
		payouts = nil
		for i := 0; i < k; i++ {
			part := new(big.Int).Set(left)
			if i < k-1 {
				// 1 .. left-(k-1-i): every later payout keeps at least one hasting
				room := new(big.Int).Sub(left, big.NewInt(int64(k-1-i)))
				part = new(big.Int).Quo(new(big.Int).Mul(room, big.NewInt(int64(rapid.IntRange(1, 1000).Draw(b.T, "payoutShare")))), big.NewInt(1000))
				if part.Sign() == 0 {
					part.SetInt64(1)
				}
			}
			left.Sub(left, part)
			addr := miner
			if i > 0 && rapid.Bool().Draw(b.T, "payoutOtherAddr") {
				addr = b.drawLock("miner2", b.v1Allowed()).Address()
			}
			payouts = append(payouts, types.SiacoinOutput{Value: cur(part), Address: addr})
		}
		blk.MinerPayouts = payouts
		b.label(fmt.Sprintf("miner-payouts-%d", k))
	}
	if err := Seal(b.CS, &blk, miner); err != nil {
		return blk, consensus.V1BlockSupplement{}, nil, err
	}
	bs := b.C.Store.Supplement(blk, b.Child, b.C.Net.HardforkV2.RequireHeight)
	bid := blk.ID()
	for i, p := range payouts {
		b.expectSC(bid.MinerOutputID(i), p, b.maturity(), "miner payout")
	}
	if sub, ok := ref.FoundationSubsidy(b.Child, b.C.Net.HardforkFoundation.Height, b.C.Net.BlockInterval, b.CS.FoundationSubsidyAddress == types.VoidAddress); ok {
		b.expectSC(bid.FoundationOutputID(), types.SiacoinOutput{Value: cur(sub), Address: b.CS.FoundationSubsidyAddress}, b.maturity(), "foundation subsidy")
		b.label("foundation-subsidy")
	}
	// v1 contracts whose window ends now and that were not proven in this block expire
	resolvedHere := map[types.FileContractID]bool{}
	for _, c := range b.Exp.Contracts {
		if c.Resolved != "" {
			resolvedHere[c.ID] = true
		}
	}
	if b.Child < b.C.Net.HardforkV2.RequireHeight {
		for _, e := range b.C.Store.SortedFC() {
			if e.FileContract.WindowEnd == b.Child && !resolvedHere[e.ID] {
				c := b.Exp.contract(e.ID, false)
				c.Resolved = "expire"
				for i, o := range e.FileContract.MissedProofOutputs {
					b.expectSC(e.ID.MissedOutputID(i), o, b.maturity(), "v1 missed proof output")
				}
				b.label("v1-expire")
			}
		}
	}
	b.Exp.Fees = cur(b.fees)
	sort.Strings(b.Exp.Labels)
	exp := b.Exp
	return blk, bs, &exp, nil
}

var _ = fmt.Sprint

// ---------------------------------------------------------------------------------------
// same-block scenarios the properties single out

// lastV1Contract returns the id and terms of the v1 contract formed by the most recent v1
// transaction of the block under construction, if that transaction formed one.
func (b *Builder) lastV1Contract() (types.FileContractID, types.FileContract, bool) {
	if len(b.V1) == 0 {
		return types.FileContractID{}, types.FileContract{}, false
	}
	txn := &b.V1[len(b.V1)-1]
	if len(txn.FileContracts) == 0 {
		return types.FileContractID{}, types.FileContract{}, false
	}
	return txn.FileContractID(0), txn.FileContracts[0], true
}

// V1ReviseCreatedInBlock revises the contract formed by the previous transaction of this block.
func (b *Builder) V1ReviseCreatedInBlock() bool {
	if !b.v1Allowed() {
		return false
	}
	id, fc, ok := b.lastV1Contract()
	if !ok {
		return false
	}
	l, ok := b.W.Locks[fc.UnlockHash]
	if !ok || !l.Spendable(false, b.Child, b.Median) || fc.WindowStart < b.Child {
		return false
	}
	rev := fc
	rev.RevisionNumber = fc.RevisionNumber + uint64(rapid.IntRange(1, 3).Draw(b.T, "revCreatedInc"))
	rev.ValidProofOutputs = append([]types.SiacoinOutput(nil), fc.ValidProofOutputs...)
	if len(rev.ValidProofOutputs) >= 2 {
		a := ref.Big(rev.ValidProofOutputs[0].Value)
		d := new(big.Int).Quo(a, big.NewInt(int64(rapid.IntRange(1, 9).Draw(b.T, "revCreatedShift"))))
		rev.ValidProofOutputs[0].Value = cur(new(big.Int).Sub(a, d))
		rev.ValidProofOutputs[1].Value = cur(new(big.Int).Add(ref.Big(rev.ValidProofOutputs[1].Value), d))
	}
	var txn types.Transaction
	txn.FileContractRevisions = []types.FileContractRevision{{ParentID: id, UnlockConditions: *l.UC, FileContract: rev}}
	c := b.Exp.contract(id, false)
	c.Revised, c.FinalRev = true, rev.RevisionNumber
	b.label("v1-form+revise-same-block")
	b.finishV1(txn)
	return true
}

// V1ReviseThenProve revises a live contract whose window opens at the child height and
// proves the revised contract in the next transaction of the same block.
func (b *Builder) V1ReviseThenProve() bool {
	if !b.v1Allowed() {
		return false
	}
	if b.V1Era() != "C" {
		return false
	}
	for _, e := range b.C.Store.SortedFC() {
		fc := e.FileContract
		l, ok := b.W.Locks[fc.UnlockHash]
		if b.usedFC[e.ID] || !ok || !l.Spendable(false, b.Child, b.Median) || fc.WindowStart != b.Child || fc.RevisionNumber >= types.MaxRevisionNumber-5 {
			continue
		}
		b.usedFC[e.ID] = true
		rev := fc
		rev.RevisionNumber++
		data, root := b.drawFile("revProve")
		if len(data) == 0 {
			data = []byte{1, 2, 3}
			root = types.Hash256(ref.FileRoot(data))
			b.W.Files[root] = data
		}
		rev.Filesize, rev.FileMerkleRoot = uint64(len(data)), root
		// the final revision also settles the split: value moves between the first two valid (and missed) outputs, sums
		// kept, and the proof of this block must pay the revised outputs, not the ones the block started with
		rev.ValidProofOutputs = append([]types.SiacoinOutput(nil), fc.ValidProofOutputs...)
		rev.MissedProofOutputs = append([]types.SiacoinOutput(nil), fc.MissedProofOutputs...)
		for k, outs := range [][]types.SiacoinOutput{rev.ValidProofOutputs, rev.MissedProofOutputs} {
			if len(outs) >= 2 {
				a := ref.Big(outs[0].Value)
				d := new(big.Int).Mul(a, big.NewInt(int64(rapid.IntRange(1, 1000).Draw(b.T, fmt.Sprintf("revProveShift%d", k)))))
				d.Quo(d, big.NewInt(1000))
				outs[0].Value = cur(new(big.Int).Sub(a, d))
				outs[1].Value = cur(new(big.Int).Add(ref.Big(outs[1].Value), d))
			}
		}
		var txn types.Transaction
		txn.FileContractRevisions = []types.FileContractRevision{{ParentID: e.ID, UnlockConditions: *l.UC, FileContract: rev}}
		c := b.Exp.contract(e.ID, false)
		c.Revised, c.FinalRev = true, rev.RevisionNumber
		b.finishV1(txn)
		re := e
		re.FileContract = rev
		ptxn, ok := b.V1ProofFor(re, b.CS.Index.ID)
		if !ok {
			return true
		}
		b.Exp.contract(e.ID, false).Resolved = "proof"
		for i, o := range rev.ValidProofOutputs {
			b.expectSC(e.ID.ValidOutputID(i), o, b.maturity(), "v1 valid proof output (revised in the same block)")
		}
		b.label("v1-revise+prove-same-block")
		b.finishV1(ptxn)
		return true
	}
	return false
}

// V1ProveRevisedInBlock is kept as an alias used by scenario tables.
func (b *Builder) V1ProveRevisedInBlock() bool { return false }

// V1FormThenProve forms a contract whose window opens at the child height and proves it at once.
func (b *Builder) V1FormThenProve() bool {
	if !b.v1Allowed() {
		return false
	}
	if b.V1Era() != "C" || !b.V1Form() {
		return false
	}
	id, fc, ok := b.lastV1Contract()
	if !ok || fc.WindowStart != b.Child || fc.Filesize == 0 {
		return false
	}
	e := types.FileContractElement{ID: id, FileContract: fc}
	ptxn, ok := b.V1ProofFor(e, b.CS.Index.ID)
	if !ok {
		return false
	}
	b.Exp.contract(id, false).Resolved = "proof"
	for i, o := range fc.ValidProofOutputs {
		b.expectSC(id.ValidOutputID(i), o, b.maturity(), "v1 valid proof output (formed in the same block)")
	}
	b.label("v1-form+prove-same-block")
	b.finishV1(ptxn)
	return true
}

// V1ReviseAgainInBlock revises once more a v1 contract that an earlier transaction of this block revised.
func (b *Builder) V1ReviseAgainInBlock() bool {
	if !b.v1Allowed() {
		return false
	}
	ids := make([]types.FileContractID, 0, len(b.revisedV1))
	for id := range b.revisedV1 {
		ids = append(ids, id)
	}
	sort.Slice(ids, func(i, j int) bool { return bytes.Compare(ids[i][:], ids[j][:]) < 0 })
	for _, id := range ids {
		cur := b.revisedV1[id]
		l, ok := b.W.Locks[cur.UnlockHash]
		if !ok || !l.Spendable(false, b.Child, b.Median) || cur.WindowStart < b.Child || cur.RevisionNumber >= types.MaxRevisionNumber-2 || b.Exp.contract(id, false).Resolved != "" {
			continue
		}
		rev := cur
		rev.RevisionNumber++
		rev.ValidProofOutputs = append([]types.SiacoinOutput(nil), cur.ValidProofOutputs...)
		rev.MissedProofOutputs = append([]types.SiacoinOutput(nil), cur.MissedProofOutputs...)
		if len(rev.ValidProofOutputs) >= 2 && rev.ValidProofOutputs[0].Value.Cmp(types.NewCurrency64(1)) > 0 {
			rev.ValidProofOutputs[0].Value = rev.ValidProofOutputs[0].Value.Sub(types.NewCurrency64(1))
			rev.ValidProofOutputs[1].Value = rev.ValidProofOutputs[1].Value.Add(types.NewCurrency64(1))
		}
		var txn types.Transaction
		txn.FileContractRevisions = []types.FileContractRevision{{ParentID: id, UnlockConditions: *l.UC, FileContract: rev}}
		c := b.Exp.contract(id, false)
		c.Revised, c.FinalRev = true, rev.RevisionNumber
		b.label("v1-revise-twice-same-block")
		b.finishV1(txn)
		b.revisedV1[id] = rev
		return true
	}
	return false
}

// V2ReviseAgainInBlock revises once more a v2 contract that an earlier transaction of this block revised;
// the new revision is signed by the keys of the contract as it stands after that earlier revision.
func (b *Builder) V2ReviseAgainInBlock() bool {
	if !b.v2Allowed() {
		return false
	}
	ids := make([]types.FileContractID, 0, len(b.revisedV2))
	for id := range b.revisedV2 {
		ids = append(ids, id)
	}
	sort.Slice(ids, func(i, j int) bool { return bytes.Compare(ids[i][:], ids[j][:]) < 0 })
	for _, id := range ids {
		cur := b.revisedV2[id]
		if b.Exp.contract(id, true).Resolved != "" || cur.RevisionNumber >= types.MaxRevisionNumber-2 || b.parentV2[id].V2FileContract.ProofHeight < b.Child || cur.ProofHeight < b.Child {
			continue
		}
		rev := cur
		rev.RevisionNumber++
		if rapid.Bool().Draw(b.T, "payAgain") {
			// the renter pays once more and the host risks more of what is left
			r := ref.Big(cur.RenterOutput.Value)
			d := new(big.Int).Quo(new(big.Int).Mul(r, big.NewInt(int64(rapid.IntRange(0, 1000).Draw(b.T, "payAgainShare")))), big.NewInt(1000))
			rev.RenterOutput.Value = cur64(new(big.Int).Sub(r, d))
			rev.HostOutput.Value = cur64(new(big.Int).Add(ref.Big(cur.HostOutput.Value), d))
			m := ref.Big(cur.MissedHostValue)
			dm := new(big.Int).Quo(new(big.Int).Mul(m, big.NewInt(int64(rapid.IntRange(0, 1000).Draw(b.T, "riskAgainShare")))), big.NewInt(1000))
			rev.MissedHostValue = cur64(new(big.Int).Sub(m, dm))
		}
		if rapid.Bool().Draw(b.T, "rotateAgain") {
			rev.HostPublicKey = Pub(rapid.IntRange(0, NumKeys-1).Draw(b.T, "rotHk"))
		}
		var txn types.V2Transaction
		txn.FileContractRevisions = []types.V2FileContractRevision{{Parent: b.parentV2[id].Copy(), Revision: rev}}
		c := b.Exp.contract(id, true)
		c.Revised, c.FinalRev = true, rev.RevisionNumber
		if cur.RenterPublicKey != b.parentV2[id].V2FileContract.RenterPublicKey || cur.HostPublicKey != b.parentV2[id].V2FileContract.HostPublicKey {
			b.label("v2-revise-twice-same-block-after-key-rotation")
		}
		b.label("v2-revise-twice-same-block")
		b.finishV2(txn, SignOpts{CurrentContract: map[types.FileContractID]types.V2FileContract{id: cur}})
		b.revisedV2[id] = rev
		return true
	}
	return false
}

// V2RenewRevisedInBlock renews a v2 contract that an earlier transaction of this block revised. The renewal
// is signed by, and keeps, the keys of the contract as it stands after that revision.
func (b *Builder) V2RenewRevisedInBlock() bool {
	if !b.v2Allowed() {
		return false
	}
	ids := make([]types.FileContractID, 0, len(b.revisedV2))
	for id := range b.revisedV2 {
		ids = append(ids, id)
	}
	sort.Slice(ids, func(i, j int) bool { return bytes.Compare(ids[i][:], ids[j][:]) < 0 })
	for _, id := range ids {
		if b.Exp.contract(id, true).Resolved != "" {
			continue
		}
		curFC := b.revisedV2[id]
		parent := b.parentV2[id]
		nc := b.drawV2Contract("renewRev")
		nc.RenterPublicKey, nc.HostPublicKey = curFC.RenterPublicKey, curFC.HostPublicKey
		tax := ref.TaxV2(nc.RenterOutput.Value, nc.HostOutput.Value)
		newCost := new(big.Int).Add(ref.Big(nc.RenterOutput.Value), ref.Big(nc.HostOutput.Value))
		newCost.Add(newCost, tax)
		fee := b.drawFeeV2("renewRev")
		need := new(big.Int).Add(newCost, fee)
		picked, inTotal, ok := b.pickInputs("renewRev", true, need, 2)
		if !ok {
			return false
		}
		// no rollover: the old contract's (revised) value is paid out in full
		ren := &types.V2FileContractRenewal{
			FinalRenterOutput: types.SiacoinOutput{Value: curFC.RenterOutput.Value, Address: curFC.RenterOutput.Address},
			FinalHostOutput:   types.SiacoinOutput{Value: curFC.HostOutput.Value, Address: curFC.HostOutput.Address},
			NewContract:       nc,
		}
		var txn types.V2Transaction
		txn.SiacoinInputs = b.v2Inputs(picked)
		txn.FileContractResolutions = []types.V2FileContractResolution{{Parent: parent.Copy(), Resolution: ren}}
		txn.MinerFee = cur64(fee)
		txn.SiacoinOutputs = b.outputsFor("renewRevChange", new(big.Int).Sub(inTotal, need), false)
		b.expectSC(id.V2RenterOutputID(), ren.FinalRenterOutput, b.maturity(), "v2 renewal final renter output")
		b.expectSC(id.V2HostOutputID(), ren.FinalHostOutput, b.maturity(), "v2 renewal final host output")
		nid := id.V2RenewalID()
		ncx := b.Exp.contract(nid, true)
		ncx.Formed, ncx.FinalRev = true, nc.RevisionNumber
		b.usedFC[nid] = true
		b.pool.Add(b.pool, tax)
		b.Exp.TaxAdded = cur(new(big.Int).Add(ref.Big(b.Exp.TaxAdded), tax))
		b.Exp.contract(id, true).Resolved = "renew"
		b.label("v2-revise+renew-same-block")
		if curFC.RenterPublicKey != parent.V2FileContract.RenterPublicKey || curFC.HostPublicKey != parent.V2FileContract.HostPublicKey {
			b.label("v2-revise+renew-same-block-after-key-rotation")
		}
		// sign: new contract by its own keys, renewal by the CURRENT keys of the old contract
		SignV2(b.CS, &txn, SignOpts{})
		r := *txn.FileContractResolutions[0].Resolution.(*types.V2FileContractRenewal)
		h := b.CS.RenewalSigHash(r)
		if priv, ok := PrivFor(curFC.RenterPublicKey); ok {
			r.RenterSignature = priv.SignHash(h)
		}
		if priv, ok := PrivFor(curFC.HostPublicKey); ok {
			r.HostSignature = priv.SignHash(h)
		}
		txn.FileContractResolutions[0].Resolution = &r
		txid := txn.ID()
		idx := b.txnIndex()
		for i, o := range txn.SiacoinOutputs {
			b.expectSC(txn.SiacoinOutputID(txid, i), o, 0, "v2 txn output")
			e := txn.EphemeralSiacoinOutput(i)
			b.eph = append(b.eph, ephOut{sc: &e, v2: true, created: idx})
		}
		b.fees.Add(b.fees, ref.Big(txn.MinerFee))
		b.V2 = append(b.V2, txn)
		return true
	}
	return false
}

func cur64(b *big.Int) types.Currency { return cur(b) }

// ---------------------------------------------------------------------------------------
// large transactions

// Fanout splits spendable value into many outputs in one transaction (a payout batch: 17..300 outputs, more than one
// byte can count), to three drawn locks in rotation. v2 when allowed and drawn, else v1.
func (b *Builder) Fanout(v1Batch ...bool) bool {
	v2 := b.v2Allowed() && (!b.v1Allowed() || rapid.Bool().Draw(b.T, "fanV2"))
	if !v2 && !b.v1Allowed() {
		return false
	}
	n := rapid.SampledFrom([]int{17, 40, 64, 100, 257, 300}).Draw(b.T, "fanN")
	forced := len(v1Batch) > 0 && v1Batch[0] && b.v1Allowed()
	if forced {
		// a v1 payout batch of more than 64 outputs that the next block sweeps up again in one v1 transaction
		v2, n = false, rapid.SampledFrom([]int{100, 257, 300}).Draw(b.T, "fanNv1")
	}
	picked, total, ok := b.pickInputs("fan", v2, big.NewInt(int64(2*n)), 2)
	if !ok {
		return false
	}
	locks := []Lock{b.drawLock("fanTo0", !v2), b.drawLock("fanTo1", !v2), b.drawLock("fanTo2", !v2)}
	sweepNext := n >= 64 && (forced || rapid.Bool().Draw(b.T, "sweepNext"))
	if sweepNext {
		// the batch is meant to be swept up again by the next block: it goes to single-key addresses, which both
		// transaction versions can spend at once
		for i := range locks {
			locks[i] = b.W.Reg(MakeLock(LockSpec{Kind: 0, K1: rapid.IntRange(0, NumKeys-1).Draw(b.T, "fanStd")}))
		}
	}
	each := new(big.Int).Quo(total, big.NewInt(int64(n)))
	outs := make([]types.SiacoinOutput, n)
	left := new(big.Int).Set(total)
	for i := range outs {
		v := each
		if i == n-1 {
			v = left
		}
		outs[i] = types.SiacoinOutput{Value: cur(v), Address: locks[i%3].Address()}
		left = new(big.Int).Sub(left, v)
	}
	b.label(fmt.Sprintf("fanout-%d", n))
	if sweepNext {
		b.W.SweepNext = 1
		if v2 {
			b.W.SweepNext = 2
		}
	}
	if v2 {
		b.finishV2(types.V2Transaction{SiacoinInputs: b.v2Inputs(picked), SiacoinOutputs: outs}, SignOpts{})
	} else {
		b.finishV1(types.Transaction{SiacoinInputs: b.v1Inputs(picked), SiacoinOutputs: outs})
	}
	return true
}

// Sweep consolidates every spendable output (at least 8, at most 300) into one output in one transaction (a wallet
// sweep): a block that updates many leaves at once and a multiproof over many leaves.
func (b *Builder) Sweep(version ...int) bool {
	v2 := b.v2Allowed() && (!b.v1Allowed() || rapid.Bool().Draw(b.T, "sweepV2"))
	if len(version) > 0 && version[0] == 1 && b.v1Allowed() {
		v2 = false
	} else if len(version) > 0 && version[0] == 2 && b.v2Allowed() {
		v2 = true
	}
	if !v2 && !b.v1Allowed() {
		return false
	}
	cands := b.spendableSC(v2)
	if len(cands) < 8 {
		return false
	}
	if len(cands) > 300 {
		cands = cands[:300]
	}
	// an honest block stays well inside the block weight limit: revealed unlock conditions dominate an input's size
	// (a 70-key multisig input weighs about 4 KB), so the sweep takes as many candidates as fit into a quarter of it
	budget := int(b.CS.MaxBlockWeight() / 4)
	for i, c := range cands {
		size := 400
		if c.lock.UC != nil {
			size += 60*len(c.lock.UC.PublicKeys) + 200*int(min(c.lock.UC.SignaturesRequired, 70))
		}
		if budget -= size; budget < 0 {
			cands = cands[:i]
			break
		}
	}
	if len(cands) < 8 {
		return false
	}
	total := new(big.Int)
	for _, c := range cands {
		b.usedSC[c.el.ID] = true
		total.Add(total, ref.Big(c.el.SiacoinOutput.Value))
	}
	if total.Sign() == 0 || total.BitLen() > 127 {
		for _, c := range cands {
			delete(b.usedSC, c.el.ID)
		}
		return false
	}
	out := []types.SiacoinOutput{{Value: cur(total), Address: b.drawLock("sweepTo", !v2).Address()}}
	switch {
	case len(cands) > 255:
		b.label("sweep->255-inputs")
	case len(cands) >= 64:
		b.label("sweep-64..255-inputs")
	default:
		b.label("sweep-8..63-inputs")
	}
	if v2 {
		b.finishV2(types.V2Transaction{SiacoinInputs: b.v2Inputs(cands), SiacoinOutputs: out}, SignOpts{})
	} else {
		b.finishV1(types.Transaction{SiacoinInputs: b.v1Inputs(cands), SiacoinOutputs: out})
	}
	return true
}
