package sim

import (
	"fmt"
	"math/big"
	"sort"

	"go.sia.tech/core/consensus"
	"go.sia.tech/core/types"
	"verif/harness/ref"
)

// ExpSC is an expected siacoin element.
type ExpSC struct {
	ID       types.SiacoinOutputID `json:"id"`
	Value    types.Currency        `json:"value"`
	Address  types.Address         `json:"address"`
	Maturity uint64                `json:"maturity"`
	Why      string                `json:"why"`
}

// ExpSF is an expected siafund element.
type ExpSF struct {
	ID         types.SiafundOutputID `json:"id"`
	Value      uint64                `json:"value"`
	Address    types.Address         `json:"address"`
	ClaimStart types.Currency        `json:"claimStart"`
}

// ExpContract is an expected contract event.
type ExpContract struct {
	ID       types.FileContractID `json:"id"`
	V2       bool                 `json:"v2"`
	Formed   bool                 `json:"formed"`
	Revised  bool                 `json:"revised"`
	Resolved string               `json:"resolved,omitempty"` // "", "proof", "expire", "renew"
	FinalRev uint64               `json:"finalRev"`           // revision number after the block (if formed/revised)
}

// Expect is the ledger model's prediction of a block's effects, derived from the
// actions the builder chose (never from the library's diffs).
type Expect struct {
	CreatedSC []ExpSC                 `json:"createdSC"`
	SpentSC   []types.SiacoinOutputID `json:"spentSC"`
	CreatedSF []ExpSF                 `json:"createdSF"`
	SpentSF   []types.SiafundOutputID `json:"spentSF"`
	Contracts []ExpContract           `json:"contracts"`
	TaxAdded  types.Currency          `json:"taxAdded"`
	Fees      types.Currency          `json:"fees"`
	Forfeited types.Currency          `json:"forfeited"` // v2 expirations: host value not paid out
	Labels    []string                `json:"labels"`
}

func (e *Expect) contract(id types.FileContractID, v2 bool) *ExpContract {
	for i := range e.Contracts {
		if e.Contracts[i].ID == id {
			return &e.Contracts[i]
		}
	}
	e.Contracts = append(e.Contracts, ExpContract{ID: id, V2: v2})
	return &e.Contracts[len(e.Contracts)-1]
}

// Compare checks the update reported by the library against the expectation, in both
// directions (nothing missing, nothing extra), field by field.
func (e *Expect) Compare(au interface {
	SiacoinElementDiffs() []consensus.SiacoinElementDiff
	SiafundElementDiffs() []consensus.SiafundElementDiff
	FileContractElementDiffs() []consensus.FileContractElementDiff
	V2FileContractElementDiffs() []consensus.V2FileContractElementDiff
}) error {
	wantSC := map[types.SiacoinOutputID]ExpSC{}
	for _, x := range e.CreatedSC {
		if _, dup := wantSC[x.ID]; dup {
			return fmt.Errorf("model: siacoin output %v expected twice", x.ID)
		}
		wantSC[x.ID] = x
	}
	wantSpent := map[types.SiacoinOutputID]bool{}
	for _, id := range e.SpentSC {
		wantSpent[id] = true
	}
	seen := map[types.SiacoinOutputID]bool{}
	for _, d := range au.SiacoinElementDiffs() {
		id := d.SiacoinElement.ID
		if seen[id] {
			return fmt.Errorf("siacoin element %v reported twice in the diffs", id)
		}
		seen[id] = true
		if d.Created {
			w, ok := wantSC[id]
			if !ok {
				return fmt.Errorf("block created unexpected siacoin output %v (%v to %v)", id, d.SiacoinElement.SiacoinOutput.Value, d.SiacoinElement.SiacoinOutput.Address)
			}
			if d.SiacoinElement.SiacoinOutput.Value != w.Value || d.SiacoinElement.SiacoinOutput.Address != w.Address || d.SiacoinElement.MaturityHeight != w.Maturity {
				return fmt.Errorf("siacoin output %v (%s): got value=%d addr=%v maturity=%d, ledger expects value=%d addr=%v maturity=%d", id, w.Why,
					d.SiacoinElement.SiacoinOutput.Value, d.SiacoinElement.SiacoinOutput.Address, d.SiacoinElement.MaturityHeight, w.Value, w.Address, w.Maturity)
			}
			delete(wantSC, id)
		}
		if d.Spent != wantSpent[id] {
			return fmt.Errorf("siacoin element %v: spent=%v, ledger expects %v", id, d.Spent, wantSpent[id])
		}
		delete(wantSpent, id)
		if !d.Created && !d.Spent {
			return fmt.Errorf("siacoin element %v in diffs is neither created nor spent", id)
		}
	}
	for id, w := range wantSC {
		return fmt.Errorf("expected siacoin output %v (%s, %d) was not created", id, w.Why, w.Value)
	}
	for id := range wantSpent {
		return fmt.Errorf("expected siacoin output %v to be spent", id)
	}

	wantSF := map[types.SiafundOutputID]ExpSF{}
	for _, x := range e.CreatedSF {
		wantSF[x.ID] = x
	}
	wantSFSpent := map[types.SiafundOutputID]bool{}
	for _, id := range e.SpentSF {
		wantSFSpent[id] = true
	}
	seenSF := map[types.SiafundOutputID]bool{}
	for _, d := range au.SiafundElementDiffs() {
		id := d.SiafundElement.ID
		if seenSF[id] {
			return fmt.Errorf("siafund element %v reported twice in the diffs", id)
		}
		seenSF[id] = true
		if d.Created {
			w, ok := wantSF[id]
			if !ok {
				return fmt.Errorf("block created unexpected siafund output %v", id)
			}
			if d.SiafundElement.SiafundOutput.Value != w.Value || d.SiafundElement.SiafundOutput.Address != w.Address || d.SiafundElement.ClaimStart != w.ClaimStart {
				return fmt.Errorf("siafund output %v: got %+v claimStart=%d, ledger expects value=%d addr=%v claimStart=%d", id, d.SiafundElement.SiafundOutput, d.SiafundElement.ClaimStart, w.Value, w.Address, w.ClaimStart)
			}
			delete(wantSF, id)
		}
		if d.Spent != wantSFSpent[id] {
			return fmt.Errorf("siafund element %v: spent=%v, ledger expects %v", id, d.Spent, wantSFSpent[id])
		}
		delete(wantSFSpent, id)
	}
	for id := range wantSF {
		return fmt.Errorf("expected siafund output %v was not created", id)
	}
	for id := range wantSFSpent {
		return fmt.Errorf("expected siafund output %v to be spent", id)
	}

	want := map[types.FileContractID]ExpContract{}
	for _, c := range e.Contracts {
		want[c.ID] = c
	}
	for _, d := range au.FileContractElementDiffs() {
		id := d.FileContractElement.ID
		w, ok := want[id]
		if !ok || w.V2 {
			return fmt.Errorf("unexpected v1 contract diff %v", id)
		}
		resolved := ""
		if d.Resolved {
			resolved = "expire"
			if d.Valid {
				resolved = "proof"
			}
		}
		if d.Created != w.Formed || resolved != w.Resolved {
			return fmt.Errorf("v1 contract %v: created=%v resolved=%q, ledger expects formed=%v resolved=%q", id, d.Created, resolved, w.Formed, w.Resolved)
		}
		if w.Revised && !w.Formed {
			if d.Revision == nil {
				return fmt.Errorf("v1 contract %v: expected a revision in the diff", id)
			} else if d.Revision.RevisionNumber != w.FinalRev {
				return fmt.Errorf("v1 contract %v: diff revision number %d, ledger expects %d", id, d.Revision.RevisionNumber, w.FinalRev)
			}
		} else if !w.Revised && d.Revision != nil {
			return fmt.Errorf("v1 contract %v: unexpected revision in the diff", id)
		}
		if w.Formed && d.FileContractElement.FileContract.RevisionNumber != w.FinalRev {
			return fmt.Errorf("v1 contract %v: formed with revision number %d, ledger expects %d", id, d.FileContractElement.FileContract.RevisionNumber, w.FinalRev)
		}
		delete(want, id)
	}
	for _, d := range au.V2FileContractElementDiffs() {
		id := d.V2FileContractElement.ID
		w, ok := want[id]
		if !ok || !w.V2 {
			return fmt.Errorf("unexpected v2 contract diff %v", id)
		}
		resolved := ""
		switch d.Resolution.(type) {
		case *types.V2StorageProof:
			resolved = "proof"
		case *types.V2FileContractExpiration:
			resolved = "expire"
		case *types.V2FileContractRenewal:
			resolved = "renew"
		}
		if d.Created != w.Formed || resolved != w.Resolved {
			return fmt.Errorf("v2 contract %v: created=%v resolved=%q, ledger expects formed=%v resolved=%q", id, d.Created, resolved, w.Formed, w.Resolved)
		}
		if w.Revised && !w.Formed {
			if d.Revision == nil {
				return fmt.Errorf("v2 contract %v: expected a revision in the diff", id)
			} else if d.Revision.RevisionNumber != w.FinalRev {
				return fmt.Errorf("v2 contract %v: diff revision number %d, ledger expects %d", id, d.Revision.RevisionNumber, w.FinalRev)
			}
		} else if !w.Revised && d.Revision != nil {
			return fmt.Errorf("v2 contract %v: unexpected revision in the diff", id)
		}
		delete(want, id)
	}
	ids := make([]string, 0)
	for id := range want {
		ids = append(ids, id.String())
	}
	sort.Strings(ids)
	if len(ids) > 0 {
		return fmt.Errorf("expected contract events missing from the diffs: %v", ids)
	}
	return nil
}

// Supply is the independent supply schedule: genesis allocations plus every block's
// reward and Foundation subsidy, as a running big-integer total.
type Supply struct {
	Total *big.Int
}

// Locked sums everything the conservation equation puts on the "where the coins are" side,
// computed from the client store (library diffs only): unspent outputs, value locked in
// unresolved contracts; the unclaimed pool and forfeited value are added by the caller.
func Locked(s *Store) *big.Int {
	sum := new(big.Int)
	for _, e := range s.SC {
		sum.Add(sum, ref.Big(e.SiacoinOutput.Value))
	}
	for _, e := range s.FC {
		for _, o := range e.FileContract.ValidProofOutputs {
			sum.Add(sum, ref.Big(o.Value))
		}
	}
	for _, e := range s.V2FC {
		sum.Add(sum, ref.Big(e.V2FileContract.RenterOutput.Value))
		sum.Add(sum, ref.Big(e.V2FileContract.HostOutput.Value))
	}
	return sum
}
