package sim

import (
	"crypto/sha256"
	"encoding/binary"
	"encoding/json"
	"fmt"
	"reflect"
	"sort"

	"go.sia.tech/core/consensus"
	"go.sia.tech/core/types"
	"verif/harness/gen"
	"verif/harness/ref"
)

// ForestTracker maintains the naive Merkle forest (ref.Forest) over all leaves ever added,
// one snapshot per height. Which leaves a block touches is read from the update's diffs;
// every hash is recomputed independently (hand-written element encoders, x/crypto BLAKE2b).
type ForestTracker struct {
	Hist []*ref.Forest // Hist[h] = forest after block h
}

// Tip returns the forest at the tip.
func (ft *ForestTracker) Tip() *ref.Forest { return ft.Hist[len(ft.Hist)-1] }

type leafSet struct {
	elem  ref.H
	spent bool
}

// attestationElements extracts the attestation elements of an update through its JSON form
// (the only public route).
func attestationElements(au consensus.ApplyUpdate) ([]types.AttestationElement, error) {
	js, err := json.Marshal(au)
	if err != nil {
		return nil, err
	}
	var v struct {
		AttestationElements []types.AttestationElement `json:"attestationElements"`
	}
	if err := json.Unmarshal(js, &v); err != nil {
		return nil, err
	}
	return v.AttestationElements, nil
}

// Apply extends the history with the effects of au (applied on top of a state with
// oldN leaves, giving newN leaves).
func (ft *ForestTracker) Apply(oldN, newN uint64, au consensus.ApplyUpdate) error {
	var f *ref.Forest
	if len(ft.Hist) == 0 {
		f = &ref.Forest{}
	} else {
		f = ft.Tip().Clone()
	}
	if f.N() != oldN {
		return fmt.Errorf("forest has %d leaves, state says %d", f.N(), oldN)
	}
	sets := map[uint64]leafSet{}
	put := func(idx uint64, elem ref.H, spent bool) error {
		if _, dup := sets[idx]; dup {
			return fmt.Errorf("leaf %d touched twice by one update", idx)
		}
		if idx >= newN {
			return fmt.Errorf("element has leaf index %d >= new leaf count %d", idx, newN)
		}
		sets[idx] = leafSet{elem, spent}
		return nil
	}
	for _, d := range au.SiacoinElementDiffs() {
		if err := put(d.SiacoinElement.StateElement.LeafIndex, ref.SiacoinElemHash(d.SiacoinElement), d.Spent); err != nil {
			return err
		}
	}
	for _, d := range au.SiafundElementDiffs() {
		if err := put(d.SiafundElement.StateElement.LeafIndex, ref.SiafundElemHash(d.SiafundElement), d.Spent); err != nil {
			return err
		}
	}
	for _, d := range au.FileContractElementDiffs() {
		fc := d.FileContractElement.FileContract
		if d.Revision != nil {
			fc = *d.Revision
		}
		if err := put(d.FileContractElement.StateElement.LeafIndex, ref.FileContractElemHash(d.FileContractElement.ID, fc), d.Resolved); err != nil {
			return err
		}
	}
	for _, d := range au.V2FileContractElementDiffs() {
		fc := d.V2FileContractElement.V2FileContract
		if d.Revision != nil {
			fc = *d.Revision
		}
		if err := put(d.V2FileContractElement.StateElement.LeafIndex, ref.V2FileContractElemHash(d.V2FileContractElement.ID, fc), d.Resolution != nil); err != nil {
			return err
		}
	}
	aes, err := attestationElements(au)
	if err != nil {
		return err
	}
	for _, ae := range aes {
		if err := put(ae.StateElement.LeafIndex, ref.AttestationElemHash(ae), false); err != nil {
			return err
		}
	}
	cie := au.ChainIndexElement()
	if err := put(cie.StateElement.LeafIndex, ref.ChainIndexElemHash(cie), false); err != nil {
		return err
	}
	// existing leaves first, then the new ones in index order, which must be contiguous
	for idx, ls := range sets {
		if idx < oldN {
			f.Elem[idx], f.Spent[idx] = ls.elem, ls.spent
		}
	}
	for idx := oldN; idx < newN; idx++ {
		ls, ok := sets[idx]
		if !ok {
			return fmt.Errorf("no element reported for new leaf %d (leaf count %d -> %d)", idx, oldN, newN)
		}
		f.Add(ls.elem, ls.spent)
	}
	ft.Hist = append(ft.Hist, f)
	return nil
}

// Revert drops the tip snapshot.
func (ft *ForestTracker) Revert() { ft.Hist = ft.Hist[:len(ft.Hist)-1] }

// CheckRoots compares the library accumulator with the naive forest.
func CheckRoots(acc consensus.ElementAccumulator, b *ref.Built) error {
	if acc.NumLeaves != b.N() {
		return fmt.Errorf("accumulator has %d leaves, naive forest %d", acc.NumLeaves, b.N())
	}
	roots, has := b.Roots()
	for h := 0; h < 64; h++ {
		if (acc.NumLeaves&(1<<h) != 0) != has[h] {
			return fmt.Errorf("tree presence at height %d differs", h)
		}
		if has[h] && acc.Trees[h] != types.Hash256(roots[h]) {
			return fmt.Errorf("root of the tree at height %d differs from the naive forest: %v vs %x", h, acc.Trees[h], roots[h])
		}
	}
	return nil
}

// ProofEquals compares a held proof with the naive path.
func ProofEquals(se types.StateElement, b *ref.Built) error {
	if se.LeafIndex >= b.N() {
		return fmt.Errorf("leaf index %d beyond forest size %d", se.LeafIndex, b.N())
	}
	want := b.Proof(se.LeafIndex)
	if len(want) != len(se.MerkleProof) {
		return fmt.Errorf("leaf %d: proof has %d hashes, naive path %d", se.LeafIndex, len(se.MerkleProof), len(want))
	}
	for i := range want {
		if types.Hash256(want[i]) != se.MerkleProof[i] {
			return fmt.Errorf("leaf %d: proof hash %d differs from the naive path", se.LeafIndex, i)
		}
	}
	return nil
}

// Membership probes, through the public ValidateTransactionElements route.

// BatchPrefix, when set, is a transaction of genuine live elements (inputs, a revised contract, contracts resolved by
// expiration, renewal and storage proof) that every probe below places in front of the element it asks about: the
// element under test is then the last of its list and sits behind resolutions of every kind, as in a transaction
// that batches several operations. The verdict for the whole transaction is the verdict for the probed element,
// because everything in the prefix is genuine.
var BatchPrefix *types.V2Transaction

func batched(t types.V2Transaction) types.V2Transaction {
	if BatchPrefix == nil {
		return t
	}
	p := CloneV2(*BatchPrefix)
	p.SiacoinInputs = append(p.SiacoinInputs, t.SiacoinInputs...)
	p.SiafundInputs = append(p.SiafundInputs, t.SiafundInputs...)
	p.FileContractRevisions = append(p.FileContractRevisions, t.FileContractRevisions...)
	p.FileContractResolutions = append(p.FileContractResolutions, t.FileContractResolutions...)
	return p
}

// LiveSC reports whether the accumulator accepts e as an unspent siacoin element.
func LiveSC(acc consensus.ElementAccumulator, e types.SiacoinElement) bool {
	return acc.ValidateTransactionElements(batched(types.V2Transaction{SiacoinInputs: []types.V2SiacoinInput{{Parent: e.Copy()}}})) == nil
}

// LiveSF reports whether the accumulator accepts e as an unspent siafund element.
func LiveSF(acc consensus.ElementAccumulator, e types.SiafundElement) bool {
	return acc.ValidateTransactionElements(batched(types.V2Transaction{SiafundInputs: []types.V2SiafundInput{{Parent: e.Copy()}}})) == nil
}

// LiveV2FC reports whether the accumulator accepts e as an unresolved v2 contract (as a revision parent).
func LiveV2FC(acc consensus.ElementAccumulator, e types.V2FileContractElement) bool {
	return acc.ValidateTransactionElements(batched(types.V2Transaction{FileContractRevisions: []types.V2FileContractRevision{{Parent: e.Copy()}}})) == nil
}

// LiveV2FCRes is LiveV2FC through the resolution-parent route.
func LiveV2FCRes(acc consensus.ElementAccumulator, e types.V2FileContractElement) bool {
	return acc.ValidateTransactionElements(batched(types.V2Transaction{FileContractResolutions: []types.V2FileContractResolution{{Parent: e.Copy(), Resolution: &types.V2FileContractExpiration{}}}})) == nil
}

// LiveCI reports whether the accumulator accepts e as an ancestor chain index.
func LiveCI(acc consensus.ElementAccumulator, e types.ChainIndexElement) bool {
	// the resolution parent is ephemeral-marked so that only the chain index is judged
	parent := types.V2FileContractElement{StateElement: types.StateElement{LeafIndex: types.UnassignedLeafIndex}}
	return acc.ValidateTransactionElements(batched(types.V2Transaction{FileContractResolutions: []types.V2FileContractResolution{{Parent: parent, Resolution: &types.V2StorageProof{ProofIndex: e.Copy()}}}})) == nil
}

// LiveFC reports whether block validation's supplement check accepts e as an unresolved v1
// contract: an otherwise empty block at the child height carrying e as an expiring contract
// passes validateSupplement iff e is in the accumulator. Only usable below RequireHeight.
func LiveFC(cs consensus.State, e types.FileContractElement, seal func(*types.Block)) bool {
	var b types.Block
	seal(&b)
	err := consensus.ValidateBlock(cs, b, consensus.V1BlockSupplement{ExpiringFileContracts: []types.FileContractElement{copyFC(e)}})
	return err == nil
}

// ---------------------------------------------------------------------------------------
// Proof followers: a second style of client. The Store replaces every element a block touches by a copy taken from
// the diffs; a follower never does: it holds bare state elements (leaf index + proof), taken once, and only ever
// feeds them to UpdateElementProof of every later apply / revert update — the way a wallet tracks one output. A
// lagging twin applies the very same update objects some blocks later (a second subscriber, a replay after a
// restart), so an update object that is modified by being used, or an element that shares memory with it, shows
// up as a difference between the twins or against the naive forest.

type followOp struct {
	au        *consensus.ApplyUpdate
	ru        *consensus.RevertUpdate
	numLeaves uint64 // leaf count after the operation
	track     []types.StateElement
	digest    [32]byte // of everything the leading follower held right after this operation
}

func (f *ProofFollower) digest() [32]byte {
	h := sha256.New()
	var b [8]byte
	for _, k := range f.keys() {
		binary.LittleEndian.PutUint64(b[:], k)
		h.Write(b[:])
		se := f.Held[k]
		binary.LittleEndian.PutUint64(b[:], uint64(len(se.MerkleProof)))
		h.Write(b[:])
		for i := range se.MerkleProof {
			h.Write(se.MerkleProof[i][:])
		}
	}
	var out [32]byte
	copy(out[:], h.Sum(nil))
	return out
}

// ProofFollower holds state elements by leaf index.
type ProofFollower struct{ Held map[uint64]types.StateElement }

func (f *ProofFollower) keys() []uint64 {
	ks := make([]uint64, 0, len(f.Held))
	for k := range f.Held {
		ks = append(ks, k)
	}
	sort.Slice(ks, func(i, j int) bool { return ks[i] < ks[j] })
	return ks
}

func (f *ProofFollower) step(op followOp) {
	for _, k := range f.keys() {
		se := f.Held[k]
		switch {
		case k >= op.numLeaves:
			delete(f.Held, k) // the leaf was removed by a revert
			continue
		case op.au != nil:
			op.au.UpdateElementProof(&se)
		case op.ru != nil:
			op.ru.UpdateElementProof(&se)
		}
		f.Held[k] = se
	}
	for _, se := range op.track {
		if _, ok := f.Held[se.LeafIndex]; !ok && se.LeafIndex < op.numLeaves {
			f.Held[se.LeafIndex] = se.Copy()
		}
	}
}

// Follow refreshes every held element with the update and starts holding the store's elements it does not hold yet.
func (f *ProofFollower) Follow(au consensus.ApplyUpdate, numLeaves uint64, st *Store) {
	f.step(followOp{au: &au, numLeaves: numLeaves, track: st.StateElements()})
}

// Followers is a leading follower and its lagging twin.
type Followers struct {
	Lead, Lag *ProofFollower
	// Remote receives every update as JSON, decoded into one ApplyUpdate and one RevertUpdate variable that it keeps
	// for the whole history (a subscriber behind an RPC boundary); it must hold exactly the leader's proofs.
	Remote  *ProofFollower
	rau     consensus.ApplyUpdate
	rru     consensus.RevertUpdate
	queue   []followOp
	Depth   int // the twin catches up once this many operations are queued
	Flushes int
}

func NewFollowers(depth int) *Followers {
	return &Followers{Lead: &ProofFollower{Held: map[uint64]types.StateElement{}}, Lag: &ProofFollower{Held: map[uint64]types.StateElement{}},
		Remote: &ProofFollower{Held: map[uint64]types.StateElement{}}, Depth: depth}
}

// StateElements lists a copy of every state element the store holds (live, spent, resolved, chain indices).
func (s *Store) StateElements() []types.StateElement {
	var out []types.StateElement
	for _, e := range s.SC {
		out = append(out, e.StateElement.Copy())
	}
	for _, e := range s.SF {
		out = append(out, e.StateElement.Copy())
	}
	for _, e := range s.FC {
		out = append(out, e.StateElement.Copy())
	}
	for _, e := range s.V2FC {
		out = append(out, e.StateElement.Copy())
	}
	for _, e := range s.SpentSC {
		out = append(out, e.StateElement.Copy())
	}
	for _, e := range s.SpentSF {
		out = append(out, e.StateElement.Copy())
	}
	for _, e := range s.ResolvedFC {
		out = append(out, e.StateElement.Copy())
	}
	for _, e := range s.ResolvedV2FC {
		out = append(out, e.StateElement.Copy())
	}
	for _, e := range s.CI {
		out = append(out, e.StateElement.Copy())
	}
	sort.Slice(out, func(i, j int) bool { return out[i].LeafIndex < out[j].LeafIndex })
	return out
}

func (fw *Followers) push(op followOp) error {
	fw.Lead.step(op)
	op.digest = fw.Lead.digest()
	// the same update through JSON into the subscriber's long-lived variables
	rop := followOp{numLeaves: op.numLeaves, track: op.track}
	if op.au != nil {
		js, err := json.Marshal(*op.au)
		if err == nil {
			err = json.Unmarshal(js, &fw.rau)
		}
		if err != nil {
			return fmt.Errorf("apply update does not pass through JSON: %v", err)
		}
		rop.au = &fw.rau
	} else {
		js, err := json.Marshal(*op.ru)
		if err == nil {
			err = json.Unmarshal(js, &fw.rru)
		}
		if err != nil {
			return fmt.Errorf("revert update does not pass through JSON: %v", err)
		}
		rop.ru = &fw.rru
	}
	fw.Remote.step(rop)
	if fw.Remote.digest() != op.digest {
		return fmt.Errorf("a subscriber that receives every update as JSON, decoded into the same two variables each time, holds different proofs than the client using the update objects directly")
	}
	fw.queue = append(fw.queue, op)
	if len(fw.queue) >= fw.Depth {
		return fw.Flush()
	}
	return nil
}

// Apply feeds an apply update to the leading follower (the twin gets it later) and starts tracking every element
// of the store that is not tracked yet (with the proof the store holds for it after this block).
func (fw *Followers) Apply(au consensus.ApplyUpdate, numLeaves uint64, st *Store) error {
	return fw.push(followOp{au: &au, numLeaves: numLeaves, track: st.StateElements()})
}

// Revert feeds a revert update; numLeaves is the leaf count of the state reverted to.
func (fw *Followers) Revert(ru consensus.RevertUpdate, numLeaves uint64) error {
	return fw.push(followOp{ru: &ru, numLeaves: numLeaves})
}

// Flush lets the lagging twin apply the queued update objects and compares the twins.
func (fw *Followers) Flush() error {
	for i, op := range fw.queue {
		fw.Lag.step(op)
		// the twin must pass through exactly the proofs the first follower had after the same operation, also while
		// it is behind (a later update that repairs the difference does not make the intermediate proofs valid)
		if fw.Lag.digest() != op.digest {
			behind := len(fw.queue) - i
			fw.queue = nil
			return fmt.Errorf("a follower that applies the same update objects %d operation(s) later gets different proofs than the follower that applied them at once (an update object was modified by being used, or shares memory with the elements it refreshed)", behind)
		}
	}
	fw.queue = nil
	fw.Flushes++
	if len(fw.Lead.Held) != len(fw.Lag.Held) {
		return fmt.Errorf("a follower that applied the same updates later tracks %d leaves, the first follower %d", len(fw.Lag.Held), len(fw.Lead.Held))
	}
	for _, k := range fw.Lead.keys() {
		a, b := fw.Lead.Held[k], fw.Lag.Held[k]
		if len(a.MerkleProof) != len(b.MerkleProof) {
			return fmt.Errorf("leaf %d: the same update objects applied later give a proof of %d hashes, applied at once %d (an update was modified by being used)", k, len(b.MerkleProof), len(a.MerkleProof))
		}
		for i := range a.MerkleProof {
			if a.MerkleProof[i] != b.MerkleProof[i] {
				return fmt.Errorf("leaf %d: the same update objects applied later give a different proof (hash %d differs): an update was modified by being used", k, i)
			}
		}
	}
	return nil
}

// Verify compares every proof of the leading follower with the naive forest.
func (fw *Followers) Verify(b *ref.Built) (int, error) {
	for _, k := range fw.Lead.keys() {
		if err := ProofEquals(fw.Lead.Held[k], b); err != nil {
			return 0, fmt.Errorf("leaf %d followed only through UpdateElementProof: %v", k, err)
		}
	}
	return len(fw.Lead.Held), nil
}

// AgreeWith compares the leading follower (elements refreshed only through UpdateElementProof) with a store whose
// elements are replaced from the diffs: both must hold the same proof for every leaf both know.
func (fw *Followers) AgreeWith(st *Store) (int, error) {
	n := 0
	for _, se := range st.StateElements() {
		own, ok := fw.Lead.Held[se.LeafIndex]
		if !ok {
			continue
		}
		n++
		if len(own.MerkleProof) != len(se.MerkleProof) {
			return n, fmt.Errorf("leaf %d: a client that only refreshes its own copy through UpdateElementProof holds a proof of %d hashes, the element taken from the diffs has %d", se.LeafIndex, len(own.MerkleProof), len(se.MerkleProof))
		}
		for i := range own.MerkleProof {
			if own.MerkleProof[i] != se.MerkleProof[i] {
				return n, fmt.Errorf("leaf %d: a client that only refreshes its own copy through UpdateElementProof holds a different proof (hash %d) than the element taken from the diffs", se.LeafIndex, i)
			}
		}
	}
	return n, nil
}

// OwnedElements gathers the elements an update hands out through its exported accessors and which the caller may keep
// as they are (Move() is permitted: their memory is not marked shared).
type OwnedElements struct {
	SC   []types.SiacoinElement
	SF   []types.SiafundElement
	FC   []types.FileContractElement
	V2FC []types.V2FileContractElement
	CI   []types.ChainIndexElement
}

func movable(f func()) (ok bool) {
	defer func() {
		if recover() != nil {
			ok = false
		}
	}()
	f()
	return true
}

// ElementsHazard reports whether two elements an ApplyUpdate hands out as the caller's own (not marked shared) occupy
// one backing array in such a way that refreshing one of them (UpdateElementProof appends to the proof when the forest
// grows) would write into another one.
func ElementsHazard(au consensus.ApplyUpdate) error {
	var o OwnedElements
	for _, d := range au.SiacoinElementDiffs() {
		if d.Created && movable(func() { d.SiacoinElement.Move() }) {
			o.SC = append(o.SC, d.SiacoinElement)
		}
	}
	for _, d := range au.SiafundElementDiffs() {
		if d.Created && movable(func() { d.SiafundElement.Move() }) {
			o.SF = append(o.SF, d.SiafundElement)
		}
	}
	for _, d := range au.FileContractElementDiffs() {
		if d.Created && movable(func() { d.FileContractElement.Move() }) {
			o.FC = append(o.FC, d.FileContractElement)
		}
	}
	for _, d := range au.V2FileContractElementDiffs() {
		if d.Created && movable(func() { d.V2FileContractElement.Move() }) {
			o.V2FC = append(o.V2FC, d.V2FileContractElement)
		}
	}
	if cie := au.ChainIndexElement(); movable(func() { cie.Move() }) {
		o.CI = append(o.CI, cie)
	}
	return gen.AppendHazard(reflect.ValueOf(&o).Elem())
}

// IngestThenRefresh plays the client that first takes over a block's diffs and then refreshes everything it stores -
// the elements it has just taken over included - with that same block's update (the order the library's own tests
// use). For the elements of the diffs the update has nothing to add: they must verify afterwards as they did before.
func IngestThenRefresh(au consensus.ApplyUpdate, b *ref.Built) error {
	check := func(se types.StateElement, what string) error {
		if se.LeafIndex == types.UnassignedLeafIndex {
			return nil
		}
		own := se.Copy()
		au.UpdateElementProof(&own)
		if err := ProofEquals(own, b); err != nil {
			return fmt.Errorf("%s (leaf %d) taken from the block's own diff and then refreshed with the same update: %v", what, se.LeafIndex, err)
		}
		return nil
	}
	for _, d := range au.SiacoinElementDiffs() {
		if err := check(d.SiacoinElement.StateElement, "siacoin element"); err != nil {
			return err
		}
	}
	for _, d := range au.SiafundElementDiffs() {
		if err := check(d.SiafundElement.StateElement, "siafund element"); err != nil {
			return err
		}
	}
	for _, d := range au.FileContractElementDiffs() {
		if err := check(d.FileContractElement.StateElement, "file contract element"); err != nil {
			return err
		}
	}
	for _, d := range au.V2FileContractElementDiffs() {
		if err := check(d.V2FileContractElement.StateElement, "v2 file contract element"); err != nil {
			return err
		}
	}
	return check(au.ChainIndexElement().StateElement, "chain index element")
}
