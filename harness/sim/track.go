package sim

import (
	"encoding/json"
	"fmt"

	"go.sia.tech/core/consensus"
	"go.sia.tech/core/types"
	"verif/harness/ref"
)

// ForestTracker maintains the naive Merkle forest (ref.Forest) over all leaves ever added,
// one snapshot per height. Which leaves a block touches is read from the update's diffs;
// every hash is recomputed independently (hand-written element encoders, x/crypto BLAKE2b).
type ForestTracker struct {
	Hist []*ref.Forest // Hist[h] = forest after block h
}

// Tip returns the forest at the tip.
func (ft *ForestTracker) Tip() *ref.Forest { return ft.Hist[len(ft.Hist)-1] }

type leafSet struct {
	elem  ref.H
	spent bool
}

// attestationElements extracts the attestation elements of an update through its JSON form
// (the only public route).
func attestationElements(au consensus.ApplyUpdate) ([]types.AttestationElement, error) {
	js, err := json.Marshal(au)
	if err != nil {
		return nil, err
	}
	var v struct {
		AttestationElements []types.AttestationElement `json:"attestationElements"`
	}
	if err := json.Unmarshal(js, &v); err != nil {
		return nil, err
	}
	return v.AttestationElements, nil
}

// Apply extends the history with the effects of au (applied on top of a state with
// oldN leaves, giving newN leaves).
func (ft *ForestTracker) Apply(oldN, newN uint64, au consensus.ApplyUpdate) error {
	var f *ref.Forest
	if len(ft.Hist) == 0 {
		f = &ref.Forest{}
	} else {
		f = ft.Tip().Clone()
	}
	if f.N() != oldN {
		return fmt.Errorf("forest has %d leaves, state says %d", f.N(), oldN)
	}
	sets := map[uint64]leafSet{}
	put := func(idx uint64, elem ref.H, spent bool) error {
		if _, dup := sets[idx]; dup {
			return fmt.Errorf("leaf %d touched twice by one update", idx)
		}
		if idx >= newN {
			return fmt.Errorf("element has leaf index %d >= new leaf count %d", idx, newN)
		}
		sets[idx] = leafSet{elem, spent}
		return nil
	}
	for _, d := range au.SiacoinElementDiffs() {
		if err := put(d.SiacoinElement.StateElement.LeafIndex, ref.SiacoinElemHash(d.SiacoinElement), d.Spent); err != nil {
			return err
		}
	}
	for _, d := range au.SiafundElementDiffs() {
		if err := put(d.SiafundElement.StateElement.LeafIndex, ref.SiafundElemHash(d.SiafundElement), d.Spent); err != nil {
			return err
		}
	}
	for _, d := range au.FileContractElementDiffs() {
		fc := d.FileContractElement.FileContract
		if d.Revision != nil {
			fc = *d.Revision
		}
		if err := put(d.FileContractElement.StateElement.LeafIndex, ref.FileContractElemHash(d.FileContractElement.ID, fc), d.Resolved); err != nil {
			return err
		}
	}
	for _, d := range au.V2FileContractElementDiffs() {
		fc := d.V2FileContractElement.V2FileContract
		if d.Revision != nil {
			fc = *d.Revision
		}
		if err := put(d.V2FileContractElement.StateElement.LeafIndex, ref.V2FileContractElemHash(d.V2FileContractElement.ID, fc), d.Resolution != nil); err != nil {
			return err
		}
	}
	aes, err := attestationElements(au)
	if err != nil {
		return err
	}
	for _, ae := range aes {
		if err := put(ae.StateElement.LeafIndex, ref.AttestationElemHash(ae), false); err != nil {
			return err
		}
	}
	cie := au.ChainIndexElement()
	if err := put(cie.StateElement.LeafIndex, ref.ChainIndexElemHash(cie), false); err != nil {
		return err
	}
	// existing leaves first, then the new ones in index order, which must be contiguous
	for idx, ls := range sets {
		if idx < oldN {
			f.Elem[idx], f.Spent[idx] = ls.elem, ls.spent
		}
	}
	for idx := oldN; idx < newN; idx++ {
		ls, ok := sets[idx]
		if !ok {
			return fmt.Errorf("no element reported for new leaf %d (leaf count %d -> %d)", idx, oldN, newN)
		}
		f.Add(ls.elem, ls.spent)
	}
	ft.Hist = append(ft.Hist, f)
	return nil
}

// Revert drops the tip snapshot.
func (ft *ForestTracker) Revert() { ft.Hist = ft.Hist[:len(ft.Hist)-1] }

// CheckRoots compares the library accumulator with the naive forest.
func CheckRoots(acc consensus.ElementAccumulator, b *ref.Built) error {
	if acc.NumLeaves != b.N() {
		return fmt.Errorf("accumulator has %d leaves, naive forest %d", acc.NumLeaves, b.N())
	}
	roots, has := b.Roots()
	for h := 0; h < 64; h++ {
		if (acc.NumLeaves&(1<<h) != 0) != has[h] {
			return fmt.Errorf("tree presence at height %d differs", h)
		}
		if has[h] && acc.Trees[h] != types.Hash256(roots[h]) {
			return fmt.Errorf("root of the tree at height %d differs from the naive forest: %v vs %x", h, acc.Trees[h], roots[h])
		}
	}
	return nil
}

// ProofEquals compares a held proof with the naive path.
func ProofEquals(se types.StateElement, b *ref.Built) error {
	if se.LeafIndex >= b.N() {
		return fmt.Errorf("leaf index %d beyond forest size %d", se.LeafIndex, b.N())
	}
	want := b.Proof(se.LeafIndex)
	if len(want) != len(se.MerkleProof) {
		return fmt.Errorf("leaf %d: proof has %d hashes, naive path %d", se.LeafIndex, len(se.MerkleProof), len(want))
	}
	for i := range want {
		if types.Hash256(want[i]) != se.MerkleProof[i] {
			return fmt.Errorf("leaf %d: proof hash %d differs from the naive path", se.LeafIndex, i)
		}
	}
	return nil
}

// Membership probes, through the public ValidateTransactionElements route.

// LiveSC reports whether the accumulator accepts e as an unspent siacoin element.
func LiveSC(acc consensus.ElementAccumulator, e types.SiacoinElement) bool {
	return acc.ValidateTransactionElements(types.V2Transaction{SiacoinInputs: []types.V2SiacoinInput{{Parent: e.Copy()}}}) == nil
}

// LiveSF reports whether the accumulator accepts e as an unspent siafund element.
func LiveSF(acc consensus.ElementAccumulator, e types.SiafundElement) bool {
	return acc.ValidateTransactionElements(types.V2Transaction{SiafundInputs: []types.V2SiafundInput{{Parent: e.Copy()}}}) == nil
}

// LiveV2FC reports whether the accumulator accepts e as an unresolved v2 contract (as a revision parent).
func LiveV2FC(acc consensus.ElementAccumulator, e types.V2FileContractElement) bool {
	return acc.ValidateTransactionElements(types.V2Transaction{FileContractRevisions: []types.V2FileContractRevision{{Parent: e.Copy()}}}) == nil
}

// LiveV2FCRes is LiveV2FC through the resolution-parent route.
func LiveV2FCRes(acc consensus.ElementAccumulator, e types.V2FileContractElement) bool {
	return acc.ValidateTransactionElements(types.V2Transaction{FileContractResolutions: []types.V2FileContractResolution{{Parent: e.Copy(), Resolution: &types.V2FileContractExpiration{}}}}) == nil
}

// LiveCI reports whether the accumulator accepts e as an ancestor chain index.
func LiveCI(acc consensus.ElementAccumulator, e types.ChainIndexElement) bool {
	// the resolution parent is ephemeral-marked so that only the chain index is judged
	parent := types.V2FileContractElement{StateElement: types.StateElement{LeafIndex: types.UnassignedLeafIndex}}
	return acc.ValidateTransactionElements(types.V2Transaction{FileContractResolutions: []types.V2FileContractResolution{{Parent: parent, Resolution: &types.V2StorageProof{ProofIndex: e.Copy()}}}}) == nil
}

// LiveFC reports whether block validation's supplement check accepts e as an unresolved v1
// contract: an otherwise empty block at the child height carrying e as an expiring contract
// passes validateSupplement iff e is in the accumulator. Only usable below RequireHeight.
func LiveFC(cs consensus.State, e types.FileContractElement, seal func(*types.Block)) bool {
	var b types.Block
	seal(&b)
	err := consensus.ValidateBlock(cs, b, consensus.V1BlockSupplement{ExpiringFileContracts: []types.FileContractElement{copyFC(e)}})
	return err == nil
}
