package sim

import (
	"go.sia.tech/core/consensus"
	"go.sia.tech/core/types"
	"pgregory.net/rapid"
)

// MembershipProbes records C04 block-level probes: an otherwise valid, honestly signed
// transaction whose parent element is altered (value raised and paid out, maturity lowered,
// claim start lowered, leaf index / proof swapped, contract terms changed), through the two
// block routes: v2 parents carried in the transaction and v1 parents supplied in the supplement.
func (a *Adv) MembershipProbes() int {
	t := a.G.T
	n := 0
	one := types.NewCurrency64(1)
	// ---- v2 parents
	for ti := range a.Honest.V2Transactions() {
		orig := a.Honest.V2.Transactions[ti]
		if len(orig.SiacoinInputs) > 0 && orig.SiacoinInputs[0].Parent.StateElement.LeafIndex != types.UnassignedLeafIndex {
			muts := []struct {
				name string
				f    func(x *types.V2Transaction) bool
			}{
				{"value-up-and-paid-out", func(x *types.V2Transaction) bool {
					x.SiacoinInputs[0].Parent.SiacoinOutput.Value = x.SiacoinInputs[0].Parent.SiacoinOutput.Value.Add(one)
					x.SiacoinOutputs = append(x.SiacoinOutputs, types.SiacoinOutput{Value: one, Address: types.Address{1}})
					return true
				}},
				{"maturity-down", func(x *types.V2Transaction) bool {
					if x.SiacoinInputs[0].Parent.MaturityHeight == 0 {
						return false
					}
					x.SiacoinInputs[0].Parent.MaturityHeight--
					return true
				}},
				{"leaf-index+1", func(x *types.V2Transaction) bool { x.SiacoinInputs[0].Parent.StateElement.LeafIndex++; return true }},
				{"leaf-index^1", func(x *types.V2Transaction) bool { x.SiacoinInputs[0].Parent.StateElement.LeafIndex ^= 1; return true }},
				{"leaf-index^2^32", func(x *types.V2Transaction) bool {
					x.SiacoinInputs[0].Parent.StateElement.LeafIndex ^= 1 << 32
					return true
				}},
				{"leaf-index^2^63", func(x *types.V2Transaction) bool {
					x.SiacoinInputs[0].Parent.StateElement.LeafIndex ^= 1 << 63
					return true
				}},
				{"proof-bitflip", func(x *types.V2Transaction) bool {
					p := x.SiacoinInputs[0].Parent.StateElement.MerkleProof
					if len(p) == 0 {
						return false
					}
					p[rapid.IntRange(0, len(p)-1).Draw(t, "proofIdx")][rapid.IntRange(0, 31).Draw(t, "proofByte")] ^= 0x10
					return true
				}},
				{"proof-truncated", func(x *types.V2Transaction) bool {
					p := &x.SiacoinInputs[0].Parent.StateElement.MerkleProof
					if len(*p) == 0 {
						return false
					}
					*p = (*p)[:len(*p)-1]
					return true
				}},
				{"proof-extended", func(x *types.V2Transaction) bool {
					p := &x.SiacoinInputs[0].Parent.StateElement.MerkleProof
					*p = append(*p, types.Hash256{})
					return true
				}},
				{"other-elements-proof", func(x *types.V2Transaction) bool {
					for _, e := range a.G.C.Store.SortedSC() {
						if e.ID != x.SiacoinInputs[0].Parent.ID {
							x.SiacoinInputs[0].Parent.StateElement = e.StateElement.Copy()
							return true
						}
					}
					return false
				}},
				{"id-bitflip", func(x *types.V2Transaction) bool { x.SiacoinInputs[0].Parent.ID[5] ^= 4; return true }},
			}
			for _, m := range muts {
				blk := CloneBlock(a.Honest)
				x := &blk.V2.Transactions[ti]
				if !m.f(x) {
					continue
				}
				SignV2(a.CS, x, SignOpts{})
				if a.emit(blk, "v2-parent/siacoin/"+m.name, "reject", nil, nil) {
					n++
				}
			}
		}
		if len(orig.SiafundInputs) > 0 && orig.SiafundInputs[0].Parent.StateElement.LeafIndex != types.UnassignedLeafIndex {
			muts := []struct {
				name string
				f    func(x *types.V2Transaction) bool
			}{
				{"claim-start-down", func(x *types.V2Transaction) bool {
					c := x.SiafundInputs[0].Parent.ClaimStart
					if c.IsZero() {
						return false
					}
					x.SiafundInputs[0].Parent.ClaimStart = c.Sub(one)
					return true
				}},
				{"value-up-and-kept", func(x *types.V2Transaction) bool {
					x.SiafundInputs[0].Parent.SiafundOutput.Value++
					x.SiafundOutputs = append(x.SiafundOutputs, types.SiafundOutput{Value: 1, Address: types.Address{2}})
					return true
				}},
				{"leaf-index+1", func(x *types.V2Transaction) bool { x.SiafundInputs[0].Parent.StateElement.LeafIndex++; return true }},
			}
			for _, m := range muts {
				blk := CloneBlock(a.Honest)
				x := &blk.V2.Transactions[ti]
				if !m.f(x) {
					continue
				}
				SignV2(a.CS, x, SignOpts{})
				if a.emit(blk, "v2-parent/siafund/"+m.name, "reject", nil, nil) {
					n++
				}
			}
		}
		if len(orig.FileContractRevisions) > 0 {
			muts := []struct {
				name string
				f    func(fc *types.V2FileContract) bool
			}{
				{"total-collateral", func(fc *types.V2FileContract) bool { fc.TotalCollateral = fc.TotalCollateral.Add(one); return true }},
				{"missed-host-value-up", func(fc *types.V2FileContract) bool { fc.MissedHostValue = fc.MissedHostValue.Add(one); return true }},
				{"revision-number-down", func(fc *types.V2FileContract) bool {
					if fc.RevisionNumber == 0 {
						return false
					}
					fc.RevisionNumber--
					return true
				}},
				{"renter-key", func(fc *types.V2FileContract) bool { fc.RenterPublicKey = otherKey(fc.RenterPublicKey); return true }},
				{"proof-height+1", func(fc *types.V2FileContract) bool { fc.ProofHeight++; fc.ExpirationHeight++; return true }},
				{"host-signature", func(fc *types.V2FileContract) bool { fc.HostSignature[0] ^= 1; return true }},
			}
			for _, m := range muts {
				blk := CloneBlock(a.Honest)
				x := &blk.V2.Transactions[ti]
				if !m.f(&x.FileContractRevisions[0].Parent.V2FileContract) {
					continue
				}
				// signed by the keys of the (claimed) parent so that only membership can refuse it
				SignV2(a.CS, x, SignOpts{})
				if a.emit(blk, "v2-parent/contract-revision/"+m.name, "reject", nil, nil) {
					n++
				}
			}
		}
		// position and proof of a contract parent (revision or resolution of any kind), in particular of a
		// contract that an earlier transaction of the same block has already revised (label suffix
		// "/after-in-block-revision"): the carried parent must be the genuine accumulator element every time
		{
			revisedEarlier := map[types.FileContractID]bool{}
			for _, prev := range a.Honest.V2.Transactions[:ti] {
				for _, r := range prev.FileContractRevisions {
					revisedEarlier[r.Parent.ID] = true
				}
			}
			type parentRef struct {
				kind string
				get  func(x *types.V2Transaction) *types.V2FileContractElement
			}
			var refs []parentRef
			if len(orig.FileContractRevisions) > 0 {
				refs = append(refs, parentRef{"contract-revision", func(x *types.V2Transaction) *types.V2FileContractElement { return &x.FileContractRevisions[0].Parent }})
			}
			if len(orig.FileContractResolutions) > 0 {
				refs = append(refs, parentRef{"contract-resolution", func(x *types.V2Transaction) *types.V2FileContractElement { return &x.FileContractResolutions[0].Parent }})
			}
			for _, ref := range refs {
				cur := ref.get(&orig)
				if cur.StateElement.LeafIndex == types.UnassignedLeafIndex {
					continue // created in this block: no accumulator position to alter
				}
				suffix := ""
				if revisedEarlier[cur.ID] {
					suffix = "/after-in-block-revision"
				}
				for _, name := range []string{"leaf-index^1", "leaf-index^2^35", "proof-bitflip", "proof-truncated", "other-elements-position", "renter-address", "relabelled-ephemeral"} {
					blk := CloneBlock(a.Honest)
					x := &blk.V2.Transactions[ti]
					pe := ref.get(x)
					switch name {
					case "leaf-index^1":
						pe.StateElement.LeafIndex ^= 1
					case "leaf-index^2^35":
						pe.StateElement.LeafIndex ^= 1 << 35
					case "proof-bitflip":
						if len(pe.StateElement.MerkleProof) == 0 {
							continue
						}
						pe.StateElement.MerkleProof[len(pe.StateElement.MerkleProof)-1][7] ^= 0x20
					case "proof-truncated":
						if len(pe.StateElement.MerkleProof) == 0 {
							continue
						}
						pe.StateElement.MerkleProof = pe.StateElement.MerkleProof[:len(pe.StateElement.MerkleProof)-1]
					case "other-elements-position":
						found := false
						for _, e := range a.G.C.Store.SortedSC() {
							if e.StateElement.LeafIndex != pe.StateElement.LeafIndex {
								pe.StateElement = e.StateElement.Copy()
								found = true
								break
							}
						}
						if !found {
							continue
						}
					case "relabelled-ephemeral":
						// contracts are never parents "created earlier in this block": no leaf index, no proof, no membership
						pe.StateElement = types.StateElement{LeafIndex: types.UnassignedLeafIndex}
					case "renter-address":
						// a field no revision/resolution rule constrains: only membership can refuse it
						pe.V2FileContract.RenterOutput.Address = otherAddr(pe.V2FileContract.RenterOutput.Address)
					}
					SignV2(a.CS, x, SignOpts{})
					if a.emit(blk, "v2-parent/"+ref.kind+"/"+name+suffix, "reject", nil, nil) {
						n++
					}
				}
			}
		}
		// a contract formed by this transaction claimed as the parent of a revision later in the same block: it has no
		// accumulator position yet, and whatever a validator makes of "created earlier in this block", a parent whose
		// terms (keys, payout address) differ from the contract that was formed is an element nobody created. The
		// revision is signed by the keys the forged parent names.
		for ci := range orig.FileContracts {
			forged := orig.FileContracts[ci]
			forged.RenterPublicKey, forged.HostPublicKey = otherKey(forged.RenterPublicKey), otherKey(forged.HostPublicKey)
			forged.RenterOutput.Address = otherAddr(forged.RenterOutput.Address)
			rev := forged
			rev.RevisionNumber++
			extra := types.V2Transaction{FileContractRevisions: []types.V2FileContractRevision{{
				Parent:   types.V2FileContractElement{ID: orig.V2FileContractID(orig.ID(), ci), StateElement: types.StateElement{LeafIndex: types.UnassignedLeafIndex}, V2FileContract: forged},
				Revision: rev,
			}}}
			SignV2(a.CS, &extra, SignOpts{})
			blk := CloneBlock(a.Honest)
			blk.V2.Transactions = append(blk.V2.Transactions, extra)
			if a.emit(blk, "v2-parent/contract-revision/forged-terms-of-contract-formed-in-block", "reject", nil, nil) {
				n++
			}
			break
		}
		for ri := range orig.FileContractResolutions {
			if sp, ok := orig.FileContractResolutions[ri].Resolution.(*types.V2StorageProof); ok {
				// a later proof of the transaction that refers to the same chain index element as an earlier one is a
				// case of its own: whatever was established for the earlier proof says nothing about this one's copy
				shared := ""
				for rj := 0; rj < ri; rj++ {
					if sp0, ok := orig.FileContractResolutions[rj].Resolution.(*types.V2StorageProof); ok && sp0.ProofIndex.ID == sp.ProofIndex.ID {
						shared = "/after-a-proof-with-the-same-index"
					}
				}
				for _, name := range []string{"chain-index-id", "chain-index-inner-id", "chain-index-height", "chain-index-leaf", "chain-index-proof"} {
					blk := CloneBlock(a.Honest)
					x := &blk.V2.Transactions[ti]
					c := *sp
					c.ProofIndex = sp.ProofIndex.Copy()
					c.Proof = append([]types.Hash256(nil), sp.Proof...)
					switch name {
					case "chain-index-id":
						// another block ID at the same height would let the prover choose the challenge
						c.ProofIndex.ChainIndex.ID[0] ^= 1
						c.ProofIndex.ID = c.ProofIndex.ChainIndex.ID
					case "chain-index-inner-id":
						// the element keeps its genuine ID; only the block ID the challenge is derived from changes
						c.ProofIndex.ChainIndex.ID[0] ^= 1
					case "chain-index-height":
						c.ProofIndex.ChainIndex.Height ^= 1
					case "chain-index-leaf":
						c.ProofIndex.StateElement.LeafIndex ^= 1
					case "chain-index-proof":
						if len(c.ProofIndex.StateElement.MerkleProof) == 0 {
							continue
						}
						c.ProofIndex.StateElement.MerkleProof[0][0] ^= 1
					}
					x.FileContractResolutions[ri].Resolution = &c
					if a.emit(blk, "v2-parent/storage-proof/"+name+shared, "reject", nil, nil) {
						n++
					}
				}
			}
			// the resolved contract itself altered (first resolution of the transaction only)
			if ri > 0 {
				continue
			}
			blk := CloneBlock(a.Honest)
			x := &blk.V2.Transactions[ti]
			if _, ok := x.FileContractResolutions[ri].Resolution.(*types.V2FileContractExpiration); ok {
				p := &x.FileContractResolutions[ri].Parent.V2FileContract
				if p.MissedHostValue != p.HostOutput.Value { // else nothing to alter: the contract forfeits nothing
					p.MissedHostValue = p.HostOutput.Value // expire without forfeiting
					if a.emit(blk, "v2-parent/contract-resolution/missed-host-value-up", "reject", nil, nil) {
						n++
					}
				}
			}
		}
	}
	// ---- v1 parents: altered elements supplied in the supplement
	for ti := range a.Honest.Transactions {
		orig := a.Honest.Transactions[ti]
		if len(orig.SiacoinInputs) > 0 {
			if e, ok := a.G.C.Store.SC[orig.SiacoinInputs[0].ParentID]; ok {
				// value raised in the supplement and paid out by the transaction
				blk := CloneBlock(a.Honest)
				x := &blk.Transactions[ti]
				x.SiacoinOutputs = append(x.SiacoinOutputs, types.SiacoinOutput{Value: one, Address: types.Address{1}})
				partial := len(x.Signatures) > 0 && !x.Signatures[0].CoveredFields.WholeTransaction
				SignV1(a.CS, x, partial)
				id := e.ID
				if a.emit(blk, "v1-supplement/siacoin/value-up-and-paid-out", "reject", nil, func(bs *consensus.V1BlockSupplement) {
					for i := range bs.Transactions[ti].SiacoinInputs {
						if bs.Transactions[ti].SiacoinInputs[i].ID == id {
							bs.Transactions[ti].SiacoinInputs[i].SiacoinOutput.Value = bs.Transactions[ti].SiacoinInputs[i].SiacoinOutput.Value.Add(one)
						}
					}
				}) {
					n++
				}
				// the same with the supplement element dressed up as "created earlier in this block" (unassigned leaf index
				// and no proof - both at once): v1 parents created in the block are found by the validator itself, so a
				// supplement never carries such an element, and one that does is no member of anything
				blk2 := CloneBlock(blk)
				if a.emit(blk2, "v1-supplement/siacoin/value-up-and-paid-out-relabelled-ephemeral", "reject", nil, func(bs *consensus.V1BlockSupplement) {
					for i := range bs.Transactions[ti].SiacoinInputs {
						if el := &bs.Transactions[ti].SiacoinInputs[i]; el.ID == id {
							el.SiacoinOutput.Value = el.SiacoinOutput.Value.Add(one)
							el.StateElement = types.StateElement{LeafIndex: types.UnassignedLeafIndex}
						}
					}
				}) {
					n++
				}
				// and a parent that never existed at all: a fresh transaction spends an invented ID whose element, with the
				// unassigned leaf index and no proof, is slipped into the supplement
				{
					lock := MakeLock(LockSpec{Kind: 0, K1: 1})
					var fid types.SiacoinOutputID
					copy(fid[:], id[:])
					fid[0] ^= 0x5A
					if _, exists := a.G.C.Store.SC[fid]; !exists && a.v1Allowed() {
						txn := types.Transaction{SiacoinInputs: []types.SiacoinInput{{ParentID: fid, UnlockConditions: *lock.UC}},
							SiacoinOutputs: []types.SiacoinOutput{{Value: types.Siacoins(1000), Address: types.Address{0xF0}}}}
						SignV1(a.CS, &txn, false)
						blk3 := CloneBlock(a.Honest)
						blk3.Transactions = append(blk3.Transactions, txn)
						at := len(blk3.Transactions) - 1
						if a.emit(blk3, "v1-supplement/siacoin/never-created-parent-dressed-as-ephemeral", "reject", nil, func(bs *consensus.V1BlockSupplement) {
							for len(bs.Transactions) <= at {
								bs.Transactions = append(bs.Transactions, consensus.V1TransactionSupplement{})
							}
							bs.Transactions[at].SiacoinInputs = append(bs.Transactions[at].SiacoinInputs, types.SiacoinElement{ID: fid,
								StateElement:  types.StateElement{LeafIndex: types.UnassignedLeafIndex},
								SiacoinOutput: types.SiacoinOutput{Value: types.Siacoins(1000), Address: lock.Address()}})
						}) {
							n++
						}
					}
				}
				// leaf index / proof of another element
				for _, name := range []string{"leaf-index^1", "leaf-index^2^40", "proof-bitflip", "maturity-down"} {
					nm := name
					if a.emit(CloneBlock(a.Honest), "v1-supplement/siacoin/"+nm, "reject", nil, func(bs *consensus.V1BlockSupplement) {
						for i := range bs.Transactions[ti].SiacoinInputs {
							el := &bs.Transactions[ti].SiacoinInputs[i]
							if el.ID != id {
								continue
							}
							switch nm {
							case "leaf-index^1":
								el.StateElement.LeafIndex ^= 1
							case "leaf-index^2^40":
								el.StateElement.LeafIndex ^= 1 << 40
							case "proof-bitflip":
								if len(el.StateElement.MerkleProof) > 0 {
									el.StateElement.MerkleProof[0][7] ^= 1
								} else {
									el.StateElement.LeafIndex ^= 2
								}
							case "maturity-down":
								el.MaturityHeight ^= 1
							}
						}
					}) {
						n++
					}
				}
			}
		}
		if len(orig.SiafundInputs) > 0 {
			if e, ok := a.G.C.Store.SF[orig.SiafundInputs[0].ParentID]; ok && !e.ClaimStart.IsZero() {
				id := e.ID
				if a.emit(CloneBlock(a.Honest), "v1-supplement/siafund/claim-start-down", "reject", nil, func(bs *consensus.V1BlockSupplement) {
					for i := range bs.Transactions[ti].SiafundInputs {
						if bs.Transactions[ti].SiafundInputs[i].ID == id {
							bs.Transactions[ti].SiafundInputs[i].ClaimStart = types.ZeroCurrency
						}
					}
				}) {
					n++
				}
			}
		}
		if len(orig.FileContractRevisions) > 0 {
			id := orig.FileContractRevisions[0].ParentID
			if _, ok := a.G.C.Store.FC[id]; ok {
				if a.emit(CloneBlock(a.Honest), "v1-supplement/revised-contract/revision-number-down", "reject", nil, func(bs *consensus.V1BlockSupplement) {
					for i := range bs.Transactions[ti].RevisedFileContracts {
						if bs.Transactions[ti].RevisedFileContracts[i].ID == id {
							bs.Transactions[ti].RevisedFileContracts[i].FileContract.RevisionNumber ^= 1
						}
					}
				}) {
					n++
				}
			}
		}
		if len(orig.StorageProofs) > 0 {
			id := orig.StorageProofs[0].ParentID
			if _, ok := a.G.C.Store.FC[id]; ok {
				if a.emit(CloneBlock(a.Honest), "v1-supplement/proven-contract/valid-output-value", "reject", nil, func(bs *consensus.V1BlockSupplement) {
					for i := range bs.Transactions[ti].StorageProofs {
						fc := &bs.Transactions[ti].StorageProofs[i].FileContract
						if fc.ID == id && len(fc.FileContract.ValidProofOutputs) > 0 {
							fc.FileContract.ValidProofOutputs[0].Value = fc.FileContract.ValidProofOutputs[0].Value.Add(one)
						}
					}
				}) {
					n++
				}
			}
		}
	}
	// expiring contract altered: missed outputs raised
	if a.v1Allowed() {
		exp := 0
		for _, e := range a.G.C.Store.SortedFC() {
			if e.FileContract.WindowEnd == a.Child && len(e.FileContract.MissedProofOutputs) > 0 {
				id := e.ID
				if a.emit(CloneBlock(a.Honest), "v1-supplement/expiring-contract/missed-output-value", "reject", nil, func(bs *consensus.V1BlockSupplement) {
					for i := range bs.ExpiringFileContracts {
						if bs.ExpiringFileContracts[i].ID == id {
							o := bs.ExpiringFileContracts[i].FileContract.MissedProofOutputs
							o[0].Value = o[0].Value.Add(one)
						}
					}
				}) {
					n++
					exp++
				}
				break
			}
		}
	}
	n += a.ephemeralOtherKindProbe()
	n += a.ephemeralSiafundProbe()
	return n
}

// ephemeralOtherKindProbe: a parent that claims to have been created earlier in the block (unassigned leaf index, no
// accumulator check) must be exactly a siacoin output created earlier in the block. The probe is a fresh block of three
// v2 transactions: T1 spends a stored output and creates an output Y plus attestations; T2 spends, as an ephemeral
// parent, an element with Y's contents but the ID of one of the attestations (an element of another kind; the probe
// tries every attestation, so one of them sits at the same position of its kind as Y does among the siacoin
// elements the block has recorded); T3 spends the real Y. The value of Y would leave the block twice: rejected.
// Control: the block without T2 is accepted.
func (a *Adv) ephemeralOtherKindProbe() int {
	// below EphemeralOutputHeight a claimed ephemeral parent is only looked up, not compared with what the block created
	// (the documented legacy window the hardfork closed); the claim starts at that height
	if !a.v2Allowed() || a.Child < a.G.C.Net.HardforkV2.EphemeralOutputHeight {
		return 0
	}
	median := MedianTimestamp(a.CS)
	for _, el := range a.G.C.Store.SortedSC() {
		lock, known := a.G.W.Locks[el.SiacoinOutput.Address]
		if !known || el.MaturityHeight > a.Child || el.SiacoinOutput.Value.IsZero() || !lock.Spendable(true, a.Child, median) {
			continue
		}
		sp, ok := Satisfy(lock.Policy, types.Hash256{}, a.CS.Index.Height, median)
		if !ok {
			continue
		}
		pk := MakeLock(LockSpec{Kind: NumV1Kinds, K1: 1})
		psp, ok := Satisfy(pk.Policy, types.Hash256{}, a.CS.Index.Height, median)
		if !ok || !pk.Spendable(true, a.Child, median) {
			return 0
		}
		t1 := types.V2Transaction{
			SiacoinInputs:  []types.V2SiacoinInput{{Parent: el.Copy(), SatisfiedPolicy: sp}},
			SiacoinOutputs: []types.SiacoinOutput{{Value: el.SiacoinOutput.Value, Address: pk.Address()}},
		}
		for k := 0; k < 3; k++ {
			t1.Attestations = append(t1.Attestations, types.Attestation{PublicKey: Pub(1), Key: "probe", Value: []byte{byte(k)}})
		}
		SignV2(a.CS, &t1, SignOpts{})
		y := t1.EphemeralSiacoinOutput(0)
		t3 := types.V2Transaction{
			SiacoinInputs:  []types.V2SiacoinInput{{Parent: y.Copy(), SatisfiedPolicy: psp}},
			SiacoinOutputs: []types.SiacoinOutput{{Value: y.SiacoinOutput.Value, Address: types.Address{0xE5}}},
		}
		SignV2(a.CS, &t3, SignOpts{})
		mk := func(txns ...types.V2Transaction) types.Block {
			return types.Block{Timestamp: NextTimestamp(a.CS, 0, 0), MinerPayouts: []types.SiacoinOutput{{Address: types.Address{0xAA}}}, V2: &types.V2BlockData{Transactions: txns}}
		}
		n := 0
		a.emit(mk(t1, t3), "fresh-single-spend/v2-ephemeral-parent-after-attestations", "accept", nil, nil)
		for k := range t1.Attestations {
			forged := y.Copy()
			forged.ID = types.SiacoinOutputID(t1.AttestationID(t1.ID(), k))
			t2 := types.V2Transaction{
				SiacoinInputs:  []types.V2SiacoinInput{{Parent: forged, SatisfiedPolicy: psp}},
				SiacoinOutputs: []types.SiacoinOutput{{Value: y.SiacoinOutput.Value, Address: types.Address{0xE4}}},
			}
			SignV2(a.CS, &t2, SignOpts{})
			if a.emit(mk(t1, t2, t3), "v2-parent/siacoin-ephemeral/id-of-attestation-created-in-block", "reject", nil, nil) {
				n++
			}
		}
		return n
	}
	return 0
}

// ephemeralSiafundProbe: from EphemeralOutputHeight on a siafund output created earlier in the block cannot be spent in
// that block at all - neither as it was created nor, a fortiori, with a misstated value. A fresh block of two v2
// transactions: T1 moves a stored siafund output to a key of ours, T2 spends T1's output as an ephemeral parent (genuine,
// and with its value doubled and paid out). Control: the block with T1 alone is accepted. The label says when the
// block sits exactly at the height from which the rule applies.
func (a *Adv) ephemeralSiafundProbe() int {
	E := a.G.C.Net.HardforkV2.EphemeralOutputHeight
	if !a.v2Allowed() || a.Child < E {
		return 0
	}
	used := map[types.SiafundOutputID]bool{}
	for _, t := range a.Honest.Transactions {
		for _, in := range t.SiafundInputs {
			used[in.ParentID] = true
		}
	}
	for _, t := range a.Honest.V2Transactions() {
		for _, in := range t.SiafundInputs {
			used[in.Parent.ID] = true
		}
	}
	median := MedianTimestamp(a.CS)
	at := ""
	if a.Child == E {
		at = "/at-the-height-the-rule-starts"
	}
	for _, el := range a.G.C.Store.SortedSF() {
		lock, known := a.G.W.Locks[el.SiafundOutput.Address]
		if !known || used[el.ID] || el.SiafundOutput.Value == 0 || el.SiafundOutput.Value > 1<<40 || !lock.Spendable(true, a.Child, median) {
			continue
		}
		sp, ok := Satisfy(lock.Policy, types.Hash256{}, a.CS.Index.Height, median)
		if !ok {
			continue
		}
		pk := MakeLock(LockSpec{Kind: NumV1Kinds, K1: 1})
		psp, ok := Satisfy(pk.Policy, types.Hash256{}, a.CS.Index.Height, median)
		if !ok || !pk.Spendable(true, a.Child, median) {
			return 0
		}
		t1 := types.V2Transaction{
			SiafundInputs:  []types.V2SiafundInput{{Parent: el.Copy(), SatisfiedPolicy: sp, ClaimAddress: types.Address{0xC1}}},
			SiafundOutputs: []types.SiafundOutput{{Value: el.SiafundOutput.Value, Address: pk.Address()}},
		}
		SignV2(a.CS, &t1, SignOpts{})
		y := t1.EphemeralSiafundOutput(0)
		mk := func(txns ...types.V2Transaction) types.Block {
			blk := CloneBlock(a.Honest)
			if blk.V2 == nil {
				blk.V2 = &types.V2BlockData{}
			}
			blk.V2.Transactions = append(blk.V2.Transactions, txns...)
			return blk
		}
		n := 0
		a.emit(mk(t1), "fresh-single-spend/v2-siafund-moved-to-own-key", "accept", nil, nil)
		for _, forged := range []bool{false, true} {
			parent, name := y.Copy(), "genuine"
			if forged {
				parent.SiafundOutput.Value *= 2
				name = "value-doubled"
			}
			t2 := types.V2Transaction{
				SiafundInputs:  []types.V2SiafundInput{{Parent: parent, SatisfiedPolicy: psp, ClaimAddress: types.Address{0xC2}}},
				SiafundOutputs: []types.SiafundOutput{{Value: parent.SiafundOutput.Value, Address: types.Address{0xE6}}},
			}
			SignV2(a.CS, &t2, SignOpts{})
			if a.emit(mk(t1, t2), "v2-parent/siafund-ephemeral/"+name+at, "reject", nil, nil) {
				n++
			}
		}
		return n
	}
	return 0
}
