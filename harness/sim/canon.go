package sim

import (
	"bytes"
	"fmt"

	"go.sia.tech/core/consensus"
	"go.sia.tech/core/types"
)

// Diffs is the common read interface of ApplyUpdate and RevertUpdate.
type Diffs interface {
	SiacoinElementDiffs() []consensus.SiacoinElementDiff
	SiafundElementDiffs() []consensus.SiafundElementDiff
	FileContractElementDiffs() []consensus.FileContractElementDiff
	V2FileContractElementDiffs() []consensus.V2FileContractElementDiff
	ChainIndexElement() types.ChainIndexElement
}

func encHex(e types.EncoderTo) string {
	var buf bytes.Buffer
	en := types.NewEncoder(&buf)
	e.EncodeTo(en)
	en.Flush()
	return fmt.Sprintf("%x", buf.Bytes())
}

// CanonDiffs renders the diffs of an update as four ordered lists of strings (one per
// element kind) covering id, contents, leaf index and flags — and, if withProofs, the
// Merkle proofs. The lists keep the order in which the update reports the diffs.
func CanonDiffs(d Diffs, withProofs bool) (sc, sf, fc, v2fc []string, ci string) {
	strip := func(se types.StateElement) types.StateElement {
		if !withProofs {
			se.MerkleProof = nil
		}
		return se
	}
	for _, x := range d.SiacoinElementDiffs() {
		e := x.SiacoinElement
		e.StateElement = strip(e.StateElement)
		sc = append(sc, fmt.Sprintf("%s created=%v spent=%v", encHex(e), x.Created, x.Spent))
	}
	for _, x := range d.SiafundElementDiffs() {
		e := x.SiafundElement
		e.StateElement = strip(e.StateElement)
		sf = append(sf, fmt.Sprintf("%s created=%v spent=%v", encHex(e), x.Created, x.Spent))
	}
	for _, x := range d.FileContractElementDiffs() {
		e := x.FileContractElement
		e.StateElement = strip(e.StateElement)
		rev := "-"
		if x.Revision != nil {
			rev = encHex(*x.Revision)
		}
		fc = append(fc, fmt.Sprintf("%s created=%v rev=%s resolved=%v valid=%v", encHex(e), x.Created, rev, x.Resolved, x.Valid))
	}
	for _, x := range d.V2FileContractElementDiffs() {
		e := x.V2FileContractElement
		e.StateElement = strip(e.StateElement)
		rev := "-"
		if x.Revision != nil {
			rev = encHex(*x.Revision)
		}
		res := "-"
		switch r := x.Resolution.(type) {
		case *types.V2FileContractRenewal:
			res = "renewal:" + encHex(*r)
		case *types.V2StorageProof:
			c := *r
			if !withProofs {
				c.ProofIndex.StateElement.MerkleProof = nil
			}
			res = "proof:" + encHex(c)
		case *types.V2FileContractExpiration:
			res = "expiration"
		}
		v2fc = append(v2fc, fmt.Sprintf("%s created=%v rev=%s res=%s", encHex(e), x.Created, rev, res))
	}
	// The chain index element is compared by id and chain index only: RevertUpdate reports it
	// with an unassigned leaf index (the leaf no longer exists), which the property does not forbid.
	c := d.ChainIndexElement()
	ci = fmt.Sprintf("%v %v", c.ID, c.ChainIndex)
	return
}

// Reversed returns a reversed copy.
func Reversed(s []string) []string {
	out := make([]string, len(s))
	for i := range s {
		out[len(s)-1-i] = s[i]
	}
	return out
}

// EqualLists compares two string lists and names the first difference.
func EqualLists(kind string, a, b []string) error {
	if len(a) != len(b) {
		return fmt.Errorf("%s: %d diffs vs %d", kind, len(a), len(b))
	}
	for i := range a {
		if a[i] != b[i] {
			return fmt.Errorf("%s diff %d differs:\n  %s\n  %s", kind, i, trunc(a[i]), trunc(b[i]))
		}
	}
	return nil
}

// StateBytes is the binary encoding of a state.
func StateBytes(s consensus.State) []byte {
	var buf bytes.Buffer
	en := types.NewEncoder(&buf)
	s.EncodeTo(en)
	en.Flush()
	return buf.Bytes()
}
