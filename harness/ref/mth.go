// Package ref holds reference implementations that are independent of the code
// under test: an RFC 6962 Merkle tree over BLAKE2b-256 (x/crypto, generic code),
// big-integer helpers, and protocol schedules written from the documented rules.
package ref

import (
	"golang.org/x/crypto/blake2b"
)

// H is a 32-byte hash.
type H = [32]byte

// LeafHash is BLAKE2b-256(0x00 || data).
func LeafHash(data []byte) H {
	buf := make([]byte, 1+len(data))
	copy(buf[1:], data)
	return blake2b.Sum256(buf)
}

// NodeHash is BLAKE2b-256(0x01 || l || r).
func NodeHash(l, r H) H {
	var buf [65]byte
	buf[0] = 1
	copy(buf[1:], l[:])
	copy(buf[33:], r[:])
	return blake2b.Sum256(buf[:])
}

// split returns the largest power of two strictly smaller than n (n >= 2).
func split(n int) int {
	k := 1
	for k*2 < n {
		k *= 2
	}
	return k
}

// MTH is the RFC 6962 Merkle tree hash of the given leaf hashes (empty list: zero hash).
func MTH(leaves []H) H {
	switch len(leaves) {
	case 0:
		return H{}
	case 1:
		return leaves[0]
	}
	k := split(len(leaves))
	return NodeHash(MTH(leaves[:k]), MTH(leaves[k:]))
}

// Path is the RFC 6962 audit path of leaf i, ordered from the leaf towards the root.
func Path(leaves []H, i int) []H {
	if len(leaves) <= 1 {
		return nil
	}
	k := split(len(leaves))
	if i < k {
		return append(Path(leaves[:k], i), MTH(leaves[k:]))
	}
	return append(Path(leaves[k:], i-k), MTH(leaves[:k]))
}

// Segments cuts data into 64-byte leaves, the last one zero-extended (the storage
// contract convention: "the leaf is always 64 bytes, extended with zeros").
func Segments(data []byte) [][64]byte {
	var out [][64]byte
	for len(data) > 0 {
		var seg [64]byte
		n := copy(seg[:], data)
		data = data[n:]
		out = append(out, seg)
	}
	return out
}

// FileRoot is the Merkle root of data under the 64-byte zero-extended leaf convention.
func FileRoot(data []byte) H {
	segs := Segments(data)
	hs := make([]H, len(segs))
	for i := range segs {
		hs[i] = LeafHash(segs[i][:])
	}
	return MTH(hs)
}

// FileProof returns the leaf and audit path for segment i of data.
func FileProof(data []byte, i int) (leaf [64]byte, path []H) {
	segs := Segments(data)
	hs := make([]H, len(segs))
	for j := range segs {
		hs[j] = LeafHash(segs[j][:])
	}
	return segs[i], Path(hs, i)
}

// FileTree caches the leaf hashes and the larger subtree roots of one file so that many
// audit paths can be taken from a big file (sector-sized contracts) without rehashing it.
type FileTree struct {
	data   []byte
	leaves []H
	memo   map[[2]int]H
}

func (t *FileTree) seg(i int) (s [64]byte) {
	copy(s[:], t.data[i*64:])
	return s
}

// NewFileTree hashes the leaves of data (64-byte zero-extended leaf convention).
func NewFileTree(data []byte) *FileTree {
	t := &FileTree{data: data, memo: map[[2]int]H{}}
	t.leaves = make([]H, (len(data)+63)/64)
	for i := range t.leaves {
		s := t.seg(i)
		t.leaves[i] = LeafHash(s[:])
	}
	return t
}

// node is MTH(leaves[lo:hi]); subtrees of at least 256 leaves are remembered.
func (t *FileTree) node(lo, hi int) H {
	switch hi - lo {
	case 0:
		return H{}
	case 1:
		return t.leaves[lo]
	}
	big := hi-lo >= 256
	if big {
		if h, ok := t.memo[[2]int{lo, hi}]; ok {
			return h
		}
	}
	k := split(hi - lo)
	h := NodeHash(t.node(lo, lo+k), t.node(lo+k, hi))
	if big {
		t.memo[[2]int{lo, hi}] = h
	}
	return h
}

// Root is the RFC 6962 root of the file.
func (t *FileTree) Root() H { return t.node(0, len(t.leaves)) }

// NumLeaves is the number of 64-byte leaves.
func (t *FileTree) NumLeaves() int { return len(t.leaves) }

// Proof returns leaf i and its audit path, ordered from the leaf towards the root.
func (t *FileTree) Proof(i int) (leaf [64]byte, path []H) {
	var rec func(lo, hi int) []H
	rec = func(lo, hi int) []H {
		if hi-lo <= 1 {
			return nil
		}
		k := split(hi - lo)
		if i < lo+k {
			return append(rec(lo, lo+k), t.node(lo+k, hi))
		}
		return append(rec(lo+k, hi), t.node(lo, lo+k))
	}
	return t.seg(i), rec(0, len(t.leaves))
}
