package ref

import (
	"math/big"
	"time"

	"go.sia.tech/core/types"
	"golang.org/x/crypto/blake2b"
)

// Big converts a Currency to a big integer without using Currency arithmetic.
func Big(c types.Currency) *big.Int {
	b := new(big.Int).SetUint64(c.Hi)
	b.Lsh(b, 64)
	return b.Or(b, new(big.Int).SetUint64(c.Lo))
}

// Cur converts back; ok is false if the value does not fit 128 bits or is negative.
func Cur(b *big.Int) (types.Currency, bool) {
	if b.Sign() < 0 || b.BitLen() > 128 {
		return types.Currency{}, false
	}
	lo := new(big.Int).And(b, new(big.Int).SetUint64(^uint64(0))).Uint64()
	hi := new(big.Int).Rsh(b, 64).Uint64()
	return types.NewCurrency(lo, hi), true
}

var hastingsPerSC = new(big.Int).Exp(big.NewInt(10), big.NewInt(24), nil)

// SC returns n siacoins in hastings.
func SC(n uint64) *big.Int { return new(big.Int).Mul(hastingsPerSC, new(big.Int).SetUint64(n)) }

// BlockReward: initial coinbase minus one siacoin per height, never below the minimum.
func BlockReward(initial, minimum types.Currency, childHeight uint64) *big.Int {
	r := new(big.Int).Sub(Big(initial), SC(childHeight&0xFFFFFFFF)) // the rule counts heights as 32-bit siacoin amounts
	if r.Cmp(Big(minimum)) < 0 {
		return Big(minimum)
	}
	return r
}

// FoundationSubsidy: 30000 SC per block, paid in advance for a year at the fork height
// and monthly afterwards, only while the subsidy address is not void.
func FoundationSubsidy(childHeight, forkHeight uint64, interval time.Duration, addrVoid bool) (*big.Int, bool) {
	if addrVoid {
		return nil, false
	}
	blocksPerYear := uint64(365 * 24 * time.Hour / interval)
	blocksPerMonth := blocksPerYear / 12
	if childHeight < forkHeight || (childHeight-forkHeight)%blocksPerMonth != 0 {
		return nil, false
	}
	if childHeight == forkHeight {
		return new(big.Int).Mul(SC(30000), new(big.Int).SetUint64(blocksPerYear)), true
	}
	return new(big.Int).Mul(SC(30000), new(big.Int).SetUint64(blocksPerMonth)), true
}

// TaxV1: 3.9% of the payout rounded down to a multiple of 10000 hastings. Before the
// tax hard fork the rate was the float64 constant 0.039 (its exact binary value), after
// it the exact fraction 39/1000.
func TaxV1(payout types.Currency, preFork bool) *big.Int {
	p := Big(payout)
	var t *big.Int
	if preFork {
		r := new(big.Rat).SetFloat64(0.039)
		num := new(big.Int).Mul(p, r.Num())
		t = num.Quo(num, r.Denom())
	} else {
		t = new(big.Int).Mul(p, big.NewInt(39))
		t.Quo(t, big.NewInt(1000))
	}
	return t.Sub(t, new(big.Int).Mod(t, big.NewInt(10000)))
}

// TaxV2: 4% of renter+host value, floored.
func TaxV2(renter, host types.Currency) *big.Int {
	s := new(big.Int).Add(Big(renter), Big(host))
	return s.Quo(s, big.NewInt(25))
}

// ClaimValue: floor((poolNow - poolAtCreation) / 10000) * siafunds held.
func ClaimValue(poolNow, poolStart *big.Int, held uint64) *big.Int {
	d := new(big.Int).Sub(poolNow, poolStart)
	d.Quo(d, big.NewInt(10000))
	return d.Mul(d, new(big.Int).SetUint64(held))
}

// NumLeaves64 is the number of 64-byte leaves of a file.
func NumLeaves64(filesize uint64) uint64 {
	n := filesize / 64
	if filesize%64 != 0 {
		n++
	}
	return n
}

// ChallengeIndex is the chain-derived storage-proof leaf: BLAKE2b(windowID || contractID)
// read as a big-endian integer, modulo the number of leaves (0 for an empty file).
func ChallengeIndex(filesize uint64, windowID types.BlockID, fcid types.FileContractID) uint64 {
	n := NumLeaves64(filesize)
	if n == 0 {
		return 0
	}
	seed := blake2b.Sum256(append(append([]byte(nil), windowID[:]...), fcid[:]...))
	x := new(big.Int).SetBytes(seed[:])
	return x.Mod(x, new(big.Int).SetUint64(n)).Uint64()
}
