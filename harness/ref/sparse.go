package ref

import "sort"

// SparseFile is a file of Size bytes that is zero everywhere except at a few marked 64-byte leaves. Its Merkle root
// and audit paths follow the same definition as FileRoot / FileProof (RFC 6962 split at the largest power of two
// below the leaf count, 64-byte zero-extended leaves) but are computed without materialising the data: a subtree
// without a marked leaf is a tower of identical hashes. That makes contracts of any committed size checkable,
// up to Filesize = 2^64-1 (2^58 leaves), where every size computation in the verifier sits on a uint64 edge.
type SparseFile struct {
	Size  uint64
	Marks map[uint64][64]byte // leaf index -> content (bytes past the end of the file must be zero)

	keys []uint64
	zero []H // zero[k] = root of 2^k all-zero leaves
}

// NewSparseFile prepares the lookup tables.
func NewSparseFile(size uint64, marks map[uint64][64]byte) *SparseFile {
	f := &SparseFile{Size: size, Marks: marks}
	for k := range marks {
		f.keys = append(f.keys, k)
	}
	sort.Slice(f.keys, func(i, j int) bool { return f.keys[i] < f.keys[j] })
	var z [64]byte
	f.zero = []H{LeafHash(z[:])}
	for k := 1; k <= 60; k++ {
		f.zero = append(f.zero, NodeHash(f.zero[k-1], f.zero[k-1]))
	}
	return f
}

// NumLeaves is the number of 64-byte leaves.
func (f *SparseFile) NumLeaves() uint64 { return NumLeaves64(f.Size) }

// Leaf returns the content of leaf i.
func (f *SparseFile) Leaf(i uint64) [64]byte { return f.Marks[i] }

func (f *SparseFile) marked(lo, n uint64) bool {
	j := sort.Search(len(f.keys), func(j int) bool { return f.keys[j] >= lo })
	return j < len(f.keys) && f.keys[j]-lo < n
}

func split64(n uint64) uint64 {
	k := uint64(1)
	for k*2 < n {
		k *= 2
	}
	return k
}

// node is the root of the leaves [lo, lo+n), n >= 1.
func (f *SparseFile) node(lo, n uint64) H {
	if n&(n-1) == 0 && !f.marked(lo, n) {
		k := 0
		for uint64(1)<<uint(k) < n {
			k++
		}
		return f.zero[k]
	}
	if n == 1 {
		l := f.Marks[lo]
		return LeafHash(l[:])
	}
	k := split64(n)
	return NodeHash(f.node(lo, k), f.node(lo+k, n-k))
}

// Root is the Merkle root (zero hash for an empty file).
func (f *SparseFile) Root() H {
	if f.NumLeaves() == 0 {
		return H{}
	}
	return f.node(0, f.NumLeaves())
}

// Proof returns leaf i and its audit path, ordered from the leaf towards the root.
func (f *SparseFile) Proof(i uint64) (leaf [64]byte, path []H) {
	var walk func(lo, n uint64) []H
	walk = func(lo, n uint64) []H {
		if n <= 1 {
			return nil
		}
		k := split64(n)
		if i < lo+k {
			return append(walk(lo, k), f.node(lo+k, n-k))
		}
		return append(walk(lo+k, n-k), f.node(lo, k))
	}
	return f.Marks[i], walk(0, f.NumLeaves())
}

// With returns a copy of the file in which leaf i has the given content.
func (f *SparseFile) With(i uint64, content [64]byte) *SparseFile {
	m := map[uint64][64]byte{}
	for k, v := range f.Marks {
		m[k] = v
	}
	m[i] = content
	return NewSparseFile(f.Size, m)
}
