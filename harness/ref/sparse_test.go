package ref

import "testing"

// The sparse computation must agree with the plain definition on files small enough to materialise.
func TestSparseAgreesWithPlain(t *testing.T) {
	for _, size := range []uint64{1, 63, 64, 65, 128, 129, 64 * 7, 64*7 + 5, 64 * 8, 64*33 + 1, 64 * 100} {
		data := make([]byte, size)
		marks := map[uint64][64]byte{}
		n := NumLeaves64(size)
		for _, i := range []uint64{0, n - 1, n / 2, n / 3} {
			var c [64]byte
			for j := range c {
				off := i*64 + uint64(j)
				if off < size {
					c[j] = byte(off*7 + 3)
					data[off] = c[j]
				}
			}
			marks[i] = c
		}
		f := NewSparseFile(size, marks)
		if f.Root() != FileRoot(data) {
			t.Fatalf("size %d: sparse root differs from plain root", size)
		}
		for i := uint64(0); i < n; i++ {
			l1, p1 := f.Proof(i)
			l2, p2 := FileProof(data, int(i))
			if l1 != l2 || len(p1) != len(p2) {
				t.Fatalf("size %d leaf %d: proofs differ", size, i)
			}
			for k := range p1 {
				if p1[k] != p2[k] {
					t.Fatalf("size %d leaf %d: path hash %d differs", size, i, k)
				}
			}
		}
	}
}
