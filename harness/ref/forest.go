package ref

import (
	"encoding/binary"

	"go.sia.tech/core/types"
	"golang.org/x/crypto/blake2b"
)

// ---- a minimal independent statement of the wire layout needed for leaf hashes ----

// W is an append-only byte writer.
type W struct{ B []byte }

func (w *W) U8(v uint8)     { w.B = append(w.B, v) }
func (w *W) U64(v uint64)   { w.B = binary.LittleEndian.AppendUint64(w.B, v) }
func (w *W) Raw(p []byte)   { w.B = append(w.B, p...) }
func (w *W) Bytes(p []byte) { w.U64(uint64(len(p))); w.Raw(p) }
func (w *W) Dist(s string)  { w.Raw([]byte("sia/" + s + "|")) }
func (w *W) Bool(b bool) {
	if b {
		w.U8(1)
	} else {
		w.U8(0)
	}
}

// CurV2 is the fixed 16-byte little-endian (lo, hi) currency form.
func (w *W) CurV2(c types.Currency) { w.U64(c.Lo); w.U64(c.Hi) }

// CurV1 is the length-prefixed big-endian form without leading zero bytes.
func (w *W) CurV1(c types.Currency) {
	var buf [16]byte
	binary.BigEndian.PutUint64(buf[:8], c.Hi)
	binary.BigEndian.PutUint64(buf[8:], c.Lo)
	i := 0
	for i < 16 && buf[i] == 0 {
		i++
	}
	w.Bytes(buf[i:])
}

func (w *W) ScoV2(o types.SiacoinOutput) { w.CurV2(o.Value); w.Raw(o.Address[:]) }
func (w *W) ScoV1(o types.SiacoinOutput) { w.CurV1(o.Value); w.Raw(o.Address[:]) }

// FileContractV1 writes a v1 file contract.
func (w *W) FileContractV1(fc types.FileContract) {
	w.U64(fc.Filesize)
	w.Raw(fc.FileMerkleRoot[:])
	w.U64(fc.WindowStart)
	w.U64(fc.WindowEnd)
	w.CurV1(fc.Payout)
	w.U64(uint64(len(fc.ValidProofOutputs)))
	for _, o := range fc.ValidProofOutputs {
		w.ScoV1(o)
	}
	w.U64(uint64(len(fc.MissedProofOutputs)))
	for _, o := range fc.MissedProofOutputs {
		w.ScoV1(o)
	}
	w.Raw(fc.UnlockHash[:])
	w.U64(fc.RevisionNumber)
}

// FileContractV2 writes a v2 file contract including its signatures.
func (w *W) FileContractV2(fc types.V2FileContract) {
	w.U64(fc.Capacity)
	w.U64(fc.Filesize)
	w.Raw(fc.FileMerkleRoot[:])
	w.U64(fc.ProofHeight)
	w.U64(fc.ExpirationHeight)
	w.ScoV2(fc.RenterOutput)
	w.ScoV2(fc.HostOutput)
	w.CurV2(fc.MissedHostValue)
	w.CurV2(fc.TotalCollateral)
	w.Raw(fc.RenterPublicKey[:])
	w.Raw(fc.HostPublicKey[:])
	w.U64(fc.RevisionNumber)
	w.Raw(fc.RenterSignature[:])
	w.Raw(fc.HostSignature[:])
}

func sum(w *W) H { return blake2b.Sum256(w.B) }

// Element hashes ("leaf/<kind>" distinguishers), written from the consensus text.

func SiacoinElemHash(e types.SiacoinElement) H {
	w := &W{}
	w.Dist("leaf/siacoin")
	w.Raw(e.ID[:])
	w.ScoV2(e.SiacoinOutput)
	w.U64(e.MaturityHeight)
	return sum(w)
}

func SiafundElemHash(e types.SiafundElement) H {
	w := &W{}
	w.Dist("leaf/siafund")
	w.Raw(e.ID[:])
	w.U64(e.SiafundOutput.Value)
	w.Raw(e.SiafundOutput.Address[:])
	w.CurV2(e.ClaimStart)
	return sum(w)
}

func FileContractElemHash(id types.FileContractID, fc types.FileContract) H {
	w := &W{}
	w.Dist("leaf/filecontract")
	w.Raw(id[:])
	w.FileContractV1(fc)
	return sum(w)
}

func V2FileContractElemHash(id types.FileContractID, fc types.V2FileContract) H {
	w := &W{}
	w.Dist("leaf/v2filecontract")
	w.Raw(id[:])
	w.FileContractV2(fc)
	return sum(w)
}

func AttestationElemHash(e types.AttestationElement) H {
	w := &W{}
	w.Dist("leaf/attestation")
	w.Raw(e.ID[:])
	w.Raw(e.Attestation.PublicKey[:])
	w.Bytes([]byte(e.Attestation.Key))
	w.Bytes(e.Attestation.Value)
	w.Raw(e.Attestation.Signature[:])
	return sum(w)
}

func ChainIndexElemHash(e types.ChainIndexElement) H {
	w := &W{}
	w.Dist("leaf/chainindex")
	w.Raw(e.ID[:])
	w.U64(e.ChainIndex.Height)
	w.Raw(e.ChainIndex.ID[:])
	return sum(w)
}

// AccLeafHash is the accumulator leaf: BLAKE2b(0x00 || elementHash || LE64(index) || spent).
func AccLeafHash(elem H, index uint64, spent bool) H {
	buf := make([]byte, 1+32+8+1)
	copy(buf[1:], elem[:])
	binary.LittleEndian.PutUint64(buf[33:], index)
	if spent {
		buf[41] = 1
	}
	return blake2b.Sum256(buf)
}

// ---- naive forest -------------------------------------------------------------------

// Forest is the accumulator as the plain list of all leaves ever added.
type Forest struct {
	Elem  []H    // element hash per leaf
	Spent []bool // current spent flag per leaf
}

// Clone copies the forest.
func (f *Forest) Clone() *Forest {
	return &Forest{Elem: append([]H(nil), f.Elem...), Spent: append([]bool(nil), f.Spent...)}
}

// Add appends a leaf and returns its index.
func (f *Forest) Add(elem H, spent bool) uint64 {
	f.Elem = append(f.Elem, elem)
	f.Spent = append(f.Spent, spent)
	return uint64(len(f.Elem) - 1)
}

// Truncate drops leaves >= n.
func (f *Forest) Truncate(n uint64) {
	f.Elem = f.Elem[:n]
	f.Spent = f.Spent[:n]
}

// N is the number of leaves.
func (f *Forest) N() uint64 { return uint64(len(f.Elem)) }

func (f *Forest) leaf(i uint64) H { return AccLeafHash(f.Elem[i], i, f.Spent[i]) }

// Built is the fully materialised forest: every node of every tree.
type Built struct {
	n     uint64
	trees []builtTree
}

type builtTree struct {
	start  uint64
	height int
	levels [][]H // levels[0] = leaves of this tree, levels[height] = {root}
}

// Build recomputes every node naively from the leaf list.
func (f *Forest) Build() *Built {
	b := &Built{n: f.N()}
	start := uint64(0)
	for bit := 63; bit >= 0; bit-- {
		if b.n&(1<<bit) == 0 {
			continue
		}
		size := uint64(1) << bit
		lv := make([]H, size)
		for i := uint64(0); i < size; i++ {
			lv[i] = f.leaf(start + i)
		}
		levels := [][]H{lv}
		for len(lv) > 1 {
			up := make([]H, len(lv)/2)
			for i := range up {
				up[i] = NodeHash(lv[2*i], lv[2*i+1])
			}
			levels = append(levels, up)
			lv = up
		}
		b.trees = append(b.trees, builtTree{start: start, height: bit, levels: levels})
		start += size
	}
	return b
}

// Roots returns the root of the tree at every height that has one.
func (b *Built) Roots() (roots [64]H, has [64]bool) {
	for _, t := range b.trees {
		roots[t.height] = t.levels[t.height][0]
		has[t.height] = true
	}
	return
}

// N is the number of leaves.
func (b *Built) N() uint64 { return b.n }

// Proof is the sibling path of leaf i inside its tree, from the leaf upwards.
func (b *Built) Proof(i uint64) []H {
	for _, t := range b.trees {
		if i >= t.start && i < t.start+(1<<t.height) {
			rel := i - t.start
			path := make([]H, 0, t.height)
			for lvl := 0; lvl < t.height; lvl++ {
				path = append(path, t.levels[lvl][(rel>>lvl)^1])
			}
			return path
		}
	}
	panic("ref.Built: leaf out of range")
}

// Node returns the hash of the node at (row, col) in global coordinates: row 0 are leaves,
// col is the leaf index shifted right by row.
func (b *Built) Node(row int, col uint64) (H, bool) {
	for _, t := range b.trees {
		first := t.start >> row
		if row <= t.height && col >= first && col < first+(uint64(1)<<(t.height-row)) {
			return t.levels[row][col-first], true
		}
	}
	return H{}, false
}
