// Package stats is the in-process evidence collector and the glue between a
// property body, rapid, and the driver (/verif/run).
//
// A property is written as draw (rapid generators only) + pure checker. The
// checker reports every case it decides to the collector: a fingerprint, whether
// the case is non-trivial by the property's rule, and labels. On failure the case is
// written as JSON to the shard's replay path before the test fails, so the last file
// written is rapid's minimal case. Panics escaping the code under test are turned
// into failures carrying the stack.
package stats

import (
	"encoding/binary"
	"encoding/json"
	"fmt"
	"hash/fnv"
	"os"
	"path/filepath"
	"runtime/debug"
	"sort"
	"strconv"
	"strings"
	"sync"
	"testing"

	"pgregory.net/rapid"
)

const maxFingerprints = 1 << 21 // per shard; beyond this distinct counting stops (conservative)
const maxSamples = 6

// Rec is the collector.
type Rec struct {
	mu          sync.Mutex
	evaluations uint64
	nontrivial  uint64
	fps         map[uint64]struct{}
	fpCapped    bool
	labels      map[string]uint64
	samples     []json.RawMessage
	ntSamples   int
	extra       map[string]uint64
	excluded    map[string]uint64
	known       []string
}

var global = &Rec{fps: map[uint64]struct{}{}, labels: map[string]uint64{}, extra: map[string]uint64{}, excluded: map[string]uint64{}}

// G returns the process-wide collector.
func G() *Rec { return global }

// FP hashes the parts into a 64-bit fingerprint.
func FP(parts ...any) uint64 {
	h := fnv.New64a()
	var b [8]byte
	for _, p := range parts {
		switch v := p.(type) {
		case string:
			h.Write([]byte(v))
		case []byte:
			h.Write(v)
		case uint64:
			binary.LittleEndian.PutUint64(b[:], v)
			h.Write(b[:])
		case int:
			binary.LittleEndian.PutUint64(b[:], uint64(v))
			h.Write(b[:])
		case bool:
			if v {
				h.Write([]byte{1})
			} else {
				h.Write([]byte{0})
			}
		default:
			fmt.Fprintf(h, "%v", v)
		}
		h.Write([]byte{0xff})
	}
	return h.Sum64()
}

// Case records one decided case.
func (r *Rec) Case(fp uint64, nontrivial bool, labels ...string) {
	r.mu.Lock()
	defer r.mu.Unlock()
	r.evaluations++
	if nontrivial {
		r.nontrivial++
		if _, ok := r.fps[fp]; !ok {
			if len(r.fps) < maxFingerprints {
				r.fps[fp] = struct{}{}
			} else {
				r.fpCapped = true
			}
		}
	}
	for _, l := range labels {
		r.labels[l]++
	}
}

// Label bumps a label without counting a case.
func (r *Rec) Label(l string) { r.LabelN(l, 1) }

// LabelN bumps a label by n.
func (r *Rec) LabelN(l string, n uint64) {
	r.mu.Lock()
	r.labels[l] += n
	r.mu.Unlock()
}

// Extra adds to a named extra counter (reported under coverage.extra).
func (r *Rec) Extra(k string, n uint64) {
	r.mu.Lock()
	r.extra[k] += n
	r.mu.Unlock()
}

// Excluded counts a generated case that was excluded by construction because it
// falls in the class of an open known finding.
func (r *Rec) Excluded(key string) {
	r.mu.Lock()
	r.excluded[key]++
	r.mu.Unlock()
}

// Known records that the committed replay of an open known finding still fails.
func (r *Rec) Known(line string) {
	r.mu.Lock()
	r.known = append(r.known, line)
	r.mu.Unlock()
}

// Sample keeps v (JSON-encoded) as a sample if there is room. Non-trivial samples
// are preferred: the first maxSamples/2 slots accept anything, the rest only
// non-trivial ones.
func (r *Rec) Sample(nontrivial bool, v any) {
	r.mu.Lock()
	defer r.mu.Unlock()
	if len(r.samples) >= maxSamples {
		return
	}
	if !nontrivial && len(r.samples)-r.ntSamples >= maxSamples/2 {
		return
	}
	b, err := json.Marshal(v)
	if err != nil {
		b, _ = json.Marshal(fmt.Sprintf("%+v", v))
	}
	if len(b) > 6000 {
		b, _ = json.Marshal(string(b[:6000]) + "…(truncated)")
	}
	if nontrivial {
		r.ntSamples++
	}
	r.samples = append(r.samples, b)
}

// WantSample reports whether another sample would be kept (avoid building them).
func (r *Rec) WantSample() bool {
	r.mu.Lock()
	defer r.mu.Unlock()
	return len(r.samples) < maxSamples
}

type dump struct {
	Evaluations uint64            `json:"evaluations"`
	Nontrivial  uint64            `json:"nontrivial"`
	FPs         []uint64          `json:"fps"`
	FPCapped    bool              `json:"fp_capped"`
	Labels      map[string]uint64 `json:"labels"`
	Samples     []json.RawMessage `json:"samples"`
	Extra       map[string]uint64 `json:"extra"`
	Excluded    map[string]uint64 `json:"excluded"`
	Known       []string          `json:"known"`
}

// Dump writes the collector to the file named by VERIF_STATS (if set).
func (r *Rec) Dump() {
	path := os.Getenv("VERIF_STATS")
	if path == "" {
		return
	}
	r.mu.Lock()
	defer r.mu.Unlock()
	d := dump{Evaluations: r.evaluations, Nontrivial: r.nontrivial, FPCapped: r.fpCapped, Labels: r.labels,
		Samples: r.samples, Extra: r.extra, Excluded: r.excluded, Known: r.known}
	d.FPs = make([]uint64, 0, len(r.fps))
	for fp := range r.fps {
		d.FPs = append(d.FPs, fp)
	}
	sort.Slice(d.FPs, func(i, j int) bool { return d.FPs[i] < d.FPs[j] })
	b, _ := json.Marshal(d)
	os.WriteFile(path, b, 0o644)
}

// Main is the TestMain body for every check package.
func Main(m *testing.M) {
	code := m.Run()
	global.Dump()
	os.Exit(code)
}

// Tier returns "quick" or "thorough".
func Tier() string {
	if os.Getenv("VERIF_TIER") == "thorough" {
		return "thorough"
	}
	return "quick"
}

// Thorough reports whether the thorough tier is running.
func Thorough() bool { return Tier() == "thorough" }

// Shard returns (index, count) of this worker.
func Shard() (int, int) {
	i, _ := strconv.Atoi(os.Getenv("VERIF_SHARD"))
	n, _ := strconv.Atoi(os.Getenv("VERIF_NSHARDS"))
	if n <= 0 {
		n = 1
	}
	return i, n
}

// EnvInt reads an integer knob passed by the driver.
func EnvInt(name string, def int) int {
	if v, err := strconv.Atoi(os.Getenv(name)); err == nil {
		return v
	}
	return def
}

// Failure is what a checker returns for a violated property.
type Failure struct {
	Key string // narrow class of the failing input (used to match known findings); may be empty
	Msg string
}

func (f *Failure) Error() string {
	if f.Key != "" {
		return "[" + f.Key + "] " + f.Msg
	}
	return f.Msg
}

// Failf builds a Failure.
func Failf(key, format string, args ...any) error {
	return &Failure{Key: key, Msg: fmt.Sprintf(format, args...)}
}

// Safe runs f and converts a panic into a Failure with the stack attached.
func Safe(key string, f func() error) (err error) {
	defer func() {
		if r := recover(); r != nil {
			err = &Failure{Key: key, Msg: fmt.Sprintf("panic: %v\n%s", r, trimStack(debug.Stack()))}
		}
	}()
	return f()
}

// NoPanic runs f and returns a non-nil description if it panicked.
func NoPanic(f func()) (p any, stack []byte) {
	defer func() {
		if r := recover(); r != nil {
			p = r
			stack = trimStack(debug.Stack())
		}
	}()
	f()
	return nil, nil
}

type replayFile struct {
	Property string          `json:"property"`
	Test     string          `json:"test"`
	Error    string          `json:"error"`
	Case     json.RawMessage `json:"case"`
}

// WriteReplay stores the failing case where the driver expects it.
func WriteReplay(test string, c any, err error) {
	path := os.Getenv("VERIF_REPLAY_OUT")
	if path == "" {
		return
	}
	cb, e := json.Marshal(c)
	if e != nil {
		cb, _ = json.Marshal(fmt.Sprintf("%+v", c))
	}
	b, _ := json.MarshalIndent(replayFile{Property: os.Getenv("VERIF_PROP"), Test: test, Error: err.Error(), Case: cb}, "", " ")
	os.WriteFile(path, b, 0o644)
}

// Prop runs a rapid property made of a draw function and a pure checker.
func Prop[C any](t *testing.T, draw func(*rapid.T) C, check func(C) error) {
	name := t.Name()
	rapid.Check(t, func(rt *rapid.T) {
		c := draw(rt)
		err := Safe("", func() error { return check(c) })
		if err != nil {
			WriteReplay(name, c, err)
			rt.Fatalf("%v", err)
		}
	})
}

// PropConc is Prop for checks that are pure functions of their case (no package-level state of their own): every
// generated set of `workers` cases is first checked one case after the other, then all of them at once from as many
// goroutines (released together, `rounds` times each). The library functions under test are called by several
// goroutines with unrelated arguments, the way a node serves many peers; a check that passes alone and fails only while
// others run has found state the library shares between callers. The failing case is written as the unit's replay (run
// alone it passes; the failure message says so).
func PropConc[C any](t *testing.T, draw func(*rapid.T) C, check func(C) error, workers, rounds int) {
	name := t.Name()
	rapid.Check(t, func(rt *rapid.T) {
		cases := make([]C, workers)
		for i := range cases {
			cases[i] = draw(rt)
			if err := Safe("", func() error { return check(cases[i]) }); err != nil {
				WriteReplay(name, cases[i], err)
				rt.Fatalf("%v", err)
			}
		}
		var mu sync.Mutex
		var first error
		var firstCase C
		start := make(chan struct{})
		var wg sync.WaitGroup
		for w := range cases {
			wg.Add(1)
			go func(w int) {
				defer wg.Done()
				<-start
				for r := 0; r < rounds; r++ {
					if err := Safe("", func() error { return check(cases[w]) }); err != nil {
						mu.Lock()
						if first == nil {
							first, firstCase = err, cases[w]
						}
						mu.Unlock()
						return
					}
				}
			}(w)
		}
		close(start)
		wg.Wait()
		if first != nil {
			key := os.Getenv("VERIF_PROP") + "/concurrent"
			err := Failf(key, "a case that passes when checked alone fails while %d other cases are checked by other goroutines (shared state between callers): %v", workers-1, first)
			WriteReplay(name, firstCase, err)
			rt.Fatalf("%v", err)
		}
		G().Label(fmt.Sprintf("concurrent-case-sets:%d-goroutines", workers))
	})
}

// Check is for enumerators and other non-rapid loops: fail the test with a replay.
func Check[C any](t *testing.T, c C, check func(C) error) bool {
	err := Safe("", func() error { return check(c) })
	if err != nil {
		WriteReplay(t.Name(), c, err)
		t.Fatalf("%v", err)
		return false
	}
	return true
}

// Replay feeds the case stored in the file named by VERIF_REPLAY to check, if the
// file was produced by the test called `test` ("" matches any).
func Replay[C any](t *testing.T, test string, check func(C) error) {
	path := os.Getenv("VERIF_REPLAY")
	if path == "" {
		t.Skip("no VERIF_REPLAY")
	}
	b, err := os.ReadFile(path)
	if err != nil {
		t.Fatalf("replay file: %v", err)
	}
	var rf replayFile
	if err := json.Unmarshal(b, &rf); err != nil {
		t.Fatalf("replay file: %v", err)
	}
	if test != "" && rf.Test != test {
		t.Skipf("replay is for %s", rf.Test)
	}
	var c C
	if err := json.Unmarshal(rf.Case, &c); err != nil {
		t.Fatalf("replay case: %v", err)
	}
	if err := Safe("", func() error { return check(c) }); err != nil {
		t.Fatalf("REPLAY-FAIL %v", err)
	}
}

// LoadCase decodes the `case` member of a replay file.
func LoadCase(path string, c any) (test string, err error) {
	b, err := os.ReadFile(path)
	if err != nil {
		return "", err
	}
	var rf replayFile
	if err := json.Unmarshal(b, &rf); err != nil {
		return "", err
	}
	return rf.Test, json.Unmarshal(rf.Case, c)
}

// trimStack keeps the interesting top of a stack trace.
func trimStack(b []byte) []byte {
	n := 0
	for i, c := range b {
		if c == '\n' {
			if n++; n == 24 {
				return b[:i]
			}
		}
	}
	return b
}

// KnownOpen reports whether key names an open entry of /verif/known_findings.json for
// the property being checked (the driver passes the list in VERIF_KNOWN_OPEN).
// Generators use it to exclude the class of an open finding by construction
// (and call Excluded(key) to count what they dropped).
func KnownOpen(key string) bool {
	for _, k := range strings.Split(os.Getenv("VERIF_KNOWN_OPEN"), ",") {
		if k == key && k != "" {
			return true
		}
	}
	return false
}

// ProbeKnown runs the committed reproduction of a defect that was found on the
// pinned tree. probe returns a non-nil error while the defect is present.
//   - defect present and key listed as open  -> reported as KNOWN-FINDING, test passes
//   - defect present and key not open (fixed entry, or not listed) -> test fails (VIOLATION)
//   - defect absent -> nothing
func ProbeKnown(t *testing.T, key, what string, probe func() error) {
	err := Safe(key, probe)
	if err == nil {
		global.Label("probe-clean:" + key)
		return
	}
	if KnownOpen(key) {
		global.Known(key + " " + what)
		global.Label("probe-known:" + key)
		return
	}
	WriteReplay(t.Name(), map[string]string{"key": key, "what": what}, err)
	t.Errorf("defect %s (%s) is present and not listed as an open known finding: %v", key, what, err)
}

// Regress feeds every committed regression case replays/<PROP>/regress-*.json that was
// recorded for the test called `test` to check (plain checker, no rapid). These are the
// minimal inputs of defects that were found and fixed; they run in every tier.
func Regress[C any](t *testing.T, test string, check func(C) error) {
	root := os.Getenv("VERIF_ROOT")
	prop := os.Getenv("VERIF_PROP")
	if root == "" || prop == "" {
		t.Skip("no VERIF_ROOT/VERIF_PROP")
	}
	files, _ := filepath.Glob(filepath.Join(root, "replays", prop, "regress-*.json"))
	sort.Strings(files)
	for _, f := range files {
		var c C
		tn, err := LoadCase(f, &c)
		if err != nil {
			t.Fatalf("%s: %v", f, err)
		}
		if tn != test {
			continue
		}
		if err := Safe("", func() error { return check(c) }); err != nil {
			WriteReplay(test, c, err)
			t.Fatalf("regression %s: %v", filepath.Base(f), err)
		}
		global.Label("regress:" + filepath.Base(f))
	}
}

// FuzzProp runs a draw/check property under Go's native coverage-guided fuzzer: the fuzz input is the byte stream
// rapid draws from (rapid.MakeFuzz), so the engine's coverage feedback steers the same generator and the same pure
// checker as the rapid unit `test`; a failing case is written as that unit's replay file (./run replay works on it).
func FuzzProp[C any](f *testing.F, test string, draw func(*rapid.T) C, check func(C) error) {
	f.Fuzz(rapid.MakeFuzz(func(rt *rapid.T) {
		c := draw(rt)
		if err := Safe("", func() error { return check(c) }); err != nil {
			WriteReplay(test, c, err)
			rt.Fatalf("%v", err)
		}
	}))
}
