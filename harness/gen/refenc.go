package gen

// Independent statement of the wire layout of the consensus-critical objects
// and of the hashes derived from it.  Nothing in this file calls an EncodeTo /
// DecodeFrom method, a hashing helper or an ID method of the library: the
// library's types are used as plain data holders only, and BLAKE2b comes from
// golang.org/x/crypto.
//
// Layout rules (Sia wire format):
//   - integers: 8-byte little endian; uint8 / bool: one byte (bool is 0 or 1)
//   - byte strings and lists: 8-byte little-endian count, then the items
//   - fixed-size hashes/keys/signatures/specifiers: raw bytes
//   - v1 currency: length-prefixed big-endian integer without leading zeros
//   - v2 currency: 16 bytes, low 64 bits first, each little endian
//   - v1 siafund output: value as v1 currency, address, then an empty v1 currency ("claim start")
//   - time: Unix seconds as 8-byte little endian
//   - hash distinguishers: "sia/" + name + "|" prepended to the hashed bytes (v2 only)

import (
	"encoding/binary"
	"time"

	"go.sia.tech/core/consensus"
	"go.sia.tech/core/types"
	"golang.org/x/crypto/blake2b"
)

// W is a reference byte writer.
type W struct{ B []byte }

func (w *W) U8(v uint8) { w.B = append(w.B, v) }
func (w *W) Bool(v bool) {
	if v {
		w.B = append(w.B, 1)
	} else {
		w.B = append(w.B, 0)
	}
}
func (w *W) U64(v uint64)     { w.B = binary.LittleEndian.AppendUint64(w.B, v) }
func (w *W) Raw(b []byte)     { w.B = append(w.B, b...) }
func (w *W) Bytes(b []byte)   { w.U64(uint64(len(b))); w.Raw(b) }
func (w *W) Str(s string)     { w.U64(uint64(len(s))); w.B = append(w.B, s...) }
func (w *W) Time(t time.Time) { w.U64(uint64(t.Unix())) }
func (w *W) Hashes(h []types.Hash256) {
	w.U64(uint64(len(h)))
	for i := range h {
		w.Raw(h[i][:])
	}
}
func (w *W) U64s(v []uint64) {
	w.U64(uint64(len(v)))
	for _, x := range v {
		w.U64(x)
	}
}

// RefH is BLAKE2b-256.
func RefH(b []byte) types.Hash256 { return blake2b.Sum256(b) }

// RefDist is the v2 hash distinguisher "sia/<name>|".
func RefDist(name string) []byte { return []byte("sia/" + name + "|") }

func spec16(name string) []byte {
	var s [16]byte
	copy(s[:], name)
	return s[:]
}

// ---- currency / outputs

func (w *W) CurrencyV1(c types.Currency) {
	var be [16]byte
	binary.BigEndian.PutUint64(be[:8], c.Hi)
	binary.BigEndian.PutUint64(be[8:], c.Lo)
	i := 0
	for i < 16 && be[i] == 0 {
		i++
	}
	w.Bytes(be[i:])
}

func (w *W) CurrencyV2(c types.Currency) { w.U64(c.Lo); w.U64(c.Hi) }

func (w *W) SiacoinOutputV1(o types.SiacoinOutput) { w.CurrencyV1(o.Value); w.Raw(o.Address[:]) }
func (w *W) SiacoinOutputV2(o types.SiacoinOutput) { w.CurrencyV2(o.Value); w.Raw(o.Address[:]) }
func (w *W) SiafundOutputV1(o types.SiafundOutput) {
	w.CurrencyV1(types.Currency{Lo: o.Value})
	w.Raw(o.Address[:])
	w.U64(0) // empty "claim start" currency: zero-length byte string
}
func (w *W) SiafundOutputV2(o types.SiafundOutput) { w.U64(o.Value); w.Raw(o.Address[:]) }

// ---- v1 objects

func (w *W) UnlockKey(k types.UnlockKey) { w.Raw(k.Algorithm[:]); w.Bytes(k.Key) }

func (w *W) UnlockConditions(uc types.UnlockConditions) {
	w.U64(uc.Timelock)
	w.U64(uint64(len(uc.PublicKeys)))
	for _, k := range uc.PublicKeys {
		w.UnlockKey(k)
	}
	w.U64(uc.SignaturesRequired)
}

func (w *W) SiacoinInput(in types.SiacoinInput) {
	w.Raw(in.ParentID[:])
	w.UnlockConditions(in.UnlockConditions)
}

func (w *W) SiafundInput(in types.SiafundInput) {
	w.Raw(in.ParentID[:])
	w.UnlockConditions(in.UnlockConditions)
	w.Raw(in.ClaimAddress[:])
}

func (w *W) outputsV1(os []types.SiacoinOutput) {
	w.U64(uint64(len(os)))
	for _, o := range os {
		w.SiacoinOutputV1(o)
	}
}

func (w *W) FileContract(fc types.FileContract) {
	w.U64(fc.Filesize)
	w.Raw(fc.FileMerkleRoot[:])
	w.U64(fc.WindowStart)
	w.U64(fc.WindowEnd)
	w.CurrencyV1(fc.Payout)
	w.outputsV1(fc.ValidProofOutputs)
	w.outputsV1(fc.MissedProofOutputs)
	w.Raw(fc.UnlockHash[:])
	w.U64(fc.RevisionNumber)
}

// FileContractRevision: siad's revision layout — no payout, revision number first.
func (w *W) FileContractRevision(r types.FileContractRevision) {
	w.Raw(r.ParentID[:])
	w.UnlockConditions(r.UnlockConditions)
	w.U64(r.FileContract.RevisionNumber)
	w.U64(r.FileContract.Filesize)
	w.Raw(r.FileContract.FileMerkleRoot[:])
	w.U64(r.FileContract.WindowStart)
	w.U64(r.FileContract.WindowEnd)
	w.outputsV1(r.FileContract.ValidProofOutputs)
	w.outputsV1(r.FileContract.MissedProofOutputs)
	w.Raw(r.FileContract.UnlockHash[:])
}

func (w *W) StorageProof(sp types.StorageProof) {
	w.Raw(sp.ParentID[:])
	w.Raw(sp.Leaf[:])
	w.Hashes(sp.Proof)
}

func (w *W) CoveredFields(cf types.CoveredFields) {
	w.Bool(cf.WholeTransaction)
	w.U64s(cf.SiacoinInputs)
	w.U64s(cf.SiacoinOutputs)
	w.U64s(cf.FileContracts)
	w.U64s(cf.FileContractRevisions)
	w.U64s(cf.StorageProofs)
	w.U64s(cf.SiafundInputs)
	w.U64s(cf.SiafundOutputs)
	w.U64s(cf.MinerFees)
	w.U64s(cf.ArbitraryData)
	w.U64s(cf.Signatures)
}

func (w *W) TransactionSignature(ts types.TransactionSignature) {
	w.Raw(ts.ParentID[:])
	w.U64(ts.PublicKeyIndex)
	w.U64(ts.Timelock)
	w.CoveredFields(ts.CoveredFields)
	w.Bytes(ts.Signature)
}

// TransactionSansSigs is the preimage of a v1 transaction ID.
func (w *W) TransactionSansSigs(t types.Transaction) {
	w.U64(uint64(len(t.SiacoinInputs)))
	for _, in := range t.SiacoinInputs {
		w.SiacoinInput(in)
	}
	w.outputsV1(t.SiacoinOutputs)
	w.U64(uint64(len(t.FileContracts)))
	for _, fc := range t.FileContracts {
		w.FileContract(fc)
	}
	w.U64(uint64(len(t.FileContractRevisions)))
	for _, r := range t.FileContractRevisions {
		w.FileContractRevision(r)
	}
	w.U64(uint64(len(t.StorageProofs)))
	for _, sp := range t.StorageProofs {
		w.StorageProof(sp)
	}
	w.U64(uint64(len(t.SiafundInputs)))
	for _, in := range t.SiafundInputs {
		w.SiafundInput(in)
	}
	w.U64(uint64(len(t.SiafundOutputs)))
	for _, o := range t.SiafundOutputs {
		w.SiafundOutputV1(o)
	}
	w.U64(uint64(len(t.MinerFees)))
	for _, f := range t.MinerFees {
		w.CurrencyV1(f)
	}
	w.U64(uint64(len(t.ArbitraryData)))
	for _, a := range t.ArbitraryData {
		w.Bytes(a)
	}
}

func (w *W) Transaction(t types.Transaction) {
	w.TransactionSansSigs(t)
	w.U64(uint64(len(t.Signatures)))
	for _, s := range t.Signatures {
		w.TransactionSignature(s)
	}
}

// ---- policies

// policy opcodes
const (
	opAbove = 1 + iota
	opAfter
	opPublicKey
	opHash
	opThreshold
	opOpaque
	opUnlockConditions
)

func (w *W) policyBody(p types.SpendPolicy) {
	switch t := p.Type.(type) {
	case types.PolicyTypeAbove:
		w.U8(opAbove)
		w.U64(uint64(t))
	case types.PolicyTypeAfter:
		w.U8(opAfter)
		w.Time(time.Time(t))
	case types.PolicyTypePublicKey:
		w.U8(opPublicKey)
		w.Raw(t[:])
	case types.PolicyTypeHash:
		w.U8(opHash)
		w.Raw(t[:])
	case types.PolicyTypeThreshold:
		w.U8(opThreshold)
		w.U8(t.N)
		w.U8(uint8(len(t.Of)))
		for _, sp := range t.Of {
			w.policyBody(sp)
		}
	case types.PolicyTypeOpaque:
		w.U8(opOpaque)
		w.Raw(t[:])
	case types.PolicyTypeUnlockConditions:
		w.U8(opUnlockConditions)
		w.UnlockConditions(types.UnlockConditions(t))
	default:
		panic("refenc: nil or unknown policy type")
	}
}

// Policy: version byte 1, then the opcode tree.
func (w *W) Policy(p types.SpendPolicy) { w.U8(1); w.policyBody(p) }

func (w *W) SatisfiedPolicy(sp types.SatisfiedPolicy) {
	w.Policy(sp.Policy)
	w.U64(uint64(len(sp.Signatures)))
	for i := range sp.Signatures {
		w.Raw(sp.Signatures[i][:])
	}
	w.U64(uint64(len(sp.Preimages)))
	for i := range sp.Preimages {
		w.Raw(sp.Preimages[i][:])
	}
}

// ---- elements

func (w *W) StateElement(se types.StateElement) { w.U64(se.LeafIndex); w.Hashes(se.MerkleProof) }
func (w *W) ChainIndex(ci types.ChainIndex)     { w.U64(ci.Height); w.Raw(ci.ID[:]) }

func (w *W) ChainIndexElement(e types.ChainIndexElement) {
	w.StateElement(e.StateElement)
	w.Raw(e.ID[:])
	w.ChainIndex(e.ChainIndex)
}

func (w *W) SiacoinElement(e types.SiacoinElement) {
	w.StateElement(e.StateElement)
	w.Raw(e.ID[:])
	w.SiacoinOutputV2(e.SiacoinOutput)
	w.U64(e.MaturityHeight)
}

func (w *W) SiafundElement(e types.SiafundElement) {
	w.StateElement(e.StateElement)
	w.Raw(e.ID[:])
	w.SiafundOutputV2(e.SiafundOutput)
	w.CurrencyV2(e.ClaimStart)
}

func (w *W) FileContractElement(e types.FileContractElement) {
	w.StateElement(e.StateElement)
	w.Raw(e.ID[:])
	w.FileContract(e.FileContract)
}

func (w *W) V2FileContract(fc types.V2FileContract) {
	w.U64(fc.Capacity)
	w.U64(fc.Filesize)
	w.Raw(fc.FileMerkleRoot[:])
	w.U64(fc.ProofHeight)
	w.U64(fc.ExpirationHeight)
	w.SiacoinOutputV2(fc.RenterOutput)
	w.SiacoinOutputV2(fc.HostOutput)
	w.CurrencyV2(fc.MissedHostValue)
	w.CurrencyV2(fc.TotalCollateral)
	w.Raw(fc.RenterPublicKey[:])
	w.Raw(fc.HostPublicKey[:])
	w.U64(fc.RevisionNumber)
	w.Raw(fc.RenterSignature[:])
	w.Raw(fc.HostSignature[:])
}

func (w *W) V2FileContractElement(e types.V2FileContractElement) {
	w.StateElement(e.StateElement)
	w.Raw(e.ID[:])
	w.V2FileContract(e.V2FileContract)
}

// ---- v2 transaction parts

func (w *W) V2SiacoinInput(in types.V2SiacoinInput) {
	w.SiacoinElement(in.Parent)
	w.SatisfiedPolicy(in.SatisfiedPolicy)
}

func (w *W) V2SiafundInput(in types.V2SiafundInput) {
	w.SiafundElement(in.Parent)
	w.Raw(in.ClaimAddress[:])
	w.SatisfiedPolicy(in.SatisfiedPolicy)
}

func (w *W) V2FileContractRevision(r types.V2FileContractRevision) {
	w.V2FileContractElement(r.Parent)
	w.V2FileContract(r.Revision)
}

func (w *W) V2FileContractRenewal(r types.V2FileContractRenewal) {
	w.SiacoinOutputV2(r.FinalRenterOutput)
	w.SiacoinOutputV2(r.FinalHostOutput)
	w.CurrencyV2(r.RenterRollover)
	w.CurrencyV2(r.HostRollover)
	w.V2FileContract(r.NewContract)
	w.Raw(r.RenterSignature[:])
	w.Raw(r.HostSignature[:])
}

func (w *W) V2StorageProof(sp types.V2StorageProof) {
	w.ChainIndexElement(sp.ProofIndex)
	w.Raw(sp.Leaf[:])
	w.Hashes(sp.Proof)
}

// resolution tags: 0 renewal, 1 storage proof, 2 expiration (empty body)
func (w *W) resolutionBody(r types.V2FileContractResolutionType) {
	switch r := r.(type) {
	case *types.V2FileContractRenewal:
		w.V2FileContractRenewal(*r)
	case *types.V2StorageProof:
		w.V2StorageProof(*r)
	case *types.V2FileContractExpiration:
	default:
		panic("refenc: nil or unknown resolution type")
	}
}

func (w *W) V2FileContractResolution(r types.V2FileContractResolution) {
	w.V2FileContractElement(r.Parent)
	switch r.Resolution.(type) {
	case *types.V2FileContractRenewal:
		w.U8(0)
	case *types.V2StorageProof:
		w.U8(1)
	case *types.V2FileContractExpiration:
		w.U8(2)
	default:
		panic("refenc: nil or unknown resolution type")
	}
	w.resolutionBody(r.Resolution)
}

func (w *W) Attestation(a types.Attestation) {
	w.Raw(a.PublicKey[:])
	w.Str(a.Key)
	w.Bytes(a.Value)
	w.Raw(a.Signature[:])
}

// V2Transaction: version byte 2, 64-bit field bitmap (bit i set iff field i is
// non-empty / non-nil / non-zero), then only the present fields in bit order:
// 0 siacoin inputs, 1 siacoin outputs, 2 siafund inputs, 3 siafund outputs,
// 4 contracts, 5 revisions, 6 resolutions, 7 attestations, 8 arbitrary data,
// 9 new foundation address, 10 miner fee.
func (w *W) V2Transaction(t types.V2Transaction) {
	w.U8(2)
	var bm uint64
	set := func(i uint, b bool) {
		if b {
			bm |= 1 << i
		}
	}
	set(0, len(t.SiacoinInputs) > 0)
	set(1, len(t.SiacoinOutputs) > 0)
	set(2, len(t.SiafundInputs) > 0)
	set(3, len(t.SiafundOutputs) > 0)
	set(4, len(t.FileContracts) > 0)
	set(5, len(t.FileContractRevisions) > 0)
	set(6, len(t.FileContractResolutions) > 0)
	set(7, len(t.Attestations) > 0)
	set(8, len(t.ArbitraryData) > 0)
	set(9, t.NewFoundationAddress != nil)
	set(10, t.MinerFee.Lo != 0 || t.MinerFee.Hi != 0)
	w.U64(bm)
	if len(t.SiacoinInputs) > 0 {
		w.U64(uint64(len(t.SiacoinInputs)))
		for _, in := range t.SiacoinInputs {
			w.V2SiacoinInput(in)
		}
	}
	if len(t.SiacoinOutputs) > 0 {
		w.U64(uint64(len(t.SiacoinOutputs)))
		for _, o := range t.SiacoinOutputs {
			w.SiacoinOutputV2(o)
		}
	}
	if len(t.SiafundInputs) > 0 {
		w.U64(uint64(len(t.SiafundInputs)))
		for _, in := range t.SiafundInputs {
			w.V2SiafundInput(in)
		}
	}
	if len(t.SiafundOutputs) > 0 {
		w.U64(uint64(len(t.SiafundOutputs)))
		for _, o := range t.SiafundOutputs {
			w.SiafundOutputV2(o)
		}
	}
	if len(t.FileContracts) > 0 {
		w.U64(uint64(len(t.FileContracts)))
		for _, fc := range t.FileContracts {
			w.V2FileContract(fc)
		}
	}
	if len(t.FileContractRevisions) > 0 {
		w.U64(uint64(len(t.FileContractRevisions)))
		for _, r := range t.FileContractRevisions {
			w.V2FileContractRevision(r)
		}
	}
	if len(t.FileContractResolutions) > 0 {
		w.U64(uint64(len(t.FileContractResolutions)))
		for _, r := range t.FileContractResolutions {
			w.V2FileContractResolution(r)
		}
	}
	if len(t.Attestations) > 0 {
		w.U64(uint64(len(t.Attestations)))
		for _, a := range t.Attestations {
			w.Attestation(a)
		}
	}
	if len(t.ArbitraryData) > 0 {
		w.Bytes(t.ArbitraryData)
	}
	if t.NewFoundationAddress != nil {
		w.Raw(t.NewFoundationAddress[:])
	}
	if t.MinerFee.Lo != 0 || t.MinerFee.Hi != 0 {
		w.CurrencyV2(t.MinerFee)
	}
}

// V2TransactionSemantics is the preimage of a v2 transaction ID: every field is
// always present (no bitmap), inputs and revised/resolved contracts are named by
// element ID only (siafund inputs: ID followed by the claim address), all signatures are zeroed, a storage proof's chain-index
// Merkle proof is dropped, the foundation address is an optional (bool + value).
func (w *W) V2TransactionSemantics(t types.V2Transaction) {
	var zeroSig types.Signature
	contract := func(fc types.V2FileContract) {
		fc.RenterSignature, fc.HostSignature = zeroSig, zeroSig
		w.V2FileContract(fc)
	}
	w.U64(uint64(len(t.SiacoinInputs)))
	for _, in := range t.SiacoinInputs {
		w.Raw(in.Parent.ID[:])
	}
	w.U64(uint64(len(t.SiacoinOutputs)))
	for _, o := range t.SiacoinOutputs {
		w.SiacoinOutputV2(o)
	}
	w.U64(uint64(len(t.SiafundInputs)))
	for _, in := range t.SiafundInputs {
		w.Raw(in.Parent.ID[:])
		// the claim address is effect-bearing (it receives the claim payout) and is
		// part of the ID / sighash preimage since /repo commit "fix: include the
		// siafund claim address in the v2 semantic encoding" (found by C12)
		w.Raw(in.ClaimAddress[:])
	}
	w.U64(uint64(len(t.SiafundOutputs)))
	for _, o := range t.SiafundOutputs {
		w.SiafundOutputV2(o)
	}
	w.U64(uint64(len(t.FileContracts)))
	for _, fc := range t.FileContracts {
		contract(fc)
	}
	w.U64(uint64(len(t.FileContractRevisions)))
	for _, r := range t.FileContractRevisions {
		w.Raw(r.Parent.ID[:])
		contract(r.Revision)
	}
	w.U64(uint64(len(t.FileContractResolutions)))
	for _, r := range t.FileContractResolutions {
		w.Raw(r.Parent.ID[:])
		switch res := r.Resolution.(type) {
		case *types.V2FileContractRenewal:
			w.SiacoinOutputV2(res.FinalRenterOutput)
			w.SiacoinOutputV2(res.FinalHostOutput)
			w.CurrencyV2(res.RenterRollover)
			w.CurrencyV2(res.HostRollover)
			contract(res.NewContract)
			w.Raw(zeroSig[:])
			w.Raw(zeroSig[:])
		case *types.V2StorageProof:
			w.U64(res.ProofIndex.StateElement.LeafIndex)
			w.U64(0) // Merkle proof of the chain index element dropped
			w.Raw(res.ProofIndex.ID[:])
			w.ChainIndex(res.ProofIndex.ChainIndex)
			w.Raw(res.Leaf[:])
			w.Hashes(res.Proof)
		case *types.V2FileContractExpiration:
		default:
			panic("refenc: nil or unknown resolution type")
		}
	}
	w.U64(uint64(len(t.Attestations)))
	for _, a := range t.Attestations {
		w.Attestation(a)
	}
	w.Bytes(t.ArbitraryData)
	w.Bool(t.NewFoundationAddress != nil)
	if t.NewFoundationAddress != nil {
		w.Raw(t.NewFoundationAddress[:])
	}
	w.CurrencyV2(t.MinerFee)
}

// ---- blocks, state

func (w *W) BlockHeader(h types.BlockHeader) {
	w.Raw(h.ParentID[:])
	w.U64(h.Nonce)
	w.Time(h.Timestamp)
	w.Raw(h.Commitment[:])
}

func (w *W) V1Block(b types.Block) {
	w.Raw(b.ParentID[:])
	w.U64(b.Nonce)
	w.Time(b.Timestamp)
	w.outputsV1(b.MinerPayouts)
	w.U64(uint64(len(b.Transactions)))
	for _, t := range b.Transactions {
		w.Transaction(t)
	}
}

func (w *W) Accumulator(acc consensus.ElementAccumulator) {
	w.U64(acc.NumLeaves)
	for i := range acc.Trees {
		if acc.NumLeaves&(1<<uint(i)) != 0 {
			w.Raw(acc.Trees[i][:])
		}
	}
}

func (w *W) State(s consensus.State) {
	w.ChainIndex(s.Index)
	for i := 0; i < NumTimestamps(s.Index.Height); i++ {
		w.Time(s.PrevTimestamps[i])
	}
	w.Raw(s.Depth[:])
	w.Raw(s.ChildTarget[:])
	w.CurrencyV2(s.SiafundTaxRevenue)
	w.U64(uint64(s.OakTime))
	w.Raw(s.OakTarget[:])
	w.Raw(s.FoundationSubsidyAddress[:])
	w.Raw(s.FoundationManagementAddress[:])
	tw, df, ow := WorkBytes(s.TotalWork), WorkBytes(s.Difficulty), WorkBytes(s.OakWork)
	w.Raw(tw[:])
	w.Raw(df[:])
	w.Raw(ow[:])
	w.Accumulator(s.Elements)
	w.U64(s.Attestations)
}

// RefEncode returns the reference encoding of v if v belongs to the
// consensus-critical set (values, not pointers; cast types select v1/v2 forms).
func RefEncode(v any) ([]byte, bool) {
	var w W
	switch v := v.(type) {
	case types.V1Currency:
		w.CurrencyV1(types.Currency(v))
	case types.V2Currency:
		w.CurrencyV2(types.Currency(v))
	case types.V1SiacoinOutput:
		w.SiacoinOutputV1(types.SiacoinOutput(v))
	case types.V2SiacoinOutput:
		w.SiacoinOutputV2(types.SiacoinOutput(v))
	case types.V1SiafundOutput:
		w.SiafundOutputV1(types.SiafundOutput(v))
	case types.V2SiafundOutput:
		w.SiafundOutputV2(types.SiafundOutput(v))
	case types.UnlockKey:
		w.UnlockKey(v)
	case types.UnlockConditions:
		w.UnlockConditions(v)
	case types.SiacoinInput:
		w.SiacoinInput(v)
	case types.SiafundInput:
		w.SiafundInput(v)
	case types.FileContract:
		w.FileContract(v)
	case types.FileContractRevision:
		w.FileContractRevision(v)
	case types.StorageProof:
		w.StorageProof(v)
	case types.FoundationAddressUpdate:
		w.Raw(v.NewPrimary[:])
		w.Raw(v.NewFailsafe[:])
	case types.CoveredFields:
		w.CoveredFields(v)
	case types.TransactionSignature:
		w.TransactionSignature(v)
	case types.Transaction:
		w.Transaction(v)
	case types.SpendPolicy:
		w.Policy(v)
	case types.SatisfiedPolicy:
		w.SatisfiedPolicy(v)
	case types.StateElement:
		w.StateElement(v)
	case types.ChainIndex:
		w.ChainIndex(v)
	case types.ChainIndexElement:
		w.ChainIndexElement(v)
	case types.SiacoinElement:
		w.SiacoinElement(v)
	case types.SiafundElement:
		w.SiafundElement(v)
	case types.FileContractElement:
		w.FileContractElement(v)
	case types.V2FileContractElement:
		w.V2FileContractElement(v)
	case types.V2FileContract:
		w.V2FileContract(v)
	case types.V2SiacoinInput:
		w.V2SiacoinInput(v)
	case types.V2SiafundInput:
		w.V2SiafundInput(v)
	case types.V2FileContractRevision:
		w.V2FileContractRevision(v)
	case types.V2FileContractRenewal:
		w.V2FileContractRenewal(v)
	case types.V2StorageProof:
		w.V2StorageProof(v)
	case types.V2FileContractExpiration:
	case types.V2FileContractResolution:
		w.V2FileContractResolution(v)
	case types.Attestation:
		w.Attestation(v)
	case types.V2Transaction:
		w.V2Transaction(v)
	case types.BlockHeader:
		w.BlockHeader(v)
	case types.V1Block:
		w.V1Block(types.Block(v))
	case consensus.ElementAccumulator:
		w.Accumulator(v)
	case consensus.State:
		w.State(v)
	default:
		return nil, false
	}
	if w.B == nil {
		w.B = []byte{}
	}
	return w.B, true
}

// ---------------------------------------------------------------- derived hashes

func refHash(parts ...[]byte) types.Hash256 {
	var b []byte
	for _, p := range parts {
		b = append(b, p...)
	}
	return RefH(b)
}

func le64(v uint64) []byte { return binary.LittleEndian.AppendUint64(nil, v) }

// RefTransactionID is BLAKE2b of the signature-less encoding (v1 has no distinguisher).
func RefTransactionID(t types.Transaction) types.TransactionID {
	var w W
	w.TransactionSansSigs(t)
	return types.TransactionID(RefH(w.B))
}

// RefTransactionFullHash is BLAKE2b of the full v1 encoding.
func RefTransactionFullHash(t types.Transaction) types.Hash256 {
	var w W
	w.Transaction(t)
	return RefH(w.B)
}

func refV1Derived(spec string, t types.Transaction, i int) types.Hash256 {
	var w W
	w.TransactionSansSigs(t)
	return refHash(spec16(spec), w.B, le64(uint64(i)))
}

// v1 output / contract IDs: BLAKE2b(specifier ‖ sans-sigs encoding ‖ LE64(index)).
func RefSiacoinOutputID(t types.Transaction, i int) types.SiacoinOutputID {
	return types.SiacoinOutputID(refV1Derived("siacoin output", t, i))
}
func RefSiafundOutputID(t types.Transaction, i int) types.SiafundOutputID {
	return types.SiafundOutputID(refV1Derived("siafund output", t, i))
}
func RefFileContractID(t types.Transaction, i int) types.FileContractID {
	return types.FileContractID(refV1Derived("file contract", t, i))
}

// RefSiafundClaimOutputID is BLAKE2b(siafund output id).
func RefSiafundClaimOutputID(id types.SiafundOutputID) types.SiacoinOutputID {
	return types.SiacoinOutputID(RefH(id[:]))
}

// RefV2ClaimOutputID is BLAKE2b("sia/id/v2siacoinclaimoutput|" ‖ id).
func RefV2ClaimOutputID(id types.SiafundOutputID) types.SiacoinOutputID {
	return types.SiacoinOutputID(refHash(RefDist("id/v2siacoinclaimoutput"), id[:]))
}

// RefProofOutputID is BLAKE2b("storage proof" specifier ‖ contract id ‖ bool(valid) ‖ LE64(i)).
func RefProofOutputID(id types.FileContractID, valid bool, i int) types.SiacoinOutputID {
	b := byte(0)
	if valid {
		b = 1
	}
	return types.SiacoinOutputID(refHash(spec16("storage proof"), id[:], []byte{b}, le64(uint64(i))))
}

func RefV2ContractOutputID(id types.FileContractID, host bool) types.SiacoinOutputID {
	i := uint64(0)
	if host {
		i = 1
	}
	return types.SiacoinOutputID(refHash(RefDist("id/v2filecontractoutput"), id[:], le64(i)))
}

func RefV2RenewalID(id types.FileContractID) types.FileContractID {
	return types.FileContractID(refHash(RefDist("id/v2filecontractrenewal"), id[:]))
}

func RefMinerOutputID(bid types.BlockID, i int) types.SiacoinOutputID {
	return types.SiacoinOutputID(refHash(bid[:], le64(uint64(i))))
}

func RefFoundationOutputID(bid types.BlockID) types.SiacoinOutputID {
	return types.SiacoinOutputID(refHash(bid[:], spec16("foundation")))
}

// RefV2TransactionID is BLAKE2b("sia/id/transaction|" ‖ semantic encoding).
func RefV2TransactionID(t types.V2Transaction) types.TransactionID {
	var w W
	w.Raw(RefDist("id/transaction"))
	w.V2TransactionSemantics(t)
	return types.TransactionID(RefH(w.B))
}

func RefV2TransactionFullHash(t types.V2Transaction) types.Hash256 {
	var w W
	w.V2Transaction(t)
	return RefH(w.B)
}

func refV2Derived(name string, txid types.TransactionID, i int) types.Hash256 {
	return refHash(RefDist(name), txid[:], le64(uint64(i)))
}

func RefV2SiacoinOutputID(txid types.TransactionID, i int) types.SiacoinOutputID {
	return types.SiacoinOutputID(refV2Derived("id/siacoinoutput", txid, i))
}
func RefV2SiafundOutputID(txid types.TransactionID, i int) types.SiafundOutputID {
	return types.SiafundOutputID(refV2Derived("id/siafundoutput", txid, i))
}
func RefV2FileContractID(txid types.TransactionID, i int) types.FileContractID {
	return types.FileContractID(refV2Derived("id/filecontract", txid, i))
}
func RefAttestationID(txid types.TransactionID, i int) types.AttestationID {
	return types.AttestationID(refV2Derived("id/attestation", txid, i))
}

// RefHeaderID is BLAKE2b of the 80-byte header (no distinguisher).
func RefHeaderID(h types.BlockHeader) types.BlockID {
	var w W
	w.BlockHeader(h)
	return types.BlockID(RefH(w.B))
}

// RefMTH is the RFC 6962 Merkle tree hash over already-hashed leaves with
// interior nodes BLAKE2b(0x01 ‖ left ‖ right); the empty tree is all zeros.
func RefMTH(leaves []types.Hash256) types.Hash256 {
	switch len(leaves) {
	case 0:
		return types.Hash256{}
	case 1:
		return leaves[0]
	}
	k := 1
	for k*2 < len(leaves) {
		k *= 2
	}
	l, r := RefMTH(leaves[:k]), RefMTH(leaves[k:])
	return refHash([]byte{1}, l[:], r[:])
}

// RefV1BlockCommitment is the Merkle root over leaf hashes BLAKE2b(0x00 ‖ item)
// of the miner payouts (v1 output encoding) followed by the transactions.
func RefV1BlockCommitment(b types.Block) types.Hash256 {
	var leaves []types.Hash256
	for _, mp := range b.MinerPayouts {
		var w W
		w.U8(0)
		w.SiacoinOutputV1(mp)
		leaves = append(leaves, RefH(w.B))
	}
	for _, t := range b.Transactions {
		var w W
		w.U8(0)
		w.Transaction(t)
		leaves = append(leaves, RefH(w.B))
	}
	return RefMTH(leaves)
}

// RefBlockID is the header ID, with the commitment recomputed from the v1 body
// for v1 blocks and taken from the v2 data for v2 blocks.
func RefBlockID(b types.Block) types.BlockID {
	h := types.BlockHeader{ParentID: b.ParentID, Nonce: b.Nonce, Timestamp: b.Timestamp}
	if b.V2 == nil {
		h.Commitment = RefV1BlockCommitment(b)
	} else {
		h.Commitment = b.V2.Commitment
	}
	return RefHeaderID(h)
}

// RefUnlockHash is the Merkle root over BLAKE2b(0x00 ‖ LE64(timelock)), one
// leaf BLAKE2b(0x00 ‖ key encoding) per key, BLAKE2b(0x00 ‖ LE64(required)).
func RefUnlockHash(uc types.UnlockConditions) types.Address {
	leaves := []types.Hash256{refHash([]byte{0}, le64(uc.Timelock))}
	for _, k := range uc.PublicKeys {
		var w W
		w.U8(0)
		w.UnlockKey(k)
		leaves = append(leaves, RefH(w.B))
	}
	leaves = append(leaves, refHash([]byte{0}, le64(uc.SignaturesRequired)))
	return types.Address(RefMTH(leaves))
}

// RefPolicyAddress: unlock-condition policies keep the v1 unlock hash; every
// other policy hashes "sia/address|" ‖ encoding, where a threshold's children
// are first replaced by opaque(Address(child)) (already-opaque children kept).
func RefPolicyAddress(p types.SpendPolicy) types.Address {
	if uc, ok := p.Type.(types.PolicyTypeUnlockConditions); ok {
		return RefUnlockHash(types.UnlockConditions(uc))
	}
	if th, ok := p.Type.(types.PolicyTypeThreshold); ok {
		of := make([]types.SpendPolicy, len(th.Of))
		for i, c := range th.Of {
			if _, isOpaque := c.Type.(types.PolicyTypeOpaque); isOpaque {
				of[i] = c
			} else {
				of[i] = types.SpendPolicy{Type: types.PolicyTypeOpaque(RefPolicyAddress(c))}
			}
		}
		p = types.SpendPolicy{Type: types.PolicyTypeThreshold{N: th.N, Of: of}}
	}
	var w W
	w.Raw(RefDist("address"))
	w.Policy(p)
	return types.Address(RefH(w.B))
}

// ---- accumulator leaves (used by the multiproof generator and by C04/C05 later)

// RefLeafHash is BLAKE2b(0x00 ‖ element hash ‖ LE64(leaf index) ‖ spent).
func RefLeafHash(elemHash types.Hash256, leafIndex uint64, spent bool) types.Hash256 {
	s := byte(0)
	if spent {
		s = 1
	}
	return refHash([]byte{0}, elemHash[:], le64(leafIndex), []byte{s})
}

func RefSiacoinElementHash(e types.SiacoinElement) types.Hash256 {
	var w W
	w.Raw(RefDist("leaf/siacoin"))
	w.Raw(e.ID[:])
	w.SiacoinOutputV2(e.SiacoinOutput)
	w.U64(e.MaturityHeight)
	return RefH(w.B)
}

func RefSiafundElementHash(e types.SiafundElement) types.Hash256 {
	var w W
	w.Raw(RefDist("leaf/siafund"))
	w.Raw(e.ID[:])
	w.SiafundOutputV2(e.SiafundOutput)
	w.CurrencyV2(e.ClaimStart)
	return RefH(w.B)
}

func RefV2FileContractElementHash(e types.V2FileContractElement) types.Hash256 {
	var w W
	w.Raw(RefDist("leaf/v2filecontract"))
	w.Raw(e.ID[:])
	w.V2FileContract(e.V2FileContract)
	return RefH(w.B)
}

func RefFileContractElementHash(e types.FileContractElement) types.Hash256 {
	var w W
	w.Raw(RefDist("leaf/filecontract"))
	w.Raw(e.ID[:])
	w.FileContract(e.FileContract)
	return RefH(w.B)
}

func RefChainIndexElementHash(e types.ChainIndexElement) types.Hash256 {
	var w W
	w.Raw(RefDist("leaf/chainindex"))
	w.Raw(e.ID[:])
	w.ChainIndex(e.ChainIndex)
	return RefH(w.B)
}

func RefAttestationElementHash(e types.AttestationElement) types.Hash256 {
	var w W
	w.Raw(RefDist("leaf/attestation"))
	w.Raw(e.ID[:])
	w.Attestation(e.Attestation)
	return RefH(w.B)
}

// RefTxnLeafHash / RefV2TxnLeafHash: BLAKE2b(0x00 ‖ full encoding) — the hash an
// outline names a transaction by and the leaf of the block Merkle tree.
func RefTxnLeafHash(t types.Transaction) types.Hash256 {
	var w W
	w.U8(0)
	w.Transaction(t)
	return RefH(w.B)
}

func RefV2TxnLeafHash(t types.V2Transaction) types.Hash256 {
	var w W
	w.U8(0)
	w.V2Transaction(t)
	return RefH(w.B)
}
