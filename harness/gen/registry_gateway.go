package gen

import (
	"encoding/binary"
	"errors"
	"fmt"
	"io"
	"net"
	"reflect"
	"sync"
	"time"

	"go.sia.tech/core/gateway"
	"go.sia.tech/core/types"
	"go.sia.tech/mux"
)

// Gateway objects only have unexported encodeRequest/decodeRequest/... methods;
// the exported way to run them is gateway.Stream.{Write,Read}{Request,Response},
// and a Stream can only be obtained from a Transport produced by the gateway
// handshake.  The codec below therefore keeps one in-process connection whose
// library side is a real gateway.Transport (gateway.Dial) and whose other side
// is a hand-written peer: the v1 handshake frames written by hand, then a raw
// go.sia.tech/mux session.  "Encode" = library writes into a stream, the raw
// side reads the bytes; "Decode" = the raw side writes bytes (and closes), the
// library reads them.  A zero-length message cannot be sent (a mux stream is
// only announced by its first byte), so empty request/response halves are not
// registered and the 0-byte prefix is not decodable through this path.

type gwPeer struct {
	mu  sync.Mutex
	tr  *gateway.Transport
	raw *mux.Mux
}

type addrConn struct {
	net.Conn
}

type fakeAddr string

func (a fakeAddr) Network() string { return "tcp" }
func (a fakeAddr) String() string  { return string(a) }

func (c addrConn) RemoteAddr() net.Addr { return fakeAddr("127.0.0.1:9981") }
func (c addrConn) LocalAddr() net.Addr  { return fakeAddr("127.0.0.1:9982") }

func readV1Frame(r io.Reader) ([]byte, error) {
	var l [8]byte
	if _, err := io.ReadFull(r, l[:]); err != nil {
		return nil, err
	}
	n := binary.LittleEndian.Uint64(l[:])
	if n > 1<<16 {
		return nil, fmt.Errorf("handshake frame too long: %d", n)
	}
	b := make([]byte, n)
	_, err := io.ReadFull(r, b)
	return b, err
}

func writeV1Frame(w io.Writer, payload []byte) error {
	b := binary.LittleEndian.AppendUint64(nil, uint64(len(payload)))
	_, err := w.Write(append(b, payload...))
	return err
}

func v1String(s string) []byte {
	return append(binary.LittleEndian.AppendUint64(nil, uint64(len(s))), s...)
}

func newGwPeer() (*gwPeer, error) {
	c1, c2 := net.Pipe()
	genesis := types.BlockID{1, 2, 3}
	type res struct {
		tr  *gateway.Transport
		err error
	}
	ch := make(chan res, 1)
	go func() {
		tr, err := gateway.Dial(addrConn{c1}, gateway.Header{GenesisID: genesis, UniqueID: gateway.UniqueID{1}, NetAddress: "127.0.0.1:9982"})
		ch <- res{tr, err}
	}()
	// acceptor side of the gateway handshake, by hand
	step := func() error {
		if _, err := readV1Frame(c2); err != nil { // dialer's version
			return err
		}
		if err := writeV1Frame(c2, v1String("2.0.0")); err != nil {
			return err
		}
		if _, err := readV1Frame(c2); err != nil { // dialer's header
			return err
		}
		if err := writeV1Frame(c2, v1String("accept")); err != nil {
			return err
		}
		hdr := append([]byte{}, genesis[:]...)
		hdr = append(hdr, 2, 0, 0, 0, 0, 0, 0, 0) // unique id (differs from the dialer's)
		hdr = append(hdr, v1String("127.0.0.1:9981")...)
		if err := writeV1Frame(c2, hdr); err != nil {
			return err
		}
		if b, err := readV1Frame(c2); err != nil { // dialer's verdict on our header
			return err
		} else if string(b[8:]) != "accept" {
			return fmt.Errorf("library rejected hand-written header: %q", b)
		}
		return nil
	}
	c2.SetDeadline(time.Now().Add(20 * time.Second))
	if err := step(); err != nil {
		c1.Close()
		c2.Close()
		return nil, fmt.Errorf("gateway handshake (raw side): %w", err)
	}
	raw, err := mux.AcceptAnonymous(c2)
	if err != nil {
		return nil, fmt.Errorf("mux accept: %w", err)
	}
	c2.SetDeadline(time.Time{})
	r := <-ch
	if r.err != nil {
		return nil, fmt.Errorf("gateway.Dial: %w", r.err)
	}
	return &gwPeer{tr: r.tr, raw: raw}, nil
}

var (
	gwOnce sync.Once
	gw     *gwPeer
	gwErr  error
)

func gwGet() (*gwPeer, error) {
	gwOnce.Do(func() { gw, gwErr = newGwPeer() })
	return gw, gwErr
}

// gwEncode lets the library write obj's request or response into a stream and
// returns the bytes that arrived at the raw peer.
func gwEncode(obj gateway.Object, response bool) ([]byte, error) {
	p, err := gwGet()
	if err != nil {
		return nil, err
	}
	p.mu.Lock()
	defer p.mu.Unlock()
	s, err := p.tr.DialStream()
	if err != nil {
		return nil, err
	}
	werr := make(chan error, 1)
	go func() {
		var err error
		if response {
			err = s.WriteResponse(obj)
		} else {
			err = s.WriteRequest(obj)
		}
		s.Close()
		werr <- err
	}()
	ms, err := p.raw.AcceptStream()
	if err != nil {
		return nil, err
	}
	b, rerr := io.ReadAll(ms)
	ms.Close()
	if err := <-werr; err != nil {
		return nil, err
	}
	if rerr != nil {
		return nil, rerr
	}
	return b, nil
}

// gwDecode sends b (then end of stream) to the library, which reads it into obj.
func gwDecode(b []byte, obj gateway.Object, response bool) error {
	if len(b) == 0 {
		return errors.New("gen: a zero-length message cannot be sent over a mux stream")
	}
	p, err := gwGet()
	if err != nil {
		return err
	}
	p.mu.Lock()
	defer p.mu.Unlock()
	ms := p.raw.DialStream()
	go func() {
		ms.Write(b)
		ms.Close()
	}()
	s, err := p.tr.AcceptStream()
	if err != nil {
		return err
	}
	defer s.Close()
	s.SetDeadline(time.Now().Add(30 * time.Second))
	if response {
		return s.ReadResponse(obj)
	}
	return s.ReadRequest(obj)
}

// ErrTransport marks failures of the in-process transport itself (not of the codec).
var ErrTransport = errors.New("gen: gateway transport failure")

func gwHalf[T any](response bool, limit func(hint reflect.Value) int, fields ...string) *Entry {
	t := typeOf[T]()
	if _, ok := reflect.New(t).Interface().(gateway.Object); !ok {
		panic(fmt.Sprintf("gen: %v is not a gateway.Object", t))
	}
	half := "#request"
	if response {
		half = "#response"
	}
	e := &Entry{
		Name: "gateway." + t.Name() + half, Pkg: "gateway", Type: t, Via: viaGateway,
		Transmitted: fields, Slow: true,
	}
	e.Multiproof = t == typeOf[gateway.RPCSendV2Blocks]() && response ||
		t == typeOf[gateway.RPCSendCheckpoint]() && response ||
		t == typeOf[gateway.RPCRelayV2BlockOutline]()
	e.Encode = func(v reflect.Value) ([]byte, error) {
		p := reflect.New(t)
		p.Elem().Set(v)
		return gwEncode(p.Interface().(gateway.Object), response)
	}
	e.Decode = func(b []byte, hint reflect.Value) Decoded {
		p := reflect.New(t)
		if response && hint.IsValid() {
			// the requester reads the response into the object that holds its request
			for i := 0; i < t.NumField(); i++ {
				f := t.Field(i)
				if f.PkgPath == "" && !e.TransmitsField(f.Name) {
					p.Elem().Field(i).Set(hint.Field(i))
				}
			}
		}
		err := gwDecode(b, p.Interface().(gateway.Object), response)
		out := p.Elem()
		if response && hint.IsValid() {
			out = e.Project(out)
		}
		return Decoded{V: out, Err: err, Consumed: -1}
	}
	if !response {
		// a relay loop reads every request of a kind into one object
		e.DecodeInto = func(b []byte, p reflect.Value) error { return gwDecode(b, p.Interface().(gateway.Object), false) }
	}
	if limit != nil {
		e.MaxLen = -1 // value dependent, see LimitFor
		limits[e.Name] = limit
	}
	return e
}

var limits = map[string]func(hint reflect.Value) int{}

// LimitFor returns the size limit the library's read function applies to an
// encoding of v, and whether there is one. (For gateway responses it depends on
// the request fields of v; it may be 0, in which case nothing can be read back.)
func (e *Entry) LimitFor(v reflect.Value) (int, bool) {
	if f, ok := limits[e.Name]; ok {
		return f(v), true
	}
	return e.MaxLen, e.MaxLen > 0
}

func constLimit(n int) func(reflect.Value) int { return func(reflect.Value) int { return n } }

func gatewayEntries() []*Entry {
	return []*Entry{
		gwHalf[gateway.RPCShareNodes](true, constLimit(100*128), "Peers"),
		gwHalf[gateway.RPCDiscoverIP](true, constLimit(128), "IP"),
		gwHalf[gateway.RPCSendHeaders](false, constLimit(8+32+8), "Index", "Max"),
		gwHalf[gateway.RPCSendHeaders](true, func(v reflect.Value) int {
			return 8 + int(v.Interface().(gateway.RPCSendHeaders).Max)*80 + 8
		}, "Headers", "Remaining"),
		gwHalf[gateway.RPCSendV2Blocks](false, constLimit(8+32*32+8), "History", "Max"),
		gwHalf[gateway.RPCSendV2Blocks](true, func(v reflect.Value) int {
			return int(v.Interface().(gateway.RPCSendV2Blocks).Max) * 5e6
		}, "Blocks", "Remaining"),
		gwHalf[gateway.RPCSendTransactions](false, constLimit(8+32+8+100*32), "Index", "Hashes"),
		gwHalf[gateway.RPCSendTransactions](true, constLimit(5e6), "Transactions", "V2Transactions"),
		gwHalf[gateway.RPCSendCheckpoint](false, constLimit(8+32), "Index"),
		gwHalf[gateway.RPCSendCheckpoint](true, constLimit(5e6+4e3), "Block", "State"),
		gwHalf[gateway.RPCRelayV2Header](false, constLimit(8+32+32+8), "Header"),
		gwHalf[gateway.RPCRelayV2BlockOutline](false, constLimit(5e6), "Block"),
		gwHalf[gateway.RPCRelayV2TransactionSet](false, constLimit(5e6), "Index", "Transactions"),
	}
}
