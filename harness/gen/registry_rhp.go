package gen

import (
	"bytes"
	"errors"
	"fmt"
	"reflect"
	"strings"

	rhp2 "go.sia.tech/core/rhp/v2"
	rhp3 "go.sia.tech/core/rhp/v3"
	rhp4 "go.sia.tech/core/rhp/v4"
	"go.sia.tech/core/types"
)

func rhp2Entries() []*Entry {
	const p = "rhp2"
	return []*Entry{
		std[rhp2.Challenge](p), std[rhp2.RPCError](p),
		std[rhp2.RPCFormContractRequest](p), std[rhp2.RPCFormContractAdditions](p), std[rhp2.RPCFormContractSignatures](p),
		std[rhp2.RPCRenewAndClearContractRequest](p), std[rhp2.RPCRenewAndClearContractSignatures](p),
		std[rhp2.RPCLockRequest](p), std[rhp2.RPCLockResponse](p),
		std[rhp2.RPCReadRequest](p), std[rhp2.RPCReadResponse](p),
		std[rhp2.RPCSectorRootsRequest](p), std[rhp2.RPCSectorRootsResponse](p),
		std[rhp2.RPCSettingsResponse](p),
		std[rhp2.RPCWriteRequest](p), std[rhp2.RPCWriteMerkleProof](p), std[rhp2.RPCWriteResponse](p),
	}
}

func rhp3Entries() []*Entry {
	const p = "rhp3"
	return []*Entry{
		std[rhp3.RPCError](p), std[rhp3.SettingsID](p), std[rhp3.Account](p),
		std[rhp3.PayByEphemeralAccountRequest](p), std[rhp3.PayByContractRequest](p), std[rhp3.PaymentResponse](p),
		std[rhp3.RPCPriceTableResponse](p), std[rhp3.RPCUpdatePriceTableResponse](p),
		std[rhp3.RPCFundAccountRequest](p), std[rhp3.FundAccountReceipt](p), std[rhp3.RPCFundAccountResponse](p),
		std[rhp3.RPCAccountBalanceRequest](p), std[rhp3.RPCAccountBalanceResponse](p),
		std[rhp3.RPCExecuteProgramRequest](p), std[rhp3.RPCExecuteProgramResponse](p),
		std[rhp3.RPCFinalizeProgramRequest](p), std[rhp3.RPCFinalizeProgramResponse](p),
		std[rhp3.RPCLatestRevisionRequest](p), std[rhp3.RPCLatestRevisionResponse](p),
		std[rhp3.RPCRenewContractRequest](p), std[rhp3.RPCRenewContractHostAdditions](p), std[rhp3.RPCRenewSignatures](p),
		std[rhp3.InstrAppendSector](p), std[rhp3.InstrAppendSectorRoot](p), std[rhp3.InstrDropSectors](p),
		std[rhp3.InstrHasSector](p), std[rhp3.InstrReadOffset](p), std[rhp3.InstrReadSector](p),
		std[rhp3.InstrSwapSector](p), std[rhp3.InstrUpdateSector](p), std[rhp3.InstrStoreSector](p),
		std[rhp3.InstrRevision](p), std[rhp3.InstrReadRegistry](p), std[rhp3.InstrReadRegistryNoVersion](p),
		std[rhp3.InstrUpdateRegistry](p), std[rhp3.InstrUpdateRegistryNoType](p),
	}
}

// rhp/v4 size limits, restated from rhp/v4/encoding.go (maxLen methods are
// unexported). A value whose encoding exceeds the limit cannot be read back by
// ReadRequest/ReadResponse by design (C19's subject), so it is out of C11's domain.
const (
	rhp4Object   = 10 * 1024
	rhp4TxnSet   = 100 * 1024
	rhp4Prices   = 6*16 + 8 + 8 + 64
	rhp4Token    = 32 + 32 + 8 + 64
	rhp4Contract = 8 + 8 + 32 + 8 + 8 + 48 + 48 + 16 + 16 + 32 + 32 + 8 + 64 + 64
	rhp4ErrLen   = 1024
)

// rhp4Obj builds an entry for an rhp/v4 Object (unexported encodeTo/decodeFrom),
// reached through the package's exported read/write functions.
func rhp4Obj[T any](limit int) *Entry {
	t := typeOf[T]()
	if _, ok := reflect.New(t).Interface().(rhp4.Object); !ok {
		panic(fmt.Sprintf("gen: %v is not an rhp4.Object", t))
	}
	e := &Entry{Name: "rhp4." + t.Name(), Pkg: "rhp4", Type: t}
	id := types.NewSpecifier("C11")
	isResp := strings.Contains(t.Name(), "Response") || t.Name() == "RPCError"
	if !isResp {
		e.Via = viaRHP4Req
		e.MaxLen = limit
		e.Encode = func(v reflect.Value) ([]byte, error) {
			p := reflect.New(t)
			p.Elem().Set(v)
			var buf bytes.Buffer
			if err := rhp4.WriteRequest(&buf, id, p.Interface().(rhp4.Object)); err != nil {
				return nil, err
			}
			b := buf.Bytes()
			if len(b) < 16 || !bytes.Equal(b[:16], id[:]) {
				return nil, errors.New("WriteRequest did not start with the RPC id")
			}
			return append([]byte{}, b[16:]...), nil
		}
		e.Decode = func(b []byte, _ reflect.Value) Decoded {
			p := reflect.New(t)
			r := bytes.NewReader(b)
			err := rhp4.ReadRequest(r, p.Interface().(rhp4.Object))
			return Decoded{V: p.Elem(), Err: err, Consumed: len(b) - r.Len()}
		}
		e.DecodeInto = func(b []byte, p reflect.Value) error {
			return rhp4.ReadRequest(bytes.NewReader(b), p.Interface().(rhp4.Object))
		}
		return e
	}
	e.Via = viaRHP4Res
	e.MaxLen = rhp4ErrLen + limit
	e.Encode = func(v reflect.Value) ([]byte, error) {
		p := reflect.New(t)
		p.Elem().Set(v)
		var buf bytes.Buffer
		if err := rhp4.WriteResponse(&buf, p.Interface().(rhp4.Object)); err != nil {
			return nil, err
		}
		return append([]byte{}, buf.Bytes()...), nil
	}
	e.Decode = func(b []byte, _ reflect.Value) Decoded {
		p := reflect.New(t)
		r := bytes.NewReader(b)
		err := rhp4.ReadResponse(r, p.Interface().(rhp4.Object))
		return Decoded{V: p.Elem(), Err: err, Consumed: len(b) - r.Len()}
	}
	e.DecodeInto = func(b []byte, p reflect.Value) error {
		return rhp4.ReadResponse(bytes.NewReader(b), p.Interface().(rhp4.Object))
	}
	if t.Name() == "RPCError" {
		e.DecodeInto = nil
		// an error response is announced by a leading true and surfaces as the
		// returned error of ReadResponse (any Object may be passed as the target)
		e.MaxLen = rhp4ErrLen
		e.Decode = func(b []byte, _ reflect.Value) Decoded {
			r := bytes.NewReader(b)
			err := rhp4.ReadResponse(r, new(rhp4.RPCSettingsRequest))
			var re *rhp4.RPCError
			if errors.As(err, &re) && len(b)-r.Len() == len(b) {
				return Decoded{V: reflect.ValueOf(*re), Consumed: len(b) - r.Len()}
			}
			if err == nil {
				err = errors.New("ReadResponse returned no RPCError for an error response")
			}
			return Decoded{V: reflect.Zero(t), Err: err, Consumed: len(b) - r.Len()}
		}
	}
	return e
}

func rhp4Entries() []*Entry {
	const p = "rhp4"
	const batch = 1000                    // MaxAccountBatchSize
	const sectors = (1 << 40) / (1 << 22) // MaxSectorBatchSize
	return []*Entry{
		std[rhp4.AccountDeposit](p), std[rhp4.HostPrices](p), std[rhp4.HostSettings](p), std[rhp4.Account](p),
		std[rhp4.PoolAttachment](p), std[rhp4.PoolDetachment](p),
		rhp4Obj[rhp4.RPCError](rhp4ErrLen),
		rhp4Obj[rhp4.RPCSettingsRequest](0), rhp4Obj[rhp4.RPCSettingsResponse](rhp4Object),
		rhp4Obj[rhp4.RPCFormContractRequest](rhp4TxnSet), rhp4Obj[rhp4.RPCFormContractResponse](rhp4TxnSet),
		rhp4Obj[rhp4.RPCFormContractSecondResponse](rhp4Object), rhp4Obj[rhp4.RPCFormContractThirdResponse](rhp4TxnSet),
		rhp4Obj[rhp4.RPCRenewContractRequest](rhp4TxnSet), rhp4Obj[rhp4.RPCRenewContractResponse](rhp4TxnSet),
		rhp4Obj[rhp4.RPCRenewContractSecondResponse](rhp4Object), rhp4Obj[rhp4.RPCRenewContractThirdResponse](rhp4TxnSet),
		rhp4Obj[rhp4.RPCRefreshContractRequest](rhp4TxnSet), rhp4Obj[rhp4.RPCRefreshContractResponse](rhp4TxnSet),
		rhp4Obj[rhp4.RPCRefreshContractSecondResponse](rhp4Object), rhp4Obj[rhp4.RPCRefreshContractThirdResponse](rhp4TxnSet),
		rhp4Obj[rhp4.RPCFreeSectorsRequest](rhp4Object + 32*sectors), rhp4Obj[rhp4.RPCFreeSectorsResponse](20 << 20),
		rhp4Obj[rhp4.RPCFreeSectorsSecondResponse](64), rhp4Obj[rhp4.RPCFreeSectorsThirdResponse](64),
		rhp4Obj[rhp4.RPCAppendSectorsRequest](rhp4Object + 32*sectors), rhp4Obj[rhp4.RPCAppendSectorsResponse](20 << 20),
		rhp4Obj[rhp4.RPCAppendSectorsSecondResponse](64), rhp4Obj[rhp4.RPCAppendSectorsThirdResponse](64),
		rhp4Obj[rhp4.RPCLatestRevisionRequest](32), rhp4Obj[rhp4.RPCLatestRevisionResponse](rhp4Contract),
		rhp4Obj[rhp4.RPCReadSectorRequest](rhp4Prices + rhp4Token + 32 + 8 + 8), rhp4Obj[rhp4.RPCReadSectorResponse](rhp4Object + 8 + 1<<22),
		rhp4Obj[rhp4.RPCWriteSectorRequest](rhp4Prices + rhp4Token + 8), rhp4Obj[rhp4.RPCWriteSectorResponse](32),
		rhp4Obj[rhp4.RPCSectorRootsRequest](rhp4Prices + 32 + 64 + 8 + 8), rhp4Obj[rhp4.RPCSectorRootsResponse](20 << 20),
		rhp4Obj[rhp4.RPCAccountBalanceRequest](32), rhp4Obj[rhp4.RPCAccountBalanceResponse](16),
		rhp4Obj[rhp4.RPCReplenishAccountsRequest](8 + 32*batch + 16 + 32 + 64), rhp4Obj[rhp4.RPCReplenishAccountsResponse](8 + 48*batch),
		rhp4Obj[rhp4.RPCReplenishAccountsSecondResponse](64), rhp4Obj[rhp4.RPCReplenishAccountsThirdResponse](64),
		rhp4Obj[rhp4.RPCFundAccountsRequest](32 + 8 + 48*batch + 64), rhp4Obj[rhp4.RPCFundAccountsResponse](8 + 16*batch + 64),
		rhp4Obj[rhp4.RPCAttachPoolsRequest](8 + 136*batch), rhp4Obj[rhp4.RPCAttachPoolsResponse](0),
		rhp4Obj[rhp4.RPCDetachPoolsRequest](8 + 136*batch), rhp4Obj[rhp4.RPCDetachPoolsResponse](0),
		rhp4Obj[rhp4.RPCVerifySectorRequest](rhp4Prices + rhp4Token + 32 + 8), rhp4Obj[rhp4.RPCVerifySectorResponse](rhp4Object),
	}
}
