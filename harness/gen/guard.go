package gen

import (
	"go/ast"
	"go/parser"
	"go/token"
	"os"
	"path/filepath"
	"sort"
	"strings"
)

// Codec describes the codec-related methods found on one type in the repository.
type Codec struct {
	Pkg      string          // registry package key: types, consensus, gateway, rhp2, rhp3, rhp4, or the directory for others
	Type     string          // type name
	Exported bool            // type name is exported
	Methods  map[string]bool // method names among the watched set
	File     string
}

// Key is "<pkg>.<Type>".
func (c Codec) Key() string { return c.Pkg + "." + c.Type }

var watched = map[string]bool{
	"EncodeTo": true, "DecodeFrom": true, "encodeTo": true, "decodeFrom": true,
	"encodeRequest": true, "decodeRequest": true, "encodeResponse": true, "decodeResponse": true,
	"MarshalJSON": true, "UnmarshalJSON": true, "MarshalText": true, "UnmarshalText": true,
}

func pkgKey(rel string) string {
	switch filepath.ToSlash(rel) {
	case "rhp/v2":
		return "rhp2"
	case "rhp/v3":
		return "rhp3"
	case "rhp/v4":
		return "rhp4"
	}
	return filepath.ToSlash(rel)
}

// RepoDir is the tree the guard parses: VERIF_REPO_DIR or /repo.
func RepoDir() string {
	if d := os.Getenv("VERIF_REPO_DIR"); d != "" {
		return d
	}
	return "/repo"
}

// ScanRepo parses every non-test Go file under dir and lists each type that
// has a decoding method (DecodeFrom, decodeFrom, decodeRequest/Response,
// UnmarshalJSON, UnmarshalText), with all watched methods it has.
func ScanRepo(dir string) ([]Codec, error) {
	found := map[string]*Codec{}
	fset := token.NewFileSet()
	err := filepath.WalkDir(dir, func(path string, d os.DirEntry, err error) error {
		if err != nil {
			return err
		}
		if d.IsDir() {
			if n := d.Name(); path != dir && (strings.HasPrefix(n, ".") || n == "testdata" || n == "internal") {
				return filepath.SkipDir
			}
			return nil
		}
		if !strings.HasSuffix(path, ".go") || strings.HasSuffix(path, "_test.go") {
			return nil
		}
		f, err := parser.ParseFile(fset, path, nil, parser.SkipObjectResolution)
		if err != nil {
			return err
		}
		rel, _ := filepath.Rel(dir, filepath.Dir(path))
		pk := pkgKey(rel)
		for _, decl := range f.Decls {
			fd, ok := decl.(*ast.FuncDecl)
			if !ok || fd.Recv == nil || len(fd.Recv.List) != 1 || !watched[fd.Name.Name] {
				continue
			}
			rt := fd.Recv.List[0].Type
			if st, ok := rt.(*ast.StarExpr); ok {
				rt = st.X
			}
			if ix, ok := rt.(*ast.IndexExpr); ok { // generic receiver
				rt = ix.X
			}
			id, ok := rt.(*ast.Ident)
			if !ok {
				continue
			}
			key := pk + "." + id.Name
			c := found[key]
			if c == nil {
				rf, _ := filepath.Rel(dir, path)
				c = &Codec{Pkg: pk, Type: id.Name, Exported: ast.IsExported(id.Name), Methods: map[string]bool{}, File: rf}
				found[key] = c
			}
			c.Methods[fd.Name.Name] = true
		}
		return nil
	})
	if err != nil {
		return nil, err
	}
	var out []Codec
	for _, c := range found {
		m := c.Methods
		if m["DecodeFrom"] || m["decodeFrom"] || m["decodeRequest"] || m["decodeResponse"] || m["UnmarshalJSON"] || m["UnmarshalText"] {
			out = append(out, *c)
		}
	}
	sort.Slice(out, func(i, j int) bool { return out[i].Key() < out[j].Key() })
	return out, nil
}

// Skipped lists codec-bearing types that are deliberately not registry entries
// of their own, with the reason.
func Skipped() map[string]string {
	return map[string]string{
		"types.DecoderFunc":                         "adapter (func type implementing DecoderFrom), carries no layout",
		"types.txnSansSigs":                         "unexported encode-only view of Transaction (ID preimage); layout checked through RefTransactionID",
		"types.V2TransactionSemantics":              "encode-only view of V2Transaction (ID preimage, no decoder); layout checked through RefV2TransactionID",
		"gateway.Header":                            "unexported codec only reachable inside the Dial/Accept handshake (fields are not observable after decoding); exercised by C19",
		"gateway.V2BlockOutline":                    "unexported codec; covered as the body of gateway.RPCRelayV2BlockOutline#request",
		"rhp2.rpcResponse":                          "unexported transport envelope (bool + error | object); exercised by C19 through the transport",
		"rhp2.loopKeyExchangeRequest":               "unexported handshake message; exercised by C19 through the transport",
		"rhp2.loopKeyExchangeResponse":              "unexported handshake message; exercised by C19 through the transport",
		"rhp3.rpcResponse":                          "unexported transport envelope; exercised by C19 through the transport",
		"rhp4.AccountToken":                         "unexported codec on an exported type; covered as a field of RPCReadSectorRequest / RPCWriteSectorRequest / RPCVerifySectorRequest",
		"rhp4.RPCFormContractParams":                "unexported codec, not an rhp4.Object; covered as RPCFormContractRequest.Contract",
		"rhp4.RPCRenewContractParams":               "unexported codec, not an rhp4.Object; covered as RPCRenewContractRequest.Renewal",
		"rhp4.RPCRefreshContractParams":             "unexported codec, not an rhp4.Object; covered as RPCRefreshContractRequest.Refresh",
		"gateway.emptyRequest#request":              "embedded helper: empty request (no bytes on the wire)",
		"gateway.emptyResponse#response":            "embedded helper: empty response (no bytes on the wire)",
		"gateway.RPCShareNodes#request":             "empty request (no bytes on the wire)",
		"gateway.RPCDiscoverIP#request":             "empty request (no bytes on the wire)",
		"gateway.RPCRelayV2Header#response":         "empty response (no bytes on the wire)",
		"gateway.RPCRelayV2BlockOutline#response":   "empty response (no bytes on the wire)",
		"gateway.RPCRelayV2TransactionSet#response": "empty response (no bytes on the wire)",
	}
}

// MissingFromRegistry returns, for the scanned codecs, every type that has a
// binary encoder/decoder pair and is neither a registry entry nor listed in
// Skipped. Exported EncodeTo+DecodeFrom types must be registered (they may not
// be skipped unless they are pure adapters); unexported-codec types must be
// registered or skipped with a reason.
func MissingFromRegistry(codecs []Codec) []string {
	have := map[string]bool{}
	for _, e := range Registry() {
		have[e.Name] = true
	}
	skipped := Skipped()
	var missing []string
	for _, c := range codecs {
		m := c.Methods
		switch {
		case m["DecodeFrom"] && m["EncodeTo"] && c.Exported:
			// an exported type with an exported pair must be a registry entry; no skipping
			if !have[c.Key()] {
				missing = append(missing, c.Key())
			}
		case m["DecodeFrom"] || m["decodeFrom"]:
			if !have[c.Key()] && skipped[c.Key()] == "" {
				missing = append(missing, c.Key())
			}
		}
		if m["decodeRequest"] && !have[c.Key()+"#request"] && skipped[c.Key()+"#request"] == "" {
			missing = append(missing, c.Key()+"#request")
		}
		if m["decodeResponse"] && !have[c.Key()+"#response"] && skipped[c.Key()+"#response"] == "" {
			missing = append(missing, c.Key()+"#response")
		}
	}
	sort.Strings(missing)
	return missing
}
