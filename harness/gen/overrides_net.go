package gen

import (
	"reflect"

	"go.sia.tech/core/gateway"
	rhp3 "go.sia.tech/core/rhp/v3"
	"go.sia.tech/core/types"
)

var (
	tInstruction = typeOf[rhp3.Instruction]()
	tExecResp    = typeOf[rhp3.RPCExecuteProgramResponse]()
	tNoVersion   = typeOf[rhp3.InstrReadRegistryNoVersion]()
	tNoType      = typeOf[rhp3.InstrUpdateRegistryNoType]()
	tOutlineTxn  = typeOf[gateway.OutlineTransaction]()
	tOutline     = typeOf[gateway.V2BlockOutline]()
)

func init() {
	// ---- rhp/v3 program instructions (interface) and their aggregate constraints
	RegisterVariants(tInstruction,
		typeOf[*rhp3.InstrRevision](),
		typeOf[*rhp3.InstrAppendSector](), typeOf[*rhp3.InstrAppendSectorRoot](), typeOf[*rhp3.InstrDropSectors](),
		typeOf[*rhp3.InstrHasSector](), typeOf[*rhp3.InstrReadOffset](), typeOf[*rhp3.InstrReadSector](),
		typeOf[*rhp3.InstrSwapSector](), typeOf[*rhp3.InstrUpdateSector](), typeOf[*rhp3.InstrStoreSector](),
		typeOf[*rhp3.InstrReadRegistry](), typeOf[*rhp3.InstrReadRegistryNoVersion](),
		typeOf[*rhp3.InstrUpdateRegistry](), typeOf[*rhp3.InstrUpdateRegistryNoType]())
	RegisterOverride(tInstruction, func(c *Ctx) reflect.Value {
		v := reflect.New(tInstruction).Elem()
		vs := variants[tInstruction]
		ct := vs[c.Intn(len(vs))]
		p := reflect.New(ct.Elem())
		p.Elem().Set(c.Value(ct.Elem()))
		v.Set(p)
		return v
	})
	RegisterMinimal(tInstruction, func() reflect.Value {
		v := reflect.New(tInstruction).Elem()
		v.Set(reflect.ValueOf(new(rhp3.InstrRevision)))
		return v
	})
	// the pre-1.5.7 forms do not transmit the trailing byte; their decoders set it
	RegisterPost(tNoVersion, func(c *Ctx, v reflect.Value) {
		v.Addr().Interface().(*rhp3.InstrReadRegistryNoVersion).Version = 1
	})
	RegisterMinimal(tNoVersion, func() reflect.Value {
		return reflect.ValueOf(rhp3.InstrReadRegistryNoVersion{InstrReadRegistry: rhp3.InstrReadRegistry{Version: 1}})
	})
	RegisterPost(tNoType, func(c *Ctx, v reflect.Value) {
		v.Addr().Interface().(*rhp3.InstrUpdateRegistryNoType).EntryType = rhp3.EntryTypeArbitrary
	})
	RegisterMinimal(tNoType, func() reflect.Value {
		return reflect.ValueOf(rhp3.InstrUpdateRegistryNoType{InstrUpdateRegistry: rhp3.InstrUpdateRegistry{EntryType: rhp3.EntryTypeArbitrary}})
	})
	// the output is not length-prefixed: OutputLength carries its length
	RegisterPost(tExecResp, func(c *Ctx, v reflect.Value) {
		r := v.Addr().Interface().(*rhp3.RPCExecuteProgramResponse)
		// program outputs are read in chunks: cover lengths around and beyond the chunk size
		if c.Intn(6) == 0 {
			sizes := []int{65535, 65536, 65537, 65600, 131072, 131073, 200704, 262145}
			r.Output = make([]byte, sizes[c.Intn(len(sizes))])
			FillSeed(r.Output, c.Seed())
		}
		r.OutputLength = uint64(len(r.Output))
	})

	// ---- gateway: outline transactions carry exactly one of {v1 txn, v2 txn, hash only};
	// the hash of a present transaction is derived (decoder recomputes it)
	RegisterOverride(tOutlineTxn, func(c *Ctx) reflect.Value {
		var ot gateway.OutlineTransaction
		switch c.Intn(3) {
		case 0:
			t := c.Value(typeOf[types.Transaction]()).Interface().(types.Transaction)
			ot.Transaction = &t
		case 1:
			t := c.Value(typeOf[types.V2Transaction]()).Interface().(types.V2Transaction)
			ot.V2Transaction = &t
		default:
			c.Fill(ot.Hash[:])
		}
		return reflect.ValueOf(ot)
	})
	RegisterMinimal(tOutlineTxn, func() reflect.Value { return reflect.ValueOf(gateway.OutlineTransaction{}) })
	RegisterPost(tOutline, func(c *Ctx, v reflect.Value) {
		FixOutline(c, v.Addr().Interface().(*gateway.V2BlockOutline))
	})

	// ---- gateway: a response is read with a size limit computed from the request
	// fields of the same object (the requester holds them); keep responses inside it
	RegisterPost(typeOf[gateway.RPCSendHeaders](), func(c *Ctx, v reflect.Value) {
		r := v.Addr().Interface().(*gateway.RPCSendHeaders)
		r.Max = uint64(len(r.Headers)) + uint64(c.Intn(3))
		if c.Intn(8) == 0 {
			r.Max += uint64(c.Intn(1 << 20))
		}
	})
	RegisterPost(typeOf[gateway.RPCSendV2Blocks](), func(c *Ctx, v reflect.Value) {
		r := v.Addr().Interface().(*gateway.RPCSendV2Blocks)
		r.Max = 1 + uint64(len(r.Blocks)) + uint64(c.Intn(3))
		if len(r.History) > 32 { // request limit: 8 + 32*32 + 8 bytes
			r.History = r.History[:32]
		}
	})
	RegisterPost(typeOf[gateway.RPCSendTransactions](), func(c *Ctx, v reflect.Value) {
		r := v.Addr().Interface().(*gateway.RPCSendTransactions)
		if len(r.Hashes) > 100 { // request limit
			r.Hashes = r.Hashes[:100]
		}
	})
	RegisterPost(typeOf[gateway.RPCDiscoverIP](), func(c *Ctx, v reflect.Value) {
		r := v.Addr().Interface().(*gateway.RPCDiscoverIP)
		if len(r.IP) > 120 { // response limit: 128 bytes including the length prefix
			r.IP = r.IP[:120]
		}
	})
	RegisterPost(typeOf[gateway.RPCShareNodes](), func(c *Ctx, v reflect.Value) {
		r := v.Addr().Interface().(*gateway.RPCShareNodes)
		total := 8
		for i := range r.Peers { // response limit: 100*128 bytes
			if total+8+len(r.Peers[i]) > 100*128 {
				r.Peers = r.Peers[:i]
				break
			}
			total += 8 + len(r.Peers[i])
		}
	})
}

// FixOutline makes an outline self-consistent: Merkle proofs of all present v2
// transactions valid for one forest (they travel as one multiproof) and the hash
// of every present transaction equal to its Merkle leaf hash.
func FixOutline(c *Ctx, ob *gateway.V2BlockOutline) {
	var v2 []*types.V2Transaction
	for i := range ob.Transactions {
		ot := &ob.Transactions[i]
		if ot.Transaction != nil {
			ot.V2Transaction = nil
		}
		if ot.Transaction == nil && ot.V2Transaction != nil {
			v2 = append(v2, ot.V2Transaction)
		}
	}
	FixMultiproof(c, v2)
	RehashOutline(ob)
}

// RehashOutline recomputes the derived hashes of present transactions with the
// reference encoder.
func RehashOutline(ob *gateway.V2BlockOutline) {
	for i := range ob.Transactions {
		ot := &ob.Transactions[i]
		switch {
		case ot.Transaction != nil:
			ot.Hash = RefTxnLeafHash(*ot.Transaction)
		case ot.V2Transaction != nil:
			ot.Hash = RefV2TxnLeafHash(*ot.V2Transaction)
		}
	}
}
