package gen

import (
	"errors"
	"fmt"
	"reflect"
	"time"

	"go.sia.tech/core/consensus"
	"go.sia.tech/core/types"
)

// Norm returns a deep copy of v to which exactly the documented normalisations
// (DESIGN Appendix C) have been applied:
//
//   - an empty slice becomes nil (also []byte)
//   - a time becomes the UTC instant of its Unix second
//   - FileContractRevision.Payout becomes the sentinel 2^128-1 (never transmitted)
//   - State.Network becomes nil; State.PrevTimestamps[i] for i >= min(height+1, 11) becomes zero
//   - ElementAccumulator.Trees[i] for bits not set in NumLeaves becomes zero
//   - StateElement.shared (process-local flag) becomes false
//   - an error is replaced by errors.New(its message) (only the message is transmitted)
//
// Nothing else is touched; in particular unexported state such as Work.n is copied verbatim.
func Norm(v reflect.Value) reflect.Value {
	out := reflect.New(v.Type()).Elem()
	out.Set(v)
	normInPlace(out)
	return out
}

// NormAny is Norm for plain values.
func NormAny[T any](v T) T {
	return Norm(reflect.ValueOf(&v).Elem()).Interface().(T)
}

func normInPlace(v reflect.Value) {
	t := v.Type()
	switch t {
	case tTime:
		tm := v.Interface().(time.Time)
		v.Set(reflect.ValueOf(time.Unix(tm.Unix(), 0).UTC()))
		return
	case tWork:
		return
	case tStateElem:
		se := v.Interface().(types.StateElement)
		c := se.Copy() // clears `shared`, clones the proof
		if len(c.MerkleProof) == 0 {
			c.MerkleProof = nil
		}
		v.Set(reflect.ValueOf(c))
		return
	}
	if t == tPolicyAfter {
		tm := v.Convert(tTime).Interface().(time.Time)
		v.Set(reflect.ValueOf(time.Unix(tm.Unix(), 0).UTC()).Convert(t))
		return
	}
	switch t.Kind() {
	case reflect.Struct:
		for i := 0; i < t.NumField(); i++ {
			if t.Field(i).PkgPath != "" {
				continue
			}
			normInPlace(v.Field(i))
		}
		switch t {
		case tRevision:
			v.Addr().Interface().(*types.FileContractRevision).Payout = PayoutSentinel
		case tState:
			s := v.Addr().Interface().(*consensus.State)
			s.Network = nil
			for i := NumTimestamps(s.Index.Height); i < len(s.PrevTimestamps); i++ {
				s.PrevTimestamps[i] = time.Time{}
			}
		case tAcc:
			a := v.Addr().Interface().(*consensus.ElementAccumulator)
			for i := range a.Trees {
				if a.NumLeaves&(1<<uint(i)) == 0 {
					a.Trees[i] = types.Hash256{}
				}
			}
		}
	case reflect.Slice:
		if v.Len() == 0 {
			v.Set(reflect.Zero(t))
			return
		}
		c := reflect.MakeSlice(t, v.Len(), v.Len())
		reflect.Copy(c, v)
		v.Set(c)
		if t.Elem().Kind() == reflect.Uint8 {
			return
		}
		for i := 0; i < v.Len(); i++ {
			normInPlace(v.Index(i))
		}
	case reflect.Array:
		if t.Elem().Kind() == reflect.Uint8 {
			return
		}
		for i := 0; i < v.Len(); i++ {
			normInPlace(v.Index(i))
		}
	case reflect.Pointer:
		if v.IsNil() {
			return
		}
		p := reflect.New(t.Elem())
		p.Elem().Set(v.Elem())
		normInPlace(p.Elem())
		v.Set(p)
	case reflect.Interface:
		if v.IsNil() {
			return
		}
		if t == tError {
			v.Set(reflect.ValueOf(errors.New(v.Interface().(error).Error())))
			return
		}
		inner := reflect.New(v.Elem().Type()).Elem()
		inner.Set(v.Elem())
		normInPlace(inner)
		v.Set(inner)
	}
}

// Equal reports whether a and b are equal after Norm.
func Equal(a, b reflect.Value) bool {
	return reflect.DeepEqual(Norm(a).Interface(), Norm(b).Interface())
}

// Diff returns a description of the first difference between Norm(a) and
// Norm(b), or "" if they are equal.
func Diff(a, b reflect.Value) string {
	return diff("", Norm(a), Norm(b))
}

func diff(path string, a, b reflect.Value) string {
	if a.Type() != b.Type() {
		return fmt.Sprintf("%s: type %v vs %v", path, a.Type(), b.Type())
	}
	t := a.Type()
	switch t.Kind() {
	case reflect.Struct:
		if t == tTime || t == tWork {
			break
		}
		for i := 0; i < t.NumField(); i++ {
			if t.Field(i).PkgPath != "" {
				continue
			}
			if d := diff(path+"."+t.Field(i).Name, a.Field(i), b.Field(i)); d != "" {
				return d
			}
		}
		if reflect.DeepEqual(a.Interface(), b.Interface()) {
			return ""
		}
		return fmt.Sprintf("%s: unexported state differs: %+v vs %+v", path, a.Interface(), b.Interface())
	case reflect.Slice, reflect.Array:
		if t.Elem().Kind() == reflect.Uint8 {
			break
		}
		if a.Len() != b.Len() {
			return fmt.Sprintf("%s: length %d vs %d", path, a.Len(), b.Len())
		}
		for i := 0; i < a.Len(); i++ {
			if d := diff(fmt.Sprintf("%s[%d]", path, i), a.Index(i), b.Index(i)); d != "" {
				return d
			}
		}
		return ""
	case reflect.Pointer, reflect.Interface:
		if a.IsNil() != b.IsNil() {
			return fmt.Sprintf("%s: nil %v vs %v", path, a.IsNil(), b.IsNil())
		}
		if a.IsNil() {
			return ""
		}
		if t == tError {
			break
		}
		return diff(path, a.Elem(), b.Elem())
	}
	if reflect.DeepEqual(a.Interface(), b.Interface()) {
		return ""
	}
	s := fmt.Sprintf("%s: %v vs %v", path, a.Interface(), b.Interface())
	if len(s) > 400 {
		s = s[:400] + "..."
	}
	return s
}
