package gen

import (
	"fmt"
	"os"
	"reflect"
	"sort"
)

// AppendHazard walks a value (a freshly decoded object, a library-made copy) and reports the first pair of slices
// of which one has spare capacity that covers live elements of the other: an append to the first — which the
// library's own API performs on Merkle proofs (UpdateElementProof) and which any caller may perform on a list it
// was handed — would silently overwrite the second. A decoder or copy operation that hands out such slices returns
// a value that is equal today and corrupts itself tomorrow, so "decode(encode(v)) equals v" and "copies share no
// mutable memory" are not met in any useful sense. Slices that merely sit next to each other in one allocation with
// their capacities clipped (s[:n:n]) are fine, as are empty slices.
func AppendHazard(root reflect.Value) error {
	if os.Getenv("VERIF_NO_HAZARD") != "" {
		return nil // development aid: lets the behavioural oracles be tested on their own
	}
	type span struct {
		path           string
		lo, live, capE uintptr // [lo, live) holds elements, [live, capE) is spare capacity
	}
	var spans []span
	seen := map[uintptr]bool{}
	var walk func(v reflect.Value, path string)
	walk = func(v reflect.Value, path string) {
		switch v.Kind() {
		case reflect.Ptr:
			if v.IsNil() || seen[v.Pointer()] {
				return
			}
			seen[v.Pointer()] = true
			walk(v.Elem(), path)
		case reflect.Interface:
			if !v.IsNil() {
				walk(v.Elem(), path)
			}
		case reflect.Struct:
			for i := 0; i < v.NumField(); i++ {
				if v.Type().Field(i).PkgPath != "" {
					continue // unexported
				}
				walk(v.Field(i), path+"."+v.Type().Field(i).Name)
			}
		case reflect.Array:
			for i := 0; i < v.Len(); i++ {
				if k := v.Type().Elem().Kind(); k == reflect.Uint8 {
					break
				}
				walk(v.Index(i), fmt.Sprintf("%s[%d]", path, i))
			}
		case reflect.Slice:
			if v.IsNil() || v.Cap() == 0 {
				return
			}
			sz := v.Type().Elem().Size()
			if sz > 0 {
				lo := v.Pointer()
				spans = append(spans, span{path, lo, lo + uintptr(v.Len())*sz, lo + uintptr(v.Cap())*sz})
			}
			switch v.Type().Elem().Kind() {
			case reflect.Uint8, reflect.Uint64, reflect.Bool:
				return
			}
			for i := 0; i < v.Len(); i++ {
				walk(v.Index(i), fmt.Sprintf("%s[%d]", path, i))
			}
		}
	}
	walk(root, "")
	sort.Slice(spans, func(i, j int) bool { return spans[i].lo < spans[j].lo })
	for i, a := range spans {
		if a.live == a.capE {
			continue
		}
		for _, b := range spans[i+1:] {
			if b.lo >= a.capE {
				break
			}
			// b starts inside a's allocation: hazard if a's spare region [a.live, a.capE) covers live elements of b
			if b.lo < b.live && b.live > a.live {
				return fmt.Errorf("%s (len %d bytes, spare capacity %d bytes) shares its backing array with %s: an append to the first overwrites the second",
					a.path, a.live-a.lo, a.capE-a.live, b.path)
			}
		}
	}
	return nil
}
