package gen

import (
	"fmt"
	"os"
	"reflect"
	"sort"

	"go.sia.tech/core/types"
)

// AppendHazard walks a value (a freshly decoded object, a library-made copy) and reports the first pair of slices
// of which one has spare capacity that covers live elements of the other: an append to the first — which the
// library's own API performs on Merkle proofs (UpdateElementProof) and which any caller may perform on a list it
// was handed — would silently overwrite the second. A decoder or copy operation that hands out such slices returns
// a value that is equal today and corrupts itself tomorrow, so "decode(encode(v)) equals v" and "copies share no
// mutable memory" are not met in any useful sense. Slices that merely sit next to each other in one allocation with
// their capacities clipped (s[:n:n]) are fine, as are empty slices.
func AppendHazard(root reflect.Value) error {
	if os.Getenv("VERIF_NO_HAZARD") != "" {
		return nil // development aid: lets the behavioural oracles be tested on their own
	}
	type span struct {
		path           string
		lo, live, capE uintptr // [lo, live) holds elements, [live, capE) is spare capacity
	}
	var spans []span
	seen := map[uintptr]bool{}
	var walk func(v reflect.Value, path string)
	walk = func(v reflect.Value, path string) {
		switch v.Kind() {
		case reflect.Ptr:
			if v.IsNil() || seen[v.Pointer()] {
				return
			}
			seen[v.Pointer()] = true
			walk(v.Elem(), path)
		case reflect.Interface:
			if !v.IsNil() {
				walk(v.Elem(), path)
			}
		case reflect.Struct:
			for i := 0; i < v.NumField(); i++ {
				if v.Type().Field(i).PkgPath != "" {
					continue // unexported
				}
				walk(v.Field(i), path+"."+v.Type().Field(i).Name)
			}
		case reflect.Array:
			for i := 0; i < v.Len(); i++ {
				if k := v.Type().Elem().Kind(); k == reflect.Uint8 {
					break
				}
				walk(v.Index(i), fmt.Sprintf("%s[%d]", path, i))
			}
		case reflect.Slice:
			if v.IsNil() || v.Cap() == 0 {
				return
			}
			sz := v.Type().Elem().Size()
			if sz > 0 {
				lo := v.Pointer()
				spans = append(spans, span{path, lo, lo + uintptr(v.Len())*sz, lo + uintptr(v.Cap())*sz})
			}
			switch v.Type().Elem().Kind() {
			case reflect.Uint8, reflect.Uint64, reflect.Bool:
				return
			}
			for i := 0; i < v.Len(); i++ {
				walk(v.Index(i), fmt.Sprintf("%s[%d]", path, i))
			}
		}
	}
	walk(root, "")
	sort.Slice(spans, func(i, j int) bool { return spans[i].lo < spans[j].lo })
	for i, a := range spans {
		// two lists whose elements occupy the same memory: writing through one changes the other
		for _, b := range spans[i+1:] {
			if b.lo >= a.live {
				break
			}
			if b.lo < b.live && a.lo < a.live && a.path != b.path {
				return fmt.Errorf("%s and %s share the memory of their elements: a write through one changes the other", a.path, b.path)
			}
		}
		if a.live == a.capE {
			continue
		}
		for _, b := range spans[i+1:] {
			if b.lo >= a.capE {
				break
			}
			// b starts inside a's allocation: hazard if a's spare region [a.live, a.capE) covers live elements of b
			if b.lo < b.live && b.live > a.live {
				return fmt.Errorf("%s (len %d bytes, spare capacity %d bytes) shares its backing array with %s: an append to the first overwrites the second",
					a.path, a.live-a.lo, a.capE-a.live, b.path)
			}
		}
	}
	return nil
}

// ReuseReceiver decodes enc1 and then enc2 into one variable of the entry's type (types with a DecodeFrom method
// only) and reports whether the value obtained from the first decode — kept as a copy of the variable, sharing its
// lists, as an element of a longer-lived structure would — was modified by the second decode. No decoder of the
// library writes into memory reachable from the receiver's previous value, with one documented exception
// (rhp2.RPCReadResponse reuses the capacity of Data: "for maximum efficiency, we should be doing this for every
// slice, but in most cases the extra performance isn't worth the aliasing issues"). For every type, that one included,
// the variable must afterwards hold exactly the second message — what decoding it into a fresh variable gives.
func ReuseReceiver(e *Entry, enc1, enc2 []byte) (err error) {
	p := reflect.New(e.Type)
	// decode b into the value q points to: through the codec's read function where it takes a target object (rhp v4),
	// else through DecodeFrom
	into := func(q reflect.Value, b []byte) (ok, applicable bool) {
		if e.DecodeInto != nil {
			return e.DecodeInto(b, q) == nil, true
		}
		df, isDF := q.Interface().(types.DecoderFrom)
		if !isDF {
			return false, false
		}
		d := types.NewBufDecoder(b)
		df.DecodeFrom(d)
		return d.Err() == nil, true
	}
	defer func() {
		if r := recover(); r != nil {
			err = nil // decoder / encoder panics are judged elsewhere
		}
	}()
	if ok, applicable := into(p, enc1); !applicable || !ok {
		return nil
	}
	held := reflect.New(e.Type).Elem()
	held.Set(p.Elem())
	before, eerr := e.Encode(held)
	if eerr != nil {
		return nil
	}
	ok2, _ := into(p, enc2)
	// (a) the variable now holds the second message, exactly as a fresh variable would (nothing of the first message
	// shows through: no stale length, no stale tail, no field left over)
	if ok2 {
		fresh := reflect.New(e.Type)
		if okf, _ := into(fresh, enc2); okf {
			got, gerr := e.Encode(p.Elem())
			want, werr := e.Encode(fresh.Elem())
			if gerr == nil && werr == nil && string(got) != string(want) {
				i := 0
				for i < len(got) && i < len(want) && got[i] == want[i] {
					i++
				}
				return fmt.Errorf("decoding a second message into a variable that already held a decoded message gives a different value than decoding it into a fresh variable (encodings %d vs %d bytes, first difference at byte %d)", len(got), len(want), i)
			}
		}
	}
	// (b) the value obtained from the first decode is left alone
	if e.Name == "rhp2.RPCReadResponse" {
		return nil // documented reuse of Data's capacity
	}
	after, eerr := e.Encode(held)
	if eerr != nil {
		return fmt.Errorf("the value held from the first decode cannot be encoded any more after a second decode into the same variable")
	}
	if string(before) != string(after) {
		i := 0
		for i < len(before) && i < len(after) && before[i] == after[i] {
			i++
		}
		return fmt.Errorf("decoding a second message into the same variable modified the value obtained from the first decode (byte %d of its encoding changed)", i)
	}
	return nil
}

// SharedMark walks a freshly decoded value (binary, JSON) and reports the first state element that is marked as
// sharing its memory with another holder (the unexported flag Share() sets and Move() refuses): a decoder has just
// allocated everything it returns, so the value is the sole owner and every element in it must be movable. An element
// decoded with the mark is equal in every exported field, encodes identically and hashes identically — and panics in
// the first UpdateElementProof ("Move called on shared StateElement").
func SharedMark(root reflect.Value) error {
	tSE := reflect.TypeOf(types.StateElement{})
	seen := map[uintptr]bool{}
	var walk func(v reflect.Value, path string) error
	walk = func(v reflect.Value, path string) error {
		switch v.Kind() {
		case reflect.Ptr:
			if v.IsNil() || seen[v.Pointer()] {
				return nil
			}
			seen[v.Pointer()] = true
			return walk(v.Elem(), path)
		case reflect.Interface:
			if v.IsNil() {
				return nil
			}
			return walk(v.Elem(), path)
		case reflect.Struct:
			if v.Type() == tSE {
				if f := v.FieldByName("shared"); f.IsValid() && f.Kind() == reflect.Bool && f.Bool() {
					return fmt.Errorf("%s is marked as shared: the decoded value does not own its element (Move / UpdateElementProof on it panic)", path)
				}
				return nil
			}
			for i := 0; i < v.NumField(); i++ {
				if v.Type().Field(i).PkgPath != "" {
					continue
				}
				if err := walk(v.Field(i), path+"."+v.Type().Field(i).Name); err != nil {
					return err
				}
			}
		case reflect.Slice, reflect.Array:
			if k := v.Type().Elem().Kind(); k == reflect.Uint8 || k == reflect.Uint64 || k == reflect.Bool {
				return nil
			}
			for i := 0; i < v.Len(); i++ {
				if err := walk(v.Index(i), fmt.Sprintf("%s[%d]", path, i)); err != nil {
					return err
				}
			}
		}
		return nil
	}
	return walk(root, "")
}
