package gen

import (
	"encoding/binary"
	"fmt"
	"math"
	"reflect"
	"time"

	"pgregory.net/rapid"
)

// Opts are the size and shape knobs of Value. The zero value is usable.
type Opts struct {
	Fuel        int  // approximate number of slice elements / pointers / policy nodes in one value (default 40; 1 in 8 values gets 6x)
	MaxLen      int  // usual maximum slice length (default 3)
	BigLen      int  // occasional larger slice length (default 12)
	PolicyDepth int  // usual maximum nesting of threshold policies (default 3; occasionally up to 30, the decoder allows 32)
	UTF8        bool // strings are valid UTF-8 (needed by JSON/text checks; binary accepts any bytes)
	NoGarbage   bool // never put garbage into documented non-transmitted slots (unused timestamps, unused trees, State.Network, revision payout)
	TopLevelUC  bool // unlock-condition policies only at the root of a policy (what Verify accepts); default: anywhere (the codec allows it)
}

func (o Opts) withDefaults() Opts {
	if o.Fuel == 0 {
		o.Fuel = 40
	}
	if o.MaxLen == 0 {
		o.MaxLen = 3
	}
	if o.BigLen == 0 {
		o.BigLen = 12
	}
	if o.PolicyDepth == 0 {
		o.PolicyDepth = 3
	}
	return o
}

// Ctx is the state of one Value call. Overrides and post-hooks receive it.
type Ctx struct {
	T    *rapid.T
	O    Opts
	fuel int
}

// Intn draws an int in [0, n).
func (c *Ctx) Intn(n int) int {
	if n <= 1 {
		return 0
	}
	return rapid.IntRange(0, n-1).Draw(c.T, "n")
}

// Bool draws a bool.
func (c *Ctx) Bool() bool { return rapid.Bool().Draw(c.T, "b") }

// Seed draws a raw 64-bit seed.
func (c *Ctx) Seed() uint64 { return rapid.Uint64().Draw(c.T, "seed") }

// Take consumes n units of fuel and reports whether they were available.
func (c *Ctx) Take(n int) bool {
	if c.fuel < n {
		return false
	}
	c.fuel -= n
	return true
}

// Fuel returns the remaining fuel.
func (c *Ctx) Fuel() int { return c.fuel }

// U64 draws a boundary-biased uint64.
func (c *Ctx) U64() uint64 {
	switch c.Intn(12) {
	case 0:
		return 0
	case 1:
		return 1
	case 2:
		return math.MaxUint64
	case 3:
		return 1 << uint(c.Intn(64))
	case 4:
		return 1<<uint(c.Intn(64)) - 1
	case 5:
		return uint64(c.Intn(256))
	case 6:
		return math.MaxUint64 - uint64(c.Intn(4))
	case 7:
		return 1<<63 + uint64(c.Intn(3)) - 1
	default:
		// random bit length
		n := uint(c.Intn(65))
		if n == 0 {
			return 0
		}
		v := c.Seed()
		if n < 64 {
			v &= 1<<n - 1
			v |= 1 << (n - 1)
		}
		return v
	}
}

func splitmix(x *uint64) uint64 {
	*x += 0x9E3779B97F4A7C15
	z := *x
	z = (z ^ (z >> 30)) * 0xBF58476D1CE4E5B9
	z = (z ^ (z >> 27)) * 0x94D049BB133111EB
	return z ^ (z >> 31)
}

// FillSeed fills b deterministically from seed.
func FillSeed(b []byte, seed uint64) {
	var w [8]byte
	for i := 0; i < len(b); i += 8 {
		binary.LittleEndian.PutUint64(w[:], splitmix(&seed))
		copy(b[i:], w[:])
	}
}

// Fill fills a fixed-size byte string: mostly random, sometimes all-zero,
// all-ones, or a single small byte (so that trimming / padding bugs show).
func (c *Ctx) Fill(b []byte) {
	if len(b) == 0 {
		return
	}
	switch c.Intn(10) {
	case 0:
		for i := range b {
			b[i] = 0
		}
	case 1:
		for i := range b {
			b[i] = 0xff
		}
	case 2:
		for i := range b {
			b[i] = 0
		}
		b[len(b)-1] = byte(1 + c.Intn(255))
	case 3:
		for i := range b {
			b[i] = 0
		}
		b[0] = byte(1 + c.Intn(255))
	default:
		FillSeed(b, c.Seed())
	}
}

// Len draws a slice length: nil(-1), empty(0) or a positive length, bounded by fuel.
func (c *Ctx) Len() int {
	var n int
	switch k := c.Intn(12); {
	case k == 0:
		return -1
	case k == 1:
		return 0
	case k <= 5:
		n = 1
	case k <= 7:
		n = 2
	case k <= 9:
		n = 1 + c.Intn(c.O.MaxLen)
	case k == 10:
		n = c.O.MaxLen
	default:
		n = 1 + c.Intn(c.O.BigLen)
	}
	if n > c.fuel {
		n = c.fuel
	}
	if n <= 0 {
		if c.Bool() {
			return -1
		}
		return 0
	}
	c.fuel -= n
	return n
}

// Bytes draws a variable-length byte string (nil, empty, short, occasionally longer).
// bufferEdges are lengths around the sizes of the library's internal buffers (the 1 KiB encoder buffer, 4 KiB frames and
// pages, 64 KiB chunks): a byte string or text that is one below, exactly, or one above them.
var bufferEdges = []int{1016, 1023, 1024, 1025, 1032, 2047, 2048, 2049, 4095, 4096, 4097, 65535, 65536, 65537}

func (c *Ctx) Bytes() []byte {
	var n int
	if c.Intn(40) == 0 {
		b := make([]byte, bufferEdges[c.Intn(len(bufferEdges))])
		c.Fill(b)
		return b
	}
	switch k := c.Intn(12); {
	case k == 0:
		return nil
	case k == 1:
		return []byte{}
	case k <= 4:
		n = 1 + c.Intn(8)
	case k <= 8:
		n = 1 + c.Intn(40)
	case k == 9:
		n = 32
	case k == 10:
		n = 64
	default:
		n = 1 + c.Intn(300)
	}
	b := make([]byte, n)
	c.Fill(b)
	return b
}

var utf8Alphabet = []rune("abcXYZ019 _-:.,()[]\"\\/éüΩ世界\U0001F600\x00\x7f\n\t")

// String draws a string; arbitrary bytes unless Opts.UTF8.
func (c *Ctx) String() string {
	if !c.O.UTF8 {
		return string(c.Bytes())
	}
	n := 0
	switch k := c.Intn(8); {
	case c.Intn(40) == 0:
		n = bufferEdges[c.Intn(len(bufferEdges))]
	case k == 0:
		n = 0
	case k <= 4:
		n = 1 + c.Intn(8)
	case k <= 6:
		n = 1 + c.Intn(30)
	default:
		n = 1 + c.Intn(120)
	}
	seed := c.Seed()
	r := make([]rune, n)
	for i := range r {
		r[i] = utf8Alphabet[splitmix(&seed)%uint64(len(utf8Alphabet))]
	}
	return string(r)
}

// MaxUnix is 9999-12-31T23:59:59Z.
const MaxUnix = 253402300799

// Time draws a whole-second, non-negative Unix time in years 1970..9999.
func (c *Ctx) Time() time.Time {
	var s int64
	switch c.Intn(10) {
	case 0:
		s = 0
	case 1:
		s = 1
	case 2:
		s = MaxUnix
	case 3:
		s = MaxUnix - int64(c.Intn(3))
	case 4:
		s = 1<<31 + int64(c.Intn(3)) - 1
	case 5:
		s = 1<<32 + int64(c.Intn(3)) - 1
	case 6:
		s = 4102444800 + int64(c.Intn(1<<30)) // year 2100+
	default:
		s = int64(c.Seed() % (MaxUnix + 1))
	}
	return time.Unix(s, 0)
}

// Override produces a value of one specific type.
type Override func(c *Ctx) reflect.Value

// Post adjusts a generically generated (addressable) value of one specific type
// so that it satisfies the type's aggregate constraints.
type Post func(c *Ctx, v reflect.Value)

var (
	overrides = map[reflect.Type]Override{}
	posts     = map[reflect.Type]Post{}
	minimals  = map[reflect.Type]func() reflect.Value{}
)

// RegisterOverride installs an override (used by this package's init functions;
// other checks may add their own types).
func RegisterOverride(t reflect.Type, f Override) { overrides[t] = f }

// RegisterPost installs a post-hook.
func RegisterPost(t reflect.Type, f Post) { posts[t] = f }

// RegisterMinimal installs a Minimal constructor.
func RegisterMinimal(t reflect.Type, f func() reflect.Value) { minimals[t] = f }

// Value generates a value of typ.
func Value(t *rapid.T, typ reflect.Type, o Opts) reflect.Value {
	o = o.withDefaults()
	c := &Ctx{T: t, O: o, fuel: o.Fuel}
	switch rapid.IntRange(0, 15).Draw(t, "size") {
	case 0, 1:
		c.fuel *= 6
	case 2:
		c.fuel = 4
	}
	return c.Value(typ)
}

// Of is the generic wrapper of Value.
func Of[T any](t *rapid.T, o Opts) T {
	var z T
	return Value(t, reflect.TypeOf(&z).Elem(), o).Interface().(T)
}

// Value generates a (non-addressable or addressable) value of typ inside the current call.
func (c *Ctx) Value(typ reflect.Type) reflect.Value {
	if f, ok := overrides[typ]; ok {
		v := f(c)
		if v.Type() != typ {
			panic(fmt.Sprintf("gen: override for %v returned %v", typ, v.Type()))
		}
		return v
	}
	v := reflect.New(typ).Elem()
	c.fillGeneric(v)
	if p, ok := posts[typ]; ok {
		p(c, v)
	}
	return v
}

func (c *Ctx) fillGeneric(v reflect.Value) {
	typ := v.Type()
	switch typ.Kind() {
	case reflect.Bool:
		v.SetBool(c.Bool())
	case reflect.Uint8:
		switch c.Intn(6) {
		case 0:
			v.SetUint(0)
		case 1:
			v.SetUint(255)
		case 2:
			v.SetUint(1)
		default:
			v.SetUint(uint64(c.Intn(256)))
		}
	case reflect.Uint16, reflect.Uint32, reflect.Uint64, reflect.Uint:
		u := c.U64()
		if bits := typ.Bits(); bits < 64 {
			u &= 1<<uint(bits) - 1
		}
		v.SetUint(u)
	case reflect.Int8, reflect.Int16, reflect.Int32, reflect.Int64, reflect.Int:
		u := c.U64()
		bits := uint(typ.Bits())
		if bits < 64 {
			u &= 1<<bits - 1
			// sign-extend
			if u&(1<<(bits-1)) != 0 {
				u |= ^uint64(0) << bits
			}
		}
		v.SetInt(int64(u))
	case reflect.String:
		v.SetString(c.String())
	case reflect.Array:
		if typ.Elem().Kind() == reflect.Uint8 {
			b := make([]byte, typ.Len())
			c.Fill(b)
			reflect.Copy(v, reflect.ValueOf(b))
			return
		}
		for i := 0; i < v.Len(); i++ {
			v.Index(i).Set(c.Value(typ.Elem()))
		}
	case reflect.Slice:
		if typ.Elem().Kind() == reflect.Uint8 {
			b := c.Bytes()
			if b == nil {
				return
			}
			v.Set(reflect.ValueOf(b).Convert(typ))
			return
		}
		n := c.Len()
		if n < 0 {
			return
		}
		s := reflect.MakeSlice(typ, n, n)
		for i := 0; i < n; i++ {
			s.Index(i).Set(c.Value(typ.Elem()))
		}
		v.Set(s)
	case reflect.Struct:
		for i := 0; i < typ.NumField(); i++ {
			f := typ.Field(i)
			if f.PkgPath != "" { // unexported: left zero
				continue
			}
			v.Field(i).Set(c.Value(f.Type))
		}
	case reflect.Pointer:
		if c.Intn(3) == 0 || !c.Take(1) {
			return
		}
		p := reflect.New(typ.Elem())
		p.Elem().Set(c.Value(typ.Elem()))
		v.Set(p)
	case reflect.Interface:
		panic(fmt.Sprintf("gen: no override registered for interface type %v", typ))
	default:
		panic(fmt.Sprintf("gen: unsupported kind %v (%v)", typ.Kind(), typ))
	}
}

// Minimal returns the smallest encodable value of typ: the zero value, with
// interfaces and interface-bearing structs filled with their first variant.
func Minimal(typ reflect.Type) reflect.Value {
	if f, ok := minimals[typ]; ok {
		return f()
	}
	v := reflect.New(typ).Elem()
	switch typ.Kind() {
	case reflect.Struct:
		for i := 0; i < typ.NumField(); i++ {
			if typ.Field(i).PkgPath != "" {
				continue
			}
			v.Field(i).Set(Minimal(typ.Field(i).Type))
		}
	case reflect.Array:
		if typ.Elem().Kind() != reflect.Uint8 {
			for i := 0; i < v.Len(); i++ {
				v.Index(i).Set(Minimal(typ.Elem()))
			}
		}
	case reflect.Interface:
		panic(fmt.Sprintf("gen: no minimal value registered for interface type %v", typ))
	}
	return v
}
