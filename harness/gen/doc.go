// Package gen is the shared reflective value generator, comparator and codec
// registry of the /verif harness.  It is written for C11 (binary round trip) and
// designed to be reused by C20 (text/JSON round trip), C10 (decoder totality) and
// C12 (ID binding).
//
// # API summary
//
// Registry
//
//	gen.Registry() []*Entry         every wire type with an encoder/decoder pair in
//	                                types, consensus, gateway, rhp/v2, rhp/v3, rhp/v4
//	gen.Lookup(name) *Entry         by Entry.Name ("types.V1Currency", "gateway.RPCSendHeaders#response", ...)
//	Entry.Encode(v) ([]byte, error) encode a value of Entry.Type through the library
//	Entry.Decode(b, hint) Decoded   decode bytes through the library into a fresh value
//	                                (hint = the value the requester holds; only used by
//	                                gateway responses whose size limit depends on request fields)
//	Entry.Project(v)                copy of v with the fields this codec does not carry zeroed
//	Entry.HasJSON / HasText         discovered by reflection (json.Unmarshaler / encoding.TextUnmarshaler)
//	Entry.Critical                  a hand-written reference layout exists (RefEncode)
//	Entry.Multiproof                Merkle proofs are compressed (values need a consistent forest)
//	Entry.Via                       how the bytes are produced (EncodeTo, cast, gateway.Stream, rhp4.WriteRequest ...)
//
// Values
//
//	gen.Value(t, typ, opts) reflect.Value   walk reflect.Type with the override table (see value.go)
//	gen.Of[T](t, opts) T                    generic wrapper
//	gen.Minimal(typ) reflect.Value          smallest encodable value (interfaces filled with a first variant)
//	gen.Opts                                size knobs (Fuel, MaxLen, BigLen, PolicyDepth), UTF8 strings, JSONTimes
//
// Comparison (exactly DESIGN Appendix C and nothing else)
//
//	gen.Norm(v) reflect.Value       deep copy with: empty slice -> nil, times -> whole-second UTC instant,
//	                                FileContractRevision.Payout -> sentinel, State.Network -> nil,
//	                                unused timestamp slots / accumulator trees -> zero,
//	                                StateElement.shared -> false, error -> its message
//	gen.Equal(a, b) bool            DeepEqual(Norm(a), Norm(b))
//	gen.Diff(a, b) string           first differing path after Norm ("" if equal)
//
// Paths and mutation
//
//	gen.Fields(v) []Path            every leaf path (scalars, byte strings, times, opaque values)
//	                                plus structural leaves "#len" (slice length), "#nil" (pointer),
//	                                "#kind" (interface variant)
//	gen.MutateAt(root, path, seed)  minimal deterministic mutation at a path (root must be addressable)
//	gen.Mutate(t, root, path)       same, seed drawn from rapid
//	gen.NotTransmitted(e, root, p)  documented non-transmitted set (Appendix C) for entry e
//
// Replays
//
//	gen.Dump(v) (json tree) / gen.Load(typ, tree)   library-independent serialisation of any generated
//	                                value (interfaces tagged with their concrete type, times as Unix
//	                                seconds, Work as a decimal string) so that failing cases replay
//	                                without going through the codec under test.
//
// Reference layout
//
//	gen.RefEncode(v any) ([]byte, bool)     independent hand-written encoder for the consensus-critical set
//	gen.Ref* helpers                        IDs / addresses / leaf hashes recomputed with x/crypto/blake2b
//
// Completeness guard
//
//	gen.ScanRepo(dir) ([]Codec, error)      go/parser scan of non-test files: every type with DecodeFrom /
//	                                decodeFrom / decodeRequest / decodeResponse / UnmarshalJSON / UnmarshalText
//	gen.MissingFromRegistry(codecs) []string exported EncodeTo+DecodeFrom types absent from Registry()
//	gen.Skipped()                           unexported / nested helper codecs deliberately not registered, with reasons
//
// All randomness comes from the *rapid.T passed in; byte strings are expanded from
// a drawn 64-bit seed (splitmix) to keep the number of draws small.
package gen
