package gen

import (
	"bytes"
	"encoding"
	"encoding/json"
	"fmt"
	"io"
	"reflect"
	"sort"
	"strings"
	"sync"

	"go.sia.tech/core/consensus"
	"go.sia.tech/core/types"
)

// Decoded is the outcome of one Entry.Decode call.
type Decoded struct {
	V        reflect.Value // decoded value (of Entry.Type), possibly partial when Err != nil
	Err      error         // the decoder's error (d.Err() or the transport function's error)
	Consumed int           // bytes consumed from the input; -1 if the codec cannot tell
}

// Entry describes one wire type: how to turn a value into bytes and back
// through the library.
type Entry struct {
	Name string       // unique: "<pkg>.<Type>" plus "#request"/"#response" for gateway objects
	Pkg  string       // types | consensus | gateway | rhp2 | rhp3 | rhp4
	Type reflect.Type // Go type of the values (never a pointer)
	Via  string       // how the bytes are produced

	Encode func(v reflect.Value) ([]byte, error)
	Decode func(b []byte, hint reflect.Value) Decoded
	// DecodeInto, when set, decodes b into the existing value p points to (the codec's read function takes a target
	// object); used to check that a reused target ends up holding exactly the decoded message.
	DecodeInto func(b []byte, p reflect.Value) error

	// Transmitted lists the top-level fields this codec carries; nil means all
	// exported fields. (Cast types and gateway request/response halves carry a subset.)
	Transmitted []string

	MaxLen     int  // size limit enforced by the library's read function (0: none); larger values are out of domain
	Critical   bool // RefEncode knows this type
	Multiproof bool // parent-element Merkle proofs travel as one multiproof
	Slow       bool // every call crosses an in-process transport (gateway.Stream)
	HasJSON    bool // *T implements json.Unmarshaler (or T has only std JSON behaviour and a MarshalJSON)
	HasText    bool // *T implements encoding.TextUnmarshaler
}

// Project returns a copy of v in which every top-level field that this codec
// does not transmit is zeroed.
func (e *Entry) Project(v reflect.Value) reflect.Value {
	out := reflect.New(e.Type).Elem()
	out.Set(v)
	if e.Transmitted == nil || e.Type.Kind() != reflect.Struct {
		return out
	}
	for i := 0; i < e.Type.NumField(); i++ {
		f := e.Type.Field(i)
		if f.PkgPath != "" {
			continue
		}
		keep := false
		for _, n := range e.Transmitted {
			if n == f.Name {
				keep = true
			}
		}
		if !keep {
			out.Field(i).Set(reflect.Zero(f.Type))
		}
	}
	return out
}

// TransmitsField reports whether the top-level field name is carried.
func (e *Entry) TransmitsField(name string) bool {
	if e.Transmitted == nil {
		return true
	}
	for _, n := range e.Transmitted {
		if n == name {
			return true
		}
	}
	return false
}

var (
	regOnce sync.Once
	reg     []*Entry
	regMap  map[string]*Entry
)

// Registry returns every registered wire type, sorted by name.
func Registry() []*Entry {
	regOnce.Do(func() {
		reg = append(reg, typesEntries()...)
		reg = append(reg, consensusEntries()...)
		reg = append(reg, gatewayEntries()...)
		reg = append(reg, rhp2Entries()...)
		reg = append(reg, rhp3Entries()...)
		reg = append(reg, rhp4Entries()...)
		sort.Slice(reg, func(i, j int) bool { return reg[i].Name < reg[j].Name })
		regMap = map[string]*Entry{}
		var jm *json.Unmarshaler
		var tm *encoding.TextUnmarshaler
		for _, e := range reg {
			if regMap[e.Name] != nil {
				panic("gen: duplicate registry entry " + e.Name)
			}
			regMap[e.Name] = e
			pt := reflect.PointerTo(e.Type)
			e.HasJSON = pt.Implements(reflect.TypeOf(jm).Elem())
			e.HasText = pt.Implements(reflect.TypeOf(tm).Elem())
			if _, ok := RefEncode(Minimal(e.Type).Interface()); ok && (e.Via == viaStd || e.Via == viaCast) {
				e.Critical = true
			}
		}
	})
	return reg
}

// Lookup finds an entry by name.
func Lookup(name string) *Entry {
	Registry()
	return regMap[name]
}

// Names returns the sorted entry names.
func Names() []string {
	var ns []string
	for _, e := range Registry() {
		ns = append(ns, e.Name)
	}
	return ns
}

const (
	viaStd     = "EncodeTo/DecodeFrom through types.Encoder/types.Decoder"
	viaCast    = "cast type (types.V1*/V2*) EncodeTo/DecodeFrom"
	viaGateway = "gateway.Stream Write*/Read* over an in-process mux peer"
	viaRHP4Req = "rhp/v4 WriteRequest/ReadRequest"
	viaRHP4Res = "rhp/v4 WriteResponse/ReadResponse"
)

// countingReader tells how many bytes the decoder pulled.
type countingReader struct {
	r *bytes.Reader
}

func (c *countingReader) Read(p []byte) (int, error) { return c.r.Read(p) }

// EncodeTo runs an EncoderTo against a fresh encoder and returns the bytes.
func EncodeTo(v types.EncoderTo) []byte {
	var buf bytes.Buffer
	e := types.NewEncoder(&buf)
	v.EncodeTo(e)
	if err := e.Flush(); err != nil {
		panic(err)
	}
	if buf.Len() == 0 {
		return []byte{}
	}
	return buf.Bytes()
}

// DecodeFrom runs a DecoderFrom over b and reports error and consumption.
func DecodeFrom(v types.DecoderFrom, b []byte) (err error, consumed int) {
	r := bytes.NewReader(b)
	d := types.NewDecoder(io.LimitedReader{R: &countingReader{r}, N: int64(len(b))})
	v.DecodeFrom(d)
	return d.Err(), len(b) - r.Len()
}

// std builds an entry for a type T whose pointer implements DecoderFrom and
// whose value or pointer implements EncoderTo.
func std[T any](pkg string, opts ...func(*Entry)) *Entry {
	t := typeOf[T]()
	if _, ok := reflect.New(t).Interface().(types.EncoderTo); !ok {
		panic(fmt.Sprintf("gen: %v has no EncodeTo", t))
	}
	if _, ok := reflect.New(t).Interface().(types.DecoderFrom); !ok {
		panic(fmt.Sprintf("gen: %v has no DecodeFrom", t))
	}
	e := &Entry{
		Name: pkg + "." + t.Name(),
		Pkg:  pkg,
		Type: t,
		Via:  viaStd,
		Encode: func(v reflect.Value) ([]byte, error) {
			p := reflect.New(t)
			p.Elem().Set(v)
			return EncodeTo(p.Interface().(types.EncoderTo)), nil
		},
		Decode: func(b []byte, _ reflect.Value) Decoded {
			p := reflect.New(t)
			err, n := DecodeFrom(p.Interface().(types.DecoderFrom), b)
			return Decoded{V: p.Elem(), Err: err, Consumed: n}
		},
	}
	if strings.HasPrefix(t.Name(), "V1") || strings.HasPrefix(t.Name(), "V2") {
		if _, isCast := t.MethodByName("Cast"); isCast {
			e.Via = viaCast
		}
	}
	for _, o := range opts {
		o(e)
	}
	return e
}

func transmitted(fields ...string) func(*Entry) {
	return func(e *Entry) { e.Transmitted = fields }
}

func multiproof(e *Entry) { e.Multiproof = true }

func maxLen(n int) func(*Entry) { return func(e *Entry) { e.MaxLen = n } }

func typesEntries() []*Entry {
	const p = "types"
	return []*Entry{
		std[types.Hash256](p), std[types.BlockID](p), std[types.TransactionID](p), std[types.AttestationID](p),
		std[types.Address](p), std[types.PublicKey](p), std[types.Signature](p), std[types.Specifier](p),
		std[types.SiacoinOutputID](p), std[types.SiafundOutputID](p), std[types.FileContractID](p),
		std[types.UnlockKey](p), std[types.UnlockConditions](p),
		std[types.V1Currency](p), std[types.V2Currency](p), std[types.ChainIndex](p),
		std[types.V1SiacoinOutput](p), std[types.V2SiacoinOutput](p),
		std[types.V1SiafundOutput](p), std[types.V2SiafundOutput](p),
		std[types.SiacoinInput](p), std[types.SiafundInput](p),
		std[types.FileContract](p), std[types.FileContractRevision](p), std[types.StorageProof](p),
		std[types.FoundationAddressUpdate](p), std[types.CoveredFields](p), std[types.TransactionSignature](p),
		std[types.Transaction](p),
		std[types.SpendPolicy](p), std[types.SatisfiedPolicy](p), std[types.StateElement](p),
		std[types.V2SiacoinInput](p), std[types.V2SiafundInput](p),
		std[types.ChainIndexElement](p), std[types.SiacoinElement](p), std[types.SiafundElement](p),
		std[types.FileContractElement](p), std[types.V2FileContractElement](p),
		std[types.V2FileContract](p), std[types.V2FileContractRevision](p), std[types.V2FileContractRenewal](p),
		std[types.V2StorageProof](p), std[types.V2FileContractExpiration](p), std[types.V2FileContractResolution](p),
		std[types.Attestation](p), std[types.V2Transaction](p),
		std[types.V2BlockData](p, multiproof), std[types.BlockHeader](p),
		std[types.V1Block](p, transmitted("ParentID", "Nonce", "Timestamp", "MinerPayouts", "Transactions")),
		std[types.V2Block](p, multiproof),
		std[types.V2TransactionsMultiproof](p, multiproof),
	}
}

func consensusEntries() []*Entry {
	const p = "consensus"
	return []*Entry{
		std[consensus.Work](p),
		std[consensus.ElementAccumulator](p),
		std[consensus.State](p),
		std[consensus.V1StorageProofSupplement](p),
		std[consensus.V1TransactionSupplement](p),
		std[consensus.V1BlockSupplement](p),
	}
}
