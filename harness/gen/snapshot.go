package gen

import (
	"encoding/hex"
	"encoding/json"
	"errors"
	"fmt"
	"reflect"
	"strconv"
	"time"
	"unicode/utf8"

	"go.sia.tech/core/consensus"
	"go.sia.tech/core/types"
)

// Dump turns any generated value into a JSON-serialisable tree without using
// any marshaler of the library (so that a replay does not depend on the code
// under test):
//
//	bool -> bool; integers -> decimal string; string -> string (or {"hex":..} if not UTF-8)
//	[N]byte / []byte -> hex string (nil []byte -> null); other slices/arrays -> list (nil -> null)
//	struct -> object of its exported fields; pointer -> null | value
//	interface -> null | {"type": <concrete type>, "value": ...}; error -> null | {"error": msg}
//	time.Time -> Unix seconds (decimal string); consensus.Work -> decimal string
func Dump(v reflect.Value) any {
	t := v.Type()
	switch t {
	case tTime:
		return strconv.FormatInt(v.Interface().(time.Time).Unix(), 10)
	case tPolicyAfter:
		return strconv.FormatInt(time.Time(v.Interface().(types.PolicyTypeAfter)).Unix(), 10)
	case tWork:
		return v.Interface().(consensus.Work).String()
	}
	switch t.Kind() {
	case reflect.Bool:
		return v.Bool()
	case reflect.Uint8, reflect.Uint16, reflect.Uint32, reflect.Uint64, reflect.Uint:
		return strconv.FormatUint(v.Uint(), 10)
	case reflect.Int8, reflect.Int16, reflect.Int32, reflect.Int64, reflect.Int:
		return strconv.FormatInt(v.Int(), 10)
	case reflect.String:
		return dumpString(v.String())
	case reflect.Array:
		if t.Elem().Kind() == reflect.Uint8 {
			b := make([]byte, v.Len())
			reflect.Copy(reflect.ValueOf(b), v)
			return hex.EncodeToString(b)
		}
		l := make([]any, v.Len())
		for i := range l {
			l[i] = Dump(v.Index(i))
		}
		return l
	case reflect.Slice:
		if v.IsNil() {
			return nil
		}
		if t.Elem().Kind() == reflect.Uint8 {
			return hex.EncodeToString(v.Bytes())
		}
		l := make([]any, v.Len())
		for i := range l {
			l[i] = Dump(v.Index(i))
		}
		return l
	case reflect.Struct:
		m := map[string]any{}
		for i := 0; i < t.NumField(); i++ {
			if t.Field(i).PkgPath != "" {
				continue
			}
			m[t.Field(i).Name] = Dump(v.Field(i))
		}
		return m
	case reflect.Pointer:
		if v.IsNil() {
			return nil
		}
		return Dump(v.Elem())
	case reflect.Interface:
		if v.IsNil() {
			return nil
		}
		if t == tError {
			return map[string]any{"error": dumpString(v.Interface().(error).Error())}
		}
		e := v.Elem()
		name := e.Type().String()
		if e.Kind() == reflect.Pointer {
			return map[string]any{"type": name, "value": Dump(e.Elem())}
		}
		return map[string]any{"type": name, "value": Dump(e)}
	}
	panic(fmt.Sprintf("gen.Dump: unsupported type %v", t))
}

// DumpJSON is Dump followed by json.Marshal.
func DumpJSON(v reflect.Value) json.RawMessage {
	b, err := json.Marshal(Dump(v))
	if err != nil {
		panic(err)
	}
	return b
}

// LoadJSON rebuilds a value of type t from DumpJSON output.
func LoadJSON(t reflect.Type, raw json.RawMessage) (reflect.Value, error) {
	var tree any
	if err := json.Unmarshal(raw, &tree); err != nil {
		return reflect.Value{}, err
	}
	v := reflect.New(t).Elem()
	if err := load(v, tree, ""); err != nil {
		return reflect.Value{}, err
	}
	return v, nil
}

func load(v reflect.Value, tree any, path string) error {
	t := v.Type()
	bad := func() error { return fmt.Errorf("gen.Load: %s: cannot load %T into %v", path, tree, t) }
	str := func() (string, bool) { s, ok := tree.(string); return s, ok }
	switch t {
	case tTime, tPolicyAfter:
		s, ok := str()
		if !ok {
			return bad()
		}
		sec, err := strconv.ParseInt(s, 10, 64)
		if err != nil {
			return bad()
		}
		tm := time.Unix(sec, 0)
		if sec == (time.Time{}).Unix() {
			tm = time.Time{} // the zero time (unused timestamp slots) keeps its exact representation
		}
		v.Set(reflect.ValueOf(tm).Convert(t))
		return nil
	case tWork:
		s, ok := str()
		if !ok {
			return bad()
		}
		var w consensus.Work
		if err := w.UnmarshalText([]byte(s)); err != nil {
			return bad()
		}
		v.Set(reflect.ValueOf(w))
		return nil
	}
	switch t.Kind() {
	case reflect.Bool:
		b, ok := tree.(bool)
		if !ok {
			return bad()
		}
		v.SetBool(b)
	case reflect.Uint8, reflect.Uint16, reflect.Uint32, reflect.Uint64, reflect.Uint:
		s, ok := str()
		if !ok {
			return bad()
		}
		u, err := strconv.ParseUint(s, 10, t.Bits())
		if err != nil {
			return bad()
		}
		v.SetUint(u)
	case reflect.Int8, reflect.Int16, reflect.Int32, reflect.Int64, reflect.Int:
		s, ok := str()
		if !ok {
			return bad()
		}
		i, err := strconv.ParseInt(s, 10, t.Bits())
		if err != nil {
			return bad()
		}
		v.SetInt(i)
	case reflect.String:
		x, ok := loadString(tree)
		if !ok {
			return bad()
		}
		v.SetString(x)
	case reflect.Array:
		if t.Elem().Kind() == reflect.Uint8 {
			s, ok := str()
			if !ok {
				return bad()
			}
			b, err := hex.DecodeString(s)
			if err != nil || len(b) != t.Len() {
				return bad()
			}
			reflect.Copy(v, reflect.ValueOf(b))
			return nil
		}
		l, ok := tree.([]any)
		if !ok || len(l) != t.Len() {
			return bad()
		}
		for i := range l {
			if err := load(v.Index(i), l[i], fmt.Sprintf("%s[%d]", path, i)); err != nil {
				return err
			}
		}
	case reflect.Slice:
		if tree == nil {
			return nil
		}
		if t.Elem().Kind() == reflect.Uint8 {
			s, ok := str()
			if !ok {
				return bad()
			}
			b, err := hex.DecodeString(s)
			if err != nil {
				return bad()
			}
			if b == nil {
				b = []byte{}
			}
			v.Set(reflect.ValueOf(b).Convert(t))
			return nil
		}
		l, ok := tree.([]any)
		if !ok {
			return bad()
		}
		s := reflect.MakeSlice(t, len(l), len(l))
		for i := range l {
			if err := load(s.Index(i), l[i], fmt.Sprintf("%s[%d]", path, i)); err != nil {
				return err
			}
		}
		v.Set(s)
	case reflect.Struct:
		m, ok := tree.(map[string]any)
		if !ok {
			return bad()
		}
		for i := 0; i < t.NumField(); i++ {
			f := t.Field(i)
			if f.PkgPath != "" {
				continue
			}
			sub, present := m[f.Name]
			if !present {
				return fmt.Errorf("gen.Load: %s: field %s missing", path, f.Name)
			}
			if err := load(v.Field(i), sub, path+"."+f.Name); err != nil {
				return err
			}
		}
	case reflect.Pointer:
		if tree == nil {
			return nil
		}
		p := reflect.New(t.Elem())
		if err := load(p.Elem(), tree, path); err != nil {
			return err
		}
		v.Set(p)
	case reflect.Interface:
		if tree == nil {
			return nil
		}
		m, ok := tree.(map[string]any)
		if !ok {
			return bad()
		}
		if t == tError {
			msg, ok := loadString(m["error"])
			if !ok {
				return bad()
			}
			v.Set(reflect.ValueOf(errors.New(msg)))
			return nil
		}
		name, _ := m["type"].(string)
		for _, ct := range variants[t] {
			if ct.String() != name {
				continue
			}
			if ct.Kind() == reflect.Pointer {
				p := reflect.New(ct.Elem())
				if err := load(p.Elem(), m["value"], path); err != nil {
					return err
				}
				v.Set(p)
			} else {
				c := reflect.New(ct).Elem()
				if err := load(c, m["value"], path); err != nil {
					return err
				}
				v.Set(c)
			}
			return nil
		}
		return fmt.Errorf("gen.Load: %s: unknown variant %q of %v", path, name, t)
	default:
		return bad()
	}
	return nil
}

func dumpString(s string) any {
	if utf8.ValidString(s) {
		return s
	}
	return map[string]any{"hex": hex.EncodeToString([]byte(s))}
}

func loadString(tree any) (string, bool) {
	switch x := tree.(type) {
	case string:
		return x, true
	case map[string]any:
		h, _ := x["hex"].(string)
		b, err := hex.DecodeString(h)
		return string(b), err == nil
	}
	return "", false
}
