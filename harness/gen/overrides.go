package gen

import (
	"errors"
	"math"
	"math/big"
	"reflect"
	"time"

	"go.sia.tech/core/consensus"
	"go.sia.tech/core/types"
)

// ---------------------------------------------------------------- interface variants

var variants = map[reflect.Type][]reflect.Type{}

// RegisterVariants declares the concrete types an interface-typed field may hold.
// The first one is the Minimal variant.
func RegisterVariants(iface reflect.Type, concrete ...reflect.Type) {
	variants[iface] = append(variants[iface], concrete...)
}

// Variants lists the concrete types registered for an interface type.
func Variants(iface reflect.Type) []reflect.Type { return variants[iface] }

func typeOf[T any]() reflect.Type {
	var z *T
	return reflect.TypeOf(z).Elem()
}

var (
	tTime        = typeOf[time.Time]()
	tCurrency    = typeOf[types.Currency]()
	tPolicy      = typeOf[types.SpendPolicy]()
	tPolicyIf    = tPolicy.Field(0).Type
	tResolution  = typeOf[types.V2FileContractResolutionType]()
	tError       = typeOf[error]()
	tWork        = typeOf[consensus.Work]()
	tStateElem   = typeOf[types.StateElement]()
	tState       = typeOf[consensus.State]()
	tAcc         = typeOf[consensus.ElementAccumulator]()
	tNetworkPtr  = typeOf[*consensus.Network]()
	tRevision    = typeOf[types.FileContractRevision]()
	tThreshold   = typeOf[types.PolicyTypeThreshold]()
	tPolicyAfter = typeOf[types.PolicyTypeAfter]()
)

// PayoutSentinel is what every decoder stores in FileContractRevision.Payout.
var PayoutSentinel = types.NewCurrency(math.MaxUint64, math.MaxUint64)

func init() {
	RegisterOverride(tTime, func(c *Ctx) reflect.Value { return reflect.ValueOf(c.Time()) })
	RegisterOverride(typeOf[time.Duration](), func(c *Ctx) reflect.Value {
		// durations are encoded as uint64(int64): any int64 is representable
		return reflect.ValueOf(time.Duration(int64(c.U64())))
	})

	for _, t := range []reflect.Type{tCurrency, typeOf[types.V1Currency](), typeOf[types.V2Currency]()} {
		t := t
		RegisterOverride(t, func(c *Ctx) reflect.Value { return reflect.ValueOf(c.Currency()).Convert(t) })
	}

	RegisterVariants(tPolicyIf,
		typeOf[types.PolicyTypeAbove](), typeOf[types.PolicyTypeAfter](), typeOf[types.PolicyTypePublicKey](),
		typeOf[types.PolicyTypeHash](), tThreshold, typeOf[types.PolicyTypeOpaque](),
		typeOf[types.PolicyTypeUnlockConditions]())
	RegisterOverride(tPolicy, func(c *Ctx) reflect.Value { return reflect.ValueOf(c.Policy()) })
	RegisterMinimal(tPolicy, func() reflect.Value { return reflect.ValueOf(types.PolicyAbove(0)) })
	RegisterMinimal(tPolicyIf, func() reflect.Value {
		v := reflect.New(tPolicyIf).Elem()
		v.Set(reflect.ValueOf(types.PolicyTypeAbove(0)))
		return v
	})

	RegisterVariants(tResolution,
		typeOf[*types.V2FileContractRenewal](), typeOf[*types.V2StorageProof](), typeOf[*types.V2FileContractExpiration]())
	RegisterOverride(tResolution, func(c *Ctx) reflect.Value {
		v := reflect.New(tResolution).Elem()
		vs := variants[tResolution]
		ct := vs[c.Intn(len(vs))]
		p := reflect.New(ct.Elem())
		p.Elem().Set(c.Value(ct.Elem()))
		v.Set(p)
		return v
	})
	RegisterMinimal(tResolution, func() reflect.Value {
		v := reflect.New(tResolution).Elem()
		v.Set(reflect.ValueOf(new(types.V2FileContractExpiration)))
		return v
	})

	RegisterVariants(tError, reflect.TypeOf(errors.New("x")))
	RegisterOverride(tError, func(c *Ctx) reflect.Value {
		v := reflect.New(tError).Elem()
		if c.Intn(3) == 0 {
			return v // nil
		}
		s := c.String()
		if s == "" {
			s = "e"
		}
		v.Set(reflect.ValueOf(errors.New(s)))
		return v
	})
	RegisterMinimal(tError, func() reflect.Value { return reflect.New(tError).Elem() })

	RegisterOverride(tWork, func(c *Ctx) reflect.Value {
		var b [32]byte
		c.Fill(b[:])
		return reflect.ValueOf(WorkFromBytes(b))
	})

	RegisterOverride(tStateElem, func(c *Ctx) reflect.Value {
		var se types.StateElement // `shared` is never touched
		switch c.Intn(8) {
		case 0:
			se.LeafIndex = types.UnassignedLeafIndex
		case 1, 2:
			se.LeafIndex = uint64(c.Intn(1000))
		default:
			se.LeafIndex = c.U64()
		}
		if n := c.Len(); n >= 0 {
			se.MerkleProof = make([]types.Hash256, n)
			for i := range se.MerkleProof {
				c.Fill(se.MerkleProof[i][:])
			}
		}
		return reflect.ValueOf(se)
	})

	RegisterOverride(tNetworkPtr, func(c *Ctx) reflect.Value {
		if c.O.NoGarbage || c.Intn(4) != 0 {
			return reflect.Zero(tNetworkPtr)
		}
		return reflect.ValueOf(&consensus.Network{Name: "not-transmitted", MaturityDelay: 7})
	})

	RegisterOverride(tAcc, func(c *Ctx) reflect.Value {
		var acc consensus.ElementAccumulator
		acc.NumLeaves = c.U64()
		garbage := !c.O.NoGarbage && c.Intn(4) == 0
		for i := range acc.Trees {
			if acc.NumLeaves&(1<<uint(i)) != 0 || garbage {
				FillSeed(acc.Trees[i][:], c.Seed())
			}
		}
		return reflect.ValueOf(acc)
	})

	RegisterPost(tState, func(c *Ctx, v reflect.Value) {
		s := v.Addr().Interface().(*consensus.State)
		switch c.Intn(6) {
		case 0:
			s.Index.Height = math.MaxUint64 // genesis parent state: childHeight 0, no timestamps
		case 1, 2, 3:
			s.Index.Height = uint64(c.Intn(13))
		}
		n := NumTimestamps(s.Index.Height)
		garbage := !c.O.NoGarbage && c.Intn(4) == 0
		for i := n; i < len(s.PrevTimestamps); i++ {
			if !garbage {
				s.PrevTimestamps[i] = time.Time{}
			}
		}
	})

	RegisterPost(tRevision, func(c *Ctx, v reflect.Value) {
		if c.O.NoGarbage || c.Intn(3) == 0 {
			v.Addr().Interface().(*types.FileContractRevision).Payout = PayoutSentinel
		}
	})
}

// NumTimestamps is min(height+1, 11) with the library's wrap-around at the
// genesis parent state (height 2^64-1 -> 0).
func NumTimestamps(height uint64) int {
	child := height + 1
	if child < 11 {
		return int(child)
	}
	return 11
}

// WorkFromBytes builds a consensus.Work (unexported state) through its text form.
func WorkFromBytes(b [32]byte) consensus.Work {
	var w consensus.Work
	if err := w.UnmarshalText([]byte(new(big.Int).SetBytes(b[:]).String())); err != nil {
		panic("gen: Work.UnmarshalText: " + err.Error())
	}
	return w
}

// WorkBytes returns the 256-bit big-endian value of w (through its text form).
func WorkBytes(w consensus.Work) (b [32]byte) {
	i, ok := new(big.Int).SetString(w.String(), 10)
	if !ok {
		panic("gen: Work.String not decimal")
	}
	i.FillBytes(b[:])
	return
}

// Currency draws a boundary-biased currency value.
func (c *Ctx) Currency() types.Currency {
	switch c.Intn(16) {
	case 0:
		return types.ZeroCurrency
	case 1:
		return types.NewCurrency64(1)
	case 2:
		return types.NewCurrency64(math.MaxUint64)
	case 3:
		return types.NewCurrency(0, 1) // 2^64
	case 4:
		return types.NewCurrency(0, 1<<63) // 2^127
	case 5:
		return types.NewCurrency(math.MaxUint64, math.MaxUint64) // 2^128-1
	case 6:
		return types.NewCurrency(math.MaxUint64, math.MaxUint64>>1) // 2^127-1
	case 7:
		// 2^k for any k
		k := uint(c.Intn(128))
		if k < 64 {
			return types.NewCurrency(1<<k, 0)
		}
		return types.NewCurrency(0, 1<<(k-64))
	case 8:
		// 2^k - 1
		k := uint(1 + c.Intn(128))
		if k <= 64 {
			return types.NewCurrency(math.MaxUint64>>(64-k), 0)
		}
		return types.NewCurrency(math.MaxUint64, math.MaxUint64>>(128-k))
	case 9:
		// byte boundary of the trimmed big-endian v1 form: 2^(8k) and 2^(8k)-1
		k := uint(8 * (1 + c.Intn(15)))
		var lo, hi uint64
		if k < 64 {
			lo = 1 << k
		} else {
			hi = 1 << (k - 64)
		}
		cur := types.NewCurrency(lo, hi)
		if c.Bool() {
			cur = cur.Sub(types.NewCurrency64(1))
		}
		return cur
	case 10:
		return types.Siacoins(uint32(c.Intn(1 << 20)))
	default:
		// random bit length
		n := uint(c.Intn(129))
		lo, hi := c.Seed(), c.Seed()
		switch {
		case n == 0:
			return types.ZeroCurrency
		case n <= 64:
			hi = 0
			if n < 64 {
				lo &= 1<<n - 1
			}
			lo |= 1 << (n - 1)
		default:
			m := n - 64
			if m < 64 {
				hi &= 1<<m - 1
			}
			hi |= 1 << (m - 1)
		}
		return types.NewCurrency(lo, hi)
	}
}

// UnlockKey draws an unlock key: ed25519 (32 bytes), entropy, unknown algorithm, odd key lengths.
func (c *Ctx) UnlockKey() types.UnlockKey {
	var uk types.UnlockKey
	switch c.Intn(6) {
	case 0, 1, 2:
		uk.Algorithm = types.SpecifierEd25519
		uk.Key = make([]byte, 32)
		c.Fill(uk.Key)
	case 3:
		uk.Algorithm = types.SpecifierEntropy
		uk.Key = c.Bytes()
	default:
		c.Fill(uk.Algorithm[:])
		uk.Key = c.Bytes()
	}
	return uk
}

// UnlockConditions draws v1 unlock conditions.
func (c *Ctx) UnlockConditions() types.UnlockConditions {
	return c.Value(typeOf[types.UnlockConditions]()).Interface().(types.UnlockConditions)
}

// Policy draws a spend policy over all seven kinds with bounded depth and breadth.
func (c *Ctx) Policy() types.SpendPolicy {
	if c.Intn(24) == 0 {
		// a chain of d nested thresholds; the decoder allows the innermost
		// policy at depth <= 32 (TestPolicyMaxDepth), so d ranges over 1..32
		d := 1 + c.Intn(32)
		if c.Intn(4) == 0 {
			d = 32
		}
		p := c.policy(0, false)
		for i := 0; i < d; i++ {
			p = types.PolicyThreshold(uint8(c.Intn(2)), []types.SpendPolicy{p})
		}
		return p
	}
	return c.policy(c.O.PolicyDepth, true)
}

func (c *Ctx) policy(depth int, root bool) types.SpendPolicy {
	k := c.Intn(9)
	if depth <= 0 || !c.Take(1) {
		if k == 4 || k == 7 || k == 8 {
			k = c.Intn(4)
		}
	}
	switch k {
	case 0:
		return types.PolicyAbove(c.U64())
	case 1:
		return types.PolicyAfter(c.Time())
	case 2:
		var pk types.PublicKey
		c.Fill(pk[:])
		return types.PolicyPublicKey(pk)
	case 3:
		var h types.Hash256
		c.Fill(h[:])
		return types.PolicyHash(h)
	case 5:
		var a types.Address
		c.Fill(a[:])
		return types.SpendPolicy{Type: types.PolicyTypeOpaque(a)}
	case 6:
		if c.O.TopLevelUC && !root {
			return types.PolicyAbove(c.U64())
		}
		return types.SpendPolicy{Type: types.PolicyTypeUnlockConditions(c.UnlockConditions())}
	default: // 4, 7, 8: threshold
		var of []types.SpendPolicy
		var n int
		switch j := c.Intn(16); {
		case j == 0:
			n = -1 // nil Of
		case j == 1:
			n = 0
		case j == 2 && c.fuel >= 255:
			n = 255 // the wire limit (count is one byte)
			c.fuel -= 255
		default:
			n = 1 + c.Intn(c.O.MaxLen+1)
		}
		if n >= 0 {
			of = make([]types.SpendPolicy, n)
			wide := n > 16
			for i := range of {
				if wide {
					of[i] = types.PolicyAbove(uint64(i))
				} else {
					of[i] = c.policy(depth-1, false)
				}
			}
		}
		var thr uint8
		switch c.Intn(4) {
		case 0:
			thr = uint8(c.Intn(256))
		case 1:
			thr = 0
		default:
			if len(of) > 0 {
				thr = uint8(c.Intn(len(of) + 1))
			}
		}
		return types.PolicyThreshold(thr, of)
	}
}
