package gen

import (
	"errors"
	"fmt"
	"reflect"
	"strconv"
	"strings"
	"time"

	"go.sia.tech/core/consensus"
	"go.sia.tech/core/gateway"
	"go.sia.tech/core/types"
	"pgregory.net/rapid"
)

// A Step is one component of a Path.
type Step struct {
	Field string // struct field name, or
	Index int    // slice/array index (when Field == ""), or
	Op    string // terminal structural operation: "#len", "#nil", "#kind"
}

// A Path addresses a leaf of a value. Pointers and interfaces are traversed
// implicitly. String form: SiacoinInputs[0].UnlockConditions.PublicKeys#len
type Path []Step

func (p Path) String() string {
	var sb strings.Builder
	for i, s := range p {
		switch {
		case s.Op != "":
			sb.WriteString(s.Op)
		case s.Field != "":
			if i > 0 {
				sb.WriteByte('.')
			}
			sb.WriteString(s.Field)
		default:
			sb.WriteByte('[')
			sb.WriteString(strconv.Itoa(s.Index))
			sb.WriteByte(']')
		}
	}
	return sb.String()
}

// Shape is String with indices replaced by [] (for labels and distinct counting).
func (p Path) Shape() string {
	var sb strings.Builder
	for i, s := range p {
		switch {
		case s.Op != "":
			sb.WriteString(s.Op)
		case s.Field != "":
			if i > 0 {
				sb.WriteByte('.')
			}
			sb.WriteString(s.Field)
		default:
			sb.WriteString("[]")
		}
	}
	return sb.String()
}

// Has reports whether the path passes through a field called name.
func (p Path) Has(name string) bool {
	for _, s := range p {
		if s.Field == name {
			return true
		}
	}
	return false
}

// Last returns the last field name on the path ("" if none).
func (p Path) Last() string {
	for i := len(p) - 1; i >= 0; i-- {
		if p[i].Field != "" {
			return p[i].Field
		}
	}
	return ""
}

func (p Path) with(s Step) Path {
	q := make(Path, len(p)+1)
	copy(q, p)
	q[len(p)] = s
	return q
}

func isLeafType(t reflect.Type) bool {
	if t == tTime || t == tWork || t == tPolicyAfter {
		return true
	}
	switch t.Kind() {
	case reflect.Bool, reflect.String,
		reflect.Uint8, reflect.Uint16, reflect.Uint32, reflect.Uint64, reflect.Uint,
		reflect.Int8, reflect.Int16, reflect.Int32, reflect.Int64, reflect.Int:
		return true
	case reflect.Array, reflect.Slice:
		return t.Elem().Kind() == reflect.Uint8
	}
	return false
}

// Fields enumerates the leaf paths of v: every scalar, byte string, time and
// opaque value, plus one structural leaf per slice ("#len"), pointer ("#nil")
// and interface ("#kind"). Unexported fields are not enumerated.
func Fields(v reflect.Value) []Path {
	var out []Path
	walkFields(v, nil, &out)
	return out
}

func walkFields(v reflect.Value, p Path, out *[]Path) {
	t := v.Type()
	if isLeafType(t) {
		*out = append(*out, p)
		return
	}
	switch t.Kind() {
	case reflect.Struct:
		for i := 0; i < t.NumField(); i++ {
			if t.Field(i).PkgPath != "" {
				continue
			}
			walkFields(v.Field(i), p.with(Step{Field: t.Field(i).Name}), out)
		}
	case reflect.Slice:
		*out = append(*out, p.with(Step{Op: "#len"}))
		for i := 0; i < v.Len(); i++ {
			walkFields(v.Index(i), p.with(Step{Index: i}), out)
		}
	case reflect.Array:
		for i := 0; i < v.Len(); i++ {
			walkFields(v.Index(i), p.with(Step{Index: i}), out)
		}
	case reflect.Pointer:
		*out = append(*out, p.with(Step{Op: "#nil"}))
		if !v.IsNil() {
			walkFields(v.Elem(), p, out)
		}
	case reflect.Interface:
		if t == tError {
			*out = append(*out, p)
			return
		}
		*out = append(*out, p.with(Step{Op: "#kind"}))
		if !v.IsNil() {
			e := v.Elem()
			if e.Kind() == reflect.Pointer {
				if !e.IsNil() {
					walkFields(e.Elem(), p, out)
				}
			} else {
				walkFields(e, p, out)
			}
		}
	}
}

// Mutate applies a minimal mutation at path p of the addressable value root,
// drawing the mutation seed from t.
func Mutate(t *rapid.T, root reflect.Value, p Path) error {
	return MutateAt(root, p, rapid.Uint64().Draw(t, "mut"))
}

// MutateAt applies a minimal deterministic mutation at path p of the addressable
// value root: scalars +1 (wrapping) or bit flip, byte strings one flipped bit (or
// one appended byte when empty), strings one appended/changed byte, times +1 s,
// Work +1, "#len" append a Minimal element (or drop the last one), "#nil" toggle,
// "#kind" next variant. Interface payloads held by value are replaced by a
// mutated copy.
func MutateAt(root reflect.Value, p Path, seed uint64) error {
	if !root.CanSet() {
		return errors.New("gen: MutateAt needs an addressable root")
	}
	return mutate(root, p, seed)
}

func mutate(v reflect.Value, p Path, seed uint64) error {
	t := v.Type()
	// implicit traversal
	switch t.Kind() {
	case reflect.Pointer:
		if len(p) == 1 && p[0].Op == "#nil" {
			if v.IsNil() {
				n := reflect.New(t.Elem())
				n.Elem().Set(Minimal(t.Elem()))
				v.Set(n)
			} else {
				v.Set(reflect.Zero(t))
			}
			return nil
		}
		if v.IsNil() {
			return fmt.Errorf("gen: path %v crosses a nil pointer", p)
		}
		// copy the pointee so that the original value is not aliased
		n := reflect.New(t.Elem())
		n.Elem().Set(v.Elem())
		if err := mutate(n.Elem(), p, seed); err != nil {
			return err
		}
		v.Set(n)
		return nil
	case reflect.Interface:
		if t == tError && len(p) == 0 {
			if v.IsNil() {
				v.Set(reflect.ValueOf(errors.New("x")))
			} else {
				v.Set(reflect.ValueOf(errors.New(v.Interface().(error).Error() + "x")))
			}
			return nil
		}
		vs := variants[t]
		if len(p) == 1 && p[0].Op == "#kind" {
			if len(vs) < 2 {
				return fmt.Errorf("gen: no second variant for %v", t)
			}
			cur := -1
			if !v.IsNil() {
				for i, ct := range vs {
					if ct == v.Elem().Type() {
						cur = i
					}
				}
			}
			next := vs[(cur+1+int(seed%uint64(len(vs)-1)))%len(vs)]
			if next == v.Elem().Type() {
				next = vs[(cur+1)%len(vs)]
			}
			if next.Kind() == reflect.Pointer {
				n := reflect.New(next.Elem())
				n.Elem().Set(Minimal(next.Elem()))
				v.Set(n)
			} else {
				v.Set(Minimal(next))
			}
			return nil
		}
		if v.IsNil() {
			return fmt.Errorf("gen: path %v crosses a nil interface", p)
		}
		e := v.Elem()
		if e.Kind() == reflect.Pointer {
			// copy the pointee so that the original value is not aliased
			n := reflect.New(e.Type().Elem())
			n.Elem().Set(e.Elem())
			if err := mutate(n.Elem(), p, seed); err != nil {
				return err
			}
			v.Set(n)
			return nil
		}
		c := reflect.New(e.Type()).Elem()
		c.Set(e)
		if err := mutate(c, p, seed); err != nil {
			return err
		}
		v.Set(c)
		return nil
	}
	if len(p) == 0 {
		return mutateLeaf(v, seed)
	}
	s := p[0]
	switch {
	case s.Op == "#len":
		if t.Kind() != reflect.Slice {
			return fmt.Errorf("gen: #len on %v", t)
		}
		n := v.Len()
		limit := 1 << 30
		if t == reflect.SliceOf(tPolicy) {
			limit = 255
		}
		if n > 0 && (seed&1 == 1 || n >= limit) {
			c := reflect.MakeSlice(t, n-1, n-1)
			reflect.Copy(c, v)
			v.Set(c)
			return nil
		}
		c := reflect.MakeSlice(t, n+1, n+1)
		reflect.Copy(c, v)
		c.Index(n).Set(Minimal(t.Elem()))
		v.Set(c)
		return nil
	case s.Op != "":
		return fmt.Errorf("gen: operation %s does not apply to %v", s.Op, t)
	case s.Field != "":
		if t.Kind() != reflect.Struct {
			return fmt.Errorf("gen: field %s of non-struct %v", s.Field, t)
		}
		f := v.FieldByName(s.Field)
		if !f.IsValid() {
			return fmt.Errorf("gen: no field %s in %v", s.Field, t)
		}
		return mutate(f, p[1:], seed)
	default:
		if t.Kind() != reflect.Slice && t.Kind() != reflect.Array {
			return fmt.Errorf("gen: index into %v", t)
		}
		if s.Index >= v.Len() {
			return fmt.Errorf("gen: index %d out of range", s.Index)
		}
		if t.Kind() == reflect.Slice {
			// un-alias: mutate a copy of the backing array
			c := reflect.MakeSlice(t, v.Len(), v.Len())
			reflect.Copy(c, v)
			v.Set(c)
		}
		return mutate(v.Index(s.Index), p[1:], seed)
	}
}

func mutateLeaf(v reflect.Value, seed uint64) error {
	t := v.Type()
	switch t {
	case tTime:
		v.Set(reflect.ValueOf(time.Unix(v.Interface().(time.Time).Unix()+1, 0)))
		return nil
	case tPolicyAfter:
		tm := time.Time(v.Interface().(types.PolicyTypeAfter))
		v.Set(reflect.ValueOf(types.PolicyTypeAfter(time.Unix(tm.Unix()+1, 0))))
		return nil
	case tWork:
		b := WorkBytes(v.Interface().(consensus.Work))
		for i := 31; i >= 0; i-- { // +1 mod 2^256
			b[i]++
			if b[i] != 0 {
				break
			}
		}
		v.Set(reflect.ValueOf(WorkFromBytes(b)))
		return nil
	}
	switch t.Kind() {
	case reflect.Bool:
		v.SetBool(!v.Bool())
	case reflect.Uint8, reflect.Uint16, reflect.Uint32, reflect.Uint64, reflect.Uint:
		bits := uint(t.Bits())
		u := v.Uint()
		if seed&1 == 0 {
			u++
		} else {
			u ^= 1 << (uint(seed>>1) % bits)
		}
		if bits < 64 {
			u &= 1<<bits - 1
		}
		v.SetUint(u)
	case reflect.Int8, reflect.Int16, reflect.Int32, reflect.Int64, reflect.Int:
		bits := uint(t.Bits())
		u := uint64(v.Int()) ^ 1<<(uint(seed>>1)%bits)
		if bits < 64 {
			u &= 1<<bits - 1
			if u&(1<<(bits-1)) != 0 {
				u |= ^uint64(0) << bits
			}
		}
		v.SetInt(int64(u))
	case reflect.String:
		s := v.String()
		if len(s) == 0 || seed&1 == 0 {
			v.SetString(s + "x")
		} else {
			b := []byte(s)
			b[int(seed>>1)%len(b)] ^= 1
			v.SetString(string(b))
		}
	case reflect.Array:
		n := v.Len()
		if n == 0 {
			return errors.New("gen: empty array leaf")
		}
		i := int((seed >> 3) % uint64(n))
		e := v.Index(i)
		e.SetUint(e.Uint() ^ 1<<(seed&7))
	case reflect.Slice:
		n := v.Len()
		if n == 0 || seed&15 == 0 {
			c := reflect.MakeSlice(t, n+1, n+1)
			reflect.Copy(c, v)
			c.Index(n).SetUint(uint64(1 + seed>>8&0x7f))
			v.Set(c)
			return nil
		}
		c := reflect.MakeSlice(t, n, n)
		reflect.Copy(c, v)
		i := int((seed >> 4) % uint64(n))
		c.Index(i).SetUint(c.Index(i).Uint() ^ 1<<(seed&7))
		v.Set(c)
	default:
		return fmt.Errorf("gen: %v is not a leaf type", t)
	}
	return nil
}

// Get returns the value at path p (structural operations address their container).
func Get(v reflect.Value, p Path) (reflect.Value, error) {
	for len(p) > 0 {
		for v.Kind() == reflect.Pointer || v.Kind() == reflect.Interface && v.Type() != tError {
			if v.IsNil() {
				return v, fmt.Errorf("gen: nil on path")
			}
			v = v.Elem()
		}
		s := p[0]
		switch {
		case s.Op != "":
			return v, nil
		case s.Field != "":
			v = v.FieldByName(s.Field)
			if !v.IsValid() {
				return v, fmt.Errorf("gen: no field %s", s.Field)
			}
		default:
			if s.Index >= v.Len() {
				return v, fmt.Errorf("gen: index out of range")
			}
			v = v.Index(s.Index)
		}
		p = p[1:]
	}
	return v, nil
}

// NotTransmitted reports whether the leaf at path p of root is, by the
// documentation (DESIGN Appendix C), not carried by entry e's encoding, with
// the reason. Anything not listed here must influence the bytes.
func NotTransmitted(e *Entry, root reflect.Value, p Path) (bool, string) {
	if len(p) > 0 && p[0].Field != "" && !e.TransmitsField(p[0].Field) {
		return true, "field belongs to the other half of the exchange / is not part of this cast form"
	}
	// walk the path, looking at each container type on the way
	v := root
	for i := 0; i < len(p); i++ {
		for v.Kind() == reflect.Pointer || (v.Kind() == reflect.Interface && v.Type() != tError) {
			if v.IsNil() {
				return false, ""
			}
			v = v.Elem()
		}
		s := p[i]
		t := v.Type()
		switch {
		case s.Op != "":
			return false, ""
		case s.Field != "":
			switch {
			case t == tRevision && s.Field == "FileContract" && i+1 < len(p) && p[i+1].Field == "Payout":
				return true, "FileContractRevision.Payout is not transmitted (decoders store a sentinel)"
			case t == tState && s.Field == "Network":
				return true, "State.Network is not transmitted"
			case t == tState && s.Field == "PrevTimestamps" && i+1 < len(p) && p[i+1].Field == "" && p[i+1].Op == "":
				if p[i+1].Index >= NumTimestamps(v.Addr().Interface().(*consensus.State).Index.Height) {
					return true, "timestamp slot beyond min(height+1, 11) is not transmitted"
				}
			case t == tAcc && s.Field == "Trees" && i+1 < len(p) && p[i+1].Field == "" && p[i+1].Op == "":
				if v.Addr().Interface().(*consensus.ElementAccumulator).NumLeaves&(1<<uint(p[i+1].Index)) == 0 {
					return true, "accumulator tree for an unset bit of NumLeaves is not transmitted"
				}
			case t == tNoVersion && s.Field == "InstrReadRegistry" && i+1 < len(p) && p[i+1].Field == "Version":
				return true, "pre-1.5.7 read-registry form has no version byte"
			case t == tNoType && s.Field == "InstrUpdateRegistry" && i+1 < len(p) && p[i+1].Field == "EntryType":
				return true, "pre-1.5.7 update-registry form has no entry-type byte"
			case t == tOutlineTxn && s.Field == "Hash":
				ot := v.Addr().Interface().(*gateway.OutlineTransaction)
				if ot.Transaction != nil || ot.V2Transaction != nil {
					return true, "outline hash of a present transaction is derived from the transaction"
				}
			case t == tOutlineTxn && s.Field == "V2Transaction":
				if v.Addr().Interface().(*gateway.OutlineTransaction).Transaction != nil {
					return true, "an outline entry carries one transaction; the v1 one wins"
				}
			case e.Multiproof && s.Field == "StateElement" && inV2Parent(t):
				return true, "parent-element leaf index and Merkle proof travel as one multiproof (must stay valid for one accumulator state)"
			}
			v = v.FieldByName(s.Field)
			if !v.IsValid() {
				return false, ""
			}
		default:
			if s.Index >= v.Len() {
				return false, ""
			}
			v = v.Index(s.Index)
		}
	}
	return false, ""
}

func inV2Parent(t reflect.Type) bool {
	switch t {
	case typeOf[types.SiacoinElement](), typeOf[types.SiafundElement](), typeOf[types.V2FileContractElement](), typeOf[types.ChainIndexElement]():
		return true
	}
	return false
}
