package gen

import (
	"encoding/binary"
	"math/bits"
	"reflect"
	"sort"

	"go.sia.tech/core/types"
)

// Types whose encoding replaces the individual Merkle proofs of all v2 parent
// elements by one multiproof require the proofs to be valid for one accumulator
// state.  FixMultiproof rewrites the StateElements of a generated transaction set
// so that they are: distinct leaf indices below a drawn NumLeaves, proof lengths
// equal to the height of the leaf's tree, and proof hashes computed from a sparse
// forest whose untouched subtrees have pseudo-random roots.  Leaf hashes are
// recomputed with the reference encoder (refenc.go), not with the library.
// Some elements are made ephemeral (LeafIndex = UnassignedLeafIndex): those
// keep an arbitrary proof, which the multiproof form transmits verbatim.

type mpLeaf struct {
	se   *types.StateElement
	elem func() types.Hash256
	hash types.Hash256
}

func collectLeaves(txns []*types.V2Transaction) []mpLeaf {
	var ls []mpLeaf
	for _, txn := range txns {
		for i := range txn.SiacoinInputs {
			e := &txn.SiacoinInputs[i].Parent
			ls = append(ls, mpLeaf{se: &e.StateElement, elem: func() types.Hash256 { return RefSiacoinElementHash(*e) }})
		}
		for i := range txn.SiafundInputs {
			e := &txn.SiafundInputs[i].Parent
			ls = append(ls, mpLeaf{se: &e.StateElement, elem: func() types.Hash256 { return RefSiafundElementHash(*e) }})
		}
		for i := range txn.FileContractRevisions {
			e := &txn.FileContractRevisions[i].Parent
			ls = append(ls, mpLeaf{se: &e.StateElement, elem: func() types.Hash256 { return RefV2FileContractElementHash(*e) }})
		}
		for i := range txn.FileContractResolutions {
			e := &txn.FileContractResolutions[i].Parent
			ls = append(ls, mpLeaf{se: &e.StateElement, elem: func() types.Hash256 { return RefV2FileContractElementHash(*e) }})
			if sp, ok := txn.FileContractResolutions[i].Resolution.(*types.V2StorageProof); ok {
				ci := &sp.ProofIndex
				ls = append(ls, mpLeaf{se: &ci.StateElement, elem: func() types.Hash256 { return RefChainIndexElementHash(*ci) }})
			}
		}
	}
	return ls
}

// FixMultiproof makes the Merkle proofs of txns consistent with one forest.
func FixMultiproof(c *Ctx, txns []*types.V2Transaction) {
	all := collectLeaves(txns)
	var ls []mpLeaf
	for _, l := range all {
		if c.Intn(8) == 0 {
			l.se.LeafIndex = types.UnassignedLeafIndex // ephemeral: proof transmitted as is
			continue
		}
		ls = append(ls, l)
	}
	if len(ls) == 0 {
		return
	}
	k := uint64(len(ls))
	// number of leaves in the forest: often barely enough (leaves share trees and
	// sibling subtrees), sometimes large (tall trees, sparse), sometimes huge
	var n uint64
	switch c.Intn(6) {
	case 0:
		n = k
	case 1, 2:
		n = k + uint64(c.Intn(int(2*k)+2))
	case 3:
		n = k + uint64(c.Intn(1000))
	case 4:
		n = k + uint64(c.Intn(1<<20))
	default:
		n = k + c.Seed()%(1<<40)
	}
	// distinct leaf indices below n
	used := map[uint64]bool{}
	seed := c.Seed()
	for i := range ls {
		idx := splitmix(&seed) % n
		for used[idx] {
			idx = (idx + 1) % n
		}
		used[idx] = true
		ls[i].se.LeafIndex = idx
	}
	for i := range ls {
		ls[i].hash = RefLeafHash(ls[i].elem(), ls[i].se.LeafIndex, false)
		h := bits.Len64(ls[i].se.LeafIndex^n) - 1 // height of the tree holding this leaf
		ls[i].se.MerkleProof = make([]types.Hash256, h)
	}
	sort.Slice(ls, func(i, j int) bool { return ls[i].se.LeafIndex < ls[j].se.LeafIndex })
	fillSeed := c.Seed()
	filler := func(i, j uint64) types.Hash256 {
		var b [24]byte
		binary.LittleEndian.PutUint64(b[:], fillSeed)
		binary.LittleEndian.PutUint64(b[8:], i)
		binary.LittleEndian.PutUint64(b[16:], j)
		return RefH(b[:])
	}
	// root of the subtree [i, j) restricted to the involved leaves; fills proofs on the way up
	var root func(i, j uint64, in []mpLeaf) types.Hash256
	root = func(i, j uint64, in []mpLeaf) types.Hash256 {
		if len(in) == 0 {
			return filler(i, j)
		}
		if j-i == 1 {
			return in[0].hash
		}
		mid := i + (j-i)/2
		split := sort.Search(len(in), func(x int) bool { return in[x].se.LeafIndex >= mid })
		l, r := root(i, mid, in[:split]), root(mid, j, in[split:])
		level := bits.TrailingZeros64(j-i) - 1
		for _, x := range in[:split] {
			x.se.MerkleProof[level] = r
		}
		for _, x := range in[split:] {
			x.se.MerkleProof[level] = l
		}
		return refHash([]byte{1}, l[:], r[:])
	}
	for h := 0; h < 64; h++ {
		if n&(1<<uint(h)) == 0 {
			continue
		}
		start := n &^ (1<<uint(h+1) - 1)
		end := start + 1<<uint(h)
		lo := sort.Search(len(ls), func(x int) bool { return ls[x].se.LeafIndex >= start })
		hi := sort.Search(len(ls), func(x int) bool { return ls[x].se.LeafIndex >= end })
		if lo < hi {
			root(start, end, ls[lo:hi])
		}
	}
}

var (
	tMultiproof  = typeOf[types.V2TransactionsMultiproof]()
	tV2BlockData = typeOf[types.V2BlockData]()
)

func txnPtrs(txns []types.V2Transaction) []*types.V2Transaction {
	ps := make([]*types.V2Transaction, len(txns))
	for i := range txns {
		ps[i] = &txns[i]
	}
	return ps
}

func init() {
	RegisterPost(tMultiproof, func(c *Ctx, v reflect.Value) {
		FixMultiproof(c, txnPtrs(v.Interface().(types.V2TransactionsMultiproof)))
	})
	RegisterPost(tV2BlockData, func(c *Ctx, v reflect.Value) {
		FixMultiproof(c, txnPtrs(v.Addr().Interface().(*types.V2BlockData).Transactions))
	})
}
