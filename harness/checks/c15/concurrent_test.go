package c15

import (
	"testing"

	"verif/harness/stats"
)

// Currency arithmetic and text forms computed by several goroutines at once equal the ones computed alone (parsing and
// formatting share unit tables): see stats.PropConc.
func TestConcurrent(t *testing.T)     { stats.PropConc(t, drawOp, checkOp, 6, 25) }
func TestConcurrentText(t *testing.T) { stats.PropConc(t, drawText, checkText, 6, 25) }

func TestReplayConcurrent(t *testing.T)     { stats.Replay(t, "TestConcurrent", checkOp) }
func TestReplayConcurrentText(t *testing.T) { stats.Replay(t, "TestConcurrentText", checkText) }
