// C15 — Currency arithmetic is exact 128-bit arithmetic with faithful overflow
// reporting; text forms round-trip; parsing rejects negative, fractional-hasting
// and out-of-range inputs.  Oracle: math/big.
package c15

import (
	"bytes"
	"encoding/json"
	"fmt"
	"math/big"
	"math/bits"
	"strings"
	"testing"

	"go.sia.tech/core/types"
	"pgregory.net/rapid"
	"verif/harness/stats"
)

func TestMain(m *testing.M) { stats.Main(m) }

var (
	two64  = new(big.Int).Lsh(big.NewInt(1), 64)
	two128 = new(big.Int).Lsh(big.NewInt(1), 128)
	max128 = new(big.Int).Sub(two128, big.NewInt(1))
)

func toBig(c types.Currency) *big.Int {
	b := new(big.Int).SetUint64(c.Hi)
	b.Lsh(b, 64)
	return b.Or(b, new(big.Int).SetUint64(c.Lo))
}

func fromBig(b *big.Int) types.Currency {
	lo := new(big.Int).And(b, new(big.Int).Sub(two64, big.NewInt(1))).Uint64()
	hi := new(big.Int).Rsh(b, 64).Uint64()
	return types.NewCurrency(lo, hi)
}

// OpCase is one arithmetic case; operands are decimal strings so that replays are readable.
type OpCase struct {
	Op string `json:"op"`
	A  string `json:"a"`
	B  string `json:"b"` // Currency operand, or the uint64 operand for mul64/div64
}

func dec(s string) *big.Int {
	b, ok := new(big.Int).SetString(s, 10)
	if !ok {
		panic("bad decimal in case: " + s)
	}
	return b
}

// panics reports whether f panicked.
func panics(f func()) (p bool) {
	defer func() {
		if recover() != nil {
			p = true
		}
	}()
	f()
	return false
}

func near(b *big.Int) bool {
	for _, lim := range []*big.Int{two64, two128} {
		d := new(big.Int).Sub(b, lim)
		if d.CmpAbs(big.NewInt(2)) <= 0 {
			return true
		}
	}
	return false
}

// adjustBranch re-derives (for classification only) whether Div takes the
// trial-quotient path and whether the final quotient differs from the trial one.
func adjustBranch(c, v types.Currency) (trialPath, adjusted bool) {
	if v.Hi == 0 {
		return false, false
	}
	n := bits.LeadingZeros64(v.Hi)
	v1hi := v.Hi<<n | v.Lo>>(64-n)
	if n == 0 {
		v1hi = v.Hi
	}
	u1lo, u1hi := c.Lo>>1|c.Hi<<63, c.Hi>>1
	tq, _ := bits.Div64(u1hi, u1lo, v1hi)
	tq >>= 63 - n
	if tq != 0 {
		tq--
	}
	q := new(big.Int).Quo(toBig(c), toBig(v))
	return true, q.Cmp(new(big.Int).SetUint64(tq)) != 0
}

func checkOp(c OpCase) error {
	rec := stats.G()
	a := dec(c.A)
	b := dec(c.B)
	ca := fromBig(a)
	if toBig(ca).Cmp(a) != 0 {
		return stats.Failf("", "harness: operand a does not fit")
	}
	fail := func(format string, args ...any) error {
		return stats.Failf("C15/"+c.Op, "%s(%s, %s): %s", c.Op, c.A, c.B, fmt.Sprintf(format, args...))
	}
	nt := false
	var exact *big.Int
	switch c.Op {
	case "add", "sub", "mul", "div", "cmp":
		cb := fromBig(b)
		switch c.Op {
		case "add":
			exact = new(big.Int).Add(a, b)
			fits := exact.Cmp(max128) <= 0
			got, of := ca.AddWithOverflow(cb)
			if of == fits {
				return fail("overflow flag %v, exact result %s", of, exact)
			}
			if fits && toBig(got).Cmp(exact) != 0 {
				return fail("got %s want %s", toBig(got), exact)
			}
			var pv types.Currency
			if p := panics(func() { pv = ca.Add(cb) }); p == fits {
				return fail("Add panicked=%v, fits=%v", p, fits)
			} else if fits && pv != got {
				return fail("Add %v != AddWithOverflow %v", pv, got)
			}
			// commutativity as a second, independent relation
			if g2, of2 := cb.AddWithOverflow(ca); g2 != got || of2 != of {
				return fail("not commutative")
			}
		case "sub":
			exact = new(big.Int).Sub(a, b)
			fits := exact.Sign() >= 0
			got, uf := ca.SubWithUnderflow(cb)
			if uf == fits {
				return fail("underflow flag %v, exact result %s", uf, exact)
			}
			if fits && toBig(got).Cmp(exact) != 0 {
				return fail("got %s want %s", toBig(got), exact)
			}
			var pv types.Currency
			if p := panics(func() { pv = ca.Sub(cb) }); p == fits {
				return fail("Sub panicked=%v, fits=%v", p, fits)
			} else if fits && pv != got {
				return fail("Sub %v != SubWithUnderflow %v", pv, got)
			}
			exact = new(big.Int).Abs(exact)
		case "mul":
			exact = new(big.Int).Mul(a, b)
			fits := exact.Cmp(max128) <= 0
			got, of := ca.MulWithOverflow(cb)
			if of == fits {
				return fail("overflow flag %v, exact result %s", of, exact)
			}
			if fits && toBig(got).Cmp(exact) != 0 {
				return fail("got %s want %s", toBig(got), exact)
			}
			var pv types.Currency
			if p := panics(func() { pv = ca.Mul(cb) }); p == fits {
				return fail("Mul panicked=%v, fits=%v", p, fits)
			} else if fits && pv != got {
				return fail("Mul %v != MulWithOverflow %v", pv, got)
			}
			if g2, of2 := cb.MulWithOverflow(ca); of2 != of || (fits && g2 != got) {
				return fail("not commutative")
			}
		case "div":
			if b.Sign() == 0 {
				if !panics(func() { ca.Div(cb) }) {
					return fail("division by zero did not panic")
				}
				nt = true
				exact = big.NewInt(0)
				break
			}
			exact = new(big.Int).Quo(a, b)
			var got types.Currency
			if p, st := stats.NoPanic(func() { got = ca.Div(cb) }); p != nil {
				return fail("panic %v\n%s", p, st)
			}
			if toBig(got).Cmp(exact) != 0 {
				return fail("got %s want %s", toBig(got), exact)
			}
			trial, adj := adjustBranch(ca, cb)
			if trial {
				rec.Label("div:trial-quotient-path")
			}
			if adj {
				rec.Label("div:adjust-branch")
				nt = true
			}
		case "cmp":
			want := a.Cmp(b)
			if got := ca.Cmp(cb); got != want {
				return fail("got %d want %d", got, want)
			}
			if (ca.Equals(cb)) != (want == 0) || (ca == cb) != (want == 0) {
				return fail("Equals disagrees with Cmp")
			}
			if ca.IsZero() != (a.Sign() == 0) {
				return fail("IsZero wrong")
			}
			exact = new(big.Int).Sub(a, b)
			exact.Abs(exact)
			nt = exact.CmpAbs(big.NewInt(2)) <= 0 || (ca.Hi != cb.Hi && ca.Lo != cb.Lo && (ca.Hi < cb.Hi) != (ca.Lo < cb.Lo))
		}
	case "mul64":
		if !b.IsUint64() {
			return stats.Failf("", "harness: operand b is not uint64")
		}
		k := b.Uint64()
		exact = new(big.Int).Mul(a, b)
		fits := exact.Cmp(max128) <= 0
		got, of := ca.Mul64WithOverflow(k)
		if of == fits {
			return fail("overflow flag %v, exact result %s", of, exact)
		}
		if fits && toBig(got).Cmp(exact) != 0 {
			return fail("got %s want %s", toBig(got), exact)
		}
		var pv types.Currency
		if p := panics(func() { pv = ca.Mul64(k) }); p == fits {
			return fail("Mul64 panicked=%v, fits=%v", p, fits)
		} else if fits && pv != got {
			return fail("Mul64 %v != Mul64WithOverflow %v", pv, got)
		}
	case "div64":
		if !b.IsUint64() {
			return stats.Failf("", "harness: operand b is not uint64")
		}
		k := b.Uint64()
		if k == 0 {
			if !panics(func() { ca.Div64(0) }) {
				return fail("division by zero did not panic")
			}
			nt = true
			exact = big.NewInt(0)
			break
		}
		exact = new(big.Int).Quo(a, b)
		var got types.Currency
		if p, st := stats.NoPanic(func() { got = ca.Div64(k) }); p != nil {
			return fail("panic %v\n%s", p, st)
		}
		if toBig(got).Cmp(exact) != 0 {
			return fail("got %s want %s", toBig(got), exact)
		}
		nt = ca.Hi >= k // two-step division path
	default:
		return stats.Failf("", "harness: unknown op %q", c.Op)
	}
	if near(exact) {
		nt = true
	}
	rec.Case(stats.FP(c.Op, c.A, c.B), nt, "op:"+c.Op)
	if rec.WantSample() {
		rec.Sample(nt, c)
	}
	return nil
}

// ---- generators -------------------------------------------------------------------------

func boundary() []*big.Int {
	var out []*big.Int
	add := func(b *big.Int) {
		if b.Sign() >= 0 && b.Cmp(max128) <= 0 {
			out = append(out, b)
		}
	}
	pow := func(n uint) *big.Int { return new(big.Int).Lsh(big.NewInt(1), n) }
	for _, n := range []uint{0, 1, 31, 32, 33, 62, 63, 64, 65, 95, 96, 126, 127} {
		for d := int64(-2); d <= 2; d++ {
			add(new(big.Int).Add(pow(n), big.NewInt(d)))
		}
	}
	for d := int64(1); d <= 3; d++ {
		add(new(big.Int).Sub(two128, big.NewInt(d)))
	}
	ten24 := new(big.Int).Exp(big.NewInt(10), big.NewInt(24), nil)
	for _, k := range []int64{1, 2, 3, 300000, 340282366920938} {
		add(new(big.Int).Mul(ten24, big.NewInt(k)))
	}
	// high word set, low word extreme (carry / borrow chains)
	add(new(big.Int).Lsh(new(big.Int).SetUint64(^uint64(0)), 64))
	add(new(big.Int).Add(pow(64), new(big.Int).SetUint64(^uint64(0))))
	// dedupe
	seen := map[string]bool{}
	var u []*big.Int
	for _, b := range out {
		if !seen[b.String()] {
			seen[b.String()] = true
			u = append(u, b)
		}
	}
	return u
}

func boundary64() []uint64 {
	return []uint64{0, 1, 2, 3, 1<<31 - 1, 1 << 31, 1<<32 - 1, 1 << 32, 1<<32 + 1, 1<<63 - 1, 1 << 63, 1<<63 + 1, ^uint64(0) - 1, ^uint64(0), 10000, 1000000007}
}

var ops2 = []string{"add", "sub", "mul", "div", "cmp"}

// TestEnum: all pairs from the boundary set, every operation (exhaustive over the set).
func TestEnum(t *testing.T) {
	bs := boundary()
	shard, n := stats.Shard()
	i := 0
	for _, a := range bs {
		for _, b := range bs {
			for _, op := range ops2 {
				if i++; i%n != shard {
					continue
				}
				stats.Check(t, OpCase{Op: op, A: a.String(), B: b.String()}, checkOp)
			}
		}
		for _, k := range boundary64() {
			for _, op := range []string{"mul64", "div64"} {
				if i++; i%n != shard {
					continue
				}
				stats.Check(t, OpCase{Op: op, A: a.String(), B: new(big.Int).SetUint64(k).String()}, checkOp)
			}
		}
	}
	stats.G().Extra("enum_boundary_values", uint64(len(bs)))
	stats.G().Extra("enum_cases_total", uint64(i))
}

// genCur draws a currency with every bit length equally likely and boundary bias.
func genCur() *rapid.Generator[*big.Int] {
	return rapid.Custom(func(t *rapid.T) *big.Int {
		switch rapid.IntRange(0, 9).Draw(t, "kind") {
		case 0:
			bs := boundary()
			return bs[rapid.IntRange(0, len(bs)-1).Draw(t, "bi")]
		case 1: // 2^n + small delta
			n := rapid.IntRange(0, 127).Draw(t, "n")
			d := rapid.Int64Range(-3, 3).Draw(t, "d")
			b := new(big.Int).Add(new(big.Int).Lsh(big.NewInt(1), uint(n)), big.NewInt(d))
			if b.Sign() < 0 {
				b.SetInt64(0)
			}
			return b
		default:
			bl := rapid.IntRange(0, 128).Draw(t, "bitlen")
			hi := rapid.Uint64().Draw(t, "hi")
			lo := rapid.Uint64().Draw(t, "lo")
			b := new(big.Int).SetUint64(hi)
			b.Lsh(b, 64).Or(b, new(big.Int).SetUint64(lo))
			if bl < 128 {
				b.Rsh(b, uint(128-bl))
			}
			return b
		}
	})
}

func drawOp(t *rapid.T) OpCase {
	op := rapid.SampledFrom([]string{"add", "sub", "mul", "div", "div", "cmp", "mul64", "div64", "divq", "divw", "divw"}).Draw(t, "op")
	a := genCur().Draw(t, "a")
	switch op {
	case "divw":
		// a dividend in the top bits of the range (an "unlimited" budget, the largest currency) by a divisor only a little
		// wider than one word (a price): the long-division path whose trial quotient needs its correction step
		var c *big.Int
		switch rapid.IntRange(0, 3).Draw(t, "wTop") {
		case 0:
			c = new(big.Int).Set(max128)
		case 1:
			c = new(big.Int).Sub(max128, new(big.Int).SetUint64(rapid.Uint64().Draw(t, "wBelow")))
		default:
			c = new(big.Int).SetUint64(rapid.Uint64().Draw(t, "wHi") | 1<<uint(rapid.IntRange(61, 63).Draw(t, "wTopBit")))
			c.Lsh(c, 64).Or(c, new(big.Int).SetUint64(rapid.Uint64().Draw(t, "wLo")))
		}
		bits := rapid.IntRange(65, 100).Draw(t, "wBits")
		v := new(big.Int).SetUint64(rapid.Uint64().Draw(t, "wvHi"))
		v.Lsh(v, 64).Or(v, new(big.Int).SetUint64(rapid.Uint64().Draw(t, "wvLo")))
		v.Rsh(v, uint(128-bits)).SetBit(v, bits-1, 1)
		return OpCase{Op: "div", A: c.String(), B: v.String()}
	case "mul64", "div64":
		var k uint64
		if rapid.Bool().Draw(t, "kb") {
			k = rapid.SampledFrom(boundary64()).Draw(t, "k")
		} else {
			k = rapid.Uint64().Draw(t, "k") >> uint(rapid.IntRange(0, 63).Draw(t, "ks"))
		}
		return OpCase{Op: op, A: a.String(), B: new(big.Int).SetUint64(k).String()}
	case "divq":
		// engineered dividend c = q*v + r with v >= 2^64 and r in {0,1,v-1}: off-by-one neighbourhoods
		v := genCur().Draw(t, "v")
		if v.Cmp(two64) < 0 {
			v = new(big.Int).Add(v, two64)
		}
		qmax := new(big.Int).Quo(max128, v)
		q := new(big.Int).SetUint64(rapid.Uint64().Draw(t, "q"))
		if q.Cmp(qmax) > 0 {
			q.Mod(q, new(big.Int).Add(qmax, big.NewInt(1)))
		}
		r := big.NewInt(0)
		switch rapid.IntRange(0, 2).Draw(t, "r") {
		case 1:
			r = big.NewInt(1)
		case 2:
			r = new(big.Int).Sub(v, big.NewInt(1))
		}
		c := new(big.Int).Add(new(big.Int).Mul(q, v), r)
		if c.Cmp(max128) > 0 {
			c = new(big.Int).Mul(q, v)
		}
		if c.Cmp(max128) > 0 {
			c = new(big.Int).Set(max128)
		}
		return OpCase{Op: "div", A: c.String(), B: v.String()}
	}
	b := genCur().Draw(t, "b")
	return OpCase{Op: op, A: a.String(), B: b.String()}
}

func TestProp(t *testing.T) { stats.Prop(t, drawOp, checkOp) }

// ---- text forms ---------------------------------------------------------------------------

// TextCase: Kind selects round trip of a value ("rt"), exact scaled parsing
// ("scaled": V hastings written as a decimal number of Unit) or rejection ("reject").
type TextCase struct {
	Kind string `json:"kind"`
	V    string `json:"v"`
	Unit string `json:"unit,omitempty"`
	Text string `json:"text,omitempty"`
}

var unitExp = map[string]int{"H": 0, "pS": 12, "nS": 15, "uS": 18, "mS": 21, "SC": 24, "KS": 27, "MS": 30, "GS": 33, "TS": 36}
var unitNames = []string{"H", "pS", "nS", "uS", "mS", "SC", "KS", "MS", "GS", "TS"}

func checkText(c TextCase) error {
	rec := stats.G()
	fail := func(format string, args ...any) error {
		return stats.Failf("C15/text/"+c.Kind, "%s %s: %s", c.Kind, c.V+c.Unit+c.Text, fmt.Sprintf(format, args...))
	}
	switch c.Kind {
	case "rt":
		v := dec(c.V)
		cv := fromBig(v)
		forms := map[string]string{
			"%d":          fmt.Sprintf("%d", cv),
			"ExactString": cv.ExactString(),
			"String":      cv.String(),
			"%v":          fmt.Sprintf("%v", cv),
			"%s":          fmt.Sprintf("%s", cv),
		}
		mt, err := cv.MarshalText()
		if err != nil {
			return fail("MarshalText: %v", err)
		}
		forms["MarshalText"] = string(mt)
		if forms["%d"] != v.String() || forms["ExactString"] != v.String() {
			return fail("exact form %q / %q is not the decimal value", forms["%d"], forms["ExactString"])
		}
		for name, s := range forms {
			got, err := types.ParseCurrency(s)
			if err != nil {
				return fail("ParseCurrency(%s form %q): %v", name, s, err)
			}
			if got != cv {
				return fail("ParseCurrency(%s form %q) = %d", name, s, got)
			}
		}
		var ut types.Currency
		if err := ut.UnmarshalText(mt); err != nil || ut != cv {
			return fail("UnmarshalText(%q) = %d, %v", mt, ut, err)
		}
		// the same into variables that already hold something (a field decoded into repeatedly, a reused slice element):
		// what was there before does not show through, whichever text form arrives
		for _, before := range []types.Currency{types.NewCurrency(^uint64(0), 1<<40), types.NewCurrency(7, 1), types.MaxCurrency} {
			for name, s := range forms {
				used := before
				if err := used.UnmarshalText([]byte(s)); err != nil || used != cv {
					return stats.Failf("C15/text/used-receiver", "%s: UnmarshalText(%s form %q) into a variable holding %d gives %d, %v", c.V, name, s, before, used, err)
				}
			}
			usedJS := before
			if js, err := json.Marshal(cv); err != nil || json.Unmarshal(js, &usedJS) != nil || usedJS != cv {
				return stats.Failf("C15/text/used-receiver", "%s: json.Unmarshal into a variable holding %d gives %d", c.V, before, usedJS)
			}
		}
		js, err := json.Marshal(cv)
		if err != nil {
			return fail("json.Marshal: %v", err)
		}
		var uj types.Currency
		if err := json.Unmarshal(js, &uj); err != nil || uj != cv {
			return fail("json round trip via %s = %d, %v", js, uj, err)
		}
		type wrap struct {
			A types.Currency  `json:"a"`
			P *types.Currency `json:"p"`
		}
		wj, _ := json.Marshal(wrap{cv, &cv})
		var w wrap
		if err := json.Unmarshal(wj, &w); err != nil || w.A != cv || w.P == nil || *w.P != cv {
			return fail("json struct round trip via %s", wj)
		}
		// binary forms
		var buf bytes.Buffer
		e := types.NewEncoder(&buf)
		types.V1Currency(cv).EncodeTo(e)
		types.V2Currency(cv).EncodeTo(e)
		e.Flush()
		d := types.NewBufDecoder(buf.Bytes())
		var v1 types.V1Currency
		var v2 types.V2Currency
		v1.DecodeFrom(d)
		v2.DecodeFrom(d)
		if d.Err() != nil || types.Currency(v1) != cv || types.Currency(v2) != cv {
			return fail("binary round trip: %v %d %d", d.Err(), types.Currency(v1), types.Currency(v2))
		}
		if cv.Big().Cmp(v) != 0 {
			return fail("Big() = %s", cv.Big())
		}
		// the *big.Int is the caller's: doing arithmetic on it must not show in any later conversion
		mine := cv.Big()
		mine.Add(mine, big.NewInt(7)).Lsh(mine, 3)
		if again := cv.Big(); again.Cmp(v) != 0 || cv.String() != forms["String"] || cv.ExactString() != forms["ExactString"] {
			got, str, exact := again.String(), cv.String(), cv.ExactString()
			mine.Rsh(mine, 3).Sub(mine, big.NewInt(7)) // leave nothing behind for later cases
			return stats.Failf("C15/big-shared", "%s: after arithmetic on an earlier Big() result, Big() = %s, String() = %q, ExactString() = %q", c.V, got, str, exact)
		}
		s := forms["String"]
		nt := strings.Contains(s, ".") || strings.HasSuffix(s, "TS") || v.Cmp(max128) == 0
		rec.Case(stats.FP("rt", c.V), nt, "text:rt", "suffix:"+s[strings.LastIndexByte(s, ' ')+1:])
		if rec.WantSample() {
			rec.Sample(nt, map[string]any{"v": c.V, "String": s, "json": string(js)})
		}
	case "scaled":
		v := dec(c.V)
		exp := unitExp[c.Unit]
		digits := v.String()
		var text string
		if exp == 0 {
			text = digits
		} else {
			for len(digits) <= exp {
				digits = "0" + digits
			}
			text = digits[:len(digits)-exp] + "." + digits[len(digits)-exp:]
		}
		text += c.Text + c.Unit // c.Text is the separator ("" or " ")
		got, err := types.ParseCurrency(text)
		if err != nil {
			return fail("ParseCurrency(%q): %v", text, err)
		}
		if toBig(got).Cmp(v) != 0 {
			return fail("ParseCurrency(%q) = %d want %s", text, got, v)
		}
		rec.Case(stats.FP("scaled", text), exp > 0 && v.BitLen() > 64, "text:scaled", "unit:"+c.Unit)
	case "reject":
		var got types.Currency
		var err error
		if p, st := stats.NoPanic(func() { got, err = types.ParseCurrency(c.Text) }); p != nil {
			return fail("ParseCurrency(%q) panicked: %v\n%s", c.Text, p, st)
		}
		if err == nil {
			return fail("ParseCurrency(%q) accepted as %d (%s)", c.Text, got, c.V)
		}
		var u types.Currency
		if u.UnmarshalText([]byte(c.Text)) == nil {
			return fail("UnmarshalText(%q) accepted", c.Text)
		}
		if json.Unmarshal([]byte(`"`+c.Text+`"`), &u) == nil {
			return fail("json.Unmarshal(%q) accepted", c.Text)
		}
		rec.Case(stats.FP("reject", c.Text), true, "text:reject", "reject:"+c.V)
		if rec.WantSample() {
			rec.Sample(true, c)
		}
	default:
		return stats.Failf("", "harness: unknown kind")
	}
	return nil
}

func drawText(t *rapid.T) TextCase {
	switch rapid.IntRange(0, 3).Draw(t, "kind") {
	case 0:
		return TextCase{Kind: "rt", V: genCur().Draw(t, "v").String()}
	case 1:
		// value with few significant digits and many zeros so that unit suffixes are produced
		m := rapid.Uint64Range(0, 999999).Draw(t, "mant")
		e := rapid.IntRange(0, 38).Draw(t, "exp")
		v := new(big.Int).Mul(new(big.Int).SetUint64(m), new(big.Int).Exp(big.NewInt(10), big.NewInt(int64(e)), nil))
		if v.Cmp(max128) > 0 {
			v = new(big.Int).Set(max128)
		}
		return TextCase{Kind: "rt", V: v.String()}
	case 2:
		sep := rapid.SampledFrom([]string{"", " "}).Draw(t, "sep")
		return TextCase{Kind: "scaled", V: genCur().Draw(t, "v").String(), Unit: rapid.SampledFrom(unitNames).Draw(t, "unit"), Text: sep}
	}
	// rejection classes; each construction is rejected by the documented grammar
	cls := rapid.SampledFrom([]string{"negative", "fractional-hastings", "out-of-range", "unknown-unit", "not-a-number"}).Draw(t, "cls")
	unit := rapid.SampledFrom(unitNames).Draw(t, "unit")
	sep := rapid.SampledFrom([]string{"", " "}).Draw(t, "sep")
	var text string
	switch cls {
	case "negative":
		v := genCur().Draw(t, "v")
		if v.Sign() == 0 {
			v = big.NewInt(1)
		}
		text = "-" + v.String() + sep + unit
	case "fractional-hastings":
		// a decimal with more fractional digits than the unit has
		exp := unitExp[unit]
		frac := rapid.IntRange(exp+1, exp+6).Draw(t, "frac")
		lead := rapid.Uint64Range(0, 1000).Draw(t, "lead")
		last := rapid.IntRange(1, 9).Draw(t, "last") // non-zero last digit ⇒ genuinely fractional
		text = fmt.Sprintf("%d.%s%d%s%s", lead, strings.Repeat("0", frac-1), last, sep, unit)
	case "out-of-range":
		exp := unitExp[unit]
		over := new(big.Int).Add(two128, new(big.Int).SetUint64(rapid.Uint64().Draw(t, "over")))
		scale := new(big.Int).Exp(big.NewInt(10), big.NewInt(int64(exp)), nil)
		q := new(big.Int).Quo(over, scale)
		q.Add(q, big.NewInt(1)) // q*scale > 2^128
		text = q.String() + sep + unit
	case "unknown-unit":
		u := rapid.SampledFrom([]string{"sc", "S", "XS", "ks", "SCC", "siacoins", "hastings", "h", "PS", "Sc", "SC SC", "$"}).Draw(t, "u")
		text = fmt.Sprintf("%d%s%s", rapid.Uint64Range(0, 1000).Draw(t, "n"), sep, u)
	case "not-a-number":
		text = rapid.SampledFrom([]string{"", " ", "SC", "H", "abc", "--1", "1..2 SC", "1.2.3 SC", ".", ". SC", "+-1", "0x10", "1e", "1_0"}).Draw(t, "nan")
	}
	return TextCase{Kind: "reject", V: cls, Text: text}
}

func TestText(t *testing.T) { stats.Prop(t, drawText, checkText) }

// ---- replay -------------------------------------------------------------------------------

func TestReplay(t *testing.T) {
	stats.Replay(t, "TestProp", checkOp)
}
func TestReplayEnum(t *testing.T) {
	stats.Replay(t, "TestEnum", checkOp)
}
func TestReplayText(t *testing.T) {
	stats.Replay(t, "TestText", checkText)
}
