package c17

import (
	"testing"

	"verif/harness/stats"
)

// Constructors and cost functions called by several goroutines at once (each on its own case) give what they give
// alone: see stats.PropConc.
func TestConcurrentV1(t *testing.T)    { stats.PropConc(t, drawV1, checkV1, 6, 6) }
func TestConcurrentUsage(t *testing.T) { stats.PropConc(t, drawUsage, checkUsage, 6, 20) }

func TestReplayConcurrentV1(t *testing.T)    { stats.Replay(t, "TestConcurrentV1", checkV1) }
func TestReplayConcurrentUsage(t *testing.T) { stats.Replay(t, "TestConcurrentUsage", checkUsage) }
