package c17

// TestUsage: the RHP4 cost functions against math/big.
// TestV1:    rhp2 formation -> rhp3 PayByContract revisions -> rhp2 / rhp3 renewal, checked
//            against the consensus tax equation (own big-integer tax) and ValidateTransaction.

import (
	"bytes"
	"fmt"
	"math/big"
	"reflect"
	"testing"
	"time"

	"go.sia.tech/core/consensus"
	rhp2 "go.sia.tech/core/rhp/v2"
	rhp3 "go.sia.tech/core/rhp/v3"
	rhp4 "go.sia.tech/core/rhp/v4"
	"go.sia.tech/core/types"
	"pgregory.net/rapid"
	"verif/harness/gen"
	"verif/harness/stats"
)

// ---- usage --------------------------------------------------------------------------------

// UsageCase exercises every HostPrices.RPC*Cost method and the Usage algebra.
type UsageCase struct {
	Prices   PriceSpec `json:"prices"`
	Length   uint64    `json:"length"`
	Sectors  uint64    `json:"sectors"`
	Duration uint64    `json:"duration"`
	A        []string  `json:"a"`
	B        []string  `json:"b"`
	N        uint64    `json:"n"`
}

func usageFrom(s []string) (rhp4.Usage, bigUsage) {
	b := bigUsage{dec(s[0]), dec(s[1]), dec(s[2]), dec(s[3]), dec(s[4]), dec(s[5])}
	return rhp4.Usage{RPC: fromBig(b.RPC), Storage: fromBig(b.Storage), Egress: fromBig(b.Egress), Ingress: fromBig(b.Ingress),
		AccountFunding: fromBig(b.Fund), RiskedCollateral: fromBig(b.Risked)}, b
}

func checkUsage(c UsageCase) error {
	if len(c.A) != 6 || len(c.B) != 6 {
		return stats.Failf("", "harness: bad usage case")
	}
	p := bigPrices{dec(c.Prices.Contract), dec(c.Prices.Collateral), dec(c.Prices.Storage), dec(c.Prices.Ingress), dec(c.Prices.Egress), dec(c.Prices.FreeSector)}
	hp := rhp4.HostPrices{ContractPrice: fromBig(p.contract), Collateral: fromBig(p.collateral), StoragePrice: fromBig(p.storage),
		IngressPrice: fromBig(p.ingress), EgressPrice: fromBig(p.egress), FreeSectorPrice: fromBig(p.free)}
	cmp := func(name string, got rhp4.Usage, want bigUsage) error {
		if !usageOf(got).eq(want) {
			return failf("usage/"+name, "%s = %v, want %v (prices %+v, case %+v)", name, usageOf(got), want, c.Prices, c)
		}
		return nil
	}
	w := zeroUsage()
	w.Egress = mul(p.egress, round4K(c.Length))
	if err := cmp("RPCReadSectorCost", hp.RPCReadSectorCost(c.Length), w); err != nil {
		return err
	}
	w = zeroUsage()
	w.Storage = mul(p.storage, bu(sectorSize), big.NewInt(3*144))
	w.Ingress = mul(p.ingress, round4K(c.Length))
	if err := cmp("RPCWriteSectorCost", hp.RPCWriteSectorCost(c.Length), w); err != nil {
		return err
	}
	w = zeroUsage()
	w.Egress = mul(p.egress, round4K(32*c.Sectors))
	if err := cmp("RPCSectorRootsCost", hp.RPCSectorRootsCost(c.Sectors), w); err != nil {
		return err
	}
	w = zeroUsage()
	w.Egress = mul(p.egress, bu(sectorSize))
	if err := cmp("RPCVerifySectorCost", hp.RPCVerifySectorCost(), w); err != nil {
		return err
	}
	w = zeroUsage()
	w.RPC = mul(p.free, bu(c.Sectors))
	if err := cmp("RPCFreeSectorsCost", hp.RPCFreeSectorsCost(int(c.Sectors)), w); err != nil {
		return err
	}
	w = zeroUsage()
	w.Storage = mul(p.storage, bu(sectorSize), bu(c.Sectors), bu(c.Duration))
	w.Ingress = mul(p.ingress, round4K(32*c.Sectors))
	w.Risked = mul(p.collateral, bu(sectorSize), bu(c.Sectors), bu(c.Duration))
	if err := cmp("RPCAppendSectorsCost", hp.RPCAppendSectorsCost(c.Sectors, c.Duration), w); err != nil {
		return err
	}
	ua, ba := usageFrom(c.A)
	ub, bb := usageFrom(c.B)
	if err := cmp("Add", ua.Add(ub), bigUsage{sum(ba.RPC, bb.RPC), sum(ba.Storage, bb.Storage), sum(ba.Egress, bb.Egress),
		sum(ba.Ingress, bb.Ingress), sum(ba.Fund, bb.Fund), sum(ba.Risked, bb.Risked)}); err != nil {
		return err
	}
	n := bu(c.N)
	if err := cmp("Mul", ua.Mul(c.N), bigUsage{mul(ba.RPC, n), mul(ba.Storage, n), mul(ba.Egress, n), mul(ba.Ingress, n), mul(ba.Fund, n), mul(ba.Risked, n)}); err != nil {
		return err
	}
	if got := toBig(ua.RenterCost()); got.Cmp(ba.cost()) != 0 {
		return failf("usage/RenterCost", "RenterCost(%v) = %v, want %v", ba, got, ba.cost())
	}
	if got := toBig(ua.HostRiskedCollateral()); got.Cmp(ba.Risked) != 0 {
		return failf("usage/HostRiskedCollateral", "HostRiskedCollateral(%v) = %v", ba, got)
	}
	nt := p.collateral.Sign() > 0 && p.storage.Sign() > 0 && p.ingress.Sign() > 0 && p.egress.Sign() > 0 && p.free.Sign() > 0 && c.Sectors > 0 && c.Length%4096 != 0
	rec := stats.G()
	rec.Case(stats.FP("usage", fmt.Sprint(c)), nt, "usage")
	if c.Length%4096 == 0 {
		rec.Label("usage:length-4KiB-aligned")
	}
	return nil
}

func drawUsage(t *rapid.T) UsageCase {
	c := UsageCase{Prices: genPrices(t)}
	c.Length = rapid.OneOf(rapid.Uint64Range(0, sectorSize), rapid.SampledFrom([]uint64{0, 1, 4095, 4096, 4097, sectorSize - 1, sectorSize, 1 << 40}), rapid.Uint64Range(0, 1<<40)).Draw(t, "length")
	c.Sectors = rapid.OneOf(rapid.Uint64Range(0, 300), rapid.SampledFrom([]uint64{0, 1, 127, 128, 129, maxBatch, 1 << 28}), rapid.Uint64Range(0, 1<<28)).Draw(t, "sectors")
	c.Duration = rapid.OneOf(rapid.Uint64Range(0, 5000), rapid.Uint64Range(0, 1<<20)).Draw(t, "duration")
	for _, n := range []string{"rpc", "storage", "egress", "ingress", "fund", "risked"} {
		c.A = append(c.A, genCur(t, "a-"+n, 0, 100))
		c.B = append(c.B, genCur(t, "b-"+n, 0, 100))
	}
	c.N = rapid.OneOf(rapid.Uint64Range(0, 10), rapid.Uint64Range(0, 1<<20)).Draw(t, "n")
	return c
}

func TestUsage(t *testing.T)       { stats.Prop(t, drawUsage, checkUsage) }
func TestReplayUsage(t *testing.T) { stats.Replay(t, "TestUsage", checkUsage) }

// ---- v1 -----------------------------------------------------------------------------------

// V1Case is a v1-era contract life: formation, payments, optional renewal.
type V1Case struct {
	KeySeed        uint8  `json:"keySeed"`
	RenterPayout   string `json:"renterPayout"`
	HostCollateral string `json:"hostCollateral"`
	ContractPrice  string `json:"contractPrice"`
	EndHeight      uint64 `json:"endHeight"`
	WindowSize     uint64 `json:"windowSize"`
	Pays           []Amt  `json:"pays"` // base "bal" = valid renter payout
	// MissedShift moves this many thousandths of the renter's missed payout to the void output before the payments (a
	// consensus-valid revision the two parties agreed on earlier): the renter then has less to lose than to spend
	MissedShift int `json:"missedShift,omitempty"`
	Filesize       uint64 `json:"filesize"`
	Renew          string `json:"renew"` // "", "rhp2", "rhp3"
	NewPayout      string `json:"newPayout"`
	NewCollateral  string `json:"newCollateral"` // rhp2: added collateral; rhp3: minimum new collateral
	Extend         int64  `json:"extend"`        // new end height = old end height + Extend
	StoragePrice   string `json:"storagePrice"`
	CollPrice      string `json:"collPrice"`
	MaxCollateral  string `json:"maxCollateral"`
	RenewCost      string `json:"renewCost"`
	NewStorage     uint64 `json:"newStorage"`
	HostHeight     uint64 `json:"hostHeight"`
	MinerFee       string `json:"minerFee"`
}

func v1State() consensus.State {
	n := v2Network()
	n.HardforkV2.AllowHeight = 1 << 30
	n.HardforkV2.RequireHeight = 1 << 31
	n.HardforkV2.FinalCutHeight = 1 << 32
	cs, _ := consensus.ApplyBlock(n.GenesisState(), types.Block{Timestamp: genesisTime}, consensus.V1BlockSupplement{}, time.Time{})
	return cs
}

// refTax is the consensus contract tax after the tax hardfork: 3.9% rounded down to a
// multiple of the siafund count.
func refTax(payout *big.Int) *big.Int {
	t := new(big.Int).Mul(payout, big.NewInt(39))
	t.Quo(t, big.NewInt(1000))
	return t.Sub(t, new(big.Int).Mod(t, big.NewInt(10000)))
}

func outSum(outs []types.SiacoinOutput) *big.Int {
	s := new(big.Int)
	for _, o := range outs {
		s.Add(s, toBig(o.Value))
	}
	return s
}

type v1Funding struct {
	sk    types.PrivateKey
	value *big.Int
}

// v1Validate funds txn with one input per non-zero funding value, signs everything
// (inputs with their wallet key, revisions with both contract keys) and validates it.
func v1Validate(cs consensus.State, txn types.Transaction, funds []v1Funding, parents []types.FileContractElement, renterSK, hostSK types.PrivateKey) error {
	var ts consensus.V1TransactionSupplement
	type signer struct {
		id  types.Hash256
		idx uint64
		sk  types.PrivateKey
	}
	var signers []signer
	for i, f := range funds {
		if f.value.Sign() == 0 {
			continue
		}
		id := types.SiacoinOutputID(types.HashBytes([]byte{0xC1, 0x17, byte(i)}))
		uc := types.StandardUnlockConditions(f.sk.PublicKey())
		ts.SiacoinInputs = append(ts.SiacoinInputs, types.SiacoinElement{ID: id, SiacoinOutput: types.SiacoinOutput{Value: fromBig(f.value), Address: uc.UnlockHash()}})
		txn.SiacoinInputs = append(txn.SiacoinInputs, types.SiacoinInput{ParentID: id, UnlockConditions: uc})
		signers = append(signers, signer{types.Hash256(id), 0, f.sk})
	}
	for _, rev := range txn.FileContractRevisions {
		signers = append(signers, signer{types.Hash256(rev.ParentID), 0, renterSK}, signer{types.Hash256(rev.ParentID), 1, hostSK})
	}
	ts.RevisedFileContracts = parents
	for _, s := range signers {
		txn.Signatures = append(txn.Signatures, types.TransactionSignature{ParentID: s.id, PublicKeyIndex: s.idx, CoveredFields: types.CoveredFields{WholeTransaction: true}})
	}
	for i, s := range signers {
		sig := s.sk.SignHash(cs.WholeSigHash(txn, s.id, s.idx, 0, nil))
		txn.Signatures[i].Signature = sig[:]
	}
	return consensus.ValidateTransaction(consensus.NewMidState(cs), txn, ts)
}

var v1cs = v1State()

func checkV1(c V1Case) error {
	rec := stats.G()
	cs := v1cs
	renterSK, hostSK := key(c.KeySeed, 1), key(c.KeySeed, 2)
	renterW, hostW := key(c.KeySeed, 3), key(c.KeySeed, 4)
	refund := types.StandardAddress(key(c.KeySeed, 5).PublicKey())
	hostAddr := types.StandardAddress(key(c.KeySeed, 6).PublicKey())
	rp, hcoll, cp := dec(c.RenterPayout), dec(c.HostCollateral), dec(c.ContractPrice)
	host := rhp2.HostSettings{ContractPrice: fromBig(cp), WindowSize: c.WindowSize, Address: hostAddr,
		StoragePrice: fromBig(dec(c.StoragePrice)), Collateral: fromBig(dec(c.CollPrice)), MaxCollateral: fromBig(dec(c.MaxCollateral))}
	labels := []string{"v1"}
	nt := false

	// ---- formation
	fc := rhp2.PrepareContractFormation(renterSK.PublicKey(), hostSK.PublicKey(), fromBig(rp), fromBig(hcoll), c.EndHeight, host, refund)
	checkPayout := func(stage string, fc types.FileContract) error {
		payout, valid, missed := toBig(fc.Payout), outSum(fc.ValidProofOutputs), outSum(fc.MissedProofOutputs)
		if valid.Cmp(missed) != 0 {
			return failf("v1/"+stage+"/valid-missed", "%s: sum(valid) %v != sum(missed) %v", stage, valid, missed)
		}
		if payout.Cmp(sum(valid, refTax(payout))) != 0 {
			return failf("v1/"+stage+"/tax", "%s: payout %v != sum(valid) %v + tax(payout) %v", stage, payout, valid, refTax(payout))
		}
		if got := toBig(cs.FileContractTax(fc)); got.Cmp(refTax(payout)) != 0 {
			return failf("v1/"+stage+"/consensus-tax", "%s: FileContractTax(%v) = %v, reference %v", stage, payout, got, refTax(payout))
		}
		return nil
	}
	if err := checkPayout("form", fc); err != nil {
		return err
	}
	// the constructed contract owns its lists: a payment edits the valid and then the missed outputs in place, so two
	// lists sharing memory (or one list's spare capacity covering the other) would be charged twice
	if herr := gen.AppendHazard(reflect.ValueOf(&fc).Elem()); herr != nil {
		return failf("v1/form/shared-memory", "PrepareContractFormation: %v", herr)
	}
	if len(fc.ValidProofOutputs) != 2 || toBig(fc.ValidProofOutputs[0].Value).Cmp(rp) != 0 || toBig(fc.ValidProofOutputs[1].Value).Cmp(sum(cp, hcoll)) != 0 {
		return failf("v1/form/outputs", "formation valid outputs %+v, want renter %v host %v", fc.ValidProofOutputs, rp, sum(cp, hcoll))
	}
	// a freshly formed contract is empty, unrevised, and its window is the requested end height plus the host's window
	if fc.Filesize != 0 || fc.FileMerkleRoot != (types.Hash256{}) || fc.RevisionNumber != 0 ||
		fc.WindowStart != c.EndHeight || fc.WindowEnd != c.EndHeight+host.WindowSize {
		return failf("v1/form/fields", "formation contract is not the empty contract ending at %d (+%d): filesize %d root %v revision %d window [%d,%d)",
			c.EndHeight, host.WindowSize, fc.Filesize, fc.FileMerkleRoot, fc.RevisionNumber, fc.WindowStart, fc.WindowEnd)
	}
	payout := toBig(fc.Payout)
	renterCost := toBig(rhp2.ContractFormationCost(cs, fc, fromBig(cp)))
	if sum(renterCost, hcoll).Cmp(payout) != 0 {
		return failf("v1/form/cost", "ContractFormationCost %v + host collateral %v != payout %v", renterCost, hcoll, payout)
	}
	if payout.Sign() > 0 {
		txn := types.Transaction{FileContracts: []types.FileContract{fc}}
		if err := v1Validate(cs, txn, []v1Funding{{renterW, renterCost}, {hostW, hcoll}}, nil, renterSK, hostSK); err != nil {
			return failf("v1/form/consensus", "formation rejected by consensus: %v\n%+v", err, fc)
		}
		labels = append(labels, "v1:form-accepted")
	} else {
		labels = append(labels, "v1:form-zero-payout")
	}
	nt = payout.BitLen() > 24 // large enough for a non-zero tax

	// ---- payments
	fcid := types.FileContractID(types.HashBytes([]byte{0xC1, 0x17, c.KeySeed}))
	parent := types.FileContractElement{ID: fcid, FileContract: fc}
	uc := types.UnlockConditions{PublicKeys: []types.UnlockKey{renterSK.PublicKey().UnlockKey(), hostSK.PublicKey().UnlockKey()}, SignaturesRequired: 2}
	if uc.UnlockHash() != fc.UnlockHash {
		return failf("v1/form/unlockhash", "formation unlock hash is not the 2-of-2 of renter and host key")
	}
	cur := fc
	if c.MissedShift > 0 && len(cur.MissedProofOutputs) == 3 {
		m := toBig(cur.MissedProofOutputs[0].Value)
		d := new(big.Int).Quo(mul(m, big.NewInt(int64(c.MissedShift))), big.NewInt(1000))
		cur.MissedProofOutputs = append([]types.SiacoinOutput(nil), cur.MissedProofOutputs...)
		cur.MissedProofOutputs[0].Value = fromBig(sub(m, d))
		cur.MissedProofOutputs[2].Value = fromBig(sum(toBig(cur.MissedProofOutputs[2].Value), d))
		cur.RevisionNumber++
		if d.Sign() > 0 {
			labels = append(labels, "v1:renter-missed-below-valid")
		}
	}
	for i, a := range c.Pays {
		validR, missedR := toBig(cur.ValidProofOutputs[0].Value), toBig(cur.MissedProofOutputs[0].Value)
		amount := sum(dec(a.V), big.NewInt(a.D))
		if a.Mode == "bal" {
			amount.Add(amount, validR)
		}
		if amount.Sign() < 0 {
			amount.SetInt64(0)
		}
		if amount.BitLen() > 120 {
			continue
		}
		rev := types.FileContractRevision{ParentID: fcid, UnlockConditions: uc, FileContract: cur}
		rev.FileContract.ValidProofOutputs = append([]types.SiacoinOutput(nil), cur.ValidProofOutputs...)
		rev.FileContract.MissedProofOutputs = append([]types.SiacoinOutput(nil), cur.MissedProofOutputs...)
		req, ok := rhp3.PayByContract(&rev, fromBig(amount), rhp3.Account(renterSK.PublicKey()), renterSK)
		wantOK := validR.Cmp(amount) >= 0 && missedR.Cmp(amount) >= 0
		if ok != wantOK {
			return failf("v1/pay/ok", "PayByContract(%v) ok=%v with renter valid %v missed %v", amount, ok, validR, missedR)
		}
		if !ok {
			if rev.FileContract.RevisionNumber != cur.RevisionNumber || outSum(rev.FileContract.ValidProofOutputs[:1]).Cmp(validR) != 0 ||
				toBig(rev.FileContract.ValidProofOutputs[1].Value).Cmp(toBig(cur.ValidProofOutputs[1].Value)) != 0 ||
				!reflect.DeepEqual(rev.FileContract.MissedProofOutputs, cur.MissedProofOutputs) || !reflect.DeepEqual(rev.FileContract.ValidProofOutputs, cur.ValidProofOutputs) {
				return failf("v1/pay/error-modified", "PayByContract failed but modified the revision")
			}
			labels = append(labels, "v1:pay-insufficient")
			continue
		}
		nf := rev.FileContract
		if nf.RevisionNumber != cur.RevisionNumber+1 || req.RevisionNumber != nf.RevisionNumber {
			return failf("v1/pay/revnum", "PayByContract revision number %d -> %d (request %d)", cur.RevisionNumber, nf.RevisionNumber, req.RevisionNumber)
		}
		if outSum(nf.ValidProofOutputs).Cmp(outSum(cur.ValidProofOutputs)) != 0 || outSum(nf.MissedProofOutputs).Cmp(outSum(cur.MissedProofOutputs)) != 0 {
			return failf("v1/pay/sum", "PayByContract changed a payout sum")
		}
		if sub(validR, toBig(nf.ValidProofOutputs[0].Value)).Cmp(amount) != 0 || sub(missedR, toBig(nf.MissedProofOutputs[0].Value)).Cmp(amount) != 0 ||
			sub(toBig(nf.ValidProofOutputs[1].Value), toBig(cur.ValidProofOutputs[1].Value)).Cmp(amount) != 0 ||
			sub(toBig(nf.MissedProofOutputs[1].Value), toBig(cur.MissedProofOutputs[1].Value)).Cmp(amount) != 0 {
			return failf("v1/pay/amount", "PayByContract(%v) moved a different amount: %+v -> %+v", amount, cur, nf)
		}
		for j := range nf.ValidProofOutputs {
			if req.ValidProofValues[j] != nf.ValidProofOutputs[j].Value {
				return failf("v1/pay/request", "request valid values differ from the revision")
			}
		}
		for j := range nf.MissedProofOutputs {
			if req.MissedProofValues[j] != nf.MissedProofOutputs[j].Value {
				return failf("v1/pay/request", "request missed values differ from the revision")
			}
		}
		if i < 2 && payout.Sign() > 0 { // signature checks dominate the cost; two per case are enough
			txn := types.Transaction{FileContractRevisions: []types.FileContractRevision{rev}}
			if err := v1Validate(cs, txn, nil, []types.FileContractElement{parent}, renterSK, hostSK); err != nil {
				return failf("v1/pay/consensus", "PayByContract revision rejected by consensus: %v", err)
			}
		}
		if amount.Cmp(validR) == 0 {
			labels = append(labels, "v1:pay-exact-balance")
		}
		labels = append(labels, "v1:pay-ok")
		cur = nf
	}

	// ---- renewal
	if c.Renew != "" {
		cur.Filesize = c.Filesize
		rev := types.FileContractRevision{ParentID: fcid, UnlockConditions: uc, FileContract: cur}
		// the renewal is prepared from the current revision, which the caller goes on using (the clearing revision, a
		// further payment, a second attempt): preparing must neither change it nor return a contract that shares its lists
		revBefore := encOf(rev)
		end := uint64(max(int64(cur.WindowStart)+c.Extend, 1))
		np, ncoll, fee := dec(c.NewPayout), dec(c.NewCollateral), dec(c.MinerFee)
		sp, cpr, maxc, rcost := dec(c.StoragePrice), dec(c.CollPrice), dec(c.MaxCollateral), dec(c.RenewCost)
		ext := new(big.Int)
		if end+c.WindowSize > cur.WindowEnd {
			ext = bu(end + c.WindowSize - cur.WindowEnd)
		}
		var nfc types.FileContract
		var basePrice types.Currency
		var wantBase, hostShare *big.Int
		var rcostGot *big.Int
		switch c.Renew {
		case "rhp2":
			nfc, basePrice = rhp2.PrepareContractRenewal(rev, refund, fromBig(np), fromBig(ncoll), host, end)
			wantBase = mul(sp, bu(cur.Filesize), ext)
			baseColl := mul(cpr, bu(cur.Filesize), ext)
			hostShare = sum(baseColl, ncoll)
			wantValid := sum(cp, wantBase, baseColl, ncoll)
			if toBig(nfc.ValidProofOutputs[1].Value).Cmp(wantValid) != 0 || toBig(nfc.MissedProofOutputs[1].Value).Cmp(sum(cp, ncoll)) != 0 ||
				toBig(nfc.MissedProofOutputs[2].Value).Cmp(sum(wantBase, baseColl)) != 0 {
				return failf("v1/renew2/outputs", "rhp2 renewal host outputs valid %v missed %v void %v, want %v %v %v", nfc.ValidProofOutputs[1].Value,
					nfc.MissedProofOutputs[1].Value, nfc.MissedProofOutputs[2].Value, wantValid, sum(cp, ncoll), sum(wantBase, baseColl))
			}
			rcostGot = toBig(rhp2.ContractRenewalCost(cs, nfc, fromBig(cp), fromBig(fee), basePrice))
			// the exported pieces called on their own give what the constructor used
			if hv, hm, vm, bp := rhp2.CalculateHostPayouts(cur, fromBig(ncoll), host, end); hv != nfc.ValidProofOutputs[1].Value || hm != nfc.MissedProofOutputs[1].Value || vm != nfc.MissedProofOutputs[2].Value || bp != basePrice {
				return failf("v1/renew2/calculate-host-payouts", "rhp2.CalculateHostPayouts = %v %v %v %v, the prepared renewal carries %v %v %v %v", hv, hm, vm, bp, nfc.ValidProofOutputs[1].Value, nfc.MissedProofOutputs[1].Value, nfc.MissedProofOutputs[2].Value, basePrice)
			}
			// the collateral proposals: as much as the host's rate gives for the new data, never lifting the total above the
			// host's maximum (a base collateral at or above the maximum leaves no room at all)
			if end >= cur.WindowEnd && end >= c.HostHeight {
				if newRate := mul(cpr, bu(c.NewStorage), bu(end-c.HostHeight)); newRate.BitLen() <= 127 && mul(cpr, bu(cur.Filesize), bu(end-cur.WindowEnd)).BitLen() <= 127 {
					base := mul(cpr, bu(cur.Filesize), bu(end-cur.WindowEnd))
					want := new(big.Int).Set(newRate)
					if base.Cmp(maxc) >= 0 {
						want.SetInt64(0)
					} else if room := sub(maxc, base); want.Cmp(room) > 0 {
						want = room
					}
					if got := toBig(rhp2.ContractRenewalCollateral(cur, c.NewStorage, host, c.HostHeight, end)); got.Cmp(want) != 0 {
						return failf("v1/renew2/renewal-collateral", "rhp2.ContractRenewalCollateral = %v, want %v (rate %v, base collateral %v, new-data collateral %v, maximum %v)", got, want, cpr, base, newRate, maxc)
					}
					labels = append(labels, "v1:renewal-collateral-checked")
				}
			}
			if period := end - min(end, c.HostHeight); true {
				if full := mul(cpr, bu(c.NewStorage), bu(period)); full.BitLen() <= 127 {
					want := full
					if want.Cmp(maxc) > 0 {
						want = maxc
					}
					if got := toBig(rhp2.ContractFormationCollateral(period, c.NewStorage, host)); got.Cmp(want) != 0 {
						return failf("v1/renew2/formation-collateral", "rhp2.ContractFormationCollateral(%d, %d) = %v, want %v (rate %v, maximum %v)", period, c.NewStorage, got, want, cpr, maxc)
					}
				}
			}
		case "rhp3":
			pt := rhp3.HostPriceTable{ContractPrice: fromBig(cp), WindowSize: c.WindowSize, HostBlockHeight: c.HostHeight, RenewContractCost: fromBig(rcost),
				WriteStoreCost: fromBig(sp), CollateralCost: fromBig(cpr), MaxCollateral: fromBig(maxc)}
			var err error
			nfc, basePrice, err = rhp3.PrepareContractRenewal(rev, hostAddr, refund, fromBig(np), fromBig(ncoll), pt, c.NewStorage, end)
			// reference
			wantBase = sum(rcost, mul(sp, bu(cur.Filesize), ext))
			baseColl := mul(cpr, bu(cur.Filesize), ext)
			newColl := new(big.Int)
			if end+c.WindowSize >= c.HostHeight {
				newColl = mul(cpr, bu(c.NewStorage), bu(end+c.WindowSize-c.HostHeight))
			}
			if baseColl.Cmp(maxc) > 0 {
				baseColl, newColl = maxc, new(big.Int)
				labels = append(labels, "v1:renew3-base-capped")
			} else if sum(baseColl, newColl).Cmp(maxc) > 0 {
				newColl = sub(maxc, baseColl)
				labels = append(labels, "v1:renew3-new-capped")
			}
			wantErr := end < cur.WindowStart || end < c.HostHeight || newColl.Cmp(ncoll) < 0
			if (err != nil) != wantErr {
				return failf("v1/renew3/error", "rhp3.PrepareContractRenewal err=%v, expected error=%v (end %d start %d host height %d new collateral %v min %v)", err, wantErr, end, cur.WindowStart, c.HostHeight, newColl, ncoll)
			}
			if err != nil {
				labels = append(labels, "v1:renew3-refused")
				rec.Case(stats.FP("v1", fmt.Sprint(c)), nt, labels...)
				return nil
			}
			hostShare = sum(baseColl, newColl)
			wantValid := sum(cp, wantBase, baseColl, newColl)
			if toBig(nfc.ValidProofOutputs[1].Value).Cmp(wantValid) != 0 || toBig(nfc.MissedProofOutputs[1].Value).Cmp(sum(cp, newColl)) != 0 ||
				toBig(nfc.MissedProofOutputs[2].Value).Cmp(sum(wantBase, baseColl)) != 0 {
				return failf("v1/renew3/outputs", "rhp3 renewal host outputs valid %v missed %v void %v, want %v %v %v", nfc.ValidProofOutputs[1].Value,
					nfc.MissedProofOutputs[1].Value, nfc.MissedProofOutputs[2].Value, wantValid, sum(cp, newColl), sum(wantBase, baseColl))
			}
			rcostGot = toBig(rhp3.ContractRenewalCost(cs, pt, nfc, fromBig(fee), basePrice))
			if hv, hm, vm, bp, cerr := rhp3.CalculateHostPayouts(cur, fromBig(ncoll), pt, c.NewStorage, end); cerr != nil || hv != nfc.ValidProofOutputs[1].Value || hm != nfc.MissedProofOutputs[1].Value || vm != nfc.MissedProofOutputs[2].Value || bp != basePrice {
				return failf("v1/renew3/calculate-host-payouts", "rhp3.CalculateHostPayouts = %v %v %v %v (%v), the prepared renewal carries %v %v %v %v", hv, hm, vm, bp, cerr, nfc.ValidProofOutputs[1].Value, nfc.MissedProofOutputs[1].Value, nfc.MissedProofOutputs[2].Value, basePrice)
			}
			if bp, bc, nc := rhp3.RenewalCosts(cur, pt, c.NewStorage, end); toBig(bp).Cmp(wantBase) != 0 || toBig(bc).Cmp(baseColl) != 0 || toBig(nc).Cmp(newColl) != 0 {
				return failf("v1/renew3/renewal-costs", "rhp3.RenewalCosts = %v %v %v, want %v %v %v", bp, bc, nc, wantBase, baseColl, newColl)
			}
		default:
			return stats.Failf("", "harness: unknown renewal kind")
		}
		stage := "renew-" + c.Renew
		if err := checkPayout(stage, nfc); err != nil {
			return err
		}
		if herr := gen.AppendHazard(reflect.ValueOf(&nfc).Elem()); herr != nil {
			return failf("v1/"+stage+"/shared-memory", "%s: %v", stage, herr)
		}
		if encOf(rev) != revBefore {
			return failf("v1/"+stage+"/input-modified", "%s changed the revision it was prepared from", stage)
		}
		{
			both := struct {
				In  types.FileContractRevision
				Out types.FileContract
			}{rev, nfc}
			if herr := gen.AppendHazard(reflect.ValueOf(&both).Elem()); herr != nil {
				return failf("v1/"+stage+"/shares-memory-with-input", "%s: the prepared contract and the revision it was prepared from: %v", stage, herr)
			}
		}
		if toBig(basePrice).Cmp(wantBase) != 0 {
			return failf("v1/"+stage+"/base-price", "%s base price %v, want %v", stage, basePrice, wantBase)
		}
		if toBig(nfc.ValidProofOutputs[0].Value).Cmp(np) != 0 || toBig(nfc.MissedProofOutputs[0].Value).Cmp(np) != 0 {
			return failf("v1/"+stage+"/renter-output", "%s renter outputs are not the requested payout", stage)
		}
		if nfc.Filesize != cur.Filesize || nfc.FileMerkleRoot != cur.FileMerkleRoot || nfc.UnlockHash != cur.UnlockHash || nfc.RevisionNumber != 0 ||
			nfc.WindowStart != end || nfc.WindowEnd != end+c.WindowSize {
			return failf("v1/"+stage+"/carry", "%s does not carry the contract over: %+v", stage, nfc)
		}
		npayout := toBig(nfc.Payout)
		if sum(rcostGot, hostShare).Cmp(sum(npayout, fee)) != 0 {
			return failf("v1/"+stage+"/cost", "%s: renter cost %v + host collateral %v != payout %v + miner fee %v", stage, rcostGot, hostShare, npayout, fee)
		}
		if npayout.Sign() > 0 && end >= 1 && c.WindowSize > 0 {
			txn := types.Transaction{FileContracts: []types.FileContract{nfc}}
			if fee.Sign() > 0 {
				txn.MinerFees = []types.Currency{fromBig(fee)}
			}
			if err := v1Validate(cs, txn, []v1Funding{{renterW, rcostGot}, {hostW, hostShare}}, nil, renterSK, hostSK); err != nil {
				return failf("v1/"+stage+"/consensus", "%s rejected by consensus: %v\n%+v", stage, err, nfc)
			}
			labels = append(labels, "v1:"+stage+"-accepted")
		}
		if ext.Sign() > 0 && cur.Filesize > 0 {
			labels = append(labels, "v1:"+stage+"-extends-stored-data")
		} else {
			nt = false
		}
	} else {
		nt = false
	}
	rec.Case(stats.FP("v1", fmt.Sprint(c)), nt, labels...)
	if rec.WantSample() && nt {
		rec.Sample(nt, c)
	}
	return nil
}

func drawV1(t *rapid.T) V1Case {
	c := V1Case{KeySeed: uint8(rapid.IntRange(0, 255).Draw(t, "keyseed"))}
	c.RenterPayout = genCur(t, "renterpayout", 0, 108)
	c.HostCollateral = genCur(t, "hostcollateral", 0, 108)
	c.ContractPrice = genCur(t, "contractprice", 0, 90)
	c.EndHeight = rapid.OneOf(rapid.Uint64Range(1, 5000), rapid.Uint64Range(1, 1<<20)).Draw(t, "end")
	c.WindowSize = rapid.OneOf(rapid.Just(uint64(144)), rapid.Uint64Range(1, 1000)).Draw(t, "window")
	if rapid.IntRange(0, 3).Draw(t, "missedShifted") == 0 {
		c.MissedShift = rapid.SampledFrom([]int{1, 10, 250, 500, 900, 1000}).Draw(t, "missedShift")
	}
	np := rapid.IntRange(0, 4).Draw(t, "npays")
	for i := 0; i < np; i++ {
		if rapid.SampledFrom([]bool{false, true, false}).Draw(t, "pay-bal") {
			c.Pays = append(c.Pays, Amt{Mode: "bal", D: rapid.SampledFrom(deltas).Draw(t, "pay-d")})
		} else {
			c.Pays = append(c.Pays, Amt{V: genCur(t, "pay", 0, 108)})
		}
	}
	c.Renew = rapid.SampledFrom([]string{"rhp2", "rhp3", "", "rhp3", "rhp2"}).Draw(t, "renew")
	c.Filesize = rapid.OneOf(rapid.Just(uint64(0)), rapid.Uint64Range(0, 1<<30), rapid.Uint64Range(0, 1<<50)).Draw(t, "filesize")
	c.NewPayout = genCur(t, "newpayout", 0, 108)
	c.NewCollateral = genCur(t, "newcollateral", 0, 100)
	c.Extend = rapid.OneOf(rapid.Int64Range(0, 5000), rapid.Int64Range(-3, 3), rapid.Int64Range(0, 1<<20)).Draw(t, "extend")
	c.StoragePrice = genPrice(t, "storageprice")
	c.CollPrice = genPrice(t, "collprice")
	c.MaxCollateral = rapid.OneOf(rapid.Just(new(big.Int).Lsh(big.NewInt(1), 110).String()), rapid.Custom(func(t *rapid.T) string { return genCur(t, "maxc", 0, 110) })).Draw(t, "maxcollateral")
	c.RenewCost = genCur(t, "renewcost", 0, 80)
	c.NewStorage = rapid.OneOf(rapid.Just(uint64(0)), rapid.Uint64Range(0, 1<<50)).Draw(t, "newstorage")
	c.HostHeight = rapid.OneOf(rapid.Uint64Range(0, 10), rapid.Uint64Range(0, 1<<20)).Draw(t, "hostheight")
	c.MinerFee = genCur(t, "minerfee", 0, 80)
	if c.Renew == "rhp3" && rapid.SampledFrom([]bool{true, false, true}).Draw(t, "min-collateral-zero") {
		c.NewCollateral = "0" // rhp3: a minimum; zero always passes
	}
	return c
}

func TestV1(t *testing.T)       { stats.Prop(t, drawV1, checkV1) }
func TestReplayV1(t *testing.T) { stats.Replay(t, "TestV1", checkV1) }

// TestTaxEnum sweeps the v1 tax inversion over consecutive formation targets around every
// rounding boundary class (plain enumerator; targets = base + i).
func TestTaxEnum(t *testing.T) {
	shard, n := stats.Shard()
	per := stats.EnvInt("C17_TAX_PER_BASE", 4000)
	bases := []string{"0", "9000", "9609000", "246400000", "1000000000000000000000000", "4000000000000000000000000000", "340282366920938463463374607431768"}
	// totals whose high 64-bit word (or that of the first guess total*1000/961) crosses a small value, the siafund count
	// 10000 and its neighbours, or a power of two: the inversion works on 64-bit words
	for _, h := range []uint64{1, 2, 3, 9999, 10000, 10001, 65535, 65536, 1<<32 - 1, 1 << 32} {
		edge := new(big.Int).Lsh(new(big.Int).SetUint64(h), 64)
		half := big.NewInt(int64(per / 2))
		bases = append(bases, new(big.Int).Sub(edge, half).String())
		inv := new(big.Int).Mul(edge, big.NewInt(961))
		inv.Quo(inv, big.NewInt(1000))
		bases = append(bases, new(big.Int).Sub(inv, half).String())
	}
	cnt := 0
	for bi, b := range bases {
		if bi%n != shard {
			continue
		}
		base := dec(b)
		for i := 0; i < per; i++ {
			target := sum(base, big.NewInt(int64(i)))
			c := V1Case{RenterPayout: target.String(), HostCollateral: "0", ContractPrice: "0", EndHeight: 10, WindowSize: 10}
			if !stats.Check(t, c, checkTax) {
				return
			}
			cnt++
		}
	}
	stats.G().Extra("tax_enum_targets", uint64(cnt))
}

// checkTax is the formation tax equation alone (no signatures), for dense sweeps.
func checkTax(c V1Case) error {
	rp, hcoll, cp := dec(c.RenterPayout), dec(c.HostCollateral), dec(c.ContractPrice)
	sk := key(0, 1)
	fc := rhp2.PrepareContractFormation(sk.PublicKey(), sk.PublicKey(), fromBig(rp), fromBig(hcoll), c.EndHeight, rhp2.HostSettings{ContractPrice: fromBig(cp), WindowSize: c.WindowSize}, types.Address{})
	payout, valid, missed := toBig(fc.Payout), outSum(fc.ValidProofOutputs), outSum(fc.MissedProofOutputs)
	if valid.Cmp(missed) != 0 || valid.Cmp(sum(rp, hcoll, cp)) != 0 {
		return failf("v1/tax-enum/valid-missed", "sum(valid) %v sum(missed) %v target %v", valid, missed, sum(rp, hcoll, cp))
	}
	if payout.Cmp(sum(valid, refTax(payout))) != 0 {
		return failf("v1/tax-enum/tax", "target %v: payout %v != target + tax(payout) %v", valid, payout, refTax(payout))
	}
	if got := toBig(v1cs.FileContractTax(fc)); got.Cmp(refTax(payout)) != 0 {
		return failf("v1/tax-enum/consensus-tax", "FileContractTax(%v) = %v, reference %v", payout, got, refTax(payout))
	}
	// the rhp3 renewal has its own copy of the inversion: the same target through PrepareContractRenewal of an empty
	// contract under an all-zero price table (host payouts are then zero and the target is the renter payout)
	if hcoll.Sign() == 0 && cp.Sign() == 0 {
		rev := types.FileContractRevision{FileContract: types.FileContract{WindowStart: 5, WindowEnd: 10}}
		nfc, _, err := rhp3.PrepareContractRenewal(rev, types.Address{1}, types.Address{2}, fromBig(rp), types.ZeroCurrency, rhp3.HostPriceTable{WindowSize: c.WindowSize}, 0, 20)
		if err != nil {
			return failf("v1/tax-enum/rhp3", "rhp3.PrepareContractRenewal of an empty contract with zero prices failed: %v", err)
		}
		p3, v3 := toBig(nfc.Payout), outSum(nfc.ValidProofOutputs)
		if v3.Cmp(rp) != 0 || outSum(nfc.MissedProofOutputs).Cmp(rp) != 0 {
			return failf("v1/tax-enum/rhp3", "rhp3 renewal of target %v: sum(valid) %v sum(missed) %v", rp, v3, outSum(nfc.MissedProofOutputs))
		}
		if p3.Cmp(sum(v3, refTax(p3))) != 0 {
			return failf("v1/tax-enum/rhp3-tax", "rhp3 renewal, target %v: payout %v != target + tax(payout) %v", v3, p3, refTax(p3))
		}
	}
	// non-trivial: the tax of the naive guess target*1000/961 differs from the tax of the result,
	// i.e. the remainder correction mattered
	guess := new(big.Int).Quo(new(big.Int).Mul(valid, big.NewInt(1000)), big.NewInt(961))
	stats.G().Case(stats.FP("tax", valid.String()), guess.Cmp(payout) != 0, "tax-enum")
	return nil
}

func TestReplayTaxEnum(t *testing.T) { stats.Replay(t, "TestTaxEnum", checkTax) }

// encOf is the binary form of a revision (a byte snapshot for before/after comparisons).
func encOf(r types.FileContractRevision) string {
	var buf bytes.Buffer
	e := types.NewEncoder(&buf)
	r.EncodeTo(e)
	e.Flush()
	return buf.String()
}
