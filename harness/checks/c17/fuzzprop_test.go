package c17

import (
	"testing"

	"verif/harness/stats"
)

// Native coverage-guided fuzzing (thorough tier) of the rapid properties of this package: the fuzz input is the
// byte stream the rapid generator draws from, the checker and the replay format are those of the named rapid unit.
func FuzzSeq(f *testing.F) { stats.FuzzProp(f, "TestSeq", drawSeq, checkSeq) }
