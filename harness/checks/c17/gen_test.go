package c17

// Generators for TestSeq. rapid's integer generators are biased towards small values and the
// upper bound, so lists are ordered "common first" and deliberately invalid choices sit in the
// middle of their ranges.

import (
	"math/big"
	"strings"

	"pgregory.net/rapid"
	"verif/harness/stats"
)

// chance is true with a probability of roughly 0.7*pct percent.
func chance(t *rapid.T, name string, pct int) bool {
	v := rapid.IntRange(0, 99).Draw(t, name)
	return v >= 40 && v < 40+pct
}

// genCur draws a currency of a drawn bit length in [lo, hi] (0 = the value zero).
func genCur(t *rapid.T, name string, lo, hi int) string {
	bl := rapid.IntRange(lo, hi).Draw(t, name+"-bits")
	if bl == 0 {
		return "0"
	}
	v := new(big.Int).SetUint64(rapid.Uint64().Draw(t, name+"-hi"))
	v.Lsh(v, 64).Or(v, new(big.Int).SetUint64(rapid.Uint64().Draw(t, name+"-lo")))
	v.Rsh(v, uint(128-bl))
	v.SetBit(v, bl-1, 1)
	return v.String()
}

func genPrice(t *rapid.T, name string) string {
	switch rapid.SampledFrom([]string{"real", "real", "any", "zero", "one", "cap", "any", "real"}).Draw(t, name+"-class") {
	case "zero":
		return "0"
	case "one":
		return "1"
	case "cap":
		return new(big.Int).Lsh(big.NewInt(1), 40).String() // the stated cap
	case "real":
		return genCur(t, name, 16, 32) // realistic per-byte-per-block prices
	}
	return genCur(t, name, 1, 40)
}

func genPrices(t *rapid.T) PriceSpec {
	return PriceSpec{
		Contract:   genCur(t, "contract", 0, 90),
		Collateral: genPrice(t, "collateral"),
		Storage:    genPrice(t, "storage"),
		Ingress:    genPrice(t, "ingress"),
		Egress:     genPrice(t, "egress"),
		FreeSector: genCur(t, "freesector", 0, 70),
		TipDelta:   rapid.SampledFrom([]int64{0, 0, 0, 1, 2, -1, -2, 3, 0}).Draw(t, "tipdelta"),
	}
}

func genSectors(t *rapid.T, name string) uint64 {
	switch rapid.SampledFrom([]string{"one", "few", "few", "some", "many", "huge", "some", "few"}).Draw(t, name+"-class") {
	case "one":
		return 1
	case "few":
		return rapid.Uint64Range(2, 8).Draw(t, name)
	case "some":
		return rapid.Uint64Range(9, 256).Draw(t, name)
	case "many":
		return rapid.Uint64Range(257, 4096).Draw(t, name)
	}
	if stats.Thorough() {
		return rapid.SampledFrom([]uint64{1 << 12, 1 << 15, maxBatch - 1, maxBatch}).Draw(t, name)
	}
	return rapid.SampledFrom([]uint64{4097, 1 << 13}).Draw(t, name)
}

var deltas = []int64{0, 0, 1, -1, 0}

func genCollateral(t *rapid.T, kind string) Amt {
	modes := []string{"abs", "big", "sect", "zero", "max", "sect", "big"}
	switch kind {
	case "renew":
		modes = []string{"abs", "keep", "big", "sect", "zero", "max", "keep", "big"}
	case "refresh_partial":
		modes = []string{"abs", "missed", "big", "sect", "zero", "max", "missed", "big"}
	}
	switch m := rapid.SampledFrom(modes).Draw(t, "coll-mode"); m {
	case "zero":
		return Amt{}
	case "abs":
		return Amt{V: genCur(t, "coll", 1, 90)}
	case "big":
		return Amt{V: genCur(t, "coll", 70, 90)}
	case "sect":
		return Amt{Mode: "sect", K: genSectors(t, "coll-k"), D: rapid.SampledFrom(deltas).Draw(t, "coll-d")}
	case "max":
		d := int64(0)
		if chance(t, "coll-over", 15) {
			d = 1
		} else if chance(t, "coll-under", 30) {
			d = -1
		}
		return Amt{Mode: "max", D: d}
	default:
		return Amt{Mode: m, D: rapid.SampledFrom(deltas).Draw(t, "coll-d")}
	}
}

func genAllowance(t *rapid.T, kind string) Amt {
	modes := []string{"min+big", "min+big", "min+", "min", "abs", "min+big"}
	switch kind {
	case "renew", "refresh_full":
		modes = []string{"min+big", "bal", "min+", "min", "abs", "bal", "min+big"}
	case "refresh_partial":
		modes = []string{"min+big", "balcp", "min+", "min", "abs", "balcp", "min+big"}
	}
	switch m := rapid.SampledFrom(modes).Draw(t, "allow-mode"); m {
	case "min":
		d := int64(0)
		if chance(t, "allow-under", 15) {
			d = -1
		} else if chance(t, "allow-over", 40) {
			d = 1
		}
		return Amt{Mode: "min", D: d}
	case "min+":
		return Amt{Mode: "min", V: genCur(t, "allow", 1, 100)}
	case "min+big":
		return Amt{Mode: "min", V: genCur(t, "allow", 80, 100)}
	case "abs":
		return Amt{V: genCur(t, "allow", 1, 100)}
	default:
		return Amt{Mode: m, D: rapid.SampledFrom(deltas).Draw(t, "allow-d")}
	}
}

// genProof draws the distance of the proof height from the earliest one Validate accepts.
func genProof(t *rapid.T, op *Op, maxDur uint64, form bool) {
	room := uint64(1)
	if maxDur > proofWindow+minDuration+16 {
		room = maxDur - proofWindow - minDuration - 16
	}
	classes := []string{"mid", "far", "near", "min", "maxdur", "mid", "far"}
	switch rapid.SampledFrom(classes).Draw(t, "proof-class") {
	case "min":
		op.Proof = 0
	case "near":
		op.Proof = rapid.Uint64Range(1, min(30, room)).Draw(t, "proof")
	case "mid":
		op.Proof = rapid.Uint64Range(min(31, room), min(2000, room)).Draw(t, "proof")
	case "far":
		op.Proof = rapid.Uint64Range(min(2001, room), room).Draw(t, "proof")
	case "maxdur":
		op.ProofMode = "maxdur"
		if chance(t, "proof-over", 15) {
			op.ProofD = 1
		} else if chance(t, "proof-under", 40) {
			op.ProofD = -1
		}
		return
	}
	if chance(t, "proof-bad", 4) {
		op.ProofD = -1
	}
}

func genFee(t *rapid.T) string {
	if chance(t, "fee-zero", 3) {
		return "0"
	}
	return genCur(t, "fee", 1, 80)
}

func genDrain(t *rapid.T) string {
	return rapid.SampledFrom([]string{"", "", "", "exact", "", "plus1", "minus1", "", "", ""}).Draw(t, "drain")
}

var opKinds = []string{
	"append", "renew", "refresh_partial", "refresh_full", "free", "roots", "fund", "replenish", "pay", "append",
	"reprice", "mine", "append", "free", "roots", "fund", "replenish", "refresh_partial", "refresh_full", "renew", "append",
}

func genOp(t *rapid.T, maxDur uint64, kind string) Op {
	if kind == "" {
		kind = rapid.SampledFrom(opKinds).Draw(t, "kind")
	}
	op := Op{Kind: kind}
	switch op.Kind {
	case "append":
		op.N = genSectors(t, "n")
		op.Drain = genDrain(t)
	case "free":
		op.N = rapid.OneOf(rapid.Uint64Range(1, 8), rapid.Just(uint64(1<<40)), rapid.Uint64Range(0, 300)).Draw(t, "n")
		// index list shape: 0 distinct (from the end), 1 repeated indices (possibly more indices than sectors),
		// 2 one index past the end, 3 distinct but unsorted
		op.Off = uint64(rapid.SampledFrom([]int{0, 0, 0, 1, 1, 2, 3}).Draw(t, "indexShape"))
		op.Drain = genDrain(t)
	case "roots":
		op.N = rapid.OneOf(rapid.Uint64Range(1, 4), rapid.Uint64Range(1, 5000), rapid.Just(uint64(1<<40)), rapid.Uint64Range(0, 1)).Draw(t, "n")
		op.Off = rapid.Uint64().Draw(t, "off")
		op.Drain = genDrain(t)
	case "fund":
		op.N = rapid.Uint64Range(0, 2).Draw(t, "deposits")
		if rapid.SampledFrom([]bool{false, true, false}).Draw(t, "bal") {
			op.Amount = Amt{Mode: "bal", D: rapid.SampledFrom(deltas).Draw(t, "d")}
		} else {
			op.Amount = Amt{V: genCur(t, "amount", 1, 100)}
		}
	case "replenish":
		if rapid.SampledFrom([]bool{false, true, false}).Draw(t, "bal") {
			op.Bals = []uint8{0}
			op.Amount = Amt{Mode: "bal", D: rapid.SampledFrom(deltas).Draw(t, "d")}
		} else {
			nb := rapid.IntRange(1, 4).Draw(t, "accounts")
			for i := 0; i < nb; i++ {
				op.Bals = append(op.Bals, uint8(rapid.IntRange(0, 5).Draw(t, "bal-quarters")))
			}
			op.Amount = Amt{V: genCur(t, "target", 1, 100)}
		}
	case "pay":
		for _, n := range []string{"rpc", "storage", "egress", "ingress", "fund", "risked"} {
			op.Usage = append(op.Usage, genCur(t, n, 0, 70))
		}
		op.Drain = genDrain(t)
	case "renew":
		op.Collateral = genCollateral(t, op.Kind)
		op.Allowance = genAllowance(t, op.Kind)
		genProof(t, &op, maxDur, false)
		op.Fee = genFee(t)
		op.N = rapid.Uint64Range(0, 1).Draw(t, "rotate-host-address")
	case "refresh_full", "refresh_partial":
		op.Collateral = genCollateral(t, op.Kind)
		op.Allowance = genAllowance(t, op.Kind)
		op.Fee = genFee(t)
		op.N = rapid.Uint64Range(0, 1).Draw(t, "rotate-host-address")
	case "reprice":
		p := genPrices(t)
		op.Prices = &p
	case "mine":
		op.N = rapid.Uint64Range(1, 20).Draw(t, "blocks")
	}
	if op.Kind != "renew" && !strings.HasPrefix(op.Kind, "refresh") && op.Kind != "reprice" && op.Kind != "mine" {
		op.Broadcast = rapid.SampledFrom([]bool{true, false, true}).Draw(t, "broadcast")
	}
	return op
}

func drawSeq(t *rapid.T) Case {
	c := Case{KeySeed: uint8(rapid.IntRange(0, 255).Draw(t, "keyseed"))}
	c.Prices = genPrices(t)
	if c.Prices.TipDelta < 0 {
		c.Prices.TipDelta = 0 // the chain is at height 0 when the first table is issued
	}
	if chance(t, "maxcoll-small", 20) {
		c.MaxCollateral = genCur(t, "maxcoll", 30, 100)
	} else {
		c.MaxCollateral = new(big.Int).Lsh(big.NewInt(1), 110).String()
	}
	if chance(t, "maxdur-small", 20) {
		c.MaxDuration = rapid.Uint64Range(proofWindow+minDuration+1, 5000).Draw(t, "maxdur")
	} else {
		c.MaxDuration = 1 << 20
	}
	c.Form = Op{Kind: "form", Collateral: genCollateral(t, "form"), Allowance: genAllowance(t, "form"), Fee: genFee(t)}
	genProof(t, &c.Form, c.MaxDuration, true)
	n := rapid.IntRange(3, 14).Draw(t, "nops")
	for i := 0; i < n; i++ {
		kind := ""
		if i == 0 && !chance(t, "first-any", 40) {
			kind = "append" // most sequences start by uploading something
		}
		c.Ops = append(c.Ops, genOp(t, c.MaxDuration, kind))
	}
	return c
}
