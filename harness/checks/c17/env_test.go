package c17

// Minimal consensus environment for the end-to-end half of C17: a private network with
// v2 active from genesis, two funding wallets (renter, host) paid by the genesis block, and
// helpers that sign, validate (consensus.ValidateV2Transaction) and apply transactions so
// that every constructor call starts from the contract element as recorded by consensus.

import (
	"fmt"
	"math/big"
	"time"

	"go.sia.tech/core/consensus"
	"go.sia.tech/core/types"
)

var (
	// HostPrices.Validate reads the wall clock; an expiry in 2100 makes it irrelevant.
	validUntil  = time.Date(2100, 1, 1, 0, 0, 0, 0, time.UTC)
	genesisTime = time.Unix(1618033988, 0)

	two64  = new(big.Int).Lsh(big.NewInt(1), 64)
	two120 = new(big.Int).Lsh(big.NewInt(1), 120)
	mask64 = new(big.Int).Sub(two64, big.NewInt(1))
)

func toBig(c types.Currency) *big.Int {
	b := new(big.Int).SetUint64(c.Hi)
	b.Lsh(b, 64)
	return b.Or(b, new(big.Int).SetUint64(c.Lo))
}

func fromBig(b *big.Int) types.Currency {
	if b.Sign() < 0 || b.BitLen() > 128 {
		panic("harness: currency out of range: " + b.String())
	}
	lo := new(big.Int).And(b, mask64).Uint64()
	hi := new(big.Int).Rsh(b, 64).Uint64()
	return types.NewCurrency(lo, hi)
}

func bu(v uint64) *big.Int { return new(big.Int).SetUint64(v) }

func mul(xs ...*big.Int) *big.Int {
	r := big.NewInt(1)
	for _, x := range xs {
		r.Mul(r, x)
	}
	return r
}

func sum(xs ...*big.Int) *big.Int {
	r := new(big.Int)
	for _, x := range xs {
		r.Add(r, x)
	}
	return r
}

func sub(a, b *big.Int) *big.Int { return new(big.Int).Sub(a, b) }

func minBig(a, b *big.Int) *big.Int {
	if a.Cmp(b) <= 0 {
		return a
	}
	return b
}

func dec(s string) *big.Int {
	if s == "" {
		return new(big.Int)
	}
	b, ok := new(big.Int).SetString(s, 10)
	if !ok || b.Sign() < 0 {
		panic("harness: bad decimal in case: " + s)
	}
	return b
}

// key derives a deterministic ed25519 key from the case's key seed and a role.
func key(seed uint8, role byte) types.PrivateKey {
	var s [32]byte
	s[0], s[1], s[2], s[3] = seed, role, 0xC1, 0x17
	return types.NewPrivateKeyFromSeed(s[:])
}

func v2Network() *consensus.Network {
	n := &consensus.Network{
		Name:            "c17",
		InitialCoinbase: types.Siacoins(300000),
		MinimumCoinbase: types.Siacoins(300000),
		BlockInterval:   10 * time.Minute,
		MaturityDelay:   0,
	}
	for i := range n.InitialTarget {
		n.InitialTarget[i] = 0xFF
	}
	n.HardforkDevAddr.Height = 0
	n.HardforkTax.Height = 0
	n.HardforkStorageProof.Height = 0
	n.HardforkOak.Height = 0
	n.HardforkOak.FixHeight = 0
	n.HardforkOak.GenesisTimestamp = genesisTime
	n.HardforkASIC.Height = 0
	n.HardforkASIC.OakTime = 10000 * time.Second
	n.HardforkASIC.OakTarget = n.InitialTarget
	n.HardforkASIC.NonceFactor = 1
	n.HardforkFoundation.Height = 0
	n.HardforkFoundation.PrimaryAddress = types.AnyoneCanSpend().Address()
	n.HardforkFoundation.FailsafeAddress = types.VoidAddress
	n.HardforkV2.AllowHeight = 0
	n.HardforkV2.RequireHeight = 1
	n.HardforkV2.FinalCutHeight = 1 << 30
	n.HardforkV2.EphemeralOutputHeight = 0
	return n
}

const (
	wRenter = 0
	wHost   = 1
)

type env struct {
	cs       consensus.State
	renterSK types.PrivateKey
	hostSK   types.PrivateKey
	walletSK [2]types.PrivateKey
	wallet   [2]types.SiacoinElement
	// payout addresses of the contract parties (distinct from the funding wallets)
	renterAddr, hostAddr types.Address

	fce     types.V2FileContractElement // the contract as recorded by consensus
	haveFCE bool
	now     time.Time
}

// walletValue is what each funding wallet holds at genesis: 2^124 H, far more than any
// sequence can spend while keeping every per-transaction sum below 2^128.
var walletValue = new(big.Int).Lsh(big.NewInt(1), 124)

func newEnv(seed uint8) *env {
	e := &env{
		renterSK: key(seed, 1),
		hostSK:   key(seed, 2),
		now:      genesisTime,
	}
	e.walletSK[wRenter] = key(seed, 3)
	e.walletSK[wHost] = key(seed, 4)
	e.renterAddr = types.StandardAddress(key(seed, 5).PublicKey())
	e.hostAddr = types.StandardAddress(key(seed, 6).PublicKey())

	n := v2Network()
	genesis := types.Block{
		Timestamp: genesisTime,
		Transactions: []types.Transaction{{
			SiacoinOutputs: []types.SiacoinOutput{
				{Address: types.StandardAddress(e.walletSK[wRenter].PublicKey()), Value: fromBig(walletValue)},
				{Address: types.StandardAddress(e.walletSK[wHost].PublicKey()), Value: fromBig(walletValue)},
			},
		}},
	}
	cs, au := consensus.ApplyBlock(n.GenesisState(), genesis, consensus.V1BlockSupplement{Transactions: make([]consensus.V1TransactionSupplement, 1)}, time.Time{})
	e.cs = cs
	e.absorb(au)
	return e
}

func (e *env) walletAddr(i int) types.Address {
	return types.StandardAddress(e.walletSK[i].PublicKey())
}

// absorb updates the held elements (wallets, contract) from an ApplyUpdate, using only the
// public update API.
func (e *env) absorb(au consensus.ApplyUpdate) {
	for i := range e.wallet {
		if e.wallet[i].ID != (types.SiacoinOutputID{}) {
			au.UpdateElementProof(&e.wallet[i].StateElement)
		}
	}
	if e.haveFCE {
		au.UpdateElementProof(&e.fce.StateElement)
	}
	for _, d := range au.SiacoinElementDiffs() {
		for i := range e.wallet {
			if d.Spent && d.SiacoinElement.ID == e.wallet[i].ID {
				e.wallet[i] = types.SiacoinElement{}
			}
		}
	}
	for _, d := range au.SiacoinElementDiffs() {
		for i := range e.wallet {
			if d.Created && !d.Spent && d.SiacoinElement.SiacoinOutput.Address == e.walletAddr(i) {
				e.wallet[i] = d.SiacoinElement.Copy()
			}
		}
	}
	for _, d := range au.V2FileContractElementDiffs() {
		switch {
		case d.Resolution != nil:
			if e.haveFCE && d.V2FileContractElement.ID == e.fce.ID {
				e.haveFCE = false
			}
		case d.Created:
			el := d.V2FileContractElement.Copy()
			if d.Revision != nil {
				el.V2FileContract = *d.Revision
			}
			e.fce, e.haveFCE = el, true
		case d.Revision != nil:
			el := d.V2FileContractElement.Copy()
			el.V2FileContract = *d.Revision
			e.fce, e.haveFCE = el, true
		}
	}
	// a renewal resolves the old element and creates the new one in the same block; make
	// sure the created one wins regardless of diff order
	for _, d := range au.V2FileContractElementDiffs() {
		if d.Created && d.Resolution == nil {
			el := d.V2FileContractElement.Copy()
			if d.Revision != nil {
				el.V2FileContract = *d.Revision
			}
			e.fce, e.haveFCE = el, true
		}
	}
}

// mine applies a block holding txns (no validation happens in ApplyBlock; every
// transaction has been validated by the caller).
func (e *env) mine(txns ...types.V2Transaction) {
	e.now = e.now.Add(10 * time.Minute)
	b := types.Block{
		ParentID:  e.cs.Index.ID,
		Timestamp: e.now,
		V2:        &types.V2BlockData{Height: e.cs.Index.Height + 1, Transactions: txns},
	}
	cs, au := consensus.ApplyBlock(e.cs, b, consensus.V1BlockSupplement{}, genesisTime)
	e.cs = cs
	e.absorb(au)
}

// fund adds both wallets as inputs and returns to each its value minus its cost as change.
// The transaction therefore balances iff the reported costs are exact.
func (e *env) fund(txn *types.V2Transaction, renterCost, hostCost *big.Int) error {
	costs := [2]*big.Int{renterCost, hostCost}
	for i := range e.wallet {
		if e.wallet[i].ID == (types.SiacoinOutputID{}) {
			return fmt.Errorf("harness: wallet %d has no element", i)
		}
		have := toBig(e.wallet[i].SiacoinOutput.Value)
		if costs[i].Sign() < 0 || costs[i].Cmp(have) >= 0 {
			return fmt.Errorf("harness: wallet %d cannot pay %v", i, costs[i])
		}
		txn.SiacoinInputs = append(txn.SiacoinInputs, types.V2SiacoinInput{
			Parent:          e.wallet[i].Copy(),
			SatisfiedPolicy: types.SatisfiedPolicy{Policy: types.PolicyPublicKey(e.walletSK[i].PublicKey())},
		})
		txn.SiacoinOutputs = append(txn.SiacoinOutputs, types.SiacoinOutput{Address: e.walletAddr(i), Value: fromBig(sub(have, costs[i]))})
	}
	return nil
}

func (e *env) signInputs(txn *types.V2Transaction) {
	h := e.cs.InputSigHash(*txn)
	for i := range txn.SiacoinInputs {
		for w := range e.wallet {
			if txn.SiacoinInputs[i].Parent.SiacoinOutput.Address == e.walletAddr(w) {
				txn.SiacoinInputs[i].SatisfiedPolicy.Signatures = []types.Signature{e.walletSK[w].SignHash(h)}
			}
		}
	}
}

func (e *env) signContract(fc *types.V2FileContract) {
	h := e.cs.ContractSigHash(*fc)
	fc.RenterSignature = e.renterSK.SignHash(h)
	fc.HostSignature = e.hostSK.SignHash(h)
}

func (e *env) signRenewal(r *types.V2FileContractRenewal) {
	e.signContract(&r.NewContract)
	h := e.cs.RenewalSigHash(*r)
	r.RenterSignature = e.renterSK.SignHash(h)
	r.HostSignature = e.hostSK.SignHash(h)
}

func (e *env) validate(txn types.V2Transaction) error {
	return consensus.ValidateV2Transaction(consensus.NewMidState(e.cs), txn)
}
