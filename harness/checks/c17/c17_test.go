// C17 — RHP contract constructors conserve funds and yield consensus-valid contracts.
//
// TestSeq     one Case = one drawn sequence NewContract -> {append, free, roots, fund, replenish, pay,
//             renew, refresh full, refresh partial, reprice, mine}; the pure checker replays it against
//             the library, an independent math/big model and a private consensus chain (env_test.go):
//             every request passes its own Validate, every result is signed, funded with exactly the
//             reported costs, accepted by consensus.ValidateV2Transaction and applied, and the next
//             call starts from the V2FileContractElement reported by ApplyUpdate.
// TestUsage   HostPrices.RPC*Cost / Usage.Add / Usage.Mul / RenterCost against math/big (v1_test.go).
// TestV1      rhp2 formation -> rhp3 PayByContract -> rhp2/rhp3 renewal: tax equation with an own
//             big-integer tax, valid==missed, cost functions, consensus.ValidateTransaction (v1_test.go).
// TestTaxEnum dense sweep of the v1 tax inversion over consecutive targets (v1_test.go).
//
// Sensitivity (tools/with_mutant.sh, ./run C17 quick at VERIF_SCALE=0.25, machine heavily shared so the
// seconds are upper bounds; "model" = killed only by the reference model, conservation/consensus alone
// would not see it):
//
//	M01 RenewContract renter rollover min->max                      killed 22s  renew/panic (Sub underflow)
//	M02 RenewContract host rollover min->max                        killed 12s  renew/cost-panic
//	M03 partial refresh TotalCollateral from fc.TotalCollateral     killed 26s  refresh_partial/model
//	M04 Usage.RenterCost omits Ingress                              killed 16s  rev/renter-cost
//	M05 PayWithContract does not increment RevisionNumber           killed 31s  rev/revnum
//	M06 MissedHostValue lowered by the renter cost, not collateral  killed 23s  rev/missed
//	M07 RenewalCost drops the tax                                   killed 19s  renew/cost
//	M08 consensus V2FileContractTax rounds up                       killed 16s  form/cost (own tax)
//	M09 PayWithContract rejects balance == cost                     killed 58s  rev/sufficient-rejected
//	M10 append ignores free capacity (growth = appended)            killed 51s  rev/sufficient-rejected, rev/usage
//	M11 partial refresh renterFunds without contract price          killed 42s  refresh_partial/model
//	M12 rhp2 taxAdjustedPayout gm<tm -> gm<=tm                      killed 42s  panic underflow / v1 tax
//	M13 rhp3 void payout drops base collateral                      killed 47s  v1/renew3/outputs
//	M14 round4KiB off by one                                        killed 36s  rev/usage
//	M15 append risked collateral uses StoragePrice                  killed 59s  rev/usage
//	M16 PayWithContract rejects remaining collateral == risked      killed 46s  rev/sufficient-rejected
//	M17 NewContract MissedHostValue includes contract price         killed 38s  form/model
//	M18 RenewContract storage cost counted from TipHeight           killed 52s  renew/model
//	M19 full refresh does not raise MissedHostValue                 killed 54s  refresh_full/model
//	M20 RefreshCost host share ignores contract price               killed 61s  refresh_*/cost
//	M21 ReviseForFreeSectors keeps Filesize                         killed 67s  rev/model/free
//	M22 rhp3 PayByContract does not credit missed host output       killed 49s  v1/pay/sum
//	M23 ContractCost host share zero                                killed 45s  form/cost
//	M24 RenewContract risked collateral uses old expiration         killed 64s  renew/model
//	M25 rhp2 formation void output 1 H                              killed 51s  v1/form/valid-missed
//	M26 renew Validate accepts ProofHeight == existing              SURVIVED    (not a violation: such a renewal still
//	                                                                            conserves funds and is consensus-valid; the
//	                                                                            checker treats a non-extending renewal as out of domain)
//	M27 refresh Validate drops the "too close to proof window" rule killed 61s  refresh_*/consensus
//	M30 RenewContract keeps old Capacity                            killed 62s  renew/model
//	M34 PayWithContract bumps RevisionNumber before the funds check killed 62s  rev/error-modified

// Package c17 holds the C17 check.
package c17

import (
	"fmt"
	"math/big"
	"strings"
	"testing"

	rhp4 "go.sia.tech/core/rhp/v4"
	"go.sia.tech/core/types"
	"verif/harness/stats"
)

func TestMain(m *testing.M) { stats.Main(m) }

const (
	sectorSize  = 1 << 22
	proofWindow = 144
	minDuration = 18
	maxBatch    = (1 << 40) / sectorSize
)

// ---- case ---------------------------------------------------------------------------------

// PriceSpec is a host price table; currencies are decimal hastings.
type PriceSpec struct {
	Contract   string `json:"contract"`
	Collateral string `json:"collateral"`
	Storage    string `json:"storage"`
	Ingress    string `json:"ingress"`
	Egress     string `json:"egress"`
	FreeSector string `json:"freeSector"`
	TipDelta   int64  `json:"tipDelta"` // TipHeight = chain height when the table is issued + TipDelta
}

// Amt is a currency parameter: base(Mode) + V + D. Symbolic bases are resolved by the
// checker against the contract state so that exact boundaries are hit on purpose.
//
//	""/"abs"  0
//	"bal"     renter balance of the contract                       (renew: rollover boundary)
//	"balcp"   renter balance - contract price                      (partial refresh boundary)
//	"min"     the minimum allowance Validate accepts for the chosen collateral
//	"sect"    collateral price * SectorSize * K * duration         (collateral for exactly K sectors)
//	"max"     the largest collateral Validate accepts
//	"keep"    renew: collateral for which new TotalCollateral == old TotalCollateral
//	"missed"  partial refresh: MissedHostValue (host rollover boundary)
type Amt struct {
	Mode string `json:"mode,omitempty"`
	V    string `json:"v,omitempty"`
	K    uint64 `json:"k,omitempty"`
	D    int64  `json:"d,omitempty"`
}

// Op is one step of a sequence.
type Op struct {
	Kind       string     `json:"kind"`
	N          uint64     `json:"n,omitempty"`     // sectors / roots length / blocks / deposits
	Off        uint64     `json:"off,omitempty"`   // roots: offset (reduced modulo what fits)
	Amount     Amt        `json:"amount,omitzero"` // fund / replenish target
	Bals       []uint8    `json:"bals,omitempty"`  // replenish: account balances in quarters of the target
	Allowance  Amt        `json:"allowance,omitzero"`
	Collateral Amt        `json:"collateral,omitzero"`
	ProofMode  string     `json:"proofMode,omitempty"` // "" minimal valid proof height + Proof; "maxdur": longest allowed
	Proof      uint64     `json:"proof,omitempty"`
	ProofD     int64      `json:"proofD,omitempty"`
	Fee        string     `json:"fee,omitempty"`
	Drain      string     `json:"drain,omitempty"` // "", exact, minus1, plus1: first fund accounts so that balance == cost (+-1)
	Broadcast  bool       `json:"broadcast,omitempty"`
	Prices     *PriceSpec `json:"prices,omitempty"` // reprice
	Usage      []string   `json:"usage,omitempty"`  // pay: rpc, storage, egress, ingress, accountFunding, collateral
}

// Case is one whole sequence.
type Case struct {
	KeySeed       uint8     `json:"keySeed"`
	Prices        PriceSpec `json:"prices"`
	MaxCollateral string    `json:"maxCollateral"`
	MaxDuration   uint64    `json:"maxDuration"`
	Form          Op        `json:"form"`
	Ops           []Op      `json:"ops"`
}

// ---- reference usage ----------------------------------------------------------------------

type bigUsage struct{ RPC, Storage, Egress, Ingress, Fund, Risked *big.Int }

func zeroUsage() bigUsage {
	return bigUsage{new(big.Int), new(big.Int), new(big.Int), new(big.Int), new(big.Int), new(big.Int)}
}

func (u bigUsage) cost() *big.Int { return sum(u.RPC, u.Storage, u.Egress, u.Ingress, u.Fund) }

func usageOf(u rhp4.Usage) bigUsage {
	return bigUsage{toBig(u.RPC), toBig(u.Storage), toBig(u.Egress), toBig(u.Ingress), toBig(u.AccountFunding), toBig(u.RiskedCollateral)}
}

func (u bigUsage) eq(v bigUsage) bool {
	return u.RPC.Cmp(v.RPC) == 0 && u.Storage.Cmp(v.Storage) == 0 && u.Egress.Cmp(v.Egress) == 0 &&
		u.Ingress.Cmp(v.Ingress) == 0 && u.Fund.Cmp(v.Fund) == 0 && u.Risked.Cmp(v.Risked) == 0
}

func (u bigUsage) String() string {
	return fmt.Sprintf("{rpc %v storage %v egress %v ingress %v fund %v risked %v}", u.RPC, u.Storage, u.Egress, u.Ingress, u.Fund, u.Risked)
}

func round4K(n uint64) *big.Int {
	b := bu(n)
	b.Add(b, big.NewInt(4095))
	b.Rsh(b, 12)
	return b.Lsh(b, 12)
}

type bigPrices struct{ contract, collateral, storage, ingress, egress, free *big.Int }

// ---- the run ------------------------------------------------------------------------------

type run struct {
	c       *Case
	e       *env
	hp      rhp4.HostPrices
	bp      bigPrices
	maxColl *big.Int
	latest  types.V2FileContract // latest revision known to both parties (may be ahead of the chain)

	kinds    []string
	classes  []string
	grew     bool
	boundary bool
	renewed  bool
	executed int
}

func (r *run) label(l string) { stats.G().Label(l) }

func (r *run) note(kind, class string) {
	r.kinds = append(r.kinds, kind)
	r.classes = append(r.classes, class)
	r.label("op:" + kind + ":" + class)
}

func (r *run) setPrices(ps PriceSpec) {
	tip := int64(r.e.cs.Index.Height) + ps.TipDelta
	if tip < 0 {
		tip = 0
	}
	r.bp = bigPrices{dec(ps.Contract), dec(ps.Collateral), dec(ps.Storage), dec(ps.Ingress), dec(ps.Egress), dec(ps.FreeSector)}
	r.hp = rhp4.HostPrices{
		ContractPrice:   fromBig(r.bp.contract),
		Collateral:      fromBig(r.bp.collateral),
		StoragePrice:    fromBig(r.bp.storage),
		IngressPrice:    fromBig(r.bp.ingress),
		EgressPrice:     fromBig(r.bp.egress),
		FreeSectorPrice: fromBig(r.bp.free),
		TipHeight:       uint64(tip),
		ValidUntil:      validUntil,
	}
	r.hp.Signature = r.e.hostSK.SignHash(r.hp.SigHash())
}

func (r *run) hostKey() types.PublicKey { return r.e.hostSK.PublicKey() }

type vals struct{ R, H, M, T *big.Int }

func valsOf(fc types.V2FileContract) vals {
	return vals{toBig(fc.RenterOutput.Value), toBig(fc.HostOutput.Value), toBig(fc.MissedHostValue), toBig(fc.TotalCollateral)}
}

func bigTax(renter, host *big.Int) *big.Int {
	return new(big.Int).Quo(sum(renter, host), big.NewInt(25))
}

// minAllowance is Validate's documented lower bound on the allowance for a collateral:
// the storage price of as many bytes as the collateral covers at the collateral price.
func (r *run) minAllowance(collateral *big.Int) *big.Int {
	if r.bp.collateral.Sign() == 0 {
		return new(big.Int)
	}
	return mul(r.bp.storage, new(big.Int).Quo(collateral, r.bp.collateral))
}

var errSkip = fmt.Errorf("skip")

// rejectClass turns a Validate error into a short stable label (numbers and units removed).
func rejectClass(err error) string {
	units := map[string]bool{"H": true, "pS": true, "nS": true, "uS": true, "mS": true, "SC": true, "KS": true, "MS": true, "GS": true, "TS": true}
	var out []string
	for _, tok := range strings.Fields(err.Error()) {
		if strings.ContainsAny(tok, "0123456789()") || units[tok] {
			continue
		}
		out = append(out, tok)
		if len(out) == 7 {
			break
		}
	}
	return strings.Join(out, " ")
}

// amt resolves a symbolic amount; negative results are clamped to zero.
func (r *run) amt(a Amt, bases map[string]*big.Int) (*big.Int, error) {
	base := new(big.Int)
	if a.Mode != "" && a.Mode != "abs" {
		b, ok := bases[a.Mode]
		if !ok || b == nil {
			return nil, errSkip
		}
		base = b
	}
	v := sum(base, dec(a.V), big.NewInt(a.D))
	if v.Sign() < 0 {
		v.SetInt64(0)
	}
	if v.BitLen() > 112 {
		return nil, errSkip // outside the stated magnitude domain
	}
	return v, nil
}

func minHeight(tip, priceTip uint64) uint64 {
	return max(tip, priceTip) + minDuration
}

// proofHeight resolves the proof height of a formation or renewal: the earliest height
// Validate accepts (or floor, if later) plus op.Proof reduced modulo the room the host's
// maximum duration leaves, plus op.ProofD; or, in mode "maxdur", the height at which the
// duration equals the maximum exactly (plus op.ProofD).
func (r *run) proofHeight(op Op, floor uint64) uint64 {
	base := minHeight(r.e.cs.Index.Height, r.hp.TipHeight)
	if floor > base {
		base = floor
	}
	// duration = proofHeight + window - priceTip <= MaxDuration
	last := int64(r.hp.TipHeight+r.c.MaxDuration) - proofWindow
	if op.ProofMode == "maxdur" {
		return uint64(max(last+op.ProofD, 0))
	}
	d := op.Proof
	if last >= int64(base) {
		d %= uint64(last) - base + 1
	}
	return uint64(max(int64(base+d)+op.ProofD, 0))
}

func failf(key, format string, args ...any) error { return stats.Failf("C17/"+key, format, args...) }

// ---- formation ----------------------------------------------------------------------------

func (r *run) form() (bool, error) {
	op := r.c.Form
	ph := r.proofHeight(op, 0)
	dur := new(big.Int).Sub(bu(ph+proofWindow), bu(r.hp.TipHeight))
	bases := map[string]*big.Int{"max": r.maxColl}
	if dur.Sign() > 0 {
		bases["sect"] = mul(r.bp.collateral, bu(sectorSize), bu(op.Collateral.K), dur)
	}
	coll, err := r.amt(op.Collateral, bases)
	if err != nil {
		r.note("form", "skip-domain")
		return false, nil
	}
	bases["min"] = r.minAllowance(coll)
	if bases["min"].Cmp(two120) > 0 {
		r.note("form", "skip-domain-min-allowance")
		return false, nil
	}
	allow, err := r.amt(op.Allowance, bases)
	if err != nil {
		r.note("form", "skip-domain")
		return false, nil
	}
	fee := dec(op.Fee)
	params := rhp4.RPCFormContractParams{
		RenterPublicKey: r.e.renterSK.PublicKey(),
		RenterAddress:   r.e.renterAddr,
		Allowance:       fromBig(allow),
		Collateral:      fromBig(coll),
		ProofHeight:     ph,
	}
	req := rhp4.RPCFormContractRequest{
		Prices:       r.hp,
		Contract:     params,
		MinerFee:     fromBig(fee),
		Basis:        r.e.cs.Index,
		RenterInputs: []types.SiacoinElement{r.e.wallet[wRenter].Copy()},
	}
	if err := req.Validate(r.hostKey(), r.e.cs.Index, fromBig(r.maxColl), r.c.MaxDuration); err != nil {
		r.label("reject:" + "form" + ":" + rejectClass(err))
		r.note("form", "validate-reject")
		return false, nil
	}
	fc, usage := rhp4.NewContract(r.hp, params, r.hostKey(), r.e.hostAddr)

	want := types.V2FileContract{
		ProofHeight:      ph,
		ExpirationHeight: ph + proofWindow,
		RenterOutput:     types.SiacoinOutput{Value: fromBig(allow), Address: r.e.renterAddr},
		HostOutput:       types.SiacoinOutput{Value: fromBig(sum(coll, r.bp.contract)), Address: r.e.hostAddr},
		MissedHostValue:  fromBig(coll),
		TotalCollateral:  fromBig(coll),
		RenterPublicKey:  r.e.renterSK.PublicKey(),
		HostPublicKey:    r.hostKey(),
	}
	if fc != want {
		return false, failf("form/model", "NewContract = %+v, want %+v", fc, want)
	}
	wantU := zeroUsage()
	wantU.RPC = r.bp.contract
	if !usageOf(usage).eq(wantU) {
		return false, failf("form/usage", "NewContract usage %v, want %v", usageOf(usage), wantU)
	}
	var rc, hc types.Currency
	if p, st := stats.NoPanic(func() { rc, hc = rhp4.ContractCost(r.e.cs, fc, fromBig(fee)) }); p != nil {
		return false, failf("form/cost-panic", "ContractCost panicked: %v\n%s", p, st)
	}
	v := valsOf(fc)
	need := sum(v.R, v.H, bigTax(v.R, v.H), fee)
	if sum(toBig(rc), toBig(hc)).Cmp(need) != 0 {
		return false, failf("form/cost", "ContractCost renter %v + host %v != renter output %v + host output %v + tax %v + fee %v", rc, hc, v.R, v.H, bigTax(v.R, v.H), fee)
	}
	if toBig(hc).Cmp(coll) != 0 {
		return false, failf("form/host-cost", "ContractCost host share %v != collateral %v", hc, coll)
	}

	txn := types.V2Transaction{FileContracts: []types.V2FileContract{fc}, MinerFee: fromBig(fee)}
	if err := r.e.fund(&txn, toBig(rc), toBig(hc)); err != nil {
		return false, stats.Failf("", "%v", err)
	}
	r.e.signContract(&txn.FileContracts[0])
	r.e.signInputs(&txn)
	if err := r.e.validate(txn); err != nil {
		return false, failf("form/consensus", "formation transaction rejected by consensus: %v\ncontract %+v", err, fc)
	}
	r.e.mine(txn)
	if !r.e.haveFCE || r.e.fce.V2FileContract != txn.FileContracts[0] {
		return false, stats.Failf("", "harness: formed contract not recorded by consensus")
	}
	r.latest = r.e.fce.V2FileContract
	cls := "ok"
	if coll.Sign() == 0 {
		cls = "ok-zero-collateral"
	}
	if op.Allowance.Mode == "min" && op.Allowance.V == "" && op.Allowance.D == 0 {
		r.label("boundary:form-allowance==min")
	}
	if op.Collateral.Mode == "max" && op.Collateral.D == 0 {
		r.label("boundary:form-collateral==max")
	}
	r.note("form", cls)
	return true, nil
}

// ---- revisions ----------------------------------------------------------------------------

func (r *run) revisable() bool {
	return r.e.haveFCE && r.hp.TipHeight < r.latest.ProofHeight && r.e.cs.Index.Height+1 <= r.e.fce.V2FileContract.ProofHeight &&
		r.e.cs.Index.Height+1 <= r.latest.ProofHeight
}

type revPlan struct {
	kind     string
	usage    bigUsage
	filesize uint64
	capacity uint64
	root     types.Hash256
	call     func(fc types.V2FileContract) (types.V2FileContract, rhp4.Usage, error)
	labels   []string
}

func opRoot(i int, kind string) types.Hash256 {
	return types.HashBytes([]byte(fmt.Sprintf("c17/%d/%s", i, kind)))
}

// plan builds the request for a revision op, runs its Validate and returns the expected
// effect. ok=false means the op is outside the preconditions (labelled).
func (r *run) plan(i int, op Op) (revPlan, bool) {
	fc := r.latest
	p := revPlan{kind: op.Kind, usage: zeroUsage(), filesize: fc.Filesize, capacity: fc.Capacity, root: fc.FileMerkleRoot}
	id := r.e.fce.ID
	sectors := fc.Filesize / sectorSize
	switch op.Kind {
	case "append":
		n := op.N
		if n == 0 || n > maxBatch || sectors+n > 1<<28 {
			r.note(op.Kind, "skip-domain")
			return p, false
		}
		req := rhp4.RPCAppendSectorsRequest{Prices: r.hp, Sectors: make([]types.Hash256, n), ContractID: id}
		if err := req.Validate(r.hostKey()); err != nil {
			r.label("reject:" + op.Kind + ":" + rejectClass(err))
			r.note(op.Kind, "validate-reject")
			return p, false
		}
		free := (fc.Capacity - fc.Filesize) / sectorSize
		growth := uint64(0)
		if n > free {
			growth = n - free
		}
		dur := bu(fc.ExpirationHeight - r.hp.TipHeight)
		p.usage.Storage = mul(r.bp.storage, bu(sectorSize), bu(growth), dur)
		p.usage.Ingress = mul(r.bp.ingress, round4K(32*growth))
		p.usage.Risked = mul(r.bp.collateral, bu(sectorSize), bu(growth), dur)
		p.filesize = fc.Filesize + n*sectorSize
		p.capacity = fc.Capacity + growth*sectorSize
		p.root = opRoot(i, "append")
		root := p.root
		p.call = func(fc types.V2FileContract) (types.V2FileContract, rhp4.Usage, error) {
			return rhp4.ReviseForAppendSectors(fc, r.hp, root, n)
		}
		switch {
		case growth == n:
			p.labels = append(p.labels, "append:all-growth")
		case growth == 0:
			p.labels = append(p.labels, "append:all-reuse")
		default:
			p.labels = append(p.labels, "append:mixed-reuse-growth")
		}
	case "free":
		n := op.N
		if n > sectors {
			n = sectors
		}
		if n > maxBatch {
			n = maxBatch
		}
		idx := make([]uint64, n)
		for j := range idx {
			idx[j] = sectors - 1 - uint64(j)
		}
		switch {
		case op.Off == 1 && sectors > 0:
			// repeated indices, all in range; with op.N above the sector count there are more indices than sectors.
			// Whatever Validate lets through goes to the constructor with len(indices), as a host does, and the
			// result has to be a consensus-valid revision like any other
			n = op.N
			if n > maxBatch {
				n = maxBatch
			}
			if n < 2 {
				n = 2
			}
			idx = make([]uint64, n)
			for j := range idx {
				idx[j] = (sectors - 1 - uint64(j)%sectors) % sectors
			}
			if n <= sectors {
				idx[n-1] = idx[0]
			}
			p.labels = append(p.labels, "free:repeated-indices")
		case op.Off == 2 && n > 0:
			idx[0] = sectors // one past the end
			p.labels = append(p.labels, "free:index-past-end")
		case op.Off == 3 && n > 1:
			idx[0], idx[n-1] = idx[n-1], idx[0]
		}
		req := rhp4.RPCFreeSectorsRequest{ContractID: id, Prices: r.hp, Indices: idx}
		if err := req.Validate(r.hostKey(), fc); err != nil {
			r.label("reject:" + op.Kind + ":" + rejectClass(err))
			r.note(op.Kind, "validate-reject")
			return p, false
		}
		p.usage.RPC = mul(r.bp.free, bu(n))
		p.filesize = fc.Filesize - n*sectorSize
		p.root = opRoot(i, "free")
		root := p.root
		p.call = func(fc types.V2FileContract) (types.V2FileContract, rhp4.Usage, error) {
			return rhp4.ReviseForFreeSectors(fc, r.hp, root, int(n))
		}
		if n == 0 {
			p.labels = append(p.labels, "free:zero-sectors")
		} else if n == sectors {
			p.labels = append(p.labels, "free:all-sectors")
		}
	case "roots":
		length := op.N
		if sectors > 0 && length > sectors {
			length = 1 + (length-1)%sectors
		}
		off := uint64(0)
		if sectors > length {
			off = op.Off % (sectors - length + 1)
		}
		req := rhp4.RPCSectorRootsRequest{Prices: r.hp, ContractID: id, Offset: off, Length: length}
		if err := req.Validate(r.hostKey(), fc); err != nil {
			r.label("reject:" + op.Kind + ":" + rejectClass(err))
			r.note(op.Kind, "validate-reject")
			return p, false
		}
		p.usage.Egress = mul(r.bp.egress, round4K(32*length))
		p.call = func(fc types.V2FileContract) (types.V2FileContract, rhp4.Usage, error) {
			return rhp4.ReviseForSectorRoots(fc, r.hp, length)
		}
	case "fund":
		amount, err := r.amt(op.Amount, map[string]*big.Int{"bal": toBig(fc.RenterOutput.Value)})
		if err != nil {
			r.note(op.Kind, "skip-domain")
			return p, false
		}
		k := int(op.N%3) + 1
		// split into k deposits; the last takes the remainder
		deps := make([]rhp4.AccountDeposit, k)
		part := new(big.Int).Quo(amount, big.NewInt(int64(k)))
		rest := new(big.Int).Set(amount)
		for j := range deps {
			a := part
			if j == k-1 {
				a = rest
			}
			deps[j] = rhp4.AccountDeposit{Account: rhp4.Account(key(r.c.KeySeed, byte(16+j)).PublicKey()), Amount: fromBig(a)}
			rest = sub(rest, a)
		}
		req := rhp4.RPCFundAccountsRequest{ContractID: id, Deposits: deps, RenterSignature: types.Signature{1}}
		if err := req.Validate(); err != nil {
			r.label("reject:" + op.Kind + ":" + rejectClass(err))
			r.note(op.Kind, "validate-reject")
			return p, false
		}
		total := new(big.Int)
		for _, d := range deps {
			total.Add(total, toBig(d.Amount))
		}
		p.usage.Fund = total
		p.call = func(fc types.V2FileContract) (types.V2FileContract, rhp4.Usage, error) {
			return rhp4.ReviseForFundAccounts(fc, fromBig(total))
		}
	case "replenish":
		target, err := r.amt(op.Amount, map[string]*big.Int{"bal": toBig(fc.RenterOutput.Value)})
		if err != nil {
			r.note(op.Kind, "skip-domain")
			return p, false
		}
		bals := op.Bals
		if len(bals) == 0 {
			bals = []uint8{0}
		}
		accts := make([]rhp4.Account, len(bals))
		for j := range accts {
			accts[j] = rhp4.Account(key(r.c.KeySeed, byte(32+j)).PublicKey())
		}
		req := rhp4.RPCReplenishAccountsRequest{Accounts: accts, Target: fromBig(target), ContractID: id, ChallengeSignature: types.Signature{1}}
		if err := req.Validate(); err != nil {
			r.label("reject:" + op.Kind + ":" + rejectClass(err))
			r.note(op.Kind, "validate-reject")
			return p, false
		}
		// the host tops every account up to the target
		var resp rhp4.RPCReplenishAccountsResponse
		total := new(big.Int)
		for j, q := range bals {
			bal := new(big.Int).Quo(mul(target, big.NewInt(int64(q))), big.NewInt(4))
			if bal.Cmp(target) >= 0 {
				continue
			}
			d := sub(target, bal)
			total.Add(total, d)
			resp.Deposits = append(resp.Deposits, rhp4.AccountDeposit{Account: accts[j], Amount: fromBig(d)})
		}
		if got := toBig(resp.TotalCost()); got.Cmp(total) != 0 {
			r.label("replenish:totalcost-mismatch") // reported below through the usage check
			total = got
		}
		p.usage.Fund = total
		p.call = func(fc types.V2FileContract) (types.V2FileContract, rhp4.Usage, error) {
			return rhp4.ReviseForReplenish(fc, fromBig(total))
		}
		if total.Sign() == 0 {
			p.labels = append(p.labels, "replenish:nothing-to-deposit")
		}
	case "pay":
		if len(op.Usage) != 6 {
			r.note(op.Kind, "skip-domain")
			return p, false
		}
		u := rhp4.Usage{
			RPC: fromBig(dec(op.Usage[0])), Storage: fromBig(dec(op.Usage[1])), Egress: fromBig(dec(op.Usage[2])),
			Ingress: fromBig(dec(op.Usage[3])), AccountFunding: fromBig(dec(op.Usage[4])), RiskedCollateral: fromBig(dec(op.Usage[5])),
		}
		p.usage = bigUsage{dec(op.Usage[0]), dec(op.Usage[1]), dec(op.Usage[2]), dec(op.Usage[3]), dec(op.Usage[4]), dec(op.Usage[5])}
		p.call = func(fc types.V2FileContract) (types.V2FileContract, rhp4.Usage, error) {
			before := fc
			err := rhp4.PayWithContract(&fc, u)
			if err != nil && fc != before {
				return fc, u, fmt.Errorf("MODIFIED-ON-ERROR: %w", err)
			}
			if err != nil {
				return fc, rhp4.Usage{}, err
			}
			return fc, u, nil
		}
	default:
		panic("harness: unknown revision kind " + op.Kind)
	}
	return p, true
}

// revise executes one planned revision against the latest contract and checks it.
func (r *run) revise(p revPlan, broadcast bool) error {
	before := r.latest
	b := valsOf(before)
	cost, risk := p.usage.cost(), p.usage.Risked
	var got types.V2FileContract
	var gotU rhp4.Usage
	var err error
	if pv, st := stats.NoPanic(func() { got, gotU, err = p.call(before) }); pv != nil {
		return failf("rev/panic/"+p.kind, "%s panicked: %v\n%s", p.kind, pv, st)
	}
	for _, l := range p.labels {
		r.label(l)
	}
	// boundary bookkeeping
	dR := sub(b.R, cost)
	switch {
	case dR.Sign() == 0 && cost.Sign() > 0:
		r.label("boundary:balance==cost")
		r.boundary = true
	case dR.Cmp(big.NewInt(1)) == 0:
		r.label("boundary:balance==cost+1")
		r.boundary = true
	case dR.Cmp(big.NewInt(-1)) == 0:
		r.label("boundary:balance==cost-1")
		r.boundary = true
	}
	if risk.Sign() > 0 {
		dM := sub(b.M, risk)
		switch {
		case dM.Sign() == 0:
			r.label("boundary:collateral==risked")
			r.boundary = true
		case dM.CmpAbs(big.NewInt(1)) == 0:
			r.label("boundary:collateral==risked+-1")
			r.boundary = true
		}
	}

	sufficient := b.R.Cmp(cost) >= 0 && b.M.Cmp(risk) >= 0
	if !sufficient {
		cls := "insufficient-renter"
		if b.R.Cmp(cost) >= 0 {
			cls = "insufficient-collateral"
		}
		if err == nil {
			return failf("rev/insufficient-accepted/"+p.kind, "%s succeeded although balance %v / remaining collateral %v cannot cover cost %v / risked %v", p.kind, b.R, b.M, cost, risk)
		}
		if strings.HasPrefix(err.Error(), "MODIFIED-ON-ERROR") {
			return failf("rev/error-modified/"+p.kind, "PayWithContract returned an error but modified the contract: %v", err)
		}
		if gotU != (rhp4.Usage{}) {
			// sector roots / fund / replenish return the attempted usage next to the error; callers
			// must look at the error first, so this is only recorded
			r.label("rev:error-returns-nonzero-usage")
		}
		if got.RenterOutput != before.RenterOutput || got.HostOutput != before.HostOutput || got.MissedHostValue != before.MissedHostValue ||
			got.TotalCollateral != before.TotalCollateral || got.RevisionNumber != before.RevisionNumber {
			return failf("rev/error-modified/"+p.kind, "%s failed (%v) but the returned contract moved funds: %+v -> %+v", p.kind, err, before, got)
		}
		r.note(p.kind, cls)
		return nil
	}
	if err != nil {
		return failf("rev/sufficient-rejected/"+p.kind, "%s failed (%v) although balance %v >= cost %v and remaining collateral %v >= risked %v", p.kind, err, b.R, cost, b.M, risk)
	}
	g := valsOf(got)
	gu := usageOf(gotU)
	if !gu.eq(p.usage) {
		return failf("rev/usage/"+p.kind, "%s reported usage %v, want %v (prices %+v)", p.kind, gu, p.usage, r.hp)
	}
	if sum(g.R, g.H).Cmp(sum(b.R, b.H)) != 0 {
		return failf("rev/sum/"+p.kind, "%s changed renter+host sum %v -> %v", p.kind, sum(b.R, b.H), sum(g.R, g.H))
	}
	if moved := sub(b.R, g.R); moved.Cmp(gu.cost()) != 0 || moved.Cmp(toBig(gotU.RenterCost())) != 0 {
		return failf("rev/renter-cost/"+p.kind, "%s moved %v from the renter, usage components sum to %v, RenterCost() = %v", p.kind, moved, gu.cost(), gotU.RenterCost())
	}
	if g.M.Cmp(b.M) > 0 {
		return failf("rev/missed-raised/"+p.kind, "%s raised MissedHostValue %v -> %v", p.kind, b.M, g.M)
	}
	if lowered := sub(b.M, g.M); lowered.Cmp(gu.Risked) != 0 || lowered.Cmp(toBig(gotU.HostRiskedCollateral())) != 0 {
		return failf("rev/missed/"+p.kind, "%s lowered MissedHostValue by %v, reported risked collateral %v", p.kind, lowered, gu.Risked)
	}
	if g.T.Cmp(b.T) != 0 {
		return failf("rev/total-collateral/"+p.kind, "%s changed TotalCollateral %v -> %v", p.kind, b.T, g.T)
	}
	if got.RevisionNumber != before.RevisionNumber+1 {
		return failf("rev/revnum/"+p.kind, "%s revision number %d -> %d", p.kind, before.RevisionNumber, got.RevisionNumber)
	}
	want := before
	want.RevisionNumber++
	want.RenterOutput.Value = fromBig(sub(b.R, cost))
	want.HostOutput.Value = fromBig(sum(b.H, cost))
	want.MissedHostValue = fromBig(sub(b.M, risk))
	want.Filesize, want.Capacity, want.FileMerkleRoot = p.filesize, p.capacity, p.root
	want.RenterSignature, want.HostSignature = got.RenterSignature, got.HostSignature // not part of the property
	if got != want {
		return failf("rev/model/"+p.kind, "%s produced %+v, want %+v", p.kind, got, want)
	}

	// end to end: the revision must be acceptable to consensus on top of the recorded element
	rev := got
	r.e.signContract(&rev)
	txn := types.V2Transaction{FileContractRevisions: []types.V2FileContractRevision{{Parent: r.e.fce.Copy(), Revision: rev}}}
	if err := r.e.validate(txn); err != nil {
		return failf("rev/consensus/"+p.kind, "%s revision rejected by consensus: %v\nparent %+v\nrevision %+v", p.kind, err, r.e.fce.V2FileContract, rev)
	}
	if broadcast {
		r.e.mine(txn)
		if !r.e.haveFCE || r.e.fce.V2FileContract != rev {
			return stats.Failf("", "harness: revision not recorded by consensus")
		}
		r.label("rev:broadcast")
	} else {
		r.label("rev:offchain")
	}
	r.latest = rev
	if p.kind == "append" && p.capacity > before.Capacity {
		r.grew = true
	}
	r.executed++
	r.note(p.kind, "ok")
	return nil
}

func (r *run) revision(i int, op Op) error {
	if !r.revisable() {
		r.note(op.Kind, "skip-not-revisable")
		return nil
	}
	p, ok := r.plan(i, op)
	if !ok {
		return nil
	}
	if op.Drain != "" {
		d := map[string]int64{"exact": 0, "minus1": -1, "plus1": 1}[op.Drain]
		leave := sum(p.usage.cost(), big.NewInt(d))
		amount := sub(toBig(r.latest.RenterOutput.Value), leave)
		if leave.Sign() >= 0 && amount.Sign() > 0 {
			dp, ok := r.plan(i, Op{Kind: "fund", N: 0, Amount: Amt{V: amount.String()}})
			if ok {
				dp.kind = "drain"
				if err := r.revise(dp, op.Broadcast); err != nil {
					return err
				}
				if !r.revisable() {
					r.note(op.Kind, "skip-not-revisable")
					return nil
				}
			}
		}
	}
	return r.revise(p, op.Broadcast)
}

// ---- renew / refresh ----------------------------------------------------------------------

func (r *run) renewal(op Op) error {
	if !r.e.haveFCE {
		r.note(op.Kind, "skip-no-contract")
		return nil
	}
	old := r.latest
	b := valsOf(old)
	cp := r.bp.contract
	fee := dec(op.Fee)
	id := r.e.fce.ID
	hostAddr := r.e.hostAddr
	if op.N%2 == 1 {
		hostAddr = types.StandardAddress(key(r.c.KeySeed, 7).PublicKey()) // host rotates its payout address
	}

	var renewal types.V2FileContractRenewal
	var usage rhp4.Usage
	want := types.V2FileContractRenewal{FinalRenterOutput: old.RenterOutput, FinalHostOutput: old.HostOutput, NewContract: old}
	want.NewContract.RevisionNumber = 0
	want.NewContract.RenterSignature, want.NewContract.HostSignature = types.Signature{}, types.Signature{}
	want.NewContract.HostOutput.Address = hostAddr
	wantU := zeroUsage()
	wantU.RPC = cp
	var renterRoll, hostRoll, nR, nH, nM, nT *big.Int
	var costFn func() (types.Currency, types.Currency)

	switch op.Kind {
	case "renew":
		ph := r.proofHeight(op, old.ProofHeight+1)
		if ph+proofWindow <= r.hp.TipHeight || ph+proofWindow <= old.ExpirationHeight {
			r.note(op.Kind, "skip-domain")
			return nil
		}
		dur := bu(ph + proofWindow - r.hp.TipHeight)
		risked := mul(r.bp.collateral, bu(old.Filesize), dur)
		bases := map[string]*big.Int{
			"sect": mul(r.bp.collateral, bu(sectorSize), bu(op.Collateral.K), dur),
			"max":  sub(r.maxColl, risked),
			"keep": sub(b.T, risked),
		}
		coll, err := r.amt(op.Collateral, bases)
		if err != nil || risked.BitLen() > 112 {
			r.note(op.Kind, "skip-domain")
			return nil
		}
		bases["bal"] = b.R
		bases["min"] = r.minAllowance(coll)
		if bases["min"].Cmp(two120) > 0 {
			r.note(op.Kind, "skip-domain-min-allowance")
			return nil
		}
		allow, err := r.amt(op.Allowance, bases)
		if err != nil {
			r.note(op.Kind, "skip-domain")
			return nil
		}
		params := rhp4.RPCRenewContractParams{ContractID: id, Allowance: fromBig(allow), Collateral: fromBig(coll), ProofHeight: ph}
		req := rhp4.RPCRenewContractRequest{Prices: r.hp, Renewal: params, MinerFee: fromBig(fee), Basis: r.e.cs.Index,
			RenterInputs: []types.SiacoinElement{r.e.wallet[wRenter].Copy()}}
		if err := req.Validate(r.hostKey(), r.e.cs.Index, old, fromBig(r.maxColl), r.c.MaxDuration); err != nil {
			r.label("reject:" + op.Kind + ":" + rejectClass(err))
			r.note(op.Kind, "validate-reject")
			return nil
		}
		if pv, st := stats.NoPanic(func() { renewal, usage = rhp4.RenewContract(old, r.hp, hostAddr, params) }); pv != nil {
			return failf("renew/panic", "RenewContract panicked: %v\n%s", pv, st)
		}
		// model: documented semantics of a renewal
		storage := mul(r.bp.storage, bu(old.Filesize), bu(ph+proofWindow-old.ExpirationHeight))
		nT = sum(coll, risked)
		nM = coll
		nH = sum(nT, storage, cp)
		nR = allow
		hostRoll = minBig(b.T, nT)
		renterRoll = minBig(b.R, allow)
		want.NewContract.Capacity = old.Filesize
		want.NewContract.ProofHeight = ph
		want.NewContract.ExpirationHeight = ph + proofWindow
		wantU.Storage = storage
		costFn = func() (types.Currency, types.Currency) { return rhp4.RenewalCost(r.e.cs, renewal, fromBig(fee)) }
		if b.T.Cmp(nT) == 0 {
			r.label("boundary:renew-collateral==old")
			r.boundary = true
		} else if sub(b.T, nT).CmpAbs(big.NewInt(1)) == 0 {
			r.label("boundary:renew-collateral==old+-1")
			r.boundary = true
		}
		if b.R.Cmp(allow) == 0 {
			r.label("boundary:renew-allowance==balance")
			r.boundary = true
		} else if sub(b.R, allow).CmpAbs(big.NewInt(1)) == 0 {
			r.label("boundary:renew-allowance==balance+-1")
			r.boundary = true
		}
		if allow.Cmp(bases["min"]) == 0 {
			r.label("boundary:allowance==min")
		}
		if hostRoll.Cmp(b.T) == 0 {
			r.label("renew:host-rolls-old-collateral")
		} else {
			r.label("renew:host-rolls-new-collateral")
		}
		if renterRoll.Cmp(b.R) == 0 {
			r.label("renew:renter-rolls-balance")
		} else {
			r.label("renew:renter-rolls-allowance")
		}
	case "refresh_full", "refresh_partial":
		partial := op.Kind == "refresh_partial"
		if old.ExpirationHeight <= r.hp.TipHeight {
			r.note(op.Kind, "skip-domain")
			return nil
		}
		dur := bu(old.ExpirationHeight - r.hp.TipHeight)
		existing := b.T
		if partial {
			existing = sub(b.T, b.M)
		}
		bases := map[string]*big.Int{
			"sect":   mul(r.bp.collateral, bu(sectorSize), bu(op.Collateral.K), dur),
			"max":    sub(r.maxColl, existing),
			"missed": b.M,
		}
		coll, err := r.amt(op.Collateral, bases)
		if err != nil {
			r.note(op.Kind, "skip-domain")
			return nil
		}
		bases["bal"] = b.R
		bases["balcp"] = sub(b.R, cp)
		bases["min"] = r.minAllowance(coll)
		if bases["min"].Cmp(two120) > 0 {
			r.note(op.Kind, "skip-domain-min-allowance")
			return nil
		}
		allow, err := r.amt(op.Allowance, bases)
		if err != nil {
			r.note(op.Kind, "skip-domain")
			return nil
		}
		params := rhp4.RPCRefreshContractParams{ContractID: id, Allowance: fromBig(allow), Collateral: fromBig(coll)}
		req := rhp4.RPCRefreshContractRequest{Prices: r.hp, Refresh: params, MinerFee: fromBig(fee), Basis: r.e.cs.Index,
			RenterInputs: []types.SiacoinElement{r.e.wallet[wRenter].Copy()}}
		if err := req.Validate(r.hostKey(), r.e.cs.Index, old, fromBig(r.maxColl), partial); err != nil {
			r.label("reject:" + op.Kind + ":" + rejectClass(err))
			r.note(op.Kind, "validate-reject")
			return nil
		}
		if partial {
			if pv, st := stats.NoPanic(func() { renewal, usage = rhp4.RefreshContractPartialRollover(old, r.hp, hostAddr, params) }); pv != nil {
				return failf("refresh_partial/panic", "RefreshContractPartialRollover panicked: %v\n%s", pv, st)
			}
			revenue := sub(b.H, b.T)
			riskedOld := sub(b.T, b.M)
			nH = sum(revenue, riskedOld, coll, cp)
			nM = coll
			nT = sum(riskedOld, coll)
			nR = allow
			hostRoll = minBig(b.H, sub(nH, cp))
			renterRoll = minBig(b.R, sum(allow, cp))
			if b.R.Cmp(sum(allow, cp)) == 0 {
				r.label("boundary:refresh-allowance+price==balance")
				r.boundary = true
			} else if sub(b.R, sum(allow, cp)).CmpAbs(big.NewInt(1)) == 0 {
				r.label("boundary:refresh-allowance+price==balance+-1")
				r.boundary = true
			}
			if b.H.Cmp(sub(nH, cp)) == 0 {
				r.label("boundary:refresh-hostfunds==hostoutput")
				r.boundary = true
			} else if sub(b.H, sub(nH, cp)).CmpAbs(big.NewInt(1)) == 0 {
				r.label("boundary:refresh-hostfunds==hostoutput+-1")
				r.boundary = true
			}
			if hostRoll.Cmp(b.H) == 0 {
				r.label("refresh_partial:host-rolls-output")
			} else {
				r.label("refresh_partial:host-rolls-needed")
			}
			if renterRoll.Cmp(b.R) == 0 {
				r.label("refresh_partial:renter-rolls-balance")
			} else {
				r.label("refresh_partial:renter-rolls-needed")
			}
		} else {
			if pv, st := stats.NoPanic(func() { renewal, usage = rhp4.RefreshContractFullRollover(old, r.hp, hostAddr, params) }); pv != nil {
				return failf("refresh_full/panic", "RefreshContractFullRollover panicked: %v\n%s", pv, st)
			}
			nR = sum(b.R, allow)
			nH = sum(b.H, coll, cp)
			nM = sum(b.M, coll)
			nT = sum(b.T, coll)
			hostRoll, renterRoll = b.H, b.R
		}
		if allow.Cmp(bases["min"]) == 0 {
			r.label("boundary:allowance==min")
		}
		costFn = func() (types.Currency, types.Currency) { return rhp4.RefreshCost(r.e.cs, r.hp, renewal, fromBig(fee)) }
	default:
		panic("harness: unknown renewal kind " + op.Kind)
	}
	kind := op.Kind

	// --- property-level algebra on the library's result
	g := valsOf(renewal.NewContract)
	fR, fH := toBig(renewal.FinalRenterOutput.Value), toBig(renewal.FinalHostOutput.Value)
	rR, rH := toBig(renewal.RenterRollover), toBig(renewal.HostRollover)
	if sum(fR, fH, rR, rH).Cmp(sum(b.R, b.H)) != 0 {
		return failf(kind+"/split", "%s: final outputs %v+%v + rollovers %v+%v != old renter %v + host %v", kind, fR, fH, rR, rH, b.R, b.H)
	}
	if sum(fR, rR).Cmp(b.R) != 0 || sum(fH, rH).Cmp(b.H) != 0 {
		return failf(kind+"/split-party", "%s: renter final %v + rollover %v vs old %v; host final %v + rollover %v vs old %v", kind, fR, rR, b.R, fH, rH, b.H)
	}
	tax := bigTax(g.R, g.H)
	newCost := sum(g.R, g.H, tax)
	if sum(rR, rH).Cmp(newCost) > 0 {
		return failf(kind+"/rollover-exceeds-cost", "%s: rollover %v exceeds new contract cost %v", kind, sum(rR, rH), newCost)
	}
	var rc, hc types.Currency
	if pv, st := stats.NoPanic(func() { rc, hc = costFn() }); pv != nil {
		return failf(kind+"/cost-panic", "%s: cost function panicked: %v\n%s\nrenewal %+v", kind, pv, st, renewal)
	}
	if sum(toBig(rc), toBig(hc), rR, rH).Cmp(sum(newCost, fee)) != 0 {
		return failf(kind+"/cost", "%s: renter cost %v + host cost %v + rollovers %v+%v != new renter %v + new host %v + tax %v + fee %v", kind, rc, hc, rR, rH, g.R, g.H, tax, fee)
	}

	// --- model of the documented semantics
	want.NewContract.RenterOutput.Value = fromBig(nR)
	want.NewContract.HostOutput.Value = fromBig(nH)
	want.NewContract.MissedHostValue = fromBig(nM)
	want.NewContract.TotalCollateral = fromBig(nT)
	want.RenterRollover, want.HostRollover = fromBig(renterRoll), fromBig(hostRoll)
	want.FinalRenterOutput.Value = fromBig(sub(b.R, renterRoll))
	want.FinalHostOutput.Value = fromBig(sub(b.H, hostRoll))
	if renewal != want {
		return failf(kind+"/model", "%s produced %+v\nwant %+v\nold %+v prices %+v", kind, renewal, want, old, r.hp)
	}
	wantU.Risked = sub(nT, nM)
	if !usageOf(usage).eq(wantU) {
		return failf(kind+"/usage", "%s usage %v, want %v", kind, usageOf(usage), wantU)
	}
	// each party pays (renter) allowance top-up + price + tax + fee, (host) new collateral only
	wantHost := sub(nT, hostRoll) // locked collateral not covered by the rollover
	if kind != "renew" {
		wantHost = sub(sub(nH, cp), hostRoll)
	}
	if toBig(hc).Cmp(wantHost) != 0 {
		return failf(kind+"/host-cost", "%s: host cost %v, want %v", kind, hc, wantHost)
	}

	// --- end to end
	res := renewal
	txn := types.V2Transaction{
		FileContractResolutions: []types.V2FileContractResolution{{Parent: r.e.fce.Copy(), Resolution: &res}},
		MinerFee:                fromBig(fee),
	}
	if err := r.e.fund(&txn, toBig(rc), toBig(hc)); err != nil {
		return stats.Failf("", "%v", err)
	}
	r.e.signRenewal(&res)
	r.e.signInputs(&txn)
	if err := r.e.validate(txn); err != nil {
		return failf(kind+"/consensus", "%s transaction rejected by consensus: %v\nparent %+v\nrenewal %+v", kind, err, r.e.fce.V2FileContract, res)
	}
	wantID := r.e.fce.ID.V2RenewalID()
	r.e.mine(txn)
	if !r.e.haveFCE || r.e.fce.ID != wantID || r.e.fce.V2FileContract != res.NewContract {
		return stats.Failf("", "harness: renewed contract not recorded by consensus")
	}
	r.latest = r.e.fce.V2FileContract
	r.renewed = true
	r.executed++
	r.note(kind, "ok")
	return nil
}

// ---- checker ------------------------------------------------------------------------------

func checkSeq(c Case) error {
	rec := stats.G()
	r := &run{c: &c, e: newEnv(c.KeySeed), maxColl: dec(c.MaxCollateral)}
	r.setPrices(c.Prices)
	ok, err := r.form()
	if err != nil {
		return err
	}
	if ok {
		for i, op := range c.Ops {
			var err error
			switch op.Kind {
			case "append", "free", "roots", "fund", "replenish", "pay":
				err = r.revision(i, op)
			case "renew", "refresh_full", "refresh_partial":
				err = r.renewal(op)
			case "reprice":
				if op.Prices != nil {
					r.setPrices(*op.Prices)
					r.note("reprice", "ok")
				}
			case "mine":
				for k := uint64(0); k < op.N && k < 64; k++ {
					r.e.mine()
				}
				r.note("mine", "ok")
			default:
				return stats.Failf("", "harness: unknown op %q", op.Kind)
			}
			if err != nil {
				return err
			}
		}
	}
	nt := r.grew && r.boundary && r.renewed
	if r.grew {
		rec.Label("seq:capacity-growth")
	}
	if r.boundary {
		rec.Label("seq:exact-boundary")
	}
	if r.renewed {
		rec.Label("seq:renew-or-refresh")
	}
	if nt {
		rec.Label("seq:nontrivial")
	}
	rec.Label(fmt.Sprintf("seq:executed-ops:%02d", min(r.executed, 15)))
	bl := func(s string) int { return (dec(s).BitLen() + 7) / 8 }
	fp := stats.FP(strings.Join(r.kinds, ","), strings.Join(r.classes, ","),
		bl(c.Prices.Contract), bl(c.Prices.Collateral), bl(c.Prices.Storage), bl(c.Prices.Ingress), bl(c.Prices.Egress), bl(c.Prices.FreeSector),
		fmt.Sprint(c.Form.Allowance.Mode, c.Form.Collateral.Mode, bl(c.Form.Allowance.V), bl(c.Form.Collateral.V)))
	rec.Case(fp, nt, "seq")
	if rec.WantSample() {
		rec.Sample(nt, map[string]any{"ops": strings.Join(r.kinds, ","), "result": strings.Join(r.classes, ","), "prices": c.Prices, "form": c.Form})
	}
	return nil
}

func TestSeq(t *testing.T) { stats.Prop(t, drawSeq, checkSeq) }

func TestReplaySeq(t *testing.T) { stats.Replay(t, "TestSeq", checkSeq) }
