// C04 — Accumulator membership is sound: only genuine, live elements are accepted.
//
// Domain: histories of applied/reverted blocks from the simulator; elements known to the
// history: live, spent (proof maintained), from a reverted branch, never created.
// Routes: (1) ElementAccumulator.ValidateTransactionElements with the element wrapped as
// siacoin/siafund input, revision parent, resolution parent or storage-proof chain index —
// deterministic single-field / proof mutations of store elements computed by the checker;
// (2) ValidateBlock on an otherwise valid, honestly signed v2 transaction whose parent is
// altered; (3) ValidateBlock's supplement check for altered v1 parents.
// Oracle: membership(e') is false for every mutation e' of a live e, for spent e, for
// elements of a reverted branch and for never-created ones; membership(e) is true iff live.
package c04

import (
	"fmt"
	"testing"

	"go.sia.tech/core/consensus"
	"go.sia.tech/core/types"
	"pgregory.net/rapid"
	"verif/harness/sim"
	"verif/harness/stats"
)

func TestMain(m *testing.M) { stats.Main(m) }

func draw(t *rapid.T) sim.ChainCase {
	g := sim.GenChain(t, sim.GenOpts{
		Net: sim.NetOpts{MaxForkHeight: rapid.SampledFrom([]int{6, 12, 25}).Draw(t, "forkSpan"), V2Only: rapid.IntRange(0, 3).Draw(t, "v2only") == 0,
			EphemeralNear: rapid.SampledFrom([]int{0, 0, 4}).Draw(t, "ephemeralNear")}, // one network in three puts the ephemeral-output rule change a few blocks behind the v2 allow height
		MinBlocks: 8, MaxBlocks: 30, Reorgs: true, MaxReorg: 3, Profile: sim.Profile{Contracts: 1, MaxTxns: 5},
		OnBlock: func(g *sim.Gen, b *sim.Builder) {
			// a contract revised and then revised again / renewed by a later transaction of the same block: the
			// second transaction's parent must still be the genuine accumulator element
			switch rapid.IntRange(0, 9).Draw(g.T, "batchScenario") {
			case 0: // several contracts for the same period: their proofs will share one chain index element
				b.AfterV1(func() { b.V2FormBatch() })
			case 1, 2: // and, when several are provable, one transaction proves them together
				b.AfterV1(func() { b.V2Resolve() })
			}
			if rapid.IntRange(0, 4).Draw(g.T, "reviseScenario") == 0 {
				b.AfterV1(func() {
					if b.V2Revise() {
						if rapid.Bool().Draw(g.T, "againOrRenew") {
							b.V2ReviseAgainInBlock()
						} else {
							b.V2RenewRevisedInBlock()
						}
					}
				})
			}
		},
		BeforeApply: func(g *sim.Gen, honest types.Block, bs consensus.V1BlockSupplement) {
			if len(honest.Transactions)+len(honest.V2Transactions()) > 0 && rapid.IntRange(0, 1).Draw(g.T, "probeHere") == 0 {
				g.NewAdv(honest).MembershipProbes()
			}
		},
	})
	c, err := g.Case.Normalize()
	if err != nil {
		panic(err)
	}
	return c
}

func sizeClass(n uint64) string {
	switch {
	case n < 8:
		return "<8"
	case n < 64:
		return "<64"
	case n < 512:
		return "<512"
	}
	return ">=512"
}

// seMutations lists proof / position mutations of a state element. other is another element's
// state element of the same store (for proof / index swaps).
func seMutations(se types.StateElement, other *types.StateElement) map[string]types.StateElement {
	out := map[string]types.StateElement{}
	cp := func() types.StateElement { return se.Copy() }
	m := cp()
	m.LeafIndex++
	out["leaf-index+1"] = m
	m = cp()
	m.LeafIndex ^= 1
	out["leaf-index^1"] = m
	if se.LeafIndex > 0 {
		m = cp()
		m.LeafIndex--
		out["leaf-index-1"] = m
	}
	// every single bit of the index, including the high ones no honest chain reaches
	for _, k := range []uint{1, 2, 7, 16, 31, 32, 33, 40, 47, 62, 63} {
		m = cp()
		m.LeafIndex ^= 1 << k
		out[fmt.Sprintf("leaf-index^2^%d", k)] = m
	}
	for i := range se.MerkleProof {
		m = cp()
		m.MerkleProof[i][i%32] ^= 1 << uint(i%8)
		out[fmt.Sprintf("proof-hash-%d-bitflip", i)] = m
	}
	if len(se.MerkleProof) > 0 {
		m = cp()
		m.MerkleProof = m.MerkleProof[:len(m.MerkleProof)-1]
		out["proof-truncated"] = m
		m = cp()
		m.MerkleProof = m.MerkleProof[1:]
		out["proof-first-dropped"] = m
	}
	m = cp()
	m.MerkleProof = append(m.MerkleProof, types.Hash256{})
	out["proof-extended-zero"] = m
	if len(se.MerkleProof) > 0 {
		m = cp()
		m.MerkleProof = append(m.MerkleProof, m.MerkleProof[len(m.MerkleProof)-1])
		out["proof-extended-dup"] = m
	}
	if other != nil {
		m = cp()
		m.MerkleProof = other.Copy().MerkleProof
		out["other-elements-proof"] = m
		m = cp()
		m.LeafIndex = other.LeafIndex
		out["other-elements-index"] = m
		out["other-elements-position"] = other.Copy()
	}
	return out
}

func check(c sim.ChainCase) error {
	rec := stats.G()
	one := types.NewCurrency64(1)
	probeStore := func(ch *sim.Chain) error {
		cs := ch.Tip()
		acc := cs.Elements
		sc := sizeClass(acc.NumLeaves)
		h := int(cs.Index.Height)
		// every other height the probed element is the last one of a batching transaction: genuine live elements of
		// every kind come first (inputs, a revised contract, contracts resolved by expiration, renewal and storage proof)
		sim.BatchPrefix = nil
		defer func() { sim.BatchPrefix = nil }()
		if h%2 == 1 {
			var pre types.V2Transaction
			if l := ch.Store.SortedSC(); len(l) > 0 {
				pre.SiacoinInputs = []types.V2SiacoinInput{{Parent: l[0].Copy()}}
			}
			if l := ch.Store.SortedSF(); len(l) > 0 {
				pre.SiafundInputs = []types.V2SiafundInput{{Parent: l[0].Copy()}}
			}
			if l := ch.Store.SortedV2FC(); len(l) > 0 {
				pre.FileContractRevisions = []types.V2FileContractRevision{{Parent: l[0].Copy()}}
				pre.FileContractResolutions = []types.V2FileContractResolution{
					{Parent: l[len(l)-1].Copy(), Resolution: &types.V2FileContractExpiration{}},
					{Parent: l[len(l)/2].Copy(), Resolution: &types.V2FileContractRenewal{}},
				}
				if len(ch.Store.CI) > 0 {
					pre.FileContractResolutions = append(pre.FileContractResolutions, types.V2FileContractResolution{Parent: l[0].Copy(),
						Resolution: &types.V2StorageProof{ProofIndex: ch.Store.CI[len(ch.Store.CI)-1].Copy()}})
				}
			}
			if acc.ValidateTransactionElements(pre) != nil {
				return stats.Failf("C04/batch-prefix", "height %d: a transaction of genuine live elements only is refused by ValidateTransactionElements", cs.Index.Height)
			}
			sim.BatchPrefix = &pre
			sc += "/batched"
		}
		// rotate through the store so that different elements are examined at different heights
		pick := func(n int) []int {
			if n == 0 {
				return nil
			}
			return []int{h % n, (h*7 + 3) % n}
		}
		fail := func(kind, mut string, id any) error {
			return stats.Failf("C04/"+kind+"/"+mut, "height %d: %s %v altered by %q (or not live) is ACCEPTED by the accumulator (%d leaves)", cs.Index.Height, kind, id, mut, acc.NumLeaves)
		}
		note := func(kind, mut, route string) {
			rec.Case(stats.FP(kind, mut, route, sc, uint64(h), cs.Index.ID[:]), true, "kind:"+kind, "route:"+route, "size:"+sc)
		}
		scs := ch.Store.SortedSC()
		for _, i := range pick(len(scs)) {
			e := scs[i]
			var other *types.StateElement
			if len(scs) > 1 {
				o := scs[(i+1)%len(scs)].StateElement
				other = &o
			}
			if !sim.LiveSC(acc, e) {
				return stats.Failf("C04/siacoin/live", "height %d: live siacoin element %v refused", cs.Index.Height, e.ID)
			}
			muts := map[string]types.SiacoinElement{}
			m := e.Copy()
			m.ID[0] ^= 1
			muts["id"] = m
			m = e.Copy()
			m.SiacoinOutput.Value = m.SiacoinOutput.Value.Add(one)
			muts["value+1"] = m
			if !e.SiacoinOutput.Value.IsZero() {
				m = e.Copy()
				m.SiacoinOutput.Value = m.SiacoinOutput.Value.Sub(one)
				muts["value-1"] = m
			}
			m = e.Copy()
			m.SiacoinOutput.Value.Hi ^= 1
			muts["value-hi-bit"] = m
			m = e.Copy()
			m.SiacoinOutput.Address[31] ^= 0x80
			muts["address"] = m
			m = e.Copy()
			m.MaturityHeight++
			muts["maturity+1"] = m
			if e.MaturityHeight > 0 {
				m = e.Copy()
				m.MaturityHeight--
				muts["maturity-1"] = m
				m = e.Copy()
				m.MaturityHeight = 0
				muts["maturity=0"] = m
			}
			for name, se := range seMutations(e.StateElement, other) {
				m = e.Copy()
				m.StateElement = se
				muts[name] = m
			}
			for name, me := range muts {
				if sim.LiveSC(acc, me) {
					return fail("siacoin", name, e.ID)
				}
				note("siacoin", name, "ValidateTransactionElements")
			}
		}
		sfs := ch.Store.SortedSF()
		for _, i := range pick(len(sfs)) {
			e := sfs[i]
			var other *types.StateElement
			if len(scs) > 0 {
				o := scs[i%len(scs)].StateElement
				other = &o
			}
			if !sim.LiveSF(acc, e) {
				return stats.Failf("C04/siafund/live", "height %d: live siafund element %v refused", cs.Index.Height, e.ID)
			}
			muts := map[string]types.SiafundElement{}
			m := e.Copy()
			m.ID[3] ^= 1
			muts["id"] = m
			m = e.Copy()
			m.SiafundOutput.Value++
			muts["value+1"] = m
			m = e.Copy()
			m.SiafundOutput.Address[0] ^= 1
			muts["address"] = m
			m = e.Copy()
			m.ClaimStart = m.ClaimStart.Add(one)
			muts["claimstart+1"] = m
			if !e.ClaimStart.IsZero() {
				m = e.Copy()
				m.ClaimStart = types.ZeroCurrency
				muts["claimstart=0"] = m
			}
			for name, se := range seMutations(e.StateElement, other) {
				m = e.Copy()
				m.StateElement = se
				muts[name] = m
			}
			for name, me := range muts {
				if sim.LiveSF(acc, me) {
					return fail("siafund", name, e.ID)
				}
				note("siafund", name, "ValidateTransactionElements")
			}
		}
		fcs := ch.Store.SortedV2FC()
		for _, i := range pick(len(fcs)) {
			e := fcs[i]
			if !sim.LiveV2FC(acc, e) || !sim.LiveV2FCRes(acc, e) {
				return stats.Failf("C04/v2contract/live", "height %d: live v2 contract %v refused", cs.Index.Height, e.ID)
			}
			muts := map[string]types.V2FileContractElement{}
			add := func(name string, f func(fc *types.V2FileContract)) {
				m := e.Copy()
				f(&m.V2FileContract)
				muts[name] = m
			}
			add("capacity", func(fc *types.V2FileContract) { fc.Capacity++ })
			add("filesize", func(fc *types.V2FileContract) { fc.Filesize ^= 1 })
			add("root", func(fc *types.V2FileContract) { fc.FileMerkleRoot[9] ^= 1 })
			add("proof-height", func(fc *types.V2FileContract) { fc.ProofHeight++ })
			add("expiration-height", func(fc *types.V2FileContract) { fc.ExpirationHeight++ })
			add("renter-value", func(fc *types.V2FileContract) { fc.RenterOutput.Value = fc.RenterOutput.Value.Add(one) })
			add("renter-address", func(fc *types.V2FileContract) { fc.RenterOutput.Address[1] ^= 1 })
			add("host-value", func(fc *types.V2FileContract) { fc.HostOutput.Value = fc.HostOutput.Value.Add(one) })
			add("host-address", func(fc *types.V2FileContract) { fc.HostOutput.Address[1] ^= 1 })
			add("missed-host-value", func(fc *types.V2FileContract) { fc.MissedHostValue = fc.MissedHostValue.Add(one) })
			add("total-collateral", func(fc *types.V2FileContract) { fc.TotalCollateral = fc.TotalCollateral.Add(one) })
			add("renter-key", func(fc *types.V2FileContract) { fc.RenterPublicKey[0] ^= 1 })
			add("host-key", func(fc *types.V2FileContract) { fc.HostPublicKey[0] ^= 1 })
			add("revision-number", func(fc *types.V2FileContract) { fc.RevisionNumber++ })
			add("renter-signature", func(fc *types.V2FileContract) { fc.RenterSignature[63] ^= 1 })
			add("host-signature", func(fc *types.V2FileContract) { fc.HostSignature[0] ^= 1 })
			m := e.Copy()
			m.ID[31] ^= 1
			muts["id"] = m
			var other *types.StateElement
			if len(scs) > 0 {
				o := scs[i%len(scs)].StateElement
				other = &o
			}
			for name, se := range seMutations(e.StateElement, other) {
				m = e.Copy()
				m.StateElement = se
				muts[name] = m
			}
			for name, me := range muts {
				if sim.LiveV2FC(acc, me) {
					return fail("v2contract(revision-parent)", name, e.ID)
				}
				if sim.LiveV2FCRes(acc, me) {
					return fail("v2contract(resolution-parent)", name, e.ID)
				}
				note("v2contract", name, "ValidateTransactionElements")
			}
		}
		for _, i := range pick(len(ch.Store.CI)) {
			e := ch.Store.CI[i]
			if !sim.LiveCI(acc, e) {
				return stats.Failf("C04/chainindex/live", "height %d: ancestor %v refused", cs.Index.Height, e.ChainIndex)
			}
			muts := map[string]types.ChainIndexElement{}
			m := e.Copy()
			m.ChainIndex.Height++
			muts["height+1"] = m
			m = e.Copy()
			m.ChainIndex.ID[0] ^= 1
			muts["chainindex-id"] = m
			m = e.Copy()
			m.ID[0] ^= 1
			muts["id"] = m
			var other *types.StateElement
			if len(ch.Store.CI) > 1 {
				o := ch.Store.CI[(i+1)%len(ch.Store.CI)].StateElement
				other = &o
			}
			for name, se := range seMutations(e.StateElement, other) {
				m = e.Copy()
				m.StateElement = se
				muts[name] = m
			}
			for name, me := range muts {
				if sim.LiveCI(acc, me) {
					return fail("chainindex", name, e.ChainIndex)
				}
				note("chainindex", name, "ValidateTransactionElements")
			}
		}
		// spent / resolved elements presented as live, with their maintained proofs
		for _, e := range ch.Store.SpentSC {
			if e.StateElement.LeafIndex != types.UnassignedLeafIndex && sim.LiveSC(acc, e) {
				return fail("siacoin", "spent-with-maintained-proof", e.ID)
			}
		}
		for _, e := range ch.Store.SpentSF {
			if e.StateElement.LeafIndex != types.UnassignedLeafIndex && sim.LiveSF(acc, e) {
				return fail("siafund", "spent-with-maintained-proof", e.ID)
			}
		}
		for _, e := range ch.Store.ResolvedV2FC {
			if sim.LiveV2FC(acc, e) || sim.LiveV2FCRes(acc, e) {
				return fail("v2contract", "resolved-with-maintained-proof", e.ID)
			}
		}
		if n := len(ch.Store.SpentSC) + len(ch.Store.SpentSF) + len(ch.Store.ResolvedV2FC); n > 0 {
			rec.Case(stats.FP("spent", cs.Index.ID[:]), true, "kind:spent-or-resolved", "size:"+sc)
		}
		// a never-created element borrowing a genuine position and proof
		if len(scs) > 0 {
			fake := scs[0].Copy()
			fake.ID = types.SiacoinOutputID{0xFA, 0xCE}
			fake.SiacoinOutput = types.SiacoinOutput{Value: types.Siacoins(1000000), Address: types.Address{1}}
			if sim.LiveSC(acc, fake) {
				return fail("siacoin", "never-created", fake.ID)
			}
			note("siacoin", "never-created", "ValidateTransactionElements")
		}
		return nil
	}
	hooks := sim.Hooks{
		AfterApply: func(ch *sim.Chain, st *sim.Step, parent consensus.State, au consensus.ApplyUpdate) error {
			return probeStore(ch)
		},
		AfterRevert: func(ch *sim.Chain, st *sim.Step, b types.Block, bs consensus.V1BlockSupplement, ru consensus.RevertUpdate) error {
			// elements that existed only on the reverted branch must be refused with the proofs they had there
			acc := ch.Tip().Elements
			// the popped snapshot is no longer in ch.Stores; rebuild the orphan set from the revert diffs
			for _, d := range ru.SiacoinElementDiffs() {
				if d.Created && !d.Spent {
					// proof as the element had it on the reverted branch: take it from the apply diffs of that block
					_, au := consensus.ApplyBlock(ch.Tip(), b, bs, ch.TargetTimestamp(ch.Height()+1))
					for _, ad := range au.SiacoinElementDiffs() {
						if ad.SiacoinElement.ID == d.SiacoinElement.ID && sim.LiveSC(acc, ad.SiacoinElement) {
							return stats.Failf("C04/siacoin/reverted-branch", "siacoin element %v created only by the reverted block %d is accepted by the parent state", ad.SiacoinElement.ID, ch.Height()+1)
						}
					}
					rec.Case(stats.FP("orphan", d.SiacoinElement.ID[:]), true, "kind:siacoin", "route:ValidateTransactionElements", "mut:reverted-branch")
					break
				}
			}
			return probeStore(ch)
		},
		Probe: func(ch *sim.Chain, st *sim.Step) error {
			err := consensus.ValidateBlock(ch.Tip(), *st.Block, *st.Supp)
			if st.Want == "accept" {
				// control of a constructed probe: the same block without the forged parent
				if err != nil {
					return stats.Failf("C04/control/"+st.Label, "control block (%s) was rejected at height %d: %v", st.Label, ch.Height()+1, err)
				}
				rec.Case(stats.FP(st.Label, st.Block.ID()), false, "control:"+st.Label)
				return nil
			}
			if err == nil {
				return stats.Failf("C04/"+st.Label, "block whose parent element was altered (%s) was ACCEPTED at height %d", st.Label, ch.Height()+1)
			}
			id := st.Block.ID()
			route := "ValidateBlock/v2-parent"
			if len(st.Label) > 2 && st.Label[:2] == "v1" {
				route = "ValidateBlock/v1-supplement"
			}
			rec.Case(stats.FP(st.Label, id[:]), true, "op:"+st.Label, "route:"+route)
			if rec.WantSample() {
				rec.Sample(true, map[string]any{"operator": st.Label, "height": ch.Height() + 1, "verdict": err.Error()})
			}
			return nil
		},
	}
	if _, err := sim.Replay(c, hooks); err != nil {
		if _, ok := err.(*stats.Failure); ok {
			return err
		}
		return stats.Failf("C04/replay", "%v", err)
	}
	rec.Extra("chains", 1)
	return nil
}

func TestMembership(t *testing.T)       { stats.Prop(t, draw, check) }
func TestReplayMembership(t *testing.T) { stats.Replay(t, "TestMembership", check) }
func TestRegress(t *testing.T)          { stats.Regress(t, "TestMembership", check) }
