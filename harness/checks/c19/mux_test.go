package c19

// rhp/v3 and gateway sessions (both ride on go.sia.tech/mux).

import (
	"errors"
	"fmt"
	"math/big"
	"math/bits"
	"net"
	"testing"
	"time"

	"go.sia.tech/core/blake2b"
	"go.sia.tech/core/consensus"
	"go.sia.tech/core/gateway"
	rhp3 "go.sia.tech/core/rhp/v3"
	"go.sia.tech/core/types"
	"pgregory.net/rapid"
	"verif/harness/stats"
)

// ---- rhp3 objects ------------------------------------------------------------------------------

func (r *rng) acct3() (a rhp3.Account) {
	if r.intn(8) == 0 {
		return rhp3.ZeroAccount
	}
	r.fill(a[:])
	a[0] |= 1
	return
}

func (r *rng) instr() rhp3.Instruction {
	switch r.intn(14) {
	case 0:
		return &rhp3.InstrAppendSector{SectorDataOffset: r.u64(), ProofRequired: r.bool()}
	case 1:
		return &rhp3.InstrAppendSectorRoot{MerkleRootOffset: r.u64(), ProofRequired: r.bool()}
	case 2:
		return &rhp3.InstrDropSectors{SectorCountOffset: r.u64(), ProofRequired: r.bool()}
	case 3:
		return &rhp3.InstrHasSector{MerkleRootOffset: r.u64()}
	case 4:
		return &rhp3.InstrReadOffset{LengthOffset: r.u64(), OffsetOffset: r.u64(), ProofRequired: r.bool()}
	case 5:
		return &rhp3.InstrReadSector{LengthOffset: r.u64(), OffsetOffset: r.u64(), MerkleRootOffset: r.u64(), ProofRequired: r.bool()}
	case 6:
		return &rhp3.InstrSwapSector{Sector1Offset: r.u64(), Sector2Offset: r.u64(), ProofRequired: r.bool()}
	case 7:
		return &rhp3.InstrUpdateSector{Offset: r.u64(), Length: r.u64(), DataOffset: r.u64(), ProofRequired: r.bool()}
	case 8:
		return &rhp3.InstrStoreSector{DataOffset: r.u64(), Duration: r.u64()}
	case 9:
		return &rhp3.InstrRevision{}
	case 10:
		return &rhp3.InstrReadRegistry{PublicKeyOffset: r.u64(), PublicKeyLength: r.u64(), TweakOffset: r.u64(), Version: uint8(r.intn(256))}
	case 11:
		// selected by its argument length; decodes with Version 1 (Appendix C)
		return &rhp3.InstrReadRegistryNoVersion{InstrReadRegistry: rhp3.InstrReadRegistry{PublicKeyOffset: r.u64(), PublicKeyLength: r.u64(), TweakOffset: r.u64(), Version: 1}}
	case 12:
		return &rhp3.InstrUpdateRegistry{TweakOffset: r.u64(), RevisionOffset: r.u64(), SignatureOffset: r.u64(), PublicKeyOffset: r.u64(),
			PublicKeyLength: r.u64(), DataOffset: r.u64(), DataLength: r.u64(), EntryType: uint8(r.intn(256))}
	default:
		return &rhp3.InstrUpdateRegistryNoType{InstrUpdateRegistry: rhp3.InstrUpdateRegistry{TweakOffset: r.u64(), RevisionOffset: r.u64(), SignatureOffset: r.u64(),
			PublicKeyOffset: r.u64(), PublicKeyLength: r.u64(), DataOffset: r.u64(), DataLength: r.u64(), EntryType: rhp3.EntryTypeArbitrary}}
	}
}

type r3kind struct {
	name  string
	maxN  int
	build func(r *rng, n int) rhp3.ProtocolObject
}

var r3kinds = []r3kind{
	{"SettingsID", 0, func(r *rng, n int) rhp3.ProtocolObject { var s rhp3.SettingsID; r.fill(s[:]); return &s }},
	{"PayByEphemeralAccountRequest", 0, func(r *rng, n int) rhp3.ProtocolObject {
		o := &rhp3.PayByEphemeralAccountRequest{Account: r.acct3(), Expiry: r.u64(), Amount: r.cur(), Signature: r.sig(), Priority: int64(r.u64())}
		r.fill(o.Nonce[:])
		return o
	}},
	{"PayByContractRequest", 0, func(r *rng, n int) rhp3.ProtocolObject {
		return &rhp3.PayByContractRequest{ContractID: types.FileContractID(r.hash()), RevisionNumber: r.u64(), ValidProofValues: r.curs(2), MissedProofValues: r.curs(3),
			RefundAccount: r.acct3(), Signature: r.sig()}
	}},
	{"PaymentResponse", 0, func(r *rng, n int) rhp3.ProtocolObject { return &rhp3.PaymentResponse{Signature: r.sig()} }},
	{"RPCPriceTableResponse", 0, func(r *rng, n int) rhp3.ProtocolObject { return &rhp3.RPCPriceTableResponse{} }},
	{"RPCUpdatePriceTableResponse", 6000, func(r *rng, n int) rhp3.ProtocolObject {
		return &rhp3.RPCUpdatePriceTableResponse{PriceTableJSON: []byte(r.str(n))}
	}},
	{"RPCFundAccountRequest", 0, func(r *rng, n int) rhp3.ProtocolObject { return &rhp3.RPCFundAccountRequest{Account: r.acct3()} }},
	{"RPCFundAccountResponse", 0, func(r *rng, n int) rhp3.ProtocolObject {
		return &rhp3.RPCFundAccountResponse{Balance: r.cur(), Receipt: rhp3.FundAccountReceipt{Host: r.unlockKey(), Account: r.acct3(), Amount: r.cur(), Timestamp: r.stamp()}, Signature: r.sig()}
	}},
	{"RPCAccountBalanceRequest", 0, func(r *rng, n int) rhp3.ProtocolObject { return &rhp3.RPCAccountBalanceRequest{Account: r.acct3()} }},
	{"RPCAccountBalanceResponse", 0, func(r *rng, n int) rhp3.ProtocolObject { return &rhp3.RPCAccountBalanceResponse{Balance: r.cur()} }},
	{"RPCExecuteProgramRequest", 1 << 22, func(r *rng, n int) rhp3.ProtocolObject {
		o := &rhp3.RPCExecuteProgramRequest{FileContractID: types.FileContractID(r.hash()), ProgramData: r.bytes(n)}
		for i, k := 0, r.intn(20); i < k; i++ {
			o.Program = append(o.Program, r.instr())
		}
		return o
	}},
	{"RPCExecuteProgramResponse", 1 << 22, func(r *rng, n int) rhp3.ProtocolObject {
		o := &rhp3.RPCExecuteProgramResponse{AdditionalCollateral: r.cur(), OutputLength: uint64(n), NewMerkleRoot: r.hash(), NewSize: r.u64(),
			Proof: r.hashes(r.intn(40)), TotalCost: r.cur(), FailureRefund: r.cur(), Output: r.bytes(n)}
		if r.bool() {
			o.Error = errors.New(r.str(r.rangeInt(1, 60)))
		}
		return o
	}},
	{"RPCFinalizeProgramRequest", 0, func(r *rng, n int) rhp3.ProtocolObject {
		return &rhp3.RPCFinalizeProgramRequest{Signature: r.sig(), RevisionNumber: r.u64(), ValidProofValues: r.curs(2), MissedProofValues: r.curs(3)}
	}},
	{"RPCFinalizeProgramResponse", 0, func(r *rng, n int) rhp3.ProtocolObject { return &rhp3.RPCFinalizeProgramResponse{Signature: r.sig()} }},
	{"RPCLatestRevisionRequest", 0, func(r *rng, n int) rhp3.ProtocolObject {
		return &rhp3.RPCLatestRevisionRequest{ContractID: types.FileContractID(r.hash())}
	}},
	{"RPCLatestRevisionResponse", 0, func(r *rng, n int) rhp3.ProtocolObject {
		return &rhp3.RPCLatestRevisionResponse{Revision: r.v1Revision()}
	}},
	{"RPCRenewContractRequest", 6, func(r *rng, n int) rhp3.ProtocolObject {
		return &rhp3.RPCRenewContractRequest{TransactionSet: r.v1Txns(n, 1), RenterKey: r.unlockKey(), FinalRevisionSignature: r.sig()}
	}},
	{"RPCRenewContractHostAdditions", 6, func(r *rng, n int) rhp3.ProtocolObject {
		o := &rhp3.RPCRenewContractHostAdditions{Parents: r.v1Txns(n, 1), SiacoinOutputs: r.scos(n), FinalRevisionSignature: r.sig()}
		for i := 0; i < n; i++ {
			o.SiacoinInputs = append(o.SiacoinInputs, r.v1Input())
		}
		return o
	}},
	{"RPCRenewSignatures", 8, func(r *rng, n int) rhp3.ProtocolObject {
		return &rhp3.RPCRenewSignatures{TransactionSignatures: r.txnSigs(n), RevisionSignature: r.txnSig()}
	}},
}

func r3byName(name string) *r3kind {
	for i := range r3kinds {
		if r3kinds[i].name == name {
			return &r3kinds[i]
		}
	}
	return nil
}

func r3names() (out []string) {
	for _, k := range r3kinds {
		out = append(out, k.name)
	}
	return
}

// R3Msg is one message on an rhp3 stream after the request.
type R3Msg struct {
	Kind  string `json:"kind"`
	Dir   string `json:"dir"` // a2b (renter writes) | b2a (host writes)
	Err   bool   `json:"err"` // sent with WriteResponseErr as an RPCError
	Wrap  int    `json:"wrap,omitempty"` // with Err: 0 an *RPCError, 1 a plain error, 2/3 an *RPCError wrapped once/twice
	N     int    `json:"n"`
	Limit string `json:"limit"` // exact | loose | under
}

// R3Stream is one RPC: the request (id + optional object) and the messages that follow.
type R3Stream struct {
	Req      string  `json:"req"` // "none": id only
	ReqN     int     `json:"reqN"`
	ReqLimit string  `json:"reqLimit"`
	Msgs     []R3Msg `json:"msgs"`
}

// R3Case is one rhp3 session.
type R3Case struct {
	Seed      uint64     `json:"seed"`
	Streams   []R3Stream `json:"streams"`
	Fault     *FaultSpec `json:"fault,omitempty"`
	Handshake string     `json:"handshake,omitempty"` // "" | badkey
}

type r3plan struct {
	obj    rhp3.ProtocolObject
	rpcErr *rhp3.RPCError
	sendErr error // what WriteResponseErr is given; rpcErr is what must arrive
	maxLen uint64
	under  bool
	writer int // 0 renter, 1 host
}

const r3Slack = 1024 // readObject adds minMessageSize to the caller's maxLen

func r3limit(encoded int, limit string, allowUnder bool) (uint64, bool) {
	switch {
	case limit == "under" && allowUnder && encoded > r3Slack+64:
		// prefix(8) + flag(1) + encoded > maxLen + 1024
		return uint64(encoded - r3Slack - 6), true
	case limit == "loose":
		return uint64(encoded) + 1<<16, false
	default:
		return uint64(encoded), false
	}
}

// muxPair wires two pipe ends, with a stream-mode fault connection on one of them.
func muxPair(f *FaultSpec) (a, b net.Conn, fc *faultConn, closeAll func()) {
	pa, pb := net.Pipe()
	a, b = pa, pb
	if f != nil {
		spec := *f
		fc = &faultConn{spec: &spec}
		if f.Side == "b" {
			fc.Conn = pb
			b = fc
		} else {
			fc.Conn = pa
			a = fc
		}
	}
	return a, b, fc, func() { pa.Close(); pb.Close() }
}

func checkRHP3(c R3Case) error {
	rec := stats.G()
	fail := func(format string, args ...any) error {
		return stats.Failf("C19/rhp3", "rhp3 seed=%d: %s", c.Seed, fmt.Sprintf(format, args...))
	}
	hostKey := keyFromSeed(c.Seed, "rhp3host")
	expectKey := hostKey.PublicKey()
	if c.Handshake == "badkey" {
		expectKey = keyFromSeed(c.Seed, "rhp3other").PublicKey()
	}

	// plan
	type streamPlan struct {
		id   types.Specifier
		req  *r3plan
		msgs []r3plan
	}
	plans := make([]streamPlan, len(c.Streams))
	for si, s := range c.Streams {
		sp := streamPlan{id: specFromSeed(c.Seed, fmt.Sprint("r3id", si))}
		if s.Req != "none" {
			k := r3byName(s.Req)
			if k == nil {
				return stats.Failf("", "harness: unknown rhp3 kind %q", s.Req)
			}
			p := &r3plan{obj: k.build(newRng(c.Seed, fmt.Sprint("r3req", si)), s.ReqN)}
			p.maxLen, p.under = r3limit(encLen(p.obj), s.ReqLimit, len(s.Msgs) == 0)
			sp.req = p
		}
		for mi, m := range s.Msgs {
			r := newRng(c.Seed, fmt.Sprint("r3msg", si, ".", mi))
			p := r3plan{}
			if m.Dir == "b2a" {
				p.writer = 1
			}
			enc := 0
			if m.Err {
				p.rpcErr = &rhp3.RPCError{Type: r.spec(), Data: r.bytes(m.N % 200), Description: r.str(m.N % 400)}
				p.sendErr = p.rpcErr
				// an error that merely wraps an RPCError is not one: "a generic RPCError is created from err's Error string"
				switch m.Wrap {
				case 1:
					p.sendErr = errors.New(p.rpcErr.Description)
				case 2:
					p.sendErr = fmt.Errorf("couldn't load the price table: %w", p.rpcErr)
				case 3:
					p.sendErr = fmt.Errorf("stream %d: %w", si, fmt.Errorf("couldn't load the price table: %w", p.rpcErr))
				}
				if m.Wrap != 0 {
					p.rpcErr = &rhp3.RPCError{Description: p.sendErr.Error()}
					rec.Label("rhp3:error-response-not-itself-an-RPCError")
				}
				enc = encLen(p.rpcErr)
			} else {
				k := r3byName(m.Kind)
				if k == nil {
					return stats.Failf("", "harness: unknown rhp3 kind %q", m.Kind)
				}
				p.obj = k.build(r, m.N)
				enc = encLen(p.obj)
			}
			p.maxLen, p.under = r3limit(enc, m.Limit, mi == len(s.Msgs)-1 && !m.Err)
			sp.msgs = append(sp.msgs, p)
		}
		plans[si] = sp
	}

	connA, connB, fc, closeAll := muxPair(c.Fault)
	defer closeAll()
	var renter, host *rhp3.Transport
	ea, eb := runPair(
		func() (err error) {
			if renter, err = rhp3.NewRenterTransport(connA, expectKey); err != nil {
				connA.Close()
			}
			return
		},
		func() (err error) {
			if host, err = rhp3.NewHostTransport(connB, hostKey); err != nil {
				connB.Close()
			}
			return
		})
	if isPanic(ea) || isPanic(eb) {
		return fail("handshake panicked: %v / %v", ea, eb)
	}
	if c.Handshake == "badkey" {
		if ea == nil || eb == nil {
			return fail("handshake with a host key other than the expected one: renter=%v host=%v (both must fail)", ea, eb)
		}
		rec.Case(stats.FP("rhp3-handshake", "badkey", c.Seed), true, "rhp3:handshake:badkey")
		return nil
	}
	if ea != nil || eb != nil {
		return fail("handshake between matching parties failed: renter=%v host=%v", ea, eb)
	}
	defer renter.Close()
	defer host.Close()
	if fc != nil {
		fc.arm()
	}

	// scripts: outs[side][stream] = outcomes of [request, msgs...]
	var outs [2][][]outcome
	for s := 0; s < 2; s++ {
		outs[s] = make([][]outcome, len(plans))
		for i := range plans {
			outs[s][i] = make([]outcome, 1+len(plans[i].msgs))
		}
	}
	ls := newLockstep(len(plans))
	readInto := func(st *rhp3.Stream, p *r3plan, o *outcome, request bool) {
		o.read = true
		if p.rpcErr != nil {
			err := st.ReadResponse(new(rhp3.RPCAccountBalanceResponse), p.maxLen)
			var re *rhp3.RPCError
			if err == nil {
				o.eq, o.diff = false, "an error response was read as success"
			} else if errors.As(err, &re) {
				o.eq, o.diff = normEqual(p.rpcErr, re)
			} else {
				o.err = err
			}
			return
		}
		got := newLike(p.obj).(rhp3.ProtocolObject)
		if request {
			o.err = st.ReadRequest(got, p.maxLen)
		} else {
			o.err = st.ReadResponse(got, p.maxLen)
		}
		if o.err == nil {
			o.eq, o.diff = normEqual(p.obj, got)
		}
	}
	script := func(side int, t *rhp3.Transport) func() error {
		return func() error {
			for si, sp := range plans {
				bad := false // an unexpected failure ends the script; an expected one (under-limit) only the stream
				var st *rhp3.Stream
				o := &outs[side][si][0]
				o.done = true
				if side == 0 {
					st = t.DialStream()
					var req rhp3.ProtocolObject
					if sp.req != nil {
						req = sp.req.obj
					}
					o.err = st.WriteRequest(sp.id, req)
					bad = o.err != nil
				} else {
					var err error
					if st, err = t.AcceptStream(); err != nil {
						o.err = err
						ls.abort(side, si)
						t.Close()
						return nil
					}
					o.read = true
					var id types.Specifier
					if id, o.err = st.ReadID(); o.err == nil {
						if o.eq = id == sp.id; !o.eq {
							o.diff = fmt.Sprintf("rpc id %q vs %q", id, sp.id)
						} else if sp.req != nil {
							readInto(st, sp.req, o, true)
						}
					}
					bad = (o.err != nil && !(sp.req != nil && sp.req.under)) || (o.err == nil && !o.eq)
				}
				streamDead := o.err != nil
				for mi := 0; mi < len(sp.msgs) && !bad && !streamDead; mi++ {
					p := &sp.msgs[mi]
					o := &outs[side][si][1+mi]
					o.done = true
					if p.writer == side {
						if p.rpcErr != nil {
							o.err = st.WriteResponseErr(p.sendErr)
						} else {
							o.err = st.WriteResponse(p.obj)
						}
						// a write may fail because the peer gave up on an under-limit message
						bad = o.err != nil && !p.under
					} else {
						readInto(st, p, o, false)
						bad = (o.err != nil && !p.under) || (o.err == nil && !o.eq)
					}
					streamDead = o.err != nil
				}
				st.Close()
				if bad {
					ls.abort(side, si)
					t.Close()
					return nil
				}
				ls.finish(side, si)
			}
			return nil
		}
	}
	ea, eb = runPair(script(0, renter), script(1, host))
	if ea != nil || eb != nil {
		return fail("script panicked: %v / %v", ea, eb)
	}
	appliedBefore := false
	if fc != nil {
		appliedBefore, _ = fc.state()
	}

	// sentinel RPC: the session must still work, unless a byte was modified in transit
	sentID := types.NewSpecifier("sentinel")
	sentObj := &rhp3.RPCAccountBalanceResponse{Balance: types.NewCurrency64(c.Seed)}
	var sentGot rhp3.RPCAccountBalanceResponse
	sa, sb := runPair(
		func() error {
			st := renter.DialStream()
			defer st.Close()
			if err := st.WriteRequest(sentID, nil); err != nil {
				renter.Close()
				return err
			}
			if err := st.ReadResponse(&sentGot, 64); err != nil {
				renter.Close()
				return err
			}
			return nil
		},
		func() error {
			st, err := host.AcceptStream()
			if err != nil {
				host.Close()
				return err
			}
			defer st.Close()
			if id, err := st.ReadID(); err != nil || id != sentID {
				host.Close()
				return fmt.Errorf("sentinel ReadID: %v %v", id, err)
			}
			if err := st.WriteResponse(sentObj); err != nil {
				host.Close()
				return err
			}
			return nil
		})
	if isPanic(sa) || isPanic(sb) {
		return fail("sentinel panicked: %v / %v", sa, sb)
	}
	sentinelOK := sa == nil && sb == nil
	if sentinelOK && sentGot != *sentObj {
		return fail("sentinel response differs: %v vs %v", sentGot, *sentObj)
	}

	// ---- oracle
	for s, name := range []string{"renter", "host"} {
		for si := range plans {
			if err := wrongObject(fmt.Sprintf("%s stream %d", name, si), outs[s][si]); err != nil {
				return fail("%v", err)
			}
		}
	}
	appliedAfter := false
	if fc != nil {
		appliedAfter, _ = fc.state()
	}
	label := "rhp3:session:clean"
	nmsgs := 0
	nt := false
	switch {
	case appliedBefore:
		if sentinelOK {
			return fail("a byte was modified in transit (%s packet %d off %d from side %s) and the session still completed an RPC afterwards", fc.spec.Op, fc.spec.Frame, fc.spec.Off, fc.spec.Side)
		}
		label, nt = "rhp3:fault:session-dead", true
		rec.Label("mux:fault-op:" + fc.spec.Op)
	case appliedAfter:
		label, nt = "rhp3:fault:hit-sentinel-or-later", true
	default:
		// no modification: everything must have arrived, except refused under-limit messages
		for si, sp := range plans {
			dead := false
			for mi := 0; mi <= len(sp.msgs); mi++ {
				var p *r3plan
				if mi == 0 {
					p = sp.req
				} else {
					p = &sp.msgs[mi-1]
				}
				for s := 0; s < 2; s++ {
					o := outs[s][si][mi]
					if dead {
						continue
					}
					if !o.done {
						return fail("stream %d message %d not reached on side %d", si, mi, s)
					}
					if p != nil && p.under {
						if o.read && o.err == nil {
							return fail("stream %d message %d: read succeeded with maxLen %d although the message needs more", si, mi, p.maxLen)
						}
						continue
					}
					if o.err != nil {
						return fail("stream %d message %d failed on side %d without any modification in transit: %v", si, mi, s, o.err)
					}
				}
				if p != nil && p.under {
					dead = true
					label, nt = "rhp3:session:under-limit-refused", true
				}
				nmsgs++
			}
		}
		if !sentinelOK {
			return fail("sentinel RPC failed on an unmodified session: renter=%v host=%v", sa, sb)
		}
		if fc != nil {
			label = "rhp3:fault:beyond-traffic"
		}
	}
	if nmsgs >= 5 {
		nt = true
	}
	fp := stats.FP("rhp3", label, len(plans))
	for _, s := range c.Streams {
		fp = stats.FP(fp, s.Req, s.ReqN, len(s.Msgs))
		rec.Label("rhp3:kind:" + s.Req)
		for _, m := range s.Msgs {
			fp = stats.FP(fp, m.Kind, m.Dir, m.Err, m.N, m.Limit)
			if m.Err {
				rec.Label("rhp3:kind:RPCError")
			} else {
				rec.Label("rhp3:kind:" + m.Kind)
			}
		}
	}
	if c.Fault != nil {
		fp = stats.FP(fp, c.Fault.Side, c.Fault.Op, c.Fault.Frame, int(c.Fault.Off)%64)
	}
	rec.Case(fp, nt, label)
	if rec.WantSample() {
		rec.Sample(nt, c)
	}
	return nil
}

func drawRHP3(t *rapid.T) R3Case {
	c := R3Case{Seed: rapid.Uint64().Draw(t, "seed")}
	if rapid.IntRange(0, 19).Draw(t, "hs") == 0 {
		c.Handshake = "badkey"
		return c
	}
	names := r3names()
	kindN := func(label string) (string, int) {
		name := rapid.SampledFrom(names).Draw(t, label)
		k := r3byName(name)
		hi := k.maxN
		if hi > 70000 && rapid.IntRange(0, 7).Draw(t, label+"-big") != 0 {
			hi = 70000
		}
		return name, drawSize(t, 0, hi, label+"-n")
	}
	limits := []string{"exact", "exact", "loose", "under"}
	ns := rapid.IntRange(1, 4).Draw(t, "streams")
	packets := 2
	for i := 0; i < ns; i++ {
		var s R3Stream
		if rapid.IntRange(0, 4).Draw(t, "idonly") == 0 {
			s.Req = "none"
		} else {
			s.Req, s.ReqN = kindN("req")
			s.ReqLimit = rapid.SampledFrom(limits).Draw(t, "reqlimit")
			packets += 1 + s.ReqN/4000
		}
		nm := rapid.IntRange(0, 4).Draw(t, "msgs")
		for j := 0; j < nm; j++ {
			m := R3Msg{Dir: rapid.SampledFrom([]string{"a2b", "b2a", "b2a"}).Draw(t, "dir"), Err: rapid.IntRange(0, 5).Draw(t, "err") == 0}
			if m.Err {
				m.Wrap = rapid.SampledFrom([]int{0, 0, 1, 2, 3}).Draw(t, "wrap")
			}
			if m.Err {
				m.N = rapid.IntRange(0, 400).Draw(t, "errn")
			} else {
				m.Kind, m.N = kindN("kind")
			}
			m.Limit = rapid.SampledFrom(limits).Draw(t, "limit")
			packets += 1 + m.N/4000
			s.Msgs = append(s.Msgs, m)
		}
		c.Streams = append(c.Streams, s)
	}
	if rapid.IntRange(0, 9).Draw(t, "faulty") < 5 {
		c.Fault = drawFault(t, false, max(1, packets*2/3))
	}
	return c
}

func TestRHP3(t *testing.T) { stats.Prop(t, drawRHP3, checkRHP3) }

// ---- gateway -----------------------------------------------------------------------------------

// siacoinLeafHash restates the accumulator leaf hash of an unspent siacoin element
// (types/multiproof.go), needed to hand a multiproof encoder proofs that are valid for
// one tree.
func siacoinLeafHash(e *types.SiacoinElement) types.Hash256 {
	h := types.NewHasher()
	h.WriteDistinguisher("leaf/siacoin")
	e.ID.EncodeTo(h.E)
	types.V2SiacoinOutput(e.SiacoinOutput).EncodeTo(h.E)
	h.E.WriteUint64(e.MaturityHeight)
	eh := h.Sum()
	buf := make([]byte, 1+32+8+1)
	copy(buf[1:], eh[:])
	for i := 0; i < 8; i++ {
		buf[33+i] = byte(e.StateElement.LeafIndex >> (8 * uint(i)))
	}
	return types.HashBytes(buf)
}

// v2TxnsTree builds n transactions whose siacoin inputs are leaves of one Merkle tree
// and carry proofs valid for that tree.
func (r *rng) v2TxnsTree(n int) []types.V2Transaction {
	if n == 0 {
		return nil
	}
	var txns []types.V2Transaction
	total := 0
	for i := 0; i < n; i++ {
		k := 1 + r.intn(2)
		txn := r.v2Txn(0, 0, false)
		txn.SiacoinInputs = r.v2Inputs(k, 0)
		if r.intn(3) == 0 {
			txn.Attestations = []types.Attestation{{PublicKey: types.PublicKey(r.hash()), Key: r.str(r.rangeInt(1, 20)), Value: r.bytes(r.rangeInt(1, 40)), Signature: r.sig()}}
			txn.FileContracts = []types.V2FileContract{r.v2Contract()}
		}
		total += k
		txns = append(txns, txn)
	}
	height := bits.Len(uint(2*total - 1))
	nLeaves := 1 << uint(height)
	base := (r.u64() % (1 << 30)) << uint(height+1)
	// distinct positions: a*i+b mod 2^height with a odd
	a, b := r.u64()|1, r.u64()
	level := r.hashes(nLeaves)
	var elems []*types.SiacoinElement
	for i := range txns {
		for j := range txns[i].SiacoinInputs {
			elems = append(elems, &txns[i].SiacoinInputs[j].Parent)
		}
	}
	pos := make([]int, len(elems))
	for i, e := range elems {
		pos[i] = int((a*uint64(i) + b) % uint64(nLeaves))
		e.StateElement.LeafIndex = base + uint64(pos[i])
		e.StateElement.MerkleProof = make([]types.Hash256, height)
		level[pos[i]] = siacoinLeafHash(e)
	}
	for h := 0; h < height; h++ {
		for i, e := range elems {
			e.StateElement.MerkleProof[h] = level[(pos[i]>>uint(h))^1]
		}
		next := make([]types.Hash256, len(level)/2)
		for i := range next {
			next[i] = blake2b.SumPair(level[2*i], level[2*i+1])
		}
		level = next
	}
	return txns
}

// block builds a block with nV1 v1 transactions and nV2 v2 transactions (proofs valid
// for one tree) plus, if fat > 0, one v2 transaction with fat bytes of arbitrary data.
func (r *rng) block(nV1, nV2, fat int, v2 bool) types.Block {
	b := types.Block{ParentID: types.BlockID(r.hash()), Nonce: r.u64(), Timestamp: r.stamp(), MinerPayouts: r.scos(1), Transactions: r.v1Txns(nV1, 1)}
	if v2 {
		b.V2 = &types.V2BlockData{Height: r.u64() % (1 << 40), Commitment: r.hash(), Transactions: r.v2TxnsTree(nV2)}
		if fat > 0 {
			b.V2.Transactions = append(b.V2.Transactions, types.V2Transaction{ArbitraryData: r.bytes(fat), MinerFee: r.cur()})
		}
	}
	return b
}

func (r *rng) state() consensus.State {
	var s consensus.State
	s.Index = types.ChainIndex{Height: uint64(r.intn(40)), ID: types.BlockID(r.hash())}
	if r.bool() {
		s.Index.Height = r.u64() % (1 << 40)
	}
	nts := int(min(s.Index.Height+1, 11))
	for i := 0; i < nts; i++ {
		s.PrevTimestamps[i] = r.stamp()
	}
	s.Depth, s.ChildTarget, s.OakTarget = types.BlockID(r.hash()), types.BlockID(r.hash()), types.BlockID(r.hash())
	s.SiafundTaxRevenue = r.cur()
	s.OakTime = time.Duration(r.u64() % (1 << 50))
	s.FoundationSubsidyAddress, s.FoundationManagementAddress = r.addr(), r.addr()
	for _, w := range []*consensus.Work{&s.TotalWork, &s.Difficulty, &s.OakWork} {
		h := r.hash()
		if err := w.UnmarshalText([]byte(new(big.Int).SetBytes(h[:]).String())); err != nil {
			panic(err)
		}
	}
	s.Elements.NumLeaves = r.u64()
	if r.intn(4) == 0 {
		s.Elements.NumLeaves = ^uint64(0)
	}
	for i := range s.Elements.Trees {
		if s.Elements.NumLeaves&(1<<uint(i)) != 0 {
			s.Elements.Trees[i] = r.hash()
		}
	}
	s.Attestations = r.u64()
	return s
}

type gwkind struct {
	name    string
	maxN    int
	fat     bool // carries blocks / transaction sets: Fat bytes of arbitrary data are meaningful
	over    bool // has an exact limit that N+1 elements exceed
	overReq bool // the over-limit part is the request (read by the responder)
	// build returns the request view (only the fields the initiator sets) and the full object
	build func(r *rng, n, fat int, over bool) (req, full gateway.Object)
}

func (r *rng) netaddr() string {
	return fmt.Sprintf("%d.%d.%d.%d:%d", r.intn(256), r.intn(256), r.intn(256), r.intn(256), 1+r.intn(65535))
}

var gwkinds = []gwkind{
	{name: "ShareNodes", maxN: 100, build: func(r *rng, n, fat int, over bool) (gateway.Object, gateway.Object) {
		full := &gateway.RPCShareNodes{}
		for i := 0; i < n; i++ {
			full.Peers = append(full.Peers, r.netaddr())
		}
		return &gateway.RPCShareNodes{}, full
	}},
	{name: "DiscoverIP", maxN: 45, build: func(r *rng, n, fat int, over bool) (gateway.Object, gateway.Object) {
		return &gateway.RPCDiscoverIP{}, &gateway.RPCDiscoverIP{IP: r.str(n)}
	}},
	{name: "SendHeaders", maxN: 3000, over: true, build: func(r *rng, n, fat int, over bool) (gateway.Object, gateway.Object) {
		req := &gateway.RPCSendHeaders{Index: types.ChainIndex{Height: r.u64(), ID: types.BlockID(r.hash())}, Max: uint64(n)}
		full := *req
		k := n
		if over {
			k = n + 1
		}
		for i := 0; i < k; i++ {
			full.Headers = append(full.Headers, types.BlockHeader{ParentID: types.BlockID(r.hash()), Nonce: r.u64(), Timestamp: r.stamp(), Commitment: r.hash()})
		}
		full.Remaining = r.u64()
		return req, &full
	}},
	{name: "SendV2Blocks", maxN: 32, fat: true, over: true, overReq: true, build: func(r *rng, n, fat int, over bool) (gateway.Object, gateway.Object) {
		k := n
		if over {
			k = 33
		}
		req := &gateway.RPCSendV2Blocks{Max: uint64(1 + r.intn(3))}
		for i := 0; i < k; i++ {
			req.History = append(req.History, types.BlockID(r.hash()))
		}
		full := *req
		for i, nb := 0, r.intn(int(req.Max)+1); i < nb; i++ {
			f := 0
			if i == 0 {
				f = fat
			}
			full.Blocks = append(full.Blocks, r.block(r.intn(3), r.intn(6), f, r.intn(5) != 0))
		}
		full.Remaining = r.u64()
		return req, &full
	}},
	{name: "SendTransactions", maxN: 100, fat: true, over: true, overReq: true, build: func(r *rng, n, fat int, over bool) (gateway.Object, gateway.Object) {
		k := n
		if over {
			k = 101
		}
		req := &gateway.RPCSendTransactions{Index: types.ChainIndex{Height: r.u64(), ID: types.BlockID(r.hash())}, Hashes: r.hashes(k)}
		full := *req
		full.Transactions = r.v1Txns(r.intn(4), 1)
		full.V2Transactions = r.v2Txns(r.intn(4), 2, r.intn(30), true)
		if fat > 0 {
			full.V2Transactions = append(full.V2Transactions, types.V2Transaction{ArbitraryData: r.bytes(fat)})
		}
		return req, &full
	}},
	{name: "SendCheckpoint", fat: true, build: func(r *rng, n, fat int, over bool) (gateway.Object, gateway.Object) {
		req := &gateway.RPCSendCheckpoint{Index: types.ChainIndex{Height: r.u64(), ID: types.BlockID(r.hash())}}
		full := *req
		full.Block = r.block(r.intn(3), r.intn(6), fat, true)
		full.State = r.state()
		return req, &full
	}},
	{name: "RelayV2Header", build: func(r *rng, n, fat int, over bool) (gateway.Object, gateway.Object) {
		o := &gateway.RPCRelayV2Header{Header: types.BlockHeader{ParentID: types.BlockID(r.hash()), Nonce: r.u64(), Timestamp: r.stamp(), Commitment: r.hash()}}
		return o, o
	}},
	{name: "RelayV2BlockOutline", maxN: 8, fat: true, build: func(r *rng, n, fat int, over bool) (gateway.Object, gateway.Object) {
		b := r.block(r.intn(4), n, fat, true)
		// the receiver is assumed to know a random subset of the transactions already
		var known1 []types.Transaction
		var known2 []types.V2Transaction
		for _, txn := range b.Transactions {
			if r.intn(3) == 0 {
				known1 = append(known1, txn)
			}
		}
		for _, txn := range b.V2.Transactions {
			if r.intn(3) == 0 {
				known2 = append(known2, txn)
			}
		}
		o := &gateway.RPCRelayV2BlockOutline{Block: gateway.OutlineBlock(b, known1, known2)}
		return o, o
	}},
	{name: "RelayV2TransactionSet", maxN: 8, fat: true, build: func(r *rng, n, fat int, over bool) (gateway.Object, gateway.Object) {
		o := &gateway.RPCRelayV2TransactionSet{Index: types.ChainIndex{Height: r.u64(), ID: types.BlockID(r.hash())}, Transactions: r.v2Txns(n, 2, r.intn(30), true)}
		if fat > 0 {
			o.Transactions = append(o.Transactions, types.V2Transaction{ArbitraryData: r.bytes(fat)})
		}
		return o, o
	}},
}

func gwbyName(name string) *gwkind {
	for i := range gwkinds {
		if gwkinds[i].name == name {
			return &gwkinds[i]
		}
	}
	return nil
}

func gwnames() (out []string) {
	for _, k := range gwkinds {
		out = append(out, k.name)
	}
	return
}

// GWStep is one gateway RPC on its own stream.
type GWStep struct {
	RPC  string `json:"rpc"`
	Init string `json:"init"` // a | b : which peer initiates
	N    int    `json:"n"`
	Fat  int    `json:"fat"`
	Over bool   `json:"over"`
}

// GWCase is one gateway session.
type GWCase struct {
	Seed      uint64     `json:"seed"`
	Steps     []GWStep   `json:"steps"`
	Fault     *FaultSpec `json:"fault,omitempty"`
	Handshake string     `json:"handshake,omitempty"` // "" | genesis | uniqueid
}

// maxBlockFat keeps a block with one arbitrary-data transaction under the block weight
// limit (2 000 000; consensus.State.MaxBlockWeight).
const maxBlockFat = 1_990_000

func checkGateway(c GWCase) error {
	rec := stats.G()
	fail := func(format string, args ...any) error {
		return stats.Failf("C19/gateway", "gateway seed=%d: %s", c.Seed, fmt.Sprintf(format, args...))
	}
	hr := newRng(c.Seed, "gw-headers")
	var hdr [2]gateway.Header
	remote := [2]fakeAddr{fakeAddr(hr.netaddr()), fakeAddr(hr.netaddr())} // remote[i]: address of peer i as seen by the other
	genesis := types.BlockID(hr.hash())
	for i := range hdr {
		hdr[i].GenesisID = genesis
		hr.fill(hdr[i].UniqueID[:])
		hdr[i].NetAddress = hr.netaddr()
	}
	hdr[1].UniqueID[0] = hdr[0].UniqueID[0] ^ 1
	switch c.Handshake {
	case "genesis":
		hdr[1].GenesisID = types.BlockID(hr.hash())
	case "uniqueid":
		hdr[1].UniqueID = hdr[0].UniqueID
	}

	pa, pb, fc, closeAll := muxPair(c.Fault)
	defer closeAll()
	connA := addrConn{Conn: pa, remote: remote[1]}
	connB := addrConn{Conn: pb, remote: remote[0]}
	var ta, tb *gateway.Transport
	ea, eb := runPair(
		func() (err error) {
			if ta, err = gateway.Dial(connA, hdr[0]); err != nil {
				connA.Close()
			}
			return
		},
		func() (err error) {
			if tb, err = gateway.Accept(connB, hdr[1]); err != nil {
				connB.Close()
			}
			return
		})
	if isPanic(ea) || isPanic(eb) {
		return fail("handshake panicked: %v / %v", ea, eb)
	}
	if c.Handshake != "" {
		if ea == nil || eb == nil {
			return fail("handshake with mismatched headers (%s): dialer=%v acceptor=%v (both must fail)", c.Handshake, ea, eb)
		}
		rec.Case(stats.FP("gw-handshake", c.Handshake, c.Seed), true, "gateway:handshake:"+c.Handshake)
		return nil
	}
	if ea != nil || eb != nil {
		return fail("handshake between compatible peers failed: dialer=%v acceptor=%v", ea, eb)
	}
	defer ta.Close()
	defer tb.Close()
	for i, t := range []*gateway.Transport{ta, tb} {
		peer := 1 - i
		host, _, _ := net.SplitHostPort(string(remote[peer]))
		_, port, _ := net.SplitHostPort(hdr[peer].NetAddress)
		if t.UniqueID != hdr[peer].UniqueID || t.Version != "2.0.0" || t.Addr != net.JoinHostPort(host, port) {
			return fail("peer %d learned (%x, %q, %q) from the handshake, the other side sent (%x, 2.0.0, %s:%s)", i, t.UniqueID, t.Version, t.Addr, hdr[peer].UniqueID, host, port)
		}
	}
	if fc != nil {
		fc.arm()
	}

	type stepPlan struct {
		req, full gateway.Object
		init      int
		overRead  int // side that reads the over-limit part; -1: none
	}
	// each side gets its own instances of the expected objects (ReadResponse decodes into
	// the initiator's request object)
	var sidePlans [2][]stepPlan
	for side := 0; side < 2; side++ {
		sidePlans[side] = make([]stepPlan, len(c.Steps))
		for i, st := range c.Steps {
			k := gwbyName(st.RPC)
			if k == nil {
				return stats.Failf("", "harness: unknown gateway rpc %q", st.RPC)
			}
			p := stepPlan{overRead: -1}
			if st.Init == "b" {
				p.init = 1
			}
			over := st.Over && k.over
			p.req, p.full = k.build(newRng(c.Seed, fmt.Sprint("gw", i)), st.N, st.Fat, over)
			if over {
				p.overRead = p.init
				if k.overReq {
					p.overRead = 1 - p.init
				}
			}
			sidePlans[side][i] = p
		}
	}
	plans := sidePlans[0]
	var outs [2][]outcome
	outs[0], outs[1] = make([]outcome, len(plans)), make([]outcome, len(plans))
	ls := newLockstep(len(plans))
	step := func(side int, t *gateway.Transport, p *stepPlan, o *outcome) {
		o.done = true
		if p.init == side {
			st, err := t.DialStream()
			if err != nil {
				o.err = err
				return
			}
			defer st.Close()
			mine := p.req
			if mine == p.full { // relay RPCs: nothing comes back, do not alias the expected object
				mine = newLike(p.full).(gateway.Object)
				if o.err = st.WriteID(p.full); o.err == nil {
					o.err = st.WriteRequest(p.full)
				}
				if o.err == nil {
					o.err = st.ReadResponse(mine)
				}
				return
			}
			if o.err = st.WriteID(mine); o.err != nil {
				return
			}
			if o.err = st.WriteRequest(mine); o.err != nil {
				return
			}
			o.read = true
			if o.err = st.ReadResponse(mine); o.err == nil {
				o.eq, o.diff = normEqual(p.full, mine)
			}
			return
		}
		st, err := t.AcceptStream()
		if err != nil {
			o.err = err
			return
		}
		defer st.Close()
		o.read = true
		id, err := st.ReadID()
		if err != nil {
			o.err = err
			return
		}
		got := gateway.ObjectForID(id)
		if got == nil || fmt.Sprintf("%T", got) != fmt.Sprintf("%T", p.full) {
			o.eq, o.diff = false, fmt.Sprintf("rpc id %q maps to %T, the initiator sent %T", id, got, p.full)
			return
		}
		if o.err = st.ReadRequest(got); o.err != nil {
			return
		}
		want := p.req
		if o.eq, o.diff = normEqual(want, got); !o.eq {
			return
		}
		o.err = st.WriteResponse(p.full)
	}
	script := func(side int, t *gateway.Transport) func() error {
		return func() error {
			for i := range sidePlans[side] {
				p := &sidePlans[side][i]
				o := &outs[side][i]
				step(side, t, p, o)
				expected := p.overRead >= 0 // either side may see an error on an over-limit step
				if (o.err != nil && !expected) || (o.err == nil && o.read && !o.eq) {
					ls.abort(side, i)
					t.Close()
					return nil
				}
				ls.finish(side, i)
			}
			return nil
		}
	}
	ea, eb = runPair(script(0, ta), script(1, tb))
	if ea != nil || eb != nil {
		return fail("script panicked: %v / %v", ea, eb)
	}
	appliedBefore := false
	if fc != nil {
		appliedBefore, _ = fc.state()
	}

	// sentinel
	sentIP := fmt.Sprintf("sentinel-%d", c.Seed)
	var sentGot gateway.RPCDiscoverIP
	sa, sb := runPair(
		func() error {
			st, err := ta.DialStream()
			if err != nil {
				return err
			}
			defer st.Close()
			if err := st.WriteID(&sentGot); err != nil {
				ta.Close()
				return err
			} else if err := st.WriteRequest(&sentGot); err != nil {
				ta.Close()
				return err
			} else if err := st.ReadResponse(&sentGot); err != nil {
				ta.Close()
				return err
			}
			return nil
		},
		func() error {
			st, err := tb.AcceptStream()
			if err != nil {
				tb.Close()
				return err
			}
			defer st.Close()
			id, err := st.ReadID()
			if err != nil {
				tb.Close()
				return err
			}
			r, ok := gateway.ObjectForID(id).(*gateway.RPCDiscoverIP)
			if !ok {
				tb.Close()
				return fmt.Errorf("sentinel id %q", id)
			}
			if err := st.ReadRequest(r); err != nil {
				tb.Close()
				return err
			}
			r.IP = sentIP
			if err := st.WriteResponse(r); err != nil {
				tb.Close()
				return err
			}
			return nil
		})
	if isPanic(sa) || isPanic(sb) {
		return fail("sentinel panicked: %v / %v", sa, sb)
	}
	sentinelOK := sa == nil && sb == nil
	if sentinelOK && sentGot.IP != sentIP {
		return fail("sentinel response differs: %q", sentGot.IP)
	}

	// ---- oracle
	if err := wrongObject("dialer", outs[0]); err != nil {
		return fail("%v", err)
	}
	if err := wrongObject("acceptor", outs[1]); err != nil {
		return fail("%v", err)
	}
	appliedAfter := false
	if fc != nil {
		appliedAfter, _ = fc.state()
	}
	label, nt := "gateway:session:clean", len(plans) >= 5
	switch {
	case appliedBefore:
		if sentinelOK {
			return fail("a byte was modified in transit (%s packet %d off %d from side %s) and the session still completed an RPC afterwards", fc.spec.Op, fc.spec.Frame, fc.spec.Off, fc.spec.Side)
		}
		label, nt = "gateway:fault:session-dead", true
		rec.Label("mux:fault-op:" + fc.spec.Op)
	case appliedAfter:
		label, nt = "gateway:fault:hit-sentinel-or-later", true
	default:
		for i, p := range plans {
			for s := 0; s < 2; s++ {
				o := outs[s][i]
				if !o.done {
					return fail("step %d (%s) not reached on side %d", i, c.Steps[i].RPC, s)
				}
				if p.overRead == s {
					if o.err == nil {
						return fail("step %d (%s): a message one element over the receiver's limit was read without error", i, c.Steps[i].RPC)
					}
					nt = true
					continue
				}
				if o.err != nil && p.overRead < 0 {
					return fail("step %d (%s n=%d fat=%d init=%s) failed on side %d without any modification in transit: %v", i, c.Steps[i].RPC, c.Steps[i].N, c.Steps[i].Fat, c.Steps[i].Init, s, o.err)
				}
			}
		}
		if !sentinelOK {
			return fail("sentinel RPC failed on an unmodified session: dialer=%v acceptor=%v", sa, sb)
		}
		if fc != nil {
			label = "gateway:fault:beyond-traffic"
		}
	}
	fp := stats.FP("gw", label, len(plans))
	for _, st := range c.Steps {
		fp = stats.FP(fp, st.RPC, st.Init, st.N, st.Fat/1000, st.Over)
		rec.Label("gateway:rpc:" + st.RPC)
		if st.Fat > 1_900_000 {
			rec.Label("gateway:block-weight-max")
			nt = true
		}
		if k := gwbyName(st.RPC); k.maxN > 0 && st.N == k.maxN {
			rec.Label("gateway:at-limit:" + st.RPC)
			nt = true
		}
	}
	if c.Fault != nil {
		fp = stats.FP(fp, c.Fault.Side, c.Fault.Op, c.Fault.Frame, int(c.Fault.Off)%64)
	}
	rec.Case(fp, nt, label)
	if rec.WantSample() {
		rec.Sample(nt, c)
	}
	return nil
}

func drawGateway(t *rapid.T) GWCase {
	c := GWCase{Seed: rapid.Uint64().Draw(t, "seed")}
	switch rapid.IntRange(0, 19).Draw(t, "hs") {
	case 0:
		c.Handshake = "genesis"
		return c
	case 1:
		c.Handshake = "uniqueid"
		return c
	}
	names := gwnames()
	ns := rapid.IntRange(1, 7).Draw(t, "steps")
	packets := 2
	for i := 0; i < ns; i++ {
		st := GWStep{RPC: rapid.SampledFrom(names).Draw(t, "rpc"), Init: rapid.SampledFrom([]string{"a", "b"}).Draw(t, "init")}
		k := gwbyName(st.RPC)
		st.N = drawSize(t, 0, k.maxN, "n")
		if k.fat {
			switch rapid.IntRange(0, 9).Draw(t, "fatkind") {
			case 0:
				st.Fat = rapid.IntRange(maxBlockFat-1000, maxBlockFat).Draw(t, "fat")
			case 1, 2:
				st.Fat = rapid.IntRange(1, 100000).Draw(t, "fat")
			}
		}
		if k.over && rapid.IntRange(0, 5).Draw(t, "over") == 0 {
			st.Over = true
		}
		packets += 2 + st.Fat/4000 + st.N/40
		c.Steps = append(c.Steps, st)
	}
	if rapid.IntRange(0, 9).Draw(t, "faulty") < 5 {
		c.Fault = drawFault(t, false, max(1, packets*2/3))
	}
	return c
}

func TestGateway(t *testing.T) { stats.Prop(t, drawGateway, checkGateway) }

const keyBlockLimit = "C19/gateway-max-weight-block-exceeds-5e6"

// deepInputBlock builds a block holding one v2 transaction with n siacoin inputs whose
// parents are evenly spread leaves of one accumulator tree of the given height, with
// Merkle proofs that are valid for that tree (so the multiproof encoding applies).
func deepInputBlock(n, height int) types.Block {
	txn := types.V2Transaction{MinerFee: types.NewCurrency64(1)}
	nodes := map[uint64]types.Hash256{}
	for i := 0; i < n; i++ {
		var in types.V2SiacoinInput
		in.Parent.ID = types.SiacoinOutputID(types.HashBytes([]byte(fmt.Sprint("deep", i))))
		in.Parent.SiacoinOutput.Value = types.NewCurrency64(uint64(i))
		in.Parent.StateElement.LeafIndex = uint64(i) * ((1 << uint(height)) / uint64(n))
		in.Parent.StateElement.MerkleProof = make([]types.Hash256, height)
		in.SatisfiedPolicy = types.SatisfiedPolicy{Policy: types.PolicyPublicKey(types.PublicKey{1}), Signatures: []types.Signature{{1}}}
		txn.SiacoinInputs = append(txn.SiacoinInputs, in)
	}
	for i := range txn.SiacoinInputs {
		e := &txn.SiacoinInputs[i].Parent
		nodes[e.StateElement.LeafIndex] = siacoinLeafHash(e)
	}
	filler := func(level int, idx uint64) types.Hash256 {
		return types.HashBytes([]byte(fmt.Sprint("filler", level, ".", idx)))
	}
	for lvl := 0; lvl < height; lvl++ {
		get := func(idx uint64) types.Hash256 {
			if h, ok := nodes[idx]; ok {
				return h
			}
			return filler(lvl, idx)
		}
		for i := range txn.SiacoinInputs {
			e := &txn.SiacoinInputs[i].Parent
			e.StateElement.MerkleProof[lvl] = get((e.StateElement.LeafIndex >> uint(lvl)) ^ 1)
		}
		next := map[uint64]types.Hash256{}
		for idx := range nodes {
			if p := idx >> 1; next[p] == (types.Hash256{}) {
				next[p] = blake2b.SumPair(get(p<<1), get(p<<1|1))
			}
		}
		nodes = next
	}
	return types.Block{ParentID: types.BlockID{1}, Timestamp: time.Unix(1700000000, 0), MinerPayouts: []types.SiacoinOutput{{Value: types.NewCurrency64(1)}},
		V2: &types.V2BlockData{Height: 1000000, Transactions: []types.V2Transaction{txn}}}
}

// TestKnownBlockLimit: block weight does not count Merkle proofs, the wire encoding does.
// A block of weight 1 962 000 (limit 2 000 000) that spends 9 000 outputs spread over an
// accumulator tree of height 27 encodes to ~5.9 MB even with the multiproof compression,
// which is more than the 5e6 bytes the gateway allows for RPCSendV2Blocks with Max = 1
// (and for RPCRelayV2BlockOutline and RPCSendCheckpoint).
func TestKnownBlockLimit(t *testing.T) {
	stats.ProbeKnown(t, keyBlockLimit, "a block within the weight limit (9000 inputs, accumulator height 27) encodes to more than the 5e6 bytes the gateway RPCs allow per block", func() error {
		b := deepInputBlock(9000, 27)
		var cs consensus.State
		if w := cs.V2TransactionWeight(b.V2.Transactions[0]); w > cs.MaxBlockWeight() {
			return fmt.Errorf("probe block is over the weight limit: %d", w)
		}
		pa, pb := net.Pipe()
		defer pa.Close()
		defer pb.Close()
		genesis := types.BlockID{7}
		var ta, tb *gateway.Transport
		ea, eb := runPair(
			func() (err error) {
				ta, err = gateway.Dial(addrConn{pa, "10.0.0.2:9981"}, gateway.Header{GenesisID: genesis, UniqueID: gateway.UniqueID{1}, NetAddress: "10.0.0.1:9981"})
				return
			},
			func() (err error) {
				tb, err = gateway.Accept(addrConn{pb, "10.0.0.1:9981"}, gateway.Header{GenesisID: genesis, UniqueID: gateway.UniqueID{2}, NetAddress: "10.0.0.2:9981"})
				return
			})
		if ea != nil || eb != nil {
			return fmt.Errorf("probe handshake failed: %v / %v", ea, eb)
		}
		defer ta.Close()
		defer tb.Close()
		// sendBlock fetches blk with SendV2Blocks(Max=1): a -> b request, b -> a response
		sendBlock := func(blk types.Block, last bool) (req *gateway.RPCSendV2Blocks, readErr, err error) {
			req = &gateway.RPCSendV2Blocks{History: []types.BlockID{{1}}, Max: 1}
			ea, eb := runPair(
				func() error {
					st, err := ta.DialStream()
					if err != nil {
						return err
					}
					defer st.Close()
					if err := st.WriteID(req); err != nil {
						return err
					} else if err := st.WriteRequest(req); err != nil {
						return err
					}
					if readErr = st.ReadResponse(req); readErr != nil && last {
						ta.Close() // releases the responder if it is still writing
					}
					return nil
				},
				func() error {
					st, err := tb.AcceptStream()
					if err != nil {
						return err
					}
					defer st.Close()
					if _, err := st.ReadID(); err != nil {
						return err
					}
					var got gateway.RPCSendV2Blocks
					if err := st.ReadRequest(&got); err != nil {
						return err
					}
					got.Blocks = []types.Block{blk}
					st.WriteResponse(&got) // may fail once the reader has given up
					return nil
				})
			if ea != nil || eb != nil {
				err = fmt.Errorf("probe RPC could not run: %v / %v", ea, eb)
			}
			return
		}
		// self-check: the same construction over a shallower accumulator (3.9 MB) goes through
		small := deepInputBlock(9000, 20)
		if req, readErr, err := sendBlock(small, false); err != nil || readErr != nil {
			return fmt.Errorf("probe self-check failed (block over a height-20 tree, %d bytes): %v %v", encLen(types.V2Block(small)), readErr, err)
		} else if ok, p := normEqual([]types.Block{small}, req.Blocks); !ok {
			return fmt.Errorf("probe self-check: block differs at %s", p)
		}
		req, readErr, err := sendBlock(b, true)
		if err != nil {
			return err
		}
		if readErr != nil {
			return fmt.Errorf("SendV2Blocks(Max=1) response carrying one block of weight %d (%d bytes encoded): ReadResponse: %v",
				cs.V2TransactionWeight(b.V2.Transactions[0]), encLen(types.V2Block(b)), readErr)
		}
		if ok, p := normEqual([]types.Block{b}, req.Blocks); !ok {
			return fmt.Errorf("block differs at %s", p)
		}
		return nil
	})
}
