package c19

// Part 1 — rhp/v4 framing: every Object type at its protocol maximum, at random
// smaller sizes, one element over its batch limit and beyond the receiver's length
// limit; hostile endless streams; error responses.

import (
	"bytes"
	"errors"
	"fmt"
	"io"
	"reflect"
	"sort"
	"testing"

	rhp4 "go.sia.tech/core/rhp/v4"
	"go.sia.tech/core/types"
	"pgregory.net/rapid"
	"verif/harness/stats"
)

// Receive limits, restated by hand from rhp/v4/encoding.go at the pinned commit (the
// maxLen methods are unexported and are what is being checked, so they are not called).
const (
	szCurrency   = 16
	szHash       = 32
	szSig        = 64
	szAccount    = 32
	szPrices     = 6*szCurrency + 8 + 8 + szSig      // 176
	szToken      = 32 + szAccount + 8 + szSig        // 136
	szDeposit    = szAccount + szCurrency            // 48
	szAttachment = szAccount + szAccount + 8 + szSig // 136
	szContract   = 8 + 8 + 32 + 8 + 8 + 48 + 48 + 16 + 16 + 32 + 32 + 8 + 64 + 64
	limObject    = 10 * 1024
	limTxnSet    = 100 * 1024
	limBig       = 20 << 20
	limRPCError  = 1024
	maxSectors   = rhp4.MaxSectorBatchSize  // 2^18
	maxAccounts  = rhp4.MaxAccountBatchSize // 1000
	maxTxnInputs = 20                       // generator bound (DESIGN §5 C19): inputs / parents per contract RPC
	proofDepth   = 40                       // generator bound: accumulator proofs of depth <= 40
)

var (
	hostSK   = keyFromSeed(0xC19, "host")
	hostPK   = hostSK.PublicKey()
	renterSK = keyFromSeed(0xC19, "renter")
	renterPK = renterSK.PublicKey()
)

func (r *rng) curBits(bits int) types.Currency {
	lo, hi := r.u64(), r.u64()
	switch {
	case bits <= 0:
		return types.ZeroCurrency
	case bits <= 64:
		return types.NewCurrency(lo>>(64-uint(bits)), 0)
	default:
		return types.NewCurrency(lo, hi>>(128-uint(bits)))
	}
}

// prices are signed by the deterministic host key and expire in 2100+.
func (r *rng) prices() rhp4.HostPrices {
	hp := rhp4.HostPrices{
		ContractPrice: r.curBits(70), Collateral: r.curBits(20).Add(types.NewCurrency64(1)), StoragePrice: r.curBits(20),
		IngressPrice: r.curBits(40), EgressPrice: r.curBits(40), FreeSectorPrice: r.curBits(40),
		TipHeight: r.u64() % (1 << 30), ValidUntil: r.future(),
	}
	hp.Signature = hostSK.SignHash(hp.SigHash())
	return hp
}

func (r *rng) token() rhp4.AccountToken {
	t := rhp4.AccountToken{HostKey: hostPK, Account: rhp4.Account(renterPK), ValidUntil: r.future()}
	t.Signature = renterSK.SignHash(t.SigHash())
	return t
}

func (r *rng) account() (a rhp4.Account) {
	r.fill(a[:])
	a[0] |= 1 // never the zero account
	return
}

// contexts for the Validate methods that take one
var (
	bigContract = types.V2FileContract{Filesize: rhp4.SectorSize << 19, Capacity: rhp4.SectorSize << 19}
	renewFrom   = types.V2FileContract{Filesize: 1 << 30, Capacity: 1 << 30, ProofHeight: 0, ExpirationHeight: 144,
		TotalCollateral: types.NewCurrency64(1000), MissedHostValue: types.NewCurrency64(400),
		HostOutput: types.SiacoinOutput{Value: types.NewCurrency64(5000)}, RenterOutput: types.SiacoinOutput{Value: types.NewCurrency64(5000)}}
	refreshFrom = types.V2FileContract{Filesize: 1 << 30, Capacity: 1 << 30, ProofHeight: 1 << 40, ExpirationHeight: 1<<40 + 144,
		TotalCollateral: types.NewCurrency64(1000), MissedHostValue: types.NewCurrency64(400),
		HostOutput: types.SiacoinOutput{Value: types.NewCurrency64(5000)}, RenterOutput: types.SiacoinOutput{Value: types.NewCurrency64(5000)}}
)

type v4type struct {
	name       string
	request    bool            // read with ReadRequest (else ReadResponse)
	id         types.Specifier // RPC id written by WriteRequest
	maxLen     int             // the type's own receive limit (restated)
	maxN       int             // protocol maximum of the size parameter (0: fixed-size type)
	minN       int
	batchLimit bool // maxN is enforced by the type's Validate: maxN+1 must be rejected
	maxWhat    string
	build      func(r *rng, n int) rhp4.Object
	validate   func(o rhp4.Object) error // nil: the type has no Validate
}

func (t *v4type) limit() int {
	if t.request {
		return t.maxLen
	}
	return limRPCError + t.maxLen
}

func (t *v4type) newEmpty() rhp4.Object {
	return reflect.New(reflect.TypeOf(t.build(newRng(1, "empty"), t.minN)).Elem()).Interface().(rhp4.Object)
}

func contractTxnSet(r *rng, n int) []types.V2Transaction {
	// n parents, then the contract transaction funded by n renter + n host inputs
	set := r.v2Txns(n, 1, proofDepth, false)
	final := r.v2Txn(2*n, proofDepth, false)
	final.FileContracts = []types.V2FileContract{r.v2Contract()}
	return append(set, final)
}

func sigOnly(name string, mk func(s types.Signature) rhp4.Object) *v4type {
	return &v4type{name: name, maxLen: szSig, build: func(r *rng, n int) rhp4.Object { return mk(r.sig()) }}
}

var v4types = func() []*v4type {
	ts := []*v4type{
		{name: "RPCSettingsRequest", request: true, id: rhp4.RPCSettingsID, maxLen: 0,
			build: func(r *rng, n int) rhp4.Object { return &rhp4.RPCSettingsRequest{} }},
		{name: "RPCSettingsResponse", maxLen: limObject, maxN: 64, maxWhat: "release string of 64 bytes (generator bound)",
			build: func(r *rng, n int) rhp4.Object {
				hs := rhp4.HostSettings{Release: r.str(n), WalletAddress: r.addr(), AcceptingContracts: r.bool(), MaxCollateral: r.cur(),
					MaxContractDuration: r.u64(), RemainingStorage: r.u64(), TotalStorage: r.u64(), Prices: r.prices()}
				r.fill(hs.ProtocolVersion[:])
				return &rhp4.RPCSettingsResponse{Settings: hs}
			}},

		// --- form
		{name: "RPCFormContractRequest", request: true, id: rhp4.RPCFormContractID, maxLen: limTxnSet, maxN: maxTxnInputs, minN: 1,
			maxWhat: "20 renter inputs + 20 parents, proofs of depth 40 (generator bound)",
			build: func(r *rng, n int) rhp4.Object {
				hp := r.prices()
				coll := r.curBits(60)
				return &rhp4.RPCFormContractRequest{Prices: hp,
					Contract: rhp4.RPCFormContractParams{RenterPublicKey: renterPK, RenterAddress: r.addr(),
						Allowance: rhp4.MinRenterAllowance(hp, coll).Add(r.curBits(40)).Add(types.NewCurrency64(1)), Collateral: coll,
						ProofHeight: hp.TipHeight + rhp4.MinContractDuration + uint64(r.intn(1000))},
					MinerFee: r.curNZ(), Basis: types.ChainIndex{Height: hp.TipHeight, ID: types.BlockID(r.hash())},
					RenterInputs: r.sces(n, proofDepth), RenterParents: r.v2Txns(n, 1, proofDepth, n <= 3)}
			},
			validate: func(o rhp4.Object) error {
				req := o.(*rhp4.RPCFormContractRequest)
				return req.Validate(hostPK, types.ChainIndex{Height: req.Prices.TipHeight}, types.MaxCurrency, 1<<40)
			}},
		{name: "RPCFormContractResponse", maxLen: limTxnSet, maxN: maxTxnInputs, maxWhat: "20 host inputs, proofs of depth 40 (generator bound)",
			build: func(r *rng, n int) rhp4.Object {
				return &rhp4.RPCFormContractResponse{HostInputs: r.v2Inputs(n, proofDepth)}
			}},
		{name: "RPCFormContractSecondResponse", maxLen: limObject, maxN: maxTxnInputs, maxWhat: "20 satisfied policies (generator bound)",
			build: func(r *rng, n int) rhp4.Object {
				return &rhp4.RPCFormContractSecondResponse{RenterContractSignature: r.sig(), RenterSatisfiedPolicies: r.satisfieds(n)}
			}},
		{name: "RPCFormContractThirdResponse", maxLen: limTxnSet, maxN: maxTxnInputs, maxWhat: "20 parents + contract txn with 40 inputs, depth 40 (generator bound)",
			build: func(r *rng, n int) rhp4.Object {
				return &rhp4.RPCFormContractThirdResponse{Basis: types.ChainIndex{Height: r.u64(), ID: types.BlockID(r.hash())}, TransactionSet: contractTxnSet(r, n)}
			}},

		// --- renew
		{name: "RPCRenewContractRequest", request: true, id: rhp4.RPCRenewContractID, maxLen: limTxnSet, maxN: maxTxnInputs,
			maxWhat: "20 renter inputs + 20 parents, proofs of depth 40 (generator bound)",
			build: func(r *rng, n int) rhp4.Object {
				hp := r.prices()
				coll := r.curBits(60)
				return &rhp4.RPCRenewContractRequest{Prices: hp,
					Renewal: rhp4.RPCRenewContractParams{ContractID: types.FileContractID(r.hash()),
						Allowance: rhp4.MinRenterAllowance(hp, coll).Add(r.curBits(40)).Add(types.NewCurrency64(1)), Collateral: coll,
						ProofHeight: hp.TipHeight + rhp4.MinContractDuration + uint64(r.intn(1000))},
					MinerFee: r.curNZ(), Basis: types.ChainIndex{Height: hp.TipHeight, ID: types.BlockID(r.hash())},
					RenterInputs: r.sces(n, proofDepth), RenterParents: r.v2Txns(n, 1, proofDepth, n <= 3), ChallengeSignature: r.sig()}
			},
			validate: func(o rhp4.Object) error {
				req := o.(*rhp4.RPCRenewContractRequest)
				return req.Validate(hostPK, types.ChainIndex{}, renewFrom, types.MaxCurrency, 1<<40)
			}},
		{name: "RPCRenewContractResponse", maxLen: limTxnSet, maxN: maxTxnInputs, maxWhat: "20 host inputs, depth 40 (generator bound)",
			build: func(r *rng, n int) rhp4.Object {
				return &rhp4.RPCRenewContractResponse{HostInputs: r.v2Inputs(n, proofDepth)}
			}},
		{name: "RPCRenewContractSecondResponse", maxLen: limObject, maxN: maxTxnInputs, maxWhat: "20 satisfied policies (generator bound)",
			build: func(r *rng, n int) rhp4.Object {
				return &rhp4.RPCRenewContractSecondResponse{RenterRenewalSignature: r.sig(), RenterContractSignature: r.sig(), RenterSatisfiedPolicies: r.satisfieds(n)}
			}},
		{name: "RPCRenewContractThirdResponse", maxLen: limTxnSet, maxN: maxTxnInputs, maxWhat: "20 parents + renewal txn with 40 inputs (generator bound)",
			build: func(r *rng, n int) rhp4.Object {
				return &rhp4.RPCRenewContractThirdResponse{Basis: types.ChainIndex{Height: r.u64(), ID: types.BlockID(r.hash())}, TransactionSet: contractTxnSet(r, n)}
			}},

		// --- refresh
		{name: "RPCRefreshContractRequest", request: true, id: rhp4.RPCRefreshContractID, maxLen: limTxnSet, maxN: maxTxnInputs,
			maxWhat: "20 renter inputs + 20 parents, proofs of depth 40 (generator bound)",
			build: func(r *rng, n int) rhp4.Object {
				hp := r.prices()
				coll := r.curBits(60)
				return &rhp4.RPCRefreshContractRequest{Prices: hp,
					Refresh: rhp4.RPCRefreshContractParams{ContractID: types.FileContractID(r.hash()),
						Allowance: rhp4.MinRenterAllowance(hp, coll).Add(r.curBits(40)).Add(types.NewCurrency64(1)), Collateral: coll},
					MinerFee: r.curNZ(), Basis: types.ChainIndex{Height: hp.TipHeight, ID: types.BlockID(r.hash())},
					RenterInputs: r.sces(n, proofDepth), RenterParents: r.v2Txns(n, 1, proofDepth, n <= 3), ChallengeSignature: r.sig()}
			},
			validate: func(o rhp4.Object) error {
				req := o.(*rhp4.RPCRefreshContractRequest)
				if err := req.Validate(hostPK, types.ChainIndex{}, refreshFrom, types.MaxCurrency, true); err != nil {
					return err
				}
				return req.Validate(hostPK, types.ChainIndex{}, refreshFrom, types.MaxCurrency, false)
			}},
		{name: "RPCRefreshContractResponse", maxLen: limTxnSet, maxN: maxTxnInputs, maxWhat: "20 host inputs, depth 40 (generator bound)",
			build: func(r *rng, n int) rhp4.Object {
				return &rhp4.RPCRefreshContractResponse{HostInputs: r.v2Inputs(n, proofDepth)}
			}},
		{name: "RPCRefreshContractSecondResponse", maxLen: limObject, maxN: maxTxnInputs, maxWhat: "20 satisfied policies (generator bound)",
			build: func(r *rng, n int) rhp4.Object {
				return &rhp4.RPCRefreshContractSecondResponse{RenterRenewalSignature: r.sig(), RenterContractSignature: r.sig(), RenterSatisfiedPolicies: r.satisfieds(n)}
			}},
		{name: "RPCRefreshContractThirdResponse", maxLen: limTxnSet, maxN: maxTxnInputs, maxWhat: "20 parents + refresh txn with 40 inputs (generator bound)",
			build: func(r *rng, n int) rhp4.Object {
				return &rhp4.RPCRefreshContractThirdResponse{Basis: types.ChainIndex{Height: r.u64(), ID: types.BlockID(r.hash())}, TransactionSet: contractTxnSet(r, n)}
			}},

		// --- free sectors
		{name: "RPCFreeSectorsRequest", request: true, id: rhp4.RPCFreeSectorsID, maxLen: limObject + 32*maxSectors, maxN: maxSectors, batchLimit: true,
			maxWhat: "MaxSectorBatchSize distinct indices",
			build: func(r *rng, n int) rhp4.Object {
				// distinct indices below 2^19: i -> (a*i + b) mod 2^19 with a odd is a bijection
				a, b := r.u64()|1, r.u64()
				idx := make([]uint64, n)
				for i := range idx {
					idx[i] = (a*uint64(i) + b) % (1 << 19)
				}
				if n == 0 {
					idx = nil
				}
				return &rhp4.RPCFreeSectorsRequest{ContractID: types.FileContractID(r.hash()), Prices: r.prices(), Indices: idx, ChallengeSignature: r.sig()}
			},
			validate: func(o rhp4.Object) error { return o.(*rhp4.RPCFreeSectorsRequest).Validate(hostPK, bigContract) }},
		{name: "RPCFreeSectorsResponse", maxLen: limBig, maxN: maxSectors,
			maxWhat: "MaxSectorBatchSize leaf hashes + as many subtree hashes (generator bound; see report on larger proofs)",
			build: func(r *rng, n int) rhp4.Object {
				return &rhp4.RPCFreeSectorsResponse{OldSubtreeHashes: r.hashes(n), OldLeafHashes: r.hashes(n), NewMerkleRoot: r.hash()}
			}},
		sigOnly("RPCFreeSectorsSecondResponse", func(s types.Signature) rhp4.Object { return &rhp4.RPCFreeSectorsSecondResponse{RenterSignature: s} }),
		sigOnly("RPCFreeSectorsThirdResponse", func(s types.Signature) rhp4.Object { return &rhp4.RPCFreeSectorsThirdResponse{HostSignature: s} }),

		// --- append sectors
		{name: "RPCAppendSectorsRequest", request: true, id: rhp4.RPCAppendSectorsID, maxLen: limObject + 32*maxSectors, maxN: maxSectors, minN: 1, batchLimit: true,
			maxWhat: "MaxSectorBatchSize sector roots",
			build: func(r *rng, n int) rhp4.Object {
				return &rhp4.RPCAppendSectorsRequest{Prices: r.prices(), Sectors: r.hashes(n), ContractID: types.FileContractID(r.hash()), ChallengeSignature: r.sig()}
			},
			validate: func(o rhp4.Object) error { return o.(*rhp4.RPCAppendSectorsRequest).Validate(hostPK) }},
		{name: "RPCAppendSectorsResponse", maxLen: limBig, maxN: maxSectors, maxWhat: "MaxSectorBatchSize accepted flags + 64 subtree roots",
			build: func(r *rng, n int) rhp4.Object {
				acc := make([]bool, n)
				for i := range acc {
					acc[i] = r.u64()&1 == 1
				}
				if n == 0 {
					acc = nil
				}
				roots := 64
				if n < maxSectors {
					roots = r.intn(65)
				}
				return &rhp4.RPCAppendSectorsResponse{Accepted: acc, SubtreeRoots: r.hashes(roots), NewMerkleRoot: r.hash()}
			}},
		sigOnly("RPCAppendSectorsSecondResponse", func(s types.Signature) rhp4.Object { return &rhp4.RPCAppendSectorsSecondResponse{RenterSignature: s} }),
		sigOnly("RPCAppendSectorsThirdResponse", func(s types.Signature) rhp4.Object { return &rhp4.RPCAppendSectorsThirdResponse{HostSignature: s} }),

		// --- revision, sectors
		{name: "RPCLatestRevisionRequest", request: true, id: rhp4.RPCLatestRevisionID, maxLen: szHash,
			build: func(r *rng, n int) rhp4.Object {
				return &rhp4.RPCLatestRevisionRequest{ContractID: types.FileContractID(r.hash())}
			}},
		{name: "RPCLatestRevisionResponse", maxLen: szContract,
			build: func(r *rng, n int) rhp4.Object {
				return &rhp4.RPCLatestRevisionResponse{Contract: r.v2Contract(), Revisable: r.bool(), Renewed: r.bool()}
			}},
		{name: "RPCReadSectorRequest", request: true, id: rhp4.RPCReadSectorID, maxLen: szPrices + szToken + szHash + 8 + 8,
			build: func(r *rng, n int) rhp4.Object {
				off := uint64(r.intn(rhp4.LeavesPerSector)) * rhp4.LeafSize
				length := uint64(1+r.intn(int((rhp4.SectorSize-off)/rhp4.LeafSize))) * rhp4.LeafSize
				if r.intn(4) == 0 {
					off, length = 0, rhp4.SectorSize
				}
				return &rhp4.RPCReadSectorRequest{Prices: r.prices(), Token: r.token(), Root: r.hash(), Offset: off, Length: length}
			},
			validate: func(o rhp4.Object) error { return o.(*rhp4.RPCReadSectorRequest).Validate(hostPK) }},
		{name: "RPCReadSectorResponse", maxLen: limObject + 8 + rhp4.SectorSize, maxN: 32, maxWhat: "range proof of 32 hashes (2 x 16 levels)",
			build: func(r *rng, n int) rhp4.Object {
				return &rhp4.RPCReadSectorResponse{Proof: r.hashes(n), DataLength: uint64(1+r.intn(rhp4.LeavesPerSector)) * rhp4.LeafSize}
			}},
		{name: "RPCWriteSectorRequest", request: true, id: rhp4.RPCWriteSectorID, maxLen: szPrices + szToken + 8,
			build: func(r *rng, n int) rhp4.Object {
				dl := uint64(1+r.intn(rhp4.LeavesPerSector)) * rhp4.LeafSize
				if r.intn(4) == 0 {
					dl = rhp4.SectorSize
				}
				return &rhp4.RPCWriteSectorRequest{Prices: r.prices(), Token: r.token(), DataLength: dl}
			},
			validate: func(o rhp4.Object) error { return o.(*rhp4.RPCWriteSectorRequest).Validate(hostPK) }},
		{name: "RPCWriteSectorResponse", maxLen: szHash,
			build: func(r *rng, n int) rhp4.Object { return &rhp4.RPCWriteSectorResponse{Root: r.hash()} }},
		{name: "RPCSectorRootsRequest", request: true, id: rhp4.RPCSectorRootsID, maxLen: szPrices + szHash + szSig + 8 + 8,
			build: func(r *rng, n int) rhp4.Object {
				length := uint64(1 + r.intn(maxSectors))
				if r.intn(4) == 0 {
					length = maxSectors
				}
				return &rhp4.RPCSectorRootsRequest{Prices: r.prices(), ContractID: types.FileContractID(r.hash()), RenterSignature: r.sig(),
					Offset: uint64(r.intn(1<<19 - int(length) + 1)), Length: length}
			},
			validate: func(o rhp4.Object) error { return o.(*rhp4.RPCSectorRootsRequest).Validate(hostPK, bigContract) }},
		{name: "RPCSectorRootsResponse", maxLen: limBig, maxN: maxSectors, maxWhat: "MaxSectorBatchSize roots + range proof of 128 hashes",
			build: func(r *rng, n int) rhp4.Object {
				proof := 128
				if n < maxSectors {
					proof = r.intn(129)
				}
				return &rhp4.RPCSectorRootsResponse{Proof: r.hashes(proof), Roots: r.hashes(n), HostSignature: r.sig()}
			}},
		{name: "RPCVerifySectorRequest", request: true, id: rhp4.RPCVerifySectorID, maxLen: szPrices + szToken + szHash + 8,
			build: func(r *rng, n int) rhp4.Object {
				li := uint64(r.intn(rhp4.LeavesPerSector))
				if r.intn(4) == 0 {
					li = rhp4.LeavesPerSector - 1
				}
				return &rhp4.RPCVerifySectorRequest{Prices: r.prices(), Token: r.token(), Root: r.hash(), LeafIndex: li}
			},
			validate: func(o rhp4.Object) error { return o.(*rhp4.RPCVerifySectorRequest).Validate(hostPK) }},
		{name: "RPCVerifySectorResponse", maxLen: limObject, maxN: 16, maxWhat: "leaf proof of 16 hashes",
			build: func(r *rng, n int) rhp4.Object {
				resp := &rhp4.RPCVerifySectorResponse{Proof: r.hashes(n)}
				r.fill(resp.Leaf[:])
				return resp
			}},

		// --- accounts
		{name: "RPCAccountBalanceRequest", request: true, id: rhp4.RPCAccountBalanceID, maxLen: szAccount,
			build: func(r *rng, n int) rhp4.Object { return &rhp4.RPCAccountBalanceRequest{Account: r.account()} }},
		{name: "RPCAccountBalanceResponse", maxLen: szCurrency,
			build: func(r *rng, n int) rhp4.Object { return &rhp4.RPCAccountBalanceResponse{Balance: r.cur()} }},
		{name: "RPCReplenishAccountsRequest", request: true, id: rhp4.RPCReplenishAccountsID,
			maxLen: 8 + szHash*maxAccounts + szCurrency + szHash + szSig, maxN: maxAccounts, minN: 1, batchLimit: true, maxWhat: "MaxAccountBatchSize accounts",
			build: func(r *rng, n int) rhp4.Object {
				var accs []rhp4.Account
				for i := 0; i < n; i++ {
					accs = append(accs, r.account())
				}
				cid := types.FileContractID(r.hash())
				cid[0] |= 1
				s := r.sig()
				s[0] |= 1
				return &rhp4.RPCReplenishAccountsRequest{Accounts: accs, Target: r.curNZ(), ContractID: cid, ChallengeSignature: s}
			},
			validate: func(o rhp4.Object) error { return o.(*rhp4.RPCReplenishAccountsRequest).Validate() }},
		{name: "RPCReplenishAccountsResponse", maxLen: 8 + szDeposit*maxAccounts, maxN: maxAccounts, maxWhat: "MaxAccountBatchSize deposits",
			build: func(r *rng, n int) rhp4.Object { return &rhp4.RPCReplenishAccountsResponse{Deposits: r.deposits(n)} }},
		sigOnly("RPCReplenishAccountsSecondResponse", func(s types.Signature) rhp4.Object {
			return &rhp4.RPCReplenishAccountsSecondResponse{RenterSignature: s}
		}),
		sigOnly("RPCReplenishAccountsThirdResponse", func(s types.Signature) rhp4.Object { return &rhp4.RPCReplenishAccountsThirdResponse{HostSignature: s} }),
		{name: "RPCFundAccountsRequest", request: true, id: rhp4.RPCFundAccountsID,
			maxLen: szHash + 8 + szDeposit*maxAccounts + szSig, maxN: maxAccounts, minN: 1, batchLimit: true, maxWhat: "MaxAccountBatchSize deposits",
			build: func(r *rng, n int) rhp4.Object {
				cid := types.FileContractID(r.hash())
				cid[0] |= 1
				s := r.sig()
				s[0] |= 1
				return &rhp4.RPCFundAccountsRequest{ContractID: cid, Deposits: r.deposits(n), RenterSignature: s}
			},
			validate: func(o rhp4.Object) error { return o.(*rhp4.RPCFundAccountsRequest).Validate() }},
		{name: "RPCFundAccountsResponse", maxLen: 8 + szCurrency*maxAccounts + szSig, maxN: maxAccounts, maxWhat: "MaxAccountBatchSize balances",
			build: func(r *rng, n int) rhp4.Object {
				return &rhp4.RPCFundAccountsResponse{Balances: r.curs(n), HostSignature: r.sig()}
			}},

		// --- pools
		{name: "RPCAttachPoolsRequest", request: true, id: rhp4.RPCAttachPoolsID, maxLen: 8 + szAttachment*maxAccounts, maxN: maxAccounts, minN: 1, batchLimit: true,
			maxWhat: "MaxAccountBatchSize attachments",
			build: func(r *rng, n int) rhp4.Object {
				poolSK := keyFromSeed(r.u64(), "pool")
				var as []rhp4.PoolAttachment
				for i := 0; i < n; i++ {
					a := rhp4.PoolAttachment{Account: r.account(), Pool: rhp4.Account(poolSK.PublicKey()), ValidUntil: r.future()}
					if i < 2 || i == n-1 { // signing every entry of a 1000-batch is not what is under test
						a.Signature = poolSK.SignHash(a.SigHash(hostPK))
					} else {
						a.Signature = r.sig()
						a.Signature[0] |= 1
					}
					as = append(as, a)
				}
				return &rhp4.RPCAttachPoolsRequest{Attachments: as}
			},
			validate: func(o rhp4.Object) error {
				req := o.(*rhp4.RPCAttachPoolsRequest)
				if err := req.Validate(); err != nil {
					return err
				}
				for _, i := range []int{0, 1, len(req.Attachments) - 1} {
					if i >= 0 && i < len(req.Attachments) && !req.Attachments[i].ValidSignature(hostPK) {
						return fmt.Errorf("attachment %d: signature does not verify", i)
					}
				}
				return nil
			}},
		{name: "RPCAttachPoolsResponse", maxLen: 0, build: func(r *rng, n int) rhp4.Object { return &rhp4.RPCAttachPoolsResponse{} }},
		{name: "RPCDetachPoolsRequest", request: true, id: rhp4.RPCDetachPoolsID, maxLen: 8 + szAttachment*maxAccounts, maxN: maxAccounts, minN: 1, batchLimit: true,
			maxWhat: "MaxAccountBatchSize detachments",
			build: func(r *rng, n int) rhp4.Object {
				accSK := keyFromSeed(r.u64(), "acct")
				var ds []rhp4.PoolDetachment
				for i := 0; i < n; i++ {
					d := rhp4.PoolDetachment{Account: rhp4.Account(accSK.PublicKey()), Pool: r.account(), ValidUntil: r.future()}
					if i < 2 || i == n-1 {
						d.Signature = accSK.SignHash(d.SigHash(hostPK))
					} else {
						d.Signature = r.sig()
						d.Signature[0] |= 1
					}
					ds = append(ds, d)
				}
				return &rhp4.RPCDetachPoolsRequest{Detachments: ds}
			},
			validate: func(o rhp4.Object) error {
				req := o.(*rhp4.RPCDetachPoolsRequest)
				if err := req.Validate(); err != nil {
					return err
				}
				for _, i := range []int{0, 1, len(req.Detachments) - 1} {
					if i >= 0 && i < len(req.Detachments) && !req.Detachments[i].ValidSignature(hostPK) {
						return fmt.Errorf("detachment %d: signature does not verify", i)
					}
				}
				return nil
			}},
		{name: "RPCDetachPoolsResponse", maxLen: 0, build: func(r *rng, n int) rhp4.Object { return &rhp4.RPCDetachPoolsResponse{} }},
	}
	sort.SliceStable(ts, func(i, j int) bool { return ts[i].name < ts[j].name })
	return ts
}()

func (r *rng) deposits(n int) []rhp4.AccountDeposit {
	var ds []rhp4.AccountDeposit
	for i := 0; i < n; i++ {
		ds = append(ds, rhp4.AccountDeposit{Account: r.account(), Amount: r.curNZ()})
	}
	return ds
}

func v4byName(name string) *v4type {
	for _, t := range v4types {
		if t.name == name {
			return t
		}
	}
	return nil
}

func v4names(pred func(*v4type) bool) []string {
	var out []string
	for _, t := range v4types {
		if pred == nil || pred(t) {
			out = append(out, t.name)
		}
	}
	return out
}

// ---- streams -----------------------------------------------------------------------------------

// endless serves head and then an endless tail pattern; it counts what was handed out.
type endless struct {
	head []byte
	tail func(i int) byte
	n    int // bytes delivered
	seg  int // > 0: a Read never crosses a multiple of seg (a transport that delivers the stream in segments)
}

func (e *endless) Read(p []byte) (int, error) {
	if e.seg > 0 && len(p) > 0 {
		if room := e.seg - e.n%e.seg; len(p) > room {
			p = p[:room]
		}
	}
	for i := range p {
		if e.n < len(e.head) {
			p[i] = e.head[e.n]
		} else {
			p[i] = e.tail(e.n - len(e.head))
		}
		e.n++
	}
	return len(p), nil
}

func tailConst(b byte) func(int) byte { return func(int) byte { return b } }

// ---- the checker -------------------------------------------------------------------------------

// FrameCase is one rhp/v4 framing case.
type FrameCase struct {
	Type  string `json:"type"`
	Class string `json:"class"` // max | small | batch+1 | over | hostile | rpcerror | seq
	N     int    `json:"n"`     // size parameter (small, seq); description length (rpcerror)
	Var   int    `json:"var"`   // hostile variant; error code (rpcerror)
	Seed  uint64 `json:"seed"`
	Next  string `json:"next,omitempty"` // seq: type of the object that follows on the same stream
	NextN int    `json:"nextN,omitempty"`
}

// maxErrDesc is the design bound on error descriptions (DESIGN §5 C19); RPCError's own
// limit of 1024 bytes would allow 1015.
const maxErrDesc = 1000

// writeObj writes obj in its role and returns the wire bytes.
func writeObj(t *v4type, obj rhp4.Object) ([]byte, error) {
	var buf bytes.Buffer
	var err error
	if t.request {
		err = rhp4.WriteRequest(&buf, t.id, obj)
	} else {
		err = rhp4.WriteResponse(&buf, obj)
	}
	return buf.Bytes(), err
}

// readObj reads one object of type t in its role from r.
func readObj(t *v4type, r io.Reader) (rhp4.Object, error) {
	got := t.newEmpty()
	if t.request {
		id, err := rhp4.ReadID(r)
		if err != nil {
			return nil, fmt.Errorf("ReadID: %w", err)
		} else if id != t.id {
			return nil, fmt.Errorf("ReadID returned %v, wrote %v", id, t.id)
		}
		return got, rhp4.ReadRequest(r, got)
	}
	return got, rhp4.ReadResponse(r, got)
}

func (t *v4type) wireLimit() int {
	if t.request {
		return 16 + t.limit()
	}
	return t.limit()
}

func checkFrame(c FrameCase) error {
	rec := stats.G()
	t := v4byName(c.Type)
	if t == nil {
		return stats.Failf("", "harness: unknown type %q", c.Type)
	}
	fail := func(format string, args ...any) error {
		return stats.Failf("C19/rhp4/"+c.Class+"/"+c.Type, "%s %s n=%d var=%d seed=%d: %s", c.Type, c.Class, c.N, c.Var, c.Seed, fmt.Sprintf(format, args...))
	}
	r := newRng(c.Seed, c.Type)
	role := "response"
	if t.request {
		role = "request"
	}
	nt := true
	n := c.N
	labels := []string{"v4:" + c.Class, "v4type:" + c.Type, "v4role:" + role}

	switch c.Class {
	case "max", "small", "batch+1", "seq":
		switch c.Class {
		case "max":
			n = t.maxN
		case "batch+1":
			if !t.batchLimit {
				return stats.Failf("", "harness: %s has no batch limit", c.Type)
			}
			n = t.maxN + 1
		default:
			if n < t.minN || n > t.maxN {
				return stats.Failf("", "harness: n out of range")
			}
		}
		obj := t.build(r, n)
		if t.validate != nil {
			verr := t.validate(obj)
			if c.Class == "batch+1" {
				if verr == nil {
					return fail("Validate accepted %d elements, the limit is %d", n, t.maxN)
				}
			} else if verr != nil {
				return fail("Validate rejected an object within the protocol limits: %v", verr)
			}
		}
		wire, err := writeObj(t, obj)
		if err != nil {
			return fail("write: %v", err)
		}
		if c.Class != "batch+1" && len(wire) > t.wireLimit() {
			return fail("a valid object (%s) encodes to %d bytes, the receiver's limit is %d", t.maxWhat, len(wire), t.wireLimit())
		}
		head := wire
		var nextT *v4type
		var nextObj rhp4.Object
		if c.Class == "seq" {
			if nextT = v4byName(c.Next); nextT == nil || c.NextN < nextT.minN || c.NextN > nextT.maxN {
				return stats.Failf("", "harness: bad next type")
			}
			nextObj = nextT.build(newRng(c.Seed, "next/"+c.Next), c.NextN)
			w2, err := writeObj(nextT, nextObj)
			if err != nil {
				return fail("write next: %v", err)
			}
			head = append(append([]byte{}, wire...), w2...)
		}
		src := &endless{head: head, tail: tailConst(0xA5), seg: []int{0, 0, 1, 3, 16, 1448, 4096}[int(c.Seed>>20)%7]}
		got, err := readObj(t, src)
		if c.Class == "batch+1" {
			// one element over the batch limit: either refused, or delivered intact; never truncated
			if err == nil {
				if ok, p := normEqual(obj, got); !ok {
					return fail("decoded without error but differs from what was written at %s", p)
				}
				rec.Label("v4:batch+1:decoded-intact")
			} else {
				rec.Label("v4:batch+1:read-refused")
			}
			if src.n > t.wireLimit() {
				return fail("read consumed %d bytes, limit %d", src.n, t.wireLimit())
			}
			break
		}
		if err != nil {
			return fail("read of a valid object (%d wire bytes, limit %d) failed: %v", len(wire), t.wireLimit(), err)
		}
		if ok, p := normEqual(obj, got); !ok {
			return fail("read object differs from written object at %s", p)
		}
		if src.n != len(wire) {
			return fail("read consumed %d bytes of the stream, the message is %d bytes", src.n, len(wire))
		}
		if c.Class == "seq" {
			got2, err := readObj(nextT, src)
			if err != nil {
				return fail("second message (%s) on the same stream failed: %v", c.Next, err)
			}
			if ok, p := normEqual(nextObj, got2); !ok {
				return fail("second message (%s) differs at %s", c.Next, p)
			}
			if src.n != len(head) {
				return fail("two reads consumed %d bytes, the two messages are %d bytes", src.n, len(head))
			}
			labels = append(labels, "v4next:"+c.Next)
		}
		if t.limit() > 0 && len(wire)*100 >= t.wireLimit()*99 {
			labels = append(labels, "v4:within-1%-of-limit")
		}
		nt = c.Class != "small" || (t.maxN > 0 && n*100 >= t.maxN*99) || (t.limit() > 0 && len(wire)*100 >= t.wireLimit()*99)

	case "over":
		// the smallest doubling of the size parameter whose encoding exceeds the receiver's limit
		if t.maxN == 0 {
			return stats.Failf("", "harness: %s is fixed-size", c.Type)
		}
		n = t.maxN + 1
		var obj rhp4.Object
		var wire []byte
		for {
			obj = t.build(newRng(c.Seed, c.Type), n)
			var err error
			if wire, err = writeObj(t, obj); err != nil {
				return fail("write: %v", err)
			}
			if len(wire) > t.wireLimit() {
				break
			}
			n = n*2 + 1
		}
		src := &endless{head: wire, tail: tailConst(byte(c.Var))}
		got, err := readObj(t, src)
		if err == nil {
			ok, p := normEqual(obj, got)
			return fail("an object of %d wire bytes was read without error although the limit is %d (equal to the written one: %v %s)", len(wire), t.wireLimit(), ok, p)
		}
		if re := new(rhp4.RPCError); errors.As(err, &re) {
			return fail("over-limit read produced an RPCError that nobody sent: %v", err)
		}
		if src.n > t.wireLimit() {
			return fail("read consumed %d bytes, limit %d", src.n, t.wireLimit())
		}
		if src.n == t.wireLimit() {
			labels = append(labels, "v4:consumed-exactly-limit")
		}

	case "hostile":
		// endless streams that were not produced by an encoder
		var src *endless
		switch c.Var {
		case 0:
			src = &endless{tail: tailConst(0)}
		case 1:
			src = &endless{tail: tailConst(1)}
		case 2:
			src = &endless{tail: tailConst(0xFF)}
		case 3:
			hr := newRng(c.Seed, "hostile")
			blk := hr.bytes(4096)
			src = &endless{tail: func(i int) byte { return blk[i%len(blk)] }}
		default:
			// a valid head (the RPC id / "no error" flag) followed by length prefixes that each
			// claim just under the remaining budget: 8-byte little-endian words of value c.N
			var word [8]byte
			v := uint64(c.N)
			for i := range word {
				word[i] = byte(v >> (8 * uint(i)))
			}
			var head []byte
			if t.request {
				head = append(head, t.id[:]...)
			} else {
				head = []byte{0}
			}
			src = &endless{head: head, tail: func(i int) byte { return word[i%8] }}
		}
		if t.request && c.Var < 4 {
			src.head = append([]byte{}, t.id[:]...)
		}
		_, err := readObj(t, src)
		if src.n > t.wireLimit() {
			return fail("hostile stream: read consumed %d bytes, the receiver's limit is %d (err=%v)", src.n, t.wireLimit(), err)
		}
		if err != nil {
			labels = append(labels, "v4:hostile:error")
		} else {
			labels = append(labels, "v4:hostile:decoded")
		}
		if src.n == t.wireLimit() && t.limit() > 0 {
			labels = append(labels, "v4:consumed-exactly-limit")
		}

	case "rpcerror":
		if t.request {
			return stats.Failf("", "harness: rpcerror needs a response type")
		}
		sent := &rhp4.RPCError{Code: uint8(c.Var), Description: r.str(c.N)}
		if 1+8+c.N > limRPCError {
			return stats.Failf("", "harness: description too long for RPCError's own limit")
		}
		var buf bytes.Buffer
		if err := rhp4.WriteResponse(&buf, sent); err != nil {
			return fail("WriteResponse(RPCError): %v", err)
		}
		wire := buf.Bytes()
		src := &endless{head: wire, tail: tailConst(0xA5)}
		err := rhp4.ReadResponse(src, t.newEmpty())
		if err == nil {
			return fail("an error response (code %d, %d-byte description) was read as success", sent.Code, c.N)
		}
		var re *rhp4.RPCError
		if !errors.As(err, &re) {
			if c.N > maxErrDesc {
				// beyond the design's bound on descriptions (1000 bytes): recorded, not asserted
				if src.n > t.wireLimit() {
					return fail("read consumed %d bytes, limit %d", src.n, t.wireLimit())
				}
				rec.Case(stats.FP("v4", c.Type, c.Class, n, c.Var), true, append(labels, "v4:rpcerror:undeliverable-beyond-1000-bytes")...)
				return nil
			}
			return fail("error response (code %d, %d-byte description, %d wire bytes) was not delivered as an *RPCError: %v", sent.Code, c.N, len(wire), err)
		}
		if re.Code != sent.Code || re.Description != sent.Description {
			return fail("error response delivered as a different error: sent (%d,%q) got (%d,%q)", sent.Code, sent.Description, re.Code, re.Description)
		}
		if !errors.Is(err, rhp4.NewRPCError(sent.Code, sent.Description)) || rhp4.ErrorCode(err) != sent.Code {
			return fail("errors.Is / ErrorCode do not recognise the delivered error")
		}
		if src.n != len(wire) {
			return fail("reading the error consumed %d bytes, it is %d bytes", src.n, len(wire))
		}
	default:
		return stats.Failf("", "harness: unknown class %q", c.Class)
	}

	rec.Case(stats.FP("v4", c.Type, c.Class, n, c.Var, c.Next, c.NextN), nt, labels...)
	if rec.WantSample() && c.Class != "small" {
		rec.Sample(nt, c)
	}
	return nil
}

// TestFrameEnum: every type x {max, batch+1, over, hostile variants, error responses at
// the description lengths around the limit}. Plain enumeration, sharded.
func TestFrameEnum(t *testing.T) {
	shard, nsh := stats.Shard()
	seed := uint64(stats.EnvInt("VERIF_UNIT_SEED", 1))
	var cases []FrameCase
	for _, vt := range v4types {
		cases = append(cases, FrameCase{Type: vt.name, Class: "max", Seed: seed})
		if vt.batchLimit {
			cases = append(cases, FrameCase{Type: vt.name, Class: "batch+1", Seed: seed})
		}
		if vt.maxN > 0 {
			cases = append(cases, FrameCase{Type: vt.name, Class: "over", Seed: seed, Var: 0xA5})
		}
		for v := 0; v < 4; v++ {
			cases = append(cases, FrameCase{Type: vt.name, Class: "hostile", Var: v, Seed: seed})
		}
		lim := vt.limit()
		for _, n := range []int{0, 1, 255, 256, lim - 16, lim - 9, lim - 8, lim, 1 << 20, 1 << 32} {
			if n >= 0 {
				cases = append(cases, FrameCase{Type: vt.name, Class: "hostile", Var: 4, N: n, Seed: seed})
			}
		}
		if !vt.request {
			for _, n := range []int{0, 1, 100, 999, 1000, 1013, 1014, 1015} {
				cases = append(cases, FrameCase{Type: vt.name, Class: "rpcerror", N: n, Var: 1 + n%6, Seed: seed})
			}
			cases = append(cases, FrameCase{Type: vt.name, Class: "rpcerror", N: 17, Var: 0, Seed: seed}, FrameCase{Type: vt.name, Class: "rpcerror", N: 17, Var: 255, Seed: seed})
		}
	}
	for i, c := range cases {
		if i%nsh != shard {
			continue
		}
		stats.Check(t, c, checkFrame)
	}
	if shard == 0 {
		stats.G().Extra("v4_object_types", uint64(len(v4types)))
		stats.G().Extra("v4_enum_cases_total", uint64(len(cases)))
	}
}

// drawSize draws a size parameter in [lo, hi], biased to the ends.
func drawSize(t *rapid.T, lo, hi int, label string) int {
	if hi <= lo {
		return lo
	}
	switch rapid.IntRange(0, 5).Draw(t, label+"-kind") {
	case 0:
		return rapid.IntRange(lo, min(hi, lo+3)).Draw(t, label)
	case 1:
		return rapid.IntRange(max(lo, hi-3), hi).Draw(t, label)
	case 2:
		return rapid.IntRange(max(lo, hi-hi/100), hi).Draw(t, label)
	default:
		// log-uniform
		bits := rapid.IntRange(0, 20).Draw(t, label+"-bits")
		return rapid.IntRange(lo, min(hi, lo+(1<<uint(bits)))).Draw(t, label)
	}
}

func drawFrame(t *rapid.T) FrameCase {
	all := v4names(nil)
	name := rapid.SampledFrom(all).Draw(t, "type")
	vt := v4byName(name)
	c := FrameCase{Type: name, Seed: rapid.Uint64().Draw(t, "seed")}
	classes := []string{"small", "small", "seq", "hostile"}
	if !vt.request {
		classes = append(classes, "rpcerror")
	}
	c.Class = rapid.SampledFrom(classes).Draw(t, "class")
	// keep the average cost bounded: huge batches only now and then
	hi := vt.maxN
	if hi > 4096 && rapid.IntRange(0, 7).Draw(t, "big") != 0 {
		hi = 4096
	}
	switch c.Class {
	case "small":
		c.N = drawSize(t, vt.minN, hi, "n")
	case "seq":
		c.N = drawSize(t, vt.minN, min(hi, 4096), "n")
		c.Next = rapid.SampledFrom(all).Draw(t, "next")
		nt := v4byName(c.Next)
		c.NextN = drawSize(t, nt.minN, min(nt.maxN, 4096), "nextN")
	case "hostile":
		c.Var = rapid.IntRange(0, 4).Draw(t, "var")
		if c.Var == 4 {
			lim := vt.limit()
			c.N = rapid.OneOf(rapid.IntRange(0, 300), rapid.IntRange(max(0, lim-64), lim+64), rapid.IntRange(0, 1<<40)).Draw(t, "word")
		}
	case "rpcerror":
		c.N = rapid.OneOf(rapid.IntRange(0, 1015), rapid.IntRange(990, 1015)).Draw(t, "desclen")
		c.Var = rapid.IntRange(0, 255).Draw(t, "code")
	}
	return c
}

func TestFrameProp(t *testing.T) { stats.Prop(t, drawFrame, checkFrame) }

const keyFreeSectorsLimit = "C19/rhp4-free-sectors-response-exceeds-limit-large-contract"

// TestKnownFreeSectors: a free-sectors request that passes RPCFreeSectorsRequest.Validate
// (MaxSectorBatchSize distinct indices) against a 4 TiB contract, answered honestly with
// BuildFreeSectorsProof, yields a response of ~29 MB; ReadResponse allows 20 MiB + 1 KiB, so
// the renter cannot read it. (encoding.go documents the 20 MiB figure as a trade-off; the
// same class of mismatch was fixed as a bug in 0.16.1 for smaller contracts.)
func TestKnownFreeSectors(t *testing.T) {
	stats.ProbeKnown(t, keyFreeSectorsLimit, "an honest RPCFreeSectorsResponse for a Validate-accepted maximal batch on a 4 TiB contract exceeds the 20 MiB limit ReadResponse applies", func() error {
		const sectors = 1 << 20 // 4 TiB
		r := newRng(1, "free-sectors-probe")
		roots := r.hashes(sectors)
		k := rhp4.MaxSectorBatchSize
		freed := make([]uint64, k)
		for i := range freed { // evenly spread over everything before the last k sectors
			freed[i] = uint64(i) * uint64(sectors-k) / uint64(k)
		}
		req := &rhp4.RPCFreeSectorsRequest{ContractID: types.FileContractID(r.hash()), Prices: r.prices(), Indices: freed, ChallengeSignature: r.sig()}
		if err := req.Validate(hostPK, types.V2FileContract{Filesize: rhp4.SectorSize * sectors, Capacity: rhp4.SectorSize * sectors}); err != nil {
			return fmt.Errorf("probe request is not valid: %w", err)
		}
		tree, leaves := rhp4.BuildFreeSectorsProof(roots, freed)
		resp := &rhp4.RPCFreeSectorsResponse{OldSubtreeHashes: tree, OldLeafHashes: leaves, NewMerkleRoot: r.hash()}
		var buf bytes.Buffer
		if err := rhp4.WriteResponse(&buf, resp); err != nil {
			return err
		}
		size := buf.Len()
		var got rhp4.RPCFreeSectorsResponse
		if err := rhp4.ReadResponse(&buf, &got); err != nil {
			return fmt.Errorf("response with %d subtree + %d leaf hashes is %d bytes; ReadResponse: %v", len(tree), len(leaves), size, err)
		}
		if ok, p := normEqual(resp, &got); !ok {
			return fmt.Errorf("response differs at %s", p)
		}
		return nil
	})
}
