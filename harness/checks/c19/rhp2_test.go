package c19

import (
	"errors"
	"fmt"
	"net"
	"reflect"
	"sync/atomic"
	"testing"

	rhp2 "go.sia.tech/core/rhp/v2"
	"go.sia.tech/core/types"
	"pgregory.net/rapid"
	"verif/harness/stats"
)

// ---- rhp2 objects -----------------------------------------------------------------------------

type r2kind struct {
	name  string
	maxN  int
	build func(r *rng, n int) rhp2.ProtocolObject
}

var r2kinds = []r2kind{
	{"RPCFormContractRequest", 6, func(r *rng, n int) rhp2.ProtocolObject {
		return &rhp2.RPCFormContractRequest{Transactions: r.v1Txns(n, 1), RenterKey: r.unlockKey()}
	}},
	{"RPCFormContractAdditions", 6, func(r *rng, n int) rhp2.ProtocolObject {
		o := &rhp2.RPCFormContractAdditions{Parents: r.v1Txns(n, 1), Outputs: r.scos(n)}
		for i := 0; i < n; i++ {
			o.Inputs = append(o.Inputs, r.v1Input())
		}
		return o
	}},
	{"RPCFormContractSignatures", 8, func(r *rng, n int) rhp2.ProtocolObject {
		return &rhp2.RPCFormContractSignatures{ContractSignatures: r.txnSigs(n), RevisionSignature: r.txnSig()}
	}},
	{"RPCRenewAndClearContractRequest", 6, func(r *rng, n int) rhp2.ProtocolObject {
		return &rhp2.RPCRenewAndClearContractRequest{Transactions: r.v1Txns(n, 1), RenterKey: r.unlockKey(), FinalValidProofValues: r.curs(2), FinalMissedProofValues: r.curs(3)}
	}},
	{"RPCRenewAndClearContractSignatures", 8, func(r *rng, n int) rhp2.ProtocolObject {
		return &rhp2.RPCRenewAndClearContractSignatures{ContractSignatures: r.txnSigs(n), RevisionSignature: r.txnSig(), FinalRevisionSignature: r.sig()}
	}},
	{"RPCLockRequest", 0, func(r *rng, n int) rhp2.ProtocolObject {
		return &rhp2.RPCLockRequest{ContractID: types.FileContractID(r.hash()), Signature: r.sig(), Timeout: r.u64()}
	}},
	{"RPCLockResponse", 4, func(r *rng, n int) rhp2.ProtocolObject {
		o := &rhp2.RPCLockResponse{Acquired: r.bool(), Revision: r.v1Revision(), Signatures: r.txnSigs(n)}
		r.fill(o.NewChallenge[:])
		return o
	}},
	{"RPCReadRequest", 64, func(r *rng, n int) rhp2.ProtocolObject {
		o := &rhp2.RPCReadRequest{MerkleProof: r.bool(), RevisionNumber: r.u64(), ValidProofValues: r.curs(2), MissedProofValues: r.curs(3), Signature: r.sig()}
		for i := 0; i < n; i++ {
			o.Sections = append(o.Sections, rhp2.RPCReadRequestSection{MerkleRoot: r.hash(), Offset: r.u64() % rhp2.SectorSize, Length: r.u64() % rhp2.SectorSize})
		}
		return o
	}},
	{"RPCReadResponse", rhp2.SectorSize, func(r *rng, n int) rhp2.ProtocolObject {
		return &rhp2.RPCReadResponse{Signature: r.sig(), Data: r.bytes(n), MerkleProof: r.hashes(r.intn(33))}
	}},
	{"RPCSectorRootsRequest", 0, func(r *rng, n int) rhp2.ProtocolObject {
		return &rhp2.RPCSectorRootsRequest{RootOffset: r.u64(), NumRoots: r.u64(), RevisionNumber: r.u64(), ValidProofValues: r.curs(2), MissedProofValues: r.curs(3), Signature: r.sig()}
	}},
	{"RPCSectorRootsResponse", 1 << 15, func(r *rng, n int) rhp2.ProtocolObject {
		return &rhp2.RPCSectorRootsResponse{Signature: r.sig(), SectorRoots: r.hashes(n), MerkleProof: r.hashes(r.intn(41))}
	}},
	{"RPCSettingsResponse", 8000, func(r *rng, n int) rhp2.ProtocolObject {
		return &rhp2.RPCSettingsResponse{Settings: []byte(r.str(n))}
	}},
	{"RPCWriteRequest", 16, func(r *rng, n int) rhp2.ProtocolObject {
		o := &rhp2.RPCWriteRequest{MerkleProof: r.bool(), RevisionNumber: r.u64(), ValidProofValues: r.curs(2), MissedProofValues: r.curs(3)}
		for i := 0; i < n; i++ {
			a := rhp2.RPCWriteAction{Type: rhp2.RPCWriteActionSwap, A: r.u64(), B: r.u64()}
			if r.bool() {
				a = rhp2.RPCWriteAction{Type: rhp2.RPCWriteActionAppend, Data: r.bytes(r.rangeInt(1, 5000))}
			}
			o.Actions = append(o.Actions, a)
		}
		return o
	}},
	{"RPCWriteMerkleProof", 256, func(r *rng, n int) rhp2.ProtocolObject {
		return &rhp2.RPCWriteMerkleProof{OldSubtreeHashes: r.hashes(n), OldLeafHashes: r.hashes(n / 2), NewMerkleRoot: r.hash()}
	}},
	{"RPCWriteResponse", 0, func(r *rng, n int) rhp2.ProtocolObject { return &rhp2.RPCWriteResponse{Signature: r.sig()} }},
	{"RPCError", 2000, func(r *rng, n int) rhp2.ProtocolObject {
		return &rhp2.RPCError{Type: r.spec(), Data: r.bytes(n / 2), Description: r.str(n)}
	}},
}

func r2byName(name string) *r2kind {
	for i := range r2kinds {
		if r2kinds[i].name == name {
			return &r2kinds[i]
		}
	}
	return nil
}

func r2names() (out []string) {
	for _, k := range r2kinds {
		out = append(out, k.name)
	}
	return
}

func newLike(o any) any { return reflect.New(reflect.TypeOf(o).Elem()).Interface() }

// R2Msg is one message of an rhp2 session.
type R2Msg struct {
	Kind  string `json:"kind"`  // object type; "none" for an id-only request
	Dir   string `json:"dir"`   // req | resp | err | raw | rawerr
	N     int    `json:"n"`     // size parameter
	Limit string `json:"limit"` // exact | loose | under
	Chunk int    `json:"chunk"` // raw: read chunk size
	Wrap  int    `json:"wrap,omitempty"` // err/rawerr: 0 an *RPCError, 1 a plain error, 2/3 an *RPCError wrapped once/twice in other errors
}

// R2Case is one rhp2 session.
type R2Case struct {
	Seed      uint64     `json:"seed"`
	Msgs      []R2Msg    `json:"msgs"`
	Fault     *FaultSpec `json:"fault,omitempty"`
	Handshake string     `json:"handshake,omitempty"` // "" | badsig
}

const keyVerifyTag = "C19/rhp2-verifytag-ciphertext-multiple-of-16"

const (
	r2Prefix  = 8
	r2Nonce   = 12 // ChaCha20-Poly1305 nonce
	r2Tag     = 16
	r2MinSize = 4096
)

// r2FrameSize is the wire size of a frame whose plaintext is payload bytes long
// (hand-computed from the documented layout: length prefix, nonce, ciphertext, tag;
// padded to 4096).
func r2FrameSize(payload int) int {
	return max(r2MinSize, r2Prefix+r2Nonce+payload+r2Tag)
}

func r2Region(region string) func(frame []byte) (int, int) {
	return func(frame []byte) (int, int) {
		switch region {
		case "len":
			return 0, r2Prefix
		case "nonce":
			return r2Prefix, r2Prefix + r2Nonce
		case "tag":
			return len(frame) - r2Tag, len(frame)
		default:
			return r2Prefix + r2Nonce, len(frame) - r2Tag
		}
	}
}

type r2msgPlan struct {
	m      R2Msg
	id     types.Specifier
	obj    rhp2.ProtocolObject // nil for id-only requests
	rpcErr *rhp2.RPCError
	sendErr error // what WriteResponseErr is given; rpcErr is what must arrive
	maxLen uint64
	frame  int // wire size of the (object) frame
}

func checkRHP2(c R2Case) error {
	rec := stats.G()
	fail := func(format string, args ...any) error {
		return stats.Failf("C19/rhp2", "rhp2 seed=%d: %s", c.Seed, fmt.Sprintf(format, args...))
	}
	hostKey := keyFromSeed(c.Seed, "rhp2host")
	expectKey := hostKey.PublicKey()
	if c.Handshake == "badsig" {
		expectKey = keyFromSeed(c.Seed, "rhp2other").PublicKey()
	}

	// plan
	plans := make([]r2msgPlan, len(c.Msgs))
	type frameRef struct{ msg int }
	var frames [2][]frameRef // frames written after the handshake by renter (0) / host (1)
	for i, m := range c.Msgs {
		p := r2msgPlan{m: m, id: specFromSeed(c.Seed, fmt.Sprint("id", i))}
		r := newRng(c.Seed, fmt.Sprint("msg", i))
		payload := 0
		switch m.Dir {
		case "req":
			frames[0] = append(frames[0], frameRef{i})
			if m.Kind != "none" {
				k := r2byName(m.Kind)
				if k == nil {
					return stats.Failf("", "harness: unknown rhp2 kind %q", m.Kind)
				}
				p.obj = k.build(r, m.N)
				payload = encLen(p.obj)
				frames[0] = append(frames[0], frameRef{i})
			} else {
				payload = 16
			}
		case "resp", "raw":
			k := r2byName(m.Kind)
			if k == nil {
				return stats.Failf("", "harness: unknown rhp2 kind %q", m.Kind)
			}
			p.obj = k.build(r, m.N)
			payload = 1 + encLen(p.obj)
			frames[1] = append(frames[1], frameRef{i})
		case "err", "rawerr":
			p.rpcErr = &rhp2.RPCError{Type: r.spec(), Data: r.bytes(m.N / 2), Description: r.str(m.N)}
			p.sendErr = p.rpcErr
			// "If err is an *RPCError, it is sent directly; otherwise, a generic RPCError is created from err's Error
			// string": an error that merely wraps an RPCError is not one, and the peer must get its whole text
			switch m.Wrap {
			case 1:
				p.sendErr = errors.New(p.rpcErr.Description)
			case 2:
				p.sendErr = fmt.Errorf("couldn't lock the contract: %w", p.rpcErr)
			case 3:
				p.sendErr = fmt.Errorf("session %d: %w", m.N, fmt.Errorf("couldn't lock the contract: %w", p.rpcErr))
			}
			if m.Wrap != 0 {
				p.rpcErr = &rhp2.RPCError{Description: p.sendErr.Error()}
				rec.Label("rhp2:error-response-not-itself-an-RPCError")
			}
			payload = 1 + encLen(p.rpcErr)
			frames[1] = append(frames[1], frameRef{i})
		default:
			return stats.Failf("", "harness: unknown dir %q", m.Dir)
		}
		p.frame = r2FrameSize(payload)
		if (m.Dir == "raw" || m.Dir == "rawerr") && (p.frame-r2Prefix-r2Nonce-r2Tag)%16 == 0 && stats.KnownOpen(keyVerifyTag) {
			// open known finding: VerifyTag rejects authentic messages whose ciphertext length is a
			// multiple of 16. Read this message with ReadResponse instead so the session goes on.
			rec.Excluded(keyVerifyTag)
			p.m.Dir = map[string]string{"raw": "resp", "rawerr": "err"}[m.Dir]
		}
		msgSize := uint64(p.frame - r2Prefix)
		switch m.Limit {
		case "under":
			if msgSize <= r2MinSize || i != len(c.Msgs)-1 || c.Fault != nil {
				p.m.Limit = "exact"
				p.maxLen = msgSize
			} else {
				p.maxLen = msgSize - 1
			}
		case "loose":
			p.maxLen = msgSize + 1<<16
		default:
			p.maxLen = msgSize
		}
		plans[i] = p
	}

	// connections
	ca, cb, dl := newMemPipe()
	// two sessions in three run over a segmented connection (segment sizes from one byte to a jumbo frame)
	segs := []int{0, 0, 1, 3, 16, 17, 536, 1448, 1460, 4096, 9000}
	dl.seg = [2]int{segs[int(c.Seed>>16)%len(segs)], segs[int(c.Seed>>24)%len(segs)]}
	var fc *faultConn
	faultMsg, faultSide := -1, -1
	var connA, connB net.Conn = ca, cb
	if c.Fault != nil {
		side := 0
		if c.Fault.Side == "b" {
			side = 1
		}
		if n := len(frames[side]); n > 0 {
			spec := *c.Fault
			spec.Frame = ((spec.Frame % n) + n) % n
			faultMsg, faultSide = frames[side][spec.Frame].msg, side
			fc = &faultConn{frameMode: true, spec: &spec, frameRegion: r2Region(spec.Region)}
			if side == 0 {
				fc.Conn, fc.skipWrites = ca, 1 // key exchange request
				connA = fc
			} else {
				fc.Conn, fc.skipWrites = cb, 2 // key exchange response, challenge frame
				connB = fc
			}
		}
	}
	defer ca.Close()
	defer cb.Close()

	// handshake
	var renter, host *rhp2.Transport
	ea, eb := runPair(
		func() (err error) {
			defer dl.finished(0)
			renter, err = rhp2.NewRenterTransport(connA, expectKey)
			if err != nil {
				connA.Close()
			}
			return
		},
		func() (err error) {
			defer dl.finished(1)
			host, err = rhp2.NewHostTransport(connB, hostKey)
			if err != nil {
				connB.Close()
			}
			return
		})
	if dl.isDeadlocked() {
		return fail("handshake deadlocked: one side waits for bytes the other never sends (renter=%v host=%v)", ea, eb)
	}
	if isPanic(ea) || isPanic(eb) {
		return fail("handshake panicked: %v / %v", ea, eb)
	}
	if c.Handshake == "badsig" {
		if ea == nil {
			return fail("renter accepted a handshake signed by a key other than the expected host key")
		}
		if eb == nil {
			// with buffered writes the host cannot notice during its own handshake that the renter
			// hung up; it must notice on its first read
			if id, err := host.ReadID(); err == nil {
				return fail("host read a request (%v) on a session whose handshake the renter rejected", id)
			}
		}
		rec.Case(stats.FP("rhp2-handshake", "badsig", c.Seed), true, "rhp2:handshake:badsig")
		return nil
	}
	if ea != nil || eb != nil {
		return fail("handshake between matching parties failed: renter=%v host=%v", ea, eb)
	}
	if renter.HostKey() != hostKey.PublicKey() || host.HostKey() != hostKey.PublicKey() {
		return fail("HostKey() does not report the host's key")
	}

	// scripts
	outs := [2][]outcome{make([]outcome, len(plans)), make([]outcome, len(plans))}
	verifyRead := func(want, got any) (bool, string) { return normEqual(want, got) }
	dl.phase()
	script := func(side int, t *rhp2.Transport, conn net.Conn) func() error {
		return func() error {
			defer dl.finished(side)
			// half of the sessions read every message of a kind into one variable (as a renter downloading several
			// sections in one RPC does): the variable must then hold exactly the message just read
			held := map[reflect.Type]rhp2.ProtocolObject{}
			recv := func(like rhp2.ProtocolObject) rhp2.ProtocolObject {
				if c.Seed&4 == 0 {
					return newLike(like).(rhp2.ProtocolObject)
				}
				if g, ok := held[reflect.TypeOf(like)]; ok {
					reusedReceivers.Add(1)
					return g
				}
				g := newLike(like).(rhp2.ProtocolObject)
				held[reflect.TypeOf(like)] = g
				return g
			}
			for i, p := range plans {
				o := &outs[side][i]
				o.done = true
				writer := (p.m.Dir == "req") == (side == 0)
				switch {
				case p.m.Dir == "req" && writer:
					o.err = t.WriteRequest(p.id, p.obj)
				case p.m.Dir == "req":
					o.read = true
					var id types.Specifier
					if id, o.err = t.ReadID(); o.err == nil {
						if id != p.id {
							o.eq, o.diff = false, fmt.Sprintf("rpc id %q vs %q", id, p.id)
							break
						}
						o.eq = true
						if p.obj != nil {
							got := recv(p.obj)
							if o.err = t.ReadRequest(got, p.maxLen); o.err == nil {
								o.eq, o.diff = verifyRead(p.obj, got)
							}
						}
					}
				case (p.m.Dir == "resp" || p.m.Dir == "raw") && writer:
					o.err = t.WriteResponse(p.obj)
				case (p.m.Dir == "err" || p.m.Dir == "rawerr") && writer:
					o.err = t.WriteResponseErr(p.sendErr)
				case p.m.Dir == "resp":
					o.read = true
					got := recv(p.obj)
					if o.err = t.ReadResponse(got, p.maxLen); o.err == nil {
						o.eq, o.diff = verifyRead(p.obj, got)
					}
				case p.m.Dir == "err":
					o.read = true
					got := new(rhp2.RPCLockResponse)
					err := t.ReadResponse(got, p.maxLen)
					var re *rhp2.RPCError
					if err == nil {
						o.eq, o.diff = false, "an error response was read as success"
					} else if errors.As(err, &re) {
						o.eq, o.diff = verifyRead(p.rpcErr, re)
					} else {
						o.err = err
					}
				case p.m.Dir == "raw" || p.m.Dir == "rawerr":
					o.read = true
					rr, err := t.RawResponse(p.maxLen)
					var re *rhp2.RPCError
					switch {
					case err != nil && errors.As(err, &re):
						if p.m.Dir == "rawerr" {
							o.eq, o.diff = verifyRead(p.rpcErr, re)
						} else {
							o.eq, o.diff = false, "RawResponse returned an RPCError for a non-error response"
						}
					case err != nil:
						o.err = err
					default:
						data, err := drain(rr, p.m.Chunk)
						if err != nil {
							o.err = err
							break
						}
						// the stream is unauthenticated until VerifyTag succeeds
						if o.err = rr.VerifyTag(); o.err != nil {
							break
						}
						if p.m.Dir == "rawerr" {
							o.eq, o.diff = false, "RawResponse returned a data stream for an error response"
							break
						}
						if want := p.frame - r2Prefix - r2Nonce - r2Tag - 1; len(data) != want {
							o.eq, o.diff = false, fmt.Sprintf("raw stream is %d bytes, the plaintext after the flag byte is %d", len(data), want)
							break
						}
						got := recv(p.obj)
						d := types.NewBufDecoder(data)
						got.DecodeFrom(d)
						if d.Err() != nil {
							o.eq, o.diff = false, "authenticated raw stream does not decode: "+d.Err().Error()
							break
						}
						o.eq, o.diff = verifyRead(p.obj, got)
					}
				}
				if o.err != nil || (o.read && !o.eq) {
					conn.Close() // release the peer
					return nil
				}
			}
			if fc != nil && side == faultSide {
				// the side whose traffic was modified has nothing more to send: hang up, so that a
				// peer still waiting for the rest of a shortened frame is released
				conn.Close()
			}
			return nil
		}
	}
	ea, eb = runPair(script(0, renter, connA), script(1, host, connB))
	if ea != nil || eb != nil {
		return fail("script panicked: %v / %v", ea, eb)
	}
	stats.G().Extra("rhp2_reads_into_a_reused_variable", uint64(reusedReceivers.Swap(0)))

	// ---- oracle
	if dl.isDeadlocked() {
		return fail("session deadlocked: a side waits to read bytes that its peer never sends; outcomes renter=%v host=%v", outs[0], outs[1])
	}
	if err := wrongObject("renter", outs[0]); err != nil {
		return fail("%v", err)
	}
	if err := wrongObject("host", outs[1]); err != nil {
		return fail("%v", err)
	}
	label := "rhp2:session:clean"
	nt := len(plans) >= 5
	applied := false
	if fc != nil {
		applied, _ = fc.state()
	}
	last := len(plans) - 1
	switch {
	case fc != nil && !applied:
		// the frame was never written: an earlier message failed although nothing was modified
		for i := range plans {
			for s := 0; s < 2; s++ {
				if o := outs[s][i]; o.done && o.err != nil {
					return fail("message %d (%s %s n=%d frame=%d) failed on side %d without any modification in transit: %v", i, plans[i].m.Dir, plans[i].m.Kind, plans[i].m.N, plans[i].frame, s, o.err)
				}
			}
		}
		return fail("harness: fault on frame %d of side %d was not applied; outcomes %v / %v", fc.spec.Frame, faultSide, outs[0], outs[1])
	case fc != nil && fc.ambiguous():
		// the modification is indistinguishable from one at the boundary to the next frame: the
		// named frame arrives intact. If anything was sent after it, the damage must surface there.
		reader := 1 - faultSide
		_, after := fc.state()
		seen := false
		for i := faultMsg; i < len(plans); i++ {
			if o := outs[reader][i]; o.done && o.err != nil {
				seen = true
			}
		}
		if after >= 1 && !seen {
			return fail("stream modified at a frame boundary (%s, message %d) with %d bytes following, and the reading side never reported an error: %v", fc.spec.Op, faultMsg, after, outs[reader])
		}
		label, nt = "rhp2:fault:boundary-ambiguous", true
	case fc != nil:
		reader := 1 - faultSide
		for i := 0; i < faultMsg; i++ {
			for s := 0; s < 2; s++ {
				if o := outs[s][i]; !o.done || o.err != nil {
					return fail("message %d (before the faulted message %d) failed on side %d: %v", i, faultMsg, s, o)
				}
			}
		}
		o := outs[reader][faultMsg]
		if !o.done || o.err == nil {
			return fail("frame modified in transit (%s %s off=%d, message %d %s/%s): the reading side reports %v",
				fc.spec.Op, fc.spec.Region, fc.spec.Off, faultMsg, c.Msgs[faultMsg].Dir, c.Msgs[faultMsg].Kind, o)
		}
		tr := renter
		if reader == 1 {
			tr = host
		}
		_, after := fc.state()
		authenticated := fc.spec.Region != "len"
		fullFrame := fc.spec.Op == "flip" || fc.spec.Op == "setlen" || fc.spec.Op == "insert" || fc.spec.Op == "dup" || (fc.spec.Op == "drop" && after >= 1)
		if authenticated && fullFrame {
			if !tr.IsClosed() || tr.PrematureCloseErr() == nil {
				return fail("frame modified in transit (%s in %s, message %d %s): read failed with %q but the session is not closed (IsClosed=%v PrematureCloseErr=%v)",
					fc.spec.Op, fc.spec.Region, faultMsg, c.Msgs[faultMsg].Dir, o.err, tr.IsClosed(), tr.PrematureCloseErr())
			}
			if err := tr.WriteResponse(&rhp2.RPCWriteResponse{}); err == nil {
				return fail("a write on the closed session succeeded")
			}
			label = "rhp2:fault:detected+closed"
		} else if tr.IsClosed() {
			label = "rhp2:fault:detected+closed"
		} else {
			label = "rhp2:fault:detected"
		}
		for i := faultMsg + 1; i < len(plans); i++ {
			if o := outs[reader][i]; o.done && o.err == nil {
				return fail("message %d was processed on the reading side after the faulted message %d", i, faultMsg)
			}
		}
		nt = true
		rec.Label("rhp2:fault-op:" + fc.spec.Op)
		rec.Label("rhp2:fault-region:" + fc.spec.Region)
		rec.Label("rhp2:fault-dir:" + c.Msgs[faultMsg].Dir)
	default:
		for i := range plans {
			under := plans[i].m.Limit == "under"
			for s := 0; s < 2; s++ {
				o := outs[s][i]
				if !o.done {
					return fail("message %d not reached on side %d", i, s)
				}
				if under && o.read {
					if o.err == nil {
						return fail("message %d: a %d-byte message was read with maxLen %d", i, plans[i].frame-r2Prefix, plans[i].maxLen)
					}
					continue
				}
				if o.err != nil && !(under && i == last) {
					return fail("message %d (%s %s n=%d limit=%s maxLen=%d frame=%d) failed on side %d: %v", i, plans[i].m.Dir, plans[i].m.Kind, plans[i].m.N, plans[i].m.Limit, plans[i].maxLen, plans[i].frame, s, o.err)
				}
			}
		}
		if last < 0 || plans[last].m.Limit != "under" {
			// graceful termination: the host normally sees the renter's exit signal. Not asserted:
			// Transport.Close gives the signal a one-second write deadline, so on a loaded
			// machine the host may legitimately see EOF instead.
			dl.phase()
			ea, eb := runPair(
				func() error { return renter.Close() },
				func() error {
					_, err := host.ReadID()
					host.Close()
					return err
				})
			if isPanic(ea) || isPanic(eb) {
				return fail("close panicked: %v / %v", ea, eb)
			}
			if errors.Is(eb, rhp2.ErrRenterClosed) {
				rec.Label("rhp2:close:exit-signal-seen")
			} else {
				rec.Label("rhp2:close:eof")
			}
		} else {
			label = "rhp2:session:under-limit-refused"
			nt = true
		}
	}
	renter.ForceClose()
	host.ForceClose()

	fp := stats.FP("rhp2", len(plans), label)
	for _, p := range plans {
		fp = stats.FP(fp, p.m.Kind, p.m.Dir, p.m.N, p.m.Limit)
		rec.Label("rhp2:dir:" + p.m.Dir)
		rec.Label("rhp2:kind:" + p.m.Kind)
		if p.frame > r2MinSize {
			rec.Label("rhp2:frame:>4096")
		} else {
			rec.Label("rhp2:frame:padded")
		}
	}
	if fc != nil {
		fp = stats.FP(fp, fc.spec.Side, fc.spec.Op, fc.spec.Region, fc.spec.Frame, int(fc.spec.Off)%64)
	}
	rec.Case(fp, nt, label)
	if rec.WantSample() {
		rec.Sample(nt, c)
	}
	return nil
}

var reusedReceivers atomic.Int64

func drawFault(t *rapid.T, frameMode bool, maxFrame int) *FaultSpec {
	f := &FaultSpec{
		Side:  rapid.SampledFrom([]string{"a", "b"}).Draw(t, "fault-side"),
		Op:    rapid.SampledFrom([]string{"flip", "flip", "insert", "dup", "drop", "trunc"}).Draw(t, "fault-op"),
		Frame: rapid.IntRange(0, maxFrame).Draw(t, "fault-frame"),
		Off:   rapid.Uint32().Draw(t, "fault-off"),
		Bit:   uint8(rapid.IntRange(0, 255).Draw(t, "fault-bit")),
	}
	if rapid.Bool().Draw(t, "fault-off-edge") {
		f.Off = rapid.SampledFrom([]uint32{0, 1, 7, 8, 11, 12, 15, 16, 4319, 4303, 4304}).Draw(t, "fault-off-e")
	}
	if frameMode {
		f.Region = rapid.SampledFrom([]string{"len", "nonce", "ct", "ct", "tag"}).Draw(t, "fault-region")
		if rapid.IntRange(0, 7).Draw(t, "fault-setlen") == 0 {
			f.Op, f.Region = "setlen", "len" // hostile length word (a peer, not line noise)
		}
	}
	return f
}

func drawRHP2(t *rapid.T) R2Case {
	c := R2Case{Seed: rapid.Uint64().Draw(t, "seed")}
	if rapid.IntRange(0, 19).Draw(t, "hs") == 0 {
		c.Handshake = "badsig"
		return c
	}
	names := r2names()
	n := rapid.IntRange(1, 8).Draw(t, "msgs")
	for i := 0; i < n; i++ {
		m := R2Msg{Dir: rapid.SampledFrom([]string{"req", "req", "resp", "resp", "err", "raw", "raw", "rawerr"}).Draw(t, "dir")}
		if m.Dir == "err" || m.Dir == "rawerr" {
			m.Wrap = rapid.SampledFrom([]int{0, 0, 1, 2, 3}).Draw(t, "wrap")
		}
		if m.Dir == "err" || m.Dir == "rawerr" {
			m.Kind = "RPCError"
			m.N = rapid.IntRange(0, 300).Draw(t, "n")
			if rapid.IntRange(0, 3).Draw(t, "bigError") == 0 {
				// an error with a long description or a large data blob (a host returning a transaction set or a log
				// excerpt): around and beyond the 4 KiB minimum message size
				m.N = rapid.SampledFrom([]int{2700, 2731, 4000, 4096, 4097, 6000, 20000}).Draw(t, "bigErrorN")
			}
		} else if m.Dir == "req" && rapid.IntRange(0, 5).Draw(t, "idonly") == 0 {
			m.Kind = "none"
		} else {
			m.Kind = rapid.SampledFrom(names).Draw(t, "kind")
			k := r2byName(m.Kind)
			hi := k.maxN
			if hi > 70000 && rapid.IntRange(0, 5).Draw(t, "big") != 0 {
				hi = 70000
			}
			m.N = drawSize(t, 0, hi, "n")
		}
		m.Limit = rapid.SampledFrom([]string{"exact", "exact", "loose", "under"}).Draw(t, "limit")
		m.Chunk = rapid.SampledFrom([]int{1, 7, 64, 1000, 4096, 1 << 16}).Draw(t, "chunk")
		if m.Chunk == 1 && m.N > 20000 {
			m.Chunk = 4096
		}
		c.Msgs = append(c.Msgs, m)
	}
	if rapid.IntRange(0, 9).Draw(t, "faulty") < 6 {
		c.Fault = drawFault(t, true, 12)
	}
	return c
}

func TestRHP2(t *testing.T) { stats.Prop(t, drawRHP2, checkRHP2) }

// TestKnownVerifyTag: minimal reproduction of the RawResponse/VerifyTag defect. An
// unmodified response whose ciphertext (flag byte + object, unpadded) is a multiple of
// 16 bytes long fails authentication and closes the session: VerifyTag pads the MAC
// input with 32-(clen%16) bytes, which is 16 bytes too many when clen%16 == 0.
func TestKnownVerifyTag(t *testing.T) {
	stats.ProbeKnown(t, keyVerifyTag, "rhp2 ResponseReader.VerifyTag rejects an authentic response whose ciphertext length is a multiple of 16", func() error {
		hostKey := keyFromSeed(1, "probe")
		a, b := net.Pipe()
		defer a.Close()
		defer b.Close()
		// flag(1) + length prefix(8) + 4071 = 4080 = 255*16 bytes of ciphertext, frame 4116 > 4096 (not padded)
		sent := &rhp2.RPCSettingsResponse{Settings: []byte(newRng(1, "probe").str(4071))}
		var verr error
		var got []byte
		var renter *rhp2.Transport
		ea, eb := runPair(
			func() (err error) {
				defer a.Close()
				if renter, err = rhp2.NewRenterTransport(a, hostKey.PublicKey()); err != nil {
					return err
				}
				rr, err := renter.RawResponse(1 << 16)
				if err != nil {
					return err
				}
				if got, err = drain(rr, 512); err != nil {
					return err
				}
				verr = rr.VerifyTag()
				return nil
			},
			func() error {
				defer b.Close()
				ht, err := rhp2.NewHostTransport(b, hostKey)
				if err != nil {
					return err
				}
				return ht.WriteResponse(sent)
			})
		if ea != nil || eb != nil {
			return fmt.Errorf("probe could not run: %v / %v", ea, eb)
		}
		if verr != nil {
			return fmt.Errorf("VerifyTag on an unmodified %d-byte ciphertext: %v (session closed: %v)", 1+8+4071, verr, renter.IsClosed())
		}
		want := encBytes(sent)
		if len(got) != len(want) || string(got) != string(want) {
			return fmt.Errorf("raw stream differs from the encoded response")
		}
		return nil
	})
}
