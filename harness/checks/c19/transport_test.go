package c19

// Part 2 — transports over in-memory pipes: rhp/v2 (hand-rolled ChaCha20-Poly1305
// framing), rhp/v3 and gateway (both on go.sia.tech/mux), with an interposed fault
// connection. No deadlines or sleeps are used as oracles: the two sides run as
// goroutines that are always joined before a case returns, and pipes are closed
// explicitly to unblock a peer.

import (
	"encoding/binary"
	"errors"
	"fmt"
	"io"
	"net"
	"runtime/debug"
	"sync"
	"time"

	"go.sia.tech/core/types"
)

// ---- plumbing ------------------------------------------------------------------------------------

type fakeAddr string

func (a fakeAddr) Network() string { return "tcp" }
func (a fakeAddr) String() string  { return string(a) }

// addrConn gives a net.Pipe end a host:port remote address (the gateway handshake parses it).
type addrConn struct {
	net.Conn
	remote fakeAddr
}

func (c addrConn) RemoteAddr() net.Addr { return c.remote }

// FaultSpec describes one single-byte modification of the traffic written by Side.
type FaultSpec struct {
	Side   string `json:"side"`   // "a" (renter / dialer) or "b" (host / acceptor): whose outgoing bytes are modified
	Op     string `json:"op"`     // flip | insert | dup | drop | trunc
	Frame  int    `json:"frame"`  // rhp2: index (mod count) among the frames Side writes after the handshake; mux: packet index after the handshake
	Region string `json:"region"` // rhp2: len | nonce | ct | tag
	Off    uint32 `json:"off"`    // offset inside the region / packet (mod its length)
	Bit    uint8  `json:"bit"`    // bit flipped, or value inserted
}

// mutate applies op at position pos of b. cut reports that the connection is severed
// right after the mutated bytes were delivered (truncation).
func mutate(b []byte, op string, pos int, bit uint8) (out []byte, cut bool) {
	switch op {
	case "flip":
		out = append([]byte{}, b...)
		out[pos] ^= 1 << (bit % 8)
	case "insert":
		out = append(append(append([]byte{}, b[:pos]...), bit), b[pos:]...)
	case "dup": // insert a copy of the byte at pos
		out = append(append(append([]byte{}, b[:pos]...), b[pos]), b[pos:]...)
	case "drop":
		out = append(append([]byte{}, b[:pos]...), b[pos+1:]...)
	case "trunc":
		out, cut = append([]byte{}, b[:pos]...), true
	case "setlen":
		// the 8-byte length word at the start of the frame replaced by a hostile value (frame mode, region "len"):
		// below the nonce + tag minimum, just around it, just above any limit, and the extremes
		vals := []uint64{0, 1, 11, 12, 13, 27, 28, 29, 4095, 1 << 16, 1 << 31, 1 << 32, 1<<63 - 1, 1 << 63, ^uint64(0)}
		out = append([]byte{}, b...)
		if len(out) >= 8 {
			binary.LittleEndian.PutUint64(out, vals[int(bit)%len(vals)])
		}
	default:
		panic("harness: unknown fault op " + op)
	}
	return
}

// faultConn interposes on one end of a pipe and modifies what that end writes.
//
// frame mode (rhp2): every Write after the handshake is exactly one frame; the spec
// names a frame and a region of it. After the fault, the next Read by the faulting
// side severs the connection: the faulting side has gone quiet while its peer may be
// waiting for bytes that will never come (a dropped byte, an inflated length prefix).
//
// stream mode (mux): the spec names a byte offset counted from arm(); drop and trunc
// sever the connection after the modified write.
type faultConn struct {
	net.Conn
	mu          sync.Mutex
	frameMode   bool
	spec        *FaultSpec
	skipWrites  int // frame mode: writes that belong to the handshake
	writes      int
	armed       bool
	armedOff    int // stream mode: bytes written since arm()
	applied     bool
	appliedLen  int // length of the write that was modified
	appliedPos  int
	bytesAfter  int  // bytes forwarded after the modified write
	runToEnd    bool // the bytes from the fault position to the end of the modified write are all equal
	runByte     byte
	nextSeen    bool // a later write followed; nextByte is its first byte
	nextByte    byte
	cutDone     bool
	frameIdx    func(nFrames int) int
	frameRegion func(frame []byte) (lo, hi int)
}

func (f *faultConn) arm() {
	f.mu.Lock()
	f.armed = true
	f.mu.Unlock()
}

// ambiguous reports that the modified byte stream is identical to one in which the
// modification sits at (or beyond) the boundary to the following frame, so that the
// frame named by the spec arrives intact and the damage, if any, is to what follows:
// dropping the last byte(s) of a frame when the next frame starts with the same value,
// or inserting a copy of the value that fills the rest of the frame.
func (f *faultConn) ambiguous() bool {
	f.mu.Lock()
	defer f.mu.Unlock()
	if !f.applied || !f.runToEnd {
		return false
	}
	switch f.spec.Op {
	case "drop":
		return f.nextSeen && f.nextByte == f.runByte
	case "insert":
		return f.spec.Bit == f.runByte
	case "dup":
		return true
	}
	return false
}

func (f *faultConn) state() (applied bool, bytesAfter int) {
	f.mu.Lock()
	defer f.mu.Unlock()
	return f.applied, f.bytesAfter
}

func (f *faultConn) Write(b []byte) (int, error) {
	f.mu.Lock()
	idx := f.writes
	f.writes++
	spec, armed, applied := f.spec, f.armed, f.applied
	off := f.armedOff
	if armed {
		f.armedOff += len(b)
	}
	f.mu.Unlock()
	if spec == nil || applied || len(b) == 0 {
		if applied {
			f.mu.Lock()
			f.bytesAfter += len(b)
			if !f.nextSeen && len(b) > 0 {
				f.nextSeen, f.nextByte = true, b[0]
			}
			f.mu.Unlock()
		}
		return f.Conn.Write(b)
	}
	pos := -1
	if f.frameMode {
		if idx-f.skipWrites == spec.Frame {
			lo, hi := f.frameRegion(b)
			if hi > lo {
				pos = lo + int(spec.Off)%(hi-lo)
			}
		}
	} else if armed {
		const packet = 4320 // mux default packet size (both sides use the default)
		target := spec.Frame*packet + int(spec.Off)%packet
		if target >= off && target < off+len(b) {
			pos = target - off
		}
	}
	if pos < 0 {
		return f.Conn.Write(b)
	}
	mb, cut := mutate(b, spec.Op, pos, spec.Bit)
	// mark before forwarding: once the flag is visible, nothing written later by this
	// side can reach the peer ahead of the modified bytes
	f.mu.Lock()
	f.applied, f.appliedLen, f.appliedPos = true, len(b), pos
	f.runToEnd, f.runByte = true, b[pos]
	for _, x := range b[pos:] {
		if x != b[pos] {
			f.runToEnd = false
		}
	}
	f.mu.Unlock()
	_, err := f.Conn.Write(mb)
	if cut || (!f.frameMode && spec.Op == "drop") {
		f.Conn.Close()
	}
	if err != nil {
		return 0, err
	}
	return len(b), nil
}

func (f *faultConn) Read(p []byte) (int, error) {
	if f.frameMode {
		f.mu.Lock()
		cut := f.applied && !f.cutDone
		if cut {
			f.cutDone = true
		}
		f.mu.Unlock()
		if cut {
			f.Conn.Close()
		}
	}
	return f.Conn.Read(p)
}

// guard runs fn and converts a panic into an error carrying the stack.
func guard(fn func() error) (err error) {
	defer func() {
		if r := recover(); r != nil {
			err = &panicErr{fmt.Sprintf("panic: %v\n%s", r, debug.Stack())}
		}
	}()
	return fn()
}

type panicErr struct{ s string }

func (p *panicErr) Error() string { return p.s }

func isPanic(err error) bool {
	var p *panicErr
	return errors.As(err, &p)
}

// runPair runs the two sides concurrently and joins them.
func runPair(a, b func() error) (ea, eb error) {
	var wg sync.WaitGroup
	wg.Add(2)
	go func() { defer wg.Done(); ea = guard(a) }()
	go func() { defer wg.Done(); eb = guard(b) }()
	wg.Wait()
	return
}

// lockstep keeps two scripts on the same step (needed on mux transports, where a
// writer can otherwise run ahead and open several streams that the peer would accept
// in map order).
type lockstep struct{ ch [2][]chan struct{} }

func newLockstep(n int) *lockstep {
	l := &lockstep{}
	for s := 0; s < 2; s++ {
		l.ch[s] = make([]chan struct{}, n)
		for i := range l.ch[s] {
			l.ch[s][i] = make(chan struct{})
		}
	}
	return l
}

// finish marks step k done for side and waits for the peer to finish it too.
func (l *lockstep) finish(side, k int) {
	close(l.ch[side][k])
	<-l.ch[1-side][k]
}

// abort releases the peer from every step from k on.
func (l *lockstep) abort(side, k int) {
	for ; k < len(l.ch[side]); k++ {
		close(l.ch[side][k])
	}
}

// outcome of one message on one side
type outcome struct {
	done bool
	err  error
	read bool // this side read the message
	eq   bool
	diff string
}

func (o outcome) String() string {
	if !o.done {
		return "not reached"
	}
	if o.err != nil {
		return "error: " + o.err.Error()
	}
	if o.read && !o.eq {
		return "read a different object (" + o.diff + ")"
	}
	return "ok"
}

// wrongObject reports a successful read of something other than what was written.
func wrongObject(side string, outs []outcome) error {
	for i, o := range outs {
		if o.done && o.err == nil && o.read && !o.eq {
			return fmt.Errorf("side %s message %d: read succeeded but the object differs from the one written at %s", side, i, o.diff)
		}
		if o.done && isPanic(o.err) {
			return fmt.Errorf("side %s message %d: %v", side, i, o.err)
		}
	}
	return nil
}

func drain(r io.Reader, chunk int) ([]byte, error) {
	if chunk <= 0 {
		chunk = 1
	}
	var out []byte
	buf := make([]byte, chunk)
	for {
		n, err := r.Read(buf)
		out = append(out, buf[:n]...)
		if err == io.EOF {
			return out, nil
		} else if err != nil {
			return out, err
		}
	}
}

func specFromSeed(seed uint64, salt string) types.Specifier {
	r := newRng(seed, "spec/"+salt)
	var s types.Specifier
	copy(s[:], r.str(r.rangeInt(1, 16)))
	return s
}

// ---- an in-memory duplex connection with exact deadlock detection ------------------------------
//
// memPipe behaves like a socket pair with unbounded buffers: Write never blocks, Read
// blocks until data or a hang-up arrives, and data written before a Close is still
// delivered. rhp2 runs exactly one goroutine per side, so "both sides blocked in Read
// with nothing in flight" (or one side blocked while the other has finished its script
// without hanging up) can never resolve. memPipe recognises that state exactly, under
// its own lock and without timers, severs the connection and reports it: a reader that
// waits for bytes its peer never sends is a framing failure, not a reason to wait for
// the test timeout.

type memPipe struct {
	mu         sync.Mutex
	cond       *sync.Cond
	q          [2][]byte // q[i]: bytes in flight towards side i
	closed     [2]bool   // closed[i]: side i has hung up
	waiting    [2]bool
	idle       [2]bool
	deadlocked bool
	// seg[i] > 0: side i receives the stream cut into segments of that many bytes (a Read never crosses a segment
	// boundary, as on a TCP connection), so short reads happen at every position of every message
	seg [2]int
	rd  [2]int // bytes side i has read so far
}

type memConn struct {
	p    *memPipe
	side int
}

func newMemPipe() (a, b net.Conn, p *memPipe) {
	p = &memPipe{}
	p.cond = sync.NewCond(&p.mu)
	return &memConn{p, 0}, &memConn{p, 1}, p
}

func (p *memPipe) sever() {
	p.deadlocked = true
	p.closed = [2]bool{true, true}
	p.cond.Broadcast()
}

// phase resets the "script finished" marks before a new pair of scripts starts.
func (p *memPipe) phase() {
	p.mu.Lock()
	p.idle = [2]bool{}
	p.mu.Unlock()
}

// finished marks side's script as done.
func (p *memPipe) finished(side int) {
	p.mu.Lock()
	p.idle[side] = true
	o := 1 - side
	if p.waiting[o] && len(p.q[o]) == 0 && !p.closed[0] && !p.closed[1] {
		p.sever()
	}
	p.mu.Unlock()
}

func (p *memPipe) isDeadlocked() bool {
	p.mu.Lock()
	defer p.mu.Unlock()
	return p.deadlocked
}

func (c *memConn) Read(b []byte) (int, error) {
	p, me, o := c.p, c.side, 1-c.side
	p.mu.Lock()
	defer p.mu.Unlock()
	if len(b) == 0 {
		return 0, nil
	}
	for len(p.q[me]) == 0 {
		if p.closed[me] {
			return 0, io.ErrClosedPipe
		} else if p.closed[o] {
			return 0, io.EOF
		}
		if (p.waiting[o] && len(p.q[o]) == 0) || p.idle[o] {
			p.sever()
			continue
		}
		p.waiting[me] = true
		p.cond.Wait()
		p.waiting[me] = false
	}
	if s := p.seg[me]; s > 0 {
		if room := s - p.rd[me]%s; len(b) > room {
			b = b[:room]
		}
	}
	n := copy(b, p.q[me])
	p.q[me] = p.q[me][n:]
	p.rd[me] += n
	return n, nil
}

func (c *memConn) Write(b []byte) (int, error) {
	p, me, o := c.p, c.side, 1-c.side
	p.mu.Lock()
	defer p.mu.Unlock()
	if p.closed[me] || p.closed[o] {
		return 0, io.ErrClosedPipe
	}
	p.q[o] = append(p.q[o], b...)
	p.cond.Broadcast()
	return len(b), nil
}

func (c *memConn) Close() error {
	c.p.mu.Lock()
	c.p.closed[c.side] = true
	c.p.cond.Broadcast()
	c.p.mu.Unlock()
	return nil
}

func (c *memConn) LocalAddr() net.Addr                { return fakeAddr("mem:0") }
func (c *memConn) RemoteAddr() net.Addr               { return fakeAddr("mem:1") }
func (c *memConn) SetDeadline(t time.Time) error      { return nil }
func (c *memConn) SetReadDeadline(t time.Time) error  { return nil }
func (c *memConn) SetWriteDeadline(t time.Time) error { return nil }
