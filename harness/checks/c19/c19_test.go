// C19 — RPC framing admits all valid messages and bounds reads; transports are faithful
// and detect tampering.
//
// Files: frame_test.go (rhp/v4 framing), rhp2_test.go (rhp/v2 encrypted transport),
// mux_test.go (rhp/v3 and gateway over go.sia.tech/mux), transport_test.go (pipes, fault
// connection, deadlock detection), helpers_test.go (seed expander, normalised equality,
// object builders).
//
// Defects found on the unchanged tree (each has a ProbeKnown reproduction):
//
//	C19/rhp2-verifytag-ciphertext-multiple-of-16   rhp2 ResponseReader.VerifyTag pads the
//	    MAC input with 32-(clen%16) bytes; for clen%16 == 0 that is 16 bytes too many, so an
//	    unmodified response whose ciphertext length is a multiple of 16 fails authentication
//	    and closes the session (TestKnownVerifyTag; excluded from TestRHP2 while open).
//	C19/rhp4-free-sectors-response-exceeds-limit-large-contract   a Validate-accepted maximal
//	    free-sectors batch on a 4 TiB contract yields an honest 29 MB response; ReadResponse
//	    allows 20 MiB (TestKnownFreeSectors; outside the generator's stated bound).
//	C19/gateway-max-weight-block-exceeds-5e6   block weight ignores Merkle proofs, the wire
//	    size does not: a block of weight 1.96 M with 9000 inputs over an accumulator of height
//	    27 is 5.9 MB, more than the 5e6 the gateway RPCs allow per block (TestKnownBlockLimit).
//
// Sensitivity: semantic mutants of /repo, `VERIF_SCALE=0.35 ./run C19 quick` through
// tools/with_mutant.sh on a machine with load average > 100; seconds are build + whole run.
//
//	id   file                     mutant                                                        result    s
//	M01  rhp/v4/encoding.go       ReplenishAccountsRequest.maxLen drops +sizeofSignature        killed  343  (max object: read fails)
//	M02  rhp/v4/encoding.go       FreeSectorsRequest.maxLen 32*batch -> 4*batch (0.16.1 bug)    killed  164
//	M03  rhp/v4/transport.go      ReadResponse error branch: d.SetErr(r) removed                killed   40
//	M04  rhp/v4/transport.go      withDecoder: N: maxLen -> 1<<40 (no limit)                    killed  337  (over-limit object read; hostile stream)
//	M05  rhp/v2/transport.go      VerifyTag: tag comparison skipped                             killed   52
//	M06  rhp/v2/transport.go      readMessage: no setErr on AEAD failure                        killed   52  (session not closed)
//	M07  gateway/transport.go     validateHeader: unique-ID check removed                       killed  103
//	M08  gateway/transport.go     validateHeader: genesis check removed                         killed   55
//	M09  rhp/v4/validation.go     FundAccounts: len > Max -> len >= Max                         killed   56  (max batch rejected)
//	M10  rhp/v4/validation.go     AppendSectors: > Max -> > Max+1                               killed   61  (batch+1 accepted)
//	M11  rhp/v3/transport.go      readObject: maxLen += minMessageSize removed                  killed   45
//	M12  rhp/v2/transport.go      NewRenterTransport: host signature not verified               killed   50
//	M13  gateway/encoding.go      SendHeaders.maxResponseLen 80 -> 48 bytes per header          killed   61
//	M14  rhp/v4/transport.go      ReadResponse limit: RPCError.maxLen()+o.maxLen() -> o.maxLen() killed   36
//	M15  rhp/v2/transport.go      RawResponse: msgSize > maxLen check removed                   killed   56
//	M16  rhp/v2/transport.go      readMessage: msgSize > maxLen -> > maxLen+1                   survived     equivalent: LimitedReader(8+maxLen) still refuses the extra byte
//	M17  rhp/v4/encoding.go       AttachPoolsRequest.maxLen drops the 8-byte slice prefix       killed  102
//	M18  gateway/encoding.go      SendV2Blocks.maxRequestLen drops the Max field                killed  102
//	M20  rhp/v4/transport.go      WriteResponse never sets the error flag                       killed   22
//	M21  rhp/v4/validation.go     FreeSectors: > Max -> >= Max                                  killed   34
//	M22  rhp/v4/validation.go     ReplenishAccounts: > Max -> > 2*Max                           killed   36
//	M23  rhp/v4/encoding.go       SectorRootsResponse encodes Roots before Proof                killed   37
//	M24  rhp/v2/transport.go      RawResponse counts the tag as message body                    killed   43  (exact deadlock detection; timed out before it existed)
//	M25  gateway/encoding.go      SendTransactions.maxRequestLen 100 -> 99 hashes               killed   54
//	M26  rhp/v3/transport.go      readSub never cleared                                         killed  626  (other shards hang until the test timeout)
//	M27  rhp/v2/transport.go      readMessage takes the nonce from offset 1                     killed   41
//	(M19 is the proposed VerifyTag fix: with it TestKnownVerifyTag turns clean.)
package c19

import (
	"testing"

	"verif/harness/stats"
)

func TestMain(m *testing.M) { stats.Main(m) }

func TestReplayFrame(t *testing.T)     { stats.Replay(t, "TestFrameProp", checkFrame) }
func TestReplayFrameEnum(t *testing.T) { stats.Replay(t, "TestFrameEnum", checkFrame) }
func TestReplayRHP2(t *testing.T)      { stats.Replay(t, "TestRHP2", checkRHP2) }
func TestReplayRHP3(t *testing.T)      { stats.Replay(t, "TestRHP3", checkRHP3) }
func TestReplayGateway(t *testing.T)   { stats.Replay(t, "TestGateway", checkGateway) }
