// C19 — RPC framing admits all valid messages and bounds reads; transports are faithful
// and detect tampering.
package c19

import (
	"testing"

	"verif/harness/stats"
)

func TestMain(m *testing.M) { stats.Main(m) }

func TestReplayFrame(t *testing.T)     { stats.Replay(t, "TestFrameProp", checkFrame) }
func TestReplayFrameEnum(t *testing.T) { stats.Replay(t, "TestFrameEnum", checkFrame) }
func TestReplayRHP2(t *testing.T)      { stats.Replay(t, "TestRHP2", checkRHP2) }
func TestReplayRHP3(t *testing.T)      { stats.Replay(t, "TestRHP3", checkRHP3) }
func TestReplayGateway(t *testing.T)   { stats.Replay(t, "TestGateway", checkGateway) }
