package c19

import (
	"bytes"
	"fmt"
	"net"
	"sync"
	"testing"

	rhp2 "go.sia.tech/core/rhp/v2"
	"go.sia.tech/core/types"
	"pgregory.net/rapid"
	"verif/harness/stats"
)

// Full duplex. An RHP2 session is read and written by different goroutines when a host streams sections while watching
// for the renter's stop message: the transport keeps separate state for the two directions, and "whatever one side
// writes is exactly what the other side reads, in order" has to hold for each direction whatever the other direction is
// doing. The host of this unit starts writing its responses first; the connection (net.Pipe: a Write returns when the
// peer has read it) holds the first one back, and only when that write has reached the connection does the host begin
// to read the renter's messages on the same transport. The renter writes all its messages and then reads the host's.

type DuplexCase struct {
	Seed uint64 `json:"seed"`
	Up   []int  `json:"up"`   // payload sizes renter -> host
	Down []int  `json:"down"` // payload sizes host -> renter
}

func drawDuplex(t *rapid.T) DuplexCase {
	sizes := rapid.SampledFrom([]int{0, 1, 100, 4000, 4060, 4071, 4080, 5000, 9000, 20000})
	return DuplexCase{Seed: rapid.Uint64().Draw(t, "seed"),
		Up:   rapid.SliceOfN(sizes, 1, 4).Draw(t, "up"),
		Down: rapid.SliceOfN(sizes, 1, 4).Draw(t, "down")}
}

// notifyConn reports the first Write that reaches the connection after it was armed.
type notifyConn struct {
	net.Conn
	mu      sync.Mutex
	armed   bool
	fired   bool
	entered chan struct{}
}

func (c *notifyConn) arm() { c.mu.Lock(); c.armed = true; c.mu.Unlock() }

func (c *notifyConn) Write(p []byte) (int, error) {
	c.mu.Lock()
	if c.armed && !c.fired {
		c.fired = true
		close(c.entered)
	}
	c.mu.Unlock()
	return c.Conn.Write(p)
}

func checkDuplex(c DuplexCase) error {
	rec := stats.G()
	fail := func(format string, args ...any) error {
		return stats.Failf("C19/rhp2-duplex", "up %v down %v: %s", c.Up, c.Down, fmt.Sprintf(format, args...))
	}
	if len(c.Up) == 0 || len(c.Down) == 0 || len(c.Up) > 8 || len(c.Down) > 8 {
		return stats.Failf("", "harness: case out of range")
	}
	hostKey := types.NewPrivateKeyFromSeed(make([]byte, 32))
	a, b := net.Pipe()
	defer a.Close()
	defer b.Close()
	hb := &notifyConn{Conn: b, entered: make(chan struct{})}
	msg := func(dir string, i, n int) *rhp2.RPCSettingsResponse {
		return &rhp2.RPCSettingsResponse{Settings: []byte(newRng(c.Seed, fmt.Sprint(dir, i)).str(n))}
	}
	var renter, host *rhp2.Transport
	if ea, eb := runPair(
		func() (err error) { renter, err = rhp2.NewRenterTransport(a, hostKey.PublicKey()); return },
		func() (err error) { host, err = rhp2.NewHostTransport(hb, hostKey); return }); ea != nil || eb != nil {
		return fail("handshake failed: %v / %v", ea, eb)
	}
	hb.arm()
	var werr error
	writerDone := make(chan struct{})
	go func() { // host writer: its first frame is held by the connection until the renter starts reading
		defer close(writerDone)
		for i, n := range c.Down {
			if err := host.WriteResponse(msg("down", i, n)); err != nil {
				werr = fmt.Errorf("host WriteResponse #%d: %w", i, err)
				return
			}
		}
	}()
	ea, eb := runPair(
		func() error { // renter: write everything, then read
			for i, n := range c.Up {
				if err := renter.WriteResponse(msg("up", i, n)); err != nil {
					return fmt.Errorf("renter WriteResponse #%d: %w", i, err)
				}
			}
			for i, n := range c.Down {
				var got rhp2.RPCSettingsResponse
				if err := renter.ReadResponse(&got, 1<<20); err != nil {
					return fmt.Errorf("renter could not read response #%d (%d bytes) the host wrote: %w", i, n, err)
				}
				if !bytes.Equal(got.Settings, msg("down", i, n).Settings) {
					return fmt.Errorf("response #%d read by the renter is not the one the host wrote", i)
				}
			}
			return nil
		},
		func() error { // host reader, once the host's own write has reached the connection
			select {
			case <-hb.entered:
			case <-writerDone:
			}
			for i, n := range c.Up {
				var got rhp2.RPCSettingsResponse
				if err := host.ReadResponse(&got, 1<<20); err != nil {
					return fmt.Errorf("host could not read message #%d (%d bytes) the renter wrote: %w", i, n, err)
				}
				if !bytes.Equal(got.Settings, msg("up", i, n).Settings) {
					return fmt.Errorf("message #%d read by the host is not the one the renter wrote", i)
				}
			}
			return nil
		})
	if ea != nil || eb != nil {
		a.Close() // releases a writer that still waits for a reader
		b.Close()
	}
	<-writerDone
	for _, err := range []error{ea, eb, werr} {
		if err != nil {
			return fail("%v", err)
		}
	}
	rec.Case(stats.FP("duplex", c.Seed, fmt.Sprint(c.Up, c.Down)), len(c.Up)+len(c.Down) >= 3, "rhp2:duplex")
	return nil
}

func TestRHP2Duplex(t *testing.T)       { stats.Prop(t, drawDuplex, checkDuplex) }
func TestReplayRHP2Duplex(t *testing.T) { stats.Replay(t, "TestRHP2Duplex", checkDuplex) }
