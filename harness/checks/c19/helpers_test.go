package c19

// Shared helpers: a deterministic byte source expanded from a rapid-drawn seed, an
// equality that applies exactly the normalisations of DESIGN.md Appendix C, and
// builders for the consensus objects that the RPC messages carry.

import (
	"bytes"
	"encoding/binary"
	"fmt"
	"reflect"
	"time"
	"unsafe"

	"go.sia.tech/core/types"
	"verif/harness/stats"
)

// ---- deterministic expansion of a drawn seed ---------------------------------------------

// rng is splitmix64. It only ever expands a seed that was drawn by rapid (or taken
// from a replay file); bulk content such as 2^18 sector roots is not worth one
// rapid draw per byte.
type rng struct{ s uint64 }

func newRng(seed uint64, salt string) *rng {
	r := &rng{s: seed ^ stats.FP(salt)}
	r.u64()
	return r
}

func (r *rng) u64() uint64 {
	r.s += 0x9E3779B97F4A7C15
	z := r.s
	z = (z ^ (z >> 30)) * 0xBF58476D1CE4E5B9
	z = (z ^ (z >> 27)) * 0x94D049BB133111EB
	return z ^ (z >> 31)
}

func (r *rng) intn(n int) int {
	if n <= 1 {
		return 0
	}
	return int(r.u64() % uint64(n))
}

func (r *rng) rangeInt(lo, hi int) int { return lo + r.intn(hi-lo+1) }
func (r *rng) bool() bool              { return r.u64()&1 == 1 }

func (r *rng) fill(b []byte) {
	i := 0
	for ; i+8 <= len(b); i += 8 {
		binary.LittleEndian.PutUint64(b[i:], r.u64())
	}
	if i < len(b) {
		var t [8]byte
		binary.LittleEndian.PutUint64(t[:], r.u64())
		copy(b[i:], t[:])
	}
}

func (r *rng) bytes(n int) []byte {
	if n == 0 {
		return nil
	}
	b := make([]byte, n)
	r.fill(b)
	return b
}

func (r *rng) hash() (h types.Hash256) { r.fill(h[:]); return }
func (r *rng) addr() types.Address     { return types.Address(r.hash()) }
func (r *rng) sig() (s types.Signature) {
	r.fill(s[:])
	return
}
func (r *rng) spec() (s types.Specifier) { r.fill(s[:]); return }

func (r *rng) hashes(n int) []types.Hash256 {
	if n == 0 {
		return nil
	}
	hs := make([]types.Hash256, n)
	b := unsafe.Slice((*byte)(unsafe.Pointer(&hs[0])), n*32)
	r.fill(b)
	return hs
}

// cur draws a currency of a random bit length (0..128 bits).
func (r *rng) cur() types.Currency {
	bl := r.intn(129)
	lo, hi := r.u64(), r.u64()
	switch {
	case bl == 0:
		return types.ZeroCurrency
	case bl <= 64:
		return types.NewCurrency(lo>>(64-uint(bl)), 0)
	default:
		return types.NewCurrency(lo, hi>>(128-uint(bl)))
	}
}

func (r *rng) curNZ() types.Currency {
	c := r.cur()
	if c.IsZero() {
		return types.NewCurrency64(1)
	}
	return c
}

func (r *rng) curs(n int) []types.Currency {
	if n == 0 {
		return nil
	}
	cs := make([]types.Currency, n)
	for i := range cs {
		cs[i] = r.cur()
	}
	return cs
}

// stamp is a whole-second time somewhere in 1970..2500.
func (r *rng) stamp() time.Time { return time.Unix(int64(r.u64()%(1<<34)), 0) }

// year2100 is 2100-01-01T00:00:00Z; every expiry consulted against the wall clock by
// a Validate method is drawn at or after it.
const year2100 = 4102444800

func (r *rng) future() time.Time { return time.Unix(year2100+int64(r.intn(1<<28)), 0) }

func (r *rng) str(n int) string {
	const alpha = "abcdefghijklmnopqrstuvwxyz0123456789 .:-_/"
	b := make([]byte, n)
	for i := range b {
		b[i] = alpha[r.intn(len(alpha))]
	}
	return string(b)
}

func keyFromSeed(seed uint64, salt string) types.PrivateKey {
	var s [32]byte
	newRng(seed, "key/"+salt).fill(s[:])
	return types.NewPrivateKeyFromSeed(s[:])
}

// ---- normalised equality (DESIGN.md Appendix C) ----------------------------------------------

var timeType = reflect.TypeOf(time.Time{})

// normEqual reports whether a and b are equal up to: nil slice == empty slice, and
// times compared by Unix seconds. Everything else (including unexported fields) must
// match exactly. On difference the path of the first differing component is returned.
func normEqual(a, b any) (bool, string) {
	va, vb := reflect.ValueOf(a), reflect.ValueOf(b)
	if va.IsValid() != vb.IsValid() {
		return false, "<validity>"
	}
	if !va.IsValid() {
		return true, ""
	}
	if va.Type() != vb.Type() {
		return false, fmt.Sprintf("<type %v vs %v>", va.Type(), vb.Type())
	}
	return normEq(va, vb, "")
}

func plainBytes(v reflect.Value, elem reflect.Type) ([]byte, bool) {
	// Fast path for big slices of padding-free fixed-size elements.
	n := v.Len()
	if n == 0 {
		return nil, true
	}
	var size int
	switch {
	case elem.Kind() == reflect.Array && elem.Elem().Kind() == reflect.Uint8:
		size = elem.Len()
	case elem.Kind() == reflect.Uint8 || elem.Kind() == reflect.Bool:
		size = 1
	case elem.Kind() == reflect.Uint64:
		size = 8
	default:
		return nil, false
	}
	if size == 0 {
		return nil, true
	}
	return unsafe.Slice((*byte)(v.UnsafePointer()), n*size), true
}

func normEq(a, b reflect.Value, path string) (bool, string) {
	t := a.Type()
	switch a.Kind() {
	case reflect.Bool:
		if a.Bool() != b.Bool() {
			return false, path
		}
	case reflect.Int, reflect.Int8, reflect.Int16, reflect.Int32, reflect.Int64:
		if a.Int() != b.Int() {
			return false, path
		}
	case reflect.Uint, reflect.Uint8, reflect.Uint16, reflect.Uint32, reflect.Uint64, reflect.Uintptr:
		if a.Uint() != b.Uint() {
			return false, path
		}
	case reflect.String:
		if a.String() != b.String() {
			return false, path
		}
	case reflect.Slice:
		if a.Len() != b.Len() { // nil == empty
			return false, fmt.Sprintf("%s<len %d vs %d>", path, a.Len(), b.Len())
		}
		if a.Len() == 0 {
			return true, ""
		}
		if ab, ok := plainBytes(a, t.Elem()); ok {
			bb, _ := plainBytes(b, t.Elem())
			if !bytes.Equal(ab, bb) {
				return false, path + "[...]"
			}
			return true, ""
		}
		for i := 0; i < a.Len(); i++ {
			if ok, p := normEq(a.Index(i), b.Index(i), fmt.Sprintf("%s[%d]", path, i)); !ok {
				return false, p
			}
		}
	case reflect.Array:
		for i := 0; i < a.Len(); i++ {
			if ok, p := normEq(a.Index(i), b.Index(i), fmt.Sprintf("%s[%d]", path, i)); !ok {
				return false, p
			}
		}
	case reflect.Struct:
		if t.ConvertibleTo(timeType) && a.CanInterface() {
			ta := a.Convert(timeType).Interface().(time.Time)
			tb := b.Convert(timeType).Interface().(time.Time)
			if ta.Unix() != tb.Unix() {
				return false, fmt.Sprintf("%s<time %d vs %d>", path, ta.Unix(), tb.Unix())
			}
			return true, ""
		}
		for i := 0; i < a.NumField(); i++ {
			if ok, p := normEq(a.Field(i), b.Field(i), path+"."+t.Field(i).Name); !ok {
				return false, p
			}
		}
	case reflect.Pointer, reflect.Interface:
		if a.IsNil() != b.IsNil() {
			return false, path + "<nil-ness>"
		}
		if a.IsNil() {
			return true, ""
		}
		ea, eb := a.Elem(), b.Elem()
		if ea.Type() != eb.Type() {
			return false, fmt.Sprintf("%s<dynamic type %v vs %v>", path, ea.Type(), eb.Type())
		}
		return normEq(ea, eb, path)
	default:
		if !reflect.DeepEqual(a.Interface(), b.Interface()) {
			return false, path
		}
	}
	return true, ""
}

// ---- builders for consensus objects ---------------------------------------------------------

func (r *rng) unlockKey() types.UnlockKey {
	return types.UnlockKey{Algorithm: types.SpecifierEd25519, Key: r.bytes(32)}
}

func (r *rng) unlockConditions() types.UnlockConditions {
	n := r.rangeInt(1, 3)
	uc := types.UnlockConditions{Timelock: r.u64() % 1000, SignaturesRequired: uint64(r.rangeInt(1, n))}
	for i := 0; i < n; i++ {
		uc.PublicKeys = append(uc.PublicKeys, r.unlockKey())
	}
	return uc
}

func (r *rng) sco() types.SiacoinOutput {
	return types.SiacoinOutput{Value: r.cur(), Address: r.addr()}
}

func (r *rng) scos(n int) []types.SiacoinOutput {
	var out []types.SiacoinOutput
	for i := 0; i < n; i++ {
		out = append(out, r.sco())
	}
	return out
}

func (r *rng) v1Input() types.SiacoinInput {
	return types.SiacoinInput{ParentID: types.SiacoinOutputID(r.hash()), UnlockConditions: r.unlockConditions()}
}

func (r *rng) v1Contract() types.FileContract {
	return types.FileContract{
		Filesize: r.u64(), FileMerkleRoot: r.hash(), WindowStart: r.u64(), WindowEnd: r.u64(), Payout: r.cur(),
		ValidProofOutputs: r.scos(2), MissedProofOutputs: r.scos(3), UnlockHash: r.addr(), RevisionNumber: r.u64(),
	}
}

// v1Revision sets Payout to the sentinel every decoder writes (Appendix C).
func (r *rng) v1Revision() types.FileContractRevision {
	fc := r.v1Contract()
	fc.Payout = types.NewCurrency(^uint64(0), ^uint64(0))
	return types.FileContractRevision{ParentID: types.FileContractID(r.hash()), UnlockConditions: r.unlockConditions(), FileContract: fc}
}

func (r *rng) txnSig() types.TransactionSignature {
	ts := types.TransactionSignature{ParentID: r.hash(), PublicKeyIndex: r.u64() % 4, Timelock: r.u64() % 100, Signature: r.bytes(64)}
	if r.bool() {
		ts.CoveredFields.WholeTransaction = true
	} else {
		ts.CoveredFields.SiacoinInputs = []uint64{0}
		ts.CoveredFields.FileContractRevisions = []uint64{0, 1}
		ts.CoveredFields.Signatures = []uint64{r.u64() % 8}
	}
	return ts
}

func (r *rng) txnSigs(n int) []types.TransactionSignature {
	var out []types.TransactionSignature
	for i := 0; i < n; i++ {
		out = append(out, r.txnSig())
	}
	return out
}

// v1Txn builds a v1 transaction touching every field kind; size scales the slices.
func (r *rng) v1Txn(size int) types.Transaction {
	var txn types.Transaction
	for i := 0; i < 1+size; i++ {
		txn.SiacoinInputs = append(txn.SiacoinInputs, r.v1Input())
		txn.SiacoinOutputs = append(txn.SiacoinOutputs, r.sco())
		txn.Signatures = append(txn.Signatures, r.txnSig())
	}
	if r.bool() {
		txn.FileContracts = append(txn.FileContracts, r.v1Contract())
	}
	if r.bool() {
		txn.FileContractRevisions = append(txn.FileContractRevisions, r.v1Revision())
	}
	if r.bool() {
		sp := types.StorageProof{ParentID: types.FileContractID(r.hash()), Proof: r.hashes(r.intn(12))}
		r.fill(sp.Leaf[:])
		txn.StorageProofs = append(txn.StorageProofs, sp)
	}
	if r.bool() {
		txn.SiafundInputs = append(txn.SiafundInputs, types.SiafundInput{ParentID: types.SiafundOutputID(r.hash()), UnlockConditions: r.unlockConditions(), ClaimAddress: r.addr()})
		txn.SiafundOutputs = append(txn.SiafundOutputs, types.SiafundOutput{Value: r.u64() % 10000, Address: r.addr()})
	}
	if r.bool() {
		txn.MinerFees = r.curs(r.rangeInt(1, 2))
	}
	if r.bool() {
		txn.ArbitraryData = [][]byte{r.bytes(r.rangeInt(1, 64)), r.bytes(r.rangeInt(1, 8))}
	}
	return txn
}

func (r *rng) v1Txns(n, size int) []types.Transaction {
	var out []types.Transaction
	for i := 0; i < n; i++ {
		out = append(out, r.v1Txn(size))
	}
	return out
}

// policy builds a spend policy of the given kind with matching witness data.
func (r *rng) satisfied(kind int) types.SatisfiedPolicy {
	switch kind % 7 {
	case 0:
		return types.SatisfiedPolicy{Policy: types.PolicyPublicKey(types.PublicKey(r.hash())), Signatures: []types.Signature{r.sig()}}
	case 1:
		return types.SatisfiedPolicy{Policy: types.PolicyAbove(r.u64() % 1000000)}
	case 2:
		return types.SatisfiedPolicy{Policy: types.PolicyAfter(r.stamp())}
	case 3:
		return types.SatisfiedPolicy{Policy: types.PolicyHash(r.hash()), Preimages: [][32]byte{r.hash()}}
	case 4:
		return types.SatisfiedPolicy{
			Policy: types.PolicyThreshold(2, []types.SpendPolicy{
				types.PolicyPublicKey(types.PublicKey(r.hash())),
				types.PolicyPublicKey(types.PublicKey(r.hash())),
				types.PolicyThreshold(1, []types.SpendPolicy{types.PolicyHash(r.hash()), types.PolicyOpaque(types.PolicyAbove(7))}),
			}),
			Signatures: []types.Signature{r.sig(), r.sig()},
			Preimages:  [][32]byte{r.hash()},
		}
	case 5:
		return types.SatisfiedPolicy{Policy: types.SpendPolicy{Type: types.PolicyTypeUnlockConditions(r.unlockConditions())}, Signatures: []types.Signature{r.sig()}}
	default:
		return types.SatisfiedPolicy{Policy: types.PolicyOpaque(types.PolicyPublicKey(types.PublicKey(r.hash())))}
	}
}

func (r *rng) satisfieds(n int) []types.SatisfiedPolicy {
	var out []types.SatisfiedPolicy
	for i := 0; i < n; i++ {
		out = append(out, r.satisfied(r.intn(7)))
	}
	return out
}

// sce builds a siacoin element with a Merkle proof of the given depth (depth < 0: an
// ephemeral element without a leaf index).
func (r *rng) sce(depth int) types.SiacoinElement {
	e := types.SiacoinElement{ID: types.SiacoinOutputID(r.hash()), SiacoinOutput: r.sco(), MaturityHeight: r.u64() % 1000000}
	if depth < 0 {
		e.StateElement.LeafIndex = types.UnassignedLeafIndex
		return e
	}
	e.StateElement.LeafIndex = r.u64()
	if depth < 64 {
		e.StateElement.LeafIndex %= 1 << uint(depth)
	}
	e.StateElement.MerkleProof = r.hashes(depth)
	return e
}

func (r *rng) sces(n, depth int) []types.SiacoinElement {
	var out []types.SiacoinElement
	for i := 0; i < n; i++ {
		out = append(out, r.sce(depth))
	}
	return out
}

func (r *rng) v2Inputs(n, depth int) []types.V2SiacoinInput {
	var out []types.V2SiacoinInput
	for i := 0; i < n; i++ {
		out = append(out, types.V2SiacoinInput{Parent: r.sce(depth), SatisfiedPolicy: r.satisfied(r.intn(7))})
	}
	return out
}

func (r *rng) v2Contract() types.V2FileContract {
	return types.V2FileContract{
		Capacity: r.u64(), Filesize: r.u64(), FileMerkleRoot: r.hash(), ProofHeight: r.u64(), ExpirationHeight: r.u64(),
		RenterOutput: r.sco(), HostOutput: r.sco(), MissedHostValue: r.cur(), TotalCollateral: r.cur(),
		RenterPublicKey: types.PublicKey(r.hash()), HostPublicKey: types.PublicKey(r.hash()), RevisionNumber: r.u64(),
		RenterSignature: r.sig(), HostSignature: r.sig(),
	}
}

func (r *rng) v2ContractElement(depth int) types.V2FileContractElement {
	e := types.V2FileContractElement{ID: types.FileContractID(r.hash()), V2FileContract: r.v2Contract()}
	e.StateElement.LeafIndex = r.u64() % (1 << uint(depth))
	e.StateElement.MerkleProof = r.hashes(depth)
	return e
}

// v2Txn builds a v2 transaction. nIn inputs carry proofs of the given depth; rich adds
// contracts, revisions, resolutions of every kind, attestations, arbitrary data and a
// foundation address. It is only used where proofs are encoded individually (not
// through a multiproof, which needs proofs valid for one accumulator: see v2TxnTree).
func (r *rng) v2Txn(nIn, depth int, rich bool) types.V2Transaction {
	txn := types.V2Transaction{SiacoinInputs: r.v2Inputs(nIn, depth), SiacoinOutputs: r.scos(2), MinerFee: r.cur()}
	if !rich {
		return txn
	}
	if r.bool() {
		sfe := types.SiafundElement{ID: types.SiafundOutputID(r.hash()), SiafundOutput: types.SiafundOutput{Value: r.u64() % 10000, Address: r.addr()}, ClaimStart: r.cur()}
		sfe.StateElement.LeafIndex = r.u64() % (1 << uint(depth))
		sfe.StateElement.MerkleProof = r.hashes(depth)
		txn.SiafundInputs = []types.V2SiafundInput{{Parent: sfe, ClaimAddress: r.addr(), SatisfiedPolicy: r.satisfied(0)}}
		txn.SiafundOutputs = []types.SiafundOutput{{Value: r.u64() % 10000, Address: r.addr()}}
	}
	if r.bool() {
		txn.FileContracts = []types.V2FileContract{r.v2Contract()}
	}
	if r.bool() {
		txn.FileContractRevisions = []types.V2FileContractRevision{{Parent: r.v2ContractElement(depth), Revision: r.v2Contract()}}
	}
	if r.bool() {
		var res types.V2FileContractResolutionType
		switch r.intn(3) {
		case 0:
			res = &types.V2FileContractRenewal{FinalRenterOutput: r.sco(), FinalHostOutput: r.sco(), RenterRollover: r.cur(), HostRollover: r.cur(),
				NewContract: r.v2Contract(), RenterSignature: r.sig(), HostSignature: r.sig()}
		case 1:
			sp := &types.V2StorageProof{Proof: r.hashes(r.intn(20))}
			sp.ProofIndex.ID = types.BlockID(r.hash())
			sp.ProofIndex.ChainIndex = types.ChainIndex{Height: r.u64() % 1000000, ID: sp.ProofIndex.ID}
			sp.ProofIndex.StateElement.LeafIndex = r.u64() % (1 << uint(depth))
			sp.ProofIndex.StateElement.MerkleProof = r.hashes(depth)
			r.fill(sp.Leaf[:])
			res = sp
		default:
			res = &types.V2FileContractExpiration{}
		}
		txn.FileContractResolutions = []types.V2FileContractResolution{{Parent: r.v2ContractElement(depth), Resolution: res}}
	}
	if r.bool() {
		txn.Attestations = []types.Attestation{{PublicKey: types.PublicKey(r.hash()), Key: r.str(r.rangeInt(1, 20)), Value: r.bytes(r.rangeInt(1, 40)), Signature: r.sig()}}
	}
	if r.bool() {
		txn.ArbitraryData = r.bytes(r.rangeInt(1, 100))
	}
	if r.bool() {
		a := r.addr()
		txn.NewFoundationAddress = &a
	}
	return txn
}

func (r *rng) v2Txns(n, nIn, depth int, rich bool) []types.V2Transaction {
	var out []types.V2Transaction
	for i := 0; i < n; i++ {
		out = append(out, r.v2Txn(nIn, depth, rich))
	}
	return out
}

func encLen(v types.EncoderTo) int { return len(encBytes(v)) }

func encBytes(v types.EncoderTo) []byte {
	var buf bytes.Buffer
	e := types.NewEncoder(&buf)
	v.EncodeTo(e)
	e.Flush()
	return buf.Bytes()
}
