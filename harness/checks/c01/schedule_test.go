package c01

import (
	"fmt"
	"math/big"
	"testing"
	"time"

	"go.sia.tech/core/consensus"
	"go.sia.tech/core/types"
	"pgregory.net/rapid"
	"verif/harness/ref"
	"verif/harness/stats"
)

// The schedule functions behind C01 (block reward, Foundation subsidy, v1 and v2 contract tax, maturity height) are pure
// functions of the state's height and the network parameters. The chain units reach them only at the heights a simulated
// chain can reach (below ~100) on scaled-down networks; this unit evaluates them directly at every height — mainnet-sized
// ones, the points where the reward reaches its floor, the 32-bit edge of the height, multiples of the subsidy period — and
// for payouts on every currency edge, against the big-integer reference (ref/schedule.go) that the ledger oracle uses.

// SchedCase is one state/network configuration plus one contract payout.
type SchedCase struct {
	Height       uint64 `json:"height"` // Index.Height of the state; the functions speak about the child
	InitialSC    uint64 `json:"initialSC"`
	MinimumSC    uint64 `json:"minimumSC"`
	ExtraH       uint64 `json:"extraH"` // hastings added to both coinbase values (not a whole number of siacoins)
	IntervalSec  int64  `json:"intervalSec"`
	FoundationH  uint64 `json:"foundationHeight"`
	SubsidyVoid  bool   `json:"subsidyVoid"`
	PrimaryVoid  bool   `json:"primaryVoid"`
	TaxH         uint64 `json:"taxHeight"`
	Delay        uint64 `json:"maturityDelay"`
	PayoutLo     uint64 `json:"payoutLo"`
	PayoutHi     uint64 `json:"payoutHi"`
	RenterLo     uint64 `json:"renterLo"`
	RenterHi     uint64 `json:"renterHi"`
	HostLo       uint64 `json:"hostLo"`
	HostHi       uint64 `json:"hostHi"`
	HeightIsEdge string `json:"edge"`
}

func drawU64Edge(t *rapid.T, name string) uint64 {
	switch rapid.IntRange(0, 5).Draw(t, name+"Kind") {
	case 0:
		return uint64(rapid.IntRange(0, 300).Draw(t, name))
	case 1:
		k := rapid.IntRange(1, 63).Draw(t, name+"Bit")
		return (uint64(1) << k) + uint64(rapid.IntRange(-2, 2).Draw(t, name+"Off"))
	case 2:
		return ^uint64(0) - uint64(rapid.IntRange(0, 3).Draw(t, name))
	default:
		return rapid.Uint64().Draw(t, name)
	}
}

func drawSched(t *rapid.T) SchedCase {
	c := SchedCase{}
	if rapid.Bool().Draw(t, "mainnetCoinbase") {
		c.InitialSC, c.MinimumSC = 300000, 30000
	} else {
		c.InitialSC = uint64(rapid.IntRange(0, 400000).Draw(t, "initialSC"))
		c.MinimumSC = uint64(rapid.IntRange(0, 400000).Draw(t, "minimumSC"))
		if rapid.IntRange(0, 3).Draw(t, "extraH") == 0 {
			c.ExtraH = rapid.Uint64Range(1, 999999999999).Draw(t, "extra")
		}
	}
	c.IntervalSec = rapid.SampledFrom([]int64{600, 600, 1, 7, 60, 3600, 86400, 864000, 2592000, 31536000 / 12}).Draw(t, "interval")
	c.FoundationH = rapid.SampledFrom([]uint64{0, 1, 10, 298000, 1 << 32}).Draw(t, "foundationHeight")
	c.TaxH = rapid.SampledFrom([]uint64{0, 2, 21000, 1 << 33}).Draw(t, "taxHeight")
	c.Delay = rapid.SampledFrom([]uint64{0, 1, 144, 1 << 20}).Draw(t, "delay")
	c.SubsidyVoid = rapid.IntRange(0, 4).Draw(t, "subsidyVoid") == 0
	c.PrimaryVoid = rapid.IntRange(0, 4).Draw(t, "primaryVoid") == 0
	perYear := uint64(365 * 24 * time.Hour / (time.Duration(c.IntervalSec) * time.Second))
	perMonth := perYear / 12
	// the child height to look at
	var child uint64
	kind := rapid.IntRange(0, 7).Draw(t, "heightKind")
	switch kind {
	case 0: // where the reward reaches its floor
		child = c.InitialSC - min(c.InitialSC, c.MinimumSC) + uint64(rapid.IntRange(0, 4).Draw(t, "off")) - 2
		c.HeightIsEdge = "reward-floor"
	case 1: // subsidy heights and their neighbours
		if perMonth > 0 {
			child = c.FoundationH + perMonth*uint64(rapid.IntRange(0, 40).Draw(t, "months")) + uint64(rapid.IntRange(0, 2).Draw(t, "off")) - 1
			c.HeightIsEdge = "subsidy-period"
		}
	case 2: // the 32-bit edge of the height (siacoin amounts are formed from a uint32)
		child = (uint64(rapid.IntRange(1, 3).Draw(t, "wraps")) << 32) + uint64(rapid.IntRange(0, 4).Draw(t, "off")) - 2
		c.HeightIsEdge = "height-2^32"
	case 3: // fork heights
		child = rapid.SampledFrom([]uint64{c.FoundationH, c.TaxH}).Draw(t, "fork") + uint64(rapid.IntRange(0, 2).Draw(t, "off")) - 1
		c.HeightIsEdge = "fork"
	case 4: // mainnet today
		child = uint64(rapid.IntRange(200000, 700000).Draw(t, "mainnetHeight"))
		c.HeightIsEdge = "mainnet-range"
	default:
		child = drawU64Edge(t, "height")
	}
	c.Height = child - 1 // wraps to 2^64-1 for child 0: the state before genesis
	c.PayoutLo, c.PayoutHi = drawU64Edge(t, "payoutLo"), 0
	if rapid.Bool().Draw(t, "bigPayout") {
		c.PayoutHi = drawU64Edge(t, "payoutHi")
	}
	c.RenterLo, c.HostLo = drawU64Edge(t, "renterLo"), drawU64Edge(t, "hostLo")
	if rapid.Bool().Draw(t, "bigV2") {
		c.RenterHi, c.HostHi = drawU64Edge(t, "renterHi")>>1, drawU64Edge(t, "hostHi")>>1 // the sum fits 128 bits
	}
	return c
}

func checkSched(c SchedCase) error {
	rec := stats.G()
	fail := func(key, format string, args ...any) error {
		return stats.Failf("C01/schedule/"+key, "%+v: %s", c, fmt.Sprintf(format, args...))
	}
	coin := func(sc, extra uint64) types.Currency {
		v, _ := ref.Cur(new(big.Int).Add(ref.SC(sc), new(big.Int).SetUint64(extra)))
		return v
	}
	n := &consensus.Network{Name: "sched", InitialCoinbase: coin(c.InitialSC, c.ExtraH), MinimumCoinbase: coin(c.MinimumSC, c.ExtraH),
		BlockInterval: time.Duration(c.IntervalSec) * time.Second, MaturityDelay: c.Delay}
	n.HardforkFoundation.Height, n.HardforkTax.Height = c.FoundationH, c.TaxH
	addr := types.Address{0xF0, 0x0D}
	n.HardforkFoundation.PrimaryAddress = addr
	if c.PrimaryVoid {
		n.HardforkFoundation.PrimaryAddress = types.VoidAddress
	}
	s := consensus.State{Network: n, Index: types.ChainIndex{Height: c.Height}, FoundationSubsidyAddress: addr}
	if c.SubsidyVoid {
		s.FoundationSubsidyAddress = types.VoidAddress
	}
	child := c.Height + 1

	// block reward: initial coinbase minus one siacoin per child height (counted as a 32-bit number), never below the minimum
	if got, want := ref.Big(s.BlockReward()), ref.BlockReward(n.InitialCoinbase, n.MinimumCoinbase, child); got.Cmp(want) != 0 {
		return fail("block-reward", "BlockReward at child height %d = %v, reference %v", child, got, want)
	}
	// Foundation subsidy: decided by the state's current subsidy address, not by the network's primary address
	wantSub, wantOK := ref.FoundationSubsidy(child, c.FoundationH, n.BlockInterval, c.SubsidyVoid)
	gotSub, gotOK := s.FoundationSubsidy()
	if gotOK != wantOK {
		return fail("subsidy", "FoundationSubsidy at child height %d exists=%v, reference %v", child, gotOK, wantOK)
	}
	if gotOK && (ref.Big(gotSub.Value).Cmp(wantSub) != 0 || gotSub.Address != s.FoundationSubsidyAddress) {
		return fail("subsidy", "FoundationSubsidy at child height %d = %v to %v, reference %v to %v", child, gotSub.Value, gotSub.Address, wantSub, s.FoundationSubsidyAddress)
	}
	// maturity
	if got := s.MaturityHeight(); got != child+c.Delay {
		return fail("maturity", "MaturityHeight at child height %d with delay %d = %d", child, c.Delay, got)
	}
	// v1 tax: era by the child height
	payout := types.NewCurrency(c.PayoutLo, c.PayoutHi)
	if got, want := ref.Big(s.FileContractTax(types.FileContract{Payout: payout})), ref.TaxV1(payout, child < c.TaxH); got.Cmp(want) != 0 {
		return fail("tax-v1", "FileContractTax(%v) at child height %d (fork %d) = %v, reference %v", payout, child, c.TaxH, got, want)
	}
	// v2 tax
	renter, host := types.NewCurrency(c.RenterLo, c.RenterHi), types.NewCurrency(c.HostLo, c.HostHi)
	fc := types.V2FileContract{RenterOutput: types.SiacoinOutput{Value: renter}, HostOutput: types.SiacoinOutput{Value: host}}
	if got, want := ref.Big(s.V2FileContractTax(fc)), ref.TaxV2(renter, host); got.Cmp(want) != 0 {
		return fail("tax-v2", "V2FileContractTax(%v + %v) = %v, reference %v", renter, host, got, want)
	}
	labels := []string{"sched"}
	if c.HeightIsEdge != "" {
		labels = append(labels, "sched-height:"+c.HeightIsEdge)
	}
	if wantOK {
		labels = append(labels, "sched:subsidy-paid")
	}
	if c.SubsidyVoid != c.PrimaryVoid {
		labels = append(labels, "sched:subsidy-address-differs-from-primary")
	}
	floor := ref.BlockReward(n.InitialCoinbase, n.MinimumCoinbase, child).Cmp(ref.Big(n.MinimumCoinbase)) == 0
	if floor {
		labels = append(labels, "sched:reward-at-floor")
	}
	nt := c.HeightIsEdge != "" || child > 1000
	rec.Case(stats.FP("sched", c), nt, labels...)
	if rec.WantSample() {
		rec.Sample(nt, c)
	}
	return nil
}

func TestSchedule(t *testing.T)       { stats.Prop(t, drawSched, checkSched) }
func TestReplaySchedule(t *testing.T) { stats.Replay(t, "TestSchedule", checkSched) }
