// C01 — No value is created or destroyed: siacoin supply conservation, constant
// siafunds, exact siafund claims, fees reappear in the miner payout.
//
// Domain: whole valid chains on random network configurations (all eras compressed into a
// few dozen blocks), every transaction kind, reorgs; every prefix is checked.
// Oracle: (1) the ledger model's per-block expectation (built from the actions the
// generator chose, big-integer arithmetic, own subsidy/tax/claim rules) must equal the
// library's diffs in both directions; (2) conservation: sum over the client store (built
// from diffs only) + unclaimed pool + forfeited == genesis allocation + scheduled subsidies.
package c01

import (
	"fmt"
	"math/big"
	"strings"
	"testing"

	"go.sia.tech/core/consensus"
	"go.sia.tech/core/types"
	"pgregory.net/rapid"
	"verif/harness/ref"
	"verif/harness/sim"
	"verif/harness/stats"
)

func TestMain(m *testing.M) { stats.Main(m) }

func draw(t *rapid.T) sim.ChainCase {
	max := 45
	if stats.Thorough() {
		max = 90
	}
	g := sim.GenChain(t, sim.GenOpts{
		Net:       sim.NetOpts{MaxForkHeight: rapid.SampledFrom([]int{6, 12, 25, 40}).Draw(t, "forkSpan"), V2Only: rapid.IntRange(0, 5).Draw(t, "v2only") == 0},
		MinBlocks: 8, MaxBlocks: max, Reorgs: true, Profile: sim.Profile{Contracts: rapid.IntRange(0, 2).Draw(t, "contractWeight")},
		OnBlock: func(g *sim.Gen, b *sim.Builder) {
			sim.SameBlockScenarios(g, b)
			// the block in which the ephemeral-parent rules switch on carries a siafund transfer and a payment, so
			// that the inflation probes below have something to build on exactly at that height
			if e := g.C.Net.HardforkV2.EphemeralOutputHeight; b.Child == e || b.Child == e+1 {
				b.AfterV1(func() {
					b.V2Siafunds()
					b.V2Pay()
				})
			}
		},
		BeforeApply: func(g *sim.Gen, honest types.Block, bs consensus.V1BlockSupplement) {
			// siblings whose outputs are padded with values that cancel in wrapping arithmetic, or that spend an
			// output of the block while claiming twice its value: whatever validation accepts of them must conserve
			// value (accepted => sound)
			e := g.C.Net.HardforkV2.EphemeralOutputHeight
			child := g.C.Height() + 1
			revises := false // blocks that revise a v2 contract are always probed (a revision may shift what a later expiry pays)
			for _, txn := range honest.V2Transactions() {
				revises = revises || len(txn.FileContractRevisions) > 0
			}
			if len(honest.Transactions)+len(honest.V2Transactions()) > 0 && (child == e || child == e+1 || revises || rapid.IntRange(0, 3).Draw(g.T, "wrapProbes") == 0) {
				g.NewAdv(honest).InflationProbes()
			}
		},
	})
	c, err := g.Case.Normalize()
	if err != nil {
		panic(err)
	}
	return c
}

// totals at one height
type totals struct {
	supply    *big.Int // genesis allocation + scheduled subsidies up to this height
	tax       *big.Int // total tax collected (ledger)
	claims    *big.Int // total claim outputs paid (ledger)
	forfeited *big.Int
}

func check(c sim.ChainCase) error {
	rec := stats.G()
	var hist []totals // hist[h]
	labels := map[string]bool{}
	erasCrossed := map[string]bool{}
	resolutions, claims, maxReorg := 0, 0, 0
	pendingRevert := 0

	conservation := func(ch *sim.Chain) error {
		h := ch.Height()
		tt := hist[h]
		locked := sim.Locked(ch.Store)
		unclaimed := new(big.Int).Sub(tt.tax, tt.claims)
		lhs := new(big.Int).Add(locked, unclaimed)
		lhs.Add(lhs, tt.forfeited)
		if lhs.Cmp(tt.supply) != 0 {
			return stats.Failf("C01/conservation", "height %d: outputs+contracts %s + unclaimed pool %s + forfeited %s = %s, but genesis+subsidies = %s (difference %s)",
				h, locked, unclaimed, tt.forfeited, lhs, tt.supply, new(big.Int).Sub(lhs, tt.supply))
		}
		sf := new(big.Int) // no wrap-around in the oracle's own sum
		for _, e := range ch.Store.SF {
			sf.Add(sf, new(big.Int).SetUint64(e.SiafundOutput.Value))
		}
		if sf.Cmp(big.NewInt(10000)) != 0 {
			return stats.Failf("C01/siafund-count", "height %d: %d siafunds in unspent outputs, want 10000", h, sf)
		}
		if got := ref.Big(ch.Tip().SiafundTaxRevenue); got.Cmp(tt.tax) != 0 {
			return stats.Failf("C01/tax-revenue", "height %d: State.SiafundTaxRevenue = %s, ledger collected %s", h, got, tt.tax)
		}
		return nil
	}

	wrapProbes := 0
	hooks := sim.Hooks{
		Probe: func(ch *sim.Chain, st *sim.Step) error {
			if st.Want != "sound" {
				return fmt.Errorf("harness: unknown want %q", st.Want)
			}
			accepted, serr := sim.SoundApply(ch, *st.Block, *st.Supp, false)
			if serr != nil {
				return stats.Failf("C01/"+st.Label, "%s at height %d: %v", st.Label, ch.Height()+1, serr)
			}
			wrapProbes++
			verdict := "rejected"
			if accepted {
				verdict = "accepted-and-sound"
			} else if verr := consensus.ValidateBlock(ch.Tip(), *st.Block, *st.Supp); verr != nil {
				// the reason is recorded so that the evidence shows which guard refused the padded outputs
				msg := verr.Error()
				for _, k := range []string{"overflow", "exceed", "do not equal", "not equal", "invalid"} {
					if strings.Contains(msg, k) {
						verdict = "rejected:" + k
						break
					}
				}
			}
			rec.Label("probe:" + st.Label + ":" + verdict)
			return nil
		},
		Genesis: func(ch *sim.Chain, au consensus.ApplyUpdate) error {
			supply := new(big.Int)
			for _, d := range au.SiacoinElementDiffs() {
				// genesis allocation = whatever genesis creates; the Foundation subsidy at height 0 is checked against the schedule
				supply.Add(supply, ref.Big(d.SiacoinElement.SiacoinOutput.Value))
			}
			alloc := new(big.Int)
			for _, txn := range c.Genesis.Transactions {
				for _, o := range txn.SiacoinOutputs {
					alloc.Add(alloc, ref.Big(o.Value))
				}
			}
			if sub, ok := ref.FoundationSubsidy(0, c.Network.HardforkFoundation.Height, c.Network.BlockInterval, c.Network.HardforkFoundation.PrimaryAddress == types.VoidAddress); ok {
				alloc.Add(alloc, sub)
			}
			if alloc.Cmp(supply) != 0 {
				return stats.Failf("C01/genesis", "genesis created %s, allocation+scheduled subsidy is %s", supply, alloc)
			}
			hist = []totals{{supply: alloc, tax: new(big.Int), claims: new(big.Int), forfeited: new(big.Int)}}
			return conservation(ch)
		},
		AfterApply: func(ch *sim.Chain, st *sim.Step, parent consensus.State, au consensus.ApplyUpdate) error {
			pendingRevert = 0
			if st.Expect == nil {
				return fmt.Errorf("harness: apply step without expectation")
			}
			if err := st.Expect.Compare(au); err != nil {
				return stats.Failf("C01/ledger", "%v", err)
			}
			h := ch.Height()
			prev := hist[h-1]
			tt := totals{supply: new(big.Int).Set(prev.supply), tax: new(big.Int).Set(prev.tax), claims: new(big.Int).Set(prev.claims), forfeited: new(big.Int).Set(prev.forfeited)}
			tt.supply.Add(tt.supply, ref.BlockReward(c.Network.InitialCoinbase, c.Network.MinimumCoinbase, h))
			if sub, ok := ref.FoundationSubsidy(h, c.Network.HardforkFoundation.Height, c.Network.BlockInterval, parent.FoundationSubsidyAddress == types.VoidAddress); ok {
				tt.supply.Add(tt.supply, sub)
			}
			tt.tax.Add(tt.tax, ref.Big(st.Expect.TaxAdded))
			tt.forfeited.Add(tt.forfeited, ref.Big(st.Expect.Forfeited))
			for _, x := range st.Expect.CreatedSC {
				if x.Why == "v1 siafund claim" || x.Why == "v2 siafund claim" {
					tt.claims.Add(tt.claims, ref.Big(x.Value))
					claims++
				}
			}
			for _, cx := range st.Expect.Contracts {
				if cx.Resolved != "" {
					resolutions++
				}
			}
			hist = append(hist[:h], tt)
			for _, l := range st.Expect.Labels {
				labels[l] = true
			}
			erasCrossed[era(c.Network, h)] = true
			return conservation(ch)
		},
		AfterRevert: func(ch *sim.Chain, st *sim.Step, b types.Block, bs consensus.V1BlockSupplement, ru consensus.RevertUpdate) error {
			pendingRevert++
			if pendingRevert > maxReorg {
				maxReorg = pendingRevert
			}
			hist = hist[:ch.Height()+1]
			return conservation(ch)
		},
	}
	ch, err := sim.Replay(c, hooks)
	if err != nil {
		if _, ok := err.(*stats.Failure); ok {
			return err
		}
		return stats.Failf("C01/replay", "%v", err)
	}
	nontrivial := (resolutions > 0 || claims > 0) && len(erasCrossed) >= 2
	var ls []string
	for l := range labels {
		ls = append(ls, l)
	}
	ls = append(ls, fmt.Sprintf("eras-crossed:%d", len(erasCrossed)), fmt.Sprintf("reorg-depth:%d", maxReorg))
	if claims > 0 {
		ls = append(ls, "has-claim")
	}
	if resolutions > 0 {
		ls = append(ls, "has-resolution")
	}
	tip := ch.Tip().Index.ID
	rec.Case(stats.FP(tip[:], len(c.Steps)), nontrivial, ls...)
	rec.Extra("blocks_applied", uint64(len(c.Steps)))
	rec.Extra("wrap_probes", uint64(wrapProbes))
	if rec.WantSample() {
		rec.Sample(nontrivial, map[string]any{"height": ch.Height(), "steps": len(c.Steps), "labels": ls, "forks": forkHeights(c.Network)})
	}
	return nil
}

func era(n *consensus.Network, h uint64) string {
	switch {
	case h >= n.HardforkV2.FinalCutHeight:
		return "finalcut"
	case h >= n.HardforkV2.RequireHeight:
		return "v2-only"
	case h >= n.HardforkV2.AllowHeight:
		return "mixed"
	case h >= n.HardforkFoundation.Height:
		return "foundation"
	case h >= n.HardforkASIC.Height:
		return "asic"
	case h >= n.HardforkOak.Height:
		return "oak"
	case h >= n.HardforkStorageProof.Height:
		return "storageproof"
	case h >= n.HardforkTax.Height:
		return "tax"
	}
	return "early"
}

func forkHeights(n *consensus.Network) []uint64 {
	return []uint64{n.HardforkDevAddr.Height, n.HardforkTax.Height, n.HardforkStorageProof.Height, n.HardforkOak.Height, n.HardforkOak.FixHeight, n.HardforkASIC.Height,
		n.HardforkFoundation.Height, n.HardforkV2.AllowHeight, n.HardforkV2.RequireHeight, n.HardforkV2.FinalCutHeight, n.HardforkV2.EphemeralOutputHeight}
}

func TestChains(t *testing.T) { stats.Prop(t, draw, check) }

func TestReplayChains(t *testing.T) { stats.Replay(t, "TestChains", check) }
