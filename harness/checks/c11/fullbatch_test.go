package c11

import (
	"bytes"
	"encoding/binary"
	"encoding/json"
	"fmt"
	"reflect"
	"sort"
	"testing"
	"time"

	rhp2 "go.sia.tech/core/rhp/v2"
	rhp4 "go.sia.tech/core/rhp/v4"
	"pgregory.net/rapid"

	"verif/harness/gen"
	"verif/harness/stats"
)

// Full batches. The generated values of TestValues carry short lists; the rhp v4 transport reads every object
// through a per-type byte limit, so "decode(encode(v)) == v for every wire object" also has to hold for the largest
// objects the protocol's own validation admits: a request or response whose batch list has exactly the documented
// maximum number of elements (or one or two fewer) must come back equal through WriteRequest/ReadRequest or
// WriteResponse/ReadResponse, with every byte consumed and an identical re-encoding. The limits below are the
// documented constants (rhp4.MaxAccountBatchSize, rhp4.MaxSectorBatchSize) that the Validate methods enforce,
// never the codec's own maxLen.

type batchField struct {
	Field string
	Max   int
}

var fullBatches = map[string][]batchField{
	"rhp4.RPCReplenishAccountsRequest":  {{"Accounts", rhp4.MaxAccountBatchSize}},
	"rhp4.RPCReplenishAccountsResponse": {{"Deposits", rhp4.MaxAccountBatchSize}},
	"rhp4.RPCFundAccountsRequest":       {{"Deposits", rhp4.MaxAccountBatchSize}},
	"rhp4.RPCFundAccountsResponse":      {{"Balances", rhp4.MaxAccountBatchSize}},
	"rhp4.RPCAttachPoolsRequest":        {{"Attachments", rhp4.MaxAccountBatchSize}},
	"rhp4.RPCDetachPoolsRequest":        {{"Detachments", rhp4.MaxAccountBatchSize}},
	"rhp4.RPCFreeSectorsRequest":        {{"Indices", rhp4.MaxSectorBatchSize}},
	"rhp4.RPCAppendSectorsRequest":      {{"Sectors", rhp4.MaxSectorBatchSize}},
	// a response to a full append: one flag per sector, at most 64 subtree roots
	"rhp4.RPCAppendSectorsResponse": {{"Accepted", rhp4.MaxSectorBatchSize}, {"SubtreeRoots", 64}},
	// a response to a full roots request: the roots and a range proof of at most 2*64 hashes
	"rhp4.RPCSectorRootsResponse": {{"Roots", rhp4.MaxSectorBatchSize}, {"Proof", 128}},
	// rhp v2: a read section never spans more than one sector, and a whole sector is the common case
	"rhp2.RPCReadResponse": {{"Data", rhp2.SectorSize}, {"MerkleProof", 32}},
}

// FullCase is a base value of one entry (short lists, generated) whose batch fields are then stretched
// deterministically from Seed to Max-Below elements.
type FullCase struct {
	Entry string          `json:"entry"`
	Seed  uint64          `json:"seed"`
	Below int             `json:"below"`
	Value json.RawMessage `json:"value"`

	live reflect.Value
}

// MarshalJSON dumps the live base value lazily (only failing cases are serialised).
func (c FullCase) MarshalJSON() ([]byte, error) {
	type plain FullCase
	p := plain(c)
	if p.Value == nil && c.live.IsValid() {
		p.Value = gen.DumpJSON(c.live)
	}
	return json.Marshal(p)
}

func (c *FullCase) UnmarshalJSON(b []byte) error {
	type plain FullCase
	var p plain
	if err := json.Unmarshal(b, &p); err != nil {
		return err
	}
	*c = FullCase(p)
	return nil
}

func fullEntries() []*gen.Entry {
	var out []*gen.Entry
	for _, e := range gen.Registry() {
		if _, ok := fullBatches[e.Name]; ok {
			out = append(out, e)
		}
	}
	sort.Slice(out, func(i, j int) bool { return out[i].Name < out[j].Name })
	idx, n := stats.Shard()
	var mine []*gen.Entry
	for i, e := range out {
		if i%n == idx%len(out) || n > len(out) && i == idx%len(out) {
			mine = append(mine, e)
		}
	}
	if len(mine) == 0 {
		mine = out
	}
	return mine
}

func drawFull(t *rapid.T) FullCase {
	es := fullEntries()
	e := es[uniform(t, len(es))]
	v := gen.Value(t, e.Type, gen.Opts{})
	below := rapid.SampledFrom([]int{0, 0, 0, 1, 2, 7, 33}).Draw(t, "below")
	return FullCase{Entry: e.Name, Seed: rapid.Uint64().Draw(t, "seed"), live: v, Below: below}
}

// fill sets v (an element of a batch list) to a pseudo-random value of its type.
func fill(v reflect.Value, s *uint64) {
	switch v.Kind() {
	case reflect.Bool:
		v.SetBool(splitmix(s)&1 == 1)
	case reflect.Uint64, reflect.Uint32, reflect.Uint16, reflect.Uint8:
		v.SetUint(splitmix(s) >> (64 - v.Type().Bits()))
	case reflect.Array:
		for i := 0; i < v.Len(); i++ {
			fill(v.Index(i), s)
		}
	case reflect.Struct:
		if v.Type() == reflect.TypeOf(time.Time{}) {
			v.Set(reflect.ValueOf(time.Unix(int64(splitmix(s)%(1<<33)), 0)))
			return
		}
		for i := 0; i < v.NumField(); i++ {
			if v.Type().Field(i).PkgPath == "" {
				fill(v.Field(i), s)
			}
		}
	default:
		panic(fmt.Sprintf("harness: fill does not know %v", v.Type()))
	}
}

func checkFull(c FullCase) error {
	rec := stats.G()
	e := gen.Lookup(c.Entry)
	fields, ok := fullBatches[c.Entry]
	if e == nil || !ok {
		return stats.Failf("", "harness: %q is not a full-batch entry", c.Entry)
	}
	v, err := Case{Entry: c.Entry, Seed: c.Seed, Value: c.Value, live: c.live}.value(e.Type)
	if err != nil {
		return stats.Failf("", "harness: %v", err)
	}
	seed := c.Seed
	total := 0
	for _, f := range fields {
		n := f.Max - c.Below
		if n < 0 {
			n = 0
		}
		fv := v.FieldByName(f.Field)
		if !fv.IsValid() || fv.Kind() != reflect.Slice {
			return stats.Failf("", "harness: %s has no list %s", c.Entry, f.Field)
		}
		s := reflect.MakeSlice(fv.Type(), n, n)
		if fv.Type().Elem().Kind() == reflect.Uint8 {
			raw := s.Bytes()
			for i := 0; i+8 <= len(raw); i += 8 {
				binary.LittleEndian.PutUint64(raw[i:], splitmix(&seed))
			}
			for i := len(raw) &^ 7; i < len(raw); i++ {
				raw[i] = byte(splitmix(&seed))
			}
		} else {
			for i := 0; i < n; i++ {
				fill(s.Index(i), &seed)
			}
		}
		fv.Set(s)
		total += n
	}
	key := func(kind string) string { return "C11/" + kind + "/" + e.Name }
	what := fmt.Sprintf("%s with %d below the documented batch maximum (%d list elements)", e.Name, c.Below, total)
	enc, err, panicked := safeEncode(e, v)
	if panicked || err != nil {
		return stats.Failf(key("full-batch"), "%s: encoding failed: %v", what, err)
	}
	d, perr := safeDecode(e, enc, v)
	if perr != nil {
		return stats.Failf(key("full-batch"), "%s: decoding its own encoding (%d bytes) panicked: %v", what, len(enc), perr)
	}
	if d.Err != nil {
		return stats.Failf(key("full-batch"), "%s: decoding its own encoding (%d bytes) failed: %v", what, len(enc), d.Err)
	}
	if d.Consumed >= 0 && d.Consumed != len(enc) {
		return stats.Failf(key("full-batch"), "%s: decoder consumed %d of %d bytes", what, d.Consumed, len(enc))
	}
	if diff := gen.Diff(e.Project(v), e.Project(d.V)); diff != "" {
		return stats.Failf(key("full-batch"), "%s: decode(encode(v)) != v: %s", what, diff)
	}
	enc2, err, panicked := safeEncode(e, d.V)
	if panicked || err != nil || !bytes.Equal(enc, enc2) {
		return stats.Failf(key("full-batch"), "%s: re-encoding the decoded value differs at byte %d (err %v)", what, firstDiff(enc, enc2), err)
	}
	rec.Case(stats.FP(e.Name, c.Below, c.Seed), true, "full-batch:"+e.Name, fmt.Sprintf("full-batch-below:%d", c.Below))
	return nil
}

func TestFullBatch(t *testing.T)       { stats.Prop(t, drawFull, checkFull) }
func TestReplayFullBatch(t *testing.T) { stats.Replay(t, "TestFullBatch", checkFull) }
