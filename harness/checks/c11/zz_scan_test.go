package c11

import (
	"bytes"
	"sort"
	"testing"

	"pgregory.net/rapid"
	"verif/harness/gen"
)

func TestZZScanReuse(t *testing.T) {
	bad := map[string]string{}
	for _, e := range gen.Registry() {
		e := e
		rapid.Check(t, func(rt *rapid.T) {
			v := gen.Value(rt, e.Type, gen.Opts{})
			enc, err, p := safeEncode(e, v)
			if err != nil || p {
				return
			}
			menc, merr, mp := safeEncode(e, gen.Minimal(e.Type))
			if merr != nil || mp || bytes.Equal(menc, enc) {
				return
			}
			if herr := gen.ReuseReceiver(e, enc, menc); herr != nil {
				bad[e.Name] = herr.Error()
			}
			if herr := gen.ReuseReceiver(e, menc, enc); herr != nil {
				bad[e.Name+" (min first)"] = herr.Error()
			}
		})
	}
	var names []string
	for n := range bad {
		names = append(names, n)
	}
	sort.Strings(names)
	for _, n := range names {
		t.Logf("BAD %s: %.160s", n, bad[n])
	}
}
