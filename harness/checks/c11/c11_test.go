// C11 — binary encoding round-trips, is canonical, field-complete, wire-format exact.
//
// For every registry type (verif/harness/gen: types, consensus, gateway via a real
// gateway.Stream against a hand-written mux peer, rhp v2/v3 EncodeTo/DecodeFrom,
// rhp v4 through Write/ReadRequest/Response) and for generated values of it:
//
//	(1) Norm(decode(encode(v))) == Norm(v), and the decoder consumes every byte
//	(2) encode(decode(encode(v))) == encode(v); two encodings of v are identical
//	    (TestConcurrent: also when several goroutines encode the same value, under -race)
//	(3) every leaf path's minimal mutation changes the bytes, except the documented
//	    non-transmitted set (gen.NotTransmitted)
//	(4) every proper prefix of encode(v) fails to decode (all prefixes up to 4 KiB, sampled beyond)
//	(5) encode(v) == gen.RefEncode(v) for the consensus-critical set, and IDs / addresses /
//	    block IDs recomputed from the reference layout with x/crypto/blake2b equal the library's
//	    (TestDerived), anchored on the repo's golden vectors (TestGolden)
//
// plus a completeness guard (TestRegistry: go/parser scan of the repo for codec methods).
//
// Sensitivity (tools/with_mutant.sh <patch> -- ./run C11 quick; wall seconds of the whole
// sharded run on a machine loaded by other builders, the first counterexample is usually
// found within the first 1-100 cases of a shard):
//
//	M01 FileContract WindowStart/WindowEnd swapped in encoder+decoder ........ killed (layout)        62 s
//	M02 V2FileContract.TotalCollateral dropped on both sides ................. killed (layout/roundtrip) 42 s
//	M03 rhp3 PayByEphemeralAccountRequest.Priority dropped on both sides ..... killed (fields/roundtrip) 60 s
//	M04 every uint64 big-endian on both sides ................................ killed (golden/layout)  52 s
//	M05 v2 currency Hi before Lo on both sides ............................... killed (golden/layout)  61 s
//	M06 TransactionSignature.Signature without length prefix, both sides ..... killed (roundtrip/layout) 72 s
//	M07 Decoder.Read swallows a short final read ............................. killed (truncation)     37 s
//	M08 v2 txn bitmap: foundation address reuses the arbitrary-data bit ...... killed (roundtrip)      66 s
//	M09 v1 currency not trimmed (accepted by the decoder) .................... killed (golden/layout)  64 s
//	M10 State always carries 11 timestamps, both sides ....................... killed (layout)         79 s
//	M11 gateway RPCSendHeaders response drops Remaining, both sides .......... killed (fields/roundtrip) 88 s
//	M12 rhp4 RPCReadSectorRequest decoder forgets Offset ..................... killed (roundtrip)      65 s
//	M13 multiproof numLeaves inference wrong ................................. killed (roundtrip)      76 s
//	M14 V2TransactionSemantics omits attestations ............................ killed (derived ID)    135 s
//	M15 v2 SiacoinOutputID uses the siafund distinguisher .................... killed (derived ID)     85 s
//	M16 resolution tags 0/1 swapped on both sides ............................ killed (layout)         72 s
//	M17 policy opcodes hash/opaque swapped on both sides ..................... killed (golden/layout)  112 s
//	M18 DecodeSlice keeps a partial list without error ....................... killed (truncation)     55 s
//	M19 ChainIndex ID before Height on both sides ............................ killed (layout)         79 s
//	M20 v1 siafund output without trailing claim start, both sides ........... killed (golden/layout)  81 s
//	M21 accumulator trees selected by the wrong bit, both sides .............. killed (layout)         80 s
//	M22 unlock-hash first leaf uses SignaturesRequired ....................... killed (golden/derived) 50 s
//	M23 multiproof encoder without DeepCopy (encoding mutates the value) ..... killed (determinism)    81 s
//	M24 v1 currency decoder rejects 16-byte values ........................... killed (roundtrip)      73 s
//	M26 State timestamp count by height instead of child height .............. killed (layout)         38 s
//	M27 times in milliseconds on both sides .................................. killed (layout)         52 s
//	M28 threshold child count takes two bytes on both sides .................. killed (golden/layout)  43 s
//	M29 rhp3 Account decoder no longer maps the empty key to ZeroAccount ..... killed (roundtrip)      50 s
//	S01 rhp4 HostPrices Storage/Ingress swapped on both sides ................ survived: symmetric re-ordering of a
//	    non-consensus-critical object is outside the property (layout is only claimed for the critical set)
//	S02 FileContractRevision decoder does not store the sentinel payout ...... survived: the payout is a documented
//	    normalisation (compared as the sentinel on both sides), the property does not claim the sentinel itself
package c11

import (
	"bytes"
	"encoding/hex"
	"encoding/json"
	"fmt"
	"io"
	"reflect"
	"runtime"
	"sort"
	"strings"
	"sync"
	"testing"

	"go.sia.tech/core/types"
	"pgregory.net/rapid"
	"verif/harness/gen"
	"verif/harness/stats"
)

func TestMain(m *testing.M) { stats.Main(m) }

// Case is one generated value of one registry entry. The value travels as a
// library-independent tree (gen.Dump) so that a replay never passes through the
// codec under test before the check starts.
type Case struct {
	Entry string          `json:"entry"`
	Seed  uint64          `json:"seed"` // drives path sampling, mutation choice and prefix sampling
	Value json.RawMessage `json:"value"`

	live reflect.Value // the generated value itself when the case comes straight from draw
}

type caseJSON struct {
	Entry string          `json:"entry"`
	Seed  uint64          `json:"seed"`
	Value json.RawMessage `json:"value"`
}

// MarshalJSON dumps the live value lazily (only failing cases are serialised).
func (c Case) MarshalJSON() ([]byte, error) {
	v := c.Value
	if v == nil && c.live.IsValid() {
		v = gen.DumpJSON(c.live)
	}
	return json.Marshal(caseJSON{c.Entry, c.Seed, v})
}

func (c *Case) UnmarshalJSON(b []byte) error {
	var j caseJSON
	if err := json.Unmarshal(b, &j); err != nil {
		return err
	}
	*c = Case{Entry: j.Entry, Seed: j.Seed, Value: j.Value}
	return nil
}

// value returns an addressable copy of the case's value.
func (c Case) value(t reflect.Type) (reflect.Value, error) {
	if c.live.IsValid() {
		v := reflect.New(t).Elem()
		v.Set(c.live)
		return v, nil
	}
	return gen.LoadJSON(t, c.Value)
}

func myEntries() []*gen.Entry {
	all := gen.Registry()
	idx, n := stats.Shard()
	var mine []*gen.Entry
	for i, e := range all {
		if i%n == idx {
			mine = append(mine, e)
		}
	}
	if only := stats.EnvInt("C11_ONLY", -1); only >= 0 && only < len(all) {
		return []*gen.Entry{all[only]}
	}
	return mine
}

func genOpts() gen.Opts {
	o := gen.Opts{}
	if stats.Thorough() {
		o.Fuel = 60
		o.BigLen = 24
	}
	return o
}

func drawFor(entries []*gen.Entry) func(t *rapid.T) Case {
	return func(t *rapid.T) Case {
		e := entries[uniform(t, len(entries))]
		v := gen.Value(t, e.Type, genOpts())
		c := Case{Entry: e.Name, Seed: rapid.Uint64().Draw(t, "seed"), live: v}
		if c.Seed%8 == 0 {
			// harness self-check: the replay form reproduces the value exactly
			back, err := gen.LoadJSON(e.Type, gen.DumpJSON(v))
			if err != nil {
				t.Fatalf("harness: snapshot of %s does not load: %v", e.Name, err)
			}
			if !reflect.DeepEqual(back.Interface(), v.Interface()) {
				t.Fatalf("harness: snapshot of %s does not reproduce the value: %s", e.Name, gen.Diff(v, back))
			}
		}
		return c
	}
}

// uniform draws an index in [0, n) from fair coin flips: rapid's integer
// generators favour small values, which would starve most registry entries.
func uniform(t *rapid.T, n int) int {
	x := 0
	for try := 0; try < 6; try++ {
		x = 0
		for b := 1; b < n; b <<= 1 {
			x <<= 1
			if rapid.Bool().Draw(t, "u") {
				x |= 1
			}
		}
		if x < n {
			return x
		}
	}
	return x % n
}

func splitmix(x *uint64) uint64 {
	*x += 0x9E3779B97F4A7C15
	z := *x
	z = (z ^ (z >> 30)) * 0xBF58476D1CE4E5B9
	z = (z ^ (z >> 27)) * 0x94D049BB133111EB
	return z ^ (z >> 31)
}

func hx(b []byte) string {
	if len(b) > 96 {
		return hex.EncodeToString(b[:96]) + fmt.Sprintf("...(%d bytes)", len(b))
	}
	return hex.EncodeToString(b)
}

func firstDiff(a, b []byte) int {
	n := min(len(a), len(b))
	for i := 0; i < n; i++ {
		if a[i] != b[i] {
			return i
		}
	}
	return n
}

// safeEncode runs the library encoder, converting a panic into an error.
// observingWriter looks at the caller's value each time the encoder writes (up to budget times).
type observingWriter struct {
	look    func() bool
	budget  int
	writes  int
	changed int // first write at which the value looked different
}

func (w *observingWriter) Write(p []byte) (int, error) {
	w.writes++
	if w.writes <= w.budget && w.changed == 0 && !w.look() {
		w.changed = w.writes
	}
	return len(p), nil
}

// piecewiseReader returns its data one byte, or a pseudo-random short piece (1..200 bytes), per Read call.
type piecewiseReader struct {
	data    []byte
	seed    uint64
	oneByte bool
}

func (r *piecewiseReader) Read(p []byte) (int, error) {
	if len(r.data) == 0 {
		return 0, io.EOF
	}
	n := 1
	if !r.oneByte {
		n = 1 + int(splitmix(&r.seed)%200)
	}
	n = min(n, len(p), len(r.data))
	copy(p, r.data[:n])
	r.data = r.data[n:]
	return n, nil
}

func safeEncode(e *gen.Entry, v reflect.Value) (b []byte, err error, panicked bool) {
	p, stack := stats.NoPanic(func() { b, err = e.Encode(v) })
	if p != nil {
		return nil, fmt.Errorf("panic: %v\n%s", p, stack), true
	}
	return b, err, false
}

func safeDecode(e *gen.Entry, b []byte, hint reflect.Value) (d gen.Decoded, perr error) {
	p, stack := stats.NoPanic(func() { d = e.Decode(b, hint) })
	if p != nil {
		return d, fmt.Errorf("panic: %v\n%s", p, stack)
	}
	return d, nil
}

type shape struct {
	slices, emptySlices, nilSlices int
	boundaryCurrency               bool
	ptrs, nilPtrs                  int
}

var tCurrency = reflect.TypeOf(types.Currency{})

func isBoundary(c types.Currency) bool {
	switch {
	case c.Hi == 0 && (c.Lo <= 1 || c.Lo == ^uint64(0)):
		return true
	case c.Lo == 0 && (c.Hi == 1 || c.Hi == 1<<63):
		return true
	case c.Lo == ^uint64(0) && (c.Hi == ^uint64(0) || c.Hi == ^uint64(0)>>1):
		return true
	}
	return false
}

func shapeOf(v reflect.Value, s *shape) {
	t := v.Type()
	if t.ConvertibleTo(tCurrency) && t.Kind() == reflect.Struct && t.NumField() == 2 && t.Field(0).Name == "Lo" {
		if isBoundary(v.Convert(tCurrency).Interface().(types.Currency)) {
			s.boundaryCurrency = true
		}
		return
	}
	switch t.Kind() {
	case reflect.Struct:
		for i := 0; i < t.NumField(); i++ {
			if t.Field(i).PkgPath == "" {
				shapeOf(v.Field(i), s)
			}
		}
	case reflect.Slice:
		s.slices++
		if v.IsNil() {
			s.nilSlices++
		}
		if v.Len() == 0 {
			s.emptySlices++
		}
		if t.Elem().Kind() != reflect.Uint8 {
			for i := 0; i < v.Len(); i++ {
				shapeOf(v.Index(i), s)
			}
		}
	case reflect.Array:
		if t.Elem().Kind() != reflect.Uint8 && v.Len() <= 16 {
			for i := 0; i < v.Len(); i++ {
				shapeOf(v.Index(i), s)
			}
		}
	case reflect.Pointer:
		s.ptrs++
		if v.IsNil() {
			s.nilPtrs++
		} else {
			shapeOf(v.Elem(), s)
		}
	case reflect.Interface:
		if !v.IsNil() && t.String() != "error" {
			e := v.Elem()
			if e.Kind() == reflect.Pointer {
				if !e.IsNil() {
					shapeOf(e.Elem(), s)
				}
			} else {
				shapeOf(e, s)
			}
		}
	}
}

const fullPrefixLimit = 4096

// checkValue is the pure checker for properties (1)-(5) on one value.
func checkValue(c Case) error {
	rec := stats.G()
	e := gen.Lookup(c.Entry)
	if e == nil {
		return stats.Failf("", "harness: unknown registry entry %q", c.Entry)
	}
	v, err := c.value(e.Type)
	if err != nil {
		return stats.Failf("", "harness: %v", err)
	}
	key := func(kind string) string { return "C11/" + kind + "/" + e.Name }
	seed := c.Seed

	enc, err, panicked := safeEncode(e, v)
	if panicked || err != nil {
		return stats.Failf(key("encode"), "%s: encoding a generated value failed: %v", e.Name, err)
	}
	if limit, bounded := e.LimitFor(v); bounded && len(enc) > limit {
		// larger than what the library's read function accepts by design: out of domain
		rec.Case(stats.FP(e.Name, enc), false, "out-of-domain:oversize")
		return nil
	}

	// (2a) determinism
	enc2, err, panicked := safeEncode(e, v)
	if panicked || err != nil {
		return stats.Failf(key("encode"), "%s: second encoding failed: %v", e.Name, err)
	}
	if !bytes.Equal(enc, enc2) {
		return stats.Failf(key("determinism"), "%s: two encodings of the same value differ at byte %d:\n %s\n %s", e.Name, firstDiff(enc, enc2), hx(enc), hx(enc2))
	}

	// (2b) encoding only reads: at every moment the encoder hands bytes on (an encoding longer than its buffer goes
	// out in pieces), the value is the one that was passed in
	if len(enc) > 1024 {
		var et types.EncoderTo
		if x, ok := v.Interface().(types.EncoderTo); ok {
			et = x
		} else {
			p := reflect.New(e.Type)
			p.Elem().Set(v)
			et, _ = p.Interface().(types.EncoderTo)
		}
		if et != nil {
			snap := gen.DumpJSON(v)
			w := &observingWriter{look: func() bool { return bytes.Equal(gen.DumpJSON(v), snap) }, budget: 2}
			if p, _ := stats.NoPanic(func() {
				en := types.NewEncoder(w)
				et.EncodeTo(en)
				en.Flush()
			}); p == nil && w.changed > 0 {
				return stats.Failf(key("encode-modifies-value"), "%s: while EncodeTo was writing (write #%d of %d) the value was not the one passed in", e.Name, w.changed, w.writes)
			}
			rec.Label("observed-during-encoding")
		}
	}

	// (1c) a decoder reads from whatever io.Reader it is given: a connection hands a message over in pieces of any size.
	// Where the entry's wire form is the value's own EncodeTo, decoding it from a reader that returns one byte, or
	// arbitrary short pieces, per call gives the value that decoding from memory gives (compared by re-encoding).
	if len(enc) > 0 {
		p := reflect.New(e.Type)
		p.Elem().Set(v)
		et, isEnc := p.Interface().(types.EncoderTo)
		_, isDec := p.Interface().(types.DecoderFrom)
		if isEnc && isDec {
			var own bytes.Buffer
			if pp, _ := stats.NoPanic(func() {
				en := types.NewEncoder(&own)
				et.EncodeTo(en)
				en.Flush()
			}); pp == nil && bytes.Equal(own.Bytes(), enc) {
				for _, mode := range []string{"one-byte", "pieces"} {
					q := reflect.New(e.Type)
					r := &piecewiseReader{data: enc, seed: seed ^ 0xC11, oneByte: mode == "one-byte"}
					d := types.NewDecoder(io.LimitedReader{R: r, N: int64(len(enc))})
					if pp, stack := stats.NoPanic(func() { q.Interface().(types.DecoderFrom).DecodeFrom(d) }); pp != nil {
						return stats.Failf(key("piecewise-reader"), "%s: decoding from a reader that returns %s per call panicked: %v\n%s", e.Name, mode, pp, stack)
					}
					if d.Err() != nil {
						return stats.Failf(key("piecewise-reader"), "%s: decoding its own encoding (%d bytes) from a reader that returns %s per call failed: %v", e.Name, len(enc), mode, d.Err())
					}
					var again bytes.Buffer
					en := types.NewEncoder(&again)
					q.Interface().(types.EncoderTo).EncodeTo(en)
					en.Flush()
					if !bytes.Equal(again.Bytes(), enc) {
						return stats.Failf(key("piecewise-reader"), "%s: the value decoded from a reader that returns %s per call re-encodes differently at byte %d", e.Name, mode, firstDiff(again.Bytes(), enc))
					}
				}
				rec.Label("decoded-from-piecewise-reader")
				// and from a byte slice the caller goes on using (NewBufDecoder): the decoded value must not live in it
				{
					wire := append([]byte(nil), enc...)
					q := reflect.New(e.Type)
					d := types.NewBufDecoder(wire)
					if pp, stack := stats.NoPanic(func() { q.Interface().(types.DecoderFrom).DecodeFrom(d) }); pp != nil {
						return stats.Failf(key("buf-decoder"), "%s: decoding from a byte slice panicked: %v\n%s", e.Name, pp, stack)
					}
					if d.Err() != nil {
						return stats.Failf(key("buf-decoder"), "%s: decoding its own encoding (%d bytes) from a byte slice failed: %v", e.Name, len(enc), d.Err())
					}
					for i := range wire {
						wire[i] ^= 0xA5
					}
					var again bytes.Buffer
					en := types.NewEncoder(&again)
					q.Interface().(types.EncoderTo).EncodeTo(en)
					en.Flush()
					if !bytes.Equal(again.Bytes(), enc) {
						return stats.Failf(key("decoded-aliases-input"), "%s: after the byte slice it was decoded from was overwritten, the decoded value encodes differently (byte %d of %d)", e.Name, firstDiff(again.Bytes(), enc), len(enc))
					}
				}
			}
		}
	}

	// (5) layout
	if e.Critical {
		ref, ok := gen.RefEncode(v.Interface())
		if !ok {
			return stats.Failf("", "harness: %s flagged critical but RefEncode does not know it", e.Name)
		}
		if !bytes.Equal(enc, ref) {
			return stats.Failf(key("layout"), "%s: encoding differs from the reference layout at byte %d (len %d vs %d):\n lib %s\n ref %s",
				e.Name, firstDiff(enc, ref), len(enc), len(ref), hx(enc), hx(ref))
		}
		rec.Extra("layout-compared", 1)
	}

	// (1) round trip
	want := e.Project(v)
	if len(enc) > 0 || !e.Slow {
		wire := append([]byte(nil), enc...) // the receive buffer: the caller's, and reused for the next message
		d, perr := safeDecode(e, wire, v)
		if perr != nil {
			return stats.Failf(key("roundtrip"), "%s: decoding its own encoding panicked: %v\n enc %s", e.Name, perr, hx(enc))
		}
		if d.Err != nil {
			return stats.Failf(key("roundtrip"), "%s: decoding its own encoding failed: %v\n enc %s", e.Name, d.Err, hx(enc))
		}
		if d.Consumed >= 0 && d.Consumed != len(enc) {
			return stats.Failf(key("roundtrip"), "%s: decoder consumed %d of %d bytes\n enc %s", e.Name, d.Consumed, len(enc), hx(enc))
		}
		got := e.Project(d.V)
		if diff := gen.Diff(want, got); diff != "" {
			return stats.Failf(key("roundtrip"), "%s: decode(encode(v)) != v (after documented normalisations): %s\n enc %s", e.Name, diff, hx(enc))
		}
		// (1b) the decoded value owns its memory: no list whose spare capacity covers another list's elements
		// (the library itself appends to decoded Merkle proofs in UpdateElementProof)
		if herr := gen.AppendHazard(d.V); herr != nil {
			return stats.Failf(key("decoded-aliasing"), "%s: the decoded value is equal now but aliases itself: %v\n enc %s", e.Name, herr, hx(enc))
		}
		if herr := gen.SharedMark(d.V); herr != nil {
			return stats.Failf(key("shared-mark"), "%s: %v\n enc %s", e.Name, herr, hx(enc))
		}
		// (2b) canonical re-encoding
		enc3, err, panicked := safeEncode(e, d.V)
		if panicked || err != nil {
			return stats.Failf(key("canonical"), "%s: re-encoding the decoded value failed: %v", e.Name, err)
		}
		if !bytes.Equal(enc3, enc) {
			return stats.Failf(key("canonical"), "%s: encode(decode(encode(v))) differs at byte %d:\n first  %s\n second %s", e.Name, firstDiff(enc, enc3), hx(enc), hx(enc3))
		}
		// (1d) the decoded value does not live in the buffer it was decoded from: the next message overwrites that buffer
		for i := range wire {
			wire[i] ^= 0xA5
		}
		if enc4, err, panicked := safeEncode(e, d.V); panicked || err != nil || !bytes.Equal(enc4, enc) {
			return stats.Failf(key("decoded-aliases-input"), "%s: after the buffer it was decoded from was overwritten, the decoded value encodes differently (byte %d of %d; err %v)", e.Name, firstDiff(enc, enc4), len(enc), err)
		}
	}

	// (3) field completeness
	paths := gen.Fields(v)
	budget := 16
	if stats.Thorough() {
		budget = 40
	}
	if e.Slow {
		budget /= 4
	}
	order := make([]int, len(paths))
	for i := range order {
		order[i] = i
	}
	if len(paths) > budget { // deterministic sample driven by the case seed
		for i := range order {
			j := i + int(splitmix(&seed)%uint64(len(order)-i))
			order[i], order[j] = order[j], order[i]
		}
		order = order[:budget]
		sort.Ints(order)
	}
	mutated := 0
	for _, pi := range order {
		p := paths[pi]
		if nt, _ := gen.NotTransmitted(e, v, p); nt {
			rec.Extra("fields-not-transmitted-skipped", 1)
			continue
		}
		m := reflect.New(e.Type).Elem()
		m.Set(v)
		if err := gen.MutateAt(m, p, splitmix(&seed)); err != nil {
			return stats.Failf("", "harness: mutate %s at %s: %v", e.Name, p, err)
		}
		if reflect.DeepEqual(m.Interface(), v.Interface()) {
			return stats.Failf("", "harness: mutation of %s at %s is a no-op", e.Name, p)
		}
		menc, err, panicked := safeEncode(e, m)
		if panicked {
			// the mutated value left the encoder's documented domain (programmer-error panics)
			rec.Label("mutant-encode-panic:" + e.Name + ":" + p.Shape())
			continue
		}
		if err != nil {
			return stats.Failf(key("fields"), "%s: encoding after mutating %s failed: %v", e.Name, p, err)
		}
		mutated++
		if bytes.Equal(menc, enc) {
			return stats.Failf(key("fields"), "%s: field %s does not influence the encoding (minimal mutation left %d bytes unchanged)\n enc %s", e.Name, p, len(enc), hx(enc))
		}
		// (3b) a decoded value is independent of what is decoded into the same variable afterwards: the value is
		// decoded into a variable, a copy of the variable is kept (sharing its lists, as an element of a longer-lived
		// structure would), the minimally different encoding is decoded into the same variable, and the kept copy
		// must still be the first value. (No decoder of the library writes into memory of the receiver's old value.)
		if mutated <= 2 {
			if herr := gen.ReuseReceiver(e, enc, menc); herr != nil {
				return stats.Failf(key("receiver-reuse"), "%s: %v (second encoding differs at %s)", e.Name, herr, p)
			}
		}
	}
	rec.Extra("field-mutations", uint64(mutated))
	// (3c) the same with a second message of another shape: the smallest value of the type decoded into a variable that
	// holds this (usually longer) one must give exactly the smallest value, lists and byte strings cut back included
	if menc, merr, mp := safeEncode(e, gen.Minimal(e.Type)); merr == nil && !mp && !bytes.Equal(menc, enc) {
		if herr := gen.ReuseReceiver(e, enc, menc); herr != nil {
			return stats.Failf(key("receiver-reuse"), "%s: %v (second message: the type's smallest value)", e.Name, herr)
		}
		if herr := gen.ReuseReceiver(e, menc, enc); herr != nil {
			return stats.Failf(key("receiver-reuse"), "%s: %v (first message: the type's smallest value)", e.Name, herr)
		}
	}

	// (4) truncation
	nprefix := 0
	if len(enc) > 0 {
		var cuts []int
		limit := fullPrefixLimit
		sample := 256
		if e.Slow {
			limit, sample = 0, 10
			if stats.Thorough() {
				sample = 24
			}
		}
		if len(enc) <= limit {
			for i := 0; i < len(enc); i++ {
				cuts = append(cuts, i)
			}
		} else {
			seen := map[int]bool{}
			add := func(i int) {
				if i >= 0 && i < len(enc) && !seen[i] && !(e.Slow && i == 0) {
					seen[i] = true
					cuts = append(cuts, i)
				}
			}
			for _, i := range []int{0, 1, 7, 8, 9, len(enc) - 1, len(enc) - 2, len(enc) - 8, len(enc) - 9, len(enc) - 33, len(enc) / 2} {
				add(i)
			}
			for len(cuts) < sample && len(cuts) < len(enc)-1 {
				add(int(splitmix(&seed) % uint64(len(enc))))
			}
		}
		known := stats.KnownOpen(key("truncation"))
		var ms0 runtime.MemStats
		measure := len(enc) > 64 && seed%16 == 0
		if measure {
			runtime.ReadMemStats(&ms0)
		}
		for _, i := range cuts {
			if known {
				rec.Excluded(key("truncation"))
				break
			}
			d, perr := safeDecode(e, enc[:i], v)
			if perr != nil {
				return stats.Failf(key("truncation"), "%s: decoding the %d-byte prefix of a %d-byte encoding panicked: %v\n enc %s", e.Name, i, len(enc), perr, hx(enc))
			}
			if d.Err == nil {
				return stats.Failf(key("truncation"), "%s: the %d-byte prefix of a %d-byte encoding decodes without error (partial value returned)\n enc %s", e.Name, i, len(enc), hx(enc))
			}
			nprefix++
		}
		if measure && nprefix > 0 {
			var ms1 runtime.MemStats
			runtime.ReadMemStats(&ms1)
			// every prefix decode may allocate about what the full decode does (a few
			// times len(enc)); flag three orders of magnitude more than that
			perDecode := (ms1.TotalAlloc - ms0.TotalAlloc) / uint64(nprefix)
			if bound := uint64(1<<20 + 2048*len(enc)); perDecode > bound {
				return stats.Failf(key("truncation"), "%s: decoding prefixes of a %d-byte encoding allocated %d bytes per call (bound %d)\n enc %s", e.Name, len(enc), perDecode, bound, hx(enc))
			}
		}
		rec.Extra("prefixes-checked", uint64(nprefix))
	}

	// evidence
	var sh shape
	shapeOf(v, &sh)
	nontrivial := len(enc) > 0 && !reflect.DeepEqual(gen.Norm(want).Interface(), gen.Norm(e.Project(gen.Minimal(e.Type))).Interface())
	labels := []string{"pkg:" + e.Pkg, "entry:" + e.Name}
	if sh.slices > 0 && sh.emptySlices == 0 {
		labels = append(labels, "all-slices-nonempty")
	}
	if sh.nilSlices > 0 {
		labels = append(labels, "has-nil-slice")
	}
	if sh.emptySlices > sh.nilSlices {
		labels = append(labels, "has-empty-nonnil-slice")
	}
	if sh.boundaryCurrency {
		labels = append(labels, "boundary-currency")
	}
	if e.Critical {
		labels = append(labels, "layout-checked")
	}
	switch {
	case len(enc) == 0:
		labels = append(labels, "enc:empty")
	case len(enc) <= 64:
		labels = append(labels, "enc:<=64B")
	case len(enc) <= 1024:
		labels = append(labels, "enc:<=1KiB")
	case len(enc) <= fullPrefixLimit:
		labels = append(labels, "enc:<=4KiB(all prefixes)")
	default:
		labels = append(labels, "enc:>4KiB(sampled prefixes)")
	}
	rec.Case(stats.FP(e.Name, enc), nontrivial, labels...)
	rec.Extra("bytes-encoded", uint64(len(enc)))
	if nontrivial && rec.WantSample() && len(enc) < 400 {
		rec.Sample(true, map[string]any{"entry": e.Name, "encoding": hex.EncodeToString(enc), "value": gen.Dump(v), "prefixes": nprefix, "mutations": mutated})
	}
	return nil
}

// TestValues: properties (1)-(5) on generated values, sharded by registry entry.
func TestValues(t *testing.T) {
	entries := myEntries()
	if len(entries) == 0 {
		t.Skip("no entries in this shard")
	}
	stats.Prop(t, drawFor(entries), checkValue)
}

func TestReplayValues(t *testing.T) { stats.Replay(t, "TestValues", checkValue) }

// ------------------------------------------------------------------ concurrency

// checkConcurrent: several goroutines encoding the same value at once produce
// the same bytes as a lone encoder (run under -race in the thorough tier).
func checkConcurrent(c Case) error {
	e := gen.Lookup(c.Entry)
	if e == nil {
		return stats.Failf("", "harness: unknown registry entry %q", c.Entry)
	}
	v, err := c.value(e.Type)
	if err != nil {
		return stats.Failf("", "harness: %v", err)
	}
	enc, err, panicked := safeEncode(e, v)
	if panicked || err != nil {
		return stats.Failf("C11/encode/"+e.Name, "%s: encoding failed: %v", e.Name, err)
	}
	const workers = 4
	out := make([][]byte, workers)
	errs := make([]error, workers)
	var wg sync.WaitGroup
	for i := 0; i < workers; i++ {
		wg.Add(1)
		go func(i int) {
			defer wg.Done()
			for k := 0; k < 3; k++ {
				out[i], errs[i], _ = safeEncode(e, v)
			}
		}(i)
	}
	wg.Wait()
	for i := range out {
		if errs[i] != nil {
			return stats.Failf("C11/determinism/"+e.Name, "%s: concurrent encoder %d failed: %v", e.Name, i, errs[i])
		}
		if !bytes.Equal(out[i], enc) {
			return stats.Failf("C11/determinism/"+e.Name, "%s: concurrent encoder %d produced different bytes (byte %d)", e.Name, i, firstDiff(out[i], enc))
		}
	}
	stats.G().Case(stats.FP("conc", e.Name, enc), len(enc) > 0, "concurrent:"+e.Pkg)
	return nil
}

func TestConcurrent(t *testing.T) {
	var entries []*gen.Entry
	for _, e := range myEntries() {
		if !e.Slow { // the gateway codec serialises calls on one connection
			entries = append(entries, e)
		}
	}
	if len(entries) == 0 {
		t.Skip("no entries in this shard")
	}
	stats.Prop(t, drawFor(entries), checkConcurrent)
}

func TestReplayConcurrent(t *testing.T) { stats.Replay(t, "TestConcurrent", checkConcurrent) }

// ------------------------------------------------------------------ derived hashes

var derivedKinds = []struct {
	name string
	typ  reflect.Type
}{
	{"Transaction", reflect.TypeOf(types.Transaction{})},
	{"V2Transaction", reflect.TypeOf(types.V2Transaction{})},
	{"Block", reflect.TypeOf(types.Block{})},
	{"BlockHeader", reflect.TypeOf(types.BlockHeader{})},
	{"SpendPolicy", reflect.TypeOf(types.SpendPolicy{})},
	{"UnlockConditions", reflect.TypeOf(types.UnlockConditions{})},
	{"FileContractID", reflect.TypeOf(types.FileContractID{})},
	{"SiafundOutputID", reflect.TypeOf(types.SiafundOutputID{})},
	{"BlockID", reflect.TypeOf(types.BlockID{})},
}

func derivedType(name string) reflect.Type {
	for _, k := range derivedKinds {
		if k.name == name {
			return k.typ
		}
	}
	return nil
}

func drawDerived(t *rapid.T) Case {
	k := derivedKinds[uniform(t, len(derivedKinds))]
	o := genOpts()
	o.Fuel = 24
	return Case{Entry: k.name, Seed: rapid.Uint64().Draw(t, "seed"), live: gen.Value(t, k.typ, o)}
}

// checkDerived: hashes and IDs computed by the library equal the values
// recomputed from the reference layout with x/crypto/blake2b and the
// "sia/<name>|" distinguishers.
func checkDerived(c Case) error {
	rec := stats.G()
	typ := derivedType(c.Entry)
	if typ == nil {
		return stats.Failf("", "harness: unknown derived kind %q", c.Entry)
	}
	rv, err := c.value(typ)
	if err != nil {
		return stats.Failf("", "harness: %v", err)
	}
	bad := func(what string, got, want any) error {
		return stats.Failf("C11/derived/"+c.Entry, "%s: %s = %v, reference layout gives %v\n value %s", c.Entry, what, got, want, gen.DumpJSON(rv))
	}
	nt := false
	idx := func(n int) []int { // indices worth checking: all existing ones plus one past the end
		var is []int
		for i := 0; i <= n && i < 6; i++ {
			is = append(is, i)
		}
		return is
	}
	switch v := rv.Interface().(type) {
	case types.Transaction:
		if got, want := v.ID(), gen.RefTransactionID(v); got != want {
			return bad("Transaction.ID", got, want)
		}
		if got, want := v.FullHash(), gen.RefTransactionFullHash(v); got != want {
			return bad("Transaction.FullHash", got, want)
		}
		if got, want := v.MerkleLeafHash(), gen.RefTxnLeafHash(v); got != want {
			return bad("Transaction.MerkleLeafHash", got, want)
		}
		for _, i := range idx(len(v.SiacoinOutputs)) {
			if got, want := v.SiacoinOutputID(i), gen.RefSiacoinOutputID(v, i); got != want {
				return bad(fmt.Sprintf("SiacoinOutputID(%d)", i), got, want)
			}
		}
		for _, i := range idx(len(v.SiafundOutputs)) {
			if got, want := v.SiafundOutputID(i), gen.RefSiafundOutputID(v, i); got != want {
				return bad(fmt.Sprintf("SiafundOutputID(%d)", i), got, want)
			}
			if got, want := v.SiafundClaimOutputID(i), gen.RefSiafundClaimOutputID(gen.RefSiafundOutputID(v, i)); got != want {
				return bad(fmt.Sprintf("SiafundClaimOutputID(%d)", i), got, want)
			}
		}
		for _, i := range idx(len(v.FileContracts)) {
			if got, want := v.FileContractID(i), gen.RefFileContractID(v, i); got != want {
				return bad(fmt.Sprintf("FileContractID(%d)", i), got, want)
			}
		}
		nt = len(v.SiacoinInputs)+len(v.SiacoinOutputs)+len(v.FileContracts)+len(v.FileContractRevisions)+len(v.Signatures) > 0
	case types.V2Transaction:
		txid := v.ID()
		if want := gen.RefV2TransactionID(v); txid != want {
			return bad("V2Transaction.ID", txid, want)
		}
		if got, want := v.FullHash(), gen.RefV2TransactionFullHash(v); got != want {
			return bad("V2Transaction.FullHash", got, want)
		}
		if got, want := v.MerkleLeafHash(), gen.RefV2TxnLeafHash(v); got != want {
			return bad("V2Transaction.MerkleLeafHash", got, want)
		}
		for _, i := range idx(len(v.SiacoinOutputs)) {
			if got, want := v.SiacoinOutputID(txid, i), gen.RefV2SiacoinOutputID(txid, i); got != want {
				return bad(fmt.Sprintf("V2 SiacoinOutputID(%d)", i), got, want)
			}
		}
		for _, i := range idx(len(v.SiafundOutputs)) {
			if got, want := v.SiafundOutputID(txid, i), gen.RefV2SiafundOutputID(txid, i); got != want {
				return bad(fmt.Sprintf("V2 SiafundOutputID(%d)", i), got, want)
			}
		}
		for _, i := range idx(len(v.FileContracts)) {
			if got, want := v.V2FileContractID(txid, i), gen.RefV2FileContractID(txid, i); got != want {
				return bad(fmt.Sprintf("V2FileContractID(%d)", i), got, want)
			}
		}
		for _, i := range idx(len(v.Attestations)) {
			if got, want := v.AttestationID(txid, i), gen.RefAttestationID(txid, i); got != want {
				return bad(fmt.Sprintf("AttestationID(%d)", i), got, want)
			}
		}
		nt = len(v.SiacoinInputs)+len(v.FileContracts)+len(v.FileContractRevisions)+len(v.FileContractResolutions)+len(v.Attestations) > 0
	case types.Block:
		if got, want := v.ID(), gen.RefBlockID(v); got != want {
			return bad("Block.ID", got, want)
		}
		h := v.Header()
		if v.V2 == nil {
			if want := gen.RefV1BlockCommitment(v); h.Commitment != want {
				return bad("v1 block Merkle root", h.Commitment, want)
			}
		}
		nt = len(v.MinerPayouts)+len(v.Transactions) > 1
	case types.BlockHeader:
		if got, want := v.ID(), gen.RefHeaderID(v); got != want {
			return bad("BlockHeader.ID", got, want)
		}
		nt = true
	case types.SpendPolicy:
		if got, want := v.Address(), gen.RefPolicyAddress(v); got != want {
			return bad("SpendPolicy.Address", got, want)
		}
		_, isThresh := v.Type.(types.PolicyTypeThreshold)
		_, isUC := v.Type.(types.PolicyTypeUnlockConditions)
		nt = isThresh || isUC
		if pk, ok := v.Type.(types.PolicyTypePublicKey); ok {
			if got, want := types.StandardAddress(types.PublicKey(pk)), gen.RefPolicyAddress(v); got != want {
				return bad("StandardAddress", got, want)
			}
		}
	case types.UnlockConditions:
		if got, want := v.UnlockHash(), gen.RefUnlockHash(v); got != want {
			return bad("UnlockConditions.UnlockHash", got, want)
		}
		if len(v.PublicKeys) > 0 && len(v.PublicKeys[0].Key) == 32 {
			pk := types.PublicKey(v.PublicKeys[0].Key)
			std := types.StandardUnlockConditions(pk)
			if got, want := types.StandardUnlockHash(pk), gen.RefUnlockHash(std); got != want {
				return bad("StandardUnlockHash", got, want)
			}
			if got, want := std.UnlockHash(), gen.RefUnlockHash(std); got != want {
				return bad("standard UnlockHash fast path", got, want)
			}
		}
		nt = len(v.PublicKeys) > 0
	case types.FileContractID:
		for i := 0; i < 3; i++ {
			if got, want := v.ValidOutputID(i), gen.RefProofOutputID(v, true, i); got != want {
				return bad(fmt.Sprintf("ValidOutputID(%d)", i), got, want)
			}
			if got, want := v.MissedOutputID(i), gen.RefProofOutputID(v, false, i); got != want {
				return bad(fmt.Sprintf("MissedOutputID(%d)", i), got, want)
			}
		}
		if got, want := v.V2RenterOutputID(), gen.RefV2ContractOutputID(v, false); got != want {
			return bad("V2RenterOutputID", got, want)
		}
		if got, want := v.V2HostOutputID(), gen.RefV2ContractOutputID(v, true); got != want {
			return bad("V2HostOutputID", got, want)
		}
		if got, want := v.V2RenewalID(), gen.RefV2RenewalID(v); got != want {
			return bad("V2RenewalID", got, want)
		}
		nt = true
	case types.SiafundOutputID:
		if got, want := v.ClaimOutputID(), gen.RefSiafundClaimOutputID(v); got != want {
			return bad("ClaimOutputID", got, want)
		}
		if got, want := v.V2ClaimOutputID(), gen.RefV2ClaimOutputID(v); got != want {
			return bad("V2ClaimOutputID", got, want)
		}
		nt = true
	case types.BlockID:
		for i := 0; i < 3; i++ {
			if got, want := v.MinerOutputID(i), gen.RefMinerOutputID(v, i); got != want {
				return bad(fmt.Sprintf("MinerOutputID(%d)", i), got, want)
			}
		}
		if got, want := v.FoundationOutputID(), gen.RefFoundationOutputID(v); got != want {
			return bad("FoundationOutputID", got, want)
		}
		nt = true
	default:
		return stats.Failf("", "harness: unhandled derived type %T", v)
	}
	rec.Case(stats.FP("derived", c.Entry, []byte(gen.DumpJSON(rv))), nt, "derived:"+c.Entry)
	return nil
}

func TestDerived(t *testing.T)       { stats.Prop(t, drawDerived, checkDerived) }
func TestReplayDerived(t *testing.T) { stats.Replay(t, "TestDerived", checkDerived) }

// ------------------------------------------------------------------ golden anchors

// TestGolden pins the reference layout (not the library) to the vectors that the
// repository itself commits: the two policy addresses of types/policy_test.go
// (TestPolicyGolden) and the two precomputed leaf hashes in types/hash.go
// (StandardUnlockHash). If the reference encoder were wrong in the same way as a
// broken tree, these would not match.
func TestGolden(t *testing.T) {
	rec := stats.G()
	check := func(name string, got []byte, wantHex string) {
		if hex.EncodeToString(got) != wantHex {
			t.Errorf("golden %s: reference gives %x, repository vector is %s", name, got, wantHex)
			return
		}
		rec.Case(stats.FP("golden", name), true, "golden")
	}
	pk := types.PublicKey{1, 2, 3}
	uc := types.SpendPolicy{Type: types.PolicyTypeUnlockConditions(types.StandardUnlockConditions(pk))}
	a := gen.RefPolicyAddress(uc)
	check("uc-policy-address", a[:], "72b0762b382d4c251af5ae25b6777d908726d75962e5224f98d7f619bb39515d")
	th := types.PolicyThreshold(2, []types.SpendPolicy{
		types.PolicyAbove(100),
		types.PolicyPublicKey(pk),
		types.PolicyThreshold(2, []types.SpendPolicy{
			types.PolicyAbove(200),
			types.PolicyPublicKey(types.PublicKey{4, 5, 6}),
		}),
	})
	a = gen.RefPolicyAddress(th)
	check("threshold-policy-address", a[:], "111d2995afa8bf162180a647b9f1eb6a275fe8818e836b69b351871d5caf9c59")
	// BLAKE2b(0x00 | LE64(0)) and BLAKE2b(0x00 | LE64(1)) as hard-coded in types/hash.go
	h0 := gen.RefH(append([]byte{0}, make([]byte, 8)...))
	check("timelock-leaf", h0[:], "5187b7a8021bf4f2c004ea3a54cfece1754f11c7624d2363c7f4cf4fddd1441e")
	h1 := gen.RefH([]byte{0, 1, 0, 0, 0, 0, 0, 0, 0})
	check("sigsrequired-leaf", h1[:], "b36010eb285c154a8cd63084acbe7eac0c4d625ab4e1a76e624a8798cb63497b")
	// the library agrees with the same vectors (and with the reference)
	if got := uc.Address(); got != gen.RefPolicyAddress(uc) {
		t.Errorf("library uc policy address %v differs from golden", got)
	}
	if got := th.Address(); got != gen.RefPolicyAddress(th) {
		t.Errorf("library threshold policy address %v differs from golden", got)
	}
	// hand-computed layouts (written out byte by byte, independent of both encoders)
	type vec struct {
		name string
		v    any
		hex  string
	}
	addr := types.Address{0xAA}
	addrHex := "aa" + strings.Repeat("00", 31)
	for _, x := range []vec{
		{"v1-currency-0", types.V1Currency(types.ZeroCurrency), "0000000000000000"},
		{"v1-currency-1", types.V1Currency(types.NewCurrency64(1)), "0100000000000000" + "01"},
		{"v1-currency-256", types.V1Currency(types.NewCurrency64(256)), "0200000000000000" + "0100"},
		{"v1-currency-2^64", types.V1Currency(types.NewCurrency(0, 1)), "0900000000000000" + "010000000000000000"},
		{"v1-currency-max", types.V1Currency(types.NewCurrency(^uint64(0), ^uint64(0))), "1000000000000000" + strings.Repeat("ff", 16)},
		{"v2-currency-1", types.V2Currency(types.NewCurrency64(1)), "0100000000000000" + "0000000000000000"},
		{"v2-currency-2^64", types.V2Currency(types.NewCurrency(0, 1)), "0000000000000000" + "0100000000000000"},
		{"v1-siafund-output", types.V1SiafundOutput{Value: 258, Address: addr}, "0200000000000000" + "0102" + addrHex + "0000000000000000"},
		{"v2-siafund-output", types.V2SiafundOutput{Value: 258, Address: addr}, "0201000000000000" + addrHex},
		{"v1-siacoin-output", types.V1SiacoinOutput{Value: types.NewCurrency64(5), Address: addr}, "0100000000000000" + "05" + addrHex},
		{"v2-siacoin-output", types.V2SiacoinOutput{Value: types.NewCurrency64(5), Address: addr}, "0500000000000000" + "0000000000000000" + addrHex},
		{"policy-above", types.PolicyAbove(7), "01" + "01" + "0700000000000000"},
		{"policy-anyone", types.AnyoneCanSpend(), "01" + "05" + "00" + "00"},
		{"v2-txn-empty", types.V2Transaction{}, "02" + "0000000000000000"},
		{"v2-txn-fee-only", types.V2Transaction{MinerFee: types.NewCurrency64(9)}, "02" + "0004000000000000" + "0900000000000000" + "0000000000000000"},
		{"v2-txn-arbitrary-data", types.V2Transaction{ArbitraryData: []byte{0xEE}}, "02" + "0001000000000000" + "0100000000000000" + "ee"},
		{"state-element", types.StateElement{LeafIndex: 3, MerkleProof: []types.Hash256{{0xBB}}}, "0300000000000000" + "0100000000000000" + "bb" + strings.Repeat("00", 31)},
	} {
		ref, ok := gen.RefEncode(x.v)
		if !ok {
			t.Errorf("golden %s: RefEncode does not know %T", x.name, x.v)
			continue
		}
		check("layout/"+x.name, ref, x.hex)
		lib := gen.EncodeTo(x.v.(types.EncoderTo))
		if hex.EncodeToString(lib) != x.hex {
			t.Errorf("golden %s: library gives %x, hand-computed layout is %s", x.name, lib, x.hex)
		}
	}
}

// ------------------------------------------------------------------ completeness guard

// TestRegistry fails with "registry incomplete: <type>" when the repository has a
// type with an encoder/decoder pair that the registry does not cover, and checks
// that every entry's minimal value survives its own codec (harness sanity).
func TestRegistry(t *testing.T) {
	rec := stats.G()
	codecs, err := gen.ScanRepo(gen.RepoDir())
	if err != nil {
		t.Fatalf("scanning %s: %v", gen.RepoDir(), err)
	}
	if len(codecs) < 100 {
		t.Fatalf("scanning %s found only %d codec types: wrong directory?", gen.RepoDir(), len(codecs))
	}
	for _, m := range gen.MissingFromRegistry(codecs) {
		t.Errorf("registry incomplete: %s has an encoder/decoder pair in %s but no entry in gen.Registry() (and is not listed in gen.Skipped())", m, gen.RepoDir())
	}
	for _, e := range gen.Registry() {
		c := Case{Entry: e.Name, Seed: 1, live: gen.Minimal(e.Type)}
		if err := stats.Safe("", func() error { return checkValue(c) }); err != nil {
			t.Errorf("minimal value of %s: %v", e.Name, err)
		}
	}
	n := 0
	for _, c := range codecs {
		if c.Methods["DecodeFrom"] || c.Methods["decodeFrom"] || c.Methods["decodeRequest"] || c.Methods["decodeResponse"] {
			n++
		}
	}
	rec.Extra("repo-types-with-binary-decoder", uint64(n))
	rec.Extra("registry-entries", uint64(len(gen.Registry())))
	rec.Extra("skipped-with-reason", uint64(len(gen.Skipped())))
}
