package c11

import (
	"bytes"
	"encoding/binary"
	"fmt"
	"io"
	"testing"
	"time"

	"go.sia.tech/core/types"
	"pgregory.net/rapid"
	"verif/harness/stats"
)

// The codec's primitives, used directly. Every wire object is a sequence of Encoder.WriteX calls read back by the
// matching Decoder.ReadX calls; the objects of TestValues reach the primitives only with the sizes their fields have. This
// unit draws sequences of primitive writes (bool, uint8, uint64, time, byte strings and texts of 0..5000 bytes with
// lengths around the encoder's 1024-byte buffer and the decoder's 64-byte buffer, raw writes, flushes in between, one
// Reset onto a second stream), compares the bytes with the layout written down here (little-endian words, length
// prefixes) and reads them back three ways: from memory, from a reader that returns one byte per call, and from a reader
// that returns short pieces. After the last item a further read must fail and leave the error set.

type PrimOp struct {
	Kind string `json:"kind"` // bool | u8 | u64 | time | bytes | string | raw | flush
	U    uint64 `json:"u,omitempty"`
	N    int    `json:"n,omitempty"`
}

type PrimCase struct {
	Seed  uint64   `json:"seed"`
	Ops   []PrimOp `json:"ops"`
	Reset int      `json:"reset"` // index before which the encoder is Reset onto a second stream (-1: never)
}

func drawPrim(t *rapid.T) PrimCase {
	c := PrimCase{Seed: rapid.Uint64().Draw(t, "seed"), Reset: -1}
	n := rapid.IntRange(1, 24).Draw(t, "ops")
	lens := []int{0, 1, 7, 8, 63, 64, 65, 127, 128, 129, 1015, 1016, 1017, 1023, 1024, 1025, 2047, 2048, 2049, 4999}
	for i := 0; i < n; i++ {
		op := PrimOp{Kind: rapid.SampledFrom([]string{"bool", "u8", "u64", "u64", "time", "bytes", "bytes", "string", "raw", "flush"}).Draw(t, "kind")}
		switch op.Kind {
		case "bool":
			op.U = uint64(rapid.IntRange(0, 1).Draw(t, "b"))
		case "u8":
			op.U = uint64(rapid.IntRange(0, 255).Draw(t, "u8"))
		case "u64":
			op.U = rapid.SampledFrom([]uint64{0, 1, 255, 256, 1 << 32, 1<<63 - 1, 1 << 63, ^uint64(0)}).Draw(t, "u64")
			if rapid.Bool().Draw(t, "anyU64") {
				op.U = rapid.Uint64().Draw(t, "u")
			}
		case "time":
			op.U = uint64(rapid.Int64Range(0, 1<<40).Draw(t, "unix"))
		case "bytes", "string", "raw":
			if rapid.Bool().Draw(t, "edgeLen") {
				op.N = rapid.SampledFrom(lens).Draw(t, "len")
			} else {
				op.N = rapid.IntRange(0, 300).Draw(t, "len")
			}
		}
		c.Ops = append(c.Ops, op)
	}
	if rapid.IntRange(0, 3).Draw(t, "reset") == 0 {
		c.Reset = rapid.IntRange(0, n).Draw(t, "resetAt")
	}
	return c
}

func primData(seed *uint64, n int, text bool) []byte {
	b := make([]byte, n)
	for i := range b {
		b[i] = byte(splitmix(seed))
		if text {
			b[i] = 'a' + b[i]%26
		}
	}
	return b
}

func checkPrim(c PrimCase) error {
	rec := stats.G()
	var first, second bytes.Buffer
	var w io.Writer = &first
	e := types.NewEncoder(w)
	var want []byte // reference layout of everything written after the last Reset
	type item struct {
		op   PrimOp
		data []byte
	}
	var items []item
	seed := c.Seed
	for i, op := range c.Ops {
		if i == c.Reset {
			// Reset discards what is buffered and continues on the other stream: the first stream holds a prefix of
			// what was written so far (whatever had been flushed), the second exactly what follows
			e.Reset(&second)
			want, items = nil, nil
		}
		it := item{op: op}
		switch op.Kind {
		case "bool":
			e.WriteBool(op.U == 1)
			want = append(want, byte(op.U))
		case "u8":
			e.WriteUint8(uint8(op.U))
			want = append(want, byte(op.U))
		case "u64":
			e.WriteUint64(op.U)
			want = binary.LittleEndian.AppendUint64(want, op.U)
		case "time":
			e.WriteTime(time.Unix(int64(op.U), 0))
			want = binary.LittleEndian.AppendUint64(want, op.U)
		case "bytes":
			it.data = primData(&seed, op.N, false)
			e.WriteBytes(it.data)
			want = append(binary.LittleEndian.AppendUint64(want, uint64(op.N)), it.data...)
		case "string":
			it.data = primData(&seed, op.N, true)
			e.WriteString(string(it.data))
			want = append(binary.LittleEndian.AppendUint64(want, uint64(op.N)), it.data...)
		case "raw":
			it.data = primData(&seed, op.N, false)
			if n, err := e.Write(it.data); n != op.N || err != nil {
				return stats.Failf("C11/primitives/write", "Encoder.Write of %d bytes returned (%d, %v)", op.N, n, err)
			}
			want = append(want, it.data...)
		case "flush":
			if err := e.Flush(); err != nil {
				return stats.Failf("C11/primitives/write", "Flush: %v", err)
			}
			continue
		default:
			return stats.Failf("", "harness: unknown primitive %q", op.Kind)
		}
		items = append(items, it)
	}
	if err := e.Flush(); err != nil {
		return stats.Failf("C11/primitives/write", "Flush: %v", err)
	}
	if c.Reset == len(c.Ops) {
		return nil // Reset after the last item: nothing to compare
	}
	got := first.Bytes()
	if c.Reset >= 0 {
		got = second.Bytes()
	}
	if !bytes.Equal(got, want) {
		return stats.Failf("C11/primitives/layout", "%d primitive writes produced %d bytes, the layout has %d (first difference at byte %d)", len(items), len(got), len(want), firstDiff(got, want))
	}
	for _, mode := range []string{"memory", "one-byte", "pieces"} {
		var d *types.Decoder
		var src []byte
		type kept struct {
			got, want []byte
			i         int
		}
		var keep []kept
		switch mode {
		case "memory":
			src = append([]byte(nil), got...)
			d = types.NewBufDecoder(src)
		default:
			d = types.NewDecoder(io.LimitedReader{R: &piecewiseReader{data: got, seed: c.Seed ^ 0x9e, oneByte: mode == "one-byte"}, N: int64(len(got))})
		}
		for i, it := range items {
			bad := func(format string, args ...any) error {
				return stats.Failf("C11/primitives/read", "item %d (%s, %d bytes) read from %s: %s", i, it.op.Kind, it.op.N, mode, fmt.Sprintf(format, args...))
			}
			switch it.op.Kind {
			case "bool":
				if v := d.ReadBool(); v != (it.op.U == 1) {
					return bad("ReadBool = %v", v)
				}
			case "u8":
				if v := d.ReadUint8(); uint64(v) != it.op.U {
					return bad("ReadUint8 = %d, wrote %d", v, it.op.U)
				}
			case "u64":
				if v := d.ReadUint64(); v != it.op.U {
					return bad("ReadUint64 = %d, wrote %d", v, it.op.U)
				}
			case "time":
				if v := d.ReadTime(); v.Unix() != int64(it.op.U) {
					return bad("ReadTime = %v, wrote unix %d", v, it.op.U)
				}
			case "bytes":
				v := d.ReadBytes()
				if !bytes.Equal(v, it.data) {
					return bad("ReadBytes returned %d bytes (first difference at %d)", len(v), firstDiff(v, it.data))
				}
				keep = append(keep, kept{v, it.data, i})
			case "string":
				if v := d.ReadString(); v != string(it.data) {
					return bad("ReadString returned %d bytes (first difference at %d)", len(v), firstDiff([]byte(v), it.data))
				}
			case "raw":
				buf := make([]byte, it.op.N)
				if n, err := d.Read(buf); n != it.op.N || err != nil || !bytes.Equal(buf, it.data) {
					return bad("Read returned (%d, %v), first difference at %d", n, err, firstDiff(buf, it.data))
				}
			}
			if d.Err() != nil {
				return bad("decoder error %v", d.Err())
			}
		}
		// what ReadBytes returned is the caller's: it survives the reuse of the slice the decoder read from
		for i := range src {
			src[i] ^= 0xA5
		}
		for _, k := range keep {
			if !bytes.Equal(k.got, k.want) {
				return stats.Failf("C11/primitives/read-aliases-input", "item %d: the %d bytes ReadBytes returned changed when the slice given to NewBufDecoder was overwritten", k.i, len(k.want))
			}
		}
		// the stream is exhausted: one more read fails, returns zero, and the error stays
		if v := d.ReadUint64(); v != 0 || d.Err() == nil {
			return stats.Failf("C11/primitives/read", "reading past the end (%s) returned %d with error %v", mode, v, d.Err())
		}
		if v := d.ReadBytes(); len(v) != 0 || d.Err() == nil {
			return stats.Failf("C11/primitives/read", "a read after an error (%s) returned %d bytes, error %v", mode, len(v), d.Err())
		}
	}
	big := false
	for _, it := range items {
		big = big || it.op.N > 1024
	}
	rec.Case(stats.FP("prim", c.Seed, fmt.Sprint(c.Ops), c.Reset), big || len(want) > 1024, "primitives", map[bool]string{true: "primitives:with-reset", false: "primitives:no-reset"}[c.Reset >= 0])
	return nil
}

func TestPrimitives(t *testing.T)       { stats.Prop(t, drawPrim, checkPrim) }
func TestReplayPrimitives(t *testing.T) { stats.Replay(t, "TestPrimitives", checkPrim) }
