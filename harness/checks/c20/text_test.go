package c20

import (
	"bytes"
	"encoding"
	"fmt"
	"math/big"
	"reflect"
	"testing"

	"go.sia.tech/core/consensus"
	rhp3 "go.sia.tech/core/rhp/v3"
	rhp4 "go.sia.tech/core/rhp/v4"
	"go.sia.tech/core/types"
	"golang.org/x/crypto/blake2b"
	"pgregory.net/rapid"
	"verif/harness/gen"
	"verif/harness/stats"
)

// ---------------------------------------------------------------- text forms

// expectedText restates the documented text form of the simple types independently
// of the library ("" if this harness has no independent statement for the type).
func expectedText(v reflect.Value) (string, bool) {
	switch x := v.Interface().(type) {
	case types.Hash256, types.BlockID, types.TransactionID, types.AttestationID,
		types.SiacoinOutputID, types.SiafundOutputID, types.FileContractID, types.Signature:
		return hexOf(arrayBytes(v)), true
	case types.PublicKey, rhp3.Account, rhp4.Account:
		return "ed25519:" + hexOf(arrayBytes(v)), true
	case types.Address:
		sum := blake2b.Sum256(x[:])
		return hexOf(x[:]) + hexOf(sum[:6]), true
	case types.ChainIndex:
		return fmt.Sprintf("%d::%s", x.Height, hexOf(x.ID[:])), true
	case types.Currency:
		n := new(big.Int).SetUint64(x.Hi)
		n.Lsh(n, 64).Add(n, new(big.Int).SetUint64(x.Lo))
		return n.String(), true
	case consensus.Work:
		return new(big.Int).SetBytes(gen.EncodeTo(x)).String(), true // binary form: 32 bytes big-endian
	case rhp4.ProtocolVersion:
		return fmt.Sprintf("v%d.%d.%d", x[0], x[1], x[2]), true
	}
	return "", false
}

func safeText(f func() ([]byte, error)) (b []byte, err error) {
	p, stack := stats.NoPanic(func() { b, err = f() })
	if p != nil {
		return nil, fmt.Errorf("panic: %v\n%s", p, stack)
	}
	return
}

func safeErr(f func() error) (err error) {
	p, stack := stats.NoPanic(func() { err = f() })
	if p != nil {
		return fmt.Errorf("panic: %v\n%s", p, stack)
	}
	return
}

func isPanic(err error) bool {
	return err != nil && len(err.Error()) >= 6 && err.Error()[:6] == "panic:"
}

// textRoundTrip: UnmarshalText(MarshalText(v)) == v, re-print identical, and the text equals the
// independent statement where there is one.
func textRoundTrip(name string, v reflect.Value) (string, error) {
	key := "C20/text/" + name
	txt, err := safeText(v.Interface().(encoding.TextMarshaler).MarshalText)
	if err != nil {
		return "", stats.Failf(key, "%s: MarshalText failed: %v\n value %s", name, err, clip(gen.DumpJSON(v)))
	}
	if want, ok := expectedText(v); ok && want != string(txt) {
		return string(txt), stats.Failf(key+"/form", "%s: MarshalText gives %q, the documented form is %q", name, txt, want)
	}
	p := reflect.New(v.Type())
	if err := safeErr(func() error {
		return p.Interface().(encoding.TextUnmarshaler).UnmarshalText(append([]byte(nil), txt...))
	}); err != nil {
		return string(txt), stats.Failf(key, "%s: UnmarshalText of its own output %q failed: %v", name, txt, err)
	}
	if d := gen.Diff(v, p.Elem()); d != "" {
		return string(txt), stats.Failf(key, "%s: UnmarshalText(MarshalText(v)) != v: %s\n text %q", name, d, txt)
	}
	txt2, err := safeText(p.Elem().Interface().(encoding.TextMarshaler).MarshalText)
	if err != nil || !bytes.Equal(txt, txt2) {
		return string(txt), stats.Failf(key+"/reprint", "%s: printing the parsed value gives %q (err %v), first print was %q", name, txt2, err, txt)
	}
	return string(txt), nil
}

func checkText(c Case) error {
	rec := stats.G()
	k := lookupKind(c.Kind)
	if k == nil {
		return stats.Failf("", "harness: unknown kind %q", c.Kind)
	}
	v, err := c.value(k.Type)
	if err != nil {
		return stats.Failf("", "harness: %v", err)
	}
	key := "C20/text/" + k.Name
	var txt string
	forms := 0
	if k.Text {
		if txt, err = textRoundTrip(k.Name, v); err != nil {
			return err
		}
		forms++
		// a text form denotes the whole value: parsing it into a receiver that already holds another
		// value (a reused variable, a slice element json.Unmarshal decodes into again) gives v, too
		if o, ok, err := c.other(k.Type); err != nil {
			return stats.Failf("", "harness: %v", err)
		} else if ok {
			if err := dirtyReceiver(k, v, o, txt, true); err != nil {
				return err
			}
			forms++
		}
	}
	same := func(what, s string, got any, perr error) error {
		if perr != nil {
			return stats.Failf(key+"/parse", "%s: %s of its own output %q failed: %v", k.Name, what, s, perr)
		}
		if d := gen.Diff(v, reflect.ValueOf(got)); d != "" {
			return stats.Failf(key+"/parse", "%s: %s(%q) != v: %s", k.Name, what, s, d)
		}
		forms++
		return nil
	}
	// String / Parse* pairs
	switch x := v.Interface().(type) {
	case types.Currency:
		for _, s := range []string{x.String(), x.ExactString(), fmt.Sprintf("%d", x), fmt.Sprintf("%s", x), fmt.Sprintf("%v", x)} {
			var got types.Currency
			perr := safeErr(func() (e error) { got, e = types.ParseCurrency(s); return })
			if err := same("ParseCurrency", s, got, perr); err != nil {
				return err
			}
		}
	case types.Address:
		s := x.String()
		if s != txt {
			return stats.Failf(key+"/form", "Address.String %q differs from MarshalText %q", s, txt)
		}
		var got types.Address
		perr := safeErr(func() (e error) { got, e = types.ParseAddress(s); return })
		if err := same("ParseAddress", s, got, perr); err != nil {
			return err
		}
	case types.ChainIndex:
		var got types.ChainIndex
		perr := safeErr(func() (e error) { got, e = types.ParseChainIndex(txt); return })
		if err := same("ParseChainIndex", txt, got, perr); err != nil {
			return err
		}
		// String() is the abbreviated display form (last four ID bytes). It is not claimed to parse
		// back, but it must never parse to a different index.
		short := x.String()
		var got2 types.ChainIndex
		if perr := safeErr(func() (e error) { got2, e = types.ParseChainIndex(short); return }); isPanic(perr) {
			return stats.Failf(key+"/parse", "ParseChainIndex(%q) panicked: %v", short, perr)
		} else if perr == nil && got2 != x {
			return stats.Failf(key+"/parse", "ParseChainIndex of the display form %q silently gives a different index %v (want %v or an error)", short, got2, x)
		}
	case rhp3.SettingsID:
		s := x.String()
		if want := hexOf(x[:]); s != want {
			return stats.Failf(key+"/form", "SettingsID.String gives %q, want %q", s, want)
		}
		var got rhp3.SettingsID
		perr := safeErr(func() error { return got.LoadString(s) })
		if err := same("SettingsID.LoadString", s, got, perr); err != nil {
			return err
		}
	default:
		// fmt.Stringer of the identifier types prints the text form
		if st, ok := v.Interface().(fmt.Stringer); ok && k.Text {
			if s := st.String(); s != txt {
				return stats.Failf(key+"/form", "%s: String() %q differs from MarshalText %q", k.Name, s, txt)
			}
			forms++
		}
	}
	f := features{}
	walkFeatures(v, f)
	labels, _ := f.labels("text:")
	labels = append(labels, "text-kind:"+k.Name)
	zero := reflect.DeepEqual(gen.Norm(v).Interface(), reflect.Zero(k.Type).Interface())
	rec.Case(stats.FP("text", k.Name, txt, []byte(gen.DumpJSON(v))), !zero, labels...)
	rec.Extra("text-forms-checked", uint64(forms))
	if !zero && rec.WantSample() && len(txt) < 300 {
		rec.Sample(true, map[string]any{"unit": "text", "kind": k.Name, "text": txt})
	}
	return nil
}

const keyStale = "C20/specifier-unmarshaltext-keeps-stale-bytes"

func trimmedLen(s types.Specifier) int { return len(bytes.TrimRight(s[:], "\x00")) }

// staleClass is the input class of the known finding: the receiver's specifier has a non-zero
// byte beyond the length of the specifier being parsed.
func staleClass(v, old reflect.Value) bool {
	var a, b types.Specifier
	switch x := v.Interface().(type) {
	case types.Specifier:
		a, b = x, old.Interface().(types.Specifier)
	case types.UnlockKey:
		a, b = x.Algorithm, old.Interface().(types.UnlockKey).Algorithm
	default:
		return false
	}
	return trimmedLen(b) > trimmedLen(a)
}

// dirtyReceiver parses txt (the text form of v) into a receiver holding old and requires v.
func dirtyReceiver(k *Kind, v, old reflect.Value, txt string, excl bool) error {
	key := "C20/text/" + k.Name + "/reused-receiver"
	if staleClass(v, old) {
		if excl && stats.KnownOpen(keyStale) {
			stats.G().Excluded(keyStale)
			return nil
		}
		key = keyStale
	}
	p := reflect.New(k.Type)
	p.Elem().Set(gen.Norm(old)) // deep copy: the parse must not write into the case's value
	if err := safeErr(func() error { return p.Interface().(encoding.TextUnmarshaler).UnmarshalText([]byte(txt)) }); err != nil {
		return stats.Failf(key, "%s: UnmarshalText(%q) into a receiver holding another value failed: %v", k.Name, txt, err)
	}
	if d := gen.Diff(v, p.Elem()); d != "" {
		ot, _ := old.Interface().(encoding.TextMarshaler).MarshalText()
		return stats.Failf(key, "%s: UnmarshalText(%q) into a receiver that held %q does not give the printed value: %s", k.Name, txt, ot, d)
	}
	return nil
}

func drawText(ks []*Kind) func(t *rapid.T) Case {
	base := drawFor(ks)
	return func(t *rapid.T) Case {
		c := base(t)
		if k := lookupKind(c.Kind); k.Text {
			c.live2 = gen.Value(t, k.Type, genOpts())
		}
		return c
	}
}

func textKinds(k *Kind) bool { return k.Text || k.Type == ty[rhp3.SettingsID]() }

func TestText(t *testing.T) {
	ks := myKinds(textKinds)
	if len(ks) == 0 {
		t.Skip("no kinds in this shard")
	}
	stats.Prop(t, drawText(ks), checkText)
}

func TestReplayText(t *testing.T) { stats.Replay(t, "TestText", checkText) }

// ---------------------------------------------------------------- spend policies: string and object form

const (
	keySigs  = "C20/policy-string-uc-sigs-over-255"
	keyDelim = "C20/policy-string-uc-specifier-delimiters"
)

const policyDelims = "(),[]"

func hasDelim(s types.Specifier) bool { return bytes.ContainsAny(s[:], policyDelims) }

// policyClasses reports whether p contains a uc policy requiring more than 255 signatures and
// whether it contains a uc key whose algorithm specifier holds a delimiter of the string grammar.
func policyClasses(p types.SpendPolicy) (sigs, delim bool) {
	switch pt := p.Type.(type) {
	case types.PolicyTypeThreshold:
		for _, sp := range pt.Of {
			a, b := policyClasses(sp)
			sigs, delim = sigs || a, delim || b
		}
	case types.PolicyTypeUnlockConditions:
		sigs = pt.SignaturesRequired > 255
		for _, k := range pt.PublicKeys {
			delim = delim || hasDelim(k.Algorithm)
		}
	}
	return
}

// mapPolicy rebuilds p bottom-up through f (leaves and uc nodes).
func mapPolicy(p types.SpendPolicy, f func(types.SpendPolicy) types.SpendPolicy) types.SpendPolicy {
	if pt, ok := p.Type.(types.PolicyTypeThreshold); ok {
		if pt.Of != nil {
			of := make([]types.SpendPolicy, len(pt.Of))
			for i := range pt.Of {
				of[i] = mapPolicy(pt.Of[i], f)
			}
			pt.Of = of
		}
		return types.SpendPolicy{Type: pt}
	}
	return f(p)
}

func drawPolicy(t *rapid.T) Case {
	o := genOpts()
	var p types.SpendPolicy
	switch rapid.IntRange(0, 6).Draw(t, "policyShape") {
	case 6:
		// a wide threshold (up to the 255 children the binary form can count), at the root or one level down
		w := rapid.SampledFrom([]int{64, 127, 128, 129, 200, 254, 255}).Draw(t, "width")
		of := make([]types.SpendPolicy, w)
		for i := range of {
			switch (i + w) % 4 {
			case 0:
				of[i] = types.PolicyAbove(uint64(i))
			case 1:
				of[i] = types.PolicyOpaque(types.PolicyAbove(uint64(i)))
			case 2:
				of[i] = types.PolicyPublicKey(types.PublicKey{byte(i), byte(w)})
			default:
				of[i] = types.PolicyHash(types.Hash256{byte(i)})
			}
		}
		p = types.PolicyThreshold(uint8(rapid.IntRange(0, w).Draw(t, "n")), of)
		if rapid.Bool().Draw(t, "nestWide") {
			p = types.PolicyThreshold(1, []types.SpendPolicy{types.PolicyAbove(7), p})
		}
	case 0, 1:
		p = types.SpendPolicy{Type: types.PolicyTypeUnlockConditions(gen.Of[types.UnlockConditions](t, o))}
	case 2:
		// uc nested in thresholds (the codec and the grammar allow it)
		p = types.SpendPolicy{Type: types.PolicyTypeUnlockConditions(gen.Of[types.UnlockConditions](t, o))}
		for d := rapid.IntRange(1, 3).Draw(t, "ucDepth"); d > 0; d-- {
			p = types.PolicyThreshold(uint8(rapid.IntRange(0, 2).Draw(t, "n")), []types.SpendPolicy{types.PolicyAbove(uint64(d)), p})
		}
	default:
		p = gen.Of[types.SpendPolicy](t, o)
	}
	c := &gen.Ctx{T: t, O: o}
	p = mapPolicy(p, func(q types.SpendPolicy) types.SpendPolicy {
		switch qt := q.Type.(type) {
		case types.PolicyTypeAfter:
			if c.Intn(2) == 0 {
				return types.PolicyAfter(wideTime(c)) // years 0..9999, also before 1970
			}
		case types.PolicyTypeUnlockConditions:
			// open known findings: their input classes are removed from the generator (and counted)
			if qt.SignaturesRequired > 255 && stats.KnownOpen(keySigs) {
				stats.G().Excluded(keySigs)
				qt.SignaturesRequired %= 256
			}
			if stats.KnownOpen(keyDelim) {
				hit := false
				keys := append([]types.UnlockKey(nil), qt.PublicKeys...)
				for i := range keys {
					for j, b := range keys[i].Algorithm {
						if bytes.IndexByte([]byte(policyDelims), b) >= 0 {
							keys[i].Algorithm[j] = '_'
							hit = true
						}
					}
				}
				if hit {
					stats.G().Excluded(keyDelim)
					qt.PublicKeys = keys
				}
			}
			return types.SpendPolicy{Type: qt}
		}
		return q
	})
	return Case{Kind: "types.SpendPolicy", Seed: rapid.Uint64().Draw(t, "seed"), live: reflect.ValueOf(p)}
}

// policyString checks ParseSpendPolicy(p.String()) == p. excl: honour open known findings.
func policyString(p types.SpendPolicy, excl bool) (string, error) {
	sigs, delim := policyClasses(p)
	key := "C20/policy-string"
	switch {
	case sigs:
		key = keySigs
	case delim:
		key = keyDelim
	}
	if excl && ((sigs && stats.KnownOpen(keySigs)) || (delim && stats.KnownOpen(keyDelim))) {
		stats.G().Excluded(key)
		return "", nil
	}
	var s string
	if pv, stack := stats.NoPanic(func() { s = p.String() }); pv != nil {
		return "", stats.Failf(key, "SpendPolicy.String panicked: %v\n%s", pv, stack)
	}
	var got types.SpendPolicy
	if err := safeErr(func() (e error) { got, e = types.ParseSpendPolicy(s); return }); err != nil {
		return s, stats.Failf(key, "ParseSpendPolicy of the policy's own String() failed: %v\n string %s", err, clip([]byte(s)))
	}
	if d := gen.Diff(reflect.ValueOf(p), reflect.ValueOf(got)); d != "" {
		return s, stats.Failf(key, "ParseSpendPolicy(p.String()) != p: %s\n string %s", d, clip([]byte(s)))
	}
	if s2 := got.String(); s2 != s {
		return s, stats.Failf(key+"/reprint", "printing the parsed policy gives a different string:\n first  %s\n second %s", clip([]byte(s)), clip([]byte(s2)))
	}
	return s, nil
}

func checkPolicy(c Case) error {
	rec := stats.G()
	v, err := c.value(tPolicy)
	if err != nil {
		return stats.Failf("", "harness: %v", err)
	}
	p := v.Interface().(types.SpendPolicy)
	s, err := policyString(p, true)
	if err != nil {
		return err
	}
	enc, err := jsonRoundTrip("types.SpendPolicy", v)
	if err != nil {
		return err
	}
	f := features{}
	policyFeatures(p, 0, f)
	labels, _ := f.labels("")
	_, isThresh := p.Type.(types.PolicyTypeThreshold)
	_, isUC := p.Type.(types.PolicyTypeUnlockConditions)
	nt := f["policy:nested-threshold"] || isUC || f["policy:uc"] || (isThresh && len(labels) > 1)
	if s == "" {
		labels = append(labels, "policy:string-part-excluded(known)")
	}
	rec.Case(stats.FP("policy", enc), nt, labels...)
	if nt && rec.WantSample() && len(s) < 400 && s != "" {
		rec.Sample(true, map[string]any{"unit": "policy", "string": s, "json": string(enc)})
	}
	return nil
}

func TestPolicy(t *testing.T)       { stats.Prop(t, drawPolicy, checkPolicy) }
func TestReplayPolicy(t *testing.T) { stats.Replay(t, "TestPolicy", checkPolicy) }
