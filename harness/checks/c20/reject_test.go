package c20

import (
	"bytes"
	"encoding"
	"encoding/hex"
	"encoding/json"
	"fmt"
	"reflect"
	"strings"
	"testing"
	"unicode/utf8"

	rhp3 "go.sia.tech/core/rhp/v3"
	rhp4 "go.sia.tech/core/rhp/v4"
	"go.sia.tech/core/types"
	"golang.org/x/crypto/blake2b"
	"pgregory.net/rapid"
	"verif/harness/stats"
)

const (
	keyCI   = "C20/chainindex-unmarshaltext-overlong-hex"
	keyAcct = "C20/rhp4-account-unmarshaltext-overlong-hex"
)

// A parser turns a string into the identifier's bytes through one public route.
type parser struct {
	name string
	utf8 bool // route can only carry valid UTF-8 (JSON)
	f    func(s string) ([]byte, error)
}

type idKind struct {
	name      string
	size      int    // identifier bytes
	prefix    string // prefix of the canonical text form
	bareOK    bool   // the bare hex form is accepted by documented compatibility (rhp/v4 Account)
	lenient   bool   // surrounding white space is skipped by design (policy string grammar)
	wrap      func(string) string
	knownKey  string // open known finding covering over-long hex for this type ("" if none)
	parsers   []parser
	canonical func(b []byte) string // through the library's printer
}

func textParser[T any, PT interface {
	*T
	encoding.TextUnmarshaler
}]() parser {
	return parser{name: "UnmarshalText", f: func(s string) ([]byte, error) {
		var v T
		err := PT(&v).UnmarshalText([]byte(s))
		return arrayBytes(reflect.ValueOf(v)), err
	}}
}

func jsonParser[T any]() parser {
	return parser{name: "json.Unmarshal", utf8: true, f: func(s string) ([]byte, error) {
		var v T
		err := json.Unmarshal(quoteJSON(s), &v)
		return arrayBytes(reflect.ValueOf(v)), err
	}}
}

func textPrinter[T any](conv func([]byte) T) func([]byte) string {
	return func(b []byte) string {
		t, err := any(conv(b)).(encoding.TextMarshaler).MarshalText()
		if err != nil {
			panic(err)
		}
		return string(t)
	}
}

func conv32[T ~[32]byte](b []byte) T { var a [32]byte; copy(a[:], b); return T(a) }

func hashKind[T ~[32]byte, PT interface {
	*T
	encoding.TextUnmarshaler
}](name, prefix string) idKind {
	return idKind{name: name, size: 32, prefix: prefix, parsers: []parser{textParser[T, PT](), jsonParser[T]()}, canonical: textPrinter(conv32[T])}
}

// policyParser parses "<op>(<token>)" and extracts the 32 identifier bytes.
func policyParser(op string) parser {
	return parser{name: "ParseSpendPolicy", f: func(s string) ([]byte, error) {
		p, err := types.ParseSpendPolicy(s)
		if err != nil {
			return nil, err
		}
		switch pt := p.Type.(type) {
		case types.PolicyTypePublicKey:
			return pt[:], nil
		case types.PolicyTypeHash:
			return pt[:], nil
		case types.PolicyTypeOpaque:
			return pt[:], nil
		}
		return nil, nil
	}}
}

func idKinds() []idKind {
	ks := []idKind{
		hashKind[types.Hash256]("types.Hash256", ""),
		hashKind[types.BlockID]("types.BlockID", ""),
		hashKind[types.TransactionID]("types.TransactionID", ""),
		hashKind[types.AttestationID]("types.AttestationID", ""),
		hashKind[types.SiacoinOutputID]("types.SiacoinOutputID", ""),
		hashKind[types.SiafundOutputID]("types.SiafundOutputID", ""),
		hashKind[types.FileContractID]("types.FileContractID", ""),
		hashKind[types.PublicKey]("types.PublicKey", "ed25519:"),
		hashKind[rhp3.Account]("rhp3.Account", "ed25519:"),
		hashKind[rhp4.Account]("rhp4.Account", "ed25519:"),
		{name: "types.Signature", size: 64,
			parsers:   []parser{textParser[types.Signature](), jsonParser[types.Signature]()},
			canonical: textPrinter(func(b []byte) types.Signature { var s types.Signature; copy(s[:], b); return s })},
		{name: "rhp3.SettingsID", size: 16,
			parsers: []parser{
				{name: "LoadString", f: func(s string) ([]byte, error) { var v rhp3.SettingsID; err := v.LoadString(s); return v[:], err }},
				jsonParser[rhp3.SettingsID](),
			},
			canonical: func(b []byte) string { var s rhp3.SettingsID; copy(s[:], b); return s.String() }},
	}
	for i := range ks {
		if ks[i].name == "rhp4.Account" {
			ks[i].bareOK = true
			ks[i].knownKey = keyAcct
		}
	}
	for _, op := range []string{"pk", "h", "opaque"} {
		op := op
		ks = append(ks, idKind{name: "policy-string:" + op, size: 32, prefix: "0x", lenient: true,
			wrap:    func(s string) string { return op + "(" + s + ")" },
			parsers: []parser{policyParser(op)},
			canonical: func(b []byte) string {
				var a [32]byte
				copy(a[:], b)
				switch op {
				case "pk":
					return strings.TrimSuffix(strings.TrimPrefix(types.PolicyPublicKey(a).String(), "pk("), ")")
				case "h":
					return strings.TrimSuffix(strings.TrimPrefix(types.PolicyHash(a).String(), "h("), ")")
				}
				return strings.TrimSuffix(strings.TrimPrefix(types.SpendPolicy{Type: types.PolicyTypeOpaque(a)}.String(), "opaque("), ")")
			}})
	}
	return append(ks, jsonFieldKinds()...)
}

// jsonFieldKind covers a fixed-size hex string that only exists as a field of a JSON object
// (storage proof leaves, policy preimages): tmpl is a valid object, set replaces the field.
func jsonFieldKind(name string, size int, tmpl any, field string, inList bool, get func(raw []byte) ([]byte, error)) idKind {
	build := func(s string) []byte {
		b, err := json.Marshal(tmpl)
		if err != nil {
			panic(err)
		}
		var m map[string]json.RawMessage
		if err := json.Unmarshal(b, &m); err != nil {
			panic(err)
		}
		q := quoteJSON(s)
		if inList {
			q = append(append([]byte{'['}, q...), ']')
		}
		m[field] = q
		out, err := json.Marshal(m)
		if err != nil {
			panic(err)
		}
		return out
	}
	return idKind{name: name, size: size,
		parsers: []parser{{name: "json.Unmarshal", utf8: true, f: func(s string) ([]byte, error) { return get(build(s)) }}},
		canonical: func(b []byte) string {
			// the library prints the field as plain lower-case hex: check through a round trip of the object
			got, err := get(build(hexOf(b)))
			if err != nil || !bytes.Equal(got, b) {
				return fmt.Sprintf("<%x, %v>", got, err)
			}
			return hexOf(b)
		}}
}

func jsonFieldKinds() []idKind {
	return []idKind{
		jsonFieldKind("json:StorageProof.leaf", 64, types.StorageProof{}, "leaf", false, func(raw []byte) ([]byte, error) {
			var sp types.StorageProof
			err := json.Unmarshal(raw, &sp)
			return sp.Leaf[:], err
		}),
		jsonFieldKind("json:V2StorageProof.leaf", 64, types.V2StorageProof{}, "leaf", false, func(raw []byte) ([]byte, error) {
			var sp types.V2StorageProof
			err := json.Unmarshal(raw, &sp)
			return sp.Leaf[:], err
		}),
		jsonFieldKind("json:SatisfiedPolicy.preimage", 32, types.SatisfiedPolicy{Policy: types.AnyoneCanSpend()}, "preimages", true, func(raw []byte) ([]byte, error) {
			var sp types.SatisfiedPolicy
			if err := json.Unmarshal(raw, &sp); err != nil {
				return nil, err
			}
			if len(sp.Preimages) != 1 {
				return nil, fmt.Errorf("harness: %d preimages", len(sp.Preimages))
			}
			return sp.Preimages[0][:], nil
		}),
	}
}

func idKindByName(name string) *idKind {
	for _, k := range idKinds() {
		if k.name == name {
			k := k
			return &k
		}
	}
	return nil
}

// RejectCase is one identifier (or address / chain index) to corrupt.
type RejectCase struct {
	Kind   string `json:"kind"`   // an idKind name, "types.Address" or "types.ChainIndex"
	Bytes  string `json:"bytes"`  // identifier bytes, hex
	Height uint64 `json:"height"` // chain index only
	Seed   uint64 `json:"seed"`   // positions / characters of the sampled corruptions
}

type corruption struct {
	class  string
	s      string
	sameOK bool // may be accepted, but only as the original value (hex case, documented compatibility)
}

func isHex(c byte) bool {
	return ('0' <= c && c <= '9') || ('a' <= c && c <= 'f') || ('A' <= c && c <= 'F')
}

// overlong is the input class of the two known over-long-hex panics: at least size+1 full
// bytes of hex digits where size bytes are expected.
func overlong(hexpart string, size int) bool {
	n := 2*size + 2
	if len(hexpart) < n {
		return false
	}
	for i := 0; i < n; i++ {
		if !isHex(hexpart[i]) {
			return false
		}
	}
	return true
}

var badChars = []string{"g", "G", "z", "x", "O", "l", "-", "_", ":", ".", " ", "\n", "\t", "\x00", "é", "０", "\xff"}

// corruptions of prefix+hexpart: wrong length, wrong prefix, wrong alphabet.
func corruptions(prefix, hexpart string, bareOK, lenient bool, seed uint64) []corruption {
	s := prefix + hexpart
	var out []corruption
	add := func(class, x string, same bool) {
		if x != s {
			out = append(out, corruption{class, x, same})
		}
	}
	pos := func() int { return int(splitmix(&seed) % uint64(len(hexpart))) }
	hexch := func() string { return string("0123456789abcdef"[splitmix(&seed)%16]) }
	// ---- length
	add("len:-1char", s[:len(s)-1], false)
	add("len:-1char-front", prefix+hexpart[1:], false)
	add("len:+1char", s+hexch(), false)
	add("len:+1char-front", prefix+hexch()+hexpart, false)
	add("len:-1byte", s[:len(s)-2], false)
	add("len:-1byte-front", prefix+hexpart[2:], false)
	add("len:+1byte", s+hexch()+hexch(), false)
	add("len:+1byte-zero", s+"00", false)
	add("len:+1byte-front", prefix+"00"+hexpart, false)
	add("len:double-hex", prefix+hexpart+hexpart, false)
	add("len:double-all", s+s, false)
	add("len:half", prefix+hexpart[:len(hexpart)/2], false)
	add("len:empty", "", false)
	add("len:prefix-only", prefix, false)
	add("len:+many", s+strings.Repeat("ab", 40), false)
	i := pos()
	add("len:-1char-middle", prefix+hexpart[:i]+hexpart[i+1:], false)
	add("len:+1char-middle", prefix+hexpart[:i]+hexch()+hexpart[i:], false)
	// ---- prefix
	if prefix != "" {
		add("prefix:missing", hexpart, bareOK)
		add("prefix:doubled", prefix+s, false)
		add("prefix:upper", strings.ToUpper(prefix)+hexpart, false)
		add("prefix:truncated", prefix[:len(prefix)-1]+hexpart, false)
		add("prefix:one-off", prefix[:len(prefix)-2]+string(prefix[len(prefix)-2]+1)+prefix[len(prefix)-1:]+hexpart, false)
		add("prefix:trailing", hexpart+prefix, false)
	}
	for _, p := range []string{"0x", "0X", "h:", "ed25519:", "addr:", "0x0x", ":", "sia:", "curve25519:"} {
		if p != prefix {
			add("prefix:foreign("+p+")", p+hexpart, false)
			if prefix != "" {
				add("prefix:foreign+own("+p+")", p+s, false)
			}
		}
	}
	// ---- alphabet: one character replaced (same length in characters)
	for _, bad := range badChars {
		i := pos()
		class := "alphabet:" + fmt.Sprintf("%q", bad)
		add(class, prefix+hexpart[:i]+bad+hexpart[i+1:], false)
	}
	add("alphabet:first", prefix+"g"+hexpart[1:], false)
	add("alphabet:last", prefix+hexpart[:len(hexpart)-1]+"g", false)
	add("alphabet:all", prefix+strings.Repeat("zz", len(hexpart)/2), false)
	// ---- surrounding white space (wrong length and alphabet)
	add("space:leading", " "+s, lenient)
	add("space:trailing", s+" ", lenient)
	add("space:newline", s+"\n", lenient)
	add("space:inner", prefix+" "+hexpart, lenient && prefix == "")
	// ---- hex case is the one tolerated variation
	add("case:upper", prefix+strings.ToUpper(hexpart), true)
	j := pos()
	add("case:one-upper", prefix+hexpart[:j]+strings.ToUpper(hexpart[j:j+1])+hexpart[j+1:], true)
	return out
}

func judge(key, kind, route string, c corruption, want, got []byte, err error) error {
	if isPanic(err) {
		return stats.Failf(key, "%s: %s(%q) [%s] panicked instead of returning an error: %v", kind, route, c.s, c.class, err)
	}
	if err != nil {
		return nil
	}
	if !bytes.Equal(got, want) {
		return stats.Failf(key, "%s: %s accepted the corrupted identifier %q [%s] as a different value %x (original %x)", kind, route, c.s, c.class, got, want)
	}
	if !c.sameOK {
		return stats.Failf(key, "%s: %s accepted the malformed identifier %q [%s] without an error (it parsed to the original value)", kind, route, c.s, c.class)
	}
	return nil
}

func checkReject(c RejectCase) error {
	rec := stats.G()
	raw, err := hex.DecodeString(c.Bytes)
	if err != nil {
		return stats.Failf("", "harness: bad case bytes: %v", err)
	}
	rejected, same, excluded := 0, 0, 0
	count := func(e error, cr corruption) {
		if e != nil {
			rejected++
		} else if cr.sameOK {
			same++
		}
	}
	switch c.Kind {
	case "types.Address":
		if len(raw) != 32 {
			return stats.Failf("", "harness: address case needs 32 bytes")
		}
		var a types.Address
		copy(a[:], raw)
		sum := blake2b.Sum256(a[:])
		s := hexOf(a[:]) + hexOf(sum[:6])
		if got := a.String(); got != s {
			return stats.Failf("C20/text/types.Address/form", "Address.String gives %q, the documented form is %q", got, s)
		}
		parse := func(x string) ([]byte, error) {
			var v types.Address
			err := safeErr(func() error { return v.UnmarshalText([]byte(x)) })
			return v[:], err
		}
		parseJSON := func(x string) ([]byte, error) {
			var v types.Address
			err := safeErr(func() error { return json.Unmarshal(quoteJSON(x), &v) })
			return v[:], err
		}
		// (a) every single-character substitution
		const alphabet = "0123456789abcdefABCDEFgGzZxX: -\x00"
		n := 0
		for i := 0; i < len(s); i++ {
			for k := 0; k < len(alphabet); k++ {
				ch := alphabet[k]
				if ch == s[i] {
					continue
				}
				x := s[:i] + string(ch) + s[i+1:]
				caseOnly := isHex(ch) && strings.EqualFold(string(ch), s[i:i+1])
				cr := corruption{class: fmt.Sprintf("subst@%d", i), s: x, sameOK: caseOnly}
				got, err := parse(x)
				if e := judge("C20/reject/types.Address", c.Kind, "UnmarshalText", cr, a[:], got, err); e != nil {
					return e
				}
				count(err, cr)
				if n++; n%7 == int(c.Seed%7) {
					got, err := parseJSON(x)
					if e := judge("C20/reject/types.Address", c.Kind, "json.Unmarshal", cr, a[:], got, err); e != nil {
						return e
					}
					var v types.Address
					perr := safeErr(func() (e error) { v, e = types.ParseAddress(x); return })
					if e := judge("C20/reject/types.Address", c.Kind, "ParseAddress", cr, a[:], v[:], perr); e != nil {
						return e
					}
				}
			}
		}
		rec.Extra("address-substitutions", uint64(n))
		// (b) length / prefix / alphabet classes
		for _, cr := range corruptions("", s, false, false, c.Seed) {
			got, err := parse(cr.s)
			if e := judge("C20/reject/types.Address", c.Kind, "UnmarshalText", cr, a[:], got, err); e != nil {
				return e
			}
			count(err, cr)
			if utf8.ValidString(cr.s) {
				got, err := parseJSON(cr.s)
				if e := judge("C20/reject/types.Address", c.Kind, "json.Unmarshal", cr, a[:], got, err); e != nil {
					return e
				}
			}
		}
		// (c) the 32 address bytes without / with a wrong checksum
		for _, cr := range []corruption{
			{"checksum:missing", hexOf(a[:]), false},
			{"checksum:zero", hexOf(a[:]) + "000000000000", false},
			{"checksum:short", hexOf(a[:]) + hexOf(sum[:5]), false},
			{"checksum:long", hexOf(a[:]) + hexOf(sum[:7]), false},
			{"checksum:full", hexOf(a[:]) + hexOf(sum[:]), false},
			{"checksum:shifted", hexOf(a[:]) + hexOf(sum[1:7]), false},
		} {
			if cr.s == s {
				continue
			}
			got, err := parse(cr.s)
			if e := judge("C20/reject/types.Address", c.Kind, "UnmarshalText", cr, a[:], got, err); e != nil {
				return e
			}
			count(err, cr)
		}

	case "types.ChainIndex":
		if len(raw) != 32 {
			return stats.Failf("", "harness: chain index case needs 32 bytes")
		}
		ci := types.ChainIndex{Height: c.Height}
		copy(ci.ID[:], raw)
		want := fmt.Sprintf("%d::%s", ci.Height, hexOf(raw))
		txt, _ := ci.MarshalText()
		if string(txt) != want {
			return stats.Failf("C20/text/types.ChainIndex/form", "ChainIndex.MarshalText gives %q, the documented form is %q", txt, want)
		}
		wantBytes := append([]byte(fmt.Sprintf("%d/", ci.Height)), raw...)
		routes := []parser{
			{name: "UnmarshalText", f: func(s string) ([]byte, error) {
				var v types.ChainIndex
				err := v.UnmarshalText([]byte(s))
				return append([]byte(fmt.Sprintf("%d/", v.Height)), v.ID[:]...), err
			}},
			{name: "ParseChainIndex", f: func(s string) ([]byte, error) {
				v, err := types.ParseChainIndex(s)
				return append([]byte(fmt.Sprintf("%d/", v.Height)), v.ID[:]...), err
			}},
		}
		hprefix := fmt.Sprintf("%d::", ci.Height)
		var crs []corruption
		for _, cr := range corruptions("", hexOf(raw), false, false, c.Seed) {
			cr.s = hprefix + cr.s
			crs = append(crs, cr)
		}
		h := fmt.Sprint(ci.Height)
		id := hexOf(raw)
		for _, cr := range []corruption{
			{"height:empty", "::" + id, false},
			{"height:negative", "-" + h + "::" + id, false},
			{"height:plus", "+" + h + "::" + id, false},
			{"height:decimal-point", h + ".0::" + id, false},
			{"height:hex", "0x" + h + "::" + id, false},
			{"height:space", " " + h + "::" + id, false},
			{"height:trailing-space", h + " ::" + id, false},
			{"height:overflow", "18446744073709551616::" + id, false},
			{"height:overflow-digits", "184467440737095516150::" + id, false},
			{"height:fullwidth", "１::" + id, false},
			{"height:exponent", "1e3::" + id, false},
			{"height:underscore", "1_0::" + id, false},
			{"sep:single", h + ":" + id, false},
			{"sep:triple", h + ":::" + id, false},
			{"sep:none", h + id, false},
			{"sep:twice", h + "::" + id + "::", false},
			{"sep:twice-front", "::" + h + "::" + id, false},
			{"sep:three-parts", h + "::" + h + "::" + id, false},
			{"sep:other", h + "--" + id, false},
			{"swapped", id + "::" + h, false},
			{"id-only", id, false},
			{"height-only", h, false},
			{"display-form", ci.String(), false},
		} {
			if cr.s != want {
				crs = append(crs, cr)
			}
		}
		for _, cr := range crs {
			if parts := strings.Split(cr.s, "::"); len(parts) == 2 && overlong(parts[1], 32) && stats.KnownOpen(keyCI) {
				rec.Excluded(keyCI)
				excluded++
				continue
			}
			key := "C20/reject/types.ChainIndex"
			if parts := strings.Split(cr.s, "::"); len(parts) == 2 && overlong(parts[1], 32) {
				key = keyCI
			}
			for _, r := range routes {
				var got []byte
				err := safeErr(func() (e error) { got, e = r.f(cr.s); return })
				if cr.class == "display-form" && err == nil && bytes.Equal(got, wantBytes) {
					continue // an ID with 28 leading zero bytes cannot occur (the display form has 8 hex digits), kept for completeness
				}
				if e := judge(key, c.Kind, r.name, cr, wantBytes, got, err); e != nil {
					return e
				}
				count(err, cr)
			}
		}

	default:
		k := idKindByName(c.Kind)
		if k == nil {
			return stats.Failf("", "harness: unknown reject kind %q", c.Kind)
		}
		if len(raw) != k.size {
			return stats.Failf("", "harness: %s case needs %d bytes", k.name, k.size)
		}
		want := k.prefix + hexOf(raw)
		if got := k.canonical(raw); got != want {
			return stats.Failf("C20/text/"+k.name+"/form", "%s prints %q, the documented form is %q", k.name, got, want)
		}
		wrap := func(s string) string {
			if k.wrap != nil {
				return k.wrap(s)
			}
			return s
		}
		// control: the canonical form parses to the identifier through every route
		for _, r := range k.parsers {
			var got []byte
			err := safeErr(func() (e error) { got, e = r.f(wrap(want)); return })
			if err != nil || !bytes.Equal(got, raw) {
				return stats.Failf("C20/text/"+k.name, "%s: %s(%q) gives %x, %v (want %x)", k.name, r.name, wrap(want), got, err, raw)
			}
		}
		for _, cr := range corruptions(k.prefix, hexOf(raw), k.bareOK, k.lenient, c.Seed) {
			if k.wrap != nil && strings.ContainsAny(cr.s, "(),[]") {
				continue // would change the token structure of the policy string, not the identifier
			}
			key := "C20/reject/" + k.name
			if k.knownKey != "" && overlong(strings.TrimPrefix(cr.s, k.prefix), k.size) {
				if stats.KnownOpen(k.knownKey) {
					rec.Excluded(k.knownKey)
					excluded++
					continue
				}
				key = k.knownKey
			}
			for _, r := range k.parsers {
				if r.utf8 && !utf8.ValidString(cr.s) {
					continue
				}
				var got []byte
				err := safeErr(func() (e error) { got, e = r.f(wrap(cr.s)); return })
				if e := judge(key, k.name, r.name, cr, raw, got, err); e != nil {
					return e
				}
				count(err, cr)
			}
		}
	}
	rec.Case(stats.FP("reject", c.Kind, raw, c.Height, c.Seed), true, "reject:"+c.Kind)
	rec.Extra("corruptions-rejected", uint64(rejected))
	rec.Extra("corruptions-accepted-as-same-value(hex case / documented compatibility)", uint64(same))
	if excluded > 0 {
		rec.Extra("corruptions-excluded(known)", uint64(excluded))
	}
	if rec.WantSample() {
		rec.Sample(true, map[string]any{"unit": "reject", "kind": c.Kind, "bytes": c.Bytes, "rejected": rejected, "accepted-same": same})
	}
	return nil
}

func rejectKindNames() []string {
	names := []string{"types.Address", "types.Address", "types.ChainIndex"}
	for _, k := range idKinds() {
		names = append(names, k.name)
	}
	return names
}

func drawReject(t *rapid.T) RejectCase {
	names := rejectKindNames()
	c := RejectCase{Kind: names[uniform(t, len(names))], Seed: rapid.Uint64().Draw(t, "seed")}
	size := 32
	if k := idKindByName(c.Kind); k != nil {
		size = k.size
	}
	b := make([]byte, size)
	switch rapid.IntRange(0, 7).Draw(t, "fill") {
	case 0:
		// zero
	case 1:
		for i := range b {
			b[i] = 0xff
		}
	case 2:
		b[size-1] = byte(rapid.IntRange(1, 255).Draw(t, "last"))
	case 3:
		// letters only / digits only hex (case variants matter for letters)
		v := rapid.SampledFrom([]byte{0xab, 0xcd, 0xef, 0x12, 0x90, 0xa0, 0x0a}).Draw(t, "pattern")
		for i := range b {
			b[i] = v
		}
	default:
		seed := rapid.Uint64().Draw(t, "bytes")
		for i := range b {
			b[i] = byte(splitmix(&seed))
		}
	}
	c.Bytes = hexOf(b)
	if c.Kind == "types.ChainIndex" {
		c.Height = rapid.OneOf(rapid.Uint64Range(0, 20), rapid.Uint64(), rapid.Just(^uint64(0))).Draw(t, "height")
	}
	return c
}

func TestReject(t *testing.T)       { stats.Prop(t, drawReject, checkReject) }
func TestReplayReject(t *testing.T) { stats.Replay(t, "TestReject", checkReject) }
