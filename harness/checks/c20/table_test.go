package c20

import (
	"encoding"
	"encoding/json"
	"reflect"
	"sort"
	"strings"
	"sync"
	"time"

	"go.sia.tech/core/consensus"
	rhp2 "go.sia.tech/core/rhp/v2"
	rhp3 "go.sia.tech/core/rhp/v3"
	rhp4 "go.sia.tech/core/rhp/v4"
	"go.sia.tech/core/types"
	"verif/harness/gen"
)

// Kind is one public type with a JSON and/or text form.
type Kind struct {
	Name string // "<pkg>.<Type>"
	Type reflect.Type
	JSON bool // json.Marshal / json.Unmarshal round trip is checked
	Text bool // *T implements encoding.TextUnmarshaler and T encoding.TextMarshaler
	Why  string
}

func ty[T any]() reflect.Type {
	var z *T
	return reflect.TypeOf(z).Elem()
}

var (
	tTextM = reflect.TypeOf((*encoding.TextMarshaler)(nil)).Elem()
	tTextU = reflect.TypeOf((*encoding.TextUnmarshaler)(nil)).Elem()
	tJSONM = reflect.TypeOf((*json.Marshaler)(nil)).Elem()
	tJSONU = reflect.TypeOf((*json.Unmarshaler)(nil)).Elem()
)

func pkgKey(t reflect.Type) string {
	switch t.PkgPath() {
	case "go.sia.tech/core/types":
		return "types"
	case "go.sia.tech/core/consensus":
		return "consensus"
	case "go.sia.tech/core/gateway":
		return "gateway"
	case "go.sia.tech/core/rhp/v2":
		return "rhp2"
	case "go.sia.tech/core/rhp/v3":
		return "rhp3"
	case "go.sia.tech/core/rhp/v4":
		return "rhp4"
	}
	return t.PkgPath()
}

func hasJSONTag(t reflect.Type) bool {
	if t.Kind() != reflect.Struct {
		return false
	}
	for i := 0; i < t.NumField(); i++ {
		if _, ok := t.Field(i).Tag.Lookup("json"); ok {
			return true
		}
	}
	return false
}

var (
	kindsOnce sync.Once
	kinds     []*Kind
	kindMap   map[string]*Kind
)

// explicitTypes are the types named by the property (and everything they are made of
// that has a form of its own). rhp/v4 RPC objects with json tags are added from
// gen.Registry() by reflection.
func explicitTypes() []reflect.Type {
	return []reflect.Type{
		// identifiers and small text types
		ty[types.Hash256](), ty[types.BlockID](), ty[types.TransactionID](), ty[types.AttestationID](),
		ty[types.SiacoinOutputID](), ty[types.SiafundOutputID](), ty[types.FileContractID](),
		ty[types.Address](), ty[types.PublicKey](), ty[types.Signature](), ty[types.Specifier](),
		ty[types.UnlockKey](), ty[types.UnlockConditions](), ty[types.ChainIndex](), ty[types.Currency](),
		// v1 objects
		ty[types.SiacoinOutput](), ty[types.SiafundOutput](), ty[types.SiacoinInput](), ty[types.SiafundInput](),
		ty[types.FileContract](), ty[types.FileContractRevision](), ty[types.StorageProof](),
		ty[types.FoundationAddressUpdate](), ty[types.CoveredFields](), ty[types.TransactionSignature](),
		ty[types.Transaction](),
		// policies
		ty[types.SpendPolicy](), ty[types.SatisfiedPolicy](), ty[types.PolicyTypeThreshold](),
		// elements
		ty[types.StateElement](), ty[types.ChainIndexElement](), ty[types.SiacoinElement](), ty[types.SiafundElement](),
		ty[types.FileContractElement](), ty[types.V2FileContractElement](), ty[types.AttestationElement](),
		// v2 objects
		ty[types.V2SiacoinInput](), ty[types.V2SiafundInput](), ty[types.V2FileContract](), ty[types.V2FileContractRevision](),
		ty[types.V2FileContractRenewal](), ty[types.V2StorageProof](), ty[types.V2FileContractExpiration](),
		ty[types.V2FileContractResolution](), ty[types.Attestation](), ty[types.V2Transaction](),
		ty[types.V2BlockData](), ty[types.BlockHeader](), ty[types.Block](),
		// consensus
		ty[consensus.Work](), ty[consensus.ElementAccumulator](), ty[consensus.State](), ty[consensus.Network](),
		ty[consensus.V1StorageProofSupplement](), ty[consensus.V1TransactionSupplement](), ty[consensus.V1BlockSupplement](),
		ty[consensus.SiacoinElementDiff](), ty[consensus.SiafundElementDiff](),
		ty[consensus.FileContractElementDiff](), ty[consensus.V2FileContractElementDiff](),
		// rhp
		ty[rhp2.HostSettings](),
		ty[rhp3.HostPriceTable](), ty[rhp3.SettingsID](), ty[rhp3.Account](),
		ty[rhp4.HostPrices](), ty[rhp4.HostSettings](), ty[rhp4.Account](), ty[rhp4.AccountToken](),
		ty[rhp4.ProtocolVersion](), ty[rhp4.Usage](), ty[rhp4.AccountDeposit](), ty[rhp4.PoolAttachment](), ty[rhp4.PoolDetachment](),
		ty[rhp4.RPCFormContractParams](), ty[rhp4.RPCRefreshContractParams](), ty[rhp4.RPCRenewContractParams](),
	}
}

// Kinds returns the table, sorted by name.
func Kinds() []*Kind {
	kindsOnce.Do(func() {
		seen := map[reflect.Type]bool{}
		add := func(t reflect.Type, why string) {
			if seen[t] {
				return
			}
			seen[t] = true
			pt := reflect.PointerTo(t)
			k := &Kind{Name: pkgKey(t) + "." + t.Name(), Type: t, JSON: true, Why: why}
			k.Text = pt.Implements(tTextU) && t.Implements(tTextM)
			kinds = append(kinds, k)
		}
		for _, t := range explicitTypes() {
			add(t, "named by the property / has a hand-written or tagged form")
		}
		for _, e := range gen.Registry() {
			if e.Pkg == "rhp4" && hasJSONTag(e.Type) {
				add(e.Type, "rhp/v4 object with json tags")
			}
		}
		sort.Slice(kinds, func(i, j int) bool { return kinds[i].Name < kinds[j].Name })
		kindMap = map[string]*Kind{}
		for _, k := range kinds {
			if kindMap[k.Name] != nil {
				panic("c20: duplicate kind " + k.Name)
			}
			kindMap[k.Name] = k
		}
	})
	return kinds
}

func lookupKind(name string) *Kind {
	Kinds()
	return kindMap[name]
}

// notCovered lists types of the repository that have a JSON/text method or json tags but
// are deliberately not rows of the table, with the reason (used by the completeness guard).
func notCovered() map[string]string {
	return map[string]string{
		"consensus.ApplyUpdate":          "unexported state: generated by the chain simulator, checked by TestUpdates / TestUpdatesSynthetic",
		"consensus.RevertUpdate":         "unexported state: generated by the chain simulator, checked by TestUpdates / TestUpdatesSynthetic",
		"consensus.applyUpdateJSON":      "unexported helper of ApplyUpdate's JSON form (covered through it)",
		"consensus.revertUpdateJSON":     "unexported helper of RevertUpdate's JSON form (covered through it)",
		"consensus.elementLeaf":          "unexported leaf record inside ApplyUpdate/RevertUpdate JSON (covered through them)",
		"consensus.HardforkDevAddr":      "anonymous member struct of Network (covered through consensus.Network)",
		"consensus.HardforkTax":          "anonymous member struct of Network (covered through consensus.Network)",
		"consensus.HardforkStorageProof": "anonymous member struct of Network (covered through consensus.Network)",
		"consensus.HardforkOak":          "anonymous member struct of Network (covered through consensus.Network)",
		"consensus.HardforkASIC":         "anonymous member struct of Network (covered through consensus.Network)",
		"consensus.HardforkFoundation":   "anonymous member struct of Network (covered through consensus.Network)",
		"consensus.HardforkV2":           "anonymous member struct of Network (covered through consensus.Network)",
	}
}

// ---------------------------------------------------------------- generator overrides (this test binary only)

// minUnix is 0000-01-01T00:00:00Z: the property's time domain is years 0..9999.
const minUnix = -62167219200

func wideTime(c *gen.Ctx) time.Time {
	var s int64
	switch c.Intn(14) {
	case 0:
		s = 0
	case 1:
		s = minUnix
	case 2:
		s = minUnix + int64(c.Intn(3))
	case 3:
		s = gen.MaxUnix - int64(c.Intn(3))
	case 4:
		s = -1 - int64(c.Intn(3))
	case 5:
		s = -62135596800 + int64(c.Intn(3)) - 1 // around the zero time.Time (year 1)
	case 6:
		s = 1<<31 + int64(c.Intn(3)) - 1
	case 7:
		s = 1<<32 + int64(c.Intn(3)) - 1
	case 8, 9:
		s = 1_500_000_000 + int64(c.Intn(1<<30))
	default:
		span := uint64(gen.MaxUnix - minUnix + 1)
		s = minUnix + int64(c.Seed()%span)
	}
	if s == (time.Time{}).Unix() {
		return time.Time{} // the zero time keeps its exact representation (as in gen.Load)
	}
	return time.Unix(s, 0) // TestMain pins time.Local to UTC
}

var specAlnum = []byte("abcdefghijklmnopqrstuvwxyzABCDEFGHIJKLMNOPQRSTUVWXYZ0123456789")
var specPunct = []byte("()[],:\"\\ '`-_.;/<>&{}=+*%$#@!?^~|\t\n")
var specRunes = []string{"\u00e9", "\u00fc", "\u03a9", "\u4e16", "\u754c", "\U0001F600", "\u00a0", "\u2028", "\ufffd", "\u200b"}

func drawSpecifier(c *gen.Ctx) types.Specifier {
	var s types.Specifier
	put := func(b []byte) { copy(s[:], b) }
	rnd := func(alpha []byte, n int) []byte {
		seed := c.Seed()
		out := make([]byte, n)
		var w [8]byte
		for i := range out {
			if i%8 == 0 {
				gen.FillSeed(w[:], seed+uint64(i))
			}
			out[i] = alpha[int(w[i%8])%len(alpha)]
		}
		return out
	}
	switch c.Intn(16) {
	case 0, 1, 2:
		s = types.SpecifierEd25519
	case 3:
		s = types.SpecifierEntropy
	case 4:
		// zero specifier
	case 5:
		put(rnd(specAlnum, 1+c.Intn(16)))
	case 6:
		put(rnd(specAlnum, 16))
	case 7:
		// printable ASCII incl. every delimiter of the policy string grammar and the quoting characters
		put(rnd(append(append([]byte{}, specAlnum[:10]...), specPunct...), 1+c.Intn(16)))
	case 8:
		// one delimiter somewhere in an otherwise alphanumeric name
		b := rnd(specAlnum, 2+c.Intn(14))
		b[c.Intn(len(b))] = specPunct[c.Intn(len(specPunct))]
		put(b)
	case 9:
		// embedded / leading NUL
		b := rnd(specAlnum, 3+c.Intn(13))
		b[c.Intn(len(b)-1)] = 0
		put(b)
	case 10:
		// arbitrary bytes (mostly invalid UTF-8)
		b := make([]byte, 1+c.Intn(16))
		gen.FillSeed(b, c.Seed())
		put(b)
	case 11:
		// multi-byte runes up to the 16-byte limit
		var b []byte
		for len(b) < 16 {
			r := specRunes[c.Intn(len(specRunes))]
			if len(b)+len(r) > 16 || (len(b) > 0 && c.Intn(5) == 0) {
				break
			}
			b = append(b, r...)
		}
		put(b)
	case 12:
		// starts with a quote / looks like an already quoted string
		b := append([]byte{'"'}, rnd(specAlnum, c.Intn(12))...)
		if c.Bool() {
			b = append(b, '"')
		}
		put(b)
	case 13:
		// leading / trailing white space
		b := rnd(specAlnum, 1+c.Intn(10))
		ws := []byte{' ', '\t', '\n', '\r'}[c.Intn(4)]
		if c.Bool() {
			b = append([]byte{ws}, b...)
		} else {
			b = append(b, ws)
		}
		put(b)
	case 14:
		// a truncated multi-byte rune at the end (invalid UTF-8 tail)
		b := rnd(specAlnum, 1+c.Intn(12))
		r := specRunes[c.Intn(6)]
		b = append(b, r[:len(r)-1]...)
		put(b)
	default:
		c.Fill(s[:])
	}
	return s
}

func init() {
	gen.RegisterOverride(ty[time.Time](), func(c *gen.Ctx) reflect.Value { return reflect.ValueOf(wideTime(c)) })
	gen.RegisterOverride(ty[types.Specifier](), func(c *gen.Ctx) reflect.Value { return reflect.ValueOf(drawSpecifier(c)) })
	// unresolved contracts (nil resolution) are as common as the three resolution kinds
	gen.RegisterPost(ty[consensus.V2FileContractElementDiff](), func(c *gen.Ctx, v reflect.Value) {
		if c.Intn(4) == 0 {
			v.Addr().Interface().(*consensus.V2FileContractElementDiff).Resolution = nil
		}
	})
}

// needsQuote restates when a specifier's text form is a quoted Go string.
func needsQuote(s types.Specifier) bool {
	b := strings.TrimRight(string(s[:]), "\x00")
	for _, c := range b {
		if !(('A' <= c && c <= 'Z') || ('a' <= c && c <= 'z') || ('0' <= c && c <= '9')) {
			return true
		}
	}
	return false
}
