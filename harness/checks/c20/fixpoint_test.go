package c20

import (
	"encoding"
	"encoding/hex"
	"fmt"
	"reflect"
	"strings"
	"testing"

	"go.sia.tech/core/types"
	"pgregory.net/rapid"
	"verif/harness/gen"
	"verif/harness/stats"
)

// A form is one parse/print pair of the library.
type form struct {
	name  string
	typ   reflect.Type
	print func(v reflect.Value) string
	parse func(s string) (reflect.Value, error)
}

func textForm(k *Kind) form {
	return form{
		name: "text:" + k.Name, typ: k.Type,
		print: func(v reflect.Value) string {
			b, err := v.Interface().(encoding.TextMarshaler).MarshalText()
			if err != nil {
				panic(err)
			}
			return string(b)
		},
		parse: func(s string) (reflect.Value, error) {
			p := reflect.New(k.Type)
			err := p.Interface().(encoding.TextUnmarshaler).UnmarshalText([]byte(s))
			return p.Elem(), err
		},
	}
}

func forms() []form {
	fs := []form{
		{name: "ParseSpendPolicy", typ: tPolicy,
			print: func(v reflect.Value) string { return v.Interface().(types.SpendPolicy).String() },
			parse: func(s string) (reflect.Value, error) {
				p, err := types.ParseSpendPolicy(s)
				return reflect.ValueOf(p), err
			}},
		{name: "ParseCurrency", typ: tCurrency,
			print: func(v reflect.Value) string { return v.Interface().(types.Currency).String() },
			parse: func(s string) (reflect.Value, error) {
				c, err := types.ParseCurrency(s)
				return reflect.ValueOf(c), err
			}},
		{name: "ParseCurrency/exact", typ: tCurrency,
			print: func(v reflect.Value) string { return v.Interface().(types.Currency).ExactString() },
			parse: func(s string) (reflect.Value, error) {
				c, err := types.ParseCurrency(s)
				return reflect.ValueOf(c), err
			}},
	}
	for _, k := range Kinds() {
		if k.Text {
			fs = append(fs, textForm(k))
		}
	}
	return fs
}

func formByName(name string) *form {
	for _, f := range forms() {
		if f.name == name {
			f := f
			return &f
		}
	}
	return nil
}

// FixCase is a (usually corrupted) printed form.
type FixCase struct {
	Form string `json:"form"`
	Text string `json:"text"` // hex of the bytes handed to the parser
}

const mutAlphabet = "0123456789abcdefABCDEF():,[]\"\\ .-+_xeEvSCHpnumKMGT/\x00\xff\n"

func drawFix(t *rapid.T) FixCase {
	fs := forms()
	f := fs[uniform(t, len(fs))]
	o := genOpts()
	o.Fuel = 12
	v := gen.Value(t, f.typ, o)
	if f.typ == tPolicy {
		// keep the printed policy inside what the grammar can express (the two known classes are TestPolicy's business)
		p := mapPolicy(v.Interface().(types.SpendPolicy), func(q types.SpendPolicy) types.SpendPolicy {
			if uc, ok := q.Type.(types.PolicyTypeUnlockConditions); ok {
				uc.SignaturesRequired %= 256
				keys := append([]types.UnlockKey(nil), uc.PublicKeys...)
				for i := range keys {
					for j, b := range keys[i].Algorithm {
						if strings.IndexByte(policyDelims, b) >= 0 {
							keys[i].Algorithm[j] = '_'
						}
					}
				}
				uc.PublicKeys = keys
				return types.SpendPolicy{Type: uc}
			}
			return q
		})
		v = reflect.ValueOf(p)
	}
	s := []byte(f.print(v))
	for n := rapid.IntRange(0, 3).Draw(t, "edits"); n > 0; n-- {
		pos := 0
		if len(s) > 0 {
			pos = rapid.IntRange(0, len(s)-1).Draw(t, "pos")
		}
		ch := mutAlphabet[rapid.IntRange(0, len(mutAlphabet)-1).Draw(t, "ch")]
		switch rapid.IntRange(0, 7).Draw(t, "edit") {
		case 0, 1: // replace
			if len(s) > 0 {
				s[pos] = ch
			}
		case 2: // insert
			s = append(s[:pos], append([]byte{ch}, s[pos:]...)...)
		case 3: // delete
			if len(s) > 0 {
				s = append(s[:pos], s[pos+1:]...)
			}
		case 4: // duplicate a span
			end := pos + rapid.IntRange(1, 70).Draw(t, "span")
			if end > len(s) {
				end = len(s)
			}
			s = append(s[:end], append(append([]byte{}, s[pos:end]...), s[end:]...)...)
		case 5: // truncate
			s = s[:pos]
		case 6: // append
			s = append(s, ch)
		case 7: // swap the case of a letter
			if len(s) > 0 {
				switch c := s[pos]; {
				case 'a' <= c && c <= 'z':
					s[pos] = c - 32
				case 'A' <= c && c <= 'Z':
					s[pos] = c + 32
				}
			}
		}
	}
	return FixCase{Form: f.name, Text: hex.EncodeToString(s)}
}

// knownOverlong classifies an input of the two over-long-hex panics.
func knownOverlong(formName, s string) string {
	switch formName {
	case "text:types.ChainIndex":
		if parts := strings.Split(s, "::"); len(parts) == 2 && overlong(parts[1], 32) {
			return keyCI
		}
	case "text:rhp4.Account":
		if overlong(strings.TrimPrefix(s, "ed25519:"), 32) {
			return keyAcct
		}
	}
	return ""
}

func checkFix(c FixCase) error {
	rec := stats.G()
	f := formByName(c.Form)
	if f == nil {
		return stats.Failf("", "harness: unknown form %q", c.Form)
	}
	raw, err := hex.DecodeString(c.Text)
	if err != nil {
		return stats.Failf("", "harness: bad case text: %v", err)
	}
	s := string(raw)
	key := "C20/fixpoint/" + f.name
	if k := knownOverlong(f.name, s); k != "" {
		if stats.KnownOpen(k) {
			rec.Excluded(k)
			return nil
		}
		key = k
	}
	var v1 reflect.Value
	perr := safeErr(func() (e error) { v1, e = f.parse(s); return })
	if isPanic(perr) {
		return stats.Failf(key, "%s(%q) panicked: %v", f.name, s, perr)
	}
	if perr != nil {
		rec.Case(stats.FP("fix", f.name, raw), false, "fixpoint-rejected:"+f.name)
		return nil
	}
	var s2 string
	if pv, stack := stats.NoPanic(func() { s2 = f.print(v1) }); pv != nil {
		return stats.Failf(key, "%s: printing the value parsed from %q panicked: %v\n%s", f.name, s, pv, stack)
	}
	var v2 reflect.Value
	perr = safeErr(func() (e error) { v2, e = f.parse(s2); return })
	if perr != nil {
		return stats.Failf(key, "%s accepted %q, but the value prints as %q which it refuses: %v", f.name, s, s2, perr)
	}
	if d := gen.Diff(v1, v2); d != "" {
		return stats.Failf(key, "%s accepted %q; printing and parsing the value again gives a different value: %s (printed %q)", f.name, s, d, s2)
	}
	label := "fixpoint-accepted-canonical:"
	if s2 != s {
		label = "fixpoint-accepted-noncanonical:"
	}
	rec.Case(stats.FP("fix", f.name, raw), true, label+f.name)
	if s2 != s && rec.WantSample() && len(s) < 200 {
		rec.Sample(true, map[string]any{"unit": "fixpoint", "form": f.name, "input": fmt.Sprintf("%q", s), "printed": s2})
	}
	return nil
}

func TestFixpoint(t *testing.T)       { stats.Prop(t, drawFix, checkFix) }
func TestReplayFixpoint(t *testing.T) { stats.Replay(t, "TestFixpoint", checkFix) }
