package c20

import (
	"testing"

	"verif/harness/stats"
)

// Native coverage-guided fuzzing (thorough tier) of the rapid properties of this package: the fuzz input is the
// byte stream the rapid generator draws from, the checker and the replay format are those of the named rapid unit.
func FuzzPolicy(f *testing.F)   { stats.FuzzProp(f, "TestPolicy", drawPolicy, checkPolicy) }
func FuzzReject(f *testing.F)   { stats.FuzzProp(f, "TestReject", drawReject, checkReject) }
func FuzzFixpoint(f *testing.F) { stats.FuzzProp(f, "TestFixpoint", drawFix, checkFix) }
func FuzzJSON(f *testing.F) {
	stats.FuzzProp(f, "TestJSON", drawFor(myKinds(func(k *Kind) bool { return k.JSON })), checkJSON)
}
